import GoatProofs.Lemmas.C11Crit
/-
C11 — crit validation at message level (parsers of every serialisation).
-/
namespace C11
open Model.HeaderTable Model.Header Gen.HeaderTables

theorem jws_guarded : critGuarded jws.knownParams jws.decSteps = true := by decide
theorem jwe_guarded : critGuarded jwe.knownParams jwe.decSteps = true := by decide

/-- every header of the signature passed the crit validation -/
def SigCritOK (s : Sig) : Prop :=
  (∀ h, s.prot = some h → critOK jws.knownParams h.crit = true) ∧
  (∀ h, s.header = some h → critOK jws.knownParams h.crit = true)

theorem jwsParseCompact_crit (o : Oracle) (segs : List String) (m : Msg)
    (h : (jwsParseCompact segs).run o = .ok m) :
    ∀ s ∈ m.sigs, s.header = none ∧ SigCritOK s := by
  unfold jwsParseCompact at h
  split at h
  · obtain ⟨raw, _, h⟩ := PO.run_bind_eq_ok _ _ _ _ h
    obtain ⟨hd, hhd, h⟩ := PO.run_bind_eq_ok _ _ _ _ h
    obtain ⟨_, _, h⟩ := PO.run_bind_eq_ok _ _ _ _ h
    simp at h
    subst h
    intro s hs
    simp at hs
    subst hs
    refine ⟨rfl, ?_, ?_⟩
    · intro h' e; simp at e; subst e
      exact unmarshalWith_crit o _ _ jws_guarded _ _ hhd
    · intro h' e; simp at e
  · simp at h

theorem parseSig_crit (o : Oracle) (w : Wire) (r : Sig × Option Bool)
    (h : (parseSig w).run o = .ok r) : SigCritOK r.1 := by
  unfold parseSig at h
  split at h
  · obtain ⟨prot, hprot, h⟩ := PO.run_bind_eq_ok _ _ _ _ h
    obtain ⟨hdr, hhdr, h⟩ := PO.run_bind_eq_ok _ _ _ _ h
    have hp : ∀ hh, prot.1 = some hh → critOK jws.knownParams hh.crit = true := by
      intro hh e
      split at hprot
      · simp at hprot; rw [← hprot] at e; simp at e
      · obtain ⟨raw, _, hprot⟩ := PO.run_bind_eq_ok _ _ _ _ hprot
        obtain ⟨h0, hh0, hprot⟩ := PO.run_bind_eq_ok _ _ _ _ hprot
        simp at hprot; rw [← hprot] at e; simp at e; subst e
        exact unmarshalWith_crit o _ _ jws_guarded _ _ hh0
      · simp at hprot
    have hu : ∀ hh, hdr = some hh → critOK jws.knownParams hh.crit = true := by
      intro hh e
      split at hhdr
      · simp at hhdr; rw [← hhdr] at e; simp at e
      · obtain ⟨h0, hh0, hhdr⟩ := PO.run_bind_eq_ok _ _ _ _ hhdr
        simp at hhdr; rw [← hhdr] at e; simp at e; subst e
        exact decodeWith_crit o _ _ jws_guarded _ _ hh0
      · simp at hhdr
    split at h
    · simp at h
    · obtain ⟨_, _, h⟩ := PO.run_bind_eq_ok _ _ _ _ h
      simp at h
      rw [← h]
      exact ⟨hp, hu⟩
    · simp at h
  · simp at h

theorem parseSigs_crit (o : Oracle) (ws : List Wire) (i : Nat) (nb : Bool) (r : List Sig × Bool)
    (h : (parseSigs ws i nb).run o = .ok r) : ∀ s ∈ r.1, SigCritOK s := by
  induction ws generalizing i nb r with
  | nil => simp [parseSigs] at h; rw [← h]; simp
  | cons w rest ih =>
    unfold parseSigs at h
    obtain ⟨r1, hr1, h⟩ := PO.run_bind_eq_ok _ _ _ _ h
    obtain ⟨nb', _, h⟩ := PO.run_bind_eq_ok _ _ _ _ h
    obtain ⟨rs, hrs, h⟩ := PO.run_bind_eq_ok _ _ _ _ h
    simp at h
    rw [← h]
    intro s hs
    simp at hs
    rcases hs with e | hs
    · subst e; exact parseSig_crit o w r1 hr1
    · exact ih _ _ _ hrs s hs

theorem jwsParseObj_crit (o : Oracle) (raw : List (String × Wire)) (m : Msg)
    (h : (jwsParseObj raw).run o = .ok m) : ∀ s ∈ m.sigs, SigCritOK s := by
  unfold jwsParseObj at h
  obtain ⟨_, _, h⟩ := PO.run_bind_eq_ok _ _ _ _ h
  obtain ⟨arr, _, h⟩ := PO.run_bind_eq_ok _ _ _ _ h
  obtain ⟨r, hr, h⟩ := PO.run_bind_eq_ok _ _ _ _ h
  simp at h
  rw [← h]
  exact parseSigs_crit o _ _ _ r hr

theorem jwsParseJSON_crit (o : Oracle) (data : Bytes) (m : Msg)
    (h : (jwsParseJSON data).run o = .ok m) : ∀ s ∈ m.sigs, SigCritOK s := by
  unfold jwsParseJSON at h
  obtain ⟨raw, _, h⟩ := PO.run_bind_eq_ok _ _ _ _ h
  split at h
  · exact jwsParseObj_crit o _ m h
  · exact jwsParseObj_crit o _ m h
  · simp at h

/-! ### JWE -/

theorem decodeWith_raw (o : Oracle) (steps : List DecStep) (obj : List (String × Wire)) (h : Header)
    (hd : (decodeWith steps obj).run o = .ok h) : h.raw = obj := by
  unfold decodeWith at hd
  obtain ⟨st, _, hd⟩ := PO.run_bind_eq_ok _ _ _ _ hd
  simp at hd
  rw [← hd]

/-- what ParseJSON guarantees about one per-recipient header relative to the protected (`pm`) and
    shared unprotected (`um`) member lists -/
def RcptOK (pm um : List (String × Wire)) (r : Recipient) : Prop :=
  ∃ hd, r.header = some hd ∧ hd.crit = [] ∧ sharesName hd.raw pm = false ∧ sharesName hd.raw um = false

theorem parseRecipients_ok (o : Oracle) (pm um : List (String × Wire)) (ws : List Wire) (rs : List Recipient)
    (h : (parseRecipients pm um ws).run o = .ok rs) : ∀ r ∈ rs, RcptOK pm um r := by
  induction ws generalizing rs with
  | nil => simp [parseRecipients] at h; subst h; simp
  | cons w rest ih =>
    unfold parseRecipients at h
    obtain ⟨hd, hhd, h⟩ := PO.run_bind_eq_ok _ _ _ _ h
    have hraw := decodeWith_raw o _ _ hd hhd
    split at h
    · simp at h
    · rename_i hlen
      split at h
      · simp at h
      · rename_i hdup
        obtain ⟨_, _, h⟩ := PO.run_bind_eq_ok _ _ _ _ h
        obtain ⟨rs', hrs', h⟩ := PO.run_bind_eq_ok _ _ _ _ h
        simp at h
        rw [← h]
        intro r hr
        simp at hr
        rcases hr with e | hr
        · subst e
          simp only [Bool.or_eq_true, not_or, Bool.not_eq_true] at hdup
          exact ⟨hd, rfl, by simpa using hlen, by rw [hraw]; exact hdup.1, by rw [hraw]; exact hdup.2⟩
        · exact ih _ hrs' r hr

/-- jwe.ParseJSON returns a message only if: the protected header's crit entries are all
    implemented; the shared unprotected and every per-recipient header carry no crit; and no
    Header Parameter name (registered or not) occurs in two of the three positions of a recipient's
    JOSE header (RFC 7516 §7.2.1). -/
theorem jweParseJSON_ok (o : Oracle) (data : Bytes) (m : JweMsg)
    (h : (jweParseJSON data).run o = .ok m) :
    ∃ p u, m.prot = some p ∧ m.unprotected = some u ∧ critOK jwe.knownParams p.crit = true ∧ u.crit = [] ∧
      sharesName u.raw p.raw = false ∧ ∀ r ∈ m.recipients, RcptOK p.raw u.raw r := by
  unfold jweParseJSON at h
  obtain ⟨raw, _, h⟩ := PO.run_bind_eq_ok _ _ _ _ h
  split at h
  · obtain ⟨rawHeader, _, h⟩ := PO.run_bind_eq_ok _ _ _ _ h
    obtain ⟨p, hp, h⟩ := PO.run_bind_eq_ok _ _ _ _ h
    obtain ⟨u, hu, h⟩ := PO.run_bind_eq_ok _ _ _ _ h
    have hpr := decodeWith_raw o _ _ p hp
    have hur := decodeWith_raw o _ _ u hu
    split at h
    · simp at h
    · rename_i hlen
      split at h
      · simp at h
      · rename_i hdup
        obtain ⟨_, _, h⟩ := PO.run_bind_eq_ok _ _ _ _ h
        obtain ⟨_, _, h⟩ := PO.run_bind_eq_ok _ _ _ _ h
        obtain ⟨_, _, h⟩ := PO.run_bind_eq_ok _ _ _ _ h
        obtain ⟨_, _, h⟩ := PO.run_bind_eq_ok _ _ _ _ h
        obtain ⟨rws, _, h⟩ := PO.run_bind_eq_ok _ _ _ _ h
        obtain ⟨rs, hrs, h⟩ := PO.run_bind_eq_ok _ _ _ _ h
        simp at h
        rw [← h]
        refine ⟨p, u, rfl, rfl, decodeWith_crit o _ _ jwe_guarded _ _ hp, by simpa using hlen, ?_, ?_⟩
        · rw [hpr, hur]; simpa using hdup
        · rw [hpr, hur]; exact parseRecipients_ok o _ _ _ rs hrs
  · simp at h

theorem jweParseJSON_crit (o : Oracle) (data : Bytes) (m : JweMsg)
    (h : (jweParseJSON data).run o = .ok m) :
    (∃ p, m.prot = some p ∧ critOK jwe.knownParams p.crit = true) ∧
    (∃ u, m.unprotected = some u ∧ u.crit = []) ∧
    (∀ r ∈ m.recipients, ∃ hd, r.header = some hd ∧ hd.crit = []) := by
  obtain ⟨p, u, hp, hu, hc, huc, _, hr⟩ := jweParseJSON_ok o data m h
  refine ⟨⟨p, hp, hc⟩, ⟨u, hu, huc⟩, ?_⟩
  intro r hr'
  obtain ⟨hd, h1, h2, _⟩ := hr r hr'
  exact ⟨hd, h1, h2⟩

theorem jweParseCompact_crit (o : Oracle) (segs : List String) (m : JweMsg)
    (h : (jweParseCompact segs).run o = .ok m) :
    (∃ p, m.prot = some p ∧ critOK jwe.knownParams p.crit = true) ∧ m.unprotected = none ∧
    (∀ r ∈ m.recipients, r.header = none) := by
  unfold jweParseCompact at h
  split at h
  · obtain ⟨_, _, h⟩ := PO.run_bind_eq_ok _ _ _ _ h
    obtain ⟨p, hp, h⟩ := PO.run_bind_eq_ok _ _ _ _ h
    obtain ⟨_, _, h⟩ := PO.run_bind_eq_ok _ _ _ _ h
    obtain ⟨_, _, h⟩ := PO.run_bind_eq_ok _ _ _ _ h
    obtain ⟨_, _, h⟩ := PO.run_bind_eq_ok _ _ _ _ h
    obtain ⟨_, _, h⟩ := PO.run_bind_eq_ok _ _ _ _ h
    simp at h
    rw [← h]
    refine ⟨⟨p, rfl, unmarshalWith_crit o _ _ jwe_guarded _ _ hp⟩, rfl, ?_⟩
    intro r hr; simp at hr; subst hr; rfl
  · simp at h

end C11
