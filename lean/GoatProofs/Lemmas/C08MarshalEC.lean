import GoatProofs.Lemmas.C08ParseEC
/-
Closed form of MarshalJSON for ECDSA keys and its agreement with the spec encoder.
-/
namespace C08
open Model.JWK Spec.IANA Gen.Consts

/-- the optional parameters of a model key as the parser will see them after marshalling -/
def toCP (o : Oracle) (k : Key) : CP :=
  { kid := if k.kid = "" then none else some k.kid,
    use := if k.use = "" then none else some k.use,
    keyOps := k.keyOps,
    alg := if k.alg = "" then none else some k.alg,
    x5u := k.x5u,
    certs := k.x5c.getD [],
    x5t := thumbVal o "sha1" k.x5t k.x5c,
    x5t256 := thumbVal o "sha256" k.x5tS256 k.x5c }

theorem toCP_toSpec (o : Oracle) (k : Key) (h : k.x5c ≠ some []) : (toCP o k).toSpec = specParams o k := by
  unfold toCP CP.toSpec specParams
  cases hx : k.x5c with
  | none => simp
  | some cs =>
    have : cs ≠ [] := by rintro rfl; exact h hx
    simp [this]

/-- closed form of the object `MarshalJSON` serialises for an ECDSA key -/
def ecObj (o : Oracle) (k : Key) (c : GoCurve) (x y : Nat) (d : Option Nat) : Obj :=
  osetOpt (oset (oset (oset (oset (commonObj o k.raw k) "kty" (.str jwa.EC)) "crv" (.str c.name))
    "x" (.str (encS o (Bytes.encodeBE c.size x)))) "y" (.str (encS o (Bytes.encodeBE c.size y))))
    "d" (d.map fun dv => .str (encS o (Bytes.encodeBE c.size dv)))

/-- an ECDSA key object pair as NewPrivateKey / NewPublicKey / ParseMap build it -/
def IsEcKey (k : Key) (c : GoCurve) (x y : Nat) (d : Option Nat) : Prop :=
  k.pub = .ecdsa ⟨c, x, y⟩ ∧
  k.priv = (match d with | some dv => .ecdsa ⟨c, x, y⟩ (some (dv : Int)) | none => .none)

theorem marshal_ec (o : Oracle) (k : Key) (c : GoCurve) (x y : Nat) (d : Option Nat)
    (hk : IsEcKey k c x y d) (hne : c ≠ .other) (E : EcOK o c x y d) :
    (marshalFrom k).run o = .ok (ecObj o k c x y d) := by
  obtain ⟨hp, hq⟩ := hk
  have hx : ((x : Int).natAbs) < 256 ^ c.size := by simpa using E.xs
  have hy : ((y : Int).natAbs) < 256 ^ c.size := by simpa using E.ys
  unfold marshalFrom
  simp only [PO.run_bind, run_encodeCommon, hp, hq]
  cases d with
  | none =>
    simp [encodeMaterial, encodeEc, run_validateEcPub o c x y none hne E, run_setFixed _ _ _ _ _ hx,
      run_setFixed _ _ _ _ _ hy, ecObj, osetOpt]
  | some dv =>
    obtain ⟨_, _, _, hds⟩ := E.priv dv rfl
    have hd : ((dv : Int).natAbs) < 256 ^ c.size := by simpa using hds
    simp [encodeMaterial, encodeEc, run_validateEcPub o c x y (some dv) hne E, run_setFixed _ _ _ _ _ hx,
      run_setFixed _ _ _ _ _ hy, run_validateEcPriv o c x y dv hne E, run_setFixed _ _ _ _ _ hd, ecObj, osetOpt]

theorem ecObj_registered (o : Oracle) (k : Key) (c : GoCurve) (sc : ECCurve) (hsc : specCurve c = some sc)
    (x y : Nat) (d : Option Nat) (name : String) :
    Wire.lookup name (ecObj o k c x y d) =
      Wire.lookup name (specEncode (encS o) (encStdS o) (.ec sc x y d) (specParams o k) k.raw) := by
  obtain ⟨hname, hsize, _, _⟩ := curve_facts c sc hsc
  unfold ecObj
  simp only [lookup_osetOpt, lookup_oset]
  by_cases h1 : name = "d"
  · subst h1
    cases d with
    | some dv => simp [specEncode, materialMembers, Wire.lookup, mKty, mCrv, mX, mY, mD, optMember, i2osp_eq, hsize]
    | none =>
      rw [lookup_spec_mat _ _ _ _ _ _ (by decide)]
      simp [materialMembers, Wire.lookup, mCrv, mX, mY, mD, optMember]
      rw [lookup_commonObj _ _ _ _ (by decide)]
      simp [paramMembers, lookup_append, lookup_optMember, mKid, mUse, mKeyOps, mAlg, mX5u, mX5c, mX5t, mX5tS256]
  by_cases h2 : name = "y"
  · subst h2; simp [specEncode, materialMembers, Wire.lookup, mKty, mCrv, mX, mY, i2osp_eq, hsize]
  by_cases h3 : name = "x"
  · subst h3; simp [specEncode, materialMembers, Wire.lookup, mKty, mCrv, mX, i2osp_eq, hsize]
  by_cases h4 : name = "crv"
  · subst h4; simp [specEncode, materialMembers, Wire.lookup, mKty, mCrv, hname]
  by_cases h5 : name = "kty"
  · subst h5; simp [specEncode, Wire.lookup, mKty, KeyMaterial.kty, ktyEC]; decide
  rw [if_neg h1, if_neg h2, if_neg h3, if_neg h4, if_neg h5, lookup_commonObj _ _ _ _ h5]
  cases d <;> simp [specEncode, materialMembers, Wire.lookup, mKty, mCrv, mX, mY, mD, optMember, lookup_append, h1, h2, h3, h4, h5]

end C08
