import Goat.Model.Sig
/-
C01 — what a successful `key.Verify` means, per algorithm, in terms of the primitive oracle.
-/
namespace Model.Sig

theorem askBytes_ok (o : Oracle) (n : String) (a : List Wire) (b : Bytes) :
    (askBytes n a).run o = .ok b ↔ o ⟨n, a⟩ = .bytes b := by
  simp only [askBytes, PO.run_bind, PO.run_query]
  cases ho : o ⟨n, a⟩ <;> simp

theorem askBool_ok (o : Oracle) (n : String) (a : List Wire) (b : Bool) :
    (askBool n a).run o = .ok b ↔ o ⟨n, a⟩ = .bool b := by
  simp only [askBool, PO.run_bind, PO.run_query]
  cases ho : o ⟨n, a⟩ <;> simp

theorem askBytes_cases (o : Oracle) (n : String) (a : List Wire) :
    (∃ b, o ⟨n, a⟩ = .bytes b ∧ (askBytes n a).run o = .ok b) ∨
    ((∀ b, o ⟨n, a⟩ ≠ .bytes b) ∧ (askBytes n a).run o = .err "oracle") := by
  simp only [askBytes, PO.run_bind, PO.run_query]
  cases ho : o ⟨n, a⟩ <;> simp

theorem askBool_cases (o : Oracle) (n : String) (a : List Wire) :
    (∃ b, o ⟨n, a⟩ = .bool b ∧ (askBool n a).run o = .ok b) ∨
    ((∀ b, o ⟨n, a⟩ ≠ .bool b) ∧ (askBool n a).run o = .err "oracle") := by
  simp only [askBool, PO.run_bind, PO.run_query]
  cases ho : o ⟨n, a⟩ <;> simp

/-- The primitive-level meaning of "this signing key accepts (input, signature)". -/
def PrimAccepts (o : Oracle) (k : SigningKey) (input signature : Bytes) : Prop :=
  match k with
  | .invalid => False
  | .errKey => False
  | .hs h secret _ canVerify =>
      canVerify = true ∧ o ⟨"hmac", [.str h.name, .bytes secret, .bytes input]⟩ = .bytes signature
  | .rsa pss h _ n e _ canVerify =>
      canVerify = true ∧ ∃ digest, o ⟨"hash", [.str h.name, .bytes input]⟩ = .bytes digest ∧
        o ⟨if pss then "c01.rsa.verifyPSS" else "c01.rsa.verifyPKCS1v15",
           [.bytes n, .bytes e, .str h.name, .bytes digest, .bytes signature]⟩ = .bool true
  | .es h c _ pub _ canVerify =>
      canVerify = true ∧ ∃ x y, pub = some (x, y) ∧ signature.length = 2 * c.size ∧
        ∃ digest, o ⟨"hash", [.str h.name, .bytes input]⟩ = .bytes digest ∧
          o ⟨"c01.ecdsa.verify", [.str c.name, .bytes x, .bytes y, .bytes digest,
             .bytes (signature.take c.size), .bytes (signature.drop c.size)]⟩ = .bool true
  | .ed25519 _ pub _ canVerify =>
      canVerify = true ∧ pub.length = 32 ∧
        o ⟨"c01.ed25519.verify", [.bytes pub, .bytes input, .bytes signature]⟩ = .bool true
  | .ed448 _ pub _ canVerify =>
      canVerify = true ∧ pub.length = 57 ∧
        o ⟨"c01.ed448.verify", [.bytes pub, .bytes input, .bytes signature]⟩ = .bool true
  | .none => signature = []

/-- hs.go:162-175: accepted ⇔ verification allowed ∧ the signature is the complete MAC
    (every byte, same length). -/
theorem hs_verify_ok_iff (o : Oracle) (h : Hash) (secret : Bytes) (cs cv : Bool) (input signature : Bytes) :
    (verifyKey (.hs h secret cs cv) input signature).run o = .ok () ↔
      cv = true ∧ o ⟨"hmac", [.str h.name, .bytes secret, .bytes input]⟩ = .bytes signature := by
  simp only [verifyKey, PO.run_bind]
  rcases askBytes_cases o "hmac" [.str h.name, .bytes secret, .bytes input] with ⟨b, hb, hr⟩ | ⟨hn, hr⟩
  · rw [hr, hb]
    cases cv
    · simp
    · by_cases he : signature = b
      · simp [he]
      · have : (signature == b) = false := by simpa using he
        simp [this]
        intro h'; exact he h'.symm
  · rw [hr]; simp
    intro _ h'; exact hn _ h'

/-- the key handed to `hs.NewSigningKey` must be long enough (unless the Weak constructor is used) -/
theorem hs_new_minsize (h : Hash) (k : Key) (secret : Bytes) (cs cv : Bool) :
    newHS h false k = .hs h secret cs cv → h.size ≤ secret.length := by
  unfold newHS
  intro hk
  split at hk
  · split at hk
    · cases hk
    · split at hk
      · split at hk
        · cases hk
        · rename_i hlt
          injection hk with _ hs
          subst hs
          simp at hlt
          omega
      · cases hk
  · cases hk

/-- rs.go:172-184 / ps.go:167-179 -/
theorem rsa_verify_ok_iff (o : Oracle) (pss : Bool) (h : Hash) (priv : Option Wire) (n e : Bytes)
    (cs cv : Bool) (input signature : Bytes) :
    (verifyKey (.rsa pss h priv n e cs cv) input signature).run o = .ok () ↔
      PrimAccepts o (.rsa pss h priv n e cs cv) input signature := by
  simp only [verifyKey, PrimAccepts]
  cases cv
  · simp
  · simp only [Bool.not_true, Bool.false_eq_true, if_false, PO.run_bind, true_and]
    rcases askBytes_cases o "hash" [.str h.name, .bytes input] with ⟨d, hd, hr⟩ | ⟨hn, hr⟩
    · rw [hr, hd]
      simp only
      rcases askBool_cases o (if pss then "c01.rsa.verifyPSS" else "c01.rsa.verifyPKCS1v15")
        [.bytes n, .bytes e, .str h.name, .bytes d, .bytes signature] with ⟨b, hb, hr2⟩ | ⟨hn2, hr2⟩
      · rw [hr2]
        cases b <;> simp [hb]
      · rw [hr2]; simp
        exact fun h' => hn2 _ h'
    · rw [hr]; simp
      exact fun d h' => absurd h' (hn d)

/-- es.go:133-178: accepted ⇒ the signature has exactly `2·size` bytes and the ECDSA primitive
    accepted the digest of the input with `(r, s)` = the two fixed-width halves. -/
theorem es_verify_ok_iff (o : Oracle) (h : Hash) (c : Curve) (priv : Option Wire)
    (pub : Option (Bytes × Bytes)) (cs cv : Bool) (input signature : Bytes) :
    (verifyKey (.es h c priv pub cs cv) input signature).run o = .ok () ↔
      PrimAccepts o (.es h c priv pub cs cv) input signature := by
  simp only [verifyKey, PrimAccepts]
  cases pub with
  | none => simp
  | some xy =>
    obtain ⟨x, y⟩ := xy
    cases cv
    · simp
    · simp only [Bool.not_true, Bool.false_eq_true, if_false, true_and]
      by_cases hl : signature.length = 2 * c.size
      · simp only [hl, bne_self_eq_false, Bool.false_eq_true, if_false, PO.run_bind]
        rcases askBytes_cases o "hash" [.str h.name, .bytes input] with ⟨d, hd, hr⟩ | ⟨hn, hr⟩
        · rw [hr, hd]
          simp only
          rcases askBool_cases o "c01.ecdsa.verify" [.str c.name, .bytes x, .bytes y, .bytes d,
             .bytes (signature.take c.size), .bytes (signature.drop c.size)] with ⟨b, hb, hr2⟩ | ⟨hn2, hr2⟩
          · rw [hr2]
            cases b
            · simp [hb]
            · simp only [if_true, PO.run_pure, true_iff]
              exact ⟨x, y, rfl, trivial, d, rfl, hb⟩
          · rw [hr2]; simp
            exact fun h' => hn2 _ h'
        · rw [hr]; simp
          exact fun d h' => absurd h' (hn d)
      · have : (signature.length != 2 * c.size) = true := by simpa using hl
        simp [this, hl]

theorem ed25519_verify_ok_iff (o : Oracle) (priv : Option Bytes) (pub : Bytes) (cs cv : Bool)
    (input signature : Bytes) :
    (verifyKey (.ed25519 priv pub cs cv) input signature).run o = .ok () ↔
      PrimAccepts o (.ed25519 priv pub cs cv) input signature := by
  simp only [verifyKey, PrimAccepts]
  cases cv
  · simp
  · simp only [Bool.not_true, Bool.false_eq_true, if_false, true_and]
    by_cases hl : pub.length = 32
    · simp only [hl, bne_self_eq_false, Bool.false_eq_true, if_false, PO.run_bind, true_and]
      rcases askBool_cases o "c01.ed25519.verify" [.bytes pub, .bytes input, .bytes signature]
        with ⟨b, hb, hr2⟩ | ⟨hn2, hr2⟩
      · rw [hr2]; cases b <;> simp [hb]
      · rw [hr2]; simp
        exact fun h' => hn2 _ h'
    · have : (pub.length != 32) = true := by simpa using hl
      simp [this, hl]

theorem ed448_verify_ok_iff (o : Oracle) (priv : Option Bytes) (pub : Bytes) (cs cv : Bool)
    (input signature : Bytes) :
    (verifyKey (.ed448 priv pub cs cv) input signature).run o = .ok () ↔
      PrimAccepts o (.ed448 priv pub cs cv) input signature := by
  simp only [verifyKey, PrimAccepts]
  cases cv
  · simp
  · simp only [Bool.not_true, Bool.false_eq_true, if_false, true_and]
    by_cases hl : pub.length = 57
    · simp only [hl, bne_self_eq_false, Bool.false_eq_true, if_false, PO.run_bind, true_and]
      rcases askBool_cases o "c01.ed448.verify" [.bytes pub, .bytes input, .bytes signature]
        with ⟨b, hb, hr2⟩ | ⟨hn2, hr2⟩
      · rw [hr2]; cases b <;> simp [hb]
      · rw [hr2]; simp
        exact fun h' => hn2 _ h'
    · have : (pub.length != 57) = true := by simpa using hl
      simp [this, hl]

/-- none.go:44-49: the `none` key accepts exactly the empty signature -/
theorem none_verify (o : Oracle) (input signature : Bytes) :
    (verifyKey .none input signature).run o = .ok () ↔ signature = [] := by
  simp only [verifyKey]
  cases signature <;> simp

/-- every algorithm: Go's `key.Verify` returns nil ⇔ the primitive accepted exactly these bytes -/
theorem verifyKey_ok_iff (o : Oracle) (k : SigningKey) (input signature : Bytes) :
    (verifyKey k input signature).run o = .ok () ↔ PrimAccepts o k input signature := by
  cases k with
  | invalid => simp [verifyKey, PrimAccepts]
  | errKey => simp [verifyKey, PrimAccepts]
  | hs h secret cs cv => exact hs_verify_ok_iff o h secret cs cv input signature
  | rsa pss h priv n e cs cv => exact rsa_verify_ok_iff o pss h priv n e cs cv input signature
  | es h c priv pub cs cv => exact es_verify_ok_iff o h c priv pub cs cv input signature
  | ed25519 priv pub cs cv => exact ed25519_verify_ok_iff o priv pub cs cv input signature
  | ed448 priv pub cs cv => exact ed448_verify_ok_iff o priv pub cs cv input signature
  | none => exact none_verify o input signature

/-! ## a key is a value: no call leaves anything behind

In the model `verifyKey` and `signKey` are functions of (key value, payload, signature) and of the
oracle only — they take and return no state.  Whatever calls were made before on "the same key",
accepted, rejected, refused or failed, the outcome of a call is that of the call alone.  (The Go
`sig.SigningKey` is an object; that goat's objects behave like these values is what the key-object
history stream of the harness checks.) -/

/-- running any earlier computation `p` (its outcome discarded, as a caller ignoring a previous
    result) before `q` does not change the outcome of `q` -/
theorem history_independent {α β : Type} (o : Oracle) (p : PO α) (q : PO β) :
    (PO.attempt p >>= fun _ => q).run o = q.run o := by
  simp

/-- … in particular for any list of earlier verifications / signatures on a key -/
theorem key_history_independent (o : Oracle) (k : SigningKey)
    (earlier : List (Bytes × Bytes ⊕ Bytes)) (payload signature : Bytes) :
    (earlier.foldr
        (fun c (rest : PO Unit) =>
          match c with
          | .inl (m, s) => PO.attempt (verifyKey k m s) >>= fun _ => rest
          | .inr m => PO.attempt (signKey k m) >>= fun _ => rest)
        (verifyKey k payload signature)).run o = (verifyKey k payload signature).run o := by
  induction earlier with
  | nil => rfl
  | cons c rest ih =>
    cases c with
    | inl ms => obtain ⟨m, s⟩ := ms; simp only [List.foldr]; rw [history_independent]; exact ih
    | inr m => simp only [List.foldr]; rw [history_independent]; exact ih

/-- the same for a signature produced after any history -/
theorem sign_history_independent (o : Oracle) (k : SigningKey)
    (earlier : List (Bytes × Bytes ⊕ Bytes)) (payload : Bytes) :
    (earlier.foldr
        (fun c (rest : PO Bytes) =>
          match c with
          | .inl (m, s) => PO.attempt (verifyKey k m s) >>= fun _ => rest
          | .inr m => PO.attempt (signKey k m) >>= fun _ => rest)
        (signKey k payload)).run o = (signKey k payload).run o := by
  induction earlier with
  | nil => rfl
  | cons c rest ih =>
    cases c with
    | inl ms => obtain ⟨m, s⟩ := ms; simp only [List.foldr]; rw [history_independent]; exact ih
    | inr m => simp only [List.foldr]; rw [history_independent]; exact ih

end Model.Sig
