import Goat.Model.Binding
/-
Helper lemmas for C03: evaluation of `prim`, shape of outcomes.
-/
namespace GoatProofs.C03
open Model.Binding Gen.Consts

theorem run_prim (o : Oracle) (n : String) (a : List Wire) :
    (prim n a).run o = if (o ⟨n, a⟩).asBool then .ok () else .err "prim" := by
  unfold prim
  simp only [PO.run_bind, PO.run_query]
  split <;> simp

/-- a primitive query never panics -/
theorem run_prim_ne_panic (o : Oracle) (n : String) (a : List Wire) (s : String) :
    (prim n a).run o ≠ .panic s := by
  rw [run_prim]; split <;> simp

theorem run_prim_ok (o : Oracle) (n : String) (a : List Wire) (h : (prim n a).run o = .ok ()) :
    (o ⟨n, a⟩).asBool = true := by
  rw [run_prim] at h; split at h
  · assumption
  · cases h

/-- an outcome is an error (neither success nor panic) -/
def IsErr {α} (r : Outcome α) : Prop := ∃ e, r = .err e

theorem isErr_err {α} (e : String) : IsErr (.err e : Outcome α) := ⟨e, rfl⟩
theorem not_ok_of_isErr {α} {r : Outcome α} (h : IsErr r) (a : α) : r ≠ .ok a := by
  obtain ⟨e, rfl⟩ := h; simp

end GoatProofs.C03
