import Goat.Model.Conc
/-!
C20 — the trace invariant of the interleaving semantics and what follows from it
(race freedom, observed values).  Proof machinery only; the property theorems are in
`GoatProofs/C20.lean`.
-/
namespace Conc

/-- thread `t` has returned from a `Do` on `o` (as the winner: `fin`, or as a waiter: `pass`) -/
def seenBy (tr : List Event) (t : Tid) (o : OnceId) : Prop :=
  ∃ e ∈ tr, e.tid = some t ∧ (e.act = .pass o ∨ e.act = .fin o)

/-- discipline of the remaining items of a thread; `cur` is the once whose closure the thread is
    executing -/
def okItems (G : Cell → Option OnceId) : Option OnceId → (OnceId → Prop) → List Item → Prop
  | none, _, [] => True
  | some _, _, [] => False
  | none, seen, .acc none a :: r => okAccTop G seen a ∧ okItems G none seen r
  | none, seen, .doOnce o :: r => okItems G none (fun o' => o' = o ∨ seen o') r
  | some o, seen, .acc (some o') a :: r => o' = o ∧ okBody G o a ∧ okItems G (some o) seen r
  | some o, seen, .endOnce o' :: r => o' = o ∧ okItems G none (fun x => x = o ∨ seen x) r
  | none, _, .acc (some _) _ :: _ => False
  | none, _, .endOnce _ :: _ => False
  | some _, _, .acc none _ :: _ => False
  | some _, _, .doOnce _ :: _ => False

def bodyPart : List Item → List Acc
  | .acc (some _) a :: r => a :: bodyPart r
  | _ => []

theorem okAccTop_mono {G : Cell → Option OnceId} {s1 s2 : OnceId → Prop} (h : ∀ o, s1 o → s2 o) :
    ∀ a, okAccTop G s1 a → okAccTop G s2 a
  | .rd _ => fun h1 o ho => h o (h1 o ho)
  | .wr _ _ => fun h1 => h1
  | .sync _ => fun h1 => h1

theorem okItems_mono {G : Cell → Option OnceId} :
    ∀ (l : List Item) (cur : Option OnceId) (s1 s2 : OnceId → Prop), (∀ o, s1 o → s2 o) →
      okItems G cur s1 l → okItems G cur s2 l := by
  intro l
  induction l with
  | nil => intro cur s1 s2 _ h; cases cur <;> simp [okItems] at h ⊢
  | cons x r ih =>
    intro cur s1 s2 hs h
    cases cur with
    | none =>
      cases x with
      | acc ctx a =>
        cases ctx with
        | none =>
          simp only [okItems] at h ⊢
          exact ⟨okAccTop_mono hs a h.1, ih none s1 s2 hs h.2⟩
        | some o => simp [okItems] at h
      | doOnce o =>
        simp only [okItems] at h ⊢
        exact ih none _ _ (fun x hx => hx.elim Or.inl (fun h' => Or.inr (hs x h'))) h
      | endOnce o => simp [okItems] at h
    | some o =>
      cases x with
      | acc ctx a =>
        cases ctx with
        | none => simp [okItems] at h
        | some o' =>
          simp only [okItems] at h ⊢
          exact ⟨h.1, h.2.1, ih (some o) s1 s2 hs h.2.2⟩
      | doOnce o' => simp [okItems] at h
      | endOnce o' =>
        simp only [okItems] at h ⊢
        exact ⟨h.1, ih none _ _ (fun x hx => hx.elim Or.inl (fun h' => Or.inr (hs x h'))) h.2⟩

theorem okTop_mono {G : Cell → Option OnceId} :
    ∀ (l : List Op) (s1 s2 : OnceId → Prop), (∀ o, s1 o → s2 o) → okTop G s1 l → okTop G s2 l := by
  intro l
  induction l with
  | nil => intros; trivial
  | cons x r ih =>
    intro s1 s2 hs h
    cases x with
    | acc a => exact ⟨okAccTop_mono hs a h.1, ih s1 s2 hs h.2⟩
    | doOnce o =>
      exact ih _ _ (fun x hx => hx.elim Or.inl (fun h' => Or.inr (hs x h'))) h

theorem okItems_of_okTop {G : Cell → Option OnceId} :
    ∀ (l : List Op) (seen : OnceId → Prop), okTop G seen l → okItems G none seen (l.map Op.toItem) := by
  intro l
  induction l with
  | nil => intros; simp [okItems]
  | cons x r ih =>
    intro seen h
    cases x with
    | acc a => simp only [List.map, Op.toItem, okItems]; exact ⟨h.1, ih seen h.2⟩
    | doOnce o => simp only [List.map, Op.toItem, okItems]; exact ih _ h

theorem okItems_body {G : Cell → Option OnceId} (o : OnceId) (seen : OnceId → Prop) (r : List Item) :
    ∀ (L : List Acc), (∀ a ∈ L, okBody G o a) → okItems G none (fun x => x = o ∨ seen x) r →
      okItems G (some o) seen (L.map (Item.acc (some o)) ++ Item.endOnce o :: r) := by
  intro L
  induction L with
  | nil => intro _ h; simp only [List.map, List.nil_append, okItems]; exact ⟨trivial, h⟩
  | cons a L ih =>
    intro hL h
    simp only [List.map, List.cons_append, okItems]
    exact ⟨trivial, hL a (by simp), ih (fun b hb => hL b (by simp [hb])) h⟩

theorem bodyPart_body (o : OnceId) (r : List Item) :
    ∀ (L : List Acc), bodyPart (L.map (Item.acc (some o)) ++ Item.endOnce o :: r) = L := by
  intro L
  induction L with
  | nil => simp [bodyPart]
  | cons a L ih => simp [bodyPart, ih]

theorem initEvents_spec : ∀ (ws : List (Cell × Nat)) (k : Nat), ∀ e ∈ initEvents ws k,
    e.tid = none ∧ e.ctx = none ∧ k ≤ e.n ∧ e.n < k + ws.length ∧ ∃ c v, e.act = .wr c v := by
  intro ws
  induction ws with
  | nil => intro k e h; simp [initEvents] at h
  | cons x r ih =>
    intro k e h
    obtain ⟨c, v⟩ := x
    simp only [initEvents, List.mem_cons] at h
    rcases h with h | h
    · subst h; simp
    · have := ih (k + 1) e h
      simp only [List.length_cons]
      refine ⟨this.1, this.2.1, by omega, by omega, this.2.2.2.2⟩

theorem initEvents_uniq : ∀ (ws : List (Cell × Nat)) (k : Nat), ∀ e1 ∈ initEvents ws k,
    ∀ e2 ∈ initEvents ws k, e1.n = e2.n → e1 = e2 := by
  intro ws
  induction ws with
  | nil => intro k e h; simp [initEvents] at h
  | cons x r ih =>
    intro k e1 h1 e2 h2 hn
    obtain ⟨c, v⟩ := x
    simp only [initEvents, List.mem_cons] at h1 h2
    rcases h1 with h1 | h1 <;> rcases h2 with h2 | h2
    · rw [h1, h2]
    · have := (initEvents_spec r (k+1) e2 h2).2.2.1; subst h1; simp at hn; omega
    · have := (initEvents_spec r (k+1) e1 h1).2.2.1; subst h2; simp at hn; omega
    · exact ih (k+1) e1 h1 e2 h2 hn

end Conc

namespace Conc

def OnceInv (tr : List Event) (o : OnceId) : OnceSt → Prop
  | .fresh => ∀ e ∈ tr, e.ctx ≠ some o ∧ e.act ≠ .fin o ∧ e.act ≠ .pass o
  | .running w => ∀ e ∈ tr, (e.ctx = some o → e.tid = some w) ∧ e.act ≠ .fin o ∧ e.act ≠ .pass o
  | .done => ∃ w, (∀ e ∈ tr, e.ctx = some o → e.tid = some w) ∧
      (∀ e ∈ tr, e.act = .fin o → e.tid = some w ∧ ∀ e' ∈ tr, e'.ctx = some o → e'.n < e.n) ∧
      (∃ eo ∈ tr, eo.act = .fin o ∧ ∀ e ∈ tr, e.act = .pass o → eo.n < e.n)

def MemInv (G : Cell → Option OnceId) (P : Prog) (s : State) (c : Cell) : Prop :=
  match G c with
  | none => s.mem c = initMem P.initWrites c
  | some o =>
    match s.once o with
    | .fresh => s.mem c = initMem P.initWrites c
    | .running w => ∃ pre, P.body o = pre ++ bodyPart (s.rem w) ∧
        s.mem c = applyAll (initMem P.initWrites) pre c
    | .done => s.mem c = applyAll (initMem P.initWrites) (P.body o) c

/-- the part of the invariant that only talks about the trace -/
structure TrInv (G : Cell → Option OnceId) (P : Prog) (tr : List Event) (clock : Nat) : Prop where
  clk : ∀ e ∈ tr, e.n < clock
  klen : P.initWrites.length ≤ clock
  initEv : ∀ e ∈ tr, (e.tid = none → e.n < P.initWrites.length) ∧
    (e.tid ≠ none → P.initWrites.length ≤ e.n)
  uniq : ∀ e1 ∈ tr, ∀ e2 ∈ tr, e1.n = e2.n → e1 = e2
  wrD : ∀ e ∈ tr, ∀ t c v, e.tid = some t → e.act = .wr c v → ∃ o, e.ctx = some o ∧ G c = some o
  rdD : ∀ e ∈ tr, ∀ t c v o, e.tid = some t → e.act = .rd c v → G c = some o →
    e.ctx = some o ∨ (e.ctx = none ∧
      ∃ e' ∈ tr, e'.tid = some t ∧ e'.n < e.n ∧ (e'.act = .pass o ∨ e'.act = .fin o))
  rdVal : ∀ e ∈ tr, ∀ t c v, e.tid = some t → e.ctx = none → e.act = .rd c v → v = final G P c

structure Inv (G : Cell → Option OnceId) (P : Prog) (s : State) : Prop where
  tr : TrInv G P s.trace s.clock
  onceP : ∀ o, OnceInv s.trace o (s.once o)
  thr : ∀ t, ∃ cur, okItems G cur (seenBy s.trace t) (s.rem t) ∧
    ∀ o, s.once o = .running t ↔ cur = some o
  memI : ∀ c, MemInv G P s c

/-- pushing one thread event preserves the trace invariant, given the facts about that event -/
theorem TrInv.push {G : Cell → Option OnceId} {P : Prog} {tr : List Event} {clock : Nat}
    (h : TrInv G P tr clock) (t : Tid) (ctx : Option OnceId) (a : Act)
    (hw : ∀ c v, a = .wr c v → ∃ o, ctx = some o ∧ G c = some o)
    (hr : ∀ c v o, a = .rd c v → G c = some o → ctx = some o ∨ (ctx = none ∧ seenBy tr t o))
    (hv : ∀ c v, ctx = none → a = .rd c v → v = final G P c) :
    TrInv G P (⟨clock, some t, ctx, a⟩ :: tr) (clock + 1) := by
  refine ⟨?_, ?_, ?_, ?_, ?_, ?_, ?_⟩
  · intro e he
    rcases List.mem_cons.1 he with rfl | he
    · simp
    · have := h.clk e he; omega
  · have := h.klen; omega
  · intro e he
    rcases List.mem_cons.1 he with rfl | he
    · simp; exact h.klen
    · exact h.initEv e he
  · intro e1 h1 e2 h2 hn
    rcases List.mem_cons.1 h1 with rfl | h1 <;> rcases List.mem_cons.1 h2 with rfl | h2
    · rfl
    · have := h.clk e2 h2; simp at hn; omega
    · have := h.clk e1 h1; simp at hn; omega
    · exact h.uniq e1 h1 e2 h2 hn
  · intro e he t' c v ht ha
    rcases List.mem_cons.1 he with rfl | he
    · exact hw c v ha
    · exact h.wrD e he t' c v ht ha
  · intro e he t' c v o ht ha hg
    rcases List.mem_cons.1 he with rfl | he
    · simp at ht; subst ht
      rcases hr c v o ha hg with h1 | ⟨h1, e', he', h2, h3⟩
      · exact Or.inl h1
      · exact Or.inr ⟨h1, e', List.mem_cons_of_mem _ he', h2, h.clk e' he', h3⟩
    · rcases h.rdD e he t' c v o ht ha hg with h1 | ⟨h1, e', he', h2⟩
      · exact Or.inl h1
      · exact Or.inr ⟨h1, e', List.mem_cons_of_mem _ he', h2⟩
  · intro e he t' c v ht hc ha
    rcases List.mem_cons.1 he with rfl | he
    · exact hv c v hc ha
    · exact h.rdVal e he t' c v ht hc ha

theorem seenBy_cons {tr : List Event} {t : Tid} {o : OnceId} (ev : Event) (h : seenBy tr t o) :
    seenBy (ev :: tr) t o := by
  obtain ⟨e, he, h1⟩ := h
  exact ⟨e, List.mem_cons_of_mem _ he, h1⟩

/-- an event that is neither in the closure of `o` nor completes it leaves `OnceInv … o` intact -/
theorem OnceInv.cons_irrel {tr : List Event} {o : OnceId} {st : OnceSt} (ev : Event)
    (h : OnceInv tr o st) (hclk : ∀ e ∈ tr, e.n < ev.n) (hctx : ev.ctx ≠ some o)
    (hfin : ev.act ≠ .fin o) (hpass : ev.act = .pass o → st = .done) : OnceInv (ev :: tr) o st := by
  cases st with
  | fresh =>
    intro e he
    rcases List.mem_cons.1 he with rfl | he
    · exact ⟨hctx, hfin, fun hp => by cases hpass hp⟩
    · exact h e he
  | running w =>
    intro e he
    rcases List.mem_cons.1 he with rfl | he
    · exact ⟨fun hc => absurd hc hctx, hfin, fun hp => by cases hpass hp⟩
    · exact h e he
  | done =>
    obtain ⟨w, h1, h2, eo, heo, h3, h4⟩ := h
    refine ⟨w, ?_, ?_, eo, List.mem_cons_of_mem _ heo, h3, ?_⟩
    · intro e he
      rcases List.mem_cons.1 he with rfl | he
      · intro hc; exact absurd hc hctx
      · exact h1 e he
    · intro e he hf
      rcases List.mem_cons.1 he with rfl | he
      · exact absurd hf hfin
      · refine ⟨(h2 e he hf).1, ?_⟩
        intro e' he' hc
        rcases List.mem_cons.1 he' with rfl | he'
        · exact absurd hc hctx
        · exact (h2 e he hf).2 e' he' hc
    · intro e he hp
      rcases List.mem_cons.1 he with rfl | he
      · exact hclk eo heo
      · exact h4 e he hp

theorem Acc.act_ne_fin (m : Cell → Nat) (a : Acc) (o : OnceId) : a.act m ≠ .fin o := by
  cases a <;> simp [Acc.act]

theorem Acc.act_ne_pass (m : Cell → Nat) (a : Acc) (o : OnceId) : a.act m ≠ .pass o := by
  cases a <;> simp [Acc.act]

end Conc

namespace Conc

theorem OnceInv.done_of_seen {tr : List Event} {o : OnceId} {st : OnceSt} {t : Tid}
    (h : OnceInv tr o st) (hs : seenBy tr t o) : st = .done := by
  obtain ⟨e, he, _, h2⟩ := hs
  cases st with
  | fresh =>
    rcases h2 with h2 | h2
    · exact absurd h2 (h e he).2.2
    · exact absurd h2 (h e he).2.1
  | running w =>
    rcases h2 with h2 | h2
    · exact absurd h2 (h e he).2.2
    · exact absurd h2 (h e he).2.1
  | done => rfl

theorem Acc.apply_congr (a : Acc) (m1 m2 : Cell → Nat) (c : Cell) (h : m1 c = m2 c) :
    a.apply m1 c = a.apply m2 c := by
  cases a with
  | rd _ => exact h
  | wr c' v =>
    simp only [Acc.apply, writeMem]
    split
    · rfl
    · exact h
  | sync _ => exact h

theorem Acc.apply_other (a : Acc) (m : Cell → Nat) (c : Cell) (h : ∀ v, a ≠ .wr c v) :
    a.apply m c = m c := by
  cases a with
  | rd _ => rfl
  | wr c' v =>
    simp only [Acc.apply, writeMem]
    split
    · rename_i hc; subst hc; exact absurd rfl (h v)
    · rfl
  | sync _ => rfl

theorem applyAll_snoc (m : Cell → Nat) (l : List Acc) (a : Acc) :
    applyAll m (l ++ [a]) = a.apply (applyAll m l) := by
  simp [applyAll, List.foldl_append]

/-- threads other than the one that moved -/
theorem thr_other {G : Cell → Option OnceId} {s : State} {t' : Tid} (ev : Event)
    {once' : OnceId → OnceSt} {rem' : List Item}
    (h : ∃ cur, okItems G cur (seenBy s.trace t') (s.rem t') ∧ ∀ o, s.once o = .running t' ↔ cur = some o)
    (hrem : rem' = s.rem t') (honce : ∀ o, once' o = .running t' ↔ s.once o = .running t') :
    ∃ cur, okItems G cur (seenBy (ev :: s.trace) t') rem' ∧ ∀ o, once' o = .running t' ↔ cur = some o := by
  obtain ⟨cur, h1, h2⟩ := h
  refine ⟨cur, ?_, fun o => (honce o).trans (h2 o)⟩
  rw [hrem]
  exact okItems_mono _ _ _ _ (fun o ho => seenBy_cons ev ho) h1

theorem Inv.init {G : Cell → Option OnceId} {P : Prog} (hD : Disciplined G P) : Inv G P (init P) := by
  refine ⟨⟨?_, ?_, ?_, ?_, ?_, ?_, ?_⟩, ?_, ?_, ?_⟩
  · intro e he
    have := initEvents_spec _ _ e he
    simp only [Conc.init] at *; omega
  · simp [Conc.init]
  · intro e he
    have := initEvents_spec _ _ e he
    simp only [Conc.init] at *
    exact ⟨fun _ => by omega, fun h => absurd this.1 h⟩
  · exact initEvents_uniq _ _
  · intro e he t c v ht
    have := initEvents_spec _ _ e he
    rw [this.1] at ht; cases ht
  · intro e he t c v o ht
    have := initEvents_spec _ _ e he
    rw [this.1] at ht; cases ht
  · intro e he t c v ht
    have := initEvents_spec _ _ e he
    rw [this.1] at ht; cases ht
  · intro o e he
    have := initEvents_spec _ _ e he
    obtain ⟨h1, h2, _, _, c, v, h5⟩ := this
    simp [h2, h5]
  · intro t
    refine ⟨none, ?_, fun o => by simp [Conc.init]⟩
    simp only [Conc.init]
    apply okItems_of_okTop
    cases hget : P.threads[t]? with
    | none => simp [okTop]
    | some ops =>
      simp only [Option.getD_some]
      exact okTop_mono _ _ _ (fun _ h => h.elim) (hD.threads ops (List.mem_of_getElem? hget))
  · intro c
    simp only [MemInv, Conc.init]
    cases G c <;> simp

end Conc

namespace Conc

/-- a top-level access of thread `t` -/
theorem Inv.step_accTop {G : Cell → Option OnceId} {P : Prog} {s : State} (h : Inv G P s) (t : Tid)
    (a : Acc) (r : List Item) (hrem : s.rem t = .acc none a :: r) :
    Inv G P { s with mem := a.apply s.mem, rem := setRem s t r, clock := s.clock + 1,
                     trace := ⟨s.clock, some t, none, a.act s.mem⟩ :: s.trace } := by
  obtain ⟨cur, hok, hcur⟩ := h.thr t
  rw [hrem] at hok
  cases cur with
  | some o => simp [okItems] at hok
  | none =>
  simp only [okItems] at hok
  obtain ⟨hacc, hrest⟩ := hok
  have hnotrun : ∀ o, s.once o ≠ .running t := fun o ho => by simpa using (hcur o).1 ho
  have hnw : ∀ c v, a ≠ .wr c v := by
    intro c v hav; subst hav; exact hacc
  have hmem : a.apply s.mem = s.mem := by
    funext c; exact Acc.apply_other a s.mem c (hnw c)
  refine ⟨?_, ?_, ?_, ?_⟩
  · apply h.tr.push
    · intro c v hav
      cases a <;> simp [Acc.act] at hav
      exact absurd rfl (hnw _ _)
    · intro c v o hav hg
      cases a <;> simp [Acc.act] at hav
      obtain ⟨rfl, _⟩ := hav
      exact Or.inr ⟨rfl, hacc o hg⟩
    · intro c v _ hav
      cases a <;> simp [Acc.act] at hav
      obtain ⟨hc, hv⟩ := hav
      subst hc; subst hv
      rename_i c
      have hm := h.memI c
      simp only [MemInv, final] at hm ⊢
      cases hg : G c with
      | none => simpa [hg] using hm
      | some o =>
        have hd := (h.onceP o).done_of_seen (hacc o hg)
        simpa [hg, hd] using hm
  · intro o
    exact (h.onceP o).cons_irrel _ (h.tr.clk) (by simp) (Acc.act_ne_fin _ _ _)
      (fun hp => absurd hp (Acc.act_ne_pass _ _ _))
  · intro t'
    by_cases htt : t' = t
    · subst htt
      refine ⟨none, ?_, hcur⟩
      simp only [setRem, if_true]
      exact okItems_mono _ _ _ _ (fun o ho => seenBy_cons _ ho) hrest
    · exact thr_other _ (h.thr t') (by simp [setRem, htt]) (fun o => Iff.rfl)
  · intro c
    have hm := h.memI c
    simp only [MemInv, hmem] at hm ⊢
    cases hg : G c with
    | none => simpa [hg] using hm
    | some o =>
      simp only [hg] at hm ⊢
      cases ho : s.once o with
      | fresh => simpa [ho] using hm
      | done => simpa [ho] using hm
      | running w =>
        have hwt : w ≠ t := fun hwt => hnotrun o (hwt ▸ ho)
        simpa [ho, setRem, hwt] using hm

end Conc

namespace Conc

/-- an access inside the closure of once `o` -/
theorem Inv.step_accBody {G : Cell → Option OnceId} {P : Prog} {s : State} (h : Inv G P s) (t : Tid)
    (o : OnceId) (a : Acc) (r : List Item) (hrem : s.rem t = .acc (some o) a :: r) :
    Inv G P { s with mem := a.apply s.mem, rem := setRem s t r, clock := s.clock + 1,
                     trace := ⟨s.clock, some t, some o, a.act s.mem⟩ :: s.trace } := by
  obtain ⟨cur, hok, hcur⟩ := h.thr t
  rw [hrem] at hok
  cases cur with
  | none => simp [okItems] at hok
  | some o' =>
  simp only [okItems] at hok
  obtain ⟨hoo, hbody, hrest⟩ := hok
  subst hoo
  have hrun : s.once o = .running t := (hcur o).2 rfl
  have hrunonly : ∀ x, s.once x = .running t → x = o := fun x hx => by
    have := (hcur x).1 hx; simpa using this.symm
  -- a write of the closure goes to a cell guarded by `o`
  have hwr : ∀ c v, a = .wr c v → G c = some o := by
    intro c v hav; subst hav; exact hbody
  have hkeep : ∀ c, G c ≠ some o → a.apply s.mem c = s.mem c := by
    intro c hc
    exact Acc.apply_other a s.mem c (fun v hav => hc (hwr c v hav))
  refine ⟨?_, ?_, ?_, ?_⟩
  · apply h.tr.push
    · intro c v hav
      cases a <;> simp [Acc.act] at hav
      obtain ⟨hc, _⟩ := hav
      subst hc
      exact ⟨o, rfl, hbody⟩
    · intro c v o2 hav hg
      cases a <;> simp [Acc.act] at hav
      obtain ⟨hc, _⟩ := hav
      subst hc
      simp only [okBody] at hbody
      rcases hbody with hb | hb
      · rw [hb] at hg; exact Or.inl (by simpa using hg)
      · rw [hb] at hg; cases hg
    · intro c v hc _; cases hc
  · intro o2
    by_cases ho : o2 = o
    · subst ho
      rw [hrun]
      have hold := h.onceP o2
      rw [hrun] at hold
      intro e he
      rcases List.mem_cons.1 he with rfl | he
      · exact ⟨fun _ => rfl, Acc.act_ne_fin _ _ _, Acc.act_ne_pass _ _ _⟩
      · exact hold e he
    · exact (h.onceP o2).cons_irrel _ (h.tr.clk) (by simpa using fun h' => ho h'.symm)
        (Acc.act_ne_fin _ _ _) (fun hp => absurd hp (Acc.act_ne_pass _ _ _))
  · intro t'
    by_cases htt : t' = t
    · subst htt
      refine ⟨some o, ?_, hcur⟩
      simp only [setRem, if_true]
      exact okItems_mono _ _ _ _ (fun o ho => seenBy_cons _ ho) hrest
    · exact thr_other _ (h.thr t') (by simp [setRem, htt]) (fun o => Iff.rfl)
  · intro c
    have hm := h.memI c
    simp only [MemInv] at hm ⊢
    cases hg : G c with
    | none =>
      have := hkeep c (by simp [hg])
      simpa [hg, this] using hm
    | some o2 =>
      simp only [hg] at hm ⊢
      by_cases ho : o2 = o
      · subst ho
        simp only [hrun, setRem, if_true] at hm ⊢
        obtain ⟨pre, hpre, hmc⟩ := hm
        rw [hrem] at hpre
        refine ⟨pre ++ [a], ?_, ?_⟩
        · simpa [bodyPart] using hpre
        · rw [applyAll_snoc]; exact Acc.apply_congr a _ _ c hmc
      · have hk := hkeep c (by simpa [hg] using ho)
        cases hst : s.once o2 with
        | fresh => simpa [hst, hk] using hm
        | done => simpa [hst, hk] using hm
        | running w =>
          have hwt : w ≠ t := fun hwt => ho (hrunonly o2 (hwt ▸ hst))
          simpa [hst, setRem, hwt, hk] using hm

end Conc

namespace Conc

/-- `o.Do` by the first caller: the closure starts -/
theorem Inv.step_begin {G : Cell → Option OnceId} {P : Prog} (hD : Disciplined G P) {s : State}
    (h : Inv G P s) (t : Tid) (o : OnceId) (r : List Item) (hrem : s.rem t = .doOnce o :: r)
    (hfresh : s.once o = .fresh) :
    Inv G P { s with once := setOnce s o (.running t),
                     rem := setRem s t ((P.body o).map (Item.acc (some o)) ++ .endOnce o :: r),
                     clock := s.clock + 1,
                     trace := ⟨s.clock, some t, none, .begin o⟩ :: s.trace } := by
  obtain ⟨cur, hok, hcur⟩ := h.thr t
  rw [hrem] at hok
  cases cur with
  | some o' => simp [okItems] at hok
  | none =>
  simp only [okItems] at hok
  have hnotrun : ∀ x, s.once x ≠ .running t := fun x hx => by simpa using (hcur x).1 hx
  refine ⟨?_, ?_, ?_, ?_⟩
  · apply h.tr.push
    · intro c v hav; cases hav
    · intro c v o2 hav; cases hav
    · intro c v _ hav; cases hav
  · intro o2
    by_cases ho : o2 = o
    · subst ho
      have hold := h.onceP o2
      rw [hfresh] at hold
      simp only [setOnce, if_true]
      intro e he
      rcases List.mem_cons.1 he with rfl | he
      · simp
      · exact ⟨fun hc => absurd hc (hold e he).1, (hold e he).2⟩
    · simp only [setOnce, if_neg ho]
      exact (h.onceP o2).cons_irrel _ (h.tr.clk) (by simp) (by simp) (by simp)
  · intro t'
    by_cases htt : t' = t
    · subst htt
      refine ⟨some o, ?_, ?_⟩
      · simp only [setRem, if_true]
        apply okItems_body o _ r _ (hD.body o)
        exact okItems_mono _ _ _ _ (fun x hx => hx.elim Or.inl (fun h' => Or.inr (seenBy_cons _ h'))) hok
      · intro x
        by_cases hx : x = o
        · subst hx; simp [setOnce]
        · simp only [setOnce, if_neg hx]
          constructor
          · intro h'; exact absurd h' (hnotrun x)
          · intro h'; exact absurd (Option.some.inj h').symm hx
    · apply thr_other _ (h.thr t') (by simp [setRem, htt])
      intro x
      by_cases hx : x = o
      · subst hx
        simp only [setOnce, if_true, hfresh]
        constructor
        · intro h'; cases h'; exact absurd rfl htt
        · intro h'; cases h'
      · simp [setOnce, hx]
  · intro c
    have hm := h.memI c
    simp only [MemInv] at hm ⊢
    cases hg : G c with
    | none => simpa [hg] using hm
    | some o2 =>
      simp only [hg] at hm ⊢
      by_cases ho : o2 = o
      · subst ho
        simp only [hfresh] at hm
        simp only [setOnce, if_true, setRem]
        refine ⟨[], ?_, ?_⟩
        · simp [bodyPart_body]
        · simpa [applyAll] using hm
      · simp only [setOnce, if_neg ho]
        cases hst : s.once o2 with
        | fresh => simpa [hst] using hm
        | done => simpa [hst] using hm
        | running w =>
          have hwt : w ≠ t := fun hwt => hnotrun o2 (hwt ▸ hst)
          simpa [hst, setRem, hwt] using hm

/-- `o.Do` returns because the closure has completed -/
theorem Inv.step_pass {G : Cell → Option OnceId} {P : Prog} {s : State}
    (h : Inv G P s) (t : Tid) (o : OnceId) (r : List Item) (hrem : s.rem t = .doOnce o :: r)
    (hdone : s.once o = .done) :
    Inv G P { s with rem := setRem s t r, clock := s.clock + 1,
                     trace := ⟨s.clock, some t, none, .pass o⟩ :: s.trace } := by
  obtain ⟨cur, hok, hcur⟩ := h.thr t
  rw [hrem] at hok
  cases cur with
  | some o' => simp [okItems] at hok
  | none =>
  simp only [okItems] at hok
  have hnotrun : ∀ x, s.once x ≠ .running t := fun x hx => by simpa using (hcur x).1 hx
  refine ⟨?_, ?_, ?_, ?_⟩
  · apply h.tr.push
    · intro c v hav; cases hav
    · intro c v o2 hav; cases hav
    · intro c v _ hav; cases hav
  · intro o2
    apply (h.onceP o2).cons_irrel _ (h.tr.clk) (by simp) (by simp)
    intro hp
    simp only [Act.pass.injEq] at hp
    subst hp; exact hdone
  · intro t'
    by_cases htt : t' = t
    · subst htt
      refine ⟨none, ?_, hcur⟩
      simp only [setRem, if_true]
      refine okItems_mono _ _ _ _ ?_ hok
      intro x hx
      rcases hx with rfl | hx
      · exact ⟨_, List.mem_cons_self, rfl, Or.inl rfl⟩
      · exact seenBy_cons _ hx
    · exact thr_other _ (h.thr t') (by simp [setRem, htt]) (fun o => Iff.rfl)
  · intro c
    have hm := h.memI c
    simp only [MemInv] at hm ⊢
    cases hg : G c with
    | none => simpa [hg] using hm
    | some o2 =>
      simp only [hg] at hm ⊢
      cases hst : s.once o2 with
      | fresh => simpa [hst] using hm
      | done => simpa [hst] using hm
      | running w =>
        have hwt : w ≠ t := fun hwt => hnotrun o2 (hwt ▸ hst)
        simpa [hst, setRem, hwt] using hm

/-- the closure of `o` completes -/
theorem Inv.step_fin {G : Cell → Option OnceId} {P : Prog} {s : State}
    (h : Inv G P s) (t : Tid) (o : OnceId) (r : List Item) (hrem : s.rem t = .endOnce o :: r) :
    Inv G P { s with once := setOnce s o .done, rem := setRem s t r, clock := s.clock + 1,
                     trace := ⟨s.clock, some t, none, .fin o⟩ :: s.trace } := by
  obtain ⟨cur, hok, hcur⟩ := h.thr t
  rw [hrem] at hok
  cases cur with
  | none => simp [okItems] at hok
  | some o' =>
  simp only [okItems] at hok
  obtain ⟨hoo, hrest⟩ := hok
  subst hoo
  have hrun : s.once o = .running t := (hcur o).2 rfl
  have hrunonly : ∀ x, s.once x = .running t → x = o := fun x hx => by
    have := (hcur x).1 hx; simpa using this.symm
  refine ⟨?_, ?_, ?_, ?_⟩
  · apply h.tr.push
    · intro c v hav; cases hav
    · intro c v o2 hav; cases hav
    · intro c v _ hav; cases hav
  · intro o2
    by_cases ho : o2 = o
    · subst ho
      have hold := h.onceP o2
      rw [hrun] at hold
      simp only [setOnce, if_true]
      refine ⟨t, ?_, ?_, ⟨_, List.mem_cons_self, rfl, ?_⟩⟩
      · intro e he hc
        rcases List.mem_cons.1 he with rfl | he
        · cases hc
        · exact (hold e he).1 hc
      · intro e he hf
        rcases List.mem_cons.1 he with rfl | he
        · refine ⟨rfl, ?_⟩
          intro e' he' hc
          rcases List.mem_cons.1 he' with rfl | he'
          · cases hc
          · exact h.tr.clk e' he'
        · exact absurd hf (hold e he).2.1
      · intro e he hp
        rcases List.mem_cons.1 he with rfl | he
        · cases hp
        · exact absurd hp (hold e he).2.2
    · simp only [setOnce, if_neg ho]
      apply (h.onceP o2).cons_irrel _ (h.tr.clk) (by simp) _ (by simp)
      simpa using fun h' => ho h'.symm
  · intro t'
    by_cases htt : t' = t
    · subst htt
      refine ⟨none, ?_, ?_⟩
      · simp only [setRem, if_true]
        refine okItems_mono _ _ _ _ ?_ hrest
        intro x hx
        rcases hx with rfl | hx
        · exact ⟨_, List.mem_cons_self, rfl, Or.inr rfl⟩
        · exact seenBy_cons _ hx
      · intro x
        by_cases hx : x = o
        · subst hx; simp [setOnce]
        · simp only [setOnce, if_neg hx]
          constructor
          · intro h'; exact absurd (hrunonly x h') hx
          · intro h'; cases h'
    · apply thr_other _ (h.thr t') (by simp [setRem, htt])
      intro x
      by_cases hx : x = o
      · subst hx
        simp only [setOnce, if_true, hrun]
        constructor
        · intro h'; cases h'
        · intro h'; cases h'; exact absurd rfl htt
      · simp [setOnce, hx]
  · intro c
    have hm := h.memI c
    simp only [MemInv] at hm ⊢
    cases hg : G c with
    | none => simpa [hg] using hm
    | some o2 =>
      simp only [hg] at hm ⊢
      by_cases ho : o2 = o
      · subst ho
        simp only [hrun] at hm
        obtain ⟨pre, hpre, hmc⟩ := hm
        rw [hrem] at hpre
        simp only [bodyPart, List.append_nil] at hpre
        simp only [setOnce, if_true]
        rw [hpre]; exact hmc
      · simp only [setOnce, if_neg ho]
        cases hst : s.once o2 with
        | fresh => simpa [hst] using hm
        | done => simpa [hst] using hm
        | running w =>
          have hwt : w ≠ t := fun hwt => ho (hrunonly o2 (hwt ▸ hst))
          simpa [hst, setRem, hwt] using hm

/-- the invariant is preserved by every step of every thread -/
theorem Inv.step {G : Cell → Option OnceId} {P : Prog} (hD : Disciplined G P) {s : State}
    (h : Inv G P s) (t : Tid) : Inv G P (Conc.step P s t) := by
  unfold Conc.step
  split
  · exact h
  · rename_i ctx a r hrem
    cases ctx with
    | none => exact h.step_accTop t a r hrem
    | some o => exact h.step_accBody t o a r hrem
  · rename_i o r hrem
    split
    · rename_i hst; exact h.step_begin hD t o r hrem hst
    · exact h
    · rename_i hst; exact h.step_pass t o r hrem hst
  · rename_i o r hrem
    exact h.step_fin t o r hrem

theorem Inv.run {G : Cell → Option OnceId} {P : Prog} (hD : Disciplined G P) :
    ∀ (sched : List Tid) {s : State}, Inv G P s → Inv G P (Conc.run P s sched) := by
  intro sched
  induction sched with
  | nil => intro s h; exact h
  | cons t r ih => intro s h; exact ih (h.step hD t)

theorem Inv.exec {G : Cell → Option OnceId} {P : Prog} (hD : Disciplined G P) (sched : List Tid) :
    Inv G P (Conc.exec P sched) := Inv.run hD sched (Inv.init hD)

end Conc

namespace Conc

theorem HB.edge {tr : List Event} {e1 e2 : Event} (h1 : e1 ∈ tr) (h2 : e2 ∈ tr) (h : Edge e1 e2) :
    HB tr e1 e2 := HB.step h1 h2 h (HB.refl h2)

theorem HB.trans {tr : List Event} {e1 e2 e3 : Event} (h12 : HB tr e1 e2) (h23 : HB tr e2 e3) :
    HB tr e1 e3 := by
  induction h12 with
  | refl _ => exact h23
  | step h1 h2 he _ ih => exact HB.step h1 h2 he (ih h23)

/-- happens-before is compatible with execution order (sanity: it is not the full relation) -/
theorem HB.le {tr : List Event} {e1 e2 : Event} (h : HB tr e1 e2) : e1.n ≤ e2.n := by
  induction h with
  | refl _ => exact Nat.le_refl _
  | step _ _ he _ ih => exact Nat.le_trans (Nat.le_of_lt he.1) ih

/-- classification of a thread's plain access to a lazily initialised cell -/
theorem TrInv.accClass {G : Cell → Option OnceId} {P : Prog} {tr : List Event} {clock : Nat}
    (h : TrInv G P tr clock) {e : Event} (he : e ∈ tr) {t : Tid} (ht : e.tid = some t) {c : Cell}
    (hc : e.act.cell? = some c) {o : OnceId} (hg : G c = some o) :
    (e.ctx = some o) ∨ (e.act.isWrite = false ∧ e.ctx = none ∧
      ∃ e' ∈ tr, e'.tid = some t ∧ e'.n < e.n ∧ (e'.act = .pass o ∨ e'.act = .fin o)) := by
  cases hact : e.act with
  | rd c' v =>
    rw [hact] at hc; simp only [Act.cell?, Option.some.injEq] at hc; subst hc
    rcases h.rdD e he t c' v o ht hact hg with h1 | ⟨h1, h2⟩
    · exact Or.inl h1
    · exact Or.inr ⟨rfl, h1, h2⟩
  | wr c' v =>
    rw [hact] at hc; simp only [Act.cell?, Option.some.injEq] at hc; subst hc
    obtain ⟨o', h1, h2⟩ := h.wrD e he t c' v ht hact
    rw [hg] at h2; cases h2
    exact Or.inl h1
  | sync _ => rw [hact] at hc; cases hc
  | begin _ => rw [hact] at hc; cases hc
  | fin _ => rw [hact] at hc; cases hc
  | pass _ => rw [hact] at hc; cases hc

theorem TrInv.guardOfWrite {G : Cell → Option OnceId} {P : Prog} {tr : List Event} {clock : Nat}
    (h : TrInv G P tr clock) {e : Event} (he : e ∈ tr) {t : Tid} (ht : e.tid = some t) {c : Cell}
    (hc : e.act.cell? = some c) (hw : e.act.isWrite = true) : ∃ o, G c = some o ∧ e.ctx = some o := by
  cases hact : e.act with
  | wr c' v =>
    rw [hact] at hc; simp only [Act.cell?, Option.some.injEq] at hc; subst hc
    obtain ⟨o', h1, h2⟩ := h.wrD e he t c' v ht hact
    exact ⟨o', h2, h1⟩
  | rd _ _ => rw [hact] at hw; cases hw
  | sync _ => rw [hact] at hw; cases hw
  | begin _ => rw [hact] at hw; cases hw
  | fin _ => rw [hact] at hw; cases hw
  | pass _ => rw [hact] at hw; cases hw

/-- two conflicting accesses, the earlier one first, are ordered by happens-before -/
theorem Inv.ordered {G : Cell → Option OnceId} {P : Prog} {s : State} (h : Inv G P s)
    {e1 e2 : Event} (h1 : e1 ∈ s.trace) (h2 : e2 ∈ s.trace) (hcf : Conflict e1 e2)
    (hlt : e1.n < e2.n) : HB s.trace e1 e2 := by
  obtain ⟨c, hc1, hc2, hw⟩ := hcf
  cases ht1 : e1.tid with
  | none =>
    apply HB.edge h1 h2
    refine ⟨hlt, ?_⟩
    cases ht2 : e2.tid with
    | none => exact Or.inl ht1
    | some t2 => exact Or.inr (Or.inl ⟨ht1, by simp⟩)
  | some t1 =>
    cases ht2 : e2.tid with
    | none =>
      have a := (h.tr.initEv e2 h2).1 ht2
      have b := (h.tr.initEv e1 h1).2 (by simp [ht1])
      omega
    | some t2 =>
      -- the cell is lazily initialised under some once `o`
      have hg : ∃ o, G c = some o := by
        rcases hw with hw | hw
        · obtain ⟨o, ho, _⟩ := h.tr.guardOfWrite h1 ht1 hc1 hw; exact ⟨o, ho⟩
        · obtain ⟨o, ho, _⟩ := h.tr.guardOfWrite h2 ht2 hc2 hw; exact ⟨o, ho⟩
      obtain ⟨o, hg⟩ := hg
      have hO := h.onceP o
      rcases h.tr.accClass h1 ht1 hc1 hg with k1 | ⟨nw1, k1, e1', he1', ht1', hn1', ha1'⟩
      · rcases h.tr.accClass h2 ht2 hc2 hg with k2 | ⟨nw2, k2, e2', he2', ht2', hn2', ha2'⟩
        · -- both inside the closure: same thread
          apply HB.edge h1 h2
          refine ⟨hlt, Or.inl ?_⟩
          cases hst : s.once o with
          | fresh => rw [hst] at hO; exact absurd k1 (hO e1 h1).1
          | running w =>
            rw [hst] at hO
            exact ((hO e1 h1).1 k1).trans ((hO e2 h2).1 k2).symm
          | done =>
            rw [hst] at hO
            obtain ⟨w, hw1, _⟩ := hO
            exact (hw1 e1 h1 k1).trans (hw1 e2 h2 k2).symm
        · -- e1 in the closure, e2 after a completed Do of its thread
          have hd : s.once o = .done := hO.done_of_seen ⟨e2', he2', ht2', ha2'⟩
          rw [hd] at hO
          obtain ⟨w, hw1, hw2, eo, heo, hfo, hpo⟩ := hO
          have a1 := hw1 e1 h1 k1
          rcases ha2' with hp | hf
          · -- waiter: e1 →po fin →once pass →po e2
            have b := hw2 eo heo hfo
            have hlt1 : e1.n < eo.n := b.2 e1 h1 k1
            have hlt2 : eo.n < e2'.n := hpo e2' he2' hp
            refine HB.step h1 heo ⟨hlt1, Or.inl (a1.trans b.1.symm)⟩ ?_
            refine HB.step heo he2' ⟨hlt2, Or.inr (Or.inr ⟨o, hfo, hp⟩)⟩ ?_
            exact HB.edge he2' h2 ⟨hn2', Or.inl (ht2'.trans ht2.symm)⟩
          · -- e2's thread ran the closure itself
            have b := (hw2 e2' he2' hf).1
            apply HB.edge h1 h2
            exact ⟨hlt, Or.inl (a1.trans (b.symm.trans (ht2'.trans ht2.symm)))⟩
      · rcases h.tr.accClass h2 ht2 hc2 hg with k2 | ⟨nw2, k2, e2', he2', ht2', hn2', ha2'⟩
        · -- e1 after a completed Do, e2 inside the closure
          have hd : s.once o = .done := hO.done_of_seen ⟨e1', he1', ht1', ha1'⟩
          rw [hd] at hO
          obtain ⟨w, hw1, hw2, eo, heo, hfo, hpo⟩ := hO
          have a2 := hw1 e2 h2 k2
          rcases ha1' with hp | hf
          · have b := hw2 eo heo hfo
            have x1 : e2.n < eo.n := b.2 e2 h2 k2
            have x2 : eo.n < e1'.n := hpo e1' he1' hp
            omega
          · have b := (hw2 e1' he1' hf).1
            apply HB.edge h1 h2
            exact ⟨hlt, Or.inl (ht1.trans ((ht1'.symm.trans b).trans a2.symm))⟩
        · -- both outside the closure: neither is a write
          rcases hw with hw | hw
          · rw [nw1] at hw; cases hw
          · rw [nw2] at hw; cases hw

theorem Inv.raceFree {G : Cell → Option OnceId} {P : Prog} {s : State} (h : Inv G P s) :
    RaceFree s.trace := by
  intro e1 h1 e2 h2 hcf hne
  rcases Nat.lt_trichotomy e1.n e2.n with hlt | heq | hgt
  · exact Or.inl (h.ordered h1 h2 hcf hlt)
  · exact absurd (h.tr.uniq e1 h1 e2 h2 heq) hne
  · refine Or.inr (h.ordered h2 h1 ?_ hgt)
    obtain ⟨c, a, b, hw⟩ := hcf
    exact ⟨c, b, a, hw.symm⟩

end Conc
