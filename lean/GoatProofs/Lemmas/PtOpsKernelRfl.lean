import Lean
/-
`kernel_rfl`: close `a = b` by `Eq.refl a` after asking the KERNEL's definitional-equality checker
(`Lean.Kernel.isDefEq`), not the elaborator's.  Used by the table obligations (GoatProofs.C16TblOps /
C15TblOps) whose two sides are evaluated by running the regenerated loops (hundreds of point
operations over ABSTRACT point functions): the kernel does this in seconds, `Meta.isDefEq` runs out of
heartbeats.  Nothing is trusted: the proof term is `Eq.refl a` and is re-checked when the theorem is
added to the environment; a mismatch is an ordinary tactic failure (so `ptops_named` can name it).
-/
open Lean Elab Tactic Meta

elab "kernel_rfl" : tactic => do
  let g ← getMainGoal
  g.withContext do
    let t ← instantiateMVars (← g.getType)
    let some (_, lhs, rhs) := t.eq? | throwError "kernel_rfl: the goal is not an equation"
    if t.hasExprMVar then throwError "kernel_rfl: the goal contains metavariables"
    match Kernel.isDefEq (← getEnv) (← getLCtx) lhs rhs with
    | .ok true => g.assign (← mkEqRefl lhs)
    | .ok false => throwError "kernel_rfl: the two sides are not definitionally equal"
    | .error _ => throwError "kernel_rfl: kernel exception"

/-- `kernel_rfl!`: the same without the pre-check (the kernel checks the proof term once, when the
    theorem is added; a mismatch is then reported by the kernel as a type mismatch of the named
    declaration).  For the two largest tables, where one kernel evaluation costs ~30 s. -/
elab "kernel_rfl!" : tactic => do
  let g ← getMainGoal
  g.withContext do
    let t ← instantiateMVars (← g.getType)
    let some (_, lhs, _) := t.eq? | throwError "kernel_rfl!: the goal is not an equation"
    g.assign (← mkEqRefl lhs)
