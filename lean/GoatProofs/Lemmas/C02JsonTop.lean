import GoatProofs.Lemmas.C02Json
/-
C02 — `Parse (MarshalJSON msg)` for a signed message: flattened (one signer) and general form.
-/
namespace Model.JWS

theorem jsonDecodeMap_of_obj (o : Oracle) (d : Bytes) (kvs : KVs)
    (h : o ⟨"json.decodeMap", [.bytes d]⟩ = .obj kvs) : (jsonDecodeMap d).run o = .ok (.obj kvs) := by
  simp [jsonDecodeMap, h]

/-- general serialisation (two or more signature entries) -/
theorem parseJSON_general (o : Oracle) (hb64 : B64Law o) (p : Bytes) (nb : Bool)
    (signers : List Signer) (es : List Signature) (msg : Message) (W W' : Wire) (d : Bytes)
    (hes : msg.signatures = es) (hp : msg.payload = p) (hlen : ∀ e, es ≠ [e])
    (hz : Zip2 (Signed o p nb) signers es) (hne : signers ≠ [])
    (hl : ∀ s ∈ signers, SignerLaws o s)
    (hW : (msgObject msg).run o = .ok W) (hv : StrView W W')
    (hd : o ⟨"json.decodeMap", [.bytes d]⟩ = W') :
    ∃ ps, strBytes ps = p ∧
      (parseJSON d).run o = .ok { signatures := backs signers es, payload := strBytes ps, nb64 := nb } := by
  unfold msgObject at hW
  have hW' : (do let l ← sigObjects es
                 pure (Wire.obj [("payload", .bytes p), ("signatures", .arr l)]) : PO Wire).run o = .ok W := by
    rw [hes, hp] at hW
    match es, hlen, hW with
    | [], _, hW => exact hW
    | [e], hlen, _ => exact absurd rfl (hlen e)
    | _ :: _ :: _, _, hW => exact hW
  obtain ⟨l, hl', hW'⟩ := PO.run_bind_eq_ok o _ _ _ hW'
  simp only [PO.run_pure] at hW'
  injection hW' with hW'
  subst hW'
  obtain ⟨k', rfl, hk⟩ := hv.of_obj
  cases hk with
  | cons _ hv1 hk2 =>
    cases hk2 with
    | cons _ hv2 hk3 =>
      cases hk3
      obtain ⟨ps, rfl, hps⟩ := hv1.of_bytes
      obtain ⟨l', rfl, hll⟩ := hv2.of_arr
      refine ⟨ps, hps, ?_⟩
      have hsigs := parseSigs_back o hb64 p nb signers es l l' 0 false hz (sigObjects_ok o es l hl') hll hl
        (fun h => absurd rfl h) (fun h => absurd h hne)
      unfold parseJSON
      rw [PO.run_bind_ok o _ _ _ (jsonDecodeMap_of_obj o d _ hd)]
      simp only [Wire.asObj, Wire.lookup]
      simp only [show ("payload" == "payload") = true from rfl, show ("signatures" == "payload") = false from rfl,
        show ("signatures" == "signatures") = true from rfl, show ("signature" == "payload") = false from rfl,
        show ("signature" == "signatures") = false from rfl, if_true, Bool.false_eq_true, if_false]
      rw [PO.run_bind_ok o _ _ (strBytes ps) (by simp)]
      rw [PO.run_bind_ok o _ _ l' (by simp)]
      rw [PO.run_bind_ok o _ _ _ hsigs]
      simp

/-- flattened serialisation (exactly one signature entry) -/
theorem parseJSON_flat (o : Oracle) (hb64 : B64Law o) (p : Bytes) (nb : Bool)
    (s : Signer) (e : Signature) (msg : Message) (W W' : Wire) (d : Bytes)
    (hes : msg.signatures = [e]) (hp : msg.payload = p)
    (hs : Signed o p nb s e) (hl : SignerLaws o s)
    (hW : (msgObject msg).run o = .ok W) (hv : StrView W W')
    (hd : o ⟨"json.decodeMap", [.bytes d]⟩ = W') :
    ∃ ps, strBytes ps = p ∧
      (parseJSON d).run o = .ok { signatures := [back s e], payload := strBytes ps, nb64 := nb } := by
  unfold msgObject at hW
  rw [hes, hp] at hW
  simp only at hW
  obtain ⟨okvs, hob, hW⟩ := PO.run_bind_eq_ok o _ _ _ hW
  simp only [PO.run_pure] at hW
  injection hW with hW
  subst hW
  obtain ⟨k', rfl, hk⟩ := hv.of_obj
  obtain ⟨hnone, hsome⟩ := sigObject_ok o e s.hp okvs hs.prot hob
  -- members of the marshalled object
  have m_payload : Wire.lookup "payload" (setKey "payload" (.bytes p) okvs) = some (.bytes p) := by
    cases hh : e.header with
    | none => rw [hnone hh]; simp [setKey, Wire.lookup]
    | some h => obtain ⟨Wh, _, hk⟩ := hsome h hh; rw [hk]; simp [setKey, Wire.lookup]
  have m_prot : Wire.lookup "protected" (setKey "payload" (.bytes p) okvs) = some (.bytes e.rawProtected) := by
    cases hh : e.header with
    | none => rw [hnone hh]; simp [setKey, Wire.lookup]
    | some h => obtain ⟨Wh, _, hk⟩ := hsome h hh; rw [hk]; simp [setKey, Wire.lookup]
  have m_sig : Wire.lookup "signature" (setKey "payload" (.bytes p) okvs) = some (.bytes e.b64signature) := by
    cases hh : e.header with
    | none => rw [hnone hh]; simp [setKey, Wire.lookup]
    | some h => obtain ⟨Wh, _, hk⟩ := hsome h hh; rw [hk]; simp [setKey, Wire.lookup]
  have m_sigs : Wire.lookup "signatures" (setKey "payload" (.bytes p) okvs) = none := by
    cases hh : e.header with
    | none => rw [hnone hh]; simp [setKey, Wire.lookup]
    | some h => obtain ⟨Wh, _, hk⟩ := hsome h hh; rw [hk]; simp [setKey, Wire.lookup]
  obtain ⟨v1, l1, w1⟩ := StrViewKV.lookup_some "payload" _ _ hk _ m_payload
  obtain ⟨ps, rfl, hps⟩ := w1.of_bytes
  obtain ⟨v2, l2, w2⟩ := StrViewKV.lookup_some "protected" _ _ hk _ m_prot
  obtain ⟨pps, rfl, hpps⟩ := w2.of_bytes
  obtain ⟨v3, l3, w3⟩ := StrViewKV.lookup_some "signature" _ _ hk _ m_sig
  obtain ⟨ss, rfl, hss⟩ := w3.of_bytes
  have l4 := StrViewKV.lookup_none "signatures" _ _ hk m_sigs
  refine ⟨ps, hps, ?_⟩
  unfold parseJSON
  rw [PO.run_bind_ok o _ _ _ (jsonDecodeMap_of_obj o d _ hd)]
  simp only [Wire.asObj, l1, l2, l3, l4]
  rw [PO.run_bind_ok o _ _ (strBytes ps) (by simp)]
  cases hh : s.hdr with
  | none =>
    have hh' : e.header = none := by rw [hs.header]; exact hh
    have m_hdr : Wire.lookup "header" (setKey "payload" (.bytes p) okvs) = none := by
      rw [hnone hh']; simp [setKey, Wire.lookup]
    have l5 := StrViewKV.lookup_none "header" _ _ hk m_hdr
    simp only [l5]
    rw [PO.run_bind_ok o _ _ [Wire.obj ([("signature", Wire.str ss)] ++ [("protected", Wire.str pps)])] (by simp)]
    have hel : ElemOK o s e ([("signature", Wire.str ss)] ++ [("protected", Wire.str pps)]) :=
      ⟨⟨pps, by simp [Wire.lookup], hpps⟩, ⟨ss, by simp [Wire.lookup], hss⟩,
       fun _ => by simp [Wire.lookup], fun h hc => (by rw [hh] at hc; cases hc)⟩
    have hp1 := parseSig_of_elem o hb64 p nb s e _ 0 false hs hl hel (fun h => absurd rfl h)
    have hps1 : (parseSigs 0 false [Wire.obj ([("signature", Wire.str ss)] ++ [("protected", Wire.str pps)])]).run o =
        .ok ([back s e], nb) := by
      unfold parseSigs
      rw [PO.run_bind_ok o _ _ _ hp1]
      simp [parseSigs]
    rw [PO.run_bind_ok o _ _ _ hps1]
    simp
  | some h =>
    have hh' : e.header = some h := by rw [hs.header]; exact hh
    obtain ⟨Wh, hWh, hkk⟩ := hsome h hh'
    have m_hdr : Wire.lookup "header" (setKey "payload" (.bytes p) okvs) = some Wh := by
      rw [hkk]; simp [setKey, Wire.lookup]
    obtain ⟨v5, l5, w5⟩ := StrViewKV.lookup_some "header" _ _ hk _ m_hdr
    obtain ⟨kvs, rfl⟩ := encodeHeader_obj o h Wh hWh
    obtain ⟨kvs', rfl, _⟩ := w5.of_obj
    simp only [l5]
    rw [PO.run_bind_ok o _ _ [Wire.obj ([("signature", Wire.str ss)] ++ [("protected", Wire.str pps)] ++ [("header", Wire.obj kvs')])] (by simp)]
    have hel : ElemOK o s e ([("signature", Wire.str ss)] ++ [("protected", Wire.str pps)] ++ [("header", Wire.obj kvs')]) := by
      refine ⟨⟨pps, by simp [Wire.lookup], hpps⟩, ⟨ss, by simp [Wire.lookup], hss⟩, ?_, ?_⟩
      · intro hc; rw [hh] at hc; cases hc
      · intro h2 hc
        rw [hh] at hc; injection hc with hc; subst hc
        exact ⟨_, kvs', hWh, w5, by simp [Wire.lookup]⟩
    have hp1 := parseSig_of_elem o hb64 p nb s e _ 0 false hs hl hel (fun h => absurd rfl h)
    have hps1 : (parseSigs 0 false [Wire.obj ([("signature", Wire.str ss)] ++ [("protected", Wire.str pps)] ++ [("header", Wire.obj kvs')])]).run o =
        .ok ([back s e], nb) := by
      unfold parseSigs
      rw [PO.run_bind_ok o _ _ _ hp1]
      simp [parseSigs]
    rw [PO.run_bind_ok o _ _ _ hps1]
    simp

end Model.JWS
