import GoatProofs.Lemmas.C02Sign
/-
C02 — the JSON serialisations: what `MarshalJSON` writes, `Parse` reads back.

The JSON oracle law is stated with `StrView W W'`: `W'` is `W` with every `bytes` leaf (a Go string
holding those bytes) replaced by a `str` leaf whose UTF-8 bytes they are — what
`json.decodeMap (json.Marshal W)` returns for an object with sorted unique keys and UTF-8 leaves.
-/
namespace Model.JWS

mutual
inductive StrView : Wire → Wire → Prop
  | bytes {b : Bytes} {s : String} : strBytes s = b → StrView (.bytes b) (.str s)
  | str (s : String) : StrView (.str s) (.str s)
  | bool (b : Bool) : StrView (.bool b) (.bool b)
  | num (s : String) : StrView (.num s) (.num s)
  | null : StrView .null .null
  | arr {l l' : List Wire} : StrViewL l l' → StrView (.arr l) (.arr l')
  | obj {k k' : List (String × Wire)} : StrViewKV k k' → StrView (.obj k) (.obj k')
inductive StrViewL : List Wire → List Wire → Prop
  | nil : StrViewL [] []
  | cons {a a' : Wire} {l l' : List Wire} : StrView a a' → StrViewL l l' → StrViewL (a :: l) (a' :: l')
inductive StrViewKV : List (String × Wire) → List (String × Wire) → Prop
  | nil : StrViewKV [] []
  | cons (key : String) {v v' : Wire} {r r' : List (String × Wire)} :
      StrView v v' → StrViewKV r r' → StrViewKV ((key, v) :: r) ((key, v') :: r')
end

theorem StrView.of_bytes {b : Bytes} {w : Wire} (h : StrView (.bytes b) w) :
    ∃ s, w = .str s ∧ strBytes s = b := by
  cases h with
  | bytes hb => exact ⟨_, rfl, hb⟩

theorem StrView.of_obj {k : List (String × Wire)} {w : Wire} (h : StrView (.obj k) w) :
    ∃ k', w = .obj k' ∧ StrViewKV k k' := by
  cases h with
  | obj hk => exact ⟨_, rfl, hk⟩

theorem StrView.of_arr {l : List Wire} {w : Wire} (h : StrView (.arr l) w) :
    ∃ l', w = .arr l' ∧ StrViewL l l' := by
  cases h with
  | arr hl => exact ⟨_, rfl, hl⟩

theorem StrViewKV.lookup_some (key : String) : ∀ (k k' : List (String × Wire)), StrViewKV k k' →
    ∀ v, Wire.lookup key k = some v → ∃ v', Wire.lookup key k' = some v' ∧ StrView v v' := by
  intro k
  induction k with
  | nil => intro k' _ v hv; simp [Wire.lookup] at hv
  | cons kv r ih =>
    intro k' h v hv
    cases h with
    | cons key' hv' hr =>
      unfold Wire.lookup at hv ⊢
      by_cases he : (key == key') = true
      · simp only [he, if_true] at hv ⊢
        injection hv with hv; subst hv
        exact ⟨_, rfl, hv'⟩
      · simp only [he, Bool.false_eq_true, if_false] at hv ⊢
        exact ih _ hr v hv

theorem StrViewKV.lookup_none (key : String) : ∀ (k k' : List (String × Wire)), StrViewKV k k' →
    Wire.lookup key k = none → Wire.lookup key k' = none := by
  intro k
  induction k with
  | nil => intro k' h _; cases h; rfl
  | cons kv r ih =>
    intro k' h hv
    cases h with
    | cons key' _ hr =>
      unfold Wire.lookup at hv ⊢
      by_cases he : (key == key') = true
      · simp [he] at hv
      · simp only [he, Bool.false_eq_true, if_false] at hv ⊢
        exact ih _ hr hv

/-! ## several signers -/

/-- one signer: the headers handed to `Sign`, what they decode back to, and the key pair -/
structure Signer where
  hp : Header
  hdr : Option Header
  sk : Sig.SigningKey
  hp' : Header
  hdr' : Option Header
  vk : Sig.SigningKey

/-- `msg.Sign(s.hp, s.hdr, s.sk)` for every signer in turn -/
def signAll (msg : Message) : List Signer → PO Message
  | [] => pure msg
  | s :: rest => do
    let m ← sign msg (some s.hp) s.hdr s.sk
    signAll m rest

/-- `e` is the entry `Sign` appended for signer `s` on the stored payload text `p` -/
structure Signed (o : Oracle) (p : Bytes) (nb : Bool) (s : Signer) (e : Signature) : Prop where
  prot : e.prot = some s.hp
  header : e.header = s.hdr
  nb64 : s.hp.nb64 = nb
  enc : ∃ W hj, (encodeHeader s.hp).run o = .ok W ∧ o ⟨"c01.json.marshalB", [W]⟩ = .bytes hj ∧
    o ⟨"b64url.enc", [.bytes hj]⟩ = .bytes e.rawProtected
  signed : (Sig.signKey s.sk (e.rawProtected ++ dot :: p)).run o = .ok e.signature
  b64sig : o ⟨"b64url.enc", [.bytes e.signature]⟩ = .bytes e.b64signature

theorem signAll_ok (o : Oracle) : ∀ (signers : List Signer) (msg msgN : Message),
    (signAll msg signers).run o = .ok msgN →
    msgN.payload = msg.payload ∧ msgN.nb64 = msg.nb64 ∧
    ∃ es, msgN.signatures = msg.signatures ++ es ∧ Zip2 (Signed o msg.payload msg.nb64) signers es := by
  intro signers
  induction signers with
  | nil =>
    intro msg msgN h
    simp only [signAll, PO.run_pure] at h
    injection h with h; subst h
    exact ⟨rfl, rfl, [], by simp, Zip2.nil⟩
  | cons s rest ih =>
    intro msg msgN h
    unfold signAll at h
    obtain ⟨m, hm, h⟩ := PO.run_bind_eq_ok o _ _ _ h
    obtain ⟨hnb, W, hj, rawB, sg, b64sig, hW, hM, hR, hS, hB, rfl⟩ := sign_ok o msg m s.hp s.hdr s.sk hm
    obtain ⟨h1, h2, es, h3, h4⟩ := ih _ msgN h
    refine ⟨h1, h2, { prot := some s.hp, header := s.hdr, rawProtected := rawB, b64signature := b64sig, signature := sg } :: es,
      by rw [h3]; simp [List.append_assoc], Zip2.cons ?_ h4⟩
    exact ⟨rfl, rfl, hnb.symm, ⟨W, hj, hW, hM, hR⟩, hS, hB⟩

/-- header codec law for an UNPROTECTED header: the member `MarshalJSON` embeds, read back as a JSON
    object, decodes to `h'` -/
def UnprotRoundTrip (o : Oracle) (h h' : Header) : Prop :=
  ∀ Wh Wh', (encodeHeader h).run o = .ok Wh → StrView Wh Wh' → (decodeHeader Wh').run o = .ok h'

/-- the codec laws of one signer -/
structure SignerLaws (o : Oracle) (s : Signer) : Prop where
  prot : HeaderRoundTrip o s.hp s.hp'
  nb64 : s.hp'.nb64 = s.hp.nb64
  unprot_none : s.hdr = none → s.hdr' = none
  unprot_some : ∀ h, s.hdr = some h → ∃ h', s.hdr' = some h' ∧ UnprotRoundTrip o h h'

/-- the entry as every parser of this library stores it -/
def back (s : Signer) (e : Signature) : Signature :=
  { prot := some s.hp', header := s.hdr', rawProtected := e.rawProtected,
    b64signature := e.b64signature, signature := e.signature }

/-- the members of one JSON signature object that the parser looks at, for entry `e` of signer `s` -/
structure ElemOK (o : Oracle) (s : Signer) (e : Signature) (ekvs : KVs) : Prop where
  prot : ∃ ps, Wire.lookup "protected" ekvs = some (.str ps) ∧ strBytes ps = e.rawProtected
  sig : ∃ ss, Wire.lookup "signature" ekvs = some (.str ss) ∧ strBytes ss = e.b64signature
  hdr_none : s.hdr = none → Wire.lookup "header" ekvs = none
  hdr_some : ∀ h, s.hdr = some h → ∃ Wh kvs', (encodeHeader h).run o = .ok Wh ∧
    StrView Wh (.obj kvs') ∧ Wire.lookup "header" ekvs = some (.obj kvs')

/-- `parseSig` on such an object gives the entry back (`i = 0` sets the message flag, later entries
    must agree with it) -/
theorem parseSig_of_elem (o : Oracle) (hb64 : B64Law o) (p : Bytes) (nb : Bool) (s : Signer)
    (e : Signature) (ekvs : KVs) (i : Nat) (nb0 : Bool)
    (hs : Signed o p nb s e) (hl : SignerLaws o s) (he : ElemOK o s e ekvs)
    (hi : i ≠ 0 → nb0 = nb) :
    (parseSig i nb0 (.obj ekvs)).run o = .ok (back s e, nb) := by
  obtain ⟨ps, hps, hpsb⟩ := he.prot
  obtain ⟨ss, hss, hssb⟩ := he.sig
  obtain ⟨W, hj, hW, hM, hR⟩ := hs.enc
  -- base64 facts
  obtain ⟨x, x1, x2, _⟩ := hb64 hj
  rw [hR] at x1; injection x1 with x1; subst x1
  obtain ⟨y, y1, y2, _⟩ := hb64 e.signature
  rw [hs.b64sig] at y1; injection y1 with y1; subst y1
  have hdec := hl.prot W hj hW hM
  have hnbp : s.hp'.nb64 = nb := by rw [hl.nb64, hs.nb64]
  unfold parseSig
  simp only [hps, hpsb, hss, hssb]
  have d1 : (b64Decode e.rawProtected).run o = .ok hj := (b64Decode_ok o _ _).2 x2
  have d2 : (b64Decode e.b64signature).run o = .ok e.signature := (b64Decode_ok o _ _).2 y2
  -- protected part, then the b64 consistency step of every entry
  have hprot : ((do
        let raw ← b64Decode e.rawProtected
        let h ← unmarshalHeader raw
        pure (some h, e.rawProtected, h.nb64) : PO (Option Header × Bytes × Bool))).run o =
      .ok (some s.hp', e.rawProtected, nb) := by
    rw [PO.run_bind_ok o _ _ _ d1, PO.run_bind_ok o _ _ _ hdec]
    simp [hnbp]
  rw [PO.run_bind_ok o _ _ _ hprot]
  simp only
  have hflag : ((if (i == 0) = true then pure nb
      else if (nb0 != nb) = true then PO.fail "parse" else pure nb0 : PO Bool)).run o = .ok nb := by
    by_cases h0 : i = 0
    · simp [h0]
    · have : (i == 0) = false := by simpa using h0
      simp [this, hi h0]
  rw [PO.run_bind_ok o _ _ _ hflag]
  -- unprotected part
  cases hh : s.hdr with
  | none =>
    have := he.hdr_none hh
    simp only [this]
    rw [PO.run_bind_ok o _ _ (none : Option Header) (by simp)]
    rw [PO.run_bind_ok o _ _ _ d2]
    simp [back, hl.unprot_none hh]
  | some h =>
    obtain ⟨Wh, kvs', hWh, hview, hlk⟩ := he.hdr_some h hh
    obtain ⟨h', hh', hrt⟩ := hl.unprot_some h hh
    have hd := hrt Wh (.obj kvs') hWh hview
    simp only [hlk]
    have hpart : ((do let h ← decodeHeader (.obj kvs'); pure (some h) : PO (Option Header))).run o = .ok (some h') := by
      rw [PO.run_bind_ok o _ _ _ hd]; simp
    rw [PO.run_bind_ok o _ _ _ hpart]
    rw [PO.run_bind_ok o _ _ _ d2]
    simp [back, hh']

/-! ## what `MarshalJSON` writes for one entry -/

theorem encodeHeader_obj (o : Oracle) (h : Header) (W : Wire) (hr : (encodeHeader h).run o = .ok W) :
    ∃ kvs, W = .obj kvs := by
  unfold encodeHeader at hr
  simp only at hr
  obtain ⟨r6, _, hr⟩ := PO.run_bind_eq_ok o _ _ _ hr
  obtain ⟨r7, _, hr⟩ := PO.run_bind_eq_ok o _ _ _ hr
  obtain ⟨r8, _, hr⟩ := PO.run_bind_eq_ok o _ _ _ hr
  simp only [PO.run_pure] at hr
  injection hr with hr
  exact ⟨_, hr.symm⟩

/-- the object of an entry that has a protected header -/
theorem sigObject_ok (o : Oracle) (e : Signature) (p : Header) (okvs : KVs) (hp : e.prot = some p)
    (hr : (sigObject e).run o = .ok okvs) :
    (e.header = none → okvs = [("protected", .bytes e.rawProtected), ("signature", .bytes e.b64signature)]) ∧
    (∀ h, e.header = some h → ∃ Wh, (encodeHeader h).run o = .ok Wh ∧
      okvs = [("header", Wh), ("protected", .bytes e.rawProtected), ("signature", .bytes e.b64signature)]) := by
  unfold sigObject at hr
  simp only [hp] at hr
  have e2 : setKey "protected" (.bytes e.rawProtected) [("signature", .bytes e.b64signature)] =
      [("protected", .bytes e.rawProtected), ("signature", .bytes e.b64signature)] := by simp [setKey]
  rw [e2] at hr
  cases hh : e.header with
  | none =>
    simp only [hh, PO.run_pure] at hr
    injection hr with hr
    exact ⟨fun _ => hr.symm, fun h hc => (by cases hc)⟩
  | some h =>
    simp only [hh] at hr
    obtain ⟨Wh, hWh, hr⟩ := PO.run_bind_eq_ok o _ _ _ hr
    simp only [PO.run_pure] at hr
    injection hr with hr
    refine ⟨fun hc => (by cases hc), fun h' hc => ?_⟩
    injection hc with hc; subst hc
    refine ⟨Wh, hWh, ?_⟩
    rw [← hr]; simp [setKey]

/-- the JSON view of that object has the members the parser needs -/
theorem elemOK_of_view (o : Oracle) (p : Bytes) (nb : Bool) (s : Signer) (e : Signature) (okvs : KVs) (w' : Wire)
    (hs : Signed o p nb s e) (hr : (sigObject e).run o = .ok okvs) (hv : StrView (.obj okvs) w') :
    ∃ ekvs, w' = .obj ekvs ∧ ElemOK o s e ekvs := by
  obtain ⟨ekvs, rfl, hkv⟩ := hv.of_obj
  obtain ⟨hnone, hsome⟩ := sigObject_ok o e s.hp okvs hs.prot hr
  refine ⟨ekvs, rfl, ?_⟩
  have hprot : Wire.lookup "protected" okvs = some (.bytes e.rawProtected) := by
    cases hh : e.header with
    | none => rw [hnone hh]; simp [Wire.lookup]
    | some h => obtain ⟨Wh, _, hk⟩ := hsome h hh; rw [hk]; simp [Wire.lookup]
  have hsig : Wire.lookup "signature" okvs = some (.bytes e.b64signature) := by
    cases hh : e.header with
    | none => rw [hnone hh]; simp [Wire.lookup]
    | some h => obtain ⟨Wh, _, hk⟩ := hsome h hh; rw [hk]; simp [Wire.lookup]
  refine ⟨?_, ?_, ?_, ?_⟩
  · obtain ⟨v', h1, h2⟩ := StrViewKV.lookup_some "protected" _ _ hkv _ hprot
    obtain ⟨ps, rfl, hb⟩ := h2.of_bytes
    exact ⟨ps, h1, hb⟩
  · obtain ⟨v', h1, h2⟩ := StrViewKV.lookup_some "signature" _ _ hkv _ hsig
    obtain ⟨ss, rfl, hb⟩ := h2.of_bytes
    exact ⟨ss, h1, hb⟩
  · intro hn
    have hh : e.header = none := by rw [hs.header]; exact hn
    apply StrViewKV.lookup_none "header" _ _ hkv
    rw [hnone hh]; simp [Wire.lookup]
  · intro h hh'
    have hh : e.header = some h := by rw [hs.header]; exact hh'
    obtain ⟨Wh, hWh, hk⟩ := hsome h hh
    have hl : Wire.lookup "header" okvs = some Wh := by rw [hk]; simp [Wire.lookup]
    obtain ⟨v', h1, h2⟩ := StrViewKV.lookup_some "header" _ _ hkv _ hl
    obtain ⟨kvs, rfl⟩ := encodeHeader_obj o h Wh hWh
    obtain ⟨kvs', rfl, _⟩ := h2.of_obj
    exact ⟨_, kvs', hWh, h2, h1⟩

theorem sigObjects_ok (o : Oracle) : ∀ (es : List Signature) (l : List Wire),
    (sigObjects es).run o = .ok l →
    Zip2 (fun e w => ∃ okvs, w = .obj okvs ∧ (sigObject e).run o = .ok okvs) es l := by
  intro es
  induction es with
  | nil => intro l h; simp only [sigObjects, PO.run_pure] at h; injection h with h; subst h; exact Zip2.nil
  | cons e rest ih =>
    intro l h
    unfold sigObjects at h
    obtain ⟨ob, hob, h⟩ := PO.run_bind_eq_ok o _ _ _ h
    obtain ⟨r, hr, h⟩ := PO.run_bind_eq_ok o _ _ _ h
    simp only [PO.run_pure] at h
    injection h with h; subst h
    exact Zip2.cons ⟨ob, rfl, hob⟩ (ih r hr)

/-- the entries as parsed back, in order -/
def backs : List Signer → List Signature → List Signature
  | s :: ss, e :: es => back s e :: backs ss es
  | _, _ => []

/-- `parseSigs` over the JSON view of the objects `MarshalJSON` wrote gives every entry back -/
theorem parseSigs_back (o : Oracle) (hb64 : B64Law o) (p : Bytes) (nb : Bool) :
    ∀ (signers : List Signer) (es : List Signature) (l l' : List Wire) (i : Nat) (nb0 : Bool),
      Zip2 (Signed o p nb) signers es →
      Zip2 (fun e w => ∃ okvs, w = .obj okvs ∧ (sigObject e).run o = .ok okvs) es l →
      StrViewL l l' → (∀ s ∈ signers, SignerLaws o s) →
      (i ≠ 0 → nb0 = nb) → (signers = [] → nb0 = nb) →
      (parseSigs i nb0 l').run o = .ok (backs signers es, nb) := by
  intro signers
  induction signers with
  | nil =>
    intro es l l' i nb0 h1 h2 h3 _ _ h6
    cases h1; cases h2; cases h3
    simp [parseSigs, backs, h6 rfl]
  | cons s rest ih =>
    intro es l l' i nb0 h1 h2 h3 h4 h5 _
    cases h1 with
    | cons hs h1' =>
      cases h2 with
      | cons ho h2' =>
        cases h3 with
        | cons hv h3' =>
          obtain ⟨okvs, rfl, hob⟩ := ho
          obtain ⟨ekvs, rfl, hel⟩ := elemOK_of_view o p nb s _ okvs _ hs hob hv
          have hp1 := parseSig_of_elem o hb64 p nb s _ ekvs i nb0 hs (h4 s (List.mem_cons_self ..)) hel h5
          have hp2 := ih _ _ _ (i + 1) nb h1' h2' h3' (fun s' hs' => h4 s' (List.mem_cons_of_mem _ hs'))
            (fun _ => rfl) (fun _ => rfl)
          unfold parseSigs
          rw [PO.run_bind_ok o _ _ _ hp1]
          simp only
          rw [PO.run_bind_ok o _ _ _ hp2]
          simp [backs]

end Model.JWS
