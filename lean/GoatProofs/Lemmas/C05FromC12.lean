import GoatProofs.C12
import GoatProofs.Lemmas.C05JsonProducer
/-
C05 ← C12: laws of the JWE-layer oracles that are THEOREMS of C12's models.

At the JWE layer goat's content-encryption and key-wrap packages are oracle queries (`enc.encrypt`,
`enc.decrypt`, `kw.wrap`, `kw.unwrap`).  C12 models those packages (Model.Enc.AGCM, Model.Enc.ACBC, Model.KW.AKW, …)
over the *library* oracles (`aes.enc`, `aes.dec`, `gcm.seal`, `gcm.open`, `hmac`) and proves
Decrypt∘Encrypt = id resp. UnwrapKey∘WrapKey = id from the library laws.  If the JWE-layer oracle answers as C12's
model does (`…IsModel`), the law assumed in `Laws.aead` / `WrapLawKM` follows — the assumption moves one level down,
to the block-cipher / AEAD inverse law of the Go standard library.
-/
namespace GoatProofs.C05
open Model.JWE Model.GoBuf

def encWire : Outcome (Bytes × Bytes) → Wire
  | .ok (ct, tag) => .arr [.bytes ct, .bytes tag]
  | _ => .none

def bytesWire : Outcome Bytes → Wire
  | .ok b => .bytes b
  | _ => .none

/-- the JWE-layer oracle for content encryption `enc` is goat's agcm package with key length `keyLen` -/
structure GcmIsModel (o : Oracle) (enc : String) (keyLen : Nat) : Prop where
  encQ : ∀ cek iv aad pt, o ⟨"enc.encrypt", [.str enc, .bytes cek, .bytes iv, .bytes aad, .bytes pt]⟩ =
    encWire ((Model.Enc.AGCM.encrypt keyLen cek iv aad pt).run o)
  decQ : ∀ cek iv aad ct tag, o ⟨"enc.decrypt", [.str enc, .bytes cek, .bytes iv, .bytes aad, .bytes ct, .bytes tag]⟩ =
    bytesWire ((Model.Enc.AGCM.decrypt keyLen cek iv aad ct tag).run o)

/-- `Laws.aead` for an AES-GCM content encryption, from C12's `agcm_decrypt_encrypt` and the library's AEAD law -/
theorem aead_of_c12_gcm (o : Oracle) (enc : String) (keyLen : Nat) (hk : keyLen = 16 ∨ keyLen = 24 ∨ keyLen = 32)
    (M : GcmIsModel o enc keyLen)
    (hlib : ∀ k iv aad p, gcmOpenFn o k iv aad (gcmSealFn o k iv aad p) = some p)
    (cek iv aad pt ct tag : Bytes)
    (h : o ⟨"enc.encrypt", [.str enc, .bytes cek, .bytes iv, .bytes aad, .bytes pt]⟩ = .arr [.bytes ct, .bytes tag]) :
    o ⟨"enc.decrypt", [.str enc, .bytes cek, .bytes iv, .bytes aad, .bytes ct, .bytes tag]⟩ = .bytes pt := by
  rw [M.encQ] at h
  have hrun : (Model.Enc.AGCM.encrypt keyLen cek iv aad pt).run o = .ok (ct, tag) := by
    cases hr : (Model.Enc.AGCM.encrypt keyLen cek iv aad pt).run o with
    | ok p => obtain ⟨a, b⟩ := p; rw [hr] at h; simp only [encWire] at h; cases h; rfl
    | err c => rw [hr] at h; simp [encWire] at h
    | panic c => rw [hr] at h; simp [encWire] at h
  have hlen : cek.length = keyLen ∧ iv.length = 12 := by
    unfold Model.Enc.AGCM.encrypt at hrun
    by_cases h1 : cek.length = keyLen
    · by_cases h2 : iv.length = 12
      · exact ⟨h1, h2⟩
      · exfalso; simp [h1, h2, Model.Enc.AGCM.nonceSize] at hrun
    · exfalso; simp [h1] at hrun
  have hc := C12.agcm_decrypt_encrypt o keyLen hk cek iv aad pt hlen.1 hlen.2 (hlib _ _ _ _)
  rw [PO.run_bind, hrun] at hc
  simp only at hc
  rw [M.decQ, hc]
  rfl

/-- the JWE-layer oracle for content encryption `enc` is goat's acbc package with parameters `ps` -/
structure CbcIsModel (o : Oracle) (enc : String) (ps : Spec.CBCHS.Params) : Prop where
  encQ : ∀ cek iv aad pt, o ⟨"enc.encrypt", [.str enc, .bytes cek, .bytes iv, .bytes aad, .bytes pt]⟩ =
    encWire ((Model.Enc.ACBC.encrypt ps cek iv aad pt).run o)
  decQ : ∀ cek iv aad ct tag, o ⟨"enc.decrypt", [.str enc, .bytes cek, .bytes iv, .bytes aad, .bytes ct, .bytes tag]⟩ =
    bytesWire ((Model.Enc.ACBC.decrypt ps cek iv aad ct tag).run o)

/-- `Laws.aead` for an AES_CBC_HMAC_SHA2 content encryption, from C12's `cbchs_decrypt_encrypt` and the library's
    block-cipher law D_k (E_k x) = x -/
theorem aead_of_c12_cbc (o : Oracle) (enc : String) (ps : Spec.CBCHS.Params)
    (hps : ps.encKeyLen = 16 ∨ ps.encKeyLen = 24 ∨ ps.encKeyLen = 32)
    (M : CbcIsModel o enc ps)
    (hlib : ∀ k x, x.length = 16 → decFn o k (encFn o k x) = x)
    (cek iv aad pt ct tag : Bytes)
    (h : o ⟨"enc.encrypt", [.str enc, .bytes cek, .bytes iv, .bytes aad, .bytes pt]⟩ = .arr [.bytes ct, .bytes tag]) :
    o ⟨"enc.decrypt", [.str enc, .bytes cek, .bytes iv, .bytes aad, .bytes ct, .bytes tag]⟩ = .bytes pt := by
  rw [M.encQ] at h
  have hrun : (Model.Enc.ACBC.encrypt ps cek iv aad pt).run o = .ok (ct, tag) := by
    cases hr : (Model.Enc.ACBC.encrypt ps cek iv aad pt).run o with
    | ok p => obtain ⟨a, b⟩ := p; rw [hr] at h; simp only [encWire] at h; cases h; rfl
    | err c => rw [hr] at h; simp [encWire] at h
    | panic c => rw [hr] at h; simp [encWire] at h
  have hlen : cek.length = ps.macKeyLen + ps.encKeyLen ∧ iv.length = 16 := by
    unfold Model.Enc.ACBC.encrypt at hrun
    by_cases h1 : cek.length = ps.macKeyLen + ps.encKeyLen
    · by_cases h2 : iv.length = 16
      · exact ⟨h1, h2⟩
      · exfalso
        have e1 : (cek.length != ps.macKeyLen + ps.encKeyLen) = false := by simp [h1]
        have e2 : (iv.length != Model.Enc.ACBC.blockSize) = true := by simp [Model.Enc.ACBC.blockSize, h2]
        simp only [e1, Bool.false_eq_true, if_false] at hrun
        by_cases h3 : aesKeyOk (slice cek ps.macKeyLen cek.length) = true
        · simp only [h3, Bool.not_true, Bool.false_eq_true, if_false, e2, if_true] at hrun
          simp at hrun
        · simp only [h3, Bool.not_false, if_true] at hrun
          simp at hrun
    · exfalso; simp [h1] at hrun
  have hc := C12.cbchs_decrypt_encrypt o ps hps cek iv aad pt hlen.1 hlen.2 (fun x hx => hlib _ x hx)
  rw [PO.run_bind, hrun] at hc
  simp only at hc
  rw [M.decQ, hc]
  rfl


/-- the JWE-layer key-wrap oracle for the wrapper pair (`kw` sender, `kw'` recipient) is goat's akw package
    (A128KW / A192KW / A256KW with `ks` = 16 / 24 / 32) over the key `key`; WrapKey publishes no header parameter -/
structure AkwIsModel (o : Oracle) (kw kw' : Wire) (ks : Nat) (key : Bytes) : Prop where
  wrapQ : ∀ cek opts, o ⟨"kw.wrap", [kw, .bytes cek, opts]⟩ =
    (match (Model.KW.AKW.wrapKey ks true key cek).run o with
     | .ok d => .arr [.bytes d, .obj []]
     | _ => .none)
  unwrapQ : ∀ data opts, o ⟨"kw.unwrap", [kw', .bytes data, opts]⟩ =
    bytesWire ((Model.KW.AKW.unwrapKey ks true key data).run o)

/-- `WrapLawKM` for AES Key Wrap, from C12's `akw_unwrap_wrap` (RFC 3394 unwrap∘wrap = id on goat's code) and the
    library's block-cipher law -/
theorem wrapLawKM_of_c12_akw (o : Oracle) (kw kw' : Wire) (ks : Nat) (key : Bytes)
    (hk : Model.KW.AKW.keyAccepted ks key = true) (hk' : aesKeyOk key = true)
    (M : AkwIsModel o kw kw' ks key)
    (hlib : ∀ x, x.length = 16 → decFn o key (encFn o key x) = x) : WrapLawKM o kw kw' := by
  intro cek h data upd hc8 hq
  rw [M.wrapQ] at hq
  cases hr : (Model.KW.AKW.wrapKey ks true key cek).run o with
  | err c => rw [hr] at hq; simp at hq
  | panic c => rw [hr] at hq; simp at hq
  | ok d =>
    rw [hr] at hq
    simp only [Wire.arr.injEq, List.cons.injEq, Wire.bytes.injEq, and_true] at hq
    obtain ⟨hd, hu⟩ := hq
    subst hd
    subst hu
    have h8 : cek.length % 8 = 0 := by
      unfold Model.KW.AKW.wrapKey at hr
      by_cases h8 : cek.length % 8 = 0
      · exact h8
      · exfalso
        have e : (cek.length % Model.KW.AKW.chunkLen != 0) = true := by simpa [Model.KW.AKW.chunkLen] using h8
        simp [hk, e] at hr
    have hc := C12.akw_unwrap_wrap o ks key cek hk hk' h8 hc8 hlib
    rw [PO.run_bind, hr] at hc
    simp only at hc
    refine ⟨fun opts' _ => ?_, ?_⟩
    · rw [M.unwrapQ, hc]; rfl
    · intro n hn
      simp [Wire.get?, Wire.asObj, Wire.lookup] at hn

end GoatProofs.C05
