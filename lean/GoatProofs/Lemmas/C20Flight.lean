import Goat.Model.Conc
/-!
C20 — the single-flight group: invariants of the state machine `Conc.Flight`.
-/
namespace Conc.Flight

def Waiting (s : St) (c : Caller) : Prop := ∃ ws, s.flight = some ws ∧ c ∈ ws

theorem setOnce_other {out : Caller → Option Outcome} {c c' : Caller} {o : Outcome} (h : c' ≠ c) :
    setOnce out c o c' = out c' := by simp [setOnce, h]

theorem setOnce_stable {out : Caller → Option Outcome} {c c' : Caller} {o x : Outcome}
    (h : out c' = some x) : setOnce out c o c' = some x := by
  unfold setOnce
  split
  · rename_i hc; subst hc; simp [h]
  · exact h

theorem setOnce_none {out : Caller → Option Outcome} {c : Caller} {o : Outcome}
    (h : out c = none) : setOnce out c o c = some o := by simp [setOnce, h]

/-- an outcome, once delivered, never changes -/
theorem step_out_stable (s : St) (e : Ev) (c : Caller) (x : Outcome) (h : s.out c = some x) :
    (step s e).out c = some x := by
  cases e with
  | call c' =>
    simp only [step]
    split
    · exact h
    · split
      · exact setOnce_stable h
      · split <;> exact h
  | cancel c' =>
    simp only [step]
    split
    · exact h
    · split
      · split
        · split <;> exact setOnce_stable h
        · exact h
      · exact h
  | answer ok v =>
    simp only [step]
    split
    · exact h
    · simp only [h]; split <;> rfl

theorem run_out_stable (evs : List Ev) : ∀ (s : St) (c : Caller) (x : Outcome), s.out c = some x →
    (run s evs).out c = some x := by
  induction evs with
  | nil => intro s c x h; exact h
  | cons e r ih => intro s c x h; exact ih _ c x (step_out_stable s e c x h)

/-- well-formedness of reachable states: the waiters of a flight are distinct, have no outcome
    yet and their contexts are live; a flight has at least one waiter -/
def Wf (s : St) : Prop :=
  ∀ ws, s.flight = some ws → ws ≠ [] ∧ ws.Nodup ∧ ∀ c ∈ ws, s.out c = none ∧ c ∉ s.dead

theorem wf_init : Wf init := by intro ws h; cases h

theorem known_false {s : St} {c : Caller} (h : known s c = false) :
    s.out c = none ∧ c ∉ s.dead ∧ ∀ ws, s.flight = some ws → c ∉ ws := by
  simp only [known, Bool.or_eq_false_iff, Option.isSome_eq_false_iff, Option.isNone_iff_eq_none] at h
  refine ⟨h.1.1, by simpa using h.1.2, ?_⟩
  intro ws hws
  have := h.2
  simp only [isWaiting, hws] at this
  simpa using this

theorem wf_step (s : St) (e : Ev) (h : Wf s) : Wf (step s e) := by
  cases e with
  | call c =>
    simp only [step]
    split
    · exact h
    · rename_i hk
      have hk' := known_false (by simpa using hk)
      split
      · -- cache hit: the flight (if any) is untouched, c is not a waiter
        intro ws hws
        obtain ⟨h1, h2, h3⟩ := h ws hws
        refine ⟨h1, h2, fun c' hc' => ?_⟩
        have hne : c' ≠ c := fun heq => hk'.2.2 ws hws (heq ▸ hc')
        exact ⟨(setOnce_other hne).trans (h3 c' hc').1, (h3 c' hc').2⟩
      · split
        · rename_i ws0 hws0
          intro ws hws
          simp only [Option.some.injEq] at hws
          subst hws
          obtain ⟨_, h2, h3⟩ := h ws0 hws0
          refine ⟨by simp, List.nodup_cons.2 ⟨hk'.2.2 ws0 hws0, h2⟩, ?_⟩
          intro c' hc'
          rcases List.mem_cons.1 hc' with rfl | hc'
          · exact ⟨hk'.1, hk'.2.1⟩
          · exact h3 c' hc'
        · intro ws hws
          simp only [Option.some.injEq] at hws
          subst hws
          refine ⟨by simp, by simp, ?_⟩
          intro c' hc'
          simp only [List.mem_singleton] at hc'
          subst hc'
          exact ⟨hk'.1, hk'.2.1⟩
  | cancel c =>
    simp only [step]
    split
    · exact h
    · rename_i hdead
      split
      · rename_i ws0 hws0
        obtain ⟨_, h2, h3⟩ := h ws0 hws0
        split
        · split
          · intro ws hws; cases hws
          · rename_i hne
            intro ws hws
            simp only [Option.some.injEq] at hws
            subst hws
            refine ⟨by simpa using hne, h2.erase c, ?_⟩
            intro c' hc'
            have hc0 : c' ∈ ws0 := List.mem_of_mem_erase hc'
            have hcc : c' ≠ c := fun heq => by
              subst heq; exact (List.Nodup.mem_erase_iff h2).1 hc' |>.1 rfl
            refine ⟨(setOnce_other hcc).trans (h3 c' hc0).1, ?_⟩
            simp only [List.mem_cons, not_or]
            exact ⟨hcc, (h3 c' hc0).2⟩
        · rename_i hnot
          intro ws hws
          simp only at hws
          rw [hws0] at hws
          simp only [Option.some.injEq] at hws
          subst hws
          refine ⟨(h ws0 hws0).1, h2, ?_⟩
          intro c' hc'
          have hcc : c' ≠ c := fun heq => by subst heq; simp [hc'] at hnot
          simp only [List.mem_cons, not_or]
          exact ⟨(h3 c' hc').1, hcc, (h3 c' hc').2⟩
      · rename_i hnone
        intro ws hws
        simp only at hws
        rw [hnone] at hws; cases hws
  | answer ok v =>
    simp only [step]
    split
    · exact h
    · intro ws hws; cases hws

theorem wf_run (evs : List Ev) : ∀ s, Wf s → Wf (run s evs) := by
  induction evs with
  | nil => intro s h; exact h
  | cons e r ih => intro s h; exact ih _ (wf_step s e h)

/-- a waiter keeps waiting through every event that is neither the answer nor its own
    cancellation, and no new provider request is started meanwhile -/
theorem waiting_step (s : St) (e : Ev) (c : Caller) (hw : Waiting s c) (hnone : s.out c = none)
    (hans : e.isAnswer = false) (hc : e ≠ .cancel c) :
    Waiting (step s e) c ∧ (step s e).out c = none ∧ (step s e).requests = s.requests := by
  obtain ⟨ws, hws, hmem⟩ := hw
  cases e with
  | call c' =>
    simp only [step]
    split
    · exact ⟨⟨ws, hws, hmem⟩, hnone, rfl⟩
    · rename_i hk
      have hk' := known_false (by simpa using hk)
      have hne : c ≠ c' := fun heq => hk'.2.2 ws hws (heq ▸ hmem)
      split
      · exact ⟨⟨ws, hws, hmem⟩, (setOnce_other hne).trans hnone, rfl⟩
      · simp only [hws]
        exact ⟨⟨c' :: ws, rfl, List.mem_cons_of_mem _ hmem⟩, hnone, trivial⟩
  | cancel c' =>
    have hne : c ≠ c' := fun heq => hc (by rw [heq])
    simp only [step]
    split
    · exact ⟨⟨ws, hws, hmem⟩, hnone, rfl⟩
    · simp only [hws]
      split
      · have hin : c ∈ ws.erase c' := (List.mem_erase_of_ne hne).2 hmem
        split
        · rename_i hemp
          simp only [List.isEmpty_iff] at hemp
          rw [hemp] at hin; cases hin
        · exact ⟨⟨_, rfl, hin⟩, (setOnce_other hne).trans hnone, rfl⟩
      · exact ⟨⟨ws, rfl, hmem⟩, hnone, rfl⟩
  | answer ok v => simp [Ev.isAnswer] at hans

theorem waiting_run (pre : List Ev) : ∀ (s : St) (c : Caller), Waiting s c → s.out c = none →
    (∀ e ∈ pre, e.isAnswer = false) → (.cancel c) ∉ pre →
    Waiting (run s pre) c ∧ (run s pre).out c = none ∧ (run s pre).requests = s.requests := by
  induction pre with
  | nil => intro s c hw hn _ _; exact ⟨hw, hn, rfl⟩
  | cons e r ih =>
    intro s c hw hn hans hlive
    have h1 := waiting_step s e c hw hn (hans e (by simp)) (fun h => hlive (by simp [h]))
    have h2 := ih (step s e) c h1.1 h1.2.1 (fun e' he' => hans e' (by simp [he']))
      (fun h => hlive (by simp [h]))
    exact ⟨h2.1, h2.2.1, h2.2.2.trans h1.2.2⟩

theorem answer_delivers (s : St) (c : Caller) (hw : Waiting s c) (hnone : s.out c = none)
    (ok : Bool) (v : Nat) :
    (step s (.answer ok v)).out c = some (if ok then .value v else .provErr) := by
  obtain ⟨ws, hws, hmem⟩ := hw
  simp only [step, hws]
  simp [hmem, hnone]

end Conc.Flight

namespace Conc.Flight

theorem run_append (s : St) (a b : List Ev) : run s (a ++ b) = run (run s a) b := by
  simp [run, List.foldl_append]

theorem cancel_delivers (s : St) (c : Caller) (hwf : Wf s) (hw : Waiting s c) :
    (step s (.cancel c)).out c = some .ctxErr := by
  obtain ⟨ws, hws, hmem⟩ := hw
  obtain ⟨_, _, h3⟩ := hwf ws hws
  have hd : s.dead.contains c = false := by simpa using (h3 c hmem).2
  simp only [step, hd, hws]
  simp only [Bool.false_eq_true, if_false, List.contains_iff_mem, hmem, if_true]
  split <;> exact setOnce_none (h3 c hmem).1

theorem cancel_all (ws : List Caller) : ∀ (s : St), Wf s → s.flight = some ws →
    (run s (ws.map Ev.cancel)).flight = none ∧
    (run s (ws.map Ev.cancel)).cancelled = s.cancelled + 1 ∧
    (run s (ws.map Ev.cancel)).requests = s.requests := by
  induction ws with
  | nil => intro s hwf hws; exact absurd rfl (hwf [] hws).1
  | cons c tl ih =>
    intro s hwf hws
    obtain ⟨_, hnd, h3⟩ := hwf (c :: tl) hws
    have hd : s.dead.contains c = false := by simpa using (h3 c (by simp)).2
    have hstep := wf_step s (.cancel c) hwf
    simp only [List.map, run, List.foldl]
    cases tl with
    | nil =>
      simp only [step, hd, hws]
      simp
    | cons c2 tl2 =>
      have hfl : (step s (.cancel c)).flight = some (c2 :: tl2) := by
        simp only [step, hd, hws]
        simp
      have hcn : (step s (.cancel c)).cancelled = s.cancelled ∧ (step s (.cancel c)).requests = s.requests := by
        simp only [step, hd, hws]
        simp
      have := ih (step s (.cancel c)) hstep hfl
      exact ⟨this.1, this.2.1.trans (by rw [hcn.1]), this.2.2.trans hcn.2⟩

end Conc.Flight
