import Goat.Base.Prog
/-
C07 lemma kit: `PO.NoPanic p` ("for every oracle, `p` returns a value or an error, never the panic
outcome") and its closure properties, so that `no_panic_<entry>` theorems over the models of the
JOSE layers are short: unfold the entry point, then `nopanic` walks through binds, queries,
conditionals and matches; what remains are exactly the places where the model says `PO.panic`, and
each of them needs an argument why its guard excludes it.
-/
namespace PO

/-- `p` never has the panic outcome, whatever the oracle answers -/
def NoPanic {α} (p : PO α) : Prop := ∀ (o : Oracle) (s : String), PO.run o p ≠ .panic s

/-- the same for a plain `Outcome` (pure model functions) -/
def _root_.Outcome.NoPanic {α} (r : Outcome α) : Prop := ∀ s : String, r ≠ .panic s

namespace NoPanic
variable {α β : Type}

theorem pure (a : α) : NoPanic (Pure.pure a : PO α) := by intro o s; simp
theorem pure' (a : α) : NoPanic (PO.pure a : PO α) := by intro o s; simp
theorem fail (c : String) : NoPanic (PO.fail c : PO α) := by intro o s; simp
theorem query (n : String) (a : List Wire) : NoPanic (PO.query n a) := by intro o s; simp
theorem lift (p : Prog α) : NoPanic (PO.lift p) := by intro o s; simp
theorem attempt (p : PO α) : NoPanic (PO.attempt p) := by intro o s; simp
theorem ofOption (c : String) (x : Option α) : NoPanic (PO.ofOption c x) := by
  intro o s; cases x <;> simp
theorem ofOutcome {r : Outcome α} (h : r.NoPanic) : NoPanic (PO.ofOutcome r) := by
  intro o s; simpa using h s

/-- the panic outcome itself is (of course) not panic-free: the kit cannot prove it away -/
theorem not_panic (site : String) : ¬ NoPanic (PO.panic site : PO α) := by
  intro h; exact h (fun _ => .none) site (by simp)

theorem bind {p : PO α} {f : α → PO β} (hp : NoPanic p) (hf : ∀ a, NoPanic (f a)) :
    NoPanic (p >>= f) := by
  intro o s
  rw [PO.run_bind]
  cases h : PO.run o p with
  | ok a => simpa using hf a o s
  | err c => simp
  | panic t => exact absurd h (hp o t)

/-- bind where the continuation only has to be panic-free on the values `p` can actually return -/
theorem bind_of_ok {p : PO α} {f : α → PO β} (hp : NoPanic p)
    (hf : ∀ o a, PO.run o p = .ok a → ∀ s, PO.run o (f a) ≠ .panic s) : NoPanic (p >>= f) := by
  intro o s
  rw [PO.run_bind]
  cases h : PO.run o p with
  | ok a => simpa using hf o a h s
  | err c => simp
  | panic t => exact absurd h (hp o t)

theorem map {p : PO α} (g : α → β) (hp : NoPanic p) : NoPanic (g <$> p) := by
  show NoPanic (p >>= fun a => Pure.pure (g a))
  exact bind hp (fun a => pure _)

theorem seq_unit {p : PO Unit} {q : PO β} (hp : NoPanic p) (hq : NoPanic q) :
    NoPanic (p >>= fun _ => q) := bind hp (fun _ => hq)

theorem ite {c : Prop} [Decidable c] {p q : PO α} (hp : c → NoPanic p) (hq : ¬ c → NoPanic q) :
    NoPanic (if c then p else q) := by
  by_cases h : c
  · simp only [h, if_true]; exact hp h
  · simp only [h, if_false]; exact hq h

theorem cond {b : Bool} {p q : PO α} (hp : b = true → NoPanic p) (hq : b = false → NoPanic q) :
    NoPanic (bif b then p else q) := by
  cases b
  · simpa using hq rfl
  · simpa using hp rfl

theorem optionCases {x : Option β} {p : PO α} {f : β → PO α} (hp : NoPanic p)
    (hf : ∀ b, NoPanic (f b)) : NoPanic (match x with | none => p | some b => f b) := by
  cases x
  · exact hp
  · exact hf _

/-- `have x := v; body` in front of a program -/
theorem zeta {γ : Type} {v : γ} {f : γ → PO α} (h : NoPanic (f v)) : NoPanic (have x := v; f x) := h

/-- a guarded panic: `if bad then panic else p` is panic-free when `bad` is excluded -/
theorem guarded {c : Prop} [Decidable c] {site : String} {p : PO α} (hc : ¬ c) (hp : NoPanic p) :
    NoPanic (if c then PO.panic site else p) := by simp only [hc, if_false]; exact hp

/-! ### loops -/

/-- the structurally recursive `mapM` used by the models (core `List.mapM` needs `LawfulMonad`) -/
def mapM (f : α → PO β) : List α → PO (List β)
  | [] => Pure.pure []
  | a :: r => do
    let b ← f a
    let bs ← mapM f r
    Pure.pure (b :: bs)

theorem mapM_noPanic {f : α → PO β} (hf : ∀ a, NoPanic (f a)) : ∀ l, NoPanic (mapM f l)
  | [] => pure _
  | a :: r => bind (hf a) (fun _ => bind (mapM_noPanic hf r) (fun _ => pure _))

/-- `mapM` where `f` only has to be panic-free on the members of the list -/
theorem mapM_noPanic_mem {f : α → PO β} : ∀ l, (∀ a ∈ l, NoPanic (f a)) → NoPanic (mapM f l)
  | [], _ => pure _
  | a :: r, h => bind (h a List.mem_cons_self)
      (fun _ => bind (mapM_noPanic_mem r (fun x hx => h x (List.mem_cons_of_mem _ hx))) (fun _ => pure _))

theorem foldlM_noPanic {f : β → α → PO β} (hf : ∀ b a, NoPanic (f b a)) :
    ∀ (l : List α) (b : β), NoPanic (l.foldlM f b)
  | [], b => by simpa [List.foldlM] using pure b
  | a :: r, b => by
    simp only [List.foldlM]
    exact bind (hf b a) (fun b' => foldlM_noPanic hf r b')

theorem forM_noPanic {f : α → PO PUnit} (hf : ∀ a, NoPanic (f a)) :
    ∀ (l : List α), NoPanic (l.forM f)
  | [] => by simpa [List.forM] using pure PUnit.unit
  | a :: r => by
    simp only [List.forM]
    exact bind (hf a) (fun _ => forM_noPanic hf r)

/-- fuel-indexed loops: if every step is panic-free the whole iteration is -/
theorem iterate_noPanic {σ : Type} {step : σ → PO σ} (h : ∀ s, NoPanic (step s)) :
    ∀ (n : Nat) (s : σ), NoPanic (n.rec (motive := fun _ => σ → PO σ) (fun s => Pure.pure s)
        (fun _ k s => step s >>= k) s)
  | 0, s => pure s
  | n + 1, s => bind (h s) (fun s' => iterate_noPanic h n s')

end NoPanic

/-! ### pure outcomes -/

theorem _root_.Outcome.NoPanic.ok {α} (a : α) : (Outcome.ok a).NoPanic := by intro s h; cases h
theorem _root_.Outcome.NoPanic.err {α} (c : String) : (Outcome.err c : Outcome α).NoPanic := by
  intro s h; cases h
theorem _root_.Outcome.NoPanic.bind {α β} {r : Outcome α} {f : α → Outcome β}
    (hr : r.NoPanic) (hf : ∀ a, (f a).NoPanic) : (r >>= f).NoPanic := by
  cases r with
  | ok a => simpa using hf a
  | err c => intro s h; cases h
  | panic t => exact absurd rfl (hr t)

end PO

/-! ### relative to a hypothesis on the oracle (e.g. "the key finder hands back parsed keys") -/

namespace PO

/-- `p` never panics under every oracle satisfying `H` -/
def NoPanicOn {α} (H : Oracle → Prop) (p : PO α) : Prop :=
  ∀ o, H o → ∀ s : String, PO.run o p ≠ .panic s

namespace NoPanicOn
variable {α β : Type} {H : Oracle → Prop}

theorem of_noPanic {p : PO α} (h : NoPanic p) : NoPanicOn H p := fun o _ s => h o s

theorem bind {p : PO α} {f : α → PO β} (hp : NoPanicOn H p) (hf : ∀ a, NoPanicOn H (f a)) :
    NoPanicOn H (p >>= f) := by
  intro o ho s
  rw [PO.run_bind]
  cases h : PO.run o p with
  | ok a => simpa using hf a o ho s
  | err c => simp
  | panic t => exact absurd h (hp o ho t)

/-- a query whose answer is constrained by the oracle hypothesis: the continuation only has to be
    panic-free for the answers `P` allows -/
theorem query_bind {n : String} {a : List Wire} {f : Wire → PO β} (P : Wire → Prop)
    (hq : ∀ o, H o → P (o ⟨n, a⟩)) (hf : ∀ w, P w → NoPanicOn H (f w)) :
    NoPanicOn H (PO.query n a >>= f) := by
  intro o ho s
  rw [PO.run_bind, PO.run_query]
  exact hf _ (hq o ho) o ho s

theorem unfold {p : PO α} : NoPanicOn H p ↔ ∀ o, H o → ∀ s : String, PO.run o p ≠ .panic s := Iff.rfl

end NoPanicOn
end PO

/-! ### postconditions: what a successful run returns (used to carry "the key that parsing returns
is well formed" into the re-serialisation theorems) -/

namespace PO

def Post {α} (p : PO α) (Q : α → Prop) : Prop := ∀ o a, PO.run o p = .ok a → Q a

namespace Post
variable {α β : Type} {Q : α → Prop}

theorem pure {a : α} (h : Q a) : Post (Pure.pure a : PO α) Q := by
  intro o b hb; simp only [PO.run_pure, Outcome.ok.injEq] at hb; subst hb; exact h
theorem pure' {a : α} (h : Q a) : Post (PO.pure a : PO α) Q := by
  intro o b hb; simp only [PO.run_pure', Outcome.ok.injEq] at hb; subst hb; exact h
theorem fail (c : String) : Post (PO.fail c : PO α) Q := by intro o b hb; simp at hb
theorem panic (c : String) : Post (PO.panic c : PO α) Q := by intro o b hb; simp at hb

theorem bind {p : PO β} {f : β → PO α} (Q1 : β → Prop) (hp : Post p Q1)
    (hf : ∀ b, Q1 b → Post (f b) Q) : Post (p >>= f) Q := by
  intro o a ha
  obtain ⟨b, hb, hfb⟩ := PO.run_bind_eq_ok o p f a ha
  exact hf b (hp o b hb) o a hfb

theorem bind_true {p : PO β} {f : β → PO α} (hf : ∀ b, Post (f b) Q) : Post (p >>= f) Q :=
  bind (fun _ => True) (fun _ _ _ => trivial) (fun b _ => hf b)

theorem fail_bind {c : String} {f : β → PO α} : Post (PO.fail c >>= f) Q := by
  intro o a ha; simp at ha
theorem panic_bind {c : String} {f : β → PO α} : Post (PO.panic c >>= f) Q := by
  intro o a ha; simp at ha
theorem pure_bind {b : β} {f : β → PO α} (h : Post (f b) Q) : Post (Pure.pure b >>= f) Q := by
  intro o a ha
  have : PO.run o (Pure.pure b >>= f) = PO.run o (f b) := by simp
  rw [this] at ha; exact h o a ha

theorem mono {p : PO α} {Q' : α → Prop} (h : Post p Q) (hq : ∀ a, Q a → Q' a) : Post p Q' :=
  fun o a ha => hq a (h o a ha)

theorem elim {p : PO α} (h : Post p Q) {o : Oracle} {a : α} (ha : PO.run o p = .ok a) : Q a := h o a ha

end Post
end PO

/- after the closure lemmas `NoPanic` is opaque to `intro`/`apply` (they would otherwise unfold it
   into `∀ o s, run o p ≠ panic s` and leave the structural route); `PO.NoPanic.unfold` opens it. -/
theorem PO.NoPanic.unfold {α} {p : PO α} : PO.NoPanic p ↔ ∀ (o : Oracle) (s : String), PO.run o p ≠ .panic s :=
  Iff.rfl
attribute [irreducible] PO.NoPanic PO.NoPanicOn PO.Post

/-- `popost`: walk a `PO.Post p Q` goal down to its `pure` leaves (every intermediate result is
    forgotten: use `Post.bind` by hand where a fact about an intermediate value is needed) -/
macro "popost" : tactic => `(tactic| repeat' (first
  | with_reducible_and_instances exact PO.Post.fail _
  | with_reducible_and_instances exact PO.Post.panic _
  | with_reducible_and_instances exact PO.Post.fail_bind
  | with_reducible_and_instances exact PO.Post.panic_bind
  | with_reducible_and_instances apply PO.Post.pure_bind
  | with_reducible_and_instances apply PO.Post.bind_true
  | intro _
  | simp only []
  | split))

/-- one structural step on a `PO.NoPanic` goal (all unification at reducible+instances
    transparency: the programs under `NoPanic` must never be unfolded by the unifier) -/
macro "nopanic_step" : tactic => `(tactic| first
  | with_reducible_and_instances exact PO.NoPanic.pure _
  | with_reducible_and_instances exact PO.NoPanic.pure' _
  | with_reducible_and_instances exact PO.NoPanic.fail _
  | with_reducible_and_instances exact PO.NoPanic.query _ _
  | with_reducible_and_instances exact PO.NoPanic.lift _
  | with_reducible_and_instances exact PO.NoPanic.attempt _
  | with_reducible_and_instances exact PO.NoPanic.ofOption _ _
  | with_reducible assumption
  | with_reducible_and_instances apply PO.NoPanic.bind
  | with_reducible_and_instances apply PO.NoPanic.map
  | intro _
  | split
  | simp only [])

/-- `nopanic`: discharge a `PO.NoPanic` goal by structural closure; leaves the goals it cannot
    close (typically the guarded `PO.panic` sites).  `nopanic using l₁, l₂, …` also applies the
    given lemmas about called model functions. -/
syntax "nopanic" (" using " term,+)? : tactic
macro_rules
  | `(tactic| nopanic) => `(tactic| repeat' nopanic_step)
  | `(tactic| nopanic using $ts,*) => do
    let alts ← ts.getElems.mapM fun t => `(tacticSeq| with_reducible_and_instances apply $t)
    `(tactic| repeat' (first | nopanic_step $[| $alts]*))
