import Goat.Model.Custom
/-
EncodeCustom as a function of the state `Claims.Raw`: the members written are exactly the claim
names of the value's type, each carrying the encoding of a field of that name, and every other
member of the old `Raw` is untouched.
-/
namespace GoatProofs.Lemmas.C10Override
open Model Model.Custom

theorem lookup_setKey_same (k : String) (v : Wire) (m : List (String × Wire)) :
    Wire.lookup k (setKey k v m) = some v := by
  induction m with
  | nil => simp [setKey, Wire.lookup]
  | cons kv r ih =>
    obtain ⟨k', v'⟩ := kv
    unfold setKey
    by_cases h : k = k'
    · simp [h, Wire.lookup]
    · simp [h, Wire.lookup, ih]

theorem lookup_setKey_ne (k k' : String) (v : Wire) (m : List (String × Wire)) (h : k' ≠ k) :
    Wire.lookup k' (setKey k v m) = Wire.lookup k' m := by
  induction m with
  | nil => simp [setKey, Wire.lookup, h]
  | cons kv r ih =>
    obtain ⟨k2, v2⟩ := kv
    unfold setKey
    by_cases h2 : k = k2
    · subst h2
      simp [Wire.lookup, h]
    · by_cases h3 : k' = k2
      · simp [h2, Wire.lookup, h3]
      · simp [h2, Wire.lookup, h3, ih]

def keys (m : List (String × Wire)) : List String := m.map Prod.fst

theorem keys_setKey (k : String) (v : Wire) (m : List (String × Wire)) :
    keys (setKey k v m) = if k ∈ keys m then keys m else keys m ++ [k] := by
  induction m with
  | nil => simp [setKey, keys]
  | cons kv r ih =>
    obtain ⟨k2, v2⟩ := kv
    unfold setKey
    by_cases h : k = k2
    · subst h; simp [keys]
    · have ih' := ih
      simp only [keys] at ih' ⊢
      simp only [h, if_false, List.map_cons, ih', List.mem_cons, false_or]
      split <;> rename_i hm <;> simp [hm]

theorem nodup_setKey (k : String) (v : Wire) (m : List (String × Wire)) (h : (keys m).Nodup) :
    (keys (setKey k v m)).Nodup := by
  rw [keys_setKey]
  split
  · exact h
  · rename_i hk
    rw [List.nodup_append]
    refine ⟨h, by simp, ?_⟩
    intro a ha b hb
    simp at hb
    subst hb
    intro hab; subst hab; exact hk ha

theorem lookup_none_of_not_mem (k : String) (m : List (String × Wire)) (h : k ∉ keys m) :
    Wire.lookup k m = none := by
  induction m with
  | nil => rfl
  | cons kv r ih =>
    obtain ⟨k2, v2⟩ := kv
    simp only [keys, List.map_cons, List.mem_cons, not_or] at h
    have hb : (k == k2) = false := by simpa using h.1
    simp only [Wire.lookup, hb, Bool.false_eq_true, if_false]
    exact ih h.2

theorem mem_keys_of_lookup (k : String) (m : List (String × Wire)) (x : Wire)
    (h : Wire.lookup k m = some x) : k ∈ keys m := by
  by_cases hm : k ∈ keys m
  · exact hm
  · rw [lookup_none_of_not_mem k m hm] at h; cases h

/-- the merge loop `for k, v := range new { old[k] = v }`: a name bound in `new` carries the new
    value, every other name keeps the old one -/
theorem mergeRaw_lookup (name : String) (new old : List (String × Wire)) (hn : (keys new).Nodup) :
    Wire.lookup name (mergeRaw old new) =
      match Wire.lookup name new with
      | some x => some x
      | none => Wire.lookup name old := by
  unfold mergeRaw
  induction new generalizing old with
  | nil => simp [Wire.lookup]
  | cons kv r ih =>
    obtain ⟨k, v⟩ := kv
    simp only [keys, List.map_cons, List.nodup_cons] at hn
    simp only [List.foldl_cons]
    rw [ih _ hn.2]
    by_cases hk : name = k
    · subst hk
      rw [lookup_none_of_not_mem name r hn.1]
      simp [Wire.lookup, lookup_setKey_same]
    · have hb : (name == k) = false := by simpa using hk
      simp only [Wire.lookup, hb, Bool.false_eq_true, if_false, lookup_setKey_ne _ _ _ _ hk]

/-! ### the struct arm of `encode`: one member per claim name of `typeFields` -/

/-- one iteration of the field loop of `encode` (custom_encode.go:93-112) -/
def fieldStep (fuel : Nat) (addr : Bool) (t : Ty) (sv : Val) (ret : List (String × Wire)) (f : FlatField) :
    PO (List (String × Wire)) := do
  let tv ← PO.ofOutcome (walkGet addr f.index t addr sv)
  let w ← encode fuel addr tv.1 tv.2
  pure (setKey f.name w ret)

/-- `w` is the encoding of the field `f` of the struct value `sv` -/
def FieldEnc (o : Oracle) (fuel : Nat) (addr : Bool) (t : Ty) (sv : Val) (f : FlatField) (w : Wire) : Prop :=
  ∃ tv, walkGet addr f.index t addr sv = .ok tv ∧ (encode fuel addr tv.1 tv.2).run o = .ok w

/-- the struct arm of `encode` is the field loop followed by wrapping the map -/
theorem encode_struct_eq' (fuel : Nat) (addr : Bool) (id : String) (fields : List Field) (sv : Val) :
    Custom.encode (fuel + 1) addr (.struct id fields) sv =
      ((typeFields (.struct id fields)).foldlM (fieldStep fuel addr (.struct id fields) sv) [] >>=
        fun ret => pure (.obj ret)) := by
  cases sv <;> rfl

theorem fold_spec (o : Oracle) (fuel : Nat) (addr : Bool) (t : Ty) (sv : Val) :
    ∀ (fs : List FlatField) (acc ret : List (String × Wire)),
      (fs.foldlM (fieldStep fuel addr t sv) acc).run o = .ok ret → (keys acc).Nodup →
      (keys ret).Nodup ∧
      ∀ name,
        ((∃ f ∈ fs, f.name = name) → ∃ f ∈ fs, f.name = name ∧ ∃ w, FieldEnc o fuel addr t sv f w ∧
            Wire.lookup name ret = some w) ∧
        ((¬ ∃ f ∈ fs, f.name = name) → Wire.lookup name ret = Wire.lookup name acc) := by
  intro fs
  induction fs with
  | nil =>
    intro acc ret h hn
    simp only [List.foldlM_nil, PO.run_pure, Outcome.ok.injEq] at h
    subst h
    refine ⟨hn, fun name => ⟨?_, fun _ => rfl⟩⟩
    intro hex
    obtain ⟨f, hf, _⟩ := hex
    cases hf
  | cons f r ih =>
    intro acc ret h hn
    simp only [List.foldlM_cons] at h
    obtain ⟨acc', h1, h2⟩ := PO.run_bind_eq_ok o _ _ _ h
    -- the first iteration
    unfold fieldStep at h1
    obtain ⟨tv, hw, h1⟩ := PO.run_bind_eq_ok o _ _ _ h1
    obtain ⟨w, he, h1⟩ := PO.run_bind_eq_ok o _ _ _ h1
    simp only [PO.run_ofOutcome] at hw
    simp only [PO.run_pure, Outcome.ok.injEq] at h1
    subst h1
    obtain ⟨hnr, hr⟩ := ih _ ret h2 (nodup_setKey _ _ _ hn)
    refine ⟨hnr, fun name => ⟨?_, ?_⟩⟩
    · intro _
      by_cases hin : ∃ g ∈ r, g.name = name
      · obtain ⟨g, hg, hgn, w', hfe, hl⟩ := (hr name).1 hin
        exact ⟨g, List.mem_cons_of_mem _ hg, hgn, w', hfe, hl⟩
      · have hl := (hr name).2 hin
        by_cases hfn : f.name = name
        · subst hfn
          exact ⟨f, List.mem_cons_self, rfl, w, ⟨tv, hw, he⟩, by rw [hl, lookup_setKey_same]⟩
        · rename_i hex
          obtain ⟨g, hg, hgn⟩ := hex
          simp only [List.mem_cons] at hg
          rcases hg with hg | hg
          · subst hg; exact absurd hgn hfn
          · exact absurd ⟨g, hg, hgn⟩ hin
    · intro hnot
      have hin : ¬ ∃ g ∈ r, g.name = name := fun ⟨g, hg, hgn⟩ => hnot ⟨g, List.mem_cons_of_mem _ hg, hgn⟩
      have hfn : name ≠ f.name := fun e => hnot ⟨f, List.mem_cons_self, e.symm⟩
      rw [(hr name).2 hin, lookup_setKey_ne _ _ _ _ hfn]

end GoatProofs.Lemmas.C10Override
