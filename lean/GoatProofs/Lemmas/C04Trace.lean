import Goat.Base.Prog
/-
Trace lemmas for `Prog`/`PO` (used by C04: "the verifiers were consulted with the token's actual
values" is a statement about the query trace).
-/
namespace GoatProofs.Lemmas.C04Trace

theorem prog_runTrace_bind {α β} (o : Oracle) (p : Prog α) (f : α → Prog β) :
    Prog.runTrace o (Prog.bind p f) =
      ((Prog.runTrace o (f (Prog.runTrace o p).1)).1,
       (Prog.runTrace o p).2 ++ (Prog.runTrace o (f (Prog.runTrace o p).1)).2) := by
  induction p with
  | ret a => simp only [Prog.bind, Prog.runTrace, List.nil_append]
  | ask q k ih => simp only [Prog.bind, Prog.runTrace, ih, List.cons_append]

/-- a query followed by a continuation: one trace entry, then the continuation's trace -/
theorem po_runTrace_query_bind {β} (o : Oracle) (n : String) (a : List Wire) (f : Wire → PO β) :
    PO.runTrace o (PO.query n a >>= f) =
      ((PO.runTrace o (f (o ⟨n, a⟩))).1, (⟨n, a⟩, o ⟨n, a⟩) :: (PO.runTrace o (f (o ⟨n, a⟩))).2) := by
  show Prog.runTrace o (Prog.bind (PO.query n a).prog (PO.bindK f)) = _
  rw [prog_runTrace_bind]
  simp [PO.query, PO.lift, Prog.query, Prog.bind, Prog.runTrace, PO.bindK, PO.runTrace]

theorem po_run_query_bind {β} (o : Oracle) (n : String) (a : List Wire) (f : Wire → PO β) :
    PO.run o (PO.query n a >>= f) = PO.run o (f (o ⟨n, a⟩)) := by
  rw [PO.run_bind, PO.run_query]

@[simp] theorem po_runTrace_fail {α} (o : Oracle) (c : String) :
    PO.runTrace o (PO.fail c : PO α) = (.err c, []) := rfl
@[simp] theorem po_runTrace_ofOutcome {α} (o : Oracle) (r : Outcome α) :
    PO.runTrace o (PO.ofOutcome r) = (r, []) := rfl
@[simp] theorem po_runTrace_pure {α} (o : Oracle) (a : α) :
    PO.runTrace o (pure a : PO α) = (.ok a, []) := rfl

theorem po_runTrace_fst {α} (o : Oracle) (p : PO α) : (PO.runTrace o p).1 = PO.run o p := by
  unfold PO.runTrace PO.run; exact Prog.runTrace_fst o p.prog

end GoatProofs.Lemmas.C04Trace
