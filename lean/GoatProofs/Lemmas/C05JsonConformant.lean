import GoatProofs.C05
import GoatProofs.Lemmas.C05Json
/-
C05, second sentence, JSON serializations: a standards-conformant JWE in the general or the flattened JSON
syntax (RFC 7516 §7.2), with the JOSE header split over the protected, the shared unprotected and the
per-recipient header in any way the RFC allows, with or without a JWE AAD, in any member order and spacing
(abstracted by encoding/json's struct decoding), is decrypted by goat for every recipient.
-/
namespace GoatProofs.C05
open Model.JWE Gen.Consts

/-- the JOSE header of RFC 7516 §7.2.1 ("the union of the three") as an option view, in the RFC's order of
    mention: protected, shared unprotected, per-recipient -/
def joseView (hp hu rh : Header) : Wire := optsView [some hp, some hu, some rh]

/-- the `enc` parameter of the JOSE header -/
def joseEnc (hp hu rh : Header) : String := firstStr (·.enc) [some hp, some hu, some rh]

/-- no parameter of the option view is carried by both headers (a consequence of the RFC's "names MUST be
    disjoint" rule) -/
structure ViewDisjoint (a b : Header) : Prop where
  enc : a.enc = "" ∨ b.enc = ""
  epk : a.epk = none ∨ b.epk = none
  apu : a.apu = none ∨ b.apu = none
  apv : a.apv = none ∨ b.apv = none
  iv : a.iv = none ∨ b.iv = none
  tag : a.tag = none ∨ b.tag = none
  p2s : a.p2s = none ∨ b.p2s = none
  p2c : a.p2c = 0 ∨ b.p2c = 0

theorem firstSome_swap {α} (f : Header → Option α) (a b c : Header) (h : f a = none ∨ f b = none) :
    firstSome f [some a, some b, some c] = firstSome f [some b, some a, some c] := by
  simp only [firstSome]
  rcases h with h | h <;> simp only [h] <;> cases f a <;> cases f b <;> simp_all

theorem firstStr_swap (f : Header → String) (a b c : Header) (h : f a = "" ∨ f b = "") :
    firstStr f [some a, some b, some c] = firstStr f [some b, some a, some c] := by
  simp only [firstStr]
  rcases h with h | h <;> by_cases h1 : f a = "" <;> by_cases h2 : f b = "" <;> simp_all

theorem firstInt_swap (f : Header → Int) (a b c : Header) (h : f a = 0 ∨ f b = 0) :
    firstInt f [some a, some b, some c] = firstInt f [some b, some a, some c] := by
  simp only [firstInt]
  rcases h with h | h <;> by_cases h1 : f a = 0 <;> by_cases h2 : f b = 0 <;> simp_all

/-- for disjoint headers goat's precedence (shared unprotected first, then protected) is immaterial: its merged
    view is the JOSE header -/
theorem merged_eq_jose (hp hu rh : Header) (D : ViewDisjoint hu hp) :
    mergedOpts (some hu) hp (some rh) = joseView hp hu rh := by
  simp only [mergedOpts, joseView, optsView]
  rw [firstStr_swap _ hu hp rh D.enc, firstSome_swap _ hu hp rh D.epk, firstSome_swap _ hu hp rh D.apu,
    firstSome_swap _ hu hp rh D.apv, firstSome_swap _ hu hp rh D.iv, firstSome_swap _ hu hp rh D.tag,
    firstSome_swap _ hu hp rh D.p2s, firstInt_swap _ hu hp rh D.p2c]

/-- the content encryption algorithm goat uses is the JOSE header's `enc` -/
theorem contentEnc_eq_jose (m : Message) (hu rh : Header) (r : Recipient) (hm : m.unprotected = some hu)
    (hr : r.header = some rh) (D : m.header.enc = "" ∨ hu.enc = "") :
    contentEnc m r = joseEnc m.header hu rh := by
  simp only [contentEnc, joseEnc, hm, hr, firstStr]
  rcases D with h | h <;> by_cases h1 : m.header.enc = "" <;> by_cases h2 : hu.enc = "" <;> simp_all

/-- C05, second sentence, JSON (semantic form).  `d` describes the message: its parts as RFC 7516 §7.2 names them
    and the headers goat's decoder reads from the three header objects (`JDescOK`; `jdescOK_of_encodes` derives it
    from "the objects carry these parameters").  The producer followed RFC 7516 §5.1: one CEK; for the recipient in
    question the key-management algorithm, applied by the recipient's wrapper to the JOSE header parameters,
    recovers it (`hkm`); content encryption under the JOSE header's `enc` with
    AAD = protected text [‖ '.' ‖ BASE64URL(JWE AAD)] (step 14); compression iff the *protected* header says DEF.
    The text `data` is any JSON text whose struct decoding is the general (`recipients`) or the flattened form. -/
theorem jwe_accepts_conformant_json (o : Oracle) (L : Laws o) (d : JDesc) (ok : JDescOK o d) (data : Bytes)
    (hform : o ⟨"jwe.decodeJSON", [.bytes data]⟩ = d.topGeneral ∨
             ∃ r0, d.rcpts = [r0] ∧ o ⟨"jwe.decodeJSON", [.bytes data]⟩ = d.topFlat r0)
    (hdisj : ViewDisjoint d.hu d.hp)
    (pre : List RDesc) (r : RDesc) (post : List RDesc) (hsplit : d.rcpts = pre ++ r :: post)
    (enc : String) (hav : encAvailable enc = true) (henc : joseEnc d.hp d.hu r.h = enc)
    (cek pt : Bytes) (kw' : Wire)
    (hpre : ∀ r' ∈ pre, o ⟨"findKeyWrapper", [.obj d.hp.raw, .obj d.hu.raw, .obj r'.h.raw]⟩ = .none)
    (hfind : o ⟨"findKeyWrapper", [.obj d.hp.raw, .obj d.hu.raw, .obj r.h.raw]⟩ = kw') (hk : kw'.isNone = false)
    (hkm : o ⟨"kw.unwrap", [kw', .bytes r.ek, joseView d.hp d.hu r.h]⟩ = .bytes cek)
    (hseal : ∃ m, o ⟨"enc.encrypt", [.str enc, .bytes cek, .bytes d.iv,
          .bytes (if d.b64aad.length == 0 then d.b64prot else d.b64prot ++ 46 :: d.b64aad), .bytes m]⟩ =
          .arr [.bytes d.ct, .bytes d.tag] ∧
        (if d.hp.zip = jwa.DEF then o ⟨"deflate", [.bytes pt]⟩ = .bytes m else m = pt)) :
    (parseJSON data >>= decrypt).run o = .ok pt := by
  have hp : (parseJSON data).run o = .ok d.toMessage := by
    rcases hform with h | ⟨r0, hr0, h⟩
    · exact parseJSON_general o d ok data h
    · exact parseJSON_flat o d r0 hr0 ok data h
  obtain ⟨m, hs, hz⟩ := hseal
  rw [PO.run_bind, hp]
  simp only
  have hce : contentEnc d.toMessage r.toRecipient = enc := by
    rw [contentEnc_eq_jose d.toMessage d.hu r.h r.toRecipient rfl rfl (by
      rcases hdisj.enc with h | h
      · exact Or.inr h
      · exact Or.inl h)]
    exact henc
  refine decrypt_at o d.toMessage (pre.map RDesc.toRecipient) r.toRecipient (post.map RDesc.toRecipient) kw' cek m pt
    (by simp [JDesc.toMessage, hsplit]) ?_ ?_ hk ?_ (by rw [hce]; exact hav) ?_ ?_
  · intro r' hr'
    simp only [List.mem_map] at hr'
    obtain ⟨x, hx, rfl⟩ := hr'
    simpa [C06.finderAnswer, JDesc.toMessage, hdrW, optHdrW, RDesc.toRecipient] using hpre x hx
  · simpa [C06.finderAnswer, JDesc.toMessage, hdrW, optHdrW, RDesc.toRecipient] using hfind
  · simp only [C06.unwrapAnswer]
    have := merged_eq_jose d.hp d.hu r.h hdisj
    simp only [JDesc.toMessage, RDesc.toRecipient] at this ⊢
    rw [this]; exact hkm
  · simp only [C06.aeadAnswer, hce]
    have had : authData d.toMessage = (if d.b64aad.length == 0 then d.b64prot else d.b64prot ++ 46 :: d.b64aad) := by
      simp [authData, JDesc.toMessage]
    rw [had]
    simp only [JDesc.toMessage]
    exact L.aead _ _ _ _ _ _ _ hs
  · unfold C06.Inflated
    simp only [JDesc.toMessage]
    by_cases hzz : d.hp.zip = jwa.DEF
    · simp only [hzz, if_true] at hz ⊢
      exact L.flate _ _ hz
    · simp only [hzz, if_false] at hz ⊢
      exact hz.symm


/-! ## from "the header objects carry these parameters" to the description goat's decoder reads -/

/-- a header member of the message: absent (`null`), or a JSON object that carries the parameters of `h` -/
def HdrObj (o : Oracle) (w : Wire) (h : Header) : Prop :=
  (w = .null ∧ h = {}) ∨
  (∃ kvs h0, w = .obj kvs ∧ Encodes o h0 kvs ∧ h = { h0 with raw := kvs } ∧
     h0.crit.all knownParams.contains = true ∧ 0 ≤ h0.p2c ∧ (∀ k, h0.epk = some k → k.isNone = false))

theorem hdrObj_decodes (o : Oracle) (C : CodecLaws o) (w : Wire) (h : Header) (H : HdrObj o w h) :
    (decodeHeaderW w).run o = .ok h := by
  rcases H with ⟨rfl, rfl⟩ | ⟨kvs, h0, rfl, E, rfl, hc, hp, he⟩
  · simp [decodeHeaderW, decodeHeader_nil]
  · simpa [decodeHeaderW] using decode_of_encodes o C h0 kvs E hc hp he

theorem lookup_of_disjoint (a b : KVs) (k : String) (v : Wire) (hd : disjointKeys a b = true)
    (hl : Wire.lookup k a = some v) : Wire.lookup k b = none := by
  induction a with
  | nil => simp [Wire.lookup] at hl
  | cons kv t ih =>
    obtain ⟨k', v'⟩ := kv
    simp only [disjointKeys, List.all_cons, Bool.and_eq_true] at hd
    simp only [Wire.lookup] at hl
    by_cases hk : (k == k') = true
    · have : k = k' := by simpa using hk
      subst this
      simpa using hd.1
    · simp only [hk, Bool.false_eq_true, if_false] at hl
      exact ih (by simpa [disjointKeys] using hd.2) hl

/-- name-disjoint header objects give view-disjoint headers -/
theorem viewDisjoint_of_encodes (o : Oracle) (a b : Header) (ra rb : KVs) (Ea : Encodes o a ra) (Eb : Encodes o b rb)
    (hd : disjointKeys ra rb = true) : ViewDisjoint a b := by
  have key : ∀ (k : String) (x y : Option Wire), Wire.lookup k ra = x → Wire.lookup k rb = y → x = none ∨ y = none := by
    intro k x y hx hy
    cases x with
    | none => exact Or.inl rfl
    | some v => exact Or.inr (by rw [← hy]; exact lookup_of_disjoint ra rb k v hd hx)
  have hs : ∀ v : String, strOpt v = none → v = "" := by
    intro v h; unfold strOpt at h; by_cases hv : v = "" <;> simp_all
  have hb : ∀ v : Option Bytes, bytesOpt o v = none → v = none := by
    intro v h; cases v <;> simp_all [bytesOpt]
  have he : ∀ v : Option Wire, epkOpt o v = none → v = none := by
    intro v h; cases v <;> simp_all [epkOpt]
  have hp : ∀ n : Int, p2cOpt o n = none → n = 0 := by
    intro n h; unfold p2cOpt at h; by_cases hn : n = 0 <;> simp_all
  refine ⟨?_, ?_, ?_, ?_, ?_, ?_, ?_, ?_⟩
  · exact (key _ _ _ Ea.enc Eb.enc).imp (hs _) (hs _)
  · exact (key _ _ _ Ea.epk Eb.epk).imp (he _) (he _)
  · exact (key _ _ _ Ea.apu Eb.apu).imp (hb _) (hb _)
  · exact (key _ _ _ Ea.apv Eb.apv).imp (hb _) (hb _)
  · exact (key _ _ _ Ea.iv Eb.iv).imp (hb _) (hb _)
  · exact (key _ _ _ Ea.tag Eb.tag).imp (hb _) (hb _)
  · exact (key _ _ _ Ea.p2s Eb.p2s).imp (hb _) (hb _)
  · exact (key _ _ _ Ea.p2c Eb.p2c).imp (hp _) (hp _)


/-- RFC 7516 §7.2-level well-formedness of a JSON JWE description: the "protected" member is absent or the
    base64url text of a JSON text of an object carrying the protected parameters; "unprotected" / "header"
    members are absent or objects carrying their parameters, without `crit`; parameter names are disjoint; the
    other members are base64url texts of their values. -/
structure ConformantJSON (o : Oracle) (d : JDesc) : Prop where
  prot : (d.b64prot = [] ∧ d.protBytes = [] ∧ d.protRaw = [] ∧ d.hp = {}) ∨
         (d.b64prot ≠ [] ∧ o ⟨"b64url.dec", [.bytes d.b64prot]⟩ = .bytes d.protBytes ∧
          o ⟨"json.decodeMap", [.bytes d.protBytes]⟩ = .obj d.protRaw ∧ HdrObj o (.obj d.protRaw) d.hp)
  hu : HdrObj o d.unprotW d.hu
  hucrit : d.hu.crit = []
  disj : disjointKeys d.unprotW.asObj d.protRaw = true
  ct : o ⟨"b64url.dec", [.bytes d.b64ct]⟩ = .bytes d.ct
  iv : o ⟨"b64url.dec", [.bytes d.b64iv]⟩ = .bytes d.iv
  tag : o ⟨"b64url.dec", [.bytes d.b64tag]⟩ = .bytes d.tag
  aad : o ⟨"b64url.dec", [.bytes d.b64aad]⟩ = .bytes d.aad
  rcpts : ∀ r ∈ d.rcpts, HdrObj o r.hw r.h ∧ r.h.crit = [] ∧
    (disjointKeys r.hw.asObj d.protRaw && disjointKeys r.hw.asObj d.unprotW.asObj) = true ∧
    o ⟨"b64url.dec", [.bytes r.b64ek]⟩ = .bytes r.ek

theorem viewDisjoint_empty_left (b : Header) : ViewDisjoint {} b :=
  ⟨Or.inl rfl, Or.inl rfl, Or.inl rfl, Or.inl rfl, Or.inl rfl, Or.inl rfl, Or.inl rfl, Or.inl rfl⟩

theorem viewDisjoint_empty_right (a : Header) : ViewDisjoint a {} :=
  ⟨Or.inr rfl, Or.inr rfl, Or.inr rfl, Or.inr rfl, Or.inr rfl, Or.inr rfl, Or.inr rfl, Or.inr rfl⟩

theorem viewDisjoint_raw (a b a' b' : Header) (D : ViewDisjoint a b)
    (ea : a'.enc = a.enc ∧ a'.epk = a.epk ∧ a'.apu = a.apu ∧ a'.apv = a.apv ∧ a'.iv = a.iv ∧ a'.tag = a.tag ∧ a'.p2s = a.p2s ∧ a'.p2c = a.p2c)
    (eb : b'.enc = b.enc ∧ b'.epk = b.epk ∧ b'.apu = b.apu ∧ b'.apv = b.apv ∧ b'.iv = b.iv ∧ b'.tag = b.tag ∧ b'.p2s = b.p2s ∧ b'.p2c = b.p2c) :
    ViewDisjoint a' b' := by
  obtain ⟨a1, a2, a3, a4, a5, a6, a7, a8⟩ := ea
  obtain ⟨b1, b2, b3, b4, b5, b6, b7, b8⟩ := eb
  exact ⟨by rw [a1, b1]; exact D.enc, by rw [a2, b2]; exact D.epk, by rw [a3, b3]; exact D.apu, by rw [a4, b4]; exact D.apv,
    by rw [a5, b5]; exact D.iv, by rw [a6, b6]; exact D.tag, by rw [a7, b7]; exact D.p2s, by rw [a8, b8]; exact D.p2c⟩

theorem conformant_ok (o : Oracle) (C : CodecLaws o) (d : JDesc) (W : ConformantJSON o d) :
    JDescOK o d ∧ ViewDisjoint d.hu d.hp := by
  have hpdec : (decodeHeader d.protRaw).run o = .ok d.hp := by
    rcases W.prot with ⟨_, _, h3, h4⟩ | ⟨_, _, _, H⟩
    · rw [h3, h4]; exact decodeHeader_nil o
    · simpa [decodeHeaderW] using hdrObj_decodes o C _ _ H
  refine ⟨⟨?_, hpdec, hdrObj_decodes o C _ _ W.hu, W.hucrit, W.disj, W.ct, W.iv, W.tag, W.aad, ?_⟩, ?_⟩
  · rcases W.prot with ⟨h1, h2, h3, _⟩ | ⟨h1, h2, h3, _⟩
    · exact Or.inl ⟨h1, h2, h3⟩
    · exact Or.inr ⟨h1, h2, by simp [decodeJSONMap, h3]⟩
  · intro r hr
    obtain ⟨H, hc, hd, he⟩ := W.rcpts r hr
    exact ⟨hdrObj_decodes o C _ _ H, hc, hd, he⟩
  · rcases W.hu with ⟨_, hu0⟩ | ⟨ku, u0, hw, Eu, hu0, _⟩
    · rw [hu0]; exact viewDisjoint_empty_left _
    · rcases W.prot with ⟨_, _, _, h4⟩ | ⟨_, _, _, H⟩
      · rw [h4]; exact viewDisjoint_empty_right _
      · rcases H with ⟨hn, _⟩ | ⟨kp, p0, hwp, Ep, hp0, _⟩
        · cases hn
        · cases hwp
          have hd : disjointKeys ku d.protRaw = true := by
            have := W.disj
            rw [hw] at this
            simpa [Wire.asObj] using this
          have D := viewDisjoint_of_encodes o u0 p0 ku d.protRaw Eu Ep hd
          rw [hu0, hp0]
          exact viewDisjoint_raw u0 p0 _ _ D ⟨rfl, rfl, rfl, rfl, rfl, rfl, rfl, rfl⟩ ⟨rfl, rfl, rfl, rfl, rfl, rfl, rfl, rfl⟩

/-- C05, second sentence, JSON serializations (RFC-level form): a conformant JSON JWE — general syntax with any number
    of recipients or flattened syntax; parameters in the protected, shared unprotected or per-recipient header; with or
    without JWE AAD; any member order — whose producer followed RFC 7516 §5.1, decrypts for the recipient in question. -/
theorem jwe_accepts_conformant_json_rfc (o : Oracle) (L : Laws o) (d : JDesc) (W : ConformantJSON o d) (data : Bytes)
    (hform : o ⟨"jwe.decodeJSON", [.bytes data]⟩ = d.topGeneral ∨
             ∃ r0, d.rcpts = [r0] ∧ o ⟨"jwe.decodeJSON", [.bytes data]⟩ = d.topFlat r0)
    (pre : List RDesc) (r : RDesc) (post : List RDesc) (hsplit : d.rcpts = pre ++ r :: post)
    (enc : String) (hav : encAvailable enc = true) (henc : joseEnc d.hp d.hu r.h = enc)
    (cek pt : Bytes) (kw' : Wire)
    (hpre : ∀ r' ∈ pre, o ⟨"findKeyWrapper", [.obj d.hp.raw, .obj d.hu.raw, .obj r'.h.raw]⟩ = .none)
    (hfind : o ⟨"findKeyWrapper", [.obj d.hp.raw, .obj d.hu.raw, .obj r.h.raw]⟩ = kw') (hk : kw'.isNone = false)
    (hkm : o ⟨"kw.unwrap", [kw', .bytes r.ek, joseView d.hp d.hu r.h]⟩ = .bytes cek)
    (hseal : ∃ m, o ⟨"enc.encrypt", [.str enc, .bytes cek, .bytes d.iv,
          .bytes (if d.b64aad.length == 0 then d.b64prot else d.b64prot ++ 46 :: d.b64aad), .bytes m]⟩ =
          .arr [.bytes d.ct, .bytes d.tag] ∧
        (if d.hp.zip = jwa.DEF then o ⟨"deflate", [.bytes pt]⟩ = .bytes m else m = pt)) :
    (parseJSON data >>= decrypt).run o = .ok pt := by
  obtain ⟨ok, D⟩ := conformant_ok o L.toCodecLaws d W
  exact jwe_accepts_conformant_json o L d ok data hform D pre r post hsplit enc hav henc cek pt kw' hpre hfind hk hkm hseal


/-- the case "no protected header, with a JWE AAD" spelled out: the Additional Authenticated Data is
    '.' ‖ BASE64URL(JWE AAD) (RFC 7516 §5.1 step 14 with an empty Encoded Protected Header), all parameters live in the
    shared unprotected / per-recipient headers, and the message decrypts. -/
theorem jwe_accepts_conformant_json_noprot_aad (o : Oracle) (L : Laws o) (d : JDesc) (W : ConformantJSON o d) (data : Bytes)
    (hnoprot : d.b64prot = []) (haad : d.b64aad ≠ [])
    (hform : o ⟨"jwe.decodeJSON", [.bytes data]⟩ = d.topGeneral ∨
             ∃ r0, d.rcpts = [r0] ∧ o ⟨"jwe.decodeJSON", [.bytes data]⟩ = d.topFlat r0)
    (pre : List RDesc) (r : RDesc) (post : List RDesc) (hsplit : d.rcpts = pre ++ r :: post)
    (enc : String) (hav : encAvailable enc = true) (henc : joseEnc d.hp d.hu r.h = enc)
    (cek pt : Bytes) (kw' : Wire)
    (hpre : ∀ r' ∈ pre, o ⟨"findKeyWrapper", [.obj d.hp.raw, .obj d.hu.raw, .obj r'.h.raw]⟩ = .none)
    (hfind : o ⟨"findKeyWrapper", [.obj d.hp.raw, .obj d.hu.raw, .obj r.h.raw]⟩ = kw') (hk : kw'.isNone = false)
    (hkm : o ⟨"kw.unwrap", [kw', .bytes r.ek, joseView d.hp d.hu r.h]⟩ = .bytes cek)
    (hseal : o ⟨"enc.encrypt", [.str enc, .bytes cek, .bytes d.iv, .bytes (46 :: d.b64aad), .bytes pt]⟩ =
          .arr [.bytes d.ct, .bytes d.tag]) :
    (parseJSON data >>= decrypt).run o = .ok pt := by
  have hz : d.hp.zip ≠ jwa.DEF := by
    rcases W.prot with ⟨_, _, _, h4⟩ | ⟨h1, _⟩
    · rw [h4]; simp [jwa.DEF]
    · exact absurd hnoprot h1
  have hl : (d.b64aad.length == 0) = false := by
    cases hb : d.b64aad with
    | nil => exact absurd hb haad
    | cons a t => simp
  refine jwe_accepts_conformant_json_rfc o L d W data hform pre r post hsplit enc hav henc cek pt kw' hpre hfind hk hkm
    ⟨pt, ?_, by rw [if_neg hz]⟩
  rw [hl, hnoprot]
  simpa using hseal

end GoatProofs.C05
