import GoatProofs.Lemmas.C19Run
/-
C19 helper lemmas, part 2: frame rules.  A relation `R` between the state before and after that
is a preorder and holds for the primitive actions `draw`, `getInst`, `getMsg`, `pushMsg` holds
for every operation that does not write the instance table; instantiated with
  `Ext`       (the log grows by a chain of draws; also true for the three instance operations) and
  `SameInsts` (the instance table is unchanged).
-/
namespace Model.Rand

structure Frame (R : Oracle → St → St → Prop) : Prop extends IsPre R where
  draw : ∀ k n, Sat R (draw k n)
  getInst : ∀ i, Sat R (getInst i)
  getMsg : ∀ i, Sat R (getMsg i)
  pushMsg : ∀ x, Sat R (pushMsg x)

section
variable {R : Oracle → St → St → Prop} (F : Frame R)

macro "sat_tac" F:term : tactic => `(tactic| repeat (first
  | exact Frame.draw $F _ _ | exact Frame.getInst $F _ | exact Frame.getMsg $F _ | exact Frame.pushMsg $F _
  | apply Sat.pure (Frame.toIsPre $F) | apply Sat.pure' (Frame.toIsPre $F)
  | apply Sat.throw (Frame.toIsPre $F) | apply Sat.panic (Frame.toIsPre $F)
  | apply Sat.bind (Frame.toIsPre $F) | intro _ | split))

include F

theorem sat_gcmGenerateCEK (g : Gcm) : Sat R (gcmGenerateCEK g) := by
  unfold gcmGenerateCEK; sat_tac F

theorem sat_gcmGenerateIV (g : Gcm) : Sat R (gcmGenerateIV g) := by
  unfold gcmGenerateIV; sat_tac F

theorem sat_cbcGenerateCEK (e : Enc) : Sat R (cbcGenerateCEK e) := F.draw _ _
theorem sat_cbcGenerateIV : Sat R cbcGenerateIV := F.draw _ _

theorem sat_generateCEK (i : EncInst) : Sat R i.generateCEK := by
  cases i <;> simp only [EncInst.generateCEK]
  · exact Sat.bind F.toIsPre (sat_gcmGenerateCEK F _) (fun _ => by sat_tac F)
  · exact Sat.bind F.toIsPre (sat_cbcGenerateCEK F _) (fun _ => by sat_tac F)

theorem sat_generateIV (i : EncInst) : Sat R i.generateIV := by
  cases i <;> simp only [EncInst.generateIV]
  · exact Sat.bind F.toIsPre (sat_gcmGenerateIV F _) (fun _ => by sat_tac F)
  · exact Sat.bind F.toIsPre (sat_cbcGenerateIV F) (fun _ => by sat_tac F)

theorem sat_encryptCheck (i : EncInst) (a b : Nat) : Sat R (i.encryptCheck a b) := by
  cases i <;> simp only [EncInst.encryptCheck] <;> sat_tac F

theorem sat_kwWrap (kw : KW) (n : Nat) (h : Hdr) : Sat R (kwWrap kw n h) := by
  cases kw <;> simp only [kwWrap] <;> sat_tac F

theorem sat_kwDerive (kw : KW) (e : Enc) : Sat R (kwDerive kw e) := by
  cases kw <;> simp only [kwDerive] <;> sat_tac F

end

/-- the operations that write the instance table -/
def Op.touchesInsts : Op → Bool
  | .newGcm _ => true | .gcmCEK _ => true | .gcmIV _ => true | _ => false

macro "step_tac" F:term : tactic => `(tactic| repeat (first
    | exact sat_kwWrap $F _ _ _ | exact sat_kwDerive $F _ _ | exact sat_generateCEK $F _
    | exact sat_generateIV $F _ | exact sat_encryptCheck $F _ _ _
    | exact sat_gcmGenerateCEK $F _ | exact sat_gcmGenerateIV $F _
    | exact sat_cbcGenerateCEK $F _ | exact sat_cbcGenerateIV $F
    | exact Frame.draw $F _ _ | exact Frame.getInst $F _ | exact Frame.getMsg $F _ | exact Frame.pushMsg $F _
    | apply Sat.pure (Frame.toIsPre $F) | apply Sat.pure' (Frame.toIsPre $F)
    | apply Sat.throw (Frame.toIsPre $F) | apply Sat.panic (Frame.toIsPre $F)
    | apply Sat.bind (Frame.toIsPre $F) | intro _ | split))

theorem step_frame {R : Oracle → St → St → Prop} (F : Frame R) (op : Op)
    (h : op.touchesInsts = false) : Sat R (step op) := by
  cases op <;> simp only [Op.touchesInsts, Bool.true_eq_false] at h <;> simp only [step]
  all_goals step_tac F

/-! ### instance: `Ext` -/

theorem extFrame : Frame Ext where
  toIsPre := extIsPre
  draw := Sat.draw
  getInst := fun i => ⟨fun o s => by
    show Ext o s (Prog.run o (getInst i s)).2
    unfold getInst
    cases s.insts[i]? <;> exact Ext.refl o s⟩
  getMsg := fun i => ⟨fun o s => by
    show Ext o s (Prog.run o (getMsg i s)).2
    unfold getMsg
    cases s.msgs[i]? <;> exact Ext.refl o s⟩
  pushMsg := fun _ => ⟨fun _ _ => ⟨[], by simp [pushMsg, M.run], rfl⟩⟩

theorem sat_pushInst (g : Gcm) : Sat Ext (pushInst g) := ⟨fun _ _ => ⟨[], by simp [pushInst, M.run], rfl⟩⟩
theorem sat_setInst (i : Nat) (g : Gcm) : Sat Ext (setInst i g) := ⟨fun _ _ => ⟨[], by simp [setInst], rfl⟩⟩

/-- every operation extends the log by consecutive segments of the oracle's stream -/
theorem step_ext (op : Op) : Sat Ext (step op) := by
  by_cases h : op.touchesInsts = false
  · exact step_frame extFrame op h
  · cases op <;> simp only [Op.touchesInsts, not_true_eq_false] at h <;> simp only [step]
    all_goals repeat (first
      | exact sat_pushInst _ | exact sat_setInst _ _
      | exact sat_gcmGenerateCEK extFrame _ | exact sat_gcmGenerateIV extFrame _
      | exact Frame.getInst extFrame _
      | apply Sat.pure extIsPre | apply Sat.throw extIsPre
      | apply Sat.bind extIsPre | intro _ | split)

/-! ### instance: `SameInsts` -/

def SameInsts (_ : Oracle) (s s' : St) : Prop := s'.insts = s.insts

theorem sameFrame : Frame SameInsts where
  refl := fun _ _ => rfl
  trans := fun h1 h2 => h2.trans h1
  draw := fun k n => ⟨fun o s => by
    rw [run_draw]
    cases ask o s.pos n <;> rfl⟩
  getInst := fun i => ⟨fun o s => by
    show (Prog.run o (getInst i s)).2.insts = s.insts
    unfold getInst
    cases s.insts[i]? <;> rfl⟩
  getMsg := fun i => ⟨fun o s => by
    show (Prog.run o (getMsg i s)).2.insts = s.insts
    unfold getMsg
    cases s.msgs[i]? <;> rfl⟩
  pushMsg := fun _ => ⟨fun _ _ => rfl⟩

end Model.Rand
