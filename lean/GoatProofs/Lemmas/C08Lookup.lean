import GoatProofs.Lemmas.C08Common
/-
Lookups in the marshalled object and in the spec encoder's object.
-/
namespace C08
open Model.JWK Spec.IANA

theorem lookup_osetOpt (m : Obj) (a b : String) (v : Option Wire) :
    Wire.lookup a (osetOpt m b v) = if a = b then (v.orElse fun _ => Wire.lookup a m) else Wire.lookup a m := by
  cases v with
  | none => simp [osetOpt]
  | some v => simp [osetOpt, lookup_oset]

theorem lookup_append (a : String) (l1 l2 : List (String × Wire)) :
    Wire.lookup a (l1 ++ l2) = (Wire.lookup a l1).orElse fun _ => Wire.lookup a l2 := by
  induction l1 with
  | nil => simp [Wire.lookup]
  | cons hd t ih =>
    obtain ⟨k, v⟩ := hd
    simp only [List.cons_append, Wire.lookup]
    split <;> simp [ih]

theorem lookup_optMember {α} (a n : String) (f : α → Wire) (v : Option α) :
    Wire.lookup a (optMember n f v) = if a = n then v.map f else none := by
  cases v with
  | none => simp [optMember, Wire.lookup]
  | some x => simp [optMember, Wire.lookup]

/-- the optional parameters of a model key, as the spec's parameter record -/
def specParams (o : Oracle) (k : Key) : Params :=
  { kid := if k.kid = "" then none else some k.kid,
    use := if k.use = "" then none else some k.use,
    keyOps := k.keyOps,
    alg := if k.alg = "" then none else some k.alg,
    x5u := k.x5u,
    x5c := k.x5c.map fun cs => cs.map Cert.raw,
    x5t := thumbVal o "sha1" k.x5t k.x5c,
    x5tS256 := thumbVal o "sha256" k.x5tS256 k.x5c }

theorem lookup_commonObj (o : Oracle) (m : Obj) (k : Key) (name : String) (hn : name ≠ "kty") :
    Wire.lookup name (commonObj o m k) =
      (Wire.lookup name (paramMembers (encS o) (encStdS o) (specParams o k))).orElse fun _ => Wire.lookup name m := by
  unfold commonObj paramMembers specParams
  simp only [lookup_osetOpt, lookup_oset, lookup_append, lookup_optMember, mKid, mUse, mKeyOps, mAlg, mX5u, mX5c, mX5t, mX5tS256, nonEmpty]
  by_cases h1 : name = "x5t#S256"
  · subst h1; simp
  by_cases h2 : name = "x5t"
  · subst h2; simp
  by_cases h3 : name = "x5c"
  · subst h3; cases k.x5c <;> simp [Function.comp_def]
  by_cases h4 : name = "x5u"
  · subst h4; simp
  by_cases h5 : name = "alg"
  · subst h5; simp; split <;> simp
  by_cases h6 : name = "key_ops"
  · subst h6; simp
  by_cases h7 : name = "use"
  · subst h7; simp; split <;> simp
  by_cases h8 : name = "kid"
  · subst h8; simp; split <;> simp
  simp [h1, h2, h3, h4, h5, h6, h7, h8, hn]
theorem lookup_commonObj_kty (o : Oracle) (m : Obj) (k : Key) :
    Wire.lookup "kty" (commonObj o m k) = some (.str (ktyString k.kty)) := by
  unfold commonObj
  simp [lookup_osetOpt, lookup_oset]

/-- spec side: a common member name is not a material member name -/
theorem lookup_spec_param (enc encStd : Bytes → String) (mat : KeyMaterial) (P : Params)
    (extras : List (String × Wire)) (name : String)
    (hn : name ∈ ["kid", "use", "key_ops", "alg", "x5u", "x5c", "x5t", "x5t#S256"]) :
    Wire.lookup name (specEncode enc encStd mat P extras) =
      (Wire.lookup name (paramMembers enc encStd P)).orElse fun _ => Wire.lookup name extras := by
  have hk : name ≠ "kty" := by rintro rfl; simp at hn
  have h1 : name ≠ "crv" := by rintro rfl; simp at hn
  have h2 : name ≠ "x" := by rintro rfl; simp at hn
  have h3 : name ≠ "y" := by rintro rfl; simp at hn
  have h4 : name ≠ "d" := by rintro rfl; simp at hn
  have h5 : name ≠ "n" := by rintro rfl; simp at hn
  have h6 : name ≠ "e" := by rintro rfl; simp at hn
  have h7 : name ≠ "p" := by rintro rfl; simp at hn
  have h8 : name ≠ "q" := by rintro rfl; simp at hn
  have h9 : name ≠ "dp" := by rintro rfl; simp at hn
  have h10 : name ≠ "dq" := by rintro rfl; simp at hn
  have h11 : name ≠ "qi" := by rintro rfl; simp at hn
  have h12 : name ≠ "k" := by rintro rfl; simp at hn
  have h13 : name ≠ "oth" := by rintro rfl; simp at hn
  have hoth : ∀ l, Wire.lookup name (othMember enc l) = none := by
    intro l; unfold othMember; split <;> simp [Wire.lookup, mOth, h13]
  have hmat : Wire.lookup name (materialMembers enc mat) = none := by
    cases mat with
    | ec crv x y d => simp [materialMembers, lookup_append, lookup_optMember, Wire.lookup, mCrv, mX, mY, mD, h1, h2, h3, h4]
    | rsa n e priv =>
      cases priv with
      | none => simp [materialMembers, Wire.lookup, mN, mE, h5, h6]
      | some r =>
        cases hc : r.crt with
        | none => simp [materialMembers, lookup_append, Wire.lookup, mN, mE, mD, mP, mQ, h4, h5, h6, h7, h8, hc, hoth]
        | some t =>
          obtain ⟨dp, dq, qi⟩ := t
          simp [materialMembers, lookup_append, Wire.lookup, mN, mE, mD, mP, mQ, mDP, mDQ, mQI, h4, h5, h6, h7, h8, h9, h10, h11, hc, hoth]
    | okp crv x d => simp [materialMembers, lookup_append, lookup_optMember, Wire.lookup, mCrv, mX, mD, h1, h2, h4]
    | oct k => simp [materialMembers, Wire.lookup, mK, h12]
  simp [specEncode, Wire.lookup, mKty, hk, lookup_append, hmat]

theorem lookup_spec_kty (enc encStd : Bytes → String) (mat : KeyMaterial) (P : Params)
    (extras : List (String × Wire)) :
    Wire.lookup "kty" (specEncode enc encStd mat P extras) = some (.str mat.kty) := by
  simp [specEncode, Wire.lookup, mKty]

/-- spec side: a material member name is not a common member name -/
theorem lookup_spec_mat (enc encStd : Bytes → String) (mat : KeyMaterial) (P : Params)
    (extras : List (String × Wire)) (name : String)
    (hn : name ∈ ["crv", "x", "y", "d", "n", "e", "p", "q", "dp", "dq", "qi", "oth", "k"]) :
    Wire.lookup name (specEncode enc encStd mat P extras) =
      (Wire.lookup name (materialMembers enc mat)).orElse fun _ => Wire.lookup name extras := by
  have hk : name ≠ "kty" := by rintro rfl; simp at hn
  have h1 : name ≠ "kid" := by rintro rfl; simp at hn
  have h2 : name ≠ "use" := by rintro rfl; simp at hn
  have h3 : name ≠ "key_ops" := by rintro rfl; simp at hn
  have h4 : name ≠ "alg" := by rintro rfl; simp at hn
  have h5 : name ≠ "x5u" := by rintro rfl; simp at hn
  have h6 : name ≠ "x5c" := by rintro rfl; simp at hn
  have h7 : name ≠ "x5t" := by rintro rfl; simp at hn
  have h8 : name ≠ "x5t#S256" := by rintro rfl; simp at hn
  have hp : Wire.lookup name (paramMembers enc encStd P) = none := by
    simp [paramMembers, lookup_append, lookup_optMember, mKid, mUse, mKeyOps, mAlg, mX5u, mX5c, mX5t, mX5tS256, h1, h2, h3, h4, h5, h6, h7, h8]
  simp [specEncode, Wire.lookup, mKty, hk, lookup_append, hp]

theorem lookup_params (enc encStd : Bytes → String) (P : Params) :
    Wire.lookup "kid" (paramMembers enc encStd P) = P.kid.map Wire.str ∧
    Wire.lookup "use" (paramMembers enc encStd P) = P.use.map Wire.str ∧
    Wire.lookup "key_ops" (paramMembers enc encStd P) = P.keyOps.map (fun l => Wire.arr (l.map Wire.str)) ∧
    Wire.lookup "alg" (paramMembers enc encStd P) = P.alg.map Wire.str ∧
    Wire.lookup "x5u" (paramMembers enc encStd P) = P.x5u.map Wire.str ∧
    Wire.lookup "x5c" (paramMembers enc encStd P) = P.x5c.map (fun l => Wire.arr (l.map fun c => Wire.str (encStd c))) ∧
    Wire.lookup "x5t" (paramMembers enc encStd P) = P.x5t.map (fun b => Wire.str (enc b)) ∧
    Wire.lookup "x5t#S256" (paramMembers enc encStd P) = P.x5tS256.map (fun b => Wire.str (enc b)) := by
  refine ⟨?_, ?_, ?_, ?_, ?_, ?_, ?_, ?_⟩ <;>
    simp [paramMembers, lookup_append, lookup_optMember, mKid, mUse, mKeyOps, mAlg, mX5u, mX5c, mX5t, mX5tS256]

end C08
