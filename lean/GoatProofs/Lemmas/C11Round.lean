import GoatProofs.Lemmas.C11Val
import GoatProofs.Lemmas.C11Crit
/-
C11 — decodeHeader ∘ encodeHeader, generic in the tables.
-/
namespace C11
open Model.HeaderTable Model.Header

/-- decoder state invariant while reading an object emitted for `h`; `D` = fields already final -/
def Inv (o : Oracle) (h : Header) (D : Fld → Prop) (st : DecState) : Prop :=
  (∀ f, st.1.get f = Header.zero.get f ∨ st.1.get f = (fill o h).get f) ∧
  (∀ f, D f → st.1.get f = (fill o h).get f) ∧ CertInv h st.2 ∧ st.1.raw = []

theorem decStep_row_rt (o : Oracle) (h : Header) (look : String → Option Wire) (st : DecState)
    (D : Fld → Prop) (r : Row) (hrt : RowRT o h r)
    (hlook : ∀ v, (emit h r).run o = .ok v → look r.key = v) (hinv : Inv o h D st) :
    ∃ st' f, Fld.ofString r.field = some f ∧ (decStep look st (.row r)).run o = .ok st' ∧
      Inv o h (fun g => g = f ∨ D g) st' := by
  obtain ⟨f, hf, v, hv, hrd⟩ := hrt
  obtain ⟨hzf, hD, hc, hraw⟩ := hinv
  obtain ⟨rv, c0', hr, hc', hm⟩ := hrd st.2 hc
  cases rv with
  | none =>
    refine ⟨(st.1, c0'), f, hf, ?_, ?_⟩
    · simp only [decStep, hf, PO.run_bind, hlook v hv, hr]; simp
    · refine ⟨hzf, ?_, hc', hraw⟩
      intro g hg
      rcases hg with e | hg
      · subst e
        simp only at hm
        rcases hzf g with z | z
        · rw [z, hm]
        · exact z
      · exact hD g hg
  | some x =>
    simp only at hm
    subst hm
    obtain ⟨h', hs⟩ := set_get_some st.1 (fill o h) f
    refine ⟨(h', c0'), f, hf, ?_, ?_⟩
    · simp only [decStep, hf, PO.run_bind, hlook v hv, hr, hs]; simp
    · refine ⟨?_, ?_, hc', ?_⟩
      · intro g
        by_cases e : g = f
        · subst e; right; exact get_set_same hs
        · rw [get_set_other hs e]; exact hzf g
      · intro g hg
        by_cases e : g = f
        · subst e; exact get_set_same hs
        · rw [get_set_other hs e]
          rcases hg with e' | hg
          · exact absurd e' e
          · exact hD g hg
      · simp only; rw [raw_set hs]; exact hraw

theorem decStep_crit_rt (o : Oracle) (h : Header) (look : String → Option Wire) (st : DecState)
    (D : Fld → Prop) (known : List String) (hk : critOK known h.crit = true) (hinv : Inv o h D st) :
    (decStep look st (.critCheck "crit" known)).run o = .ok st := by
  have hcrit : st.1.crit = [] ∨ st.1.crit = h.crit := by
    rcases hinv.1 .crit with z | z
    · left; simpa [Header.get, Header.zero] using z
    · right
      rw [fill_get_other o h _ (by decide) (by decide)] at z
      simpa [Header.get] using z
  simp only [decStep, Fld.ofString, Option.map, Header.get]
  rcases hcrit with e | e
  · simp [e, critOK]
  · simp [e, hk]

def rowOf : DecStep → Option Row
  | .row r => some r
  | .critCheck _ _ => none

theorem decSteps_rt (o : Oracle) (h : Header) (look : String → Option Wire) (steps : List DecStep)
    (hrows : ∀ r, DecStep.row r ∈ steps → RowRT o h r ∧ ∀ v, (emit h r).run o = .ok v → look r.key = v)
    (hcrit : ∀ fld known, DecStep.critCheck fld known ∈ steps → fld = "crit" ∧ critOK known h.crit = true)
    (st : DecState) (D : Fld → Prop) (hinv : Inv o h D st) :
    ∃ st', (decSteps look steps st).run o = .ok st' ∧
      Inv o h (fun g => D g ∨ ∃ r, DecStep.row r ∈ steps ∧ Fld.ofString r.field = some g) st' := by
  induction steps generalizing st D with
  | nil =>
    refine ⟨st, by simp [decSteps], hinv.1, ?_, hinv.2.2⟩
    intro g hg
    rcases hg with hg | ⟨r, hr, _⟩
    · exact hinv.2.1 g hg
    · cases hr
  | cons s rest ih =>
    have hrows' : ∀ r, DecStep.row r ∈ rest → RowRT o h r ∧ ∀ v, (emit h r).run o = .ok v → look r.key = v :=
      fun r hr => hrows r (List.mem_cons_of_mem _ hr)
    have hcrit' : ∀ fld known, DecStep.critCheck fld known ∈ rest → fld = "crit" ∧ critOK known h.crit = true :=
      fun a b hm => hcrit a b (List.mem_cons_of_mem _ hm)
    cases s with
    | row r =>
      obtain ⟨hrt, hl⟩ := hrows r (List.mem_cons_self ..)
      obtain ⟨st1, f, hf, h1, hinv1⟩ := decStep_row_rt o h look st D r hrt hl hinv
      obtain ⟨st', h2, hinv2⟩ := ih hrows' hcrit' st1 _ hinv1
      refine ⟨st', ?_, hinv2.1, ?_, hinv2.2.2⟩
      · simp only [decSteps, PO.run_bind, h1, h2]
      · intro g hg
        apply hinv2.2.1 g
        rcases hg with hg | ⟨r', hr', hf'⟩
        · exact Or.inl (Or.inr hg)
        · rcases List.mem_cons.1 hr' with e | hin
          · cases e
            left; left
            rw [hf] at hf'; cases hf'; rfl
          · exact Or.inr ⟨r', hin, hf'⟩
    | critCheck fld known =>
      obtain ⟨e, hk⟩ := hcrit fld known (List.mem_cons_self ..)
      subst e
      have h1 := decStep_crit_rt o h look st D known hk hinv
      obtain ⟨st', h2, hinv2⟩ := ih hrows' hcrit' st D hinv
      refine ⟨st', ?_, hinv2.1, ?_, hinv2.2.2⟩
      · simp only [decSteps, PO.run_bind, h1, h2]
      · intro g hg
        apply hinv2.2.1 g
        rcases hg with hg | ⟨r', hr', hf'⟩
        · exact Or.inl hg
        · rcases List.mem_cons.1 hr' with e | hin
          · cases e
          · exact Or.inr ⟨r', hin, hf'⟩

/-- everything the generic round trip needs to know about a pair of tables (decidable) -/
def tablesFit (enc : List Row) (dec : List DecStep) : Bool :=
  distinct (enc.map (·.key)) &&
  (decRows dec).all (fun r => enc.contains r) &&
  enc.all (fun r => match Fld.ofString r.field with | some f => kindFits r f | none => false) &&
  dec.all (fun s => match s with | .critCheck fld _ => fld == "crit" | .row _ => true)

theorem mem_decRows {steps : List DecStep} {r : Row} : DecStep.row r ∈ steps → r ∈ decRows steps := by
  induction steps with
  | nil => intro h; cases h
  | cons s rest ih =>
    intro h
    rcases List.mem_cons.1 h with e | hin
    · subst e; simp [decRows]
    · cases s <;> simp [decRows, ih hin]

theorem decRows_mem {steps : List DecStep} {r : Row} : r ∈ decRows steps → DecStep.row r ∈ steps := by
  induction steps with
  | nil => intro h; cases h
  | cons s rest ih =>
    intro h
    cases s with
    | row r' =>
      simp only [decRows, List.mem_cons] at h
      rcases h with e | h
      · subst e; exact List.mem_cons_self ..
      · exact List.mem_cons_of_mem _ (ih h)
    | critCheck a b => exact List.mem_cons_of_mem _ (ih (by simpa [decRows] using h))

/-- Well-formedness of a header for the round trip through (enc, dec) with crit list `known` -/
structure WF (o : Oracle) (enc : List Row) (dec : List DecStep) (h : Header) : Prop where
  laws : HdrLaws o h
  thumbs : ThumbsOK o h
  /-- no unregistered member collides with a registered member name -/
  rawClean : ∀ r ∈ enc, Wire.lookup r.key h.raw = none
  /-- crit only names parameters on the list the decoder validates against -/
  crit : (dec.all fun s => match s with
      | .critCheck _ known => critOK known h.crit
      | .row _ => true) = true
  /-- fields that the table does not carry (the other serialisation's) are at their zero value -/
  others : ∀ f, (decRows dec).any (fun r => Fld.ofString r.field == some f) = true ∨
      (fill o h).get f = Header.zero.get f

theorem decodeWith_roundtrip (o : Oracle) (enc : List Row) (dec : List DecStep) (hfit : tablesFit enc dec = true)
    (h : Header) (wf : WF o enc dec h) (obj : List (String × Wire))
    (hrun : (encodeWith enc h).run o = .ok obj) :
    (decodeWith dec obj).run o = .ok { fill o h with raw := obj } := by
  simp only [tablesFit, Bool.and_eq_true, List.all_eq_true] at hfit
  obtain ⟨⟨⟨hdist, hsub⟩, hkinds⟩, hcf⟩ := hfit
  have hlk := encodeRows_lookup o h enc h.raw obj hrun hdist
  have hrows : ∀ r, DecStep.row r ∈ dec → RowRT o h r ∧
      ∀ v, (emit h r).run o = .ok v → (fun k => Wire.lookup k obj) r.key = v := by
    intro r hr
    have hin : r ∈ enc := by simpa using hsub r (mem_decRows hr)
    constructor
    · have := hkinds r hin
      split at this
      · rename_i f hf; exact rowRT_of_laws o h r f hf this wf.laws wf.thumbs
      · cases this
    · intro v hv
      obtain ⟨v', hv', hl⟩ := hlk r hin
      rw [hv] at hv'; cases hv'
      simp only [hl, wf.rawClean r hin]
      cases v <;> rfl
  have hcrit : ∀ fld known, DecStep.critCheck fld known ∈ dec → fld = "crit" ∧ critOK known h.crit = true := by
    intro fld known hm
    have := hcf _ hm
    simp only [beq_iff_eq] at this
    have hc := List.all_eq_true.1 wf.crit _ hm
    exact ⟨this, hc⟩
  have hinv0 : Inv o h (fun _ => False) (Header.zero, none) :=
    ⟨fun f => Or.inl rfl, fun _ hf => hf.elim, Or.inl rfl, rfl⟩
  obtain ⟨st', hst, hinv⟩ := decSteps_rt o h (fun k => Wire.lookup k obj) dec hrows hcrit _ _ hinv0
  simp only [decodeWith, PO.run_bind, hst]
  simp only [PO.run_pure, Outcome.ok.injEq]
  apply ext_get
  · intro f
    show st'.1.get f = (fill o h).get f
    rcases wf.others f with hr | hz
    · obtain ⟨r, hr, hf⟩ := List.any_eq_true.1 hr
      exact hinv.2.1 f (Or.inr ⟨r, decRows_mem hr, by simpa using hf⟩)
    · rcases hinv.1 f with z | z
      · rw [z, hz]
      · exact z
  · rfl

theorem encodeRows_ok' (o : Oracle) (h : Header) (rows : List Row) (obj0 : List (String × Wire))
    (hr : ∀ r ∈ rows, ∃ v, (emit h r).run o = .ok v) : ∃ obj, (encodeRows h rows obj0).run o = .ok obj := by
  induction rows generalizing obj0 with
  | nil => exact ⟨obj0, by simp [encodeRows]⟩
  | cons r rs ih =>
    obtain ⟨v, hv⟩ := hr r (List.mem_cons_self ..)
    have hrs : ∀ r' ∈ rs, ∃ v, (emit h r').run o = .ok v := fun r' h' => hr r' (List.mem_cons_of_mem _ h')
    cases v with
    | none => obtain ⟨obj, ho⟩ := ih obj0 hrs; exact ⟨obj, by simp only [encodeRows, PO.run_bind, hv, ho]⟩
    | some w => obtain ⟨obj, ho⟩ := ih (objSet r.key w obj0) hrs; exact ⟨obj, by simp only [encodeRows, PO.run_bind, hv, ho]⟩

theorem encode_ok' (o : Oracle) (enc : List Row) (dec : List DecStep) (hfit : tablesFit enc dec = true)
    (h : Header) (wf : WF o enc dec h) : ∃ obj, (encodeWith enc h).run o = .ok obj := by
  simp only [tablesFit, Bool.and_eq_true, List.all_eq_true] at hfit
  apply encodeRows_ok'
  intro r hr
  have := hfit.1.2 r hr
  split at this
  · rename_i f hf
    obtain ⟨_, _, v, hv, _⟩ := rowRT_of_laws o h r f hf this wf.laws wf.thumbs
    exact ⟨v, hv⟩
  · cases this

end C11
