import GoatProofs.Lemmas.C08Generic
/-
Symmetric keys (kty "oct"): MarshalJSON closed form, registered representation, ParseMap.
-/
namespace C08
open Model.JWK Spec.IANA Gen.Consts

def octObj (o : Oracle) (k : Key) (b : Bytes) : Obj :=
  oset (oset (commonObj o k.raw k) "kty" (.str jwa.Oct)) "k" (.str (encS o b))

def IsOctKey (k : Key) (b : Bytes) : Prop := k.priv = .oct b ∧ k.pub = .none

theorem marshal_oct (o : Oracle) (k : Key) (b : Bytes) (hk : IsOctKey k b) :
    (marshalFrom k).run o = .ok (octObj o k b) := by
  obtain ⟨hp, hq⟩ := hk
  unfold marshalFrom
  simp [PO.run_bind, run_encodeCommon, hp, hq, encodeMaterial, encodeOct, octObj]

theorem octObj_registered (o : Oracle) (k : Key) (b : Bytes) (name : String) :
    Wire.lookup name (octObj o k b) =
      Wire.lookup name (specEncode (encS o) (encStdS o) (.oct b) (specParams o k) k.raw) := by
  unfold octObj
  simp only [lookup_oset]
  by_cases h1 : name = "k"
  · subst h1; simp [specEncode, materialMembers, Wire.lookup, mKty, mK]
  by_cases h2 : name = "kty"
  · subst h2; simp [specEncode, Wire.lookup, mKty, KeyMaterial.kty, ktyOct]; decide
  rw [if_neg h1, if_neg h2, lookup_commonObj _ _ _ _ h2]
  simp [specEncode, materialMembers, Wire.lookup, mKty, mK, lookup_append, h1, h2]

/-- ParseMap of an object with the registered members of an oct key (no certificate chain:
    `parseSymmetricKey` rejects x5c) -/
theorem parse_oct (o : Oracle) (L : Laws o) (m extras : Obj) (cp : CP) (b : Bytes)
    (hm : HasMembers o m (.oct b) cp extras) (hcl : Clean extras) (K : CommonOK o cp) (hc : cp.certs = []) :
    (parseMap m).run o = .ok { cp.key m ktyOct with pub := .none, priv := .oct b } := by
  have hdc := run_decodeCommon_members o L m extras _ cp hm hcl K
  have lk : Wire.lookup "k" m = some (.str (encS o b)) := by
    rw [lookup_member o m extras _ cp hm hcl "k" (by decide)]
    simp [materialMembers, Wire.lookup, mK]
  rw [parseMap_oct o m _ hdc rfl]
  unfold parseOct
  simp [PO.run_bind, run_mustBytes o L m "k" b lk, CP.key, hc, KeyMaterial.kty]

end C08
