import GoatProofs.Lemmas.C03Basic
/-
C03 helper lemmas, key-management side: which constructed wrappers can complete which operation,
and what each NewKeyWrapper can return.
-/
namespace GoatProofs.C03
open Model.Binding Gen.Consts

/-- the three entry points of a key wrapper -/
inductive KwOp where
  | wrap | unwrap | derive
deriving DecidableEq, Repr

def runKw (kw : KeyWrapper) (op : KwOp) (a : KwArgs) : PO Unit :=
  match op with
  | .wrap => wrapKey kw a
  | .unwrap => unwrapKey kw a
  | .derive => deriveKey kw a

/-- private key / peer public key pairs between which goat attempts a Diffie-Hellman agreement -/
def DhPair : Mat → Mat → Prop
  | .x25519Priv, .x25519Pub => True
  | .x448Priv, .x448Pub => True
  | .ecdsaPriv _, .ecdsaPub _ => True
  | .ecdhPriv _, .ecdhPub _ => True
  | _, _ => False

theorem deriveZ_ok (o : Oracle) (p e : Mat) (h : (deriveZ p e).run o = .ok ()) : DhPair p e := by
  cases p <;> cases e <;> simp [deriveZ, DhPair] at h ⊢

theorem deriveZ_ne_panic (o : Oracle) (p e : Mat) (s : String) : (deriveZ p e).run o ≠ .panic s := by
  cases p <;> cases e <;> simp [deriveZ, run_prim] <;> split <;> simp

/-- which constructed wrappers can complete which operation -/
def KwRunnable : KeyWrapper → KwOp → KwArgs → Prop
  | .akw _ cw _, .wrap, a => cw = true ∧ a.cekLen % 8 = 0
  | .akw _ _ cu, .unwrap, a => cu = true ∧ a.dataLen % 8 = 0 ∧ 16 ≤ a.dataLen
  | .gcmkw _ cw _, .wrap, _ => cw = true
  | .gcmkw _ _ cu, .unwrap, _ => cu = true
  | .dir _ ce _, .wrap, _ => ce = true
  | .dir _ _ cd, .unwrap, _ => cd = true
  | .dir _ ce _, .derive, _ => ce = true
  | .rsa _ _ pub cw _, .wrap, _ => cw = true ∧ pub.isSome = true
  | .rsa _ _ _ _ cu, .unwrap, _ => cu = true
  | .ecdhes _ _ _, .wrap, _ => True
  | .ecdhes priv _ cd, .unwrap, a => cd = true ∧ DhPair priv a.epk
  | .ecdhes priv _ cd, .derive, a => cd = true ∧ DhPair priv a.epk
  | .pbes2 _ _ cd, .wrap, _ => cd = true
  | .pbes2 _ _ cd, .unwrap, _ => cd = true
  | _, _, _ => False

theorem runKw_ok_shape (o : Oracle) (kw : KeyWrapper) (op : KwOp) (a : KwArgs)
    (h : (runKw kw op a).run o = .ok ()) : KwRunnable kw op a := by
  cases op
  · -- wrap
    cases kw with
    | invalid => simp [runKw, wrapKey] at h
    | akw s cw cu =>
      simp only [runKw, wrapKey] at h
      by_cases h8 : a.cekLen % 8 = 0 <;> cases cw <;> simp [h8, KwRunnable] at h ⊢
    | gcmkw s cw cu => cases cw <;> simp [runKw, wrapKey, KwRunnable] at h ⊢
    | dir n ce cd => cases ce <;> simp [runKw, wrapKey, KwRunnable] at h ⊢
    | rsa oaep priv pub cw cu =>
      cases cw <;> cases pub <;> simp [runKw, wrapKey, KwRunnable] at h ⊢
    | ecdhes priv s cd => simp [KwRunnable]
    | pbes2 n s cd => cases cd <;> simp [runKw, wrapKey, KwRunnable] at h ⊢
  · -- unwrap
    cases kw with
    | invalid => simp [runKw, unwrapKey] at h
    | akw s cw cu =>
      simp only [runKw, unwrapKey] at h
      by_cases h8 : a.dataLen % 8 ≠ 0 ∨ a.dataLen < 16
      · simp [h8] at h
      · cases cu
        · simp [h8] at h
        · simp only [KwRunnable]
          refine ⟨trivial, ?_, ?_⟩ <;> omega
    | gcmkw s cw cu => cases cu <;> simp [runKw, unwrapKey, KwRunnable] at h ⊢
    | dir n ce cd => cases cd <;> simp [runKw, unwrapKey, KwRunnable] at h ⊢
    | rsa oaep priv pub cw cu => cases cu <;> simp [runKw, unwrapKey, KwRunnable] at h ⊢
    | ecdhes priv s cd =>
      cases cd
      · simp [runKw, unwrapKey] at h
      · simp only [runKw, unwrapKey, Bool.not_true, Bool.false_eq_true, ↓reduceIte] at h
        obtain ⟨_, hz, _⟩ := PO.run_bind_eq_ok o _ _ _ h
        exact ⟨rfl, deriveZ_ok o _ _ hz⟩
    | pbes2 n s cd => cases cd <;> simp [runKw, unwrapKey, KwRunnable] at h ⊢
  · -- derive
    cases kw with
    | invalid => simp [runKw, deriveKey] at h
    | akw s cw cu => simp [runKw, deriveKey] at h
    | gcmkw s cw cu => simp [runKw, deriveKey] at h
    | dir n ce cd => cases ce <;> simp [runKw, deriveKey, KwRunnable] at h ⊢
    | rsa oaep priv pub cw cu => simp [runKw, deriveKey] at h
    | ecdhes priv s cd =>
      cases cd
      · simp [runKw, deriveKey] at h
      · simp only [runKw, deriveKey, Bool.not_true, Bool.false_eq_true, ↓reduceIte] at h
        obtain ⟨_, hz, _⟩ := PO.run_bind_eq_ok o _ _ _ h
        exact ⟨rfl, deriveZ_ok o _ _ hz⟩
    | pbes2 n s cd => simp [runKw, deriveKey] at h

/-- everything rsaoaep / rsapkcs1v15 NewKeyWrapper can return -/
theorem newRSAWrapper_cases (oaep weak : Bool) (k : Key) :
    newRSAWrapper oaep weak k = .invalid ∨
    (∃ b, newRSAWrapper oaep weak k =
        .rsa oaep (some b) (some b) (canUseFor k opWrapKey) (canUseFor k opUnwrapKey) ∧
      k.priv = .rsaPriv b ∧ (weak = false → 2048 ≤ b) ∧
      ((∃ b', k.pub = .rsaPub b') ∨ (oaep = false ∧ k.pub = .nil))) ∨
    (∃ pub, newRSAWrapper oaep weak k = .rsa oaep none pub (canUseFor k opWrapKey) false ∧
      k.priv = .nil ∧
      ((∃ b, pub = some b ∧ k.pub = .rsaPub b ∧ (weak = false → 2048 ≤ b)) ∨
       (pub = none ∧ k.pub = .nil ∧ oaep = false ∧ weak = true))) := by
  obtain ⟨priv, pub, use, ops, alg⟩ := k
  cases priv <;> cases pub <;> cases oaep <;> cases weak <;> simp [newRSAWrapper]
  all_goals (split <;> simp_all <;> omega)

theorem newKeyWrapper_akw_cases (s : Nat) (k : Key) :
    newKeyWrapper (.akw s) (some k) = .ok .invalid ∨
    (newKeyWrapper (.akw s) (some k) = .ok (.akw s (canUseFor k opWrapKey) (canUseFor k opUnwrapKey)) ∧
      k.priv = .bytes s) := by
  obtain ⟨priv, pub, use, ops, alg⟩ := k
  cases priv <;> simp [newKeyWrapper]
  rename_i n
  by_cases hn : n = s
  · subst hn; simp
  · simp [hn]

theorem newKeyWrapper_gcmkw_cases (s : Nat) (k : Key) :
    newKeyWrapper (.gcmkw s) (some k) = .ok .invalid ∨
    (newKeyWrapper (.gcmkw s) (some k) = .ok (.gcmkw s (canUseFor k opWrapKey) (canUseFor k opUnwrapKey)) ∧
      k.priv = .bytes s) := by
  obtain ⟨priv, pub, use, ops, alg⟩ := k
  cases priv <;> simp [newKeyWrapper]
  rename_i n
  by_cases hn : n = s
  · subst hn; simp
  · simp [hn]

theorem newKeyWrapper_dir_cases (k : Key) :
    newKeyWrapper .dir (some k) = .ok .invalid ∨
    ∃ n, newKeyWrapper .dir (some k) = .ok (.dir n (canUseFor k opEncrypt) (canUseFor k opDecrypt)) ∧
      k.priv = .bytes n := by
  obtain ⟨priv, pub, use, ops, alg⟩ := k
  cases priv <;> simp [newKeyWrapper]

theorem newKeyWrapper_pbes2_cases (h : Hash) (s : Nat) (k : Key) :
    newKeyWrapper (.pbes2 h s) (some k) = .ok .invalid ∨
    ∃ n, newKeyWrapper (.pbes2 h s) (some k) = .ok (.pbes2 n s (canUseFor k opDeriveKey)) ∧
      k.priv = .bytes n := by
  obtain ⟨priv, pub, use, ops, alg⟩ := k
  cases priv <;> simp [newKeyWrapper]

end GoatProofs.C03
