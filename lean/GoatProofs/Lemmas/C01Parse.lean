import GoatProofs.Lemmas.C01Verify
/-
C01 — what the two parsers store: the raw segments exactly as received, and protected headers
that are the decoding of those raw segments.
-/
namespace Model.JWS

/-- ParseCompact keeps the three segments of the input as they are: `d = h.p.sg` with no '.'
    in `h` or `p`; the header is decoded from `h`, the signature from `sg`, the payload is `p`. -/
theorem parseCompact_ok (o : Oracle) (d : Bytes) (msg : Message)
    (hp : (parseCompact d).run o = .ok msg) :
    ∃ h p sg hdr sig, d = h ++ dot :: (p ++ dot :: sg) ∧ dot ∉ h ∧ dot ∉ p ∧
      HeaderOf o h hdr ∧ o ⟨"b64url.dec", [.bytes sg]⟩ = .bytes sig ∧
      msg = { payload := p, nb64 := hdr.nb64,
              signatures := [{ prot := some hdr, rawProtected := h, b64signature := sg, signature := sig }] } := by
  unfold parseCompact at hp
  cases h1 : splitDot d with
  | none => simp [h1] at hp
  | some ab =>
    obtain ⟨h, rest⟩ := ab
    simp only [h1] at hp
    cases h2 : splitDot rest with
    | none => simp [h2] at hp
    | some pq =>
      obtain ⟨p, sg⟩ := pq
      simp only [h2] at hp
      obtain ⟨hb, hhb, hp⟩ := PO.run_bind_eq_ok o _ _ _ hp
      obtain ⟨hdr, hhdr, hp⟩ := PO.run_bind_eq_ok o _ _ _ hp
      obtain ⟨sig, hsig, hp⟩ := PO.run_bind_eq_ok o _ _ _ hp
      obtain ⟨e1, n1⟩ := splitDot_spec d h rest h1
      obtain ⟨e2, n2⟩ := splitDot_spec rest p sg h2
      refine ⟨h, p, sg, hdr, sig, by rw [e1, e2], n1, n2, headerOf_of_runs o h hb hdr hhb hhdr,
        (b64Decode_ok o sg sig).1 hsig, ?_⟩
      simp at hp
      exact hp.symm

/-- what one element of `signatures` (or the flattened members) contributes.  `s.nb64` is the
    entry's OWN b64 setting (protected header's, default when there is none): the first entry sets
    the message flag, every later entry — with or without a protected header — must agree with it. -/
structure SigParsed (o : Oracle) (i : Nat) (nb : Bool) (w : Wire) (s : Signature) (nb' : Bool) : Prop where
  decoded : ProtDecoded o s
  first : i = 0 → nb' = s.nb64
  later : i ≠ 0 → s.nb64 = nb ∧ nb' = nb
  noprot : s.prot = none → s.rawProtected = []
  received : ∃ kvs, w = .obj kvs ∧
    (∀ p, s.prot = some p → ∃ ps, Wire.lookup "protected" kvs = some (.str ps) ∧ s.rawProtected = strBytes ps) ∧
    (s.prot = none → Wire.lookup "protected" kvs = none) ∧
    ∃ ss, Wire.lookup "signature" kvs = some (.str ss) ∧ s.b64signature = strBytes ss ∧
      o ⟨"b64url.dec", [.bytes (strBytes ss)]⟩ = .bytes s.signature

theorem parseSig_ok (o : Oracle) (i : Nat) (nb : Bool) (w : Wire) (s : Signature) (nb' : Bool)
    (h : (parseSig i nb w).run o = .ok (s, nb')) : SigParsed o i nb w s nb' := by
  unfold parseSig at h
  cases w with
  | obj kvs =>
    simp only at h
    obtain ⟨⟨prot, rawProt, nbE⟩, hprot, h⟩ := PO.run_bind_eq_ok o _ _ _ h
    obtain ⟨nb1, hflag, h⟩ := PO.run_bind_eq_ok o _ _ _ h
    obtain ⟨hdr, hhdr, h⟩ := PO.run_bind_eq_ok o _ _ _ h
    simp only at h
    -- signature member
    cases hs : Wire.lookup "signature" kvs with
    | none => simp [hs] at h
    | some sv =>
      cases sv with
      | str ss => ?_
      | _ => simp [hs] at h
      simp only [hs] at h
      obtain ⟨sg, hsg, h⟩ := PO.run_bind_eq_ok o _ _ _ h
      simp at h
      obtain ⟨hs_eq, hnb⟩ := h
      subst hnb
      -- the flag step
      have hflag' : (i = 0 → nb1 = nbE) ∧ (i ≠ 0 → nbE = nb ∧ nb1 = nb) := by
        by_cases hi : i = 0
        · simp [hi] at hflag
          exact ⟨fun _ => hflag.symm, fun hne => absurd hi hne⟩
        · have hi' : (i == 0) = false := by simpa using hi
          simp only [hi', Bool.false_eq_true, if_false] at hflag
          by_cases hne : (nb != nbE) = true
          · simp [hne] at hflag
          · simp only [hne, Bool.false_eq_true, if_false, PO.run_pure] at hflag
            injection hflag with hflag
            have : nbE = nb := by
              cases hx : nbE <;> cases hy : nb <;> simp [hx, hy] at hne <;> rfl
            exact ⟨fun h0 => absurd h0 hi, fun _ => ⟨this, hflag.symm⟩⟩
      -- protected member
      cases hpm : Wire.lookup "protected" kvs with
      | none =>
        simp [hpm] at hprot
        obtain ⟨rfl, rfl, rfl⟩ := hprot
        subst hs_eq
        exact ⟨by intro p hp; simp at hp, fun h0 => by simpa [Signature.nb64] using hflag'.1 h0,
          fun hne => by simpa [Signature.nb64] using hflag'.2 hne,
          by intro _; rfl, kvs, rfl, by intro p hp; simp at hp, by intro _; exact hpm,
          ss, hs, rfl, (b64Decode_ok o _ sg).1 hsg⟩
      | some pv =>
        cases pv with
        | str ps => ?_
        | _ => simp [hpm] at hprot
        simp only [hpm] at hprot
        obtain ⟨raw, hraw, hprot⟩ := PO.run_bind_eq_ok o _ _ _ hprot
        obtain ⟨ph, hph, hprot⟩ := PO.run_bind_eq_ok o _ _ _ hprot
        have hHO := headerOf_of_runs o _ raw ph hraw hph
        simp only [PO.run_pure] at hprot
        injection hprot with hprot
        simp at hprot
        obtain ⟨rfl, rfl, rfl⟩ := hprot
        subst hs_eq
        refine ⟨?_, fun h0 => by simpa [Signature.nb64] using hflag'.1 h0,
          fun hne => by simpa [Signature.nb64] using hflag'.2 hne,
          by intro hn; simp at hn, kvs, rfl, ?_, by intro hn; simp at hn,
          ss, hs, rfl, (b64Decode_ok o _ sg).1 hsg⟩
        · intro p hp; simp at hp; subst hp; exact hHO
        · intro p hp; exact ⟨ps, hpm, rfl⟩
  | _ => simp at h

/-- element-wise relation between two lists of equal length -/
inductive Zip2 {α β : Type} (R : α → β → Prop) : List α → List β → Prop
  | nil : Zip2 R [] []
  | cons {a b as bs} : R a b → Zip2 R as bs → Zip2 R (a :: as) (b :: bs)

theorem Zip2.mem_right {α β : Type} {R : α → β → Prop} {l : List α} {r : List β} (h : Zip2 R l r) :
    ∀ b ∈ r, ∃ a ∈ l, R a b := by
  induction h with
  | nil => intro b hb; cases hb
  | cons hr _ ih =>
    intro b hb
    cases hb with
    | head => exact ⟨_, List.mem_cons_self .., hr⟩
    | tail _ hb => obtain ⟨a, ha, hab⟩ := ih b hb; exact ⟨a, List.mem_cons_of_mem _ ha, hab⟩

theorem parseSigs_cons (o : Oracle) (i : Nat) (nb : Bool) (w : Wire) (rest : List Wire)
    (ss : List Signature) (nb' : Bool) (h : (parseSigs i nb (w :: rest)).run o = .ok (ss, nb')) :
    ∃ s nb1 ss', (parseSig i nb w).run o = .ok (s, nb1) ∧
      (parseSigs (i + 1) nb1 rest).run o = .ok (ss', nb') ∧ ss = s :: ss' := by
  unfold parseSigs at h
  obtain ⟨⟨s, nb1⟩, h1, h⟩ := PO.run_bind_eq_ok o _ _ _ h
  obtain ⟨⟨ss', nb2⟩, h2, h⟩ := PO.run_bind_eq_ok o _ _ _ h
  simp at h
  obtain ⟨rfl, rfl⟩ := h
  exact ⟨s, nb1, ss', h1, h2, rfl⟩

/-- elements after the first: the flag never changes and every protected header agrees with it -/
theorem parseSigs_later (o : Oracle) :
    ∀ (l : List Wire) (i : Nat) (nb : Bool) (ss : List Signature) (nb' : Bool), i ≠ 0 →
      (parseSigs i nb l).run o = .ok (ss, nb') →
      nb' = nb ∧ (∀ s ∈ ss, ProtDecoded o s) ∧ (∀ s ∈ ss, s.nb64 = nb) ∧
      Zip2 (fun w s => ∃ i nb nb', SigParsed o i nb w s nb') l ss := by
  intro l
  induction l with
  | nil =>
    intro i nb ss nb' _ h
    simp [parseSigs] at h
    obtain ⟨rfl, rfl⟩ := h
    simp [Zip2.nil]
  | cons w rest ih =>
    intro i nb ss nb' hi h
    obtain ⟨s, nb1, ss', h1, h2, rfl⟩ := parseSigs_cons o i nb w rest ss nb' h
    have sp := parseSig_ok o i nb w s nb1 h1
    have hnb1 : nb1 = nb := (sp.later hi).2
    subst hnb1
    obtain ⟨e, hd, hc, hf⟩ := ih (i + 1) nb1 ss' nb' (by omega) h2
    refine ⟨e, ?_, ?_, Zip2.cons ⟨i, nb1, nb1, sp⟩ hf⟩
    · intro s' hm
      cases hm with
      | head => exact sp.decoded
      | tail _ hm => exact hd s' hm
    · intro s' hm
      cases hm with
      | head => exact (sp.later hi).1
      | tail _ hm => exact hc s' hm

/-- the whole array: every protected header agrees with the final message flag -/
theorem parseSigs_zero (o : Oracle) (l : List Wire) (nb : Bool) (ss : List Signature) (nb' : Bool)
    (h : (parseSigs 0 nb l).run o = .ok (ss, nb')) :
    (∀ s ∈ ss, ProtDecoded o s) ∧ (∀ s ∈ ss, s.nb64 = nb') ∧
    Zip2 (fun w s => ∃ i nb nb', SigParsed o i nb w s nb') l ss := by
  cases l with
  | nil =>
    simp [parseSigs] at h
    obtain ⟨rfl, rfl⟩ := h
    simp [Zip2.nil]
  | cons w rest =>
    obtain ⟨s, nb1, ss', h1, h2, rfl⟩ := parseSigs_cons o 0 nb w rest ss nb' h
    have sp := parseSig_ok o 0 nb w s nb1 h1
    obtain ⟨e, hd, hc, hf⟩ := parseSigs_later o rest 1 nb1 ss' nb' (by omega) h2
    subst e
    refine ⟨?_, ?_, Zip2.cons ⟨0, nb, nb', sp⟩ hf⟩
    · intro s' hm
      cases hm with
      | head => exact sp.decoded
      | tail _ hm => exact hd s' hm
    · intro s' hm
      cases hm with
      | head => exact (sp.first rfl).symm
      | tail _ hm => exact hc s' hm

/-- the array of signature objects the JSON parser iterates over: `signatures` itself, or the
    single synthetic element built from the flattened members -/
def sigElems (kvs : KVs) : Option (List Wire) :=
  match Wire.lookup "signatures" kvs, Wire.lookup "signature" kvs with
  | some (.arr l), none => some l
  | none, some sg =>
    let o1 : KVs := [("signature", sg)]
    let o2 : KVs := match Wire.lookup "protected" kvs with | some p => o1 ++ [("protected", p)] | none => o1
    let o3 : KVs := match Wire.lookup "header" kvs with | some h => o2 ++ [("header", h)] | none => o2
    some [.obj o3]
  | _, _ => none

/-- `Parse` / `UnmarshalJSON`: the payload is the `payload` member's text as received (absent =
    empty), every signature entry stems from one element of `sigElems`, every protected header is
    the decoding of the `protected` text stored with it, and all of them carry the same `b64`
    setting as the message. -/
theorem parseJSON_ok (o : Oracle) (d : Bytes) (msg : Message)
    (hp : (parseJSON d).run o = .ok msg) :
    ∃ raw, o ⟨"json.decodeMap", [.bytes d]⟩ = raw ∧
      (msg.payload = match Wire.lookup "payload" raw.asObj with
        | some (.str p) => strBytes p | _ => []) ∧
      (∀ s ∈ msg.signatures, ProtDecoded o s) ∧
      (∀ s ∈ msg.signatures, s.nb64 = msg.nb64) ∧
      ∃ elems, sigElems raw.asObj = some elems ∧
        Zip2 (fun w s => ∃ i nb nb', SigParsed o i nb w s nb') elems msg.signatures := by
  unfold parseJSON at hp
  obtain ⟨raw, hraw, hp⟩ := PO.run_bind_eq_ok o _ _ _ hp
  obtain ⟨hq, _⟩ := jsonDecodeMap_ok o d raw hraw
  obtain ⟨payload, hpay, hp⟩ := PO.run_bind_eq_ok o _ _ _ hp
  obtain ⟨arr, harr, hp⟩ := PO.run_bind_eq_ok o _ _ _ hp
  obtain ⟨⟨sigs, nb⟩, hsigs, hp⟩ := PO.run_bind_eq_ok o _ _ _ hp
  simp at hp
  subst hp
  obtain ⟨hd, hc, hf⟩ := parseSigs_zero o arr false sigs nb hsigs
  refine ⟨raw, hq, ?_, hd, hc, arr, ?_, hf⟩
  · simp only
    cases hl : Wire.lookup "payload" raw.asObj with
    | none => simp [hl] at hpay; simp [hpay]
    | some v =>
      cases v with
      | str p => simp [hl] at hpay; simp [hpay]
      | _ => simp [hl] at hpay
  · unfold sigElems
    cases h1 : Wire.lookup "signatures" raw.asObj with
    | none =>
      cases h2 : Wire.lookup "signature" raw.asObj with
      | none => simp [h1, h2] at harr
      | some sg =>
        simp [h1, h2] at harr ⊢
        exact harr
    | some v =>
      cases h2 : Wire.lookup "signature" raw.asObj with
      | some sg => simp [h1, h2] at harr
      | none =>
        cases v with
        | arr l => simp [h1, h2] at harr; simp [harr]
        | _ => simp [h1, h2] at harr

end Model.JWS
