import GoatProofs.Lemmas.C05Codec
import GoatProofs.C06
/-
C05, JSON serializations: a semantic description of a JWE JSON message (`JDesc`), the message `ParseJSON`
returns for any text whose struct decoding is the description's top-level object (general or flattened
syntax, header parameters split over protected / shared unprotected / per-recipient header), and the
completeness of `Decrypt` for the i-th recipient.
-/
namespace GoatProofs.C05
open Model.JWE Gen.Consts

/-- one recipient of a JSON message: the "header" member (`null` if absent), its decoding, the encrypted key -/
structure RDesc where
  hw : Wire
  h : Header
  ek : Bytes
  b64ek : Bytes

def RDesc.toRecipient (r : RDesc) : Recipient :=
  { header := some r.h, encryptedKey := r.ek, b64encryptedKey := r.b64ek }

def RDesc.toWire (r : RDesc) : Wire := .obj [("encrypted_key", .bytes r.b64ek), ("header", r.hw)]

structure RDescOK (o : Oracle) (protRaw unprotRaw : KVs) (r : RDesc) : Prop where
  dec : (decodeHeaderW r.hw).run o = .ok r.h
  crit : r.h.crit = []
  disj : (disjointKeys r.hw.asObj protRaw && disjointKeys r.hw.asObj unprotRaw) = true
  ek : o ⟨"b64url.dec", [.bytes r.b64ek]⟩ = .bytes r.ek

theorem decodeHeader_nil (o : Oracle) : (decodeHeader []).run o = .ok {} := by
  simp [decodeHeader, getString, getStringArray, getEpk, getBytes, getP2c, Wire.lookup, knownParams]

theorem b64Decode_run (o : Oracle) (x y : Bytes) (h : o ⟨"b64url.dec", [.bytes x]⟩ = .bytes y) :
    (b64Decode x).run o = .ok y := by
  simp [b64Decode, h]

theorem parseRecipients_run (o : Oracle) (protRaw unprotRaw : KVs) (rs : List RDesc)
    (hok : ∀ r ∈ rs, RDescOK o protRaw unprotRaw r) :
    (parseRecipients protRaw unprotRaw (rs.map RDesc.toWire)).run o = .ok (rs.map RDesc.toRecipient) := by
  induction rs with
  | nil => simp [parseRecipients]
  | cons r rest ih =>
    have hr := hok r (by simp)
    have ih' := ih (fun x hx => hok x (by simp [hx]))
    simp only [List.map, parseRecipients]
    have g1 : ((RDesc.toWire r).get? "header").getD .null = r.hw := by
      simp [RDesc.toWire, Wire.get?, Wire.asObj, Wire.lookup]
    have g2 : fieldBytes (RDesc.toWire r) "encrypted_key" = r.b64ek := by
      simp [fieldBytes, RDesc.toWire, Wire.get?, Wire.asObj, Wire.lookup, Wire.asBytes]
    simp only [g1, g2, PO.run_bind, hr.dec, hr.crit, List.length_nil, Nat.lt_irrefl, if_false, hr.disj,
      Bool.not_true, Bool.false_eq_true, b64Decode_run o _ _ hr.ek, ih', PO.run_pure, RDesc.toRecipient,
      gt_iff_lt]

/-- a JWE in one of the JSON syntaxes, described by its parts -/
structure JDesc where
  b64prot : Bytes          -- the "protected" member ([] if absent)
  protBytes : Bytes        -- its base64url decoding
  protRaw : KVs            -- the JSON object in it ([] if the member is absent)
  hp : Header              -- the decoded JWE Protected Header
  unprotW : Wire           -- the "unprotected" member (`null` if absent)
  hu : Header
  rcpts : List RDesc
  iv : Bytes
  b64iv : Bytes
  ct : Bytes
  b64ct : Bytes
  tag : Bytes
  b64tag : Bytes
  aad : Bytes
  b64aad : Bytes

/-- the struct decoding (`jsonJWE`) of the general syntax: "recipients" present -/
def JDesc.topGeneral (d : JDesc) : Wire :=
  .obj [("aad", .bytes d.b64aad), ("ciphertext", .bytes d.b64ct), ("encrypted_key", .bytes []), ("header", .null),
        ("iv", .bytes d.b64iv), ("protected", .bytes d.b64prot), ("recipients", .arr (d.rcpts.map RDesc.toWire)),
        ("tag", .bytes d.b64tag), ("unprotected", d.unprotW)]

/-- the struct decoding of the flattened syntax (RFC 7516 §7.2.2; also a general-syntax text without
    "recipients"): "header" and "encrypted_key" of the single recipient at top level -/
def JDesc.topFlat (d : JDesc) (r : RDesc) : Wire :=
  .obj [("aad", .bytes d.b64aad), ("ciphertext", .bytes d.b64ct), ("encrypted_key", .bytes r.b64ek), ("header", r.hw),
        ("iv", .bytes d.b64iv), ("protected", .bytes d.b64prot), ("recipients", .null),
        ("tag", .bytes d.b64tag), ("unprotected", d.unprotW)]

def JDesc.toMessage (d : JDesc) : Message :=
  { unprotected := some d.hu, header := d.hp, iv := d.iv, b64iv := d.b64iv, ciphertext := d.ct,
    b64ciphertext := d.b64ct, protectedRaw := d.protBytes, b64protected := d.b64prot, tag := d.tag,
    b64tag := d.b64tag, aad := d.aad, b64aad := d.b64aad, recipients := d.rcpts.map RDesc.toRecipient }

structure JDescOK (o : Oracle) (d : JDesc) : Prop where
  prot : (d.b64prot = [] ∧ d.protBytes = [] ∧ d.protRaw = []) ∨
         (d.b64prot ≠ [] ∧ o ⟨"b64url.dec", [.bytes d.b64prot]⟩ = .bytes d.protBytes ∧
          (decodeJSONMap d.protBytes).run o = .ok d.protRaw)
  hp : (decodeHeader d.protRaw).run o = .ok d.hp
  hu : (decodeHeaderW d.unprotW).run o = .ok d.hu
  hucrit : d.hu.crit = []
  disj : disjointKeys d.unprotW.asObj d.protRaw = true
  ct : o ⟨"b64url.dec", [.bytes d.b64ct]⟩ = .bytes d.ct
  iv : o ⟨"b64url.dec", [.bytes d.b64iv]⟩ = .bytes d.iv
  tag : o ⟨"b64url.dec", [.bytes d.b64tag]⟩ = .bytes d.tag
  aad : o ⟨"b64url.dec", [.bytes d.b64aad]⟩ = .bytes d.aad
  rcpts : ∀ r ∈ d.rcpts, RDescOK o d.protRaw d.unprotW.asObj r

/-- ParseJSON on any text whose struct decoding is `top`, where `top` has the members of `d` and its recipient
    list (however spelled) is `d.rcpts` -/
theorem parseJSON_of_top (o : Oracle) (d : JDesc) (ok : JDescOK o d) (data : Bytes) (top : List (String × Wire))
    (hdec : o ⟨"jwe.decodeJSON", [.bytes data]⟩ = .obj top)
    (hprot : fieldBytes (.obj top) "protected" = d.b64prot)
    (hunp : ((Wire.obj top).get? "unprotected").getD .null = d.unprotW)
    (hct : fieldBytes (.obj top) "ciphertext" = d.b64ct) (hiv : fieldBytes (.obj top) "iv" = d.b64iv)
    (htag : fieldBytes (.obj top) "tag" = d.b64tag) (haad : fieldBytes (.obj top) "aad" = d.b64aad)
    (hrs : (jsonRecipients (.obj top)).run o = .ok (d.rcpts.map RDesc.toWire)) :
    (parseJSON data).run o = .ok d.toMessage := by
  unfold parseJSON
  simp only [PO.run_bind, PO.run_query, hdec, hprot, hunp, hct, hiv, htag, haad]
  have hpair : PO.run o (if (d.b64prot.length != 0) = true then do
        let p ← b64Decode d.b64prot
        let m ← decodeJSONMap p
        pure (p, m)
      else pure ([], []) : PO (Bytes × KVs)) = .ok (d.protBytes, d.protRaw) := by
    rcases ok.prot with ⟨h1, h2, h3⟩ | ⟨h1, h2, h3⟩
    · simp [h1, h2, h3]
    · have : (d.b64prot.length != 0) = true := by
        cases hb : d.b64prot with
        | nil => exact absurd hb h1
        | cons a t => simp
      simp only [this, if_true, PO.run_bind, b64Decode_run o _ _ h2, h3, PO.run_pure]
  simp only [PO.run_bind, hpair, ok.hp, ok.hu, ok.hucrit, List.length_nil, gt_iff_lt, Nat.lt_irrefl, if_false, ok.disj,
    Bool.not_true, Bool.false_eq_true, b64Decode_run o _ _ ok.ct, b64Decode_run o _ _ ok.iv,
    b64Decode_run o _ _ ok.tag, b64Decode_run o _ _ ok.aad, hrs,
    parseRecipients_run o _ _ _ ok.rcpts, PO.run_pure, JDesc.toMessage]

theorem parseJSON_general (o : Oracle) (d : JDesc) (ok : JDescOK o d) (data : Bytes)
    (hdec : o ⟨"jwe.decodeJSON", [.bytes data]⟩ = d.topGeneral) :
    (parseJSON data).run o = .ok d.toMessage := by
  refine parseJSON_of_top o d ok data _ hdec ?_ ?_ ?_ ?_ ?_ ?_ ?_ <;>
    simp [fieldBytes, Wire.get?, Wire.asObj, Wire.lookup, Wire.asBytes, jsonRecipients]

theorem parseJSON_flat (o : Oracle) (d : JDesc) (r : RDesc) (hr : d.rcpts = [r]) (ok : JDescOK o d) (data : Bytes)
    (hdec : o ⟨"jwe.decodeJSON", [.bytes data]⟩ = d.topFlat r) :
    (parseJSON data).run o = .ok d.toMessage := by
  refine parseJSON_of_top o d ok data _ hdec ?_ ?_ ?_ ?_ ?_ ?_ ?_ <;>
    simp [fieldBytes, Wire.get?, Wire.asObj, Wire.lookup, Wire.asBytes, jsonRecipients, hr, RDesc.toWire]

/-- completeness of Decrypt for the recipient at any position: the finder declines the earlier ones -/
theorem decrypt_at (o : Oracle) (m : Message) (pre : List Recipient) (r : Recipient) (post : List Recipient)
    (kw : Wire) (cek pt' pt : Bytes) (hr : m.recipients = pre ++ r :: post)
    (hpre : ∀ r' ∈ pre, C06.finderAnswer o m r' = .none)
    (hf : C06.finderAnswer o m r = kw) (hk : kw.isNone = false)
    (hu : C06.unwrapAnswer o m r kw = .bytes cek)
    (hav : encAvailable (contentEnc m r) = true)
    (ha : C06.aeadAnswer o m r cek = .bytes pt')
    (hz : C06.Inflated o m pt' pt) : (decrypt m).run o = .ok pt := by
  unfold decrypt
  rw [hr]
  clear hr
  induction pre with
  | nil =>
    unfold C06.finderAnswer at hf
    unfold C06.unwrapAnswer at hu
    unfold C06.aeadAnswer at ha
    simp only [List.nil_append, decryptLoop, PO.run_bind, PO.run_query, hf, hk, Bool.false_eq_true, if_false]
    unfold decryptWith
    simp only [PO.run_bind, PO.run_query, hu, hav, Bool.not_true, Bool.false_eq_true, if_false, ha]
    unfold decompressIf
    unfold C06.Inflated at hz
    by_cases hzz : m.header.zip = jwa.DEF
    · simp only [hzz, if_true] at hz
      simp [hzz, hz]
    · simp only [hzz, if_false] at hz
      have : (m.header.zip == jwa.DEF) = false := by simpa using hzz
      simp [this, hz]
  | cons a t ih =>
    have ha' := hpre a (by simp)
    unfold C06.finderAnswer at ha'
    simp only [List.cons_append, decryptLoop, PO.run_bind, PO.run_query, ha', Wire.isNone, if_true]
    exact ih (fun x hx => hpre x (by simp [hx]))

end GoatProofs.C05
