import Goat.Model.JWTClaims
/-
Claims codec lemmas: what `encodeClaims` writes under a registered name is what `parseClaims`
reads back (string claims and the audience in its three shapes).
-/
namespace GoatProofs.Lemmas.C10Claims
open Model Model.JWTClaims

theorem lookup_setKey_same (k : String) (v : Wire) (m : List (String × Wire)) :
    Wire.lookup k (setKey k v m) = some v := by
  induction m with
  | nil => simp [setKey, Wire.lookup]
  | cons kv r ih =>
    obtain ⟨k', v'⟩ := kv
    unfold setKey
    by_cases h : k = k'
    · simp [h, Wire.lookup]
    · simp [h, Wire.lookup, ih]

theorem lookup_setKey_ne (k k' : String) (v : Wire) (m : List (String × Wire)) (h : k' ≠ k) :
    Wire.lookup k' (setKey k v m) = Wire.lookup k' m := by
  induction m with
  | nil => simp [setKey, Wire.lookup, h]
  | cons kv r ih =>
    obtain ⟨k2, v2⟩ := kv
    unfold setKey
    by_cases h2 : k = k2
    · subst h2
      simp [Wire.lookup, h]
    · by_cases h3 : k' = k2
      · simp [h2, Wire.lookup, h3]
      · simp [h2, Wire.lookup, h3, ih]

theorem audElems_map_str (l : List String) : audElems (l.map Wire.str) = l := by
  induction l with
  | nil => rfl
  | cons a r ih => simp [audElems, ih]

theorem audBad_map_str (l : List String) : audBad (l.map Wire.str) = false := by
  induction l with
  | nil => rfl
  | cons a r ih => simp [audBad, ih]

/-- GetString reads back a string written by `Set(name, s)` -/
theorem getString_setKey (k s : String) (m : List (String × Wire)) :
    getString ⟨setKey k (.str s) m, none⟩ k = (s, true, ⟨setKey k (.str s) m, none⟩) := by
  unfold getString
  simp [lookup_setKey_same]

/-- a string claim that was not written (empty in the struct) and is absent from Raw reads as "" -/
theorem getString_absent (k : String) (m : List (String × Wire)) (h : Wire.lookup k m = none) :
    getString ⟨m, none⟩ k = ("", false, ⟨m, none⟩) := by
  unfold getString
  simp [h]

end GoatProofs.Lemmas.C10Claims
