import GoatProofs.Lemmas.C10Plain
import GoatProofs.Lemmas.C10Int
import GoatProofs.Lemmas.C10NDFull
/-
`decode ty (encode ty v) = ok v` by induction over a universe of Go types: strings, booleans,
signed and unsigned integers of every width, floats, byte strings, unsigned big integers, times,
URLs, pointers, slices and (nested) structs without embedding.
-/
namespace GoatProofs.Lemmas.C10Universe
open Model Model.Custom GoatProofs.Lemmas.C10Plain GoatProofs.Lemmas.C10StructRT
open GoatProofs.Lemmas.C10Override GoatProofs.Lemmas.C10Int

/-! ### big-endian bytes of a natural number -/

theorem decodeBE_append (a b : Bytes) :
    Bytes.decodeBE (a ++ b) = Bytes.decodeBE a * 256 ^ b.length + Bytes.decodeBE b := by
  unfold Bytes.decodeBE
  induction b generalizing a with
  | nil => simp
  | cons y ys ih =>
    have h := ih (a ++ [y])
    simp only [List.append_assoc, List.singleton_append] at h
    rw [h]
    have h2 := ih [y]
    simp only [List.singleton_append] at h2
    rw [h2]
    simp only [List.foldl_append, List.foldl_cons, List.foldl_nil, List.length_cons, Nat.zero_mul, Nat.zero_add]
    rw [Nat.pow_succ]
    generalize List.foldl (fun acc x => acc * 256 + x.toNat) 0 a = A
    generalize 256 ^ ys.length = P
    rw [Nat.add_mul, Nat.mul_assoc, Nat.mul_comm 256 P]
    omega

theorem natBytesAux_acc (fuel n : Nat) (acc : Bytes) :
    natBytesAux fuel n acc = natBytesAux fuel n [] ++ acc := by
  induction fuel generalizing n acc with
  | zero => simp [natBytesAux]
  | succ f ih =>
    unfold natBytesAux
    split
    · simp
    · rw [ih (n / 256) (UInt8.ofNat (n % 256) :: acc), ih (n / 256) [UInt8.ofNat (n % 256)]]
      simp

theorem natBytesAux_spec (fuel n : Nat) (h : n < fuel) : Bytes.decodeBE (natBytesAux fuel n []) = n := by
  induction fuel generalizing n with
  | zero => omega
  | succ f ih =>
    unfold natBytesAux
    split
    · rename_i h0; subst h0; rfl
    · rename_i h0
      rw [natBytesAux_acc, decodeBE_append, ih (n / 256) (by omega)]
      have : (UInt8.ofNat (n % 256)).toNat = n % 256 := by
        simp [UInt8.toNat_ofNat', Nat.mod_mod]
      simp [Bytes.decodeBE, this]
      omega

theorem decodeBE_natBytes (n : Nat) : Bytes.decodeBE (natBytes n) = n :=
  natBytesAux_spec (n + 1) n (by omega)

theorem decodeInt_format (bits : Nat) (hb : 1 ≤ bits ∧ bits ≤ 64) (i : Int)
    (hi : -(2 ^ (bits - 1) : Int) ≤ i ∧ i ≤ (2 ^ (bits - 1) : Int) - 1) :
    decodeInt bits (formatInt i) = .ok i := by
  rw [decodeInt_formatInt_eq bits hb i, if_pos hi]

theorem decodeUint_format (bits : Nat) (hb : bits ≤ 64) (n : Nat) (hn : n < 2 ^ bits) :
    decodeUint bits (formatInt (n : Int)) = .ok n := by
  have h1 : (0 : Int) ≤ (n : Int) ∧ (n : Int) < (2 ^ bits : Int) := by
    refine ⟨by omega, ?_⟩
    have : ((n : Nat) : Int) < ((2 ^ bits : Nat) : Int) := by exact_mod_cast hn
    simpa using this
  rw [decodeUint_formatInt_eq bits hb n, if_pos h1]
  simp

/-! ### round-trip property at a given fuel -/

/-- at this fuel, encoding `v : t` succeeds and whatever it produced decodes — into any current
    destination value — to `v` -/
def RTat (o : Oracle) (fuel : Nat) (t : Ty) (v : Val) : Prop :=
  (∃ w, (encode fuel true t v).run o = .ok w) ∧
  ∀ w, (encode fuel true t v).run o = .ok w → ∀ cur, (decodeInto fuel t cur w).run o = .ok v

/-- … for all sufficiently large fuel (nesting depth) -/
def RT (o : Oracle) (t : Ty) (v : Val) : Prop := ∃ F, ∀ fuel, F ≤ fuel → RTat o fuel t v

theorem rt_of_succ (o : Oracle) (t : Ty) (v : Val) (h : ∀ f, RTat o (f + 1) t v) : RT o t v :=
  ⟨1, fun fuel hf => by
    obtain ⟨f, rfl⟩ : ∃ f, fuel = f + 1 := ⟨fuel - 1, by omega⟩
    exact h f⟩

/-! ### slices -/

theorem mapM_zip (o : Oracle) (fuel : Nat) (e : Ty) :
    ∀ (vs : List Val), (∀ v ∈ vs, RTat o fuel e v) →
      ∃ ws, (mapM (encode fuel true e) vs).run o = .ok ws ∧ ws.length = vs.length ∧
        ∀ base : List Val, base.length = vs.length →
          (zipDecode (decodeInto fuel e) base ws).run o = .ok vs := by
  intro vs
  induction vs with
  | nil => intro _; exact ⟨[], by simp [mapM], rfl, fun base hb => by
      cases base <;> simp [zipDecode]⟩
  | cons v r ih =>
    intro h
    obtain ⟨⟨w, hw⟩, hdec⟩ := h v List.mem_cons_self
    obtain ⟨ws, hws, hlen, hz⟩ := ih (fun x hx => h x (List.mem_cons_of_mem _ hx))
    refine ⟨w :: ws, ?_, by simp [hlen], ?_⟩
    · simp only [mapM, PO.run_bind, hw, hws, PO.run_pure]
    · intro base hb
      cases base with
      | nil => simp at hb
      | cons c cs =>
        simp only [zipDecode, PO.run_bind, hdec w hw c, hz cs (by simpa using hb), PO.run_pure]

theorem sliceBase_length (e : Ty) (cur : List Val) (n : Nat) : (sliceBase e cur n).length = n := by
  unfold sliceBase
  split
  · simp; omega
  · simp

/-! ### the universe -/

/-- base64 round trip of the standard library, as the model drives it (text through a `String`) -/
def B64Law (o : Oracle) : Prop :=
  ∀ b : Bytes, o ⟨"b64url.dec", [.bytes (Bytes.ofString (Bytes.toStringLossy (o ⟨"b64url.enc", [.bytes b]⟩).asBytes))]⟩ = .bytes b

inductive Supported : Ty → Prop where
  | string : Supported .string
  | bool : Supported .bool
  | int (bits : Nat) : 1 ≤ bits ∧ bits ≤ 64 → Supported (.int bits)
  | uint (bits : Nat) : bits ≤ 64 → Supported (.uint bits)
  | float (bits : Nat) : Supported (.float bits)
  | time : Supported .time
  | url : Supported .url
  | bigint : Supported .bigint
  | bytes (plain : Bool) : Supported (.slice (.uint 8) plain)
  | ptr (e : Ty) : Supported e → Supported (.ptr e)
  | slice (e : Ty) (plain : Bool) : isByteKind e = false → Supported e → Supported (.slice e plain)
  | struct (id : String) (fields : List Field) :
      (∀ fd ∈ fields, plainField fd = true) → fieldsOK (.struct id fields) = true →
      (∀ fd ∈ fields, Supported fd.ty) → Supported (.struct id fields)

/-- values that fit their type (`o`-dependent only through the strconv / net/url inverse laws) -/
inductive WT (o : Oracle) : Ty → Val → Prop where
  | string (s : String) : WT o .string (.str s)
  | bool (b : Bool) : WT o .bool (.bool b)
  | int (bits : Nat) (i : Int) : -(2 ^ (bits - 1) : Int) ≤ i ∧ i ≤ (2 ^ (bits - 1) : Int) - 1 → WT o (.int bits) (.int i)
  | uint (bits : Nat) (n : Nat) : n < 2 ^ bits → WT o (.uint bits) (.uint n)
  | float (bits : Nat) (fb : Nat) :
      o ⟨"c10.parseFloat", [.str (o ⟨"c10.formatFloat", [.int fb, .int bits]⟩).asStr, .int bits]⟩ = .int fb →
      WT o (.float bits) (.float fb)
  | time (t : Int) : GoatProofs.Lemmas.C10NDFull.InRange t → WT o .time (.time t)
  | url (s : String) : o ⟨"url.parse", [.str s]⟩ = .str s → WT o .url (.url s)
  | bigint (n : Nat) : WT o .bigint (.big n)
  | bytes (plain : Bool) (b : Bytes) : WT o (.slice (.uint 8) plain) (.bytes b)
  | ptr (e : Ty) (v : Val) : WT o e v → WT o (.ptr e) (.ptr (some v))
  | slice (e : Ty) (plain : Bool) (vs : List Val) : isByteKind e = false → (∀ v ∈ vs, WT o e v) →
      WT o (.slice e plain) (.list vs)
  | struct (id : String) (fields : List Field) (vs : List Val) : vs.length = fields.length →
      (∀ i fd, fields[i]? = some fd → WT o fd.ty (vs.getD i .opaque)) → WT o (.struct id fields) (.strct vs)

theorem nd_str (t : Int) (h : GoatProofs.Lemmas.C10NDFull.InRange t) :
    ∃ s, NumericDate.encode t = .ok s ∧ NumericDate.decode s = .ok t := by
  have h1 := GoatProofs.Lemmas.C10NDFull.numericDate_roundtrip t h
  unfold NumericDate.encode NumericDate.decode
  cases he : NumericDate.encodeChars t with
  | ok cs =>
    rw [he] at h1
    exact ⟨String.ofList cs, rfl, by simpa [Outcome.bind, String.toList_ofList] using h1⟩
  | err c => rw [he] at h1; cases h1
  | panic p => rw [he] at h1; cases h1

/-- a uniform fuel bound for finitely many fields -/
theorem uniform_bound (o : Oracle) (fields : List Field) (vs : List Val)
    (h : ∀ i fd, fields[i]? = some fd → RT o fd.ty (vs.getD i .opaque)) :
    ∀ n, ∃ F, ∀ i, i < n → ∀ fd, fields[i]? = some fd → ∀ fuel, F ≤ fuel → RTat o fuel fd.ty (vs.getD i .opaque) := by
  intro n
  induction n with
  | zero => exact ⟨0, fun i hi => by omega⟩
  | succ n ih =>
    obtain ⟨F, hF⟩ := ih
    cases hn : fields[n]? with
    | none =>
      refine ⟨F, fun i hi fd hfd fuel hf => ?_⟩
      rcases Nat.lt_or_ge i n with hlt | hge
      · exact hF i hlt fd hfd fuel hf
      · have : i = n := by omega
        subst this; rw [hn] at hfd; cases hfd
    | some fdn =>
      obtain ⟨Fn, hFn⟩ := h n fdn hn
      refine ⟨max F Fn, fun i hi fd hfd fuel hf => ?_⟩
      rcases Nat.lt_or_ge i n with hlt | hge
      · exact hF i hlt fd hfd fuel (by omega)
      · have : i = n := by omega
        subst this
        rw [hn] at hfd; cases hfd
        exact hFn fuel (by omega)

theorem fold_ok (o : Oracle) (fuel : Nat) (t : Ty) (sv : Val) :
    ∀ (fs : List FlatField) (acc : List (String × Wire)),
      (∀ f ∈ fs, ∃ tvo w, walkGet true f.index t true sv = .ok tvo ∧ (encode fuel true tvo.1 tvo.2).run o = .ok w) →
      ∃ ret, (fs.foldlM (fieldStep fuel true t sv) acc).run o = .ok ret := by
  intro fs
  induction fs with
  | nil => intro acc _; exact ⟨acc, by simp⟩
  | cons f r ih =>
    intro acc h
    obtain ⟨tvo, w, hw, he⟩ := h f List.mem_cons_self
    obtain ⟨ret, hret⟩ := ih (setKey f.name w acc) (fun g hg => h g (List.mem_cons_of_mem _ hg))
    refine ⟨ret, ?_⟩
    simp only [List.foldlM_cons, PO.run_bind]
    have : (fieldStep fuel true t sv acc f).run o = .ok (setKey f.name w acc) := by
      unfold fieldStep
      simp only [PO.run_bind, PO.run_ofOutcome, hw, he, PO.run_pure]
    rw [this]; exact hret

/-- **custom_roundtrip** over the universe -/
theorem custom_roundtrip (o : Oracle) (hb64 : B64Law o) (t : Ty) (hs : Supported t) :
    ∀ v, WT o t v → RT o t v := by
  induction hs with
  | string =>
    intro v hw; cases hw with
    | string s => exact rt_of_succ o _ _ (fun f => ⟨⟨.str s, by simp [Custom.encode]⟩, fun w hw cur => by
        simp [Custom.encode] at hw; subst hw; simp [Custom.decodeInto]⟩)
  | bool =>
    intro v hw; cases hw with
    | bool b => exact rt_of_succ o _ _ (fun f => ⟨⟨.bool b, by simp [Custom.encode]⟩, fun w hw cur => by
        simp [Custom.encode] at hw; subst hw; simp [Custom.decodeInto]⟩)
  | int bits hb =>
    intro v hw; cases hw with
    | int _ i hi => exact rt_of_succ o _ _ (fun f => ⟨⟨.num (formatInt i), by simp [Custom.encode]⟩, fun w hw cur => by
        simp [Custom.encode] at hw; subst hw
        have := GoatProofs.Lemmas.C10Universe.decodeInt_format bits hb i hi
        simp [Custom.decodeInto, this, Outcome.bind]⟩)
  | uint bits hb =>
    intro v hw; cases hw with
    | uint _ n hn => exact rt_of_succ o _ _ (fun f => ⟨⟨.num (formatInt n), by simp [Custom.encode]⟩, fun w hw cur => by
        simp [Custom.encode] at hw; subst hw
        have := GoatProofs.Lemmas.C10Universe.decodeUint_format bits hb n hn
        simp [Custom.decodeInto, this, Outcome.bind]⟩)
  | float bits =>
    intro v hw; cases hw with
    | float _ fb hlaw => exact rt_of_succ o _ _ (fun f => ⟨⟨.num (o ⟨"c10.formatFloat", [.int fb, .int bits]⟩).asStr, by simp [Custom.encode]⟩, fun w hw cur => by
        simp [Custom.encode] at hw; subst hw
        simp [Custom.decodeInto, hlaw]⟩)
  | time =>
    intro v hw; cases hw with
    | time t ht =>
      obtain ⟨s, hs1, hs2⟩ := nd_str t ht
      exact rt_of_succ o _ _ (fun f => ⟨⟨.num s, by simp [Custom.encode, hs1]⟩, fun w hw cur => by
        simp [Custom.encode, hs1] at hw; subst hw
        simp [Custom.decodeInto, hs2]⟩)
  | url =>
    intro v hw; cases hw with
    | url s hlaw => exact rt_of_succ o _ _ (fun f => ⟨⟨.str s, by simp [Custom.encode]⟩, fun w hw cur => by
        simp [Custom.encode] at hw; subst hw
        simp [Custom.decodeInto, hlaw]⟩)
  | bigint =>
    intro v hw; cases hw with
    | bigint n => exact rt_of_succ o _ _ (fun f => ⟨⟨.str (Bytes.toStringLossy (o ⟨"b64url.enc", [.bytes (natBytes n)]⟩).asBytes), by simp [Custom.encode, b64enc]⟩, fun w hw cur => by
        simp [Custom.encode, b64enc] at hw; subst hw
        simp [Custom.decodeInto, b64dec, hb64 (natBytes n), decodeBE_natBytes]⟩)
  | bytes plain =>
    intro v hw; cases hw with
    | bytes _ b => exact rt_of_succ o _ _ (fun f => ⟨⟨.str (Bytes.toStringLossy (o ⟨"b64url.enc", [.bytes b]⟩).asBytes), by simp [Custom.encode, b64enc, isByteKind]⟩, fun w hw cur => by
        simp [Custom.encode, b64enc, isByteKind] at hw; subst hw
        simp [Custom.decodeInto, b64dec, hb64 b, isByteKind]⟩)
    | slice _ _ vs hnb _ => simp [isByteKind] at hnb
  | ptr e _ ih =>
    intro v hw; cases hw with
    | ptr _ x hx =>
      obtain ⟨F, hF⟩ := ih x hx
      refine ⟨F + 1, fun fuel hf => ?_⟩
      obtain ⟨f, rfl⟩ : ∃ f, fuel = f + 1 := ⟨fuel - 1, by omega⟩
      obtain ⟨⟨w, hw⟩, hdec⟩ := hF f (by omega)
      refine ⟨⟨w, by simp only [Custom.encode]; exact hw⟩, fun w' hw' cur => ?_⟩
      simp only [Custom.encode] at hw'
      simp only [Custom.decodeInto, PO.run_bind, hdec w' hw' (ptrInner e cur), PO.run_pure]
  | slice e plain hnb _ ih =>
    intro v hw; cases hw with
    | bytes _ b => simp [isByteKind] at hnb
    | slice _ _ vs _ hvs =>
      -- a uniform bound for the elements
      have hall : ∃ F, ∀ v ∈ vs, ∀ fuel, F ≤ fuel → RTat o fuel e v := by
        clear hnb
        induction vs with
        | nil => exact ⟨0, fun v hv => by cases hv⟩
        | cons a r ihr =>
          obtain ⟨F1, h1⟩ := ih a (hvs a List.mem_cons_self)
          obtain ⟨F2, h2⟩ := ihr (fun v hv => hvs v (List.mem_cons_of_mem _ hv))
          refine ⟨max F1 F2, fun v hv fuel hf => ?_⟩
          simp only [List.mem_cons] at hv
          rcases hv with hv | hv
          · subst hv; exact h1 fuel (by omega)
          · exact h2 v hv fuel (by omega)
      obtain ⟨F, hF⟩ := hall
      refine ⟨F + 1, fun fuel hf => ?_⟩
      obtain ⟨f, rfl⟩ : ∃ f, fuel = f + 1 := ⟨fuel - 1, by omega⟩
      obtain ⟨ws, hws, hlen, hz⟩ := mapM_zip o f e vs (fun v hv => hF v hv f (by omega))
      have henc : (Custom.encode (f + 1) true (.slice e plain) (.list vs)).run o = .ok (.arr ws) := by
        simp only [Custom.encode, PO.run_bind, hws, PO.run_pure]
      refine ⟨⟨_, henc⟩, fun w hw cur => ?_⟩
      rw [henc] at hw
      cases hw
      simp only [Custom.decodeInto, hnb, Bool.false_eq_true, if_false, PO.run_bind]
      rw [hz _ (by rw [sliceBase_length, hlen])]
      simp
  | struct id fields hplain hok _ ih =>
    intro v hw; cases hw with
    | struct _ _ vs hlen hvs =>
      have hrt : ∀ i fd, fields[i]? = some fd → RT o fd.ty (vs.getD i .opaque) := by
        intro i fd hfd
        have hmem : fd ∈ fields := List.mem_of_getElem? hfd
        exact ih fd hmem _ (hvs i fd hfd)
      obtain ⟨F, hF⟩ := uniform_bound o fields vs hrt fields.length
      refine ⟨F + 1, fun fuel hf => ?_⟩
      obtain ⟨f, rfl⟩ : ∃ f, fuel = f + 1 := ⟨fuel - 1, by omega⟩
      have hidx : ∀ i fd, fields[i]? = some fd → i < fields.length := by
        intro i fd hfd
        rcases Nat.lt_or_ge i fields.length with h | h
        · exact h
        · rw [List.getElem?_eq_none h] at hfd; cases hfd
      have hfield : ∀ i fd, fields[i]? = some fd → RTat o f fd.ty (vs.getD i .opaque) :=
        fun i fd hfd => hF i (hidx i fd hfd) fd hfd f (by omega)
      -- encoding succeeds
      have htf := typeFields_plain id fields hplain
      have henc : ∃ w, (Custom.encode (f + 1) true (.struct id fields) (.strct vs)).run o = .ok w := by
        rw [encode_struct_eq']
        have hall : ∀ g ∈ typeFields (.struct id fields), ∃ tvo w,
            walkGet true g.index (.struct id fields) true (.strct vs) = .ok tvo ∧
            (Custom.encode f true tvo.1 tvo.2).run o = .ok w := by
          intro g hg
          rw [htf] at hg
          obtain ⟨k, fd, hk, he⟩ := plainOut_index [] fields 0 g hg
          have he' : g = ⟨fd.tag, [k], fd.ty⟩ := by simpa using he
          subst he'
          obtain ⟨⟨w, hw⟩, _⟩ := hfield k fd hk
          exact ⟨_, w, walkGet_slot id fields k fd vs hk, hw⟩
        obtain ⟨ret, hret⟩ := fold_ok o f (.struct id fields) (.strct vs) _ [] hall
        exact ⟨.obj ret, by simp only [PO.run_bind, hret, PO.run_pure]⟩
      refine ⟨henc, fun w hw cur => ?_⟩
      exact plain_struct_roundtrip o f id fields vs cur hplain hok hlen
        (fun i fd hfd w hw c => (hfield i fd hfd).2 w hw c) w hw

end GoatProofs.Lemmas.C10Universe
