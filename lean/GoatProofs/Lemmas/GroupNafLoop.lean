import GoatProofs.Lemmas.GroupNafStep
/-
Lemmas for `nonAdjacentForm` (GRP), part 2: the loop invariant, termination on the fuel 448, and
the final carry being 0 for scalars below 2^447.
-/
namespace Model.Recode

/-! ### digit lists -/

theorem digitsValue_replicate_zero (b : Int) : ∀ n : Nat, digitsValue b (List.replicate n 0) = 0
  | 0 => rfl
  | n + 1 => by simp [List.replicate_succ, digitsValue, digitsValue_replicate_zero b n]

theorem digitsValue_set (b : Int) : ∀ (l : List Int) (i : Nat) (d : Int), i < l.length →
    digitsValue b (l.set i d) = digitsValue b l + (d - l.getD i 0) * b ^ i
  | [], _, _, h => by simp at h
  | x :: xs, 0, d, _ => by simp [digitsValue]; ring
  | x :: xs, i + 1, d, h => by
    have := digitsValue_set b xs i d (by simpa using h)
    simp only [List.set_cons_succ, digitsValue, this, List.getD_cons_succ, pow_succ]
    ring

theorem digitsValue_append (b : Int) : ∀ (l m : List Int),
    digitsValue b (l ++ m) = digitsValue b l + b ^ l.length * digitsValue b m
  | [], m => by simp [digitsValue]
  | x :: xs, m => by
    simp only [List.cons_append, digitsValue, digitsValue_append b xs m, List.length_cons, pow_succ]
    ring

theorem getD_set_ne (l : List Int) (i j : Nat) (d : Int) (h : i ≠ j) :
    (l.set i d).getD j 0 = l.getD j 0 := by
  simp [List.getD, h]

theorem getD_set_eq (l : List Int) (i : Nat) (d : Int) (h : i < l.length) :
    (l.set i d).getD i 0 = d := by
  simp [List.getD, h]

/-! ### the invariant -/

/-- digit shape: zero, or odd and strictly inside (−2^(w−1), 2^(w−1)) -/
def NafDigit (w : Nat) (x : Int) : Prop :=
  x = 0 ∨ (x % 2 = 1 ∧ -(2 ^ (w - 1) : Int) < x ∧ x < 2 ^ (w - 1))

structure NafInv (w V pos c : Nat) (naf : List Int) : Prop where
  len : naf.length = 448
  carry : c ≤ 1
  sum : digitsValue 2 naf + 2 ^ pos * ((c : Int) + ((V / 2 ^ pos : Nat) : Int)) = (V : Int)
  rem : (c + V / 2 ^ pos) * 2 ^ pos ≤ 2 ^ 447
  zero : ∀ j, pos ≤ j → naf.getD j 0 = 0
  dig : ∀ x ∈ naf, NafDigit w x
  gap : ∀ j, naf.getD j 0 ≠ 0 → j + w ≤ pos
  sparse : ∀ i j, i < j → naf.getD i 0 ≠ 0 → naf.getD j 0 ≠ 0 → i + w ≤ j

theorem nafInv_init (w V : Nat) (hV : V < 2 ^ 447) : NafInv w V 0 0 (List.replicate 448 0) where
  len := List.length_replicate
  carry := by omega
  sum := by rw [digitsValue_replicate_zero]; simp
  rem := by simp only [pow_zero, Nat.div_one, Nat.mul_one, Nat.zero_add]; omega
  zero := by
    intro j _
    simp only [List.getD_eq_getElem?_getD, List.getElem?_replicate]
    split <;> rfl
  dig := by intro x hx; left; exact (List.mem_replicate.1 hx).2
  gap := by
    intro j hj; exfalso; apply hj
    simp only [List.getD_eq_getElem?_getD, List.getElem?_replicate]
    split <;> rfl
  sparse := by
    intro i j _ hi; exfalso; apply hi
    simp only [List.getD_eq_getElem?_getD, List.getElem?_replicate]
    split <;> rfl

/-- even window: the carry equals the current bit, nothing is written -/
theorem nafInv_even {w V pos c : Nat} {naf : List Int} (hw : 1 ≤ w) (inv : NafInv w V pos c naf)
    (he : (c + (V / 2 ^ pos) % 2 ^ w) % 2 = 0) : NafInv w V (pos + 1) c naf := by
  have hc := inv.carry
  have hq2 : V / 2 ^ (pos + 1) = V / 2 ^ pos / 2 := by rw [Nat.pow_succ, Nat.div_div_eq_div_mul]
  have hmm : (V / 2 ^ pos) % 2 ^ w % 2 = (V / 2 ^ pos) % 2 :=
    Nat.mod_mod_of_dvd _ (by exact dvd_pow_self 2 (by omega))
  have hcq : (V / 2 ^ pos) % 2 = c := by omega
  have hdm := Nat.div_add_mod (V / 2 ^ pos) 2
  have hsum := inv.sum
  have hrem := inv.rem
  generalize V / 2 ^ pos = q at *
  have hq : q = 2 * (q / 2) + c := by omega
  refine ⟨inv.len, hc, ?_, ?_, fun j hj => inv.zero j (by omega), inv.dig,
    fun j hj => by have := inv.gap j hj; omega, inv.sparse⟩
  · have h := hsum
    rw [hq2]
    rw [hq] at h
    rw [← h, pow_succ]
    push_cast
    ring
  · have h := hrem
    rw [hq2, Nat.pow_succ]
    rw [hq] at h
    calc (c + q / 2) * (2 ^ pos * 2) = (c + (2 * (q / 2) + c)) * 2 ^ pos := by ring
      _ ≤ 2 ^ 447 := h

theorem half_pow (w : Nat) (hw : 2 ≤ w) : ∃ H2 : Nat, 2 ^ (w - 1) = 2 * H2 ∧ 2 ^ w = 2 * (2 * H2) ∧ 0 < H2 := by
  refine ⟨2 ^ (w - 2), ?_, ?_, Nat.two_pow_pos _⟩
  · rw [← Nat.pow_succ']; congr 1; omega
  · rw [← Nat.pow_succ', ← Nat.pow_succ']; congr 1; omega

/-- odd window: a digit is written at `pos`, the next `w-1` positions are skipped -/
theorem nafInv_odd {w V pos c : Nat} {naf : List Int} (hw2 : 2 ≤ w) (inv : NafInv w V pos c naf)
    (hpos : pos < 448) (ho : ¬ (c + (V / 2 ^ pos) % 2 ^ w) % 2 = 0) :
    (c + (V / 2 ^ pos) % 2 ^ w < 2 ^ w / 2 →
      NafInv w V (pos + w) 0 (naf.set pos ((c + (V / 2 ^ pos) % 2 ^ w : Nat) : Int))) ∧
    (¬ c + (V / 2 ^ pos) % 2 ^ w < 2 ^ w / 2 →
      NafInv w V (pos + w) 1 (naf.set pos (((c + (V / 2 ^ pos) % 2 ^ w : Nat) : Int) - 2 ^ w))) := by
  have hc := inv.carry
  have hqw : V / 2 ^ (pos + w) = V / 2 ^ pos / 2 ^ w := by rw [Nat.pow_add, Nat.div_div_eq_div_mul]
  have hdm := Nat.div_add_mod (V / 2 ^ pos) (2 ^ w)
  have hrlt : (V / 2 ^ pos) % 2 ^ w < 2 ^ w := Nat.mod_lt _ (Nat.two_pow_pos _)
  obtain ⟨H2, hH, hW, hH2⟩ := half_pow w hw2
  have hz := inv.zero pos (Nat.le_refl _)
  have hlen : pos < naf.length := by rw [inv.len]; exact hpos
  have hsum := inv.sum
  have hrem := inv.rem
  have hPpos : 0 < 2 ^ pos := Nat.two_pow_pos _
  have hHi : ((2 : Int) ^ (w - 1)) = 2 * (H2 : Int) := by exact_mod_cast hH
  have hWi : ((2 : Int) ^ w) = 2 * (2 * (H2 : Int)) := by exact_mod_cast hW
  generalize hq : V / 2 ^ pos = q at *
  generalize hM : q / 2 ^ w = M at *
  generalize hr : q % 2 ^ w = r at *
  have hzero' : ∀ d j, pos + w ≤ j → (naf.set pos d).getD j 0 = 0 := by
    intro d j hj
    rw [getD_set_ne _ _ _ _ (by omega)]
    exact inv.zero j (by omega)
  have hdig' : ∀ d, NafDigit w d → ∀ x ∈ naf.set pos d, NafDigit w x := by
    intro d hd x hx
    rcases List.mem_or_eq_of_mem_set hx with h | h
    · exact inv.dig x h
    · rw [h]; exact hd
  have hgap' : ∀ d j, (naf.set pos d).getD j 0 ≠ 0 → j + w ≤ pos + w := by
    intro d j hj
    by_cases hjp : j = pos
    · omega
    · rw [getD_set_ne _ _ _ _ (fun h => hjp h.symm)] at hj
      have := inv.gap j hj; omega
  have hsparse' : ∀ d i j, i < j → (naf.set pos d).getD i 0 ≠ 0 → (naf.set pos d).getD j 0 ≠ 0 →
      i + w ≤ j := by
    intro d i j hij hi hj
    by_cases hjp : j = pos
    · subst hjp
      rw [getD_set_ne _ _ _ _ (by omega)] at hi
      exact inv.gap i hi
    · rw [getD_set_ne _ _ _ _ (fun h => hjp h.symm)] at hj
      by_cases hip : i = pos
      · subst hip
        exact absurd (inv.zero j (by omega)) hj
      · rw [getD_set_ne _ _ _ _ (fun h => hip h.symm)] at hi
        exact inv.sparse i j hij hi hj
  constructor
  · intro hsmall
    refine ⟨by simp [inv.len], by omega, ?_, ?_, hzero' _, hdig' _ ?_, hgap' _, hsparse' _⟩
    · rw [digitsValue_set 2 naf pos _ hlen, hz, hqw, ← hsum, pow_add]
      have : (q : Int) = 2 ^ w * M + r := by exact_mod_cast hdm.symm
      rw [this]; push_cast; ring
    · rw [hqw, Nat.pow_add]
      have h1 : M * 2 ^ w ≤ q := by rw [← hM]; exact Nat.div_mul_le_self q (2 ^ w)
      calc (0 + M) * (2 ^ pos * 2 ^ w) = (M * 2 ^ w) * 2 ^ pos := by ring
        _ ≤ (c + q) * 2 ^ pos := Nat.mul_le_mul_right _ (by omega)
        _ ≤ 2 ^ 447 := hrem
    · right
      rw [hHi]
      refine ⟨by omega, by omega, ?_⟩
      have : c + r < 2 * H2 := by omega
      exact_mod_cast this
  · intro hlarge
    -- the remaining value fits: pos + w ≤ 447
    have hwin : 2 * H2 + 1 ≤ c + r := by omega
    have hpw : pos + w ≤ 447 := by
      have h1 : (c + r) * 2 ^ pos ≤ (c + q) * 2 ^ pos := Nat.mul_le_mul_right _ (by omega)
      have h2 : 2 ^ (w - 1) * 2 ^ pos < (c + r) * 2 ^ pos :=
        Nat.mul_lt_mul_of_pos_right (by omega) hPpos
      have h3 : 2 ^ (w - 1 + pos) < 2 ^ 447 := by rw [Nat.pow_add]; omega
      have := (Nat.pow_lt_pow_iff_right (by omega : 1 < 2)).1 h3
      omega
    refine ⟨by simp [inv.len], by omega, ?_, ?_, hzero' _, hdig' _ ?_, hgap' _, hsparse' _⟩
    · rw [digitsValue_set 2 naf pos _ hlen, hz, hqw, ← hsum, pow_add]
      have : (q : Int) = 2 ^ w * M + r := by exact_mod_cast hdm.symm
      rw [this]; push_cast; ring
    · rw [hqw, Nat.pow_add]
      have hD : 2 ^ 447 = (2 ^ pos * 2 ^ w) * 2 ^ (447 - pos - w) := by
        rw [← Nat.pow_add, ← Nat.pow_add]; congr 1; omega
      have hPW : 0 < 2 ^ pos * 2 ^ w := Nat.mul_pos hPpos (Nat.two_pow_pos _)
      have h1 : (2 ^ pos * 2 ^ w) * M < (2 ^ pos * 2 ^ w) * 2 ^ (447 - pos - w) := by
        rw [← hD]
        have : (c + q) * 2 ^ pos = (2 ^ pos * 2 ^ w) * M + (c + r) * 2 ^ pos := by
          rw [← hdm]; ring
        have : 0 < (c + r) * 2 ^ pos := Nat.mul_pos (by omega) hPpos
        omega
      have h2 : M < 2 ^ (447 - pos - w) := Nat.lt_of_mul_lt_mul_left h1
      rw [hD]
      calc (1 + M) * (2 ^ pos * 2 ^ w) = (2 ^ pos * 2 ^ w) * (M + 1) := by ring
        _ ≤ (2 ^ pos * 2 ^ w) * 2 ^ (447 - pos - w) := Nat.mul_le_mul_left _ h2
    · right
      rw [hHi, hWi]
      have hle : c + r ≤ 2 * (2 * H2) := by omega
      refine ⟨by omega, ?_, ?_⟩
      · have : (2 * H2 + 1 : Int) ≤ ((c + r : Nat) : Int) := by exact_mod_cast hwin
        omega
      · have h1 : ((c + r : Nat) : Int) ≤ 2 * (2 * (H2 : Int)) := by exact_mod_cast hle
        have h2 : ((c + r : Nat) : Int) % 2 = 1 := by omega
        omega

/-! ### the loop -/

theorem nafLoop_spec (w : Nat) (hw2 : 2 ≤ w) (hw8 : w ≤ 8) (ws : List Nat) (hlen : ws.length = 8)
    (hws : ∀ x ∈ ws, x < 2 ^ 64) :
    ∀ (fuel pos c : Nat) (naf : List Int), NafInv w (wordsValue ws) pos c naf → 448 ≤ pos + fuel →
      ∃ out pos' c', nafLoop w ws fuel pos c naf = .ok out ∧ 448 ≤ pos' ∧
        NafInv w (wordsValue ws) pos' c' out
  | 0, pos, c, naf, inv, hf => by
    refine ⟨naf, pos, c, ?_, by omega, inv⟩
    simp only [nafLoop]
    rw [if_neg (by omega)]
  | fuel + 1, pos, c, naf, inv, hf => by
    by_cases hpos : pos < 448
    · simp only [nafLoop, if_pos hpos]
      rw [nafStep_eq w hw2 hw8 ws hlen hws pos c hpos inv.carry]
      simp only [nafStepSpec]
      by_cases he : (c + wordsValue ws / 2 ^ pos % 2 ^ w) % 2 = 0
      · simp only [he, if_true]
        exact nafLoop_spec w hw2 hw8 ws hlen hws fuel (pos + 1) c naf (nafInv_even (by omega) inv he) (by omega)
      · simp only [he, if_false]
        obtain ⟨h1, h2⟩ := nafInv_odd hw2 inv hpos he
        by_cases hs : c + wordsValue ws / 2 ^ pos % 2 ^ w < 2 ^ w / 2
        · simp only [hs, if_true]
          exact nafLoop_spec w hw2 hw8 ws hlen hws fuel (pos + w) 0 _ (h1 hs) (by omega)
        · simp only [hs, if_false]
          exact nafLoop_spec w hw2 hw8 ws hlen hws fuel (pos + w) 1 _ (h2 hs) (by omega)
    · refine ⟨naf, pos, c, ?_, by omega, inv⟩
      simp only [nafLoop, if_neg hpos]

/-- termination and absence of panics need no hypothesis on the scalar value: with fuel
    `≥ 448 − pos` the loop returns, never indexes outside the digit buffer, and keeps the length -/
theorem nafLoop_ok (w : Nat) (hw2 : 2 ≤ w) (hw8 : w ≤ 8) (ws : List Nat) (hlen : ws.length = 8)
    (hws : ∀ x ∈ ws, x < 2 ^ 64) :
    ∀ (fuel pos c : Nat) (naf : List Int), c ≤ 1 → 448 ≤ pos + fuel →
      ∃ out, nafLoop w ws fuel pos c naf = .ok out ∧ out.length = naf.length
  | 0, pos, c, naf, _, hf => by
    refine ⟨naf, ?_, rfl⟩
    simp only [nafLoop]
    rw [if_neg (by omega)]
  | fuel + 1, pos, c, naf, hc, hf => by
    by_cases hpos : pos < 448
    · simp only [nafLoop, if_pos hpos]
      rw [nafStep_eq w hw2 hw8 ws hlen hws pos c hpos hc]
      simp only [nafStepSpec]
      by_cases he : (c + wordsValue ws / 2 ^ pos % 2 ^ w) % 2 = 0
      · simp only [he, if_true]
        exact nafLoop_ok w hw2 hw8 ws hlen hws fuel (pos + 1) c naf hc (by omega)
      · simp only [he, if_false]
        by_cases hs : c + wordsValue ws / 2 ^ pos % 2 ^ w < 2 ^ w / 2
        · simp only [hs, if_true]
          obtain ⟨out, e, hl⟩ := nafLoop_ok w hw2 hw8 ws hlen hws fuel (pos + w) 0 (naf.set pos _) (by omega) (by omega)
          exact ⟨out, e, by rw [hl, List.length_set]⟩
        · simp only [hs, if_false]
          obtain ⟨out, e, hl⟩ := nafLoop_ok w hw2 hw8 ws hlen hws fuel (pos + w) 1 (naf.set pos _) (by omega) (by omega)
          exact ⟨out, e, by rw [hl, List.length_set]⟩
    · refine ⟨naf, ?_, rfl⟩
      simp only [nafLoop, if_neg hpos]

/-- at the end nothing remains -/
theorem nafInv_final {w V pos c : Nat} {naf : List Int} (inv : NafInv w V pos c naf) (h : 448 ≤ pos) :
    digitsValue 2 naf = (V : Int) := by
  have hrem := inv.rem
  have hsum := inv.sum
  have hp : 2 ^ 448 ≤ 2 ^ pos := Nat.pow_le_pow_right (by omega) h
  generalize V / 2 ^ pos = q at *
  have h0 : c + q = 0 := by
    by_contra hne
    have h1 : 1 * 2 ^ pos ≤ (c + q) * 2 ^ pos := Nat.mul_le_mul_right _ (by omega)
    have h2 : (2 : Nat) ^ 447 < 2 ^ 448 := Nat.pow_lt_pow_right (by omega) (by omega)
    omega
  have hc : c = 0 := by omega
  have hq : q = 0 := by omega
  rw [hc, hq] at hsum
  simpa using hsum

end Model.Recode
