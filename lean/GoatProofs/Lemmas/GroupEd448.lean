import GoatProofs.Lemmas.GroupWindow
/-
Lemmas for the windowed multiplications (GRP): edwards448 `ScalarMult`, `ScalarBaseMult` (with the
real `basepointTable`) and `VarTimeDoubleScalarBaseMult`, all up to a representation relation.
-/
namespace Model.WindowMul
open Model.Recode (digitsValue wrapI8 wrapI8_of_range digitsValue_append)

variable {C G : Type} [AddCommGroup G]

/-! ### finite sums indexed by `0..m-1` -/

def sumTo (f : Nat → Int) : Nat → Int
  | 0 => 0
  | m + 1 => sumTo f m + f m

theorem sumTo_succ' (f : Nat → Int) : ∀ m, sumTo f (m + 1) = f 0 + sumTo (fun t => f (t + 1)) m
  | 0 => by simp [sumTo]
  | m + 1 => by rw [sumTo, sumTo_succ' f m, sumTo]; ring

theorem sumTo_mul (c : Int) (f : Nat → Int) : ∀ m, sumTo (fun t => c * f t) m = c * sumTo f m
  | 0 => by simp [sumTo]
  | m + 1 => by rw [sumTo, sumTo_mul c f m, sumTo]; ring

theorem sumTo_add (f g : Nat → Int) : ∀ m, sumTo (fun t => f t + g t) m = sumTo f m + sumTo g m
  | 0 => by simp [sumTo]
  | m + 1 => by rw [sumTo, sumTo_add f g m, sumTo, sumTo]; ring

theorem sumTo_congr {f g : Nat → Int} : ∀ m, (∀ t, t < m → f t = g t) → sumTo f m = sumTo g m
  | 0, _ => rfl
  | m + 1, h => by rw [sumTo, sumTo, sumTo_congr m (fun t ht => h t (by omega)), h m (by omega)]

/-- a digit list of length 2m, split into even and odd positions (radix 16 → radix 256) -/
theorem digitsValue_even_odd : ∀ (m : Nat) (ds : List Int), ds.length = 2 * m →
    digitsValue 16 ds = sumTo (fun t => ds.getD (0 + 2 * t) 0 * 256 ^ t) m
      + 16 * sumTo (fun t => ds.getD (1 + 2 * t) 0 * 256 ^ t) m
  | 0, ds, h => by
    have : ds = [] := List.length_eq_zero_iff.1 (by omega)
    subst this; simp [sumTo, digitsValue]
  | m + 1, ds, h => by
    match ds, h with
    | a :: b :: rest, h =>
      have ih := digitsValue_even_odd m rest (by simp at h; omega)
      rw [sumTo_succ', sumTo_succ']
      have e1 : sumTo (fun t => (a :: b :: rest).getD (0 + 2 * (t + 1)) 0 * 256 ^ (t + 1)) m
          = 256 * sumTo (fun t => rest.getD (0 + 2 * t) 0 * 256 ^ t) m := by
        rw [← sumTo_mul]; apply sumTo_congr; intro t _
        have : 0 + 2 * (t + 1) = (0 + 2 * t) + 1 + 1 := by omega
        rw [this, List.getD_cons_succ, List.getD_cons_succ, pow_succ]; ring
      have e2 : sumTo (fun t => (a :: b :: rest).getD (1 + 2 * (t + 1)) 0 * 256 ^ (t + 1)) m
          = 256 * sumTo (fun t => rest.getD (1 + 2 * t) 0 * 256 ^ t) m := by
        rw [← sumTo_mul]; apply sumTo_congr; intro t _
        have : 1 + 2 * (t + 1) = (1 + 2 * t) + 1 + 1 := by omega
        rw [this, List.getD_cons_succ, List.getD_cons_succ, pow_succ]; ring
      rw [e1, e2]
      simp only [digitsValue, ih]
      simp
      ring

section
variable {ops : GroupOps C} {Rep : C → G → Prop} (R : Respects ops Rep)
include R

/-! ### edwards448 `ScalarMult` -/

/-- variable-base multiplication: the result represents `(Σ dᵢ·16ⁱ)·Q` for every non-empty digit
    list with digits in [−8, 8] (goat: 112 digits from `signedRadix16`) -/
theorem ed448ScalarMult_rep {q : C} {x : G} (hq : Rep q x) (digits : List Int) (hne : digits ≠ [])
    (hd : ∀ d ∈ digits, -8 ≤ d ∧ d ≤ 8) :
    Rep (ed448ScalarMult ops digits q) (digitsValue 16 digits • x) := by
  unfold ed448ScalarMult
  have hsel : ∀ d, -8 ≤ d → d ≤ 8 → Rep (lookupSelect8 ops (lookupInit8 ops q) d) (d • x) :=
    fun d h1 h2 => lookupSelect8_rep R (lookupInit8_rep R hq) d h1 h2
  cases hrev : digits.reverse with
  | nil => exact absurd (List.reverse_eq_nil_iff.1 hrev) hne
  | cons top rest =>
    have hdig : digits = rest.reverse ++ [top] := by
      have := congrArg List.reverse hrev
      simpa using this
    have htop := hd top (by rw [hdig]; simp)
    have hrest : ∀ d ∈ rest, -8 ≤ d ∧ d ≤ 8 := fun d h => hd d (by rw [hdig]; simp [h])
    have h0 := R.add R.zero (hsel top htop.1 htop.2)
    have := horner_rep R hsel rest _ _ h0 hrest
    refine R.cast this ?_
    rw [hdig, digitsValue_append, List.length_reverse]
    simp only [digitsValue]
    module

/-! ### edwards448 `ScalarBaseMult` -/

/-- one of the two accumulation loops (`start` = 1: odd digits, `start` = 0: even digits) -/
theorem baseLoop_rep {sel : Nat → Int → C} {x : G} (digits : List Int) (start : Nat) (hs : start ≤ 1)
    (M : Nat) (hsel : ∀ t d, t < M → -8 ≤ d → d ≤ 8 → Rep (sel t d) ((d * 256 ^ t) • x))
    (hd : ∀ i, -8 ≤ digits.getD i 0 ∧ digits.getD i 0 ≤ 8) :
    ∀ (m : Nat), m ≤ M → ∀ (v : C) (z : G), Rep v z →
      Rep ((List.range' start m 2).foldl (fun v i => ops.add v (sel (i / 2) (digits.getD i 0))) v)
        (z + sumTo (fun t => digits.getD (start + 2 * t) 0 * 256 ^ t) m • x)
  | 0, _, v, z, hv => by simpa [sumTo] using hv
  | m + 1, hm, v, z, hv => by
    rw [List.range'_concat, List.foldl_append]
    have ih := baseLoop_rep digits start hs M hsel hd m (by omega) v z hv
    simp only [List.foldl_cons, List.foldl_nil]
    have hidx : (start + 2 * m) / 2 = m := by omega
    rw [hidx]
    have h := hd (start + 2 * m)
    refine R.cast (R.add ih (hsel m _ (by omega) h.1 h.2)) ?_
    rw [sumTo]
    module

/-- `ScalarBaseMult` for any selection function with `sel t d` representing `(d·256ᵗ)·B`:
    odd digits, four self-additions (×16), even digits -/
theorem ed448ScalarBaseMult_rep {sel : Nat → Int → C} {x : G}
    (hsel : ∀ t d, t < 56 → -8 ≤ d → d ≤ 8 → Rep (sel t d) ((d * 256 ^ t) • x))
    (digits : List Int) (hlen : digits.length = 112) (hd : ∀ d ∈ digits, -8 ≤ d ∧ d ≤ 8) :
    Rep (ed448ScalarBaseMult ops sel digits) (digitsValue 16 digits • x) := by
  have hd' : ∀ i, -8 ≤ digits.getD i 0 ∧ digits.getD i 0 ≤ 8 := by
    intro i
    by_cases hi : i < digits.length
    · rw [List.getD_eq_getElem?_getD, List.getElem?_eq_getElem hi]; exact hd _ (List.getElem_mem hi)
    · rw [List.getD_eq_getElem?_getD, List.getElem?_eq_none (by omega)]; simp
  unfold ed448ScalarBaseMult
  have h1 := baseLoop_rep R digits 1 (by omega) 56 hsel hd' 56 (by omega) _ _ R.zero
  have h2 := R.addSelf4 h1
  have h3 := baseLoop_rep R digits 0 (by omega) 56 hsel hd' 56 (by omega) _ _ h2
  refine R.cast h3 ?_
  rw [digitsValue_even_odd 56 digits (by omega)]
  module

/-! ### the real table: `basepointTable` -/

/-- table `j` of `basepointTable` is `lookupTable.Init` of a point representing `256ʲ·B` -/
theorem basepointTable_rep : ∀ (n : Nat) (p : C) (z : G), Rep p z → ∀ j, j < n →
    ∃ pj, (basepointTable ops n p).getD j [] = lookupInit8 ops pj ∧ Rep pj (((256 : ℤ) ^ j) • z)
  | 0, _, _, _, j, hj => by omega
  | n + 1, p, z, hp, 0, _ => ⟨p, rfl, R.cast hp (by simp)⟩
  | n + 1, p, z, hp, j + 1, hj => by
    obtain ⟨pj, h1, h2⟩ := basepointTable_rep n _ _ (R.addSelf8 hp) j (by omega)
    refine ⟨pj, by simpa [basepointTable] using h1, R.cast h2 ?_⟩
    rw [pow_succ]; module

theorem basepointSel_rep {b : C} {x : G} (hb : Rep b x) (t : Nat) (d : Int) (ht : t < 56)
    (h1 : -8 ≤ d) (h2 : d ≤ 8) :
    Rep (basepointSel ops (basepointTable ops 56 b) t d) ((d * 256 ^ t) • x) := by
  obtain ⟨pj, e, hpj⟩ := basepointTable_rep R 56 b x hb t ht
  unfold basepointSel
  rw [e]
  exact R.cast (lookupSelect8_rep R (lookupInit8_rep R hpj) d h1 h2) (by module)

/-- fixed-base multiplication on the table goat builds -/
theorem ed448ScalarBaseMultB_rep {b : C} {x : G} (hb : Rep b x)
    (digits : List Int) (hlen : digits.length = 112) (hd : ∀ d ∈ digits, -8 ≤ d ∧ d ≤ 8) :
    Rep (ed448ScalarBaseMultB ops digits b) (digitsValue 16 digits • x) :=
  ed448ScalarBaseMult_rep R (fun t d ht h1 h2 => basepointSel_rep R hb t d ht h1 h2) digits hlen hd

end

end Model.WindowMul
