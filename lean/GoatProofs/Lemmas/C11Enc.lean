import GoatProofs.Lemmas.C11Fields
/-
C11 — the encoder: every row's value sits under the row's own member name; nothing else changes.
-/
namespace C11
open Model.HeaderTable Model.Header

theorem encodeRows_other (o : Oracle) (h : Header) (rows : List Row) (obj0 obj : List (String × Wire))
    (hrun : (encodeRows h rows obj0).run o = .ok obj) (k : String) (hk : ∀ r ∈ rows, r.key ≠ k) :
    Wire.lookup k obj = Wire.lookup k obj0 := by
  induction rows generalizing obj0 with
  | nil => simp [encodeRows] at hrun; rw [← hrun]
  | cons r rs ih =>
    unfold encodeRows at hrun
    obtain ⟨v, _, hrun⟩ := PO.run_bind_eq_ok _ _ _ _ hrun
    have hrs : ∀ r' ∈ rs, r'.key ≠ k := fun r' hr' => hk r' (List.mem_cons_of_mem _ hr')
    have hr : r.key ≠ k := hk r (List.mem_cons_self ..)
    cases v with
    | none => exact ih obj0 hrun hrs
    | some w =>
      rw [ih _ hrun hrs, lookup_objSet]
      have : ¬ k = r.key := fun e => hr e.symm
      simp [this]

/-- what the encoder leaves under a row's member name -/
def emitted (v : Option Wire) (old : Option Wire) : Option Wire :=
  match v with
  | some w => some w
  | none => old

theorem encodeRows_lookup (o : Oracle) (h : Header) (rows : List Row) (obj0 obj : List (String × Wire))
    (hrun : (encodeRows h rows obj0).run o = .ok obj) (hd : distinct (rows.map (·.key)) = true) :
    ∀ r ∈ rows, ∃ v, (emit h r).run o = .ok v ∧
      Wire.lookup r.key obj = emitted v (Wire.lookup r.key obj0) := by
  induction rows generalizing obj0 with
  | nil => intro r hr; cases hr
  | cons r rs ih =>
    unfold encodeRows at hrun
    obtain ⟨v, hv, hrun⟩ := PO.run_bind_eq_ok _ _ _ _ hrun
    simp only [List.map_cons, distinct, Bool.and_eq_true, Bool.not_eq_true', List.contains_eq_mem,
      decide_eq_false_iff_not, List.mem_map, not_exists, not_and] at hd
    have hne : ∀ r' ∈ rs, r'.key ≠ r.key := fun r' hr' => hd.1 r' hr'
    intro r' hr'
    rcases List.mem_cons.1 hr' with e | hin
    · subst e
      refine ⟨v, hv, ?_⟩
      cases v with
      | none => simpa [emitted] using encodeRows_other o h rs obj0 obj hrun _ hne
      | some w =>
        rw [encodeRows_other o h rs _ obj hrun _ hne, lookup_objSet]
        simp [emitted]
    · cases v with
      | none => exact ih obj0 hrun hd.2 r' hin
      | some w =>
        obtain ⟨v', hv', hl⟩ := ih _ hrun hd.2 r' hin
        refine ⟨v', hv', ?_⟩
        rw [hl, lookup_objSet]
        simp [hne r' hin]

end C11
