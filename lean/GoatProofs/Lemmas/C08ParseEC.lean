import GoatProofs.Lemmas.C08Lookup
/-
Parsing an object that has the registered members of the spec encoding: common part and EC.
-/
namespace C08
open Model.JWK Spec.IANA Gen.Consts

def CP.toSpec (cp : CP) : Params :=
  { kid := cp.kid, use := cp.use, keyOps := cp.keyOps, alg := cp.alg, x5u := cp.x5u,
    x5c := if cp.certs = [] then none else some (cp.certs.map Cert.raw),
    x5t := cp.x5t, x5tS256 := cp.x5t256 }

/-- `extras` holds unregistered members only -/
def Clean (extras : Obj) : Prop := ∀ n ∈ registeredMembers, Wire.lookup n extras = none

/-- `m` has the registered members of the spec encoding (any further members are free) -/
def HasMembers (o : Oracle) (m : Obj) (mat : KeyMaterial) (cp : CP) (extras : Obj) : Prop :=
  ∀ n ∈ registeredMembers, Wire.lookup n m = Wire.lookup n (specEncode (encS o) (encStdS o) mat cp.toSpec extras)

theorem commonView_of_members (o : Oracle) (m : Obj) (mat : KeyMaterial) (cp : CP) (extras : Obj)
    (hm : HasMembers o m mat cp extras) (hc : Clean extras) : CommonView o m mat.kty cp := by
  obtain ⟨p1, p2, p3, p4, p5, p6, p7, p8⟩ := lookup_params (encS o) (encStdS o) cp.toSpec
  have reg : ∀ n, n ∈ registeredMembers → Wire.lookup n extras = none := hc
  constructor
  · rw [hm "kty" (by decide), lookup_spec_kty]
  · rw [hm "kid" (by decide), lookup_spec_param _ _ _ _ _ _ (by decide), p1, reg "kid" (by decide)]; simp [CP.toSpec]
  · rw [hm "use" (by decide), lookup_spec_param _ _ _ _ _ _ (by decide), p2, reg "use" (by decide)]; simp [CP.toSpec]
  · rw [hm "key_ops" (by decide), lookup_spec_param _ _ _ _ _ _ (by decide), p3, reg "key_ops" (by decide)]; simp [CP.toSpec]
  · rw [hm "alg" (by decide), lookup_spec_param _ _ _ _ _ _ (by decide), p4, reg "alg" (by decide)]; simp [CP.toSpec]
  · rw [hm "x5u" (by decide), lookup_spec_param _ _ _ _ _ _ (by decide), p5, reg "x5u" (by decide)]; simp [CP.toSpec]
  · rw [hm "x5c" (by decide), lookup_spec_param _ _ _ _ _ _ (by decide), p6, reg "x5c" (by decide)]
    by_cases h : cp.certs = [] <;> simp [CP.toSpec, h, List.map_map, Function.comp_def]
  · rw [hm "x5t" (by decide), lookup_spec_param _ _ _ _ _ _ (by decide), p7, reg "x5t" (by decide)]; simp [CP.toSpec]
  · rw [hm "x5t#S256" (by decide), lookup_spec_param _ _ _ _ _ _ (by decide), p8, reg "x5t#S256" (by decide)]; simp [CP.toSpec]

/-! ## EC -/

def specCurve : GoCurve → Option ECCurve
  | .p256 => some .p256 | .p384 => some .p384 | .p521 => some .p521 | .secp256k1 => some .secp256k1
  | .other => none

theorem curve_facts (c : GoCurve) (sc : ECCurve) (h : specCurve c = some sc) :
    c.name = sc.name ∧ c.size = sc.coordLen ∧ curveOfCrv sc.name = some c ∧ c ≠ .other := by
  cases c <;> simp [specCurve] at h <;> subst h <;> decide

/-- the validation oracles accept the key (x, y, d) on curve c -/
structure EcOK (o : Oracle) (c : GoCurve) (x y : Nat) (d : Option Nat) : Prop where
  x0 : x ≠ 0
  y0 : y ≠ 0
  on : o ⟨"jwk.curve.isOnCurve", [.str c.name, .int x, .int y]⟩ = .bool true
  xs : x < 256 ^ c.size
  ys : y < 256 ^ c.size
  priv : ∀ dv, d = some dv → 0 < dv ∧ (dv : Int) < (o ⟨"jwk.curve.order", [.str c.name]⟩).asInt ∧
    o ⟨"jwk.curve.scalarBaseMult", [.str c.name, .int dv]⟩ = .arr [.int x, .int y] ∧ dv < 256 ^ c.size

theorem run_validateEcPub (o : Oracle) (c : GoCurve) (x y : Nat) (d : Option Nat) (hc : c ≠ .other)
    (E : EcOK o c x y d) : (validateEcPub ⟨c, x, y⟩).run o = .ok () := by
  have hx : ¬ ((x : Int) = 0 ∨ (y : Int) = 0) := by
    have := E.x0; have := E.y0; omega
  cases c <;> simp_all [validateEcPub, isOnCurve, E.on, Wire.asBool]
  all_goals (have := E.on; simp_all [Wire.asBool])

theorem run_validateEcPriv (o : Oracle) (c : GoCurve) (x y dv : Nat) (hc : c ≠ .other)
    (E : EcOK o c x y (some dv)) : (validateEcPriv ⟨c, x, y⟩ (some (dv : Int))).run o = .ok () := by
  obtain ⟨h1, h2, h3, _⟩ := E.priv dv rfl
  have hd : dv ≠ 0 := by omega
  have hn : ¬ ((o ⟨"jwk.curve.order", [.str c.name]⟩).asInt ≤ (dv : Int)) := by omega
  simp [validateEcPriv, run_validateEcPub o c x y _ hc E, hd, curveOrder, hn, scalarBaseMult, h3]

/-- the key `parseEcdsaKey` builds -/
def ecKey (base : Key) (c : GoCurve) (x y : Nat) (d : Option Nat) : Key :=
  { base with pub := .ecdsa ⟨c, x, y⟩,
              priv := match d with | some dv => .ecdsa ⟨c, x, y⟩ (some (dv : Int)) | none => .none }

theorem parse_ec (o : Oracle) (L : Laws o) (m extras : Obj) (cp : CP) (c : GoCurve) (sc : ECCurve)
    (hsc : specCurve c = some sc) (x y : Nat) (d : Option Nat)
    (hm : HasMembers o m (.ec sc x y d) cp extras) (hcl : Clean extras)
    (K : CommonOK o cp) (E : EcOK o c x y d)
    (hcert : ∀ c0, cp.certs.head? = some c0 → c0.pub = .ecdsa ⟨c, x, y⟩) :
    (parseMap m).run o = .ok (ecKey (cp.key m jwa.EC) c x y d) := by
  obtain ⟨hname, hsize, hcrv, hne⟩ := curve_facts c sc hsc
  have V := commonView_of_members o m _ cp extras hm hcl
  have hdc := run_decodeCommon o L m _ cp V K
  have reg : ∀ n, n ∈ registeredMembers → Wire.lookup n extras = none := hcl
  have lcrv : Wire.lookup "crv" m = some (.str sc.name) := by
    rw [hm "crv" (by decide), lookup_spec_mat _ _ _ _ _ _ (by decide)]
    simp [materialMembers, Wire.lookup, mCrv]
  have lx : Wire.lookup "x" m = some (.str (encS o (Bytes.encodeBE c.size x))) := by
    rw [hm "x" (by decide), lookup_spec_mat _ _ _ _ _ _ (by decide)]
    simp [materialMembers, Wire.lookup, mCrv, mX, i2osp_eq, hsize]
  have ly : Wire.lookup "y" m = some (.str (encS o (Bytes.encodeBE c.size y))) := by
    rw [hm "y" (by decide), lookup_spec_mat _ _ _ _ _ _ (by decide)]
    simp [materialMembers, Wire.lookup, mCrv, mX, mY, i2osp_eq, hsize]
  have ld : Wire.lookup "d" m = (d.map fun dv => Bytes.encodeBE c.size dv).map (fun b => Wire.str (encS o b)) := by
    rw [hm "d" (by decide), lookup_spec_mat _ _ _ _ _ _ (by decide)]
    cases d <;> simp [materialMembers, Wire.lookup, mCrv, mX, mY, mD, i2osp_eq, hsize, lookup_append, lookup_optMember, optMember, reg "d" (by decide)]
  have hcm : (certMatches (.ecdsa ⟨c, x, y⟩) (cp.key m jwa.EC).x5c).run o = .ok () := by
    unfold certMatches CP.key
    by_cases he : cp.certs = []
    · simp [he]
    · cases hcs : cp.certs with
      | nil => exact absurd hcs he
      | cons c0 rest =>
        have := hcert c0 (by simp [hcs])
        simp [this]
  have hkty : (cp.key m (KeyMaterial.ec sc x y d).kty).kty = jwa.EC := rfl
  unfold parseMap
  simp only [PO.run_bind, hdc]
  have e1 : ((cp.key m (KeyMaterial.ec sc x y d).kty).kty == jwa.EC) = true := by simp [hkty]
  simp only [e1, if_true]
  unfold parseEc
  simp only [PO.run_bind, run_mustString o m "crv" _ lcrv, hcrv, run_mustBigInt o L m "x" _ lx,
    run_mustBigInt o L m "y" _ ly, decodeBE_encodeBE _ _ E.xs, decodeBE_encodeBE _ _ E.ys,
    run_validateEcPub o c x y d hne E, run_getBigInt_opt o L m "d" _ ld]
  cases d with
  | none =>
    have : (KeyMaterial.ec sc x y none).kty = jwa.EC := rfl
    simp [hcm, ecKey, this]
  | some dv =>
    obtain ⟨_, _, _, hds⟩ := E.priv dv rfl
    have : (KeyMaterial.ec sc x y (some dv)).kty = jwa.EC := rfl
    simp [decodeBE_encodeBE _ _ hds, run_validateEcPriv o c x y dv hne E, hcm, ecKey, this]

end C08
