import Goat.Model.NumericDate
import GoatProofs.Lemmas.C07NoPanic
/-
C07: `NumericDate.UnmarshalJSON` (model of C04/C10, Goat/Model/NumericDate.lean, read-only here)
never reaches math/big's ErrNaN panic: the only NaN-producing operations of big.Float are ∞−∞, 0·∞,
0/0, ∞/∞; `scan` multiplies / divides a finite non-zero value by a power of five that is finite
positive or +∞, `Sub(z, sec)` subtracts a finite value, `Mul(·, 1e9)` multiplies by a finite
non-zero value.
-/
namespace C07.ND
open Model.NumericDate

/-- finite with a positive mantissa and a non-negative binary exponent, or ±∞ -/
def Pos : BF → Prop
  | .fin _ m e => 0 < m ∧ 0 ≤ e
  | .inf _ => True
  | _ => False

theorem norm_ne_nan (p : Nat) (neg : Bool) (m : Nat) (e : Int) (s : Bool) : norm p neg m e s ≠ .nan := by
  unfold norm
  split
  · intro h; cases h
  · split
    · intro h; cases h
    · split
      · intro h; cases h
      · simp only []
        split <;> (intro h; cases h)

theorem bitlen_pos {m : Nat} (h : 0 < m) : 0 < bitlen m := by
  unfold bitlen; rw [if_neg (Nat.pos_iff_ne_zero.mp h)]; omega

theorem pow_bitlen_pred_le {m : Nat} (h : 0 < m) : 2 ^ (bitlen m - 1) ≤ m := by
  unfold bitlen; rw [if_neg (Nat.pos_iff_ne_zero.mp h)]
  simpa using Nat.log2_self_le (Nat.pos_iff_ne_zero.mp h)

theorem rne_pos (p m : Nat) (e : Int) (s : Bool) (hm : 0 < m) (he : 0 ≤ e) (hp : 1 ≤ p) :
    0 < (rne p m e s).1 ∧ 0 ≤ (rne p m e s).2 := by
  unfold rne
  simp only []
  split
  · exact ⟨hm, he⟩
  · rename_i hb
    have hb' : p < bitlen m := Nat.lt_of_not_le hb
    have hr : bitlen m - p ≤ bitlen m - 1 := by omega
    have hhi : 0 < m / 2 ^ (bitlen m - p) := by
      apply Nat.div_pos _ (Nat.pow_pos (by decide))
      exact Nat.le_trans (Nat.pow_le_pow_right (by decide) hr) (pow_bitlen_pred_le hm)
    split
    · exact ⟨Nat.succ_pos _, by omega⟩
    · exact ⟨hhi, by omega⟩

theorem norm_pos (p : Nat) (neg : Bool) (m : Nat) (e : Int) (s : Bool) (hm : 0 < m) (he : 0 ≤ e)
    (hp : 1 ≤ p) : Pos (norm p neg m e s) := by
  unfold norm
  rw [if_neg (Nat.pos_iff_ne_zero.mp hm)]
  have hge : ¬ goExp m e < minExp := by
    unfold goExp minExp
    have := bitlen_pos hm
    omega
  rw [if_neg hge]
  split
  · trivial
  · simp only []
    split
    · trivial
    · exact rne_pos p m e s hm he hp

theorem mul_pos {a b : BF} (p : Nat) (hp : 1 ≤ p) (ha : Pos a) (hb : Pos b) : Pos (mul p a b) := by
  cases a <;> cases b <;> simp only [Pos] at ha hb <;> simp only [mul]
  case fin.fin nx mx ex ny my ey =>
    exact norm_pos p _ _ _ _ (Nat.mul_pos ha.1 hb.1) (by omega) hp
  all_goals trivial

theorem pow5Loop_pos (pz : Nat) (hp : 1 ≤ pz) : ∀ (fuel n : Nat) (z f : BF), Pos z → Pos f →
    Pos (pow5Loop pz fuel n z f)
  | 0, _, z, _, hz, _ => by unfold pow5Loop; exact hz
  | fuel + 1, n, z, f, hz, hf => by
    unfold pow5Loop
    split
    · exact hz
    · simp only []
      apply pow5Loop_pos pz hp fuel
      · split
        · exact mul_pos pz hp hz hf
        · exact hz
      · exact mul_pos (pz + 64) (by omega) hf hf

theorem pow5_pos (pz : Nat) (hp : 1 ≤ pz) (n : Nat) : Pos (pow5 pz n) := by
  unfold pow5
  split
  · exact ⟨Nat.pow_pos (by decide), Int.le_refl 0⟩
  · exact pow5Loop_pos pz hp _ _ _ _ ⟨Nat.pow_pos (by decide), Int.le_refl 0⟩ ⟨by decide, Int.le_refl 0⟩

theorem pos_ne_nan {b : BF} (h : Pos b) : b ≠ .nan := by
  intro e; rw [e] at h; exact h

theorem mul_fin_ne_nan (p : Nat) (n : Bool) (m : Nat) (e : Int) {y : BF} (hy : y ≠ .nan)
    (hy0 : ∀ s, y ≠ .zero s ∨ True) : (∀ s, y ≠ .inf s ∨ True) → mul p (.fin n m e) y ≠ .nan := by
  intro _
  cases y <;> simp only [mul]
  case nan => exact absurd rfl hy
  case fin => exact norm_ne_nan _ _ _ _ _
  all_goals (intro h; cases h)

theorem quo_fin_ne_nan (p : Nat) (n : Bool) (m : Nat) (e : Int) {y : BF} (hy : y ≠ .nan) :
    quo p (.fin n m e) y ≠ .nan := by
  cases y <;> simp only [quo]
  case nan => exact absurd rfl hy
  case fin => exact norm_ne_nan _ _ _ _ _
  all_goals (intro h; cases h)

theorem scan_ne_nan (l : Lit) (z : BF) (h : scan 128 l = some z) : z ≠ .nan := by
  unfold scan at h
  split at h
  · cases h; intro e; cases e
  · simp only [] at h
    split at h
    · cases h
    · split at h
      · cases h; exact norm_ne_nan _ _ _ _ _
      · have hp := pos_ne_nan (pow5_pos (128 + 64) (by decide) (l.exp - l.fd).natAbs)
        split at h
        · cases h; exact quo_fin_ne_nan _ _ _ _ hp
        · cases h; exact mul_fin_ne_nan _ _ _ _ hp (fun _ => Or.inr trivial) (fun _ => Or.inr trivial)

theorem ofInt_cases (i : Int) : (∃ s, ofInt i = .zero s) ∨ (∃ n m e, ofInt i = .fin n m e) := by
  unfold ofInt
  split
  · exact Or.inl ⟨_, rfl⟩
  · exact Or.inr ⟨_, _, _, rfl⟩

theorem sub_ne_nan (z : BF) (hz : z ≠ .nan) (i : Int) : sub 128 z (ofInt i) ≠ .nan := by
  rcases ofInt_cases i with ⟨s, hs⟩ | ⟨n, m, e, hs⟩ <;> rw [hs]
  · cases z <;> simp only [sub]
    case nan => exact absurd rfl hz
    all_goals (intro h; cases h)
  · cases z <;> simp only [sub]
    case nan => exact absurd rfl hz
    case fin nx mx ex =>
      repeat' split
      all_goals first | exact norm_ne_nan _ _ _ _ _ | (intro h; cases h)
    case zero s => simp only [BF.negate]; intro h; cases h
    all_goals (intro h; cases h)

theorem mul_e9_ne_nan (x : BF) (hx : x ≠ .nan) : mul 128 x (ofInt e9) ≠ .nan := by
  have : ofInt e9 = .fin false 1000000000 0 := by decide
  rw [this]
  cases x <;> simp only [mul]
  case nan => exact absurd rfl hx
  case fin => exact norm_ne_nan _ _ _ _ _
  all_goals (intro h; cases h)

theorem fracNs_ne_nan (z : BF) (hz : z ≠ .nan) (sec : Int) : fracNs z sec ≠ .nan := by
  unfold fracNs
  exact mul_e9_ne_nan _ (sub_ne_nan z hz sec)

theorem gate_np (a b : Int) : (gate a b).NoPanic := by
  unfold gate
  split
  · exact Outcome.NoPanic.err _
  · exact Outcome.NoPanic.ok _

theorem carry_np (a b : Int) : (carry a b).NoPanic := by
  unfold carry; exact gate_np _ _

theorem decodeLit_np (l : Lit) : (decodeLit l).NoPanic := by
  unfold decodeLit
  split
  · exact Outcome.NoPanic.err _
  · rename_i z hz
    split
    · exact gate_np _ _
    · split
      · rename_i hnan; exact absurd hnan (fracNs_ne_nan z (scan_ne_nan l z hz) _)
      · exact carry_np _ _

/-- **NumericDate.UnmarshalJSON never panics**: the hypothesis `hnd` of the C07 theorems holds -/
theorem decode_noPanic (s : String) : (decode s).NoPanic := by
  unfold decode decodeChars
  split
  · exact Outcome.NoPanic.err _
  · exact Outcome.NoPanic.bind (decodeLit_np _) (fun _ => Outcome.NoPanic.ok _)

end C07.ND
