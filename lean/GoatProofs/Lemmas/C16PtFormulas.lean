import GoatProofs.Lemmas.C16PtField
/-
The projective formulas of edwards448.go as identities in an arbitrary field, relative to the
textbook affine law.  Pure algebra: no limbs, no curve constant value.
-/
namespace C16Pt

/-- `Point.Add` (add-2008-bbjlp shape without the T coordinate), X1 = x1·Z1 … :
    X3 = x3·Z3, Y3 = y3·Z3, Z3 ≠ 0, given that the denominators of the affine law do not vanish -/
theorem add_formula {K : Type} [Field K] (d x1 y1 x2 y2 Z1 Z2 : K) (hz1 : Z1 ≠ 0) (hz2 : Z2 ≠ 0)
    (hp : 1 + d * x1 * x2 * y1 * y2 ≠ 0) (hm : 1 - d * x1 * x2 * y1 * y2 ≠ 0) :
    let X1 := x1 * Z1; let Y1 := y1 * Z1; let X2 := x2 * Z2; let Y2 := y2 * Z2
    let A := Z1 * Z2; let B := A * A; let C := X1 * X2; let D := Y1 * Y2; let E := d * C * D
    let F := B - E; let G := B + E; let H := (X1 + Y1) * (X2 + Y2)
    (H - C - D) * A * F = ((x1 * y2 + y1 * x2) * (1 + d * x1 * x2 * y1 * y2)⁻¹) * (F * G) ∧
    (D - C) * G * A = ((y1 * y2 - x1 * x2) * (1 - d * x1 * x2 * y1 * y2)⁻¹) * (F * G) ∧
    F * G ≠ 0 := by
  intro X1 Y1 X2 Y2 A B C D E F G H
  have hF : F = (Z1 * Z2) ^ 2 * (1 - d * x1 * x2 * y1 * y2) := by simp only [F, B, E, C, D, A, X1, X2, Y1, Y2]; ring
  have hG : G = (Z1 * Z2) ^ 2 * (1 + d * x1 * x2 * y1 * y2) := by simp only [G, B, E, C, D, A, X1, X2, Y1, Y2]; ring
  have hA0 : (Z1 * Z2) ^ 2 ≠ 0 := pow_ne_zero 2 (mul_ne_zero hz1 hz2)
  have hip : (1 + d * x1 * x2 * y1 * y2) * (1 + d * x1 * x2 * y1 * y2)⁻¹ = 1 := mul_inv_cancel₀ hp
  have him : (1 - d * x1 * x2 * y1 * y2) * (1 - d * x1 * x2 * y1 * y2)⁻¹ = 1 := mul_inv_cancel₀ hm
  refine ⟨?_, ?_, ?_⟩
  · rw [hF, hG]; simp only [H, C, D, A, X1, X2, Y1, Y2]
    linear_combination (-((x1 * y2 + y1 * x2) * ((Z1 * Z2) ^ 2) ^ 2 * (1 - d * x1 * x2 * y1 * y2))) * hip
  · rw [hF, hG]; simp only [C, D, A, X1, X2, Y1, Y2]
    linear_combination (-((y1 * y2 - x1 * x2) * ((Z1 * Z2) ^ 2) ^ 2 * (1 + d * x1 * x2 * y1 * y2))) * him
  · rw [hF, hG]; exact mul_ne_zero (mul_ne_zero hA0 hm) (mul_ne_zero hA0 hp)

/-- `Point.Double` (dbl-2008-bbjlp), relative to `a + a` of the affine law -/
theorem double_formula {K : Type} [Field K] (d x y Z : K) (hz : Z ≠ 0)
    (hc : x ^ 2 + y ^ 2 = 1 + d * x ^ 2 * y ^ 2)
    (hp : 1 + d * x * x * y * y ≠ 0) (hm : 1 - d * x * x * y * y ≠ 0) :
    let X := x * Z; let Y := y * Z
    let B := (X + Y) * (X + Y); let C := X * X; let D := Y * Y; let E := C + D; let H := Z * Z
    let J := E - (H + H)
    (B - E) * J = ((x * y + y * x) * (1 + d * x * x * y * y)⁻¹) * (E * J) ∧
    E * (C - D) = ((y * y - x * x) * (1 - d * x * x * y * y)⁻¹) * (E * J) ∧
    E * J ≠ 0 := by
  intro X Y B C D E H J
  have hE : E = Z ^ 2 * (1 + d * x * x * y * y) := by
    simp only [E, C, D, X, Y]; linear_combination (Z ^ 2) * hc
  have hJ : J = -(Z ^ 2 * (1 - d * x * x * y * y)) := by
    simp only [J, E, C, D, H, X, Y]; linear_combination (Z ^ 2) * hc
  have hZ0 : Z ^ 2 ≠ 0 := pow_ne_zero 2 hz
  have hip : (1 + d * x * x * y * y) * (1 + d * x * x * y * y)⁻¹ = 1 := mul_inv_cancel₀ hp
  have him : (1 - d * x * x * y * y) * (1 - d * x * x * y * y)⁻¹ = 1 := mul_inv_cancel₀ hm
  refine ⟨?_, ?_, ?_⟩
  · have hBE : B - E = 2 * x * y * Z ^ 2 := by simp only [B, E, C, D, X, Y]; ring
    rw [hBE, hJ, hE]
    linear_combination ((x * y + y * x) * (Z ^ 2) ^ 2 * (1 - d * x * x * y * y)) * hip
  · have hCD : C - D = (x * x - y * y) * Z ^ 2 := by simp only [C, D, X, Y]; ring
    rw [hCD, hJ, hE]
    linear_combination ((y * y - x * x) * (Z ^ 2) ^ 2 * (1 + d * x * x * y * y)) * him
  · rw [hJ, hE]; exact mul_ne_zero (mul_ne_zero hZ0 hp) (neg_ne_zero.mpr (mul_ne_zero hZ0 hm))

end C16Pt
