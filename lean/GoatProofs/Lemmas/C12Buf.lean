import Goat.Model.KW.GoBuf
import Goat.Spec.RFC3394
/-
Helper lemmas for C12: the layout  a(8) ‖ b(8) ‖ R[1] ‖ … ‖ R[n]  of akw's buffer and what the
Go slice operations (`slice`, `goCopy`) do on it.
-/
namespace C12L
open Spec Model.GoBuf

/-- all blocks have `k` octets -/
def Uniform (k : Nat) (R : List Bytes) : Prop := ∀ r ∈ R, r.length = k

theorem Uniform.tail {k : Nat} {r : Bytes} {R : List Bytes} (h : Uniform k (r :: R)) : Uniform k R :=
  fun x hx => h x (List.mem_cons_of_mem _ hx)

theorem Uniform.head {k : Nat} {r : Bytes} {R : List Bytes} (h : Uniform k (r :: R)) : r.length = k :=
  h r (List.mem_cons_self)

theorem Uniform.set {k : Nat} {R : List Bytes} (h : Uniform k R) (i : Nat) (x : Bytes) (hx : x.length = k) :
    Uniform k (R.set i x) := by
  intro r hr
  rcases List.mem_or_eq_of_mem_set hr with h1 | h1
  · exact h r h1
  · rw [h1]; exact hx

theorem flatten_length {k : Nat} {R : List Bytes} (h : Uniform k R) : R.flatten.length = k * R.length := by
  induction R with
  | nil => simp
  | cons r R ih =>
    simp only [List.flatten_cons, List.length_append, List.length_cons, ih h.tail, h.head, Nat.mul_succ]
    omega

theorem drop_flatten {k : Nat} {R : List Bytes} (h : Uniform k R) (i : Nat) :
    R.flatten.drop (k * i) = (R.drop i).flatten := by
  induction R generalizing i with
  | nil => simp
  | cons r R ih =>
    cases i with
    | zero => simp
    | succ i =>
      simp only [List.flatten_cons, List.drop_succ_cons]
      rw [← ih h.tail i, Nat.mul_succ, List.drop_append, h.head]
      have : List.drop (k * i + k) r = [] := List.drop_of_length_le (by rw [h.head]; omega)
      rw [this]; simp

theorem take_flatten {k : Nat} {R : List Bytes} (h : Uniform k R) (i : Nat) :
    R.flatten.take (k * i) = (R.take i).flatten := by
  induction R generalizing i with
  | nil => simp
  | cons r R ih =>
    cases i with
    | zero => simp
    | succ i =>
      simp only [List.flatten_cons, List.take_succ_cons]
      rw [← ih h.tail i, Nat.mul_succ, List.take_append, h.head]
      have : List.take (k * i + k) r = r := List.take_of_length_le (by rw [h.head]; omega)
      rw [this]; simp

theorem flatten_drop_cons {R : List Bytes} {i : Nat} (hi : i < R.length) :
    (R.drop i).flatten = R.getD i [] ++ (R.drop (i + 1)).flatten := by
  rw [List.drop_eq_getElem_cons hi, List.flatten_cons]
  simp [List.getD_eq_getElem?_getD, hi]

theorem flatten_set {R : List Bytes} {i : Nat} (hi : i < R.length) (x : Bytes) :
    (R.set i x).flatten = (R.take i).flatten ++ x ++ (R.drop (i + 1)).flatten := by
  rw [List.set_eq_take_append_cons_drop, if_pos hi]
  simp [List.flatten_append]

theorem getD_length {k : Nat} {R : List Bytes} (h : Uniform k R) {i : Nat} (hi : i < R.length) :
    (R.getD i []).length = k := by
  rw [List.getD_eq_getElem?_getD]
  simp only [hi, List.getElem?_eq_getElem, Option.getD_some]
  exact h _ (List.getElem_mem hi)

/-- the buffer layout -/
def lay (A B : Bytes) (R : List Bytes) : Bytes := A ++ B ++ R.flatten

theorem lay_length {A B : Bytes} {R : List Bytes} (hA : A.length = 8) (hB : B.length = 8) (hR : Uniform 8 R) :
    (lay A B R).length = 16 + 8 * R.length := by
  simp [lay, hA, hB, flatten_length hR]; omega

theorem slice_lay_a {A B : Bytes} {R : List Bytes} (hA : A.length = 8) : slice (lay A B R) 0 8 = A := by
  simp [slice, lay, List.append_assoc, List.take_left' hA]

theorem slice_lay_b {A B : Bytes} {R : List Bytes} (hA : A.length = 8) (hB : B.length = 8) :
    slice (lay A B R) 8 16 = B := by
  have h16 : (A ++ B).length = 16 := by simp [hA, hB]
  simp only [slice, lay]
  rw [List.take_left' h16, List.drop_left' hA]

theorem slice_lay_ab {A B : Bytes} {R : List Bytes} (hA : A.length = 8) (hB : B.length = 8) :
    slice (lay A B R) 0 16 = A ++ B := by
  have h16 : (A ++ B).length = 16 := by simp [hA, hB]
  simp only [slice, lay, List.drop_zero]
  rw [List.take_left' h16]

/-- `r[i*8:]` (to the end of the buffer) -/
theorem slice_lay_r {A B : Bytes} {R : List Bytes} (hA : A.length = 8) (hB : B.length = 8) (hR : Uniform 8 R)
    (i : Nat) : slice (lay A B R) (16 + 8 * i) (lay A B R).length = (R.drop i).flatten := by
  have h16 : (A ++ B).length = 16 := by simp [hA, hB]
  simp only [slice, List.take_length]
  simp only [lay]
  rw [← List.drop_drop, List.drop_left' h16, drop_flatten hR]

/-- `copy(b, x)` with at least 8 octets available -/
theorem goCopy_lay_b {A B : Bytes} {R : List Bytes} (hA : A.length = 8) (hB : B.length = 8) (src : Bytes)
    (hs : 8 ≤ src.length) : goCopy (lay A B R) 8 16 src = lay A (src.take 8) R := by
  have h16 : (A ++ B).length = 16 := by simp [hA, hB]
  have hm : min (16 - 8) src.length = 8 := by omega
  simp only [goCopy, hm]
  simp only [lay, List.append_assoc]
  rw [List.take_left' hA]
  have : List.drop (8 + 8) (A ++ (B ++ R.flatten)) = R.flatten := by
    rw [← List.append_assoc, List.drop_left' h16]
  rw [this]

/-- `copy(ab, e)` with a 16-octet block -/
theorem goCopy_lay_ab {A B : Bytes} {R : List Bytes} (hA : A.length = 8) (hB : B.length = 8) (e : Bytes)
    (he : e.length = 16) : goCopy (lay A B R) 0 16 e = lay (e.take 8) (e.drop 8) R := by
  have h16 : (A ++ B).length = 16 := by simp [hA, hB]
  have hm : min (16 - 0) e.length = 16 := by omega
  simp only [goCopy, hm, List.take_zero, List.nil_append, Nat.zero_add]
  simp only [lay]
  rw [List.drop_left' h16, List.take_of_length_le (by omega), List.take_append_drop]

/-- `copy(a, x)` with an 8-octet value -/
theorem goCopy_lay_a {A B : Bytes} {R : List Bytes} (hA : A.length = 8) (x : Bytes)
    (hx : x.length = 8) : goCopy (lay A B R) 0 8 x = lay x B R := by
  have hm : min (8 - 0) x.length = 8 := by omega
  simp only [goCopy, hm, List.take_zero, List.nil_append, Nat.zero_add]
  simp only [lay, List.append_assoc]
  rw [List.drop_left' hA, List.take_of_length_le (by omega)]

/-- `copy(r[i*8:], x)` with an 8-octet value, i < n -/
theorem goCopy_lay_r {A B : Bytes} {R : List Bytes} (hA : A.length = 8) (hB : B.length = 8) (hR : Uniform 8 R)
    (i : Nat) (hi : i < R.length) (x : Bytes) (hx : x.length = 8) :
    goCopy (lay A B R) (16 + 8 * i) (lay A B R).length x = lay A B (R.set i x) := by
  have h16 : (A ++ B).length = 16 := by simp [hA, hB]
  have hl := lay_length hA hB hR
  have hm : min ((lay A B R).length - (16 + 8 * i)) x.length = 8 := by rw [hl, hx]; omega
  simp only [goCopy, hm]
  rw [List.take_of_length_le (by omega : x.length ≤ 8)]
  simp only [lay]
  rw [flatten_set hi]
  have h1 : List.take (16 + 8 * i) (A ++ B ++ R.flatten) = A ++ B ++ (R.take i).flatten := by
    rw [List.take_append, h16, List.take_of_length_le (by omega)]
    congr 1
    rw [show 16 + 8 * i - 16 = 8 * i by omega, take_flatten hR]
  have h2 : List.drop (16 + 8 * i + 8) (A ++ B ++ R.flatten) = (R.drop (i + 1)).flatten := by
    rw [show 16 + 8 * i + 8 = 16 + 8 * (i + 1) by omega, ← List.drop_drop, List.drop_left' h16,
      drop_flatten hR]
  rw [h1, h2]
  simp [List.append_assoc]

theorem xorBytes_length (a b : Bytes) : (xorBytes a b).length = min a.length b.length := by
  simp [xorBytes]

theorem xorBytes_cancel (a t : Bytes) (h : a.length ≤ t.length) : xorBytes (xorBytes a t) t = a := by
  induction a generalizing t with
  | nil => simp [xorBytes]
  | cons x a ih =>
    cases t with
    | nil => simp at h
    | cons y t =>
      simp only [xorBytes, List.zipWith_cons_cons]
      have := ih t (by simpa using h)
      simp only [xorBytes] at this
      rw [this, UInt8.xor_assoc, UInt8.xor_self, UInt8.xor_zero]

end C12L

namespace C12L
open Spec Model.GoBuf

/-- `copy(a, x)` with at least 8 octets available -/
theorem goCopy_lay_a_ge {A B : Bytes} {R : List Bytes} (hA : A.length = 8) (x : Bytes)
    (hx : 8 ≤ x.length) : goCopy (lay A B R) 0 8 x = lay (x.take 8) B R := by
  have hm : min (8 - 0) x.length = 8 := by omega
  simp only [goCopy, hm, List.take_zero, List.nil_append, Nat.zero_add]
  simp only [lay, List.append_assoc]
  rw [List.drop_left' hA]

/-- `buf[8:]` -/
theorem slice_lay_tail {A B : Bytes} {R : List Bytes} (hA : A.length = 8) :
    slice (lay A B R) 8 (lay A B R).length = B ++ R.flatten := by
  simp only [slice, List.take_length, lay, List.append_assoc]
  rw [List.drop_left' hA]

/-- `buf[16:]` -/
theorem slice_lay_tail16 {A B : Bytes} {R : List Bytes} (hA : A.length = 8) (hB : B.length = 8) :
    slice (lay A B R) 16 (lay A B R).length = R.flatten := by
  have h16 : (A ++ B).length = 16 := by simp [hA, hB]
  simp only [slice, List.take_length, lay]
  rw [List.drop_left' h16]

/-- `buf := make([]byte, len(x)+16); copy(buf[16:], x)` -/
theorem init_buf (x : Bytes) (m : Nat) (hm : m = x.length + 16) :
    goCopy (List.replicate m 0) 16 (List.replicate m (0 : UInt8)).length x
      = List.replicate 8 0 ++ List.replicate 8 0 ++ x := by
  subst hm
  simp only [goCopy, List.length_replicate]
  have h1 : min (x.length + 16 - 16) x.length = x.length := by omega
  rw [h1, List.take_length, List.take_replicate, List.drop_replicate]
  have h2 : min 16 (x.length + 16) = 16 := by omega
  have h3 : x.length + 16 - (16 + x.length) = 0 := by omega
  rw [h2, h3]
  simp

end C12L
