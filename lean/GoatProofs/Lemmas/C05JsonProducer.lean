import GoatProofs.C05
import GoatProofs.Lemmas.C05Json
/-
C05, JSON serializations, producer side: what goat's constructors establish about a message (`MsgBuilt`,
`RcptBuilt`), MarshalJSON of such a message, and the round trip MarshalJSON → ParseJSON → Decrypt for any
recipient (Lemma B).
-/
namespace GoatProofs.C05
open Model.JWE Gen.Consts

/-- further laws of the standard-library oracles needed for the JSON serializations -/
structure JsonLaws (o : Oracle) : Prop extends Laws o where
  /-- encoding/json on the struct jsonJWE: decoding what Marshal wrote gives the struct back -/
  jsonTop : ∀ top b, o ⟨"jwe.marshalJSON", [top]⟩ = .bytes b → o ⟨"jwe.decodeJSON", [.bytes b]⟩ = top
  /-- base64url of the empty string -/
  b64empty : o ⟨"b64url.dec", [.bytes []]⟩ = .bytes []
  /-- base64url text of a non-empty input is non-empty; a marshalled JSON object is non-empty -/
  b64nonempty : ∀ x, x ≠ [] → (o ⟨"b64url.enc", [.bytes x]⟩).asBytes ≠ []
  jsonNonEmpty : ∀ m b, o ⟨"json.marshal", [.obj m]⟩ = .bytes b → b ≠ []

/-- what the constructors establish about the message itself (everything but the recipients) -/
structure MsgBuilt (o : Oracle) (enc : String) (pt : Bytes) (msg : Message) : Prop where
  unprot : msg.unprotected = none
  aad0 : msg.b64aad = []
  hok : HeaderOK msg.header
  henc : msg.header.enc = enc
  prot : ∃ rawHeader, o ⟨"json.marshal", [.obj (encPure o msg.header)]⟩ = .bytes rawHeader ∧
      msg.b64protected = (o ⟨"b64url.enc", [.bytes rawHeader]⟩).asBytes
  ivs : msg.b64iv = (o ⟨"b64url.enc", [.bytes msg.iv]⟩).asBytes
  ct : msg.b64ciphertext = (o ⟨"b64url.enc", [.bytes msg.ciphertext]⟩).asBytes
  tag : msg.b64tag = (o ⟨"b64url.enc", [.bytes msg.tag]⟩).asBytes
  sealed : ∃ pt', o ⟨"enc.encrypt", [.str enc, .bytes msg.cek, .bytes msg.iv, .bytes msg.b64protected, .bytes pt']⟩ =
        .arr [.bytes msg.ciphertext, .bytes msg.tag] ∧
      (if msg.header.zip = jwa.DEF then o ⟨"deflate", [.bytes pt]⟩ = .bytes pt' else pt' = pt)

/-- the "header" member MarshalJSON emits for a recipient, and the header ParseJSON decodes from it -/
def rcptHdrW (o : Oracle) (r : Recipient) : Wire :=
  match r.header with
  | none => .null
  | some h => mapOrNull (encPure o h)

def rcptHdrParsed (o : Oracle) (r : Recipient) : Header :=
  match r.header with
  | none => {}
  | some h => { h with raw := encPure o h }

def rdescOf (o : Oracle) (r : Recipient) : RDesc :=
  { hw := rcptHdrW o r, h := rcptHdrParsed o r, ek := r.encryptedKey, b64ek := r.b64encryptedKey }

/-- what Encrypt / NewMessageWithKW establish about one recipient, relative to the protected header object -/
structure RcptBuilt (o : Oracle) (protRaw : KVs) (r : Recipient) : Prop where
  b64 : r.b64encryptedKey = (o ⟨"b64url.enc", [.bytes r.encryptedKey]⟩).asBytes
  hdr : ∀ h, r.header = some h → HeaderOK h ∧ h.crit = [] ∧ disjointKeys (encPure o h) protRaw = true

theorem mapOrNull_asObj (m : KVs) : (mapOrNull m).asObj = m := by
  unfold mapOrNull
  cases m <;> simp [Wire.asObj]

theorem decodeHeaderW_mapOrNull (o : Oracle) (m : KVs) :
    (decodeHeaderW (mapOrNull m)).run o = (decodeHeader m).run o := by
  unfold mapOrNull
  cases m <;> simp [decodeHeaderW]

theorem rdescOf_ok (o : Oracle) (L : JsonLaws o) (protRaw : KVs) (r : Recipient) (B : RcptBuilt o protRaw r) :
    RDescOK o protRaw [] (rdescOf o r) := by
  refine ⟨?_, ?_, ?_, ?_⟩
  · cases hh : r.header with
    | none => simp [rdescOf, rcptHdrW, rcptHdrParsed, hh, decodeHeaderW, decodeHeader_nil]
    | some h =>
      obtain ⟨hok, _, _⟩ := B.hdr h hh
      simp only [rdescOf, rcptHdrW, rcptHdrParsed, hh, decodeHeaderW_mapOrNull]
      exact decode_encode o L.toCodecLaws h hok.raw hok.crit hok.p2c hok.epk
  · cases hh : r.header with
    | none => simp [rdescOf, rcptHdrParsed, hh]
    | some h => simp [rdescOf, rcptHdrParsed, hh, (B.hdr h hh).2.1]
  · cases hh : r.header with
    | none => simp [rdescOf, rcptHdrW, hh, Wire.asObj, disjointKeys]
    | some h =>
      have hd := (B.hdr h hh).2.2
      simp only [rdescOf, rcptHdrW, hh, mapOrNull_asObj, hd, Bool.true_and]
      simp [disjointKeys, Wire.lookup]
  · simp only [rdescOf, B.b64]
    exact L.b64 _

theorem encodeRecipients_run (o : Oracle) (rs : List Recipient) :
    (encodeRecipients rs).run o = .ok (rs.map (fun r => (rdescOf o r).toWire)) := by
  induction rs with
  | nil => simp [encodeRecipients]
  | cons r rest ih =>
    simp only [encodeRecipients, PO.run_bind, List.map]
    cases hh : r.header <;>
      simp [rdescOf, rcptHdrW, hh, RDesc.toWire, encodeHeader_run, ih]

/-- the description of the JSON text MarshalJSON emits for a built message -/
def descOf (o : Oracle) (msg : Message) (rawHeader : Bytes) : JDesc :=
  { b64prot := msg.b64protected, protBytes := rawHeader, protRaw := encPure o msg.header,
    hp := { msg.header with raw := encPure o msg.header }, unprotW := .null, hu := {},
    rcpts := msg.recipients.map (rdescOf o), iv := msg.iv, b64iv := msg.b64iv, ct := msg.ciphertext,
    b64ct := msg.b64ciphertext, tag := msg.tag, b64tag := msg.b64tag, aad := [], b64aad := [] }

theorem marshalJSON_parse (o : Oracle) (L : JsonLaws o) (enc : String) (pt : Bytes) (msg : Message)
    (B : MsgBuilt o enc pt msg) (R : ∀ r ∈ msg.recipients, RcptBuilt o (encPure o msg.header) r)
    (data : Bytes) (hm : (marshalJSON msg).run o = .ok data) :
    ∃ rawHeader, (parseJSON data).run o = .ok (descOf o msg rawHeader).toMessage := by
  obtain ⟨rawHeader, hmar, hb64p⟩ := B.prot
  refine ⟨rawHeader, ?_⟩
  unfold marshalJSON at hm
  simp only [B.unprot, PO.run_bind, PO.run_pure, encodeRecipients_run, PO.run_query, B.aad0] at hm
  split at hm
  · rename_i b hq
    simp only [PO.run_pure] at hm
    cases hm
    have htop := L.jsonTop _ _ hq
    apply parseJSON_general o (descOf o msg rawHeader) ?_ data
    · rw [htop]; simp [JDesc.topGeneral, descOf, List.map_map, Function.comp_def]
    · refine ⟨Or.inr ⟨?_, ?_, ?_⟩, ?_, ?_, rfl, ?_, ?_, ?_, ?_, ?_, ?_⟩
      · simp only [descOf, hb64p]; exact L.b64nonempty _ (L.jsonNonEmpty _ _ hmar)
      · simp only [descOf, hb64p]; exact L.b64 _
      · simp [descOf, decodeJSONMap, L.json _ _ hmar]
      · exact decode_encode o L.toCodecLaws msg.header B.hok.raw B.hok.crit B.hok.p2c B.hok.epk
      · simp [descOf, decodeHeaderW, decodeHeader_nil]
      · simp [descOf, disjointKeys, Wire.asObj]
      · simp only [descOf, B.ct]; exact L.b64 _
      · simp only [descOf, B.ivs]; exact L.b64 _
      · simp only [descOf, B.tag]; exact L.b64 _
      · simp only [descOf]; exact L.b64empty
      · intro r hr
        simp only [descOf, List.mem_map] at hr
        obtain ⟨r0, hr0, rfl⟩ := hr
        simpa [descOf, Wire.asObj] using rdescOf_ok o L _ r0 (R r0 hr0)
  · simp at hm


theorem encAvailable_ne_empty (enc : String) (h : encAvailable enc = true) : enc ≠ "" := by
  intro he; subst he; revert h; decide

/-- Lemma B: MarshalJSON → ParseJSON → Decrypt of a built message, for the recipient at any position whose
    wrapper (as returned by the finder for the *parsed* headers) unwraps its encrypted key to the CEK under
    the merged view (shared unprotected = empty, protected, per-recipient). -/
theorem built_json_decrypts (o : Oracle) (L : JsonLaws o) (enc : String) (pt : Bytes) (msg : Message)
    (hav : encAvailable enc = true)
    (B : MsgBuilt o enc pt msg) (R : ∀ r ∈ msg.recipients, RcptBuilt o (encPure o msg.header) r)
    (pre : List Recipient) (r : Recipient) (post : List Recipient) (hsplit : msg.recipients = pre ++ r :: post)
    (kw' : Wire)
    (hpre : ∀ r' ∈ pre, o ⟨"findKeyWrapper", [.obj (encPure o msg.header), .obj [], .obj (rcptHdrParsed o r').raw]⟩ = .none)
    (hfind : o ⟨"findKeyWrapper", [.obj (encPure o msg.header), .obj [], .obj (rcptHdrParsed o r).raw]⟩ = kw')
    (hk : kw'.isNone = false)
    (hun : o ⟨"kw.unwrap", [kw', .bytes r.encryptedKey,
        mergedOpts (some {}) { msg.header with raw := encPure o msg.header } (some (rcptHdrParsed o r))]⟩ = .bytes msg.cek)
    (data : Bytes) (hm : (marshalJSON msg).run o = .ok data) :
    (parseJSON data >>= decrypt).run o = .ok pt := by
  obtain ⟨rawHeader, hp⟩ := marshalJSON_parse o L enc pt msg B R data hm
  obtain ⟨pt', hseal, hzip⟩ := B.sealed
  rw [PO.run_bind, hp]
  simp only
  have hne := encAvailable_ne_empty enc hav
  have hce : ∀ rr, contentEnc (descOf o msg rawHeader).toMessage rr = enc := by
    intro rr
    simp [contentEnc, JDesc.toMessage, descOf, B.henc, hne]
  refine decrypt_at o _ (pre.map (fun x => (rdescOf o x).toRecipient)) (rdescOf o r).toRecipient
    (post.map (fun x => (rdescOf o x).toRecipient)) kw' msg.cek pt' pt ?_ ?_ ?_ hk ?_ (by rw [hce]; exact hav) ?_ ?_
  · simp [JDesc.toMessage, descOf, hsplit, List.map_map, Function.comp_def]
  · intro r' hr'
    simp only [List.mem_map] at hr'
    obtain ⟨r0, hr0, rfl⟩ := hr'
    simpa [C06.finderAnswer, JDesc.toMessage, descOf, hdrW, optHdrW, RDesc.toRecipient, rdescOf] using hpre r0 hr0
  · simpa [C06.finderAnswer, JDesc.toMessage, descOf, hdrW, optHdrW, RDesc.toRecipient, rdescOf] using hfind
  · simpa [C06.unwrapAnswer, JDesc.toMessage, descOf, RDesc.toRecipient, rdescOf] using hun
  · simp only [C06.aeadAnswer, hce]
    have had : authData (descOf o msg rawHeader).toMessage = msg.b64protected := by
      simp [authData, JDesc.toMessage, descOf]
    rw [had]
    simp only [JDesc.toMessage, descOf]
    exact L.aead _ _ _ _ _ _ _ hseal
  · unfold C06.Inflated
    simp only [JDesc.toMessage, descOf]
    by_cases hz : msg.header.zip = jwa.DEF
    · simp only [hz, if_true] at hzip ⊢
      exact L.flate _ _ hzip
    · simp only [hz, if_false] at hzip ⊢
      exact hzip.symm


/-! ## what the constructors establish -/

theorem sealWith_built (o : Oracle) (enc : String) (header : Header) (cek iv rawHeader pt' pt : Bytes)
    (rcpts : List Recipient) (msg : Message) (hok : HeaderOK header) (henc : header.enc = enc)
    (hmar : o ⟨"json.marshal", [.obj (encPure o header)]⟩ = .bytes rawHeader)
    (hz : if header.zip = jwa.DEF then o ⟨"deflate", [.bytes pt]⟩ = .bytes pt' else pt' = pt)
    (h : (sealWith enc header cek iv rawHeader (o ⟨"b64url.enc", [.bytes rawHeader]⟩).asBytes pt' rcpts).run o = .ok msg) :
    MsgBuilt o enc pt msg ∧ msg.recipients = rcpts ∧ msg.header = header ∧ msg.cek = cek := by
  obtain ⟨ct, tag, hseal, hmsg⟩ := sealWith_ok _ _ _ _ _ _ _ _ _ _ h
  subst hmsg
  exact ⟨⟨rfl, rfl, hok, henc, ⟨rawHeader, hmar, rfl⟩, rfl, rfl, rfl, ⟨pt', hseal, hz⟩⟩, rfl, rfl, rfl⟩

theorem headerOK_withEnc (h : Header) (enc : String) (hok : HeaderOK h) : HeaderOK { h with enc := enc } :=
  ⟨hok.raw, hok.crit, hok.p2c, hok.epk⟩

theorem headerOK_applyUpdates (h : Header) (upd : Wire) (hok : HeaderOK h)
    (hp2c : ∀ n, upd.get? "p2c" = some (.int n) → 0 ≤ n) : HeaderOK (applyUpdates h upd) := by
  obtain ⟨f1, f2, f3, _, f5⟩ := applyUpdates_fields h upd
  refine ⟨by rw [f1]; exact hok.raw, by rw [f2]; exact hok.crit, ?_, by rw [f3]; exact hok.epk⟩
  rcases f5 with e | ⟨n, hn, e⟩
  · rw [e]; exact hok.p2c
  · rw [e]; exact hp2c n hn

/-- NewMessage: a built message without recipients -/
theorem newMessage_built (o : Oracle) (enc : String) (prot : Option Header) (pt : Bytes) (msg : Message)
    (hok : HeaderOK (clone prot)) (hgen : CEKSized o enc) (h : (newMessage enc prot pt).run o = .ok msg) :
    encAvailable enc = true ∧ MsgBuilt o enc pt msg ∧ msg.recipients = [] ∧
      msg.header = { clone prot with enc := enc } ∧ 8 ≤ msg.cek.length := by
  unfold newMessage at h
  by_cases hav : encAvailable enc = true
  · simp only [hav, Bool.not_true, Bool.false_eq_true, if_false] at h
    obtain ⟨pt', hcomp, h⟩ := PO.run_bind_eq_ok _ _ _ _ h
    obtain ⟨cek, hcek, h⟩ := PO.run_bind_eq_ok _ _ _ _ h
    obtain ⟨iv, _, h⟩ := PO.run_bind_eq_ok _ _ _ _ h
    obtain ⟨rawHeader, hmar, h⟩ := PO.run_bind_eq_ok _ _ _ _ h
    simp only [b64Encode_run, PO.run_bind] at h
    have hcz := compressIf_ok _ _ _ _ hcomp
    have hz : if ({ clone prot with enc := enc } : Header).zip = jwa.DEF then o ⟨"deflate", [.bytes pt]⟩ = .bytes pt' else pt' = pt := by
      cases prot <;> exact hcz
    obtain ⟨b, r, hh, hc⟩ := sealWith_built o enc _ cek iv rawHeader pt' pt [] msg (headerOK_withEnc _ enc hok) rfl
      (marshalHeader_ok _ _ _ hmar) hz h
    exact ⟨hav, b, r, hh, by rw [hc]; exact hgen _ (generateCEK_ok _ _ _ hcek)⟩
  · simp only [hav, Bool.not_false, if_true] at h
    simp at h

/-- NewMessageWithKW, WrapKey path -/
theorem newMessageWithKW_wrap_built (o : Oracle) (enc : String) (kw : Wire) (prot : Option Header) (pt : Bytes)
    (msg : Message) (hnd : isDeriver kw = false) (hok : HeaderOK (clone prot))
    (hp2c : ∀ cek data upd, 8 ≤ cek.length →
      o ⟨"kw.wrap", [kw, .bytes cek, optsView [some (clone prot)]]⟩ = .arr [.bytes data, upd] →
      ∀ n, upd.get? "p2c" = some (.int n) → 0 ≤ n) (hgen : CEKSized o enc)
    (h : (newMessageWithKW enc kw prot pt).run o = .ok msg) :
    encAvailable enc = true ∧ MsgBuilt o enc pt msg ∧ 8 ≤ msg.cek.length ∧
    ∃ ek upd, o ⟨"kw.wrap", [kw, .bytes msg.cek, optsView [some (clone prot)]]⟩ = .arr [.bytes ek, upd] ∧
      msg.header = { applyUpdates (clone prot) upd with enc := enc } ∧
      msg.recipients = [{ header := none, encryptedKey := ek, b64encryptedKey := (o ⟨"b64url.enc", [.bytes ek]⟩).asBytes }] := by
  unfold newMessageWithKW at h
  by_cases hav : encAvailable enc = true
  · simp only [hav, Bool.not_true, Bool.false_eq_true, if_false, hnd] at h
    obtain ⟨pt', hcomp, h⟩ := PO.run_bind_eq_ok _ _ _ _ h
    obtain ⟨cek, hcek, h⟩ := PO.run_bind_eq_ok _ _ _ _ h
    have hc8 : 8 ≤ cek.length := hgen _ (generateCEK_ok _ _ _ hcek)
    obtain ⟨iv, _, h⟩ := PO.run_bind_eq_ok _ _ _ _ h
    obtain ⟨⟨ek, h1⟩, hwrap, h⟩ := PO.run_bind_eq_ok _ _ _ _ h
    obtain ⟨rawHeader, hmar, h⟩ := PO.run_bind_eq_ok _ _ _ _ h
    simp only [b64Encode_run, PO.run_bind] at h
    obtain ⟨upd, hq, hh1⟩ := kwWrap_ok _ _ _ _ _ _ hwrap
    subst hh1
    have hokf := headerOK_withEnc _ enc (headerOK_applyUpdates _ upd hok (hp2c _ _ _ hc8 hq))
    have hcz := compressIf_ok _ _ _ _ hcomp
    obtain ⟨_, _, _, f4, _⟩ := applyUpdates_fields (clone prot) upd
    have hz : if ({ applyUpdates (clone prot) upd with enc := enc } : Header).zip = jwa.DEF then
        o ⟨"deflate", [.bytes pt]⟩ = .bytes pt' else pt' = pt := by
      simp only [f4]
      cases prot <;> exact hcz
    obtain ⟨b, r, hh, hc⟩ := sealWith_built o enc _ cek iv rawHeader pt' pt _ msg hokf rfl (marshalHeader_ok _ _ _ hmar) hz h
    refine ⟨hav, b, by rw [hc]; exact hc8, ek, upd, ?_, hh, r⟩
    rw [hc]; exact hq
  · simp only [hav, Bool.not_false, if_true] at h
    simp at h

/-- NewMessageWithKW, DeriveKey path -/
theorem newMessageWithKW_derive_built (o : Oracle) (enc : String) (kw : Wire) (prot : Option Header) (pt : Bytes)
    (msg : Message) (hd : isDeriver kw = true) (hok : HeaderOK (clone prot))
    (h : (newMessageWithKW enc kw prot pt).run o = .ok msg) :
    encAvailable enc = true ∧ MsgBuilt o enc pt msg ∧
    ∃ ek, o ⟨"kw.derive", [kw, optsView [some { clone prot with enc := enc }]]⟩ = .arr [.bytes msg.cek, .bytes ek] ∧
      msg.header = { clone prot with enc := enc } ∧
      msg.recipients = [{ header := none, encryptedKey := ek, b64encryptedKey := (o ⟨"b64url.enc", [.bytes ek]⟩).asBytes }] := by
  unfold newMessageWithKW at h
  by_cases hav : encAvailable enc = true
  · simp only [hav, Bool.not_true, Bool.false_eq_true, if_false, hd, if_true] at h
    obtain ⟨pt', hcomp, h⟩ := PO.run_bind_eq_ok _ _ _ _ h
    simp only [PO.run_bind, PO.run_query] at h
    split at h
    · rename_i cek ek hq
      obtain ⟨rawHeader, hmar, h⟩ := PO.run_bind_eq_ok _ _ _ _ h
      simp only [b64Encode_run, PO.run_bind] at h
      cases hg : PO.run o (generateIV enc) with
      | err c => rw [hg] at h; simp at h
      | panic c => rw [hg] at h; simp at h
      | ok iv =>
      rw [hg] at h
      simp only at h
      have hcz := compressIf_ok _ _ _ _ hcomp
      have hz : if ({ clone prot with enc := enc } : Header).zip = jwa.DEF then
          o ⟨"deflate", [.bytes pt]⟩ = .bytes pt' else pt' = pt := by
        cases prot <;> exact hcz
      obtain ⟨b, r, hh, hc⟩ := sealWith_built o enc _ cek iv rawHeader pt' pt _ msg (headerOK_withEnc _ enc hok) rfl
        (marshalHeader_ok _ _ _ hmar) hz h
      refine ⟨hav, b, ek, ?_, hh, r⟩
      rw [hc]; exact hq
    · simp at h
  · simp only [hav, Bool.not_false, if_true] at h
    simp at h

/-- Encrypt: the message is unchanged but for one more recipient -/
theorem encrypt_ok (o : Oracle) (msg : Message) (kw : Wire) (hdr : Option Header) (msg' : Message)
    (h : (encrypt msg kw hdr).run o = .ok msg') :
    ∃ data upd, o ⟨"kw.wrap", [kw, .bytes msg.cek, optsView [some (clone hdr)]]⟩ = .arr [.bytes data, upd] ∧
      msg' = { msg with recipients := msg.recipients ++
        [{ header := some (applyUpdates (clone hdr) upd), encryptedKey := data,
           b64encryptedKey := (o ⟨"b64url.enc", [.bytes data]⟩).asBytes }] } := by
  unfold encrypt at h
  obtain ⟨⟨data, h1⟩, hwrap, h⟩ := PO.run_bind_eq_ok _ _ _ _ h
  obtain ⟨upd, hq, hh1⟩ := kwWrap_ok _ _ _ _ _ _ hwrap
  simp only [b64Encode_run, PO.run_bind, PO.run_pure] at h
  cases h
  subst hh1
  exact ⟨data, upd, hq, rfl⟩


/-! ## key-management laws in the form the JSON serializations need, and the merged views -/

/-- the key-management parameters of an option view (everything but `enc`) -/
def kmView (w : Wire) : List (Option Wire) :=
  [w.get? "epk", w.get? "apu", w.get? "apv", w.get? "iv", w.get? "tag", w.get? "p2s", w.get? "p2c"]

/-- a header that carries none of the key-management parameters -/
structure NoKM (h : Header) : Prop where
  epk : h.epk = none
  apu : h.apu = none
  apv : h.apv = none
  iv : h.iv = none
  tag : h.tag = none
  p2s : h.p2s = none
  p2c : h.p2c = 0

/-- Key-wrap law (RSA1_5, RSA-OAEP*, A*KW, A*GCMKW, PBES2-*, and the key-wrapping step of ECDH-ES+A*KW):
    what the sender's wrapper produced is unwrapped by the recipient's wrapper from ANY option view that
    shows the key-management parameters as they stand after WrapKey — whatever `enc` it shows and
    through whichever headers it is assembled.  A count written by WrapKey is not negative. -/
def WrapLawKM (o : Oracle) (kw kw' : Wire) : Prop :=
  ∀ cek h data upd, 8 ≤ cek.length →
    o ⟨"kw.wrap", [kw, .bytes cek, optsView [some h]]⟩ = .arr [.bytes data, upd] →
    (∀ opts', kmView opts' = kmView (optsView [some (applyUpdates h upd)]) →
      o ⟨"kw.unwrap", [kw', .bytes data, opts']⟩ = .bytes cek) ∧
    (∀ n, upd.get? "p2c" = some (.int n) → 0 ≤ n)

theorem wrapLaw_of_km (o : Oracle) (kw kw' : Wire) (h : WrapLawKM o kw kw') : WrapLaw o kw kw' := by
  intro cek hd data upd hc hq
  obtain ⟨h1, h2⟩ := h cek hd data upd hc hq
  exact ⟨fun enc => h1 _ (by simp [kmView, optsView, Wire.get?, Wire.asObj, Wire.lookup, firstSome, firstInt]), h2⟩

/-- the merged view for a recipient without per-recipient header (NewMessageWithKW's recipient): the
    protected header alone -/
theorem merged_empty (hp hp0 : Header)
    (e : hp.enc = hp0.enc ∧ hp.epk = hp0.epk ∧ hp.apu = hp0.apu ∧ hp.apv = hp0.apv ∧ hp.iv = hp0.iv ∧ hp.tag = hp0.tag ∧
         hp.p2s = hp0.p2s ∧ hp.p2c = hp0.p2c) :
    mergedOpts (some {}) hp (some {}) = optsView [some hp0] := by
  obtain ⟨e1, e2, e3, e4, e5, e6, e7, e8⟩ := e
  simp only [mergedOpts, optsView, firstStr, firstSome, firstInt, e1, e2, e3, e4, e5, e6, e7, e8]
  cases hp0.epk <;> cases hp0.apu <;> cases hp0.apv <;> cases hp0.iv <;> cases hp0.tag <;> cases hp0.p2s <;>
    by_cases h1 : hp0.enc = "" <;> by_cases h2 : hp0.p2c = 0 <;> simp [h1, h2]

/-- the merged view for a recipient added by Encrypt, when the protected header carries no key-management
    parameter: the key-management parameters of the per-recipient header -/
theorem merged_rcpt (hp rh rh0 : Header) (n : NoKM hp)
    (e : rh.epk = rh0.epk ∧ rh.apu = rh0.apu ∧ rh.apv = rh0.apv ∧ rh.iv = rh0.iv ∧ rh.tag = rh0.tag ∧
         rh.p2s = rh0.p2s ∧ rh.p2c = rh0.p2c) :
    kmView (mergedOpts (some {}) hp (some rh)) = kmView (optsView [some rh0]) := by
  obtain ⟨e2, e3, e4, e5, e6, e7, e8⟩ := e
  simp only [kmView, mergedOpts, optsView, Wire.get?, Wire.asObj, Wire.lookup, firstSome, firstInt,
    n.epk, n.apu, n.apv, n.iv, n.tag, n.p2s, n.p2c, e2, e3, e4, e5, e6, e7, e8]
  cases rh0.epk <;> cases rh0.apu <;> cases rh0.apv <;> cases rh0.iv <;> cases rh0.tag <;> cases rh0.p2s <;>
    by_cases h2 : rh0.p2c = 0 <;> simp [h2]

/-- a recipient of a built message is decryptable with wrapper `kw'` -/
def RcptGood (o : Oracle) (protHdr : Header) (cek : Bytes) (r : Recipient) (kw' : Wire) : Prop :=
  RcptBuilt o (encPure o protHdr) r ∧
  o ⟨"kw.unwrap", [kw', .bytes r.encryptedKey,
      mergedOpts (some {}) { protHdr with raw := encPure o protHdr } (some (rcptHdrParsed o r))]⟩ = .bytes cek

/-- what is required of one further recipient added by `Encrypt(kw, hdr)`; `kw'` is the wrapper its finder returns.
    `disj` is the RFC 7516 §7.2.1 requirement that header parameter names are disjoint — it is exactly what finding
    c05-withkw-encrypt-param-collision violates (protected header already carrying iv/tag/p2s/p2c). -/
structure ExtraOK (o : Oracle) (protHdr : Header) (cek : Bytes) (kw kw' : Wire) (hdr : Option Header) : Prop where
  law : WrapLawKM o kw kw'
  hok : HeaderOK (clone hdr)
  crit : (clone hdr).crit = []
  disj : ∀ data upd, o ⟨"kw.wrap", [kw, .bytes cek, optsView [some (clone hdr)]]⟩ = .arr [.bytes data, upd] →
    disjointKeys (encPure o (applyUpdates (clone hdr) upd)) (encPure o protHdr) = true

theorem encrypt_good (o : Oracle) (msg : Message) (kw kw' : Wire) (hdr : Option Header) (msg' : Message)
    (n : NoKM msg.header) (hc8 : 8 ≤ msg.cek.length) (X : ExtraOK o msg.header msg.cek kw kw' hdr)
    (h : (encrypt msg kw hdr).run o = .ok msg') :
    ∃ r, msg' = { msg with recipients := msg.recipients ++ [r] } ∧ RcptGood o msg.header msg.cek r kw' := by
  obtain ⟨data, upd, hq, hm⟩ := encrypt_ok o msg kw hdr msg' h
  obtain ⟨hun, hp2c⟩ := X.law _ _ _ _ hc8 hq
  refine ⟨_, hm, ⟨rfl, ?_⟩, ?_⟩
  · intro h0 hh0
    simp only [Option.some.injEq] at hh0
    subst hh0
    obtain ⟨_, f2, _, _, _⟩ := applyUpdates_fields (clone hdr) upd
    exact ⟨headerOK_applyUpdates _ upd X.hok hp2c, by rw [f2]; exact X.crit, X.disj _ _ hq⟩
  · apply hun
    simp only [rcptHdrParsed]
    exact merged_rcpt _ _ _ ⟨n.epk, n.apu, n.apv, n.iv, n.tag, n.p2s, n.p2c⟩ ⟨rfl, rfl, rfl, rfl, rfl, rfl, rfl⟩

/-- pointwise relation between two lists -/
inductive All2 {α β : Type} (R : α → β → Prop) : List α → List β → Prop
  | nil : All2 R [] []
  | cons {a b l1 l2} : R a b → All2 R l1 l2 → All2 R (a :: l1) (b :: l2)

theorem All2.append {α β : Type} {R : α → β → Prop} {l1 l2 : List α} {k1 k2 : List β}
    (h1 : All2 R l1 k1) (h2 : All2 R l2 k2) : All2 R (l1 ++ l2) (k1 ++ k2) := by
  induction h1 with
  | nil => simpa using h2
  | cons hr _ ih => exact All2.cons hr ih

/-- the partner of the element at a given position -/
theorem All2.split {α β : Type} {R : α → β → Prop} (pre : List α) (r : α) (post : List α) (ks : List β)
    (h : All2 R (pre ++ r :: post) ks) : ∃ k, k ∈ ks ∧ R r k := by
  induction pre generalizing ks with
  | nil =>
    cases h with
    | cons hr _ => exact ⟨_, by simp, hr⟩
  | cons a t ih =>
    cases h with
    | cons _ ht =>
      obtain ⟨k, hk, hr⟩ := ih _ ht
      exact ⟨k, by simp [hk], hr⟩

/-- a further recipient: sender's wrapper, recipient's wrapper, the header handed to Encrypt -/
abbrev Extra := Wire × Wire × Option Header

def encryptAll (msg : Message) (extras : List Extra) : PO Message :=
  extras.foldlM (fun m e => encrypt m e.1 e.2.2) msg

/-- repeated Encrypt keeps the message and makes every added recipient decryptable -/
theorem encryptAll_good (o : Oracle) (protHdr : Header) (cek : Bytes) (n : NoKM protHdr) (hc8 : 8 ≤ cek.length) :
    ∀ (extras : List Extra) (msg : Message) (ks : List Wire) (msg' : Message),
      msg.header = protHdr → msg.cek = cek →
      All2 (RcptGood o protHdr cek) msg.recipients ks →
      (∀ e ∈ extras, ExtraOK o protHdr cek e.1 e.2.1 e.2.2) →
      (encryptAll msg extras).run o = .ok msg' →
      (∃ rs, msg' = { msg with recipients := rs }) ∧
      All2 (RcptGood o protHdr cek) msg'.recipients (ks ++ extras.map (·.2.1)) := by
  intro extras
  induction extras with
  | nil =>
    intro msg ks msg' _ _ hf _ h
    simp only [encryptAll, List.foldlM, PO.run_pure] at h
    cases h
    exact ⟨⟨msg.recipients, rfl⟩, by simpa using hf⟩
  | cons e rest ih =>
    intro msg ks msg' hh hc hf hx h
    simp only [encryptAll, List.foldlM] at h
    obtain ⟨m1, h1, h2⟩ := PO.run_bind_eq_ok _ _ _ _ h
    have X := hx e (by simp)
    rw [← hh, ← hc] at X
    obtain ⟨r, hm1, hg⟩ := encrypt_good o msg e.1 e.2.1 e.2.2 m1 (hh ▸ n) (hc ▸ hc8) X h1
    rw [hh, hc] at hg
    have hf1 : All2 (RcptGood o protHdr cek) m1.recipients (ks ++ [e.2.1]) := by
      rw [hm1]
      exact All2.append hf (All2.cons hg All2.nil)
    obtain ⟨⟨rs, hrs⟩, hfin⟩ := ih m1 (ks ++ [e.2.1]) msg' (by rw [hm1]; exact hh) (by rw [hm1]; exact hc) hf1
      (fun x hxm => hx x (by simp [hxm])) h2
    refine ⟨⟨rs, ?_⟩, by simpa [List.append_assoc] using hfin⟩
    rw [hrs, hm1]


theorem All2.at {α β : Type} {R : α → β → Prop} (pre : List α) (r : α) (post : List α) (ks : List β)
    (h : All2 R (pre ++ r :: post) ks) : ∃ k, ks[pre.length]? = some k ∧ R r k := by
  induction pre generalizing ks with
  | nil =>
    cases h with
    | cons hr _ => exact ⟨_, by simp, hr⟩
  | cons a t ih =>
    cases h with
    | cons _ ht =>
      obtain ⟨k, hk, hr⟩ := ih _ ht
      exact ⟨k, by simpa using hk, hr⟩

/-- the finder's behaviour required for decrypting as the recipient at position `pre.length`: it declines the
    earlier recipients and returns that recipient's wrapper (the one at the same position of `ks`) -/
structure FinderFor (o : Oracle) (protHdr : Header) (pre : List Recipient) (r : Recipient) (ks : List Wire) : Prop where
  declines : ∀ r' ∈ pre, o ⟨"findKeyWrapper", [.obj (encPure o protHdr), .obj [], .obj (rcptHdrParsed o r').raw]⟩ = .none
  finds : ∀ k, ks[pre.length]? = some k →
    o ⟨"findKeyWrapper", [.obj (encPure o protHdr), .obj [], .obj (rcptHdrParsed o r).raw]⟩ = k ∧ k.isNone = false

/-- C05, first sentence, general JSON serialization with any number of recipients, from any starting message
    whose own recipients are decryptable (`msg0` = result of NewMessage or NewMessageWithKW), followed by any
    list of Encrypt calls: every recipient of MarshalJSON's output decrypts to the plaintext. -/
theorem json_roundtrip_from (o : Oracle) (L : JsonLaws o) (enc : String) (pt : Bytes) (msg0 : Message) (ks0 : List Wire)
    (extras : List Extra) (msg : Message) (data : Bytes) (hav : encAvailable enc = true)
    (B0 : MsgBuilt o enc pt msg0) (G0 : All2 (RcptGood o msg0.header msg0.cek) msg0.recipients ks0)
    (hn : extras ≠ [] → NoKM msg0.header) (hc8 : extras ≠ [] → 8 ≤ msg0.cek.length)
    (hx : ∀ e ∈ extras, ExtraOK o msg0.header msg0.cek e.1 e.2.1 e.2.2)
    (hall : (encryptAll msg0 extras).run o = .ok msg) (hm : (marshalJSON msg).run o = .ok data)
    (pre : List Recipient) (r : Recipient) (post : List Recipient) (hsplit : msg.recipients = pre ++ r :: post)
    (F : FinderFor o msg0.header pre r (ks0 ++ extras.map (·.2.1))) :
    (parseJSON data >>= decrypt).run o = .ok pt := by
  have key : (∃ rs, msg = { msg0 with recipients := rs }) ∧
      All2 (RcptGood o msg0.header msg0.cek) msg.recipients (ks0 ++ extras.map (·.2.1)) := by
    cases extras with
    | nil =>
      simp only [encryptAll, List.foldlM, PO.run_pure] at hall
      cases hall
      exact ⟨⟨msg0.recipients, rfl⟩, by simpa using G0⟩
    | cons e rest =>
      exact encryptAll_good o msg0.header msg0.cek (hn (by simp)) (hc8 (by simp)) (e :: rest) msg0 ks0 msg rfl rfl G0 hx hall
  obtain ⟨⟨rs, hrs⟩, G⟩ := key
  have hh : msg.header = msg0.header := by rw [hrs]
  have hc : msg.cek = msg0.cek := by rw [hrs]
  have B : MsgBuilt o enc pt msg := by
    rw [hrs]
    exact ⟨B0.unprot, B0.aad0, B0.hok, B0.henc, B0.prot, B0.ivs, B0.ct, B0.tag, B0.sealed⟩
  rw [hsplit] at G
  obtain ⟨k, hk, hg⟩ := All2.at pre r post _ G
  obtain ⟨hf, hkn⟩ := F.finds k hk
  have R : ∀ x ∈ msg.recipients, RcptBuilt o (encPure o msg.header) x := by
    intro x hxm
    rw [hsplit] at hxm
    have : ∀ (l : List Recipient) (ks : List Wire), All2 (RcptGood o msg0.header msg0.cek) l ks → ∀ y ∈ l,
        RcptBuilt o (encPure o msg0.header) y := by
      intro l ks ha
      induction ha with
      | nil => simp
      | cons hr _ ih =>
        intro y hy
        cases hy with
        | head => exact hr.1
        | tail _ hm => exact ih y hm
    rw [hh]
    exact this _ _ G x hxm
  refine built_json_decrypts o L enc pt msg hav B R pre r post hsplit k ?_ ?_ hkn ?_ data hm
  · rw [hh]; exact F.declines
  · rw [hh]; exact hf
  · rw [hh, hc]; exact hg.2


/-! ## the three ways goat's API starts a message -/

/-- NewMessage + Encrypt×n (n ≥ 0) + MarshalJSON: every recipient decrypts.  (`NoKM (clone prot)`: the caller's
    protected header carries no key-management parameter — those belong to the per-recipient headers here.) -/
theorem jwe_roundtrip_json_newmessage (o : Oracle) (L : JsonLaws o) (enc : String) (prot : Option Header) (pt : Bytes)
    (extras : List Extra) (msg0 msg : Message) (data : Bytes)
    (hok : HeaderOK (clone prot)) (hnk : NoKM (clone prot)) (hgen : CEKSized o enc)
    (h0 : (newMessage enc prot pt).run o = .ok msg0)
    (hx : ∀ e ∈ extras, ExtraOK o msg0.header msg0.cek e.1 e.2.1 e.2.2)
    (hall : (encryptAll msg0 extras).run o = .ok msg) (hm : (marshalJSON msg).run o = .ok data)
    (pre : List Recipient) (r : Recipient) (post : List Recipient) (hsplit : msg.recipients = pre ++ r :: post)
    (F : FinderFor o msg0.header pre r (extras.map (·.2.1))) :
    (parseJSON data >>= decrypt).run o = .ok pt := by
  obtain ⟨hav, B0, hr0, hh0, hc8⟩ := newMessage_built o enc prot pt msg0 hok hgen h0
  refine json_roundtrip_from o L enc pt msg0 [] extras msg data hav B0 (by rw [hr0]; exact All2.nil) ?_ (fun _ => hc8) hx hall hm
    pre r post hsplit (by simpa using F)
  intro _
  rw [hh0]
  exact ⟨hnk.epk, hnk.apu, hnk.apv, hnk.iv, hnk.tag, hnk.p2s, hnk.p2c⟩

/-- the first recipient made by NewMessageWithKW is decryptable -/
theorem first_rcpt_good (o : Oracle) (protHdr : Header) (cek ek : Bytes) (kw' : Wire)
    (hun : o ⟨"kw.unwrap", [kw', .bytes ek, optsView [some protHdr]]⟩ = .bytes cek) :
    RcptGood o protHdr cek { header := none, encryptedKey := ek, b64encryptedKey := (o ⟨"b64url.enc", [.bytes ek]⟩).asBytes } kw' := by
  refine ⟨⟨rfl, by intro h hh; cases hh⟩, ?_⟩
  simp only [rcptHdrParsed]
  have hm := merged_empty ({ protHdr with raw := encPure o protHdr }) protHdr ⟨rfl, rfl, rfl, rfl, rfl, rfl, rfl, rfl⟩
  rw [hm]
  exact hun

set_option linter.unusedVariables false in
/-- NewMessageWithKW (WrapKey or DeriveKey path) + Encrypt×n (n ≥ 0) + MarshalJSON: every recipient decrypts.

    Explicit exclusions (the two recorded findings):
    * `excl_ecdhes_sender` — finding c05-ecdhes-jwe-sender: for the ECDH-ES family `DeriveLaw` does not hold of
      goat's DeriveKey/UnwrapKey pair (both are handed the same `epk`); see `ecdhes_sender_fails`.
    * `excl_param_collision` — finding c05-withkw-encrypt-param-collision: if further recipients are added, the
      first wrapper must not have published parameters into the protected header (A*GCMKW: iv, tag; PBES2:
      p2s, p2c), nor may the caller's protected header carry any. -/
theorem jwe_roundtrip_json_withkw (o : Oracle) (L : JsonLaws o) (enc : String) (kw kw' : Wire)
    (prot : Option Header) (pt : Bytes) (extras : List Extra) (msg0 msg : Message) (data : Bytes)
    (excl_ecdhes_sender : kwAlg kw ∉ ecdhesAlgs)
    (hok : HeaderOK (clone prot))
    (hlaw : if isDeriver kw then DeriveLaw o kw kw' else WrapLawKM o kw kw') (hgen : CEKSized o enc)
    (h0 : (newMessageWithKW enc kw prot pt).run o = .ok msg0)
    (hc8 : extras ≠ [] → 8 ≤ msg0.cek.length)
    (excl_param_collision : extras ≠ [] → NoKM msg0.header)
    (hx : ∀ e ∈ extras, ExtraOK o msg0.header msg0.cek e.1 e.2.1 e.2.2)
    (hall : (encryptAll msg0 extras).run o = .ok msg) (hm : (marshalJSON msg).run o = .ok data)
    (pre : List Recipient) (r : Recipient) (post : List Recipient) (hsplit : msg.recipients = pre ++ r :: post)
    (F : FinderFor o msg0.header pre r (kw' :: extras.map (·.2.1))) :
    (parseJSON data >>= decrypt).run o = .ok pt := by
  by_cases hd : isDeriver kw = true
  · simp only [hd, if_true] at hlaw
    obtain ⟨hav, B0, ek, hq, hh0, hr0⟩ := newMessageWithKW_derive_built o enc kw prot pt msg0 hd hok h0
    have G0 : All2 (RcptGood o msg0.header msg0.cek) msg0.recipients [kw'] := by
      rw [hr0]
      refine All2.cons (first_rcpt_good o _ _ _ _ ?_) All2.nil
      rw [hh0]
      exact hlaw _ _ _ hq
    exact json_roundtrip_from o L enc pt msg0 [kw'] extras msg data hav B0 G0 excl_param_collision hc8 hx hall hm
      pre r post hsplit (by simpa using F)
  · have hd' : isDeriver kw = false := by simpa using hd
    simp only [hd', Bool.false_eq_true, if_false] at hlaw
    obtain ⟨hav, B0, hc8', ek, upd, hq, hh0, hr0⟩ := newMessageWithKW_wrap_built o enc kw prot pt msg0 hd' hok
      (fun cek data upd hc hq => (hlaw _ _ _ _ hc hq).2) hgen h0
    have G0 : All2 (RcptGood o msg0.header msg0.cek) msg0.recipients [kw'] := by
      rw [hr0]
      refine All2.cons (first_rcpt_good o _ _ _ _ ?_) All2.nil
      rw [hh0]
      apply (hlaw _ _ _ _ hc8' hq).1
      simp [kmView, optsView, Wire.get?, Wire.asObj, Wire.lookup, firstSome, firstInt]
    exact json_roundtrip_from o L enc pt msg0 [kw'] extras msg data hav B0 G0 excl_param_collision hc8 hx hall hm
      pre r post hsplit (by simpa using F)


/-! ## C05, first sentence — the full statement -/

set_option linter.unusedVariables false in
/-- **C05, first sentence, full statement.**  For every oracle satisfying the laws of the standard library and of the
    primitives (`JsonLaws`: base64 decode∘encode, JSON parse∘print on the emitted fragments, Decrypt∘Encrypt for equal
    key/IV/AAD, inflate∘deflate) and, per recipient, the law of its key-management algorithm (`WrapLawKM`: unwrap∘wrap;
    `DeriveLaw`: key agreement), for every content encryption `enc`, with or without `zip`, for every plaintext:

    (1) NewMessageWithKW, any key-management mode — WrapKey path (RSA1_5, RSA-OAEP*, A*KW, A*GCMKW, PBES2-*) or
        DeriveKey path (`dir`; ECDH-ES family only as far as `DeriveLaw` holds):
        (a) Compact → Parse → Decrypt = plaintext;
        (b) followed by any number n ≥ 0 of Encrypt calls: MarshalJSON → ParseJSON → Decrypt = plaintext for EVERY
            recipient (the one of NewMessageWithKW and each one added);
    (2) NewMessage followed by n ≥ 0 Encrypt calls: MarshalJSON → ParseJSON → Decrypt = plaintext for every recipient.

    The producer paths excluded because of the two recorded findings appear as named hypotheses:
    * `excl_ecdhes_sender` (finding c05-ecdhes-jwe-sender): the sender's wrapper is not of the ECDH-ES family — for it
      `DeriveLaw` is false of goat (`ecdhes_sender_fails`); its `WrapKey` (used by Encrypt) returns an empty key, so
      `WrapLawKM` is false as well;
    * `excl_param_collision` (finding c05-withkw-encrypt-param-collision): when recipients are added after
      NewMessageWithKW, the protected header carries no key-management parameter (false when the first wrapper is
      A*GCMKW / PBES2, which write iv, tag / p2s, p2c there), and each added recipient's header has names disjoint from
      the protected header's (`ExtraOK.disj`).
    goat cannot emit the flattened JSON syntax; it is covered on the accepting side (`jwe_accepts_conformant_json_rfc`). -/
theorem jwe_roundtrip (o : Oracle) (L : JsonLaws o) (enc : String) (pt : Bytes) :
    (∀ (kw kw' : Wire) (prot : Option Header) (msg0 : Message),
      kwAlg kw ∉ ecdhesAlgs →                                                   -- excl_ecdhes_sender
      HeaderOK (clone prot) →
      (if isDeriver kw then DeriveLaw o kw kw' else WrapLawKM o kw kw') →
      CEKSized o enc →
      (newMessageWithKW enc kw prot pt).run o = .ok msg0 →
      ((∀ raw, o ⟨"findKeyWrapper", [.obj raw, .none, .none]⟩ = kw') → kw'.isNone = false →
        (compact msg0 >>= parse >>= decrypt).run o = .ok pt) ∧
      (∀ (extras : List Extra) (msg : Message) (data : Bytes),
        (extras ≠ [] → NoKM msg0.header) →                                      -- excl_param_collision
        (extras ≠ [] → 8 ≤ msg0.cek.length) →     -- (automatic on the WrapKey path; for `dir` the shared key is the CEK)
        (∀ e ∈ extras, ExtraOK o msg0.header msg0.cek e.1 e.2.1 e.2.2) →
        (encryptAll msg0 extras).run o = .ok msg → (marshalJSON msg).run o = .ok data →
        ∀ pre r post, msg.recipients = pre ++ r :: post →
          FinderFor o msg0.header pre r (kw' :: extras.map (·.2.1)) →
          (parseJSON data >>= decrypt).run o = .ok pt)) ∧
    (∀ (prot : Option Header) (msg0 : Message) (extras : List Extra) (msg : Message) (data : Bytes),
      HeaderOK (clone prot) → NoKM (clone prot) → CEKSized o enc →
      (newMessage enc prot pt).run o = .ok msg0 →
      (∀ e ∈ extras, ExtraOK o msg0.header msg0.cek e.1 e.2.1 e.2.2) →
      (encryptAll msg0 extras).run o = .ok msg → (marshalJSON msg).run o = .ok data →
      ∀ pre r post, msg.recipients = pre ++ r :: post →
        FinderFor o msg0.header pre r (extras.map (·.2.1)) →
        (parseJSON data >>= decrypt).run o = .ok pt) := by
  refine ⟨?_, ?_⟩
  · intro kw kw' prot msg0 hne hok hlaw hgen h0
    refine ⟨?_, ?_⟩
    · intro hfind hk
      by_cases hd : isDeriver kw = true
      · simp only [hd, if_true] at hlaw
        exact roundtrip_compact_derive o L.toLaws enc kw kw' prot pt hd hok hlaw hfind hk msg0 h0
      · have hd' : isDeriver kw = false := by simpa using hd
        simp only [hd', Bool.false_eq_true, if_false] at hlaw
        exact roundtrip_compact_wrap o L.toLaws enc kw kw' prot pt hd' hok (wrapLaw_of_km o kw kw' hlaw) hgen hfind hk msg0 h0
    · intro extras msg data hnc hc8 hx hall hm pre r post hsplit F
      exact jwe_roundtrip_json_withkw o L enc kw kw' prot pt extras msg0 msg data hne hok hlaw hgen h0 hc8 hnc hx hall hm
        pre r post hsplit F
  · intro prot msg0 extras msg data hok hnk hgen h0 hx hall hm pre r post hsplit F
    exact jwe_roundtrip_json_newmessage o L enc prot pt extras msg0 msg data hok hnk hgen h0 hx hall hm pre r post hsplit F


/-! ## non-vacuity: a concrete run of NewMessage + Encrypt + MarshalJSON + ParseJSON + Decrypt -/

def oJ : Oracle := fun q =>
  if q.name == "enc.generateCEK" then .bytes [1]
  else if q.name == "enc.generateIV" then .bytes [2]
  else if q.name == "kw.wrap" then .arr [.bytes [3], .obj []]
  else if q.name == "json.marshal" then .bytes [4]
  else if q.name == "json.decodeMap" then .obj [("enc", .str "A128GCM")]
  else if q.name == "b64url.enc" || q.name == "b64url.dec" then
    (match q.args with | [.bytes x] => .bytes x | _ => .none)
  else if q.name == "enc.encrypt" then .arr [.bytes [5], .bytes [6]]
  else if q.name == "enc.decrypt" then
    (match q.args with
     | [.str "A128GCM", .bytes [1], .bytes [2], .bytes [4], .bytes [5], .bytes [6]] => .bytes [42]
     | _ => .none)
  else if q.name == "jwe.marshalJSON" then .bytes [7]
  else if q.name == "jwe.decodeJSON" then
    .obj [("aad", .bytes []), ("ciphertext", .bytes [5]), ("encrypted_key", .bytes []), ("header", .null),
          ("iv", .bytes [2]), ("protected", .bytes [4]),
          ("recipients", .arr [.obj [("encrypted_key", .bytes [3]), ("header", .obj [("alg", .str "A128KW")])]]),
          ("tag", .bytes [6]), ("unprotected", .null)]
  else if q.name == "findKeyWrapper" then .str "kw2"
  else if q.name == "kw.unwrap" then
    (match q.args with | [_, .bytes [3], _] => .bytes [1] | _ => .none)
  else .none

example : ((newMessage "A128GCM" none [42] >>= fun m => encrypt m (.obj [("alg", .str "A128KW")]) (some { alg := "A128KW" }))
    >>= marshalJSON).run oJ = .ok [7] := by rfl

example : ((newMessage "A128GCM" none [42] >>= fun m => encrypt m (.obj [("alg", .str "A128KW")]) (some { alg := "A128KW" }))
    >>= marshalJSON >>= parseJSON >>= decrypt).run oJ = .ok [42] := by rfl

end GoatProofs.C05
