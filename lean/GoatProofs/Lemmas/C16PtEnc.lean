import GoatProofs.Lemmas.C16PtOps
import Goat.Spec.RFC8032
/-
C16 (points part), encoding: Select / CondNeg / Equal / Bytes.
-/
namespace C16Pt
open C17 (Rep Cong)
open Model.Fe448 Model.Ed448Pt Spec.Edwards448 Glue
set_option exponentiation.threshold 1000
set_option maxRecDepth 100000

/-- all three coordinates inside the C17 invariant -/
def PInv (P : Model.Ed448Pt.Point) : Prop := C17.Inv P.x ∧ C17.Inv P.y ∧ C17.Inv P.z

theorem PRep.pinv {P : Model.Ed448Pt.Point} {a : AffinePoint} (h : PRep P a) : PInv P := ⟨h.ix, h.iy, h.iz⟩

theorem point_ext {P Q : Model.Ed448Pt.Point} (hx : P.x = Q.x) (hy : P.y = Q.y) (hz : P.z = Q.z) : P = Q := by
  cases P; cases Q; simp_all

/-! ## Select, CondNeg -/

/-- `Point.Select(p, q, cond)` returns literally p (cond = 1) resp. q (cond = 0) -/
theorem select_correct {P Q : Model.Ed448Pt.Point} (hP : PInv P) (hQ : PInv Q) :
    Model.Ed448Pt.select P Q 1 = P ∧ Model.Ed448Pt.select P Q 0 = Q := by
  obtain ⟨x1, x0⟩ := C17Ext.select_spec P.x Q.x hP.1 hQ.1
  obtain ⟨y1, y0⟩ := C17Ext.select_spec P.y Q.y hP.2.1 hQ.2.1
  obtain ⟨z1, z0⟩ := C17Ext.select_spec P.z Q.z hP.2.2 hQ.2.2
  exact ⟨point_ext x1 y1 z1, point_ext x0 y0 z0⟩

theorem negate_pinv {P : Model.Ed448Pt.Point} (hP : PInv P) : PInv (Model.Ed448Pt.negate P) :=
  ⟨(C17.negate_spec P.x hP.1).1, hP.2.1, hP.2.2⟩

/-- `Point.CondNeg(cond)`: the negated point for cond = 1, the point itself for cond = 0 -/
theorem condNeg_correct {P : Model.Ed448Pt.Point} (hP : PInv P) :
    condNeg P 1 = Model.Ed448Pt.negate P ∧ condNeg P 0 = P :=
  select_correct (negate_pinv hP) hP

theorem zeroPt_pinv : PInv zeroPt := ⟨C17Ext.zero_inv, C17Ext.one_inv, C17Ext.one_inv⟩

/-- the constant-time `lookupTable.SelectInto` (Select chain + CondNeg) computes the `if` chain of
    `Model.WindowMul.lookupSelect8`, on every table whose entries are inside the invariant -/
theorem lookupSelectInto_eq (tbl : List Model.Ed448Pt.Point) (hT : ∀ P ∈ tbl, PInv P) (x : Int) :
    lookupSelectInto tbl x = Model.WindowMul.lookupSelect8 Model.Ed448Pt.ops tbl x := by
  unfold lookupSelectInto Model.WindowMul.lookupSelect8
  have hget : ∀ i, PInv (tbl.getD i zeroPt) := by
    intro i
    rw [List.getD_eq_getElem?_getD]
    cases h : tbl[i]? with
    | none => exact zeroPt_pinv
    | some P => exact hT P (List.mem_of_getElem? h)
  -- the fold, with the invariant that the accumulator stays inside the invariant
  have hfold : ∀ (l : List Nat) (d : Model.Ed448Pt.Point), PInv d →
      PInv (l.foldl (fun dest i => Model.Ed448Pt.select (tbl.getD (i - 1) zeroPt) dest
        (ctByteEq (Model.WindowMul.absI8 x) i)) d) ∧
      l.foldl (fun dest i => Model.Ed448Pt.select (tbl.getD (i - 1) zeroPt) dest
        (ctByteEq (Model.WindowMul.absI8 x) i)) d =
      l.foldl (fun dest i => if Model.WindowMul.absI8 x = i then tbl.getD (i - 1) Model.Ed448Pt.ops.zero else dest) d := by
    intro l
    induction l with
    | nil => intro d hd; exact ⟨hd, rfl⟩
    | cons i l ih =>
      intro d hd
      simp only [List.foldl_cons]
      obtain ⟨s1, s0⟩ := select_correct (hget (i - 1)) hd
      by_cases hc : Model.WindowMul.absI8 x = i
      · have e : ctByteEq (Model.WindowMul.absI8 x) i = 1 := by simp [ctByteEq, hc]
        rw [e, s1, if_pos hc]
        exact ih _ (hget (i - 1))
      · have e : ctByteEq (Model.WindowMul.absI8 x) i = 0 := by simp [ctByteEq, hc]
        rw [e, s0, if_neg hc]
        exact ih _ hd
  obtain ⟨hinv, heq⟩ := hfold (List.range' 1 8) zeroPt zeroPt_pinv
  obtain ⟨c1, c0⟩ := condNeg_correct hinv
  show condNeg _ _ = _
  rw [heq] at c1 c0 ⊢
  by_cases hx : x < 0
  · simp only [hx, if_true]; exact c1
  · simp only [hx, if_false]; exact c0

/-! ## Equal -/

theorem canon_eq_of_cast {x y : ℤ} (hx : Canon x) (hy : Canon y) (h : (x : F) = (y : F)) : x = y := by
  have := (emod_eq_iff x y).mpr h
  rwa [Int.emod_eq_of_lt hx.1 hx.2, Int.emod_eq_of_lt hy.1 hy.2] at this

/-- `Point.Equal` is 1 exactly when the two operands represent the same affine point (else 0) -/
theorem equal_iff (hp : Nat.Prime q) {P Q : Model.Ed448Pt.Point} {a b : AffinePoint}
    (hP : PRep P a) (hQ : PRep Q b) (ha : OnCurve a) (hb : OnCurve b) :
    (Model.Ed448Pt.equal P Q = 1 ∨ Model.Ed448Pt.equal P Q = 0) ∧ (Model.Ed448Pt.equal P Q = 1 ↔ a = b) := by
  have : Fact (Nat.Prime q) := ⟨hp⟩
  have hx1 : Rep P.x (eval P.x) := ⟨hP.ix, C17.Cong.refl _⟩
  have hy1 : Rep P.y (eval P.y) := ⟨hP.iy, C17.Cong.refl _⟩
  have hz1 : Rep P.z (eval P.z) := ⟨hP.iz, C17.Cong.refl _⟩
  have hx2 : Rep Q.x (eval Q.x) := ⟨hQ.ix, C17.Cong.refl _⟩
  have hy2 : Rep Q.y (eval Q.y) := ⟨hQ.iy, C17.Cong.refl _⟩
  have hz2 : Rep Q.z (eval Q.z) := ⟨hQ.iz, C17.Cong.refl _⟩
  have m1 := C17.mul_rep hx1 hz2
  have m2 := C17.mul_rep hy1 hz2
  have m3 := C17.mul_rep hx2 hz1
  have m4 := C17.mul_rep hy2 hz1
  obtain ⟨ex01, exiff⟩ := C17Ext.equal_spec _ _ m1.1 m3.1
  obtain ⟨ey01, eyiff⟩ := C17Ext.equal_spec _ _ m2.1 m4.1
  have ex1 := (cong_iff _ _).mp hP.hx
  have ey1 := (cong_iff _ _).mp hP.hy
  have ex2 := (cong_iff _ _).mp hQ.hx
  have ey2 := (cong_iff _ _).mp hQ.hy
  have z1 := (not_cong_zero_iff _).mp hP.z_ne
  have z2 := (not_cong_zero_iff _).mp hQ.z_ne
  have c1 := (cong_iff _ _).mp m1.2
  have c2 := (cong_iff _ _).mp m2.2
  have c3 := (cong_iff _ _).mp m3.2
  have c4 := (cong_iff _ _).mp m4.2
  push_cast at ex1 ey1 ex2 ey2 c1 c2 c3 c4
  -- the two field comparisons
  have xiff : Model.Fe448Ext.equal (mul P.x Q.z) (mul Q.x P.z) = 1 ↔ a.x = b.x := by
    rw [exiff, cong_iff, c1, c3, ex1, ex2]
    constructor
    · intro h
      apply canon_eq_of_cast ha.1 hb.1
      have : ((a.x : F) - b.x) * ((eval P.z : F) * (eval Q.z : F)) = 0 := by linear_combination h
      rcases mul_eq_zero.mp this with h | h
      · linear_combination h
      · exact absurd h (mul_ne_zero z1 z2)
    · intro h; rw [h]; ring
  have yiff : Model.Fe448Ext.equal (mul P.y Q.z) (mul Q.y P.z) = 1 ↔ a.y = b.y := by
    rw [eyiff, cong_iff, c2, c4, ey1, ey2]
    constructor
    · intro h
      apply canon_eq_of_cast ha.2.1 hb.2.1
      have : ((a.y : F) - b.y) * ((eval P.z : F) * (eval Q.z : F)) = 0 := by linear_combination h
      rcases mul_eq_zero.mp this with h | h
      · linear_combination h
      · exact absurd h (mul_ne_zero z1 z2)
    · intro h; rw [h]; ring
  have he : Model.Ed448Pt.equal P Q = Int.ofNat ((Model.Fe448Ext.equal (mul P.x Q.z) (mul Q.x P.z)).toNat &&&
      (Model.Fe448Ext.equal (mul P.y Q.z) (mul Q.y P.z)).toNat) := rfl
  rw [he]
  have hab : a = b ↔ a.x = b.x ∧ a.y = b.y := by
    constructor
    · intro h; rw [h]; exact ⟨rfl, rfl⟩
    · intro ⟨h1, h2⟩; cases a; cases b; simp_all
  rw [hab, ← xiff, ← yiff]
  rcases ex01 with e1 | e1 <;> rcases ey01 with e2 | e2 <;> rw [e1, e2] <;> decide

/-! ## Bytes -/

theorem evalBytes_append (a b : List Int) : evalBytes (a ++ b) = evalBytes a + 256 ^ a.length * evalBytes b := by
  induction a with
  | nil => simp [evalBytes]
  | cons x xs ih => simp only [List.cons_append, evalBytes, ih, List.length_cons]; ring

/-- a list of n octets is determined by its little-endian value -/
theorem evalBytes_inj : ∀ (a b : List Int), a.length = b.length → AllIn 0 255 a → AllIn 0 255 b →
    evalBytes a = evalBytes b → a = b := by
  intro a
  induction a with
  | nil => intro b hl _ _ _; cases b with
    | nil => rfl
    | cons _ _ => cases hl
  | cons x xs ih =>
    intro b hl ha hb he
    cases b with
    | nil => cases hl
    | cons y ys =>
      have hx := ha x (List.mem_cons_self)
      have hy := hb y (List.mem_cons_self)
      simp only [evalBytes] at he
      have e1 : x = y := by omega
      have e2 : evalBytes xs = evalBytes ys := by omega
      rw [e1, ih ys (by simpa using hl) (fun z hz => ha z (List.mem_cons_of_mem _ hz))
        (fun z hz => hb z (List.mem_cons_of_mem _ hz)) e2]

/-- octets of a `Bytes` value as integers -/
def intsOf (b : Bytes) : List Int := b.map fun x => (x.toNat : Int)

theorem intsOf_allIn (b : Bytes) : AllIn 0 255 (intsOf b) := by
  intro x hx
  obtain ⟨u, _, rfl⟩ := List.mem_map.mp hx
  have := u.toNat_lt
  constructor <;> omega

theorem intsOf_encodeLE : ∀ (n v : Nat), (intsOf (Bytes.encodeLE n v)).length = n ∧
    evalBytes (intsOf (Bytes.encodeLE n v)) = ((v % 256 ^ n : Nat) : Int)
  | 0, v => by simp [Bytes.encodeLE, intsOf, evalBytes, Nat.mod_one]
  | n + 1, v => by
    obtain ⟨h1, h2⟩ := intsOf_encodeLE n (v / 256)
    unfold intsOf at h1 h2 ⊢
    simp only [Bytes.encodeLE, List.map_cons, List.length_cons, evalBytes, h1, h2, true_and]
    have : (UInt8.ofNat (v % 256)).toNat = v % 256 := by
      simp
    rw [this]
    have e : v % 256 ^ (n + 1) = v % 256 + 256 * (v / 256 % 256 ^ n) := by
      rw [pow_succ, Nat.mul_comm, Nat.mod_mul]
    rw [e]; push_cast; ring

/-- `Point.Bytes` is the RFC 8032 §5.2.2 encoding of the represented affine point:
    canonical (the value of the first 56 octets is the residue y < p) and unique -/
theorem bytes_canonical (hp : Nat.Prime q) {P : Model.Ed448Pt.Point} {a : AffinePoint}
    (hP : PRep P a) (ha : OnCurve a) :
    Model.Ed448Pt.bytes P = intsOf (Spec.RFC8032.encodePoint a) := by
  have : Fact (Nat.Prime q) := ⟨hp⟩
  have hx1 : Rep P.x (eval P.x) := ⟨hP.ix, C17.Cong.refl _⟩
  have hy1 : Rep P.y (eval P.y) := ⟨hP.iy, C17.Cong.refl _⟩
  have hz1 : Rep P.z (eval P.z) := ⟨hP.iz, C17.Cong.refl _⟩
  have hi := C17Ext.inv_rep hz1
  have hx := C17.mul_rep hx1 hi
  have hy := C17.mul_rep hy1 hi
  have ex1 := (cong_iff _ _).mp hP.hx
  have ey1 := (cong_iff _ _).mp hP.hy
  have z1 := (not_cong_zero_iff _).mp hP.z_ne
  have hzi : (eval P.z : F) * (eval P.z : F) ^ (2 ^ 448 - 2 ^ 224 - 3) = 1 := by
    rw [← pow_succ', show 2 ^ 448 - 2 ^ 224 - 3 + 1 = q - 1 by decide +kernel]
    exact ZMod.pow_card_sub_one_eq_one z1
  -- x ≡ a.x, y ≡ a.y
  have cx : Cong (eval (mul P.x (Model.Fe448Ext.inv P.z))) a.x := by
    refine C17.Cong.trans hx.2 ?_
    rw [cong_iff]; push_cast at ex1 ⊢; rw [ex1]; linear_combination (a.x : F) * hzi
  have cy : Cong (eval (mul P.y (Model.Fe448Ext.inv P.z))) a.y := by
    refine C17.Cong.trans hy.2 ?_
    rw [cong_iff]; push_cast at ey1 ⊢; rw [ey1]; linear_combination (a.y : F) * hzi
  have vx : eval (mul P.x (Model.Fe448Ext.inv P.z)) % Model.Fe448.P = a.x := by
    rw [(C17Ext.cong_iff_emod _ _).mp cx, P_eq_p]; exact Int.emod_eq_of_lt ha.1.1 ha.1.2
  have vy : eval (mul P.y (Model.Fe448Ext.inv P.z)) % Model.Fe448.P = a.y := by
    rw [(C17Ext.cong_iff_emod _ _).mp cy, P_eq_p]; exact Int.emod_eq_of_lt ha.2.1.1 ha.2.1.2
  obtain ⟨bl, ball, bval⟩ := C17.bytes_spec _ hy.1
  have hneg := C17Ext.isNegative_spec _ hx.1
  rw [vx] at hneg
  rw [vy] at bval
  -- shape of the output
  set yb := Model.Fe448.bytes (mul P.y (Model.Fe448Ext.inv P.z)) with hyb
  have hshape : Model.Ed448Pt.bytes P = yb ++ [128 * (a.x % 2)] := by
    show ((yb ++ [0]).set 56 _) = _
    have hg : (yb ++ [0]).getD 56 0 = 0 := by
      rw [List.getD_eq_getElem?_getD, List.getElem?_append_right (by omega), bl]; rfl
    rw [hg, hneg]
    have hs : (yb ++ [(0 : Int)]).set 56 (Int.ofNat ((0 : Int).toNat ||| ((a.x % 2).toNat <<< 7) % 256))
        = yb ++ [Int.ofNat ((0 : Int).toNat ||| ((a.x % 2).toNat <<< 7) % 256)] := by
      rw [List.set_append_right _ _ (by omega), bl]; rfl
    rw [hs]
    have h01 : a.x % 2 = 0 ∨ a.x % 2 = 1 := by omega
    rcases h01 with h | h <;> rw [h] <;> rfl
  rw [hshape]
  -- compare with the spec encoding through the little-endian value
  unfold Spec.RFC8032.encodePoint
  obtain ⟨el, ev⟩ := intsOf_encodeLE 57 (a.y.toNat + 2 ^ 455 * (a.x % 2).toNat)
  have h01 : a.x % 2 = 0 ∨ a.x % 2 = 1 := by omega
  apply evalBytes_inj
  · rw [el, List.length_append, bl]; rfl
  · intro z hz
    rcases List.mem_append.mp hz with h | h
    · exact ball z h
    · rw [List.mem_singleton] at h; rw [h]; rcases h01 with h | h <;> rw [h] <;> decide
  · exact intsOf_allIn _
  · rw [ev, evalBytes_append, bl, bval]
    simp only [evalBytes]
    have hy0 := ha.2.1.1
    have hy1 := ha.2.1.2
    have hpl : p < 2 ^ 448 := by decide +kernel
    rcases h01 with h | h <;> rw [h]
    · have : (a.y.toNat + 2 ^ 455 * (0 : Int).toNat) % 256 ^ 57 = a.y.toNat := by
        simp only [Int.toNat_zero, Nat.mul_zero, Nat.add_zero]
        apply Nat.mod_eq_of_lt; omega
      rw [this]; omega
    · have : (a.y.toNat + 2 ^ 455 * (1 : Int).toNat) % 256 ^ 57 = a.y.toNat + 2 ^ 455 := by
        simp only [Int.toNat_one, Nat.mul_one]
        apply Nat.mod_eq_of_lt; omega
      rw [this]; push_cast; omega

end C16Pt
