import GoatProofs.Lemmas.C01Parse
import GoatProofs.Lemmas.C02Sig
/-
C02 — completeness of the verification loop: a message that carries a good signature entry
verifies (with the first entry that verifies).
-/
namespace Model.JWS

/-- entry `s` is good for `sigContent`: algorithm named and allowed, the finder's answer denotes a
    key that accepts exactly `s.rawProtected ++ "." ++ sigContent` with `s.signature` -/
structure Good (o : Oracle) (cfg : Cfg) (s : Signature) (sigContent : Bytes) : Prop where
  named : s.alg ≠ ""
  allowed : cfg.allows s.alg = true
  accepted : ∃ vk, Sig.signingKeyOfHandle (o (findKeyQuery s)) = some (.ok vk) ∧
    (Sig.verifyKey vk (s.rawProtected ++ dot :: sigContent) s.signature).run o = .ok ()

theorem trySig_of_good (o : Oracle) (cfg : Cfg) (sc : Bytes) (s : Signature) (g : Good o cfg s sc) :
    (trySig cfg sc s).run o = .ok true := by
  obtain ⟨vk, hk, hv⟩ := g.accepted
  unfold trySig
  have h1 : (s.alg == Gen.Consts.jwa.SignatureAlgorithmUnknown) = false := by
    have := g.named
    simpa [Gen.Consts.jwa.SignatureAlgorithmUnknown] using this
  have hk' : Sig.signingKeyOfHandle (o ⟨(findKeyQuery s).name, (findKeyQuery s).args⟩) = some (.ok vk) := hk
  simp only [h1, Bool.false_eq_true, if_false, g.allowed, Bool.not_true, PO.run_bind, PO.run_query, hk',
    PO.run_attempt]
  have hv' : (Sig.verifyKey vk (signingInput s sc) s.signature).run o = .ok () := hv
  simp [hv']

/-- one loop iteration never yields an error: it verifies, declines, or panics -/
theorem trySig_cases (o : Oracle) (cfg : Cfg) (sc : Bytes) (s : Signature) :
    (∃ b, (trySig cfg sc s).run o = .ok b) ∨ (∃ site, (trySig cfg sc s).run o = .panic site) := by
  unfold trySig
  by_cases h1 : (s.alg == Gen.Consts.jwa.SignatureAlgorithmUnknown) = true
  · simp [h1]
  · simp only [h1, Bool.false_eq_true, if_false]
    by_cases h2 : cfg.allows s.alg = true
    · simp only [h2, Bool.not_true, Bool.false_eq_true, if_false, PO.run_bind, PO.run_query]
      cases hk : Sig.signingKeyOfHandle (o ⟨(findKeyQuery s).name, (findKeyQuery s).args⟩) with
      | none => simp
      | some r =>
        cases r with
        | panic site => simp
        | err c => simp
        | ok sk =>
          simp only [PO.run_bind, PO.run_attempt]
          cases (Sig.verifyKey sk (signingInput s sc) s.signature).run o <;> simp
    · simp [h2]

/-- completeness of the loop: with a good entry and no panicking entry, the first entry that
    verifies is returned together with `rawContent` -/
theorem verifyLoop_of_good (o : Oracle) (cfg : Cfg) (rc sc : Bytes) :
    ∀ (sigs : List Signature), (∃ s ∈ sigs, Good o cfg s sc) →
      (∀ s ∈ sigs, ∀ site, (trySig cfg sc s).run o ≠ .panic site) →
      ∃ s ∈ sigs, (verifyLoop cfg rc sc sigs).run o = .ok (s.prot, s.header, rc) ∧
        (trySig cfg sc s).run o = .ok true := by
  intro sigs
  induction sigs with
  | nil => intro ⟨s, hm, _⟩; cases hm
  | cons s rest ih =>
    intro ⟨g, hm, hg⟩ hnp
    unfold verifyLoop
    rw [PO.run_bind]
    rcases trySig_cases o cfg sc s with ⟨b, hb⟩ | ⟨site, hp⟩
    · rw [hb]
      cases b
      · simp only [Bool.false_eq_true, if_false]
        have hg' : ∃ s' ∈ rest, Good o cfg s' sc := by
          cases hm with
          | head =>
            have := trySig_of_good o cfg sc _ hg
            rw [this] at hb; cases hb
          | tail _ hm' => exact ⟨g, hm', hg⟩
        obtain ⟨s', hs', hr, ht⟩ := ih hg' (fun s' hs' => hnp s' (List.mem_cons_of_mem _ hs'))
        exact ⟨s', List.mem_cons_of_mem _ hs', hr, ht⟩
      · exact ⟨s, List.mem_cons_self .., by simp, hb⟩
    · exact absurd hp (hnp s (List.mem_cons_self ..) site)

/-- a message with exactly one, good, entry verifies with that entry -/
theorem verifyLoop_single (o : Oracle) (cfg : Cfg) (rc sc : Bytes) (s : Signature) (g : Good o cfg s sc) :
    (verifyLoop cfg rc sc [s]).run o = .ok (s.prot, s.header, rc) := by
  unfold verifyLoop
  rw [PO.run_bind, trySig_of_good o cfg sc s g]
  simp

end Model.JWS
