import GoatProofs.C16Pt
import GoatProofs.C16Sc
import Goat.Model.Ed448
/-
C13 helper lemmas: octet strings as `Bytes` (List UInt8) versus lists of integers, little-endian
values, RFC 8032 pruning versus goat's clamping.
-/
namespace C13
open Model.Ed448 Spec.Edwards448 C16Pt Glue
set_option exponentiation.threshold 1000
set_option maxRecDepth 100000

theorem toInts_eq_intsOf (b : Bytes) : toInts b = intsOf b := rfl

theorem intsOf_inj {a b : Bytes} (h : intsOf a = intsOf b) : a = b := by
  unfold intsOf at h
  apply List.map_injective_iff.mpr _ h
  intro x y hxy
  have hxy' : ((x.toNat : ℕ) : ℤ) = ((y.toNat : ℕ) : ℤ) := hxy
  have : x.toNat = y.toNat := by exact_mod_cast hxy'
  exact UInt8.toNat_inj.mp this

theorem toInts_length (b : Bytes) : (toInts b).length = b.length := by simp [toInts]
theorem ofInts_length (l : List Int) : (ofInts l).length = l.length := by simp [ofInts]
theorem toInts_allIn (b : Bytes) : AllIn 0 255 (toInts b) := intsOf_allIn b

theorem ofInts_toInts (b : Bytes) : ofInts (toInts b) = b := by
  unfold ofInts toInts
  rw [List.map_map]
  conv_rhs => rw [← List.map_id b]
  apply List.map_congr_left
  intro x _
  simp

theorem toInts_ofInts (l : List Int) (h : AllIn 0 255 l) : toInts (ofInts l) = l := by
  unfold ofInts toInts
  rw [List.map_map]
  conv_rhs => rw [← List.map_id l]
  apply List.map_congr_left
  intro x hx
  obtain ⟨h0, h1⟩ := h x hx
  simp only [Function.comp, id]
  have : (UInt8.ofNat x.toNat).toNat = x.toNat := by
    simp only [UInt8.toNat_ofNat']
    omega
  rw [this]; omega

/-- little-endian value: `Bytes.decodeLE` is `evalLE` of the integer list -/
theorem decodeLE_eq (b : Bytes) : ((Bytes.decodeLE b : ℕ) : ℤ) = Model.Sc448.evalLE (toInts b) := by
  induction b with
  | nil => rfl
  | cons x xs ih =>
    simp only [Bytes.decodeLE, toInts, List.map_cons, Model.Sc448.evalLE] at ih ⊢
    push_cast; rw [ih]

theorem evalLE_eq_evalBytes (l : List Int) : Model.Sc448.evalLE l = Model.Fe448.evalBytes l := by
  induction l with
  | nil => rfl
  | cons x xs ih => simp only [Model.Sc448.evalLE, Model.Fe448.evalBytes, ih]

theorem fixLen_length (n : Nat) (b : Bytes) : (fixLen n b).length = n := by
  unfold fixLen; simp

theorem shake_eq (x : Bytes) (n : Nat) : Model.Ed448.shake x n = Spec.RFC8032.shake256 x n := rfl

/-- goat's constant dom4 prefix is dom4(0, "") of RFC 8032 (regenerated constant) -/
theorem sigEd448_eq : sigEd448 = Spec.RFC8032.dom4 0 [] := by decide +kernel

theorem and_fc (b : UInt8) : ((b &&& 0xFC).toNat : ℤ) = (b.toNat : ℤ) - (b.toNat : ℤ) % 4 := by
  have h : ∀ n, n < 256 → (((UInt8.ofNat n) &&& 0xFC).toNat : ℤ) = ((UInt8.ofNat n).toNat : ℤ) - ((UInt8.ofNat n).toNat : ℤ) % 4 := by
    decide
  have := h b.toNat b.toNat_lt
  simpa using this

theorem or_80 (b : UInt8) : ((b ||| 0x80).toNat : ℤ) =
    if (b.toNat : ℤ) % 256 ≥ 128 then (b.toNat : ℤ) else (b.toNat : ℤ) + 128 := by
  have h : ∀ n, n < 256 → (((UInt8.ofNat n) ||| 0x80).toNat : ℤ) =
      if ((UInt8.ofNat n).toNat : ℤ) % 256 ≥ 128 then ((UInt8.ofNat n).toNat : ℤ) else ((UInt8.ofNat n).toNat : ℤ) + 128 := by
    decide
  have := h b.toNat b.toNat_lt
  simpa using this

theorem evalLE_append (a b : List Int) :
    Model.Sc448.evalLE (a ++ b) = Model.Sc448.evalLE a + 256 ^ a.length * Model.Sc448.evalLE b := by
  rw [evalLE_eq_evalBytes, evalLE_eq_evalBytes, evalLE_eq_evalBytes]; exact evalBytes_append a b

/-- a list of 57 elements is `b0 :: mid ++ [b55, b56]` with 54 elements in the middle -/
theorem split57' {α} (l : List α) (h : l.length = 57) :
    ∃ b0 mid b55 b56, l = b0 :: (mid ++ [b55, b56]) ∧ mid.length = 54 := by
  match l, h with
  | b0 :: t, h =>
    have ht : t.length = 56 := by simpa using h
    refine ⟨b0, t.take 54, t.getD 54 b0, t.getD 55 b0, ?_, by simp [ht]⟩
    congr 1
    conv_lhs => rw [← List.take_append_drop 54 t]
    congr 1
    have hd : (t.drop 54).length = 2 := by simp [ht]
    match hdd : t.drop 54, hd with
    | [u, v], _ =>
      have e1 : t.getD 54 b0 = u := by
        have := List.getElem?_drop (xs := t) (i := 54) (j := 0)
        rw [hdd] at this; simp at this
        rw [List.getD_eq_getElem?_getD, ← this]; rfl
      have e2 : t.getD 55 b0 = v := by
        have := List.getElem?_drop (xs := t) (i := 54) (j := 1)
        rw [hdd] at this; simp at this
        rw [List.getD_eq_getElem?_getD, ← this]; rfl
      rw [e1, e2]

/-- RFC 8032 pruning (bytewise, `Spec.RFC8032.prune`) is goat's clamping (`C16Sc.clamp56`) -/
theorem prune_eq_clamp (h : Bytes) (hl : 57 ≤ h.length) :
    ((Spec.RFC8032.secretScalar h : ℕ) : ℤ) = Model.Sc448.evalLE (C16Sc.clamp56 (toInts (h.take 57))) := by
  have h57 : (h.take 57).length = 57 := by rw [List.length_take]; omega
  obtain ⟨b0, mid, b55, b56, e, hm⟩ := split57' (h.take 57) h57
  unfold Spec.RFC8032.secretScalar Spec.RFC8032.prune
  rw [decodeLE_eq, e]
  have hlen : (mid ++ [b55, b56]).length = 56 := by simp [hm]
  -- left: the pruned octets
  have eL : (((b0 :: (mid ++ [b55, b56])).set 0 ((b0 :: (mid ++ [b55, b56])).getD 0 0 &&& 0xFC)).set 56 0).set 55
      ((((b0 :: (mid ++ [b55, b56])).set 0 ((b0 :: (mid ++ [b55, b56])).getD 0 0 &&& 0xFC)).set 56 0).getD 55 0 ||| 0x80)
      = (b0 &&& 0xFC) :: (mid ++ [b55 ||| 0x80, 0]) := by
    simp only [List.set_cons_zero, List.getD_cons_zero, List.set_cons_succ]
    have s1 : (mid ++ [b55, b56]).set 55 0 = mid ++ [b55, 0] := by
      rw [List.set_append_right _ _ (by omega), hm]; rfl
    rw [s1]
    have g1 : ((b0 &&& 0xFC) :: (mid ++ [b55, 0])).getD 55 0 = b55 := by
      rw [List.getD_cons_succ, List.getD_eq_getElem?_getD, List.getElem?_append_right (by omega), hm]; rfl
    rw [g1]
    have s2 : (mid ++ [b55, 0]).set 54 (b55 ||| 0x80) = mid ++ [b55 ||| 0x80, 0] := by
      rw [List.set_append_right _ _ (by omega), hm]; rfl
    rw [s2]
  rw [eL]
  -- right: the clamped integers
  have eR : C16Sc.clamp56 (toInts (b0 :: (mid ++ [b55, b56]))) =
      ((b0.toNat : ℤ) - (b0.toNat : ℤ) % 4) :: (toInts mid ++
        [if (b55.toNat : ℤ) % 256 ≥ 128 then (b55.toNat : ℤ) else (b55.toNat : ℤ) + 128]) := by
    unfold C16Sc.clamp56 toInts
    simp only [List.map_cons, List.map_append, List.map_nil, List.getD_cons_zero, List.getD_cons_succ, List.take_succ_cons,
      List.drop_succ_cons, List.drop_zero, List.cons_append]
    have hml : (List.map (fun x : UInt8 => (x.toNat : ℤ)) mid).length = 54 := by simp [hm]
    have g : (List.map (fun x : UInt8 => (x.toNat : ℤ)) mid ++ [(b55.toNat : ℤ), (b56.toNat : ℤ)]).getD 54 0 = (b55.toNat : ℤ) := by
      rw [List.getD_eq_getElem?_getD, List.getElem?_append_right (by omega), hml]; rfl
    have t : (List.map (fun x : UInt8 => (x.toNat : ℤ)) mid ++ [(b55.toNat : ℤ), (b56.toNat : ℤ)]).take 54 =
        List.map (fun x : UInt8 => (x.toNat : ℤ)) mid := by
      rw [List.take_append_of_le_length (by omega), List.take_of_length_le (by omega)]
    rw [g, t]
  rw [eR]
  simp only [toInts, List.map_cons, List.map_append, List.map_nil, Model.Sc448.evalLE]
  rw [and_fc, evalLE_append, evalLE_append]
  simp only [Model.Sc448.evalLE, List.length_map]
  rw [or_80]
  push_cast; ring

end C13
