import Goat.Model.Rand
/-
C19 helper lemmas, part 3: `mask XOR be64(c)` is injective in `c` on `[0, 2^64)`.
-/
namespace Model.Rand

theorem encodeLE_length : ∀ (n v : Nat), (Bytes.encodeLE n v).length = n
  | 0, _ => rfl
  | n + 1, v => by simp [Bytes.encodeLE, encodeLE_length n]

theorem decodeLE_encodeLE : ∀ (n v : Nat), Bytes.decodeLE (Bytes.encodeLE n v) = v % 256 ^ n
  | 0, v => by simp [Bytes.encodeLE, Bytes.decodeLE, Nat.mod_one]
  | n + 1, v => by
    simp only [Bytes.encodeLE, Bytes.decodeLE, decodeLE_encodeLE n, UInt8.toNat_ofNat']
    have h1 : v % 256 % 2 ^ 8 = v % 256 := by omega
    rw [h1]
    have h2 : (256 : Nat) ^ (n + 1) = 256 * 256 ^ n := by rw [Nat.pow_succ, Nat.mul_comm]
    rw [h2, Nat.mod_mul]

theorem be64_length (c : Nat) : (be64 c).length = 8 := by
  simp [be64, Bytes.encodeBE, encodeLE_length]

theorem be64_inj {c₁ c₂ : Nat} (h₁ : c₁ < 2 ^ 64) (h₂ : c₂ < 2 ^ 64) (h : be64 c₁ = be64 c₂) :
    c₁ = c₂ := by
  unfold be64 Bytes.encodeBE at h
  have h' : Bytes.encodeLE 8 c₁ = Bytes.encodeLE 8 c₂ := List.reverse_inj.mp h
  have := congrArg Bytes.decodeLE h'
  rw [decodeLE_encodeLE, decodeLE_encodeLE] at this
  have e : (256 : Nat) ^ 8 = 2 ^ 64 := by decide
  rw [e, Nat.mod_eq_of_lt h₁, Nat.mod_eq_of_lt h₂] at this
  exact this

theorem zipWith_xor_inj : ∀ (t a b : Bytes), a.length = t.length → b.length = t.length →
    List.zipWith (· ^^^ ·) t a = List.zipWith (· ^^^ ·) t b → a = b
  | [], a, b, ha, hb, _ => by
    simp at ha hb; simp [ha, hb]
  | x :: t, a, b, ha, hb, h => by
    cases a with
    | nil => simp at ha
    | cons y a =>
      cases b with
      | nil => simp at hb
      | cons z b =>
        simp only [List.zipWith_cons_cons, List.cons.injEq] at h
        have hy : y = z := (UInt8.xor_right_inj x).mp h.1
        have := zipWith_xor_inj t a b (by simpa using ha) (by simpa using hb) h.2
        rw [hy, this]

theorem xorCtr_length {mask : Bytes} (c : Nat) (hm : mask.length = 12) : (xorCtr mask c).length = 12 := by
  simp [xorCtr, be64_length, hm]

/-- injectivity of `c ↦ mask XOR be64(c)` on `[0, 2^64)` for a 12-byte mask -/
theorem xorCtr_inj {mask : Bytes} {c₁ c₂ : Nat} (hm : mask.length = 12)
    (h₁ : c₁ < 2 ^ 64) (h₂ : c₂ < 2 ^ 64) (h : xorCtr mask c₁ = xorCtr mask c₂) : c₁ = c₂ := by
  unfold xorCtr at h
  have := (List.append_inj h rfl).2
  have hl : (mask.drop 4).length = 8 := by simp [hm]
  exact be64_inj h₁ h₂ (zipWith_xor_inj _ _ _ (by rw [be64_length, hl]) (by rw [be64_length, hl]) this)

/-- the IVs of an epoch in which `n` IVs have been issued -/
def ivRange (mask : Bytes) (n : Nat) : List Bytes := (List.range n).map (fun k => xorCtr mask (k + 1))

theorem ivRange_succ (mask : Bytes) (n : Nat) :
    ivRange mask (n + 1) = ivRange mask n ++ [xorCtr mask (n + 1)] := by
  simp [ivRange, List.range_succ]

@[simp] theorem ivRange_zero (mask : Bytes) : ivRange mask 0 = [] := rfl

theorem ivRange_nodup {mask : Bytes} (hm : mask.length = 12) : ∀ n, n < 2 ^ 64 → (ivRange mask n).Nodup
  | 0, _ => by simp [ivRange]
  | n + 1, hn => by
    rw [ivRange_succ, List.nodup_append]
    refine ⟨ivRange_nodup hm n (by omega), by simp, ?_⟩
    intro a ha b hb
    simp only [List.mem_singleton] at hb
    subst hb
    simp only [ivRange, List.mem_map, List.mem_range] at ha
    obtain ⟨k, hk, rfl⟩ := ha
    intro heq
    have := xorCtr_inj hm (by omega) hn heq
    omega

end Model.Rand
