import GoatProofs.Lemmas.C10Lens
/-
DecodeCustom on a used destination (struct arm of `decodeInto`): members of the JSON object are
processed one by one; a member that names no field changes nothing, a member naming a field writes
that field only.  Hence a field whose claim name is absent from the object keeps its value.
-/
namespace GoatProofs.Lemmas.C10Frame
open Model Model.Custom GoatProofs.Lemmas.C10Lens

/-- one iteration of `for key, value := range in` in the struct arm (cuctom_decode.go:182-210) -/
def decStep (fuel : Nat) (t : Ty) (sv : Val) (kv : String × Wire) : PO Val :=
  match firstField kv.1 (typeFields t) with
  | none => pure sv
  | some f => do
    let tv ← PO.ofOutcome (walkGet true f.index t true sv)
    let x ← decodeInto fuel tv.1 tv.2 kv.2
    pure (walkSet f.index t sv x)

theorem decodeInto_struct_eq (fuel : Nat) (id : String) (fields : List Field) (cur : Val)
    (kvs : List (String × Wire)) :
    decodeInto (fuel + 1) (.struct id fields) cur (.obj kvs) =
      kvs.foldlM (decStep fuel (.struct id fields)) (fitStruct fields.length cur) := rfl

theorem fitStruct_length (n : Nat) (v : Val) : ∃ xs, fitStruct n v = .strct xs ∧ xs.length = n := by
  cases v <;> simp [fitStruct]

theorem fitStruct_id (n : Nat) (xs : List Val) (h : xs.length = n) : fitStruct n (.strct xs) = .strct xs := by
  simp [fitStruct, ← h]

theorem firstField_some (name : String) (fs : List FlatField) (f : FlatField)
    (h : firstField name fs = some f) : f ∈ fs ∧ f.name = name := by
  induction fs with
  | nil => simp [firstField] at h
  | cons g r ih =>
    unfold firstField at h
    by_cases hg : g.name = name
    · simp only [hg, if_true, Option.some.injEq] at h
      subst h; exact ⟨List.mem_cons_self, hg⟩
    · simp only [hg, if_false] at h
      obtain ⟨h1, h2⟩ := ih h
      exact ⟨List.mem_cons_of_mem _ h1, h2⟩

/-- fields with different claim names sit at diverging index paths (decidable for a given type; it
    holds for every type whose flattened field list has no repeated entry) -/
def PathsApart (t : Ty) : Prop :=
  ∀ f ∈ typeFields t, ∀ g ∈ typeFields t, f.name ≠ g.name → diverge f.index g.index = true

def pathsApart (t : Ty) : Bool :=
  (typeFields t).all fun f => (typeFields t).all fun g => f.name == g.name || diverge f.index g.index

theorem pathsApart_iff (t : Ty) (h : pathsApart t = true) : PathsApart t := by
  intro f hf g hg hne
  unfold pathsApart at h
  rw [List.all_eq_true] at h
  have h1 := h f hf
  rw [List.all_eq_true] at h1
  have h2 := h1 g hg
  simp only [Bool.or_eq_true, beq_iff_eq] at h2
  rcases h2 with h2 | h2
  · exact absurd h2 hne
  · exact h2

theorem fold_frame (o : Oracle) (fuel : Nat) (t : Ty) (hp : PathsApart t) (g : FlatField)
    (hg : g ∈ typeFields t) :
    ∀ (kvs : List (String × Wire)) (sv sv' : Val),
      (kvs.foldlM (decStep fuel t) sv).run o = .ok sv' → (∀ kv ∈ kvs, kv.1 ≠ g.name) →
      walkGet true g.index t true sv' = walkGet true g.index t true sv := by
  intro kvs
  induction kvs with
  | nil =>
    intro sv sv' h _
    simp only [List.foldlM_nil, PO.run_pure, Outcome.ok.injEq] at h
    rw [h]
  | cons kv r ih =>
    intro sv sv' h hab
    simp only [List.foldlM_cons] at h
    obtain ⟨sv1, h1, h2⟩ := PO.run_bind_eq_ok o _ _ _ h
    have hr := ih sv1 sv' h2 (fun kv' hkv' => hab kv' (List.mem_cons_of_mem _ hkv'))
    rw [hr]
    unfold decStep at h1
    cases hff : firstField kv.1 (typeFields t) with
    | none =>
      rw [hff] at h1
      simp only [PO.run_pure, Outcome.ok.injEq] at h1
      rw [h1]
    | some f =>
      rw [hff] at h1
      simp only at h1
      obtain ⟨tv, hw, h1⟩ := PO.run_bind_eq_ok o _ _ _ h1
      obtain ⟨x, _, h1⟩ := PO.run_bind_eq_ok o _ _ _ h1
      simp only [PO.run_ofOutcome] at hw
      simp only [PO.run_pure, Outcome.ok.injEq] at h1
      subst h1
      obtain ⟨hfm, hfn⟩ := firstField_some _ _ _ hff
      have hne : f.name ≠ g.name := by
        rw [hfn]; exact hab kv List.mem_cons_self
      exact walkGet_walkSet_other true f.index g.index t true sv x (hp f hfm g hg hne) ⟨tv, hw⟩

/-- **decodeInto_frame** — DecodeCustom of a JSON object into a struct destination that already
    holds `sv`: every field whose claim name is absent from the object reads after the call exactly
    what it read before (it is kept, not zeroed), for every type whose differently named fields sit
    at diverging paths, every destination value, every object and every oracle. -/
theorem decodeInto_frame (o : Oracle) (fuel : Nat) (id : String) (fields : List Field)
    (hp : PathsApart (.struct id fields)) (kvs : List (String × Wire)) (sv sv' : Val)
    (h : (decodeInto (fuel + 1) (.struct id fields) sv (.obj kvs)).run o = .ok sv')
    (g : FlatField) (hg : g ∈ typeFields (.struct id fields)) (habsent : ∀ kv ∈ kvs, kv.1 ≠ g.name) :
    walkGet true g.index (.struct id fields) true sv' =
      walkGet true g.index (.struct id fields) true (fitStruct fields.length sv) := by
  rw [decodeInto_struct_eq] at h
  exact fold_frame o fuel _ hp g hg kvs _ sv' h habsent

theorem fold_present (o : Oracle) (fuel : Nat) (t : Ty) (hp : PathsApart t) :
    ∀ (kvs : List (String × Wire)) (sv sv' : Val),
      (kvs.foldlM (decStep fuel t) sv).run o = .ok sv' → (kvs.map Prod.fst).Nodup →
      ∀ kv ∈ kvs, ∀ f, firstField kv.1 (typeFields t) = some f →
        ∃ tv x, walkGet true f.index t true sv = .ok tv ∧
          (decodeInto fuel tv.1 tv.2 kv.2).run o = .ok x ∧
          walkGet true f.index t true sv' = .ok (tv.1, x) := by
  intro kvs
  induction kvs with
  | nil => intro sv sv' _ _ kv hkv; cases hkv
  | cons kv0 r ih =>
    intro sv sv' h hnd kv hkv f hff
    simp only [List.map_cons, List.nodup_cons] at hnd
    simp only [List.foldlM_cons] at h
    obtain ⟨sv1, h1, h2⟩ := PO.run_bind_eq_ok o _ _ _ h
    obtain ⟨hfm, hfn⟩ := firstField_some _ _ _ hff
    simp only [List.mem_cons] at hkv
    rcases hkv with hkv | hkv
    · -- this member: written now, untouched by the rest
      subst hkv
      unfold decStep at h1
      rw [hff] at h1
      simp only at h1
      obtain ⟨tv, hw, h1⟩ := PO.run_bind_eq_ok o _ _ _ h1
      obtain ⟨x, hx, h1⟩ := PO.run_bind_eq_ok o _ _ _ h1
      simp only [PO.run_ofOutcome] at hw
      simp only [PO.run_pure, Outcome.ok.injEq] at h1
      subst h1
      refine ⟨tv, x, hw, hx, ?_⟩
      have hrest : ∀ kv' ∈ r, kv'.1 ≠ f.name := by
        intro kv' hkv' heq
        apply hnd.1
        rw [hfn] at heq
        rw [← heq]
        exact List.mem_map_of_mem hkv'
      rw [fold_frame o fuel t hp f hfm r _ sv' h2 hrest]
      exact GoatProofs.Lemmas.C10Lens.walkGet_walkSet_same true f.index t true sv x tv hw
    · -- a later member: the first step does not touch its field
      obtain ⟨tv, x, hw, hx, hfin⟩ := ih sv1 sv' h2 hnd.2 kv hkv f hff
      refine ⟨tv, x, ?_, hx, hfin⟩
      have hk0 : kv0.1 ≠ kv.1 := by
        intro heq
        apply hnd.1
        rw [heq]
        exact List.mem_map_of_mem hkv
      rw [← hw]
      symm
      unfold decStep at h1
      cases hff0 : firstField kv0.1 (typeFields t) with
      | none =>
        rw [hff0] at h1
        simp only [PO.run_pure, Outcome.ok.injEq] at h1
        rw [h1]
      | some f0 =>
        rw [hff0] at h1
        simp only at h1
        obtain ⟨tv0, hw0, h1⟩ := PO.run_bind_eq_ok o _ _ _ h1
        obtain ⟨x0, _, h1⟩ := PO.run_bind_eq_ok o _ _ _ h1
        simp only [PO.run_ofOutcome] at hw0
        simp only [PO.run_pure, Outcome.ok.injEq] at h1
        subst h1
        obtain ⟨hfm0, hfn0⟩ := firstField_some _ _ _ hff0
        have hne : f0.name ≠ f.name := by rw [hfn0, hfn]; exact hk0
        exact walkGet_walkSet_other true f0.index f.index t true sv x0 (hp f0 hfm0 f hfm hne) ⟨tv0, hw0⟩

/-- **decodeInto_frame (present names)** — a member whose name is a claim name of the type
    overwrites exactly that field: after the call the field reads the result of decoding the member
    into the value the field held before the call (unique member names, as in any JSON object
    delivered by encoding/json). -/
theorem decodeInto_present (o : Oracle) (fuel : Nat) (id : String) (fields : List Field)
    (hp : PathsApart (.struct id fields)) (kvs : List (String × Wire)) (sv sv' : Val)
    (h : (decodeInto (fuel + 1) (.struct id fields) sv (.obj kvs)).run o = .ok sv')
    (hnd : (kvs.map Prod.fst).Nodup) (kv : String × Wire) (hkv : kv ∈ kvs) (f : FlatField)
    (hff : firstField kv.1 (typeFields (.struct id fields)) = some f) :
    ∃ tv x, walkGet true f.index (.struct id fields) true (fitStruct fields.length sv) = .ok tv ∧
      (decodeInto fuel tv.1 tv.2 kv.2).run o = .ok x ∧
      walkGet true f.index (.struct id fields) true sv' = .ok (tv.1, x) := by
  rw [decodeInto_struct_eq] at h
  exact fold_present o fuel _ hp kvs _ sv' h hnd kv hkv f hff

/-- a member that names no field of the type changes nothing at all -/
theorem decStep_unknown (o : Oracle) (fuel : Nat) (t : Ty) (sv : Val) (kv : String × Wire)
    (h : ∀ f ∈ typeFields t, f.name ≠ kv.1) : (decStep fuel t sv kv).run o = .ok sv := by
  unfold decStep
  cases hff : firstField kv.1 (typeFields t) with
  | none => simp
  | some f =>
    obtain ⟨hfm, hfn⟩ := firstField_some _ _ _ hff
    exact absurd hfn (h f hfm)

end GoatProofs.Lemmas.C10Frame
