import GoatProofs.Lemmas.C12AKW
/-
C12, AES Key Wrap at specification level: unwrap inverts wrap (given D ∘ E = id on blocks) and
wrap inverts unwrap (given E ∘ D = id on blocks), by the inverse-loop principle.
-/
namespace C12L
open Spec Spec.RFC3394

/-- state invariant: 64-bit register, n 64-bit blocks -/
def SInv (n : Nat) (s : State) : Prop := s.1.length = 8 ∧ Uniform 8 s.2 ∧ s.2.length = n

theorem getD_set_self (R : List Bytes) (i : Nat) (x : Bytes) (hi : i < R.length) :
    (R.set i x).getD i [] = x := by
  rw [List.getD_eq_getElem?_getD, List.getElem?_set_self hi]; rfl

theorem set_getD_self (R : List Bytes) (i : Nat) (hi : i < R.length) : R.set i (R.getD i []) = R := by
  rw [List.getD_eq_getElem?_getD]
  simp only [hi, List.getElem?_eq_getElem, Option.getD_some]
  exact List.set_getElem_self hi

theorem wrapStep_inv (E : Bytes → Bytes) (hE : ∀ x, (E x).length = 16) (n j i0 : Nat) (_hi : i0 < n)
    (s : State) (h : SInv n s) : SInv n (wrapStep E n j (i0 + 1) s) := by
  obtain ⟨hA, hR, hl⟩ := h
  refine ⟨?_, ?_, ?_⟩
  · simp only [wrapStep, msb64]
    rw [xorBytes_length, List.length_take, hE, be64_length]; rfl
  · simp only [wrapStep, setR, lsb64, Nat.add_sub_cancel]
    exact hR.set _ _ (by rw [List.length_drop, hE])
  · simp only [wrapStep, setR, List.length_set]; exact hl

theorem unwrapStep_inv (D : Bytes → Bytes) (hD : ∀ x, (D x).length = 16) (n j i0 : Nat) (_hi : i0 < n)
    (s : State) (h : SInv n s) : SInv n (unwrapStep D n j (i0 + 1) s) := by
  obtain ⟨hA, hR, hl⟩ := h
  refine ⟨?_, ?_, ?_⟩
  · simp only [unwrapStep, msb64]
    rw [List.length_take, hD]; rfl
  · simp only [unwrapStep, setR, lsb64, Nat.add_sub_cancel]
    exact hR.set _ _ (by rw [List.length_drop, hD])
  · simp only [unwrapStep, setR, List.length_set]; exact hl

/-- the RFC unwrap step undoes the RFC wrap step -/
theorem unwrapStep_wrapStep (E D : Bytes → Bytes) (hE : ∀ x, (E x).length = 16)
    (hDE : ∀ x, x.length = 16 → D (E x) = x) (n j i0 : Nat) (hi : i0 < n) (s : State) (h : SInv n s) :
    unwrapStep D n j (i0 + 1) (wrapStep E n j (i0 + 1) s) = s := by
  obtain ⟨A, R⟩ := s
  obtain ⟨hA, hR, hl⟩ := h
  simp only at hA hR hl
  have hi' : i0 < R.length := by omega
  have hRi : (R.getD i0 []).length = 8 := getD_length hR hi'
  have h16 : (A ++ R.getD i0 []).length = 16 := by rw [List.length_append, hA, hRi]
  simp only [unwrapStep, wrapStep, getR, setR, msb64, lsb64, Nat.add_sub_cancel]
  rw [xorBytes_cancel _ _ (by rw [List.length_take, hE, be64_length]; omega), getD_set_self _ _ _ hi',
    List.take_append_drop, hDE _ h16, List.take_left' hA, List.drop_left' hA, List.set_set, set_getD_self _ _ hi']

/-- the RFC wrap step undoes the RFC unwrap step -/
theorem wrapStep_unwrapStep (E D : Bytes → Bytes) (hD : ∀ x, (D x).length = 16)
    (hED : ∀ x, x.length = 16 → E (D x) = x) (n j i0 : Nat) (hi : i0 < n) (s : State) (h : SInv n s) :
    wrapStep E n j (i0 + 1) (unwrapStep D n j (i0 + 1) s) = s := by
  obtain ⟨A, R⟩ := s
  obtain ⟨hA, hR, hl⟩ := h
  simp only at hA hR hl
  have hi' : i0 < R.length := by omega
  have hRi : (R.getD i0 []).length = 8 := getD_length hR hi'
  have hx : (xorBytes A (be64 (n * j + (i0 + 1)))).length = 8 := by rw [xorBytes_length, hA, be64_length]; rfl
  have h16 : (xorBytes A (be64 (n * j + (i0 + 1))) ++ R.getD i0 []).length = 16 := by
    rw [List.length_append, hx, hRi]
  simp only [unwrapStep, wrapStep, getR, setR, msb64, lsb64, Nat.add_sub_cancel]
  rw [getD_set_self _ _ _ hi', List.take_append_drop, hED _ h16, List.take_left' hx, List.drop_left' hx,
    xorBytes_cancel _ _ (by rw [hA, be64_length]; omega), List.set_set, set_getD_self _ _ hi']

theorem iterUp_iterDown_inv {σ : Type} (Inv : σ → Prop) (f g : Nat → σ → σ) (n : Nat)
    (hpres : ∀ k, k < n → ∀ s, Inv s → Inv (g k s))
    (hinv : ∀ k, k < n → ∀ s, Inv s → f k (g k s) = s) (s : σ) (hs : Inv s) :
    iterUp f n (iterDown g n s) = s ∧ Inv (iterDown g n s) := by
  induction n generalizing s with
  | zero => exact ⟨rfl, hs⟩
  | succ n ih =>
    have hg := hpres n (Nat.lt_succ_self n) s hs
    have ⟨h1, h2⟩ := ih (fun k hk => hpres k (Nat.lt_succ_of_lt hk)) (fun k hk => hinv k (Nat.lt_succ_of_lt hk)) _ hg
    refine ⟨?_, h2⟩
    simp only [iterUp, iterDown]
    rw [h1, hinv n (Nat.lt_succ_self n) s hs]

theorem wrapLoop_inv (E : Bytes → Bytes) (hE : ∀ x, (E x).length = 16) (n : Nat) (s : State) (h : SInv n s) :
    SInv n (wrapLoop E n s) := by
  unfold wrapLoop
  apply iterUp_inv (SInv n) _ 6 _ s h
  intro j _ s hs
  exact iterUp_inv (SInv n) _ n (fun i hi s hs => wrapStep_inv E hE n j i hi s hs) s hs

theorem unwrapLoop_inv (D : Bytes → Bytes) (hD : ∀ x, (D x).length = 16) (n : Nat) (s : State) (h : SInv n s) :
    SInv n (unwrapLoop D n s) := by
  unfold unwrapLoop
  apply iterDown_inv (SInv n) _ 6 _ s h
  intro j _ s hs
  exact iterDown_inv (SInv n) _ n (fun i hi s hs => unwrapStep_inv D hD n j i hi s hs) s hs

/-- §2.2.2 step 2 undoes §2.2.1 step 2 -/
theorem unwrapLoop_wrapLoop (E D : Bytes → Bytes) (hE : ∀ x, (E x).length = 16)
    (hDE : ∀ x, x.length = 16 → D (E x) = x) (n : Nat) (s : State) (h : SInv n s) :
    unwrapLoop D n (wrapLoop E n s) = s := by
  unfold unwrapLoop wrapLoop
  refine (iterDown_iterUp_inv (SInv n) _ _ 6 ?_ ?_ s h).1
  · intro j _ s hs
    exact iterUp_inv (SInv n) _ n (fun i hi s hs => wrapStep_inv E hE n j i hi s hs) s hs
  · intro j _ s hs
    exact (iterDown_iterUp_inv (SInv n) _ _ n (fun i hi s hs => wrapStep_inv E hE n j i hi s hs)
      (fun i hi s hs => unwrapStep_wrapStep E D hE hDE n j i hi s hs) s hs).1

/-- §2.2.1 step 2 undoes §2.2.2 step 2 -/
theorem wrapLoop_unwrapLoop (E D : Bytes → Bytes) (hD : ∀ x, (D x).length = 16)
    (hED : ∀ x, x.length = 16 → E (D x) = x) (n : Nat) (s : State) (h : SInv n s) :
    wrapLoop E n (unwrapLoop D n s) = s := by
  unfold unwrapLoop wrapLoop
  refine (iterUp_iterDown_inv (SInv n) _ _ 6 ?_ ?_ s h).1
  · intro j _ s hs
    exact iterDown_inv (SInv n) _ n (fun i hi s hs => unwrapStep_inv D hD n j i hi s hs) s hs
  · intro j _ s hs
    exact (iterUp_iterDown_inv (SInv n) _ _ n (fun i hi s hs => unwrapStep_inv D hD n j i hi s hs)
      (fun i hi s hs => wrapStep_unwrapStep E D hD hED n j i hi s hs) s hs).1

theorem blocks_of_flatten (R : List Bytes) (h : Uniform 8 R) : blocks 8 R.length R.flatten = R := by
  induction R with
  | nil => rfl
  | cons r R ih =>
    simp only [List.length_cons, blocks, List.flatten_cons]
    rw [List.take_left' h.head, List.drop_left' h.head, ih h.tail]

/-- octet-string level: unwrap (wrap keyData) = keyData -/
theorem spec_unwrap_wrap (E D : Bytes → Bytes) (hE : ∀ x, (E x).length = 16)
    (hDE : ∀ x, x.length = 16 → D (E x) = x) (cek : Bytes) (h8 : cek.length % 8 = 0) :
    Spec.RFC3394.unwrap D (Spec.RFC3394.wrap E cek) = some cek := by
  have hlen : cek.length = 8 * (cek.length / 8) := by omega
  generalize hn : cek.length / 8 = n at hlen
  have hP := blocks_flatten 8 n cek hlen
  have hU := blocks_uniform 8 n cek (by omega)
  have hPl := blocks_length 8 n cek
  have h0 : SInv n (iv, blocks 8 n cek) := ⟨rfl, hU, hPl⟩
  have hw := wrapLoop_inv E hE n _ h0
  have hinv := unwrapLoop_wrapLoop E D hE hDE n _ h0
  simp only [Spec.RFC3394.wrap, wrapBlocks, hn, hPl]
  generalize wrapLoop E n (iv, blocks 8 n cek) = s at hw hinv
  obtain ⟨hA, hR, hl⟩ := hw
  have hfl := flatten_length hR
  have hc : (s.1 ++ s.2.flatten).length / 8 - 1 = s.2.length := by
    rw [List.length_append, hA, hfl]; omega
  simp only [Spec.RFC3394.unwrap, hc, List.take_left' hA, List.drop_left' hA]
  rw [blocks_of_flatten _ hR]
  simp only [unwrapBlocks, hl]
  rw [show (s.1, s.2) = s from rfl, hinv]
  simp [hP]

theorem wrap_length (E : Bytes → Bytes) (hE : ∀ x, (E x).length = 16) (cek : Bytes) (h8 : cek.length % 8 = 0) :
    (Spec.RFC3394.wrap E cek).length = cek.length + 8 := by
  have hlen : cek.length = 8 * (cek.length / 8) := by omega
  generalize hn : cek.length / 8 = n at hlen
  have h0 : SInv n (iv, blocks 8 n cek) := ⟨rfl, blocks_uniform 8 n cek (by omega), blocks_length 8 n cek⟩
  obtain ⟨hA, hR, hl⟩ := wrapLoop_inv E hE n _ h0
  simp only [Spec.RFC3394.wrap, wrapBlocks, hn, blocks_length] at hA hR hl ⊢
  rw [List.length_append, hA, flatten_length hR, hl]; omega

end C12L
