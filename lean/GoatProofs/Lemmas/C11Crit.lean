import GoatProofs.Lemmas.C11Tables
/-
C11 — the crit validation of decodeHeader: generic in the table.
-/
namespace C11
open Model.HeaderTable Model.Header

theorem set_preserves_crit {h h' : Header} {f : Fld} {v : FVal}
    (hs : h.set f v = some h') (hf : f ≠ .crit) : h'.crit = h.crit := by
  cases f <;> cases v <;> simp [Header.set] at hs <;> first | (subst hs; rfl) | (exact absurd rfl hf)

/-- a step that cannot change `crit` -/
def noCrit : DecStep → Bool
  | .row r => Fld.ofString r.field != some .crit
  | .critCheck _ _ => true

theorem decStep_preserves_crit (o : Oracle) (look : String → Option Wire) (st st' : DecState)
    (s : DecStep) (hn : noCrit s = true) (h : (decStep look st s).run o = .ok st') :
    st'.1.crit = st.1.crit := by
  cases s with
  | row r =>
    simp only [noCrit, bne_iff_ne, ne_eq] at hn
    simp only [decStep] at h
    split at h
    · simp at h
    · rename_i f hf
      have hfc : f ≠ Fld.crit := by intro e; subst e; exact hn hf
      rw [PO.run_bind] at h
      split at h
      · rename_i rv hrv
        split at h
        · simp at h; rw [← h]
        · rename_i v hv
          split at h
          · rename_i h' hs
            simp at h; rw [← h]; exact set_preserves_crit hs hfc
          · simp at h
      · cases h
      · cases h
  | critCheck fld known =>
    simp only [decStep] at h
    split at h
    · split at h
      · simp at h; rw [← h]
      · simp at h
    · simp at h

theorem decSteps_preserve_crit (o : Oracle) (look : String → Option Wire) (steps : List DecStep)
    (hn : steps.all noCrit = true) (st st' : DecState)
    (h : (decSteps look steps st).run o = .ok st') : st'.1.crit = st.1.crit := by
  induction steps generalizing st with
  | nil => simp [decSteps] at h; rw [← h]
  | cons s rest ih =>
    simp only [List.all_cons, Bool.and_eq_true] at hn
    unfold decSteps at h
    rw [PO.run_bind] at h
    split at h
    · rename_i st1 h1
      rw [ih hn.2 st1 h, decStep_preserves_crit o look st st1 s hn.1 h1]
    · cases h
    · cases h

/-- somewhere in the step list crit is validated against `known`, and nothing after it writes crit -/
def critGuarded (known : List String) : List DecStep → Bool
  | [] => false
  | .critCheck f k :: post => (f == "crit" && k == known && post.all noCrit) || critGuarded known post
  | .row _ :: rest => critGuarded known rest

theorem decSteps_crit_ok (o : Oracle) (look : String → Option Wire) (known : List String)
    (steps : List DecStep) (hg : critGuarded known steps = true) (st st' : DecState)
    (h : (decSteps look steps st).run o = .ok st') : critOK known st'.1.crit = true := by
  induction steps generalizing st with
  | nil => simp [critGuarded] at hg
  | cons s rest ih =>
    unfold decSteps at h
    rw [PO.run_bind] at h
    split at h
    · rename_i st1 h1
      cases s with
      | row r => exact ih (by simpa [critGuarded] using hg) st1 h
      | critCheck f k =>
        simp only [critGuarded, Bool.or_eq_true, Bool.and_eq_true, beq_iff_eq] at hg
        rcases hg with ⟨⟨hf, hk⟩, hpost⟩ | hg
        · subst hf; subst hk
          rw [decSteps_preserve_crit o look rest hpost st1 st' h]
          -- the check itself
          simp only [decStep, Fld.ofString, Option.map, Header.get] at h1
          split at h1
          · simp at h1; rw [← h1]; assumption
          · simp at h1
        · exact ih hg st1 h
    · cases h
    · cases h

/-- decodeHeader succeeds only with every crit entry in `known` -/
theorem decodeWith_crit (o : Oracle) (known : List String) (steps : List DecStep)
    (hg : critGuarded known steps = true) (obj : List (String × Wire)) (h : Header)
    (hd : (decodeWith steps obj).run o = .ok h) : critOK known h.crit = true := by
  unfold decodeWith at hd
  rw [PO.run_bind] at hd
  split at hd
  · rename_i st hst
    simp at hd
    rw [← hd]
    exact decSteps_crit_ok o _ known steps hg _ st hst
  · cases hd
  · cases hd

theorem unmarshalWith_crit (o : Oracle) (known : List String) (steps : List DecStep)
    (hg : critGuarded known steps = true) (data : Bytes) (h : Header)
    (hd : (unmarshalWith steps data).run o = .ok h) : critOK known h.crit = true := by
  unfold unmarshalWith at hd
  rw [PO.run_bind] at hd
  simp only [PO.run_query] at hd
  split at hd
  · exact decodeWith_crit o known steps hg _ h hd
  · exact decodeWith_crit o known steps hg _ h hd
  · simp at hd

theorem critOK_iff (known crit : List String) : critOK known crit = true ↔ ∀ p ∈ crit, p ∈ known := by
  simp [critOK, List.all_eq_true]

end C11
