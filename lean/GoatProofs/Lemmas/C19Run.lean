import Goat.Model.Rand
/-
C19 helper lemmas, part 1: how the state-and-outcome monad `M` runs; the log-extension relation
`Ext` (every draw is the oracle's answer for the segment starting where the previous one ended).
-/
namespace Model.Rand

namespace M

@[simp] theorem run_pure {α} (o : Oracle) (a : α) (s : St) :
    (Pure.pure a : M α).run o s = (.ok a, s) := rfl

@[simp] theorem run_pure' {α} (o : Oracle) (a : α) (s : St) :
    (M.pure a : M α).run o s = (.ok a, s) := rfl

@[simp] theorem run_throw {α} (o : Oracle) (c : String) (s : St) :
    (M.throw c : M α).run o s = (.err c, s) := rfl

@[simp] theorem run_panic {α} (o : Oracle) (c : String) (s : St) :
    (M.panic c : M α).run o s = (.panic c, s) := rfl

@[simp] theorem run_modify (o : Oracle) (f : St → St) (s : St) :
    (M.modify f).run o s = (.ok (), f s) := rfl

theorem run_bind {α β} (o : Oracle) (m : M α) (f : α → M β) (s : St) :
    (m >>= f).run o s = (match m.run o s with
      | (.ok a, s') => (f a).run o s'
      | (.err c, s') => (.err c, s')
      | (.panic p, s') => (.panic p, s')) := by
  show Prog.run o (Prog.bind (m s) (bindK f)) = _
  rw [Prog.run_bind']
  unfold run
  rcases Prog.run o (m s) with ⟨r, s'⟩
  cases r <;> rfl

theorem run_bind_ok {α β} (o : Oracle) (m : M α) (f : α → M β) (s s' : St) (a : α)
    (h : m.run o s = (.ok a, s')) : (m >>= f).run o s = (f a).run o s' := by
  rw [run_bind, h]

theorem run_bind_err {α β} (o : Oracle) (m : M α) (f : α → M β) (s s' : St) (c : String)
    (h : m.run o s = (.err c, s')) : (m >>= f).run o s = (.err c, s') := by
  rw [run_bind, h]

theorem run_bind_panic {α β} (o : Oracle) (m : M α) (f : α → M β) (s s' : St) (c : String)
    (h : m.run o s = (.panic c, s')) : (m >>= f).run o s = (.panic c, s') := by
  rw [run_bind, h]

/-- if a bind succeeds, its first part succeeded -/
theorem run_bind_eq_ok {α β} (o : Oracle) (m : M α) (f : α → M β) (s s'' : St) (b : β)
    (h : (m >>= f).run o s = (.ok b, s'')) :
    ∃ a s', m.run o s = (.ok a, s') ∧ (f a).run o s' = (.ok b, s'') := by
  rw [run_bind] at h
  rcases hm : m.run o s with ⟨r, s'⟩
  rw [hm] at h
  cases r with
  | ok a => exact ⟨a, s', rfl, h⟩
  | err c => simp at h
  | panic c => simp at h

end M

/-- the answer of the oracle to the draw a state would make next -/
def ask (o : Oracle) (pos n : Nat) : Option Bytes := randAt (o ⟨"rand", [.int pos, .int n]⟩) n

theorem randAt_some {w : Wire} {n : Nat} {b : Bytes} (h : randAt w n = some b) :
    w = .bytes b ∧ b.length = n := by
  unfold randAt at h
  split at h
  · split at h
    · simp at h; subst h; exact ⟨rfl, by assumption⟩
    · simp at h
  · simp at h

theorem run_draw (o : Oracle) (k : Kind) (n : Nat) (s : St) :
    (draw k n).run o s = (match ask o s.pos n with
      | some b => (.ok b, s.push k b)
      | none => (.err "rand", s)) := by
  show Prog.run o (draw k n s) = _
  unfold draw ask
  simp only [Prog.run_ask]
  cases randAt (o ⟨"rand", [.int s.pos, .int n]⟩) n <;> rfl

/-- a successful draw: exactly `n` bytes, they are the oracle's answer at `s.pos`, and the state
    is advanced by exactly `n` -/
theorem draw_ok {o : Oracle} {k : Kind} {n : Nat} {s s' : St} {b : Bytes}
    (h : (draw k n).run o s = (.ok b, s')) :
    s' = s.push k b ∧ b.length = n ∧ o ⟨"rand", [.int s.pos, .int n]⟩ = .bytes b := by
  rw [run_draw] at h
  cases ha : ask o s.pos n with
  | none => rw [ha] at h; simp at h
  | some b' =>
    rw [ha] at h
    simp at h
    obtain ⟨rfl, rfl⟩ := h
    have := randAt_some ha
    exact ⟨rfl, this.2, this.1⟩

/-- a failed draw leaves the state unchanged -/
theorem draw_not_ok {o : Oracle} {k : Kind} {n : Nat} {s s' : St} {r : Outcome Bytes}
    (h : (draw k n).run o s = (r, s')) (hr : ∀ b, r ≠ .ok b) : s' = s := by
  rw [run_draw] at h
  cases ha : ask o s.pos n with
  | none => rw [ha] at h; simp at h; exact h.2.symm
  | some b' => rw [ha] at h; simp at h; exact absurd h.1.symm (hr b')

/-! ## the chain of draws -/

/-- `ds` are consecutive segments of the oracle's random stream from `p` to `p'` -/
def Chain (o : Oracle) : Nat → List Draw → Nat → Prop
  | p, [], p' => p' = p
  | p, d :: ds, p' =>
    d.pos = p ∧ o ⟨"rand", [.int p, .int d.bytes.length]⟩ = .bytes d.bytes ∧
    Chain o (p + d.bytes.length) ds p'

theorem Chain.append {o : Oracle} : ∀ {p : Nat} {ds : List Draw} {p' : Nat} {es : List Draw} {p'' : Nat},
    Chain o p ds p' → Chain o p' es p'' → Chain o p (ds ++ es) p''
  | p, [], p', es, p'', h1, h2 => by
    simp only [Chain] at h1; subst h1; simpa using h2
  | p, d :: ds, p', es, p'', h1, h2 => by
    simp only [Chain, List.cons_append] at h1 ⊢
    exact ⟨h1.1, h1.2.1, Chain.append h1.2.2 h2⟩

theorem Chain.le {o : Oracle} : ∀ {p : Nat} {ds : List Draw} {p' : Nat}, Chain o p ds p' → p ≤ p'
  | p, [], p', h => by simp only [Chain] at h; omega
  | p, d :: ds, p', h => by
    simp only [Chain] at h
    have := Chain.le h.2.2
    omega

/-- every draw of a chain lies inside `[p, p')` -/
theorem Chain.bounds {o : Oracle} : ∀ {p : Nat} {ds : List Draw} {p' : Nat}, Chain o p ds p' →
    ∀ d ∈ ds, p ≤ d.pos ∧ d.pos + d.bytes.length ≤ p'
  | p, [], p', _, d, hd => by simp at hd
  | p, e :: ds, p', h, d, hd => by
    simp only [Chain] at h
    rcases List.mem_cons.mp hd with rfl | hd
    · have := Chain.le h.2.2; omega
    · have := Chain.bounds h.2.2 d hd; omega

/-- the draws of a chain are strictly ordered segments, hence pairwise disjoint -/
theorem Chain.pairwise {o : Oracle} : ∀ {p : Nat} {ds : List Draw} {p' : Nat}, Chain o p ds p' →
    ds.Pairwise (fun a b => a.pos + a.bytes.length ≤ b.pos)
  | p, [], p', _ => List.Pairwise.nil
  | p, d :: ds, p', h => by
    simp only [Chain] at h
    refine List.Pairwise.cons ?_ (Chain.pairwise h.2.2)
    intro b hb
    have := (Chain.bounds h.2.2 b hb).1
    omega

/-- every draw of a chain is the oracle's answer for its own segment -/
theorem Chain.answer {o : Oracle} : ∀ {p : Nat} {ds : List Draw} {p' : Nat}, Chain o p ds p' →
    ∀ d ∈ ds, o ⟨"rand", [.int d.pos, .int d.bytes.length]⟩ = .bytes d.bytes
  | p, [], p', _, d, hd => by simp at hd
  | p, e :: ds, p', h, d, hd => by
    simp only [Chain] at h
    rcases List.mem_cons.mp hd with rfl | hd
    · rw [h.1]; exact h.2.1
    · exact Chain.answer h.2.2 d hd

/-- total number of bytes of a list of draws -/
def totalLen : List Draw → Nat
  | [] => 0
  | d :: ds => d.bytes.length + totalLen ds

theorem Chain.total {o : Oracle} : ∀ {p : Nat} {ds : List Draw} {p' : Nat}, Chain o p ds p' →
    p' = p + totalLen ds
  | p, [], p', h => by simp only [Chain] at h; simp [totalLen, h]
  | p, d :: ds, p', h => by
    simp only [Chain] at h
    have := Chain.total h.2.2
    simp only [totalLen]; omega

/-- `s'` extends `s`: the log grew by a chain of draws from `s.pos` to `s'.pos` -/
def Ext (o : Oracle) (s s' : St) : Prop :=
  ∃ ds, s'.log = s.log ++ ds ∧ Chain o s.pos ds s'.pos

theorem Ext.refl (o : Oracle) (s : St) : Ext o s s := ⟨[], by simp, rfl⟩

theorem Ext.trans {o : Oracle} {s s' s'' : St} (h1 : Ext o s s') (h2 : Ext o s' s'') : Ext o s s'' := by
  obtain ⟨ds, hl, hc⟩ := h1
  obtain ⟨es, hl', hc'⟩ := h2
  exact ⟨ds ++ es, by rw [hl', hl, List.append_assoc], hc.append hc'⟩

theorem Ext.push {o : Oracle} {s : St} {k : Kind} {b : Bytes}
    (h : o ⟨"rand", [.int s.pos, .int b.length]⟩ = .bytes b) : Ext o s (s.push k b) :=
  ⟨[⟨k, s.pos, b⟩], rfl, by simp [Chain, St.push, h]⟩

/-- the draws made between two states -/
def newDraws (s s' : St) : List Draw := s'.log.drop s.log.length

theorem Ext.newDraws {o : Oracle} {s s' : St} (h : Ext o s s') :
    s'.log = s.log ++ newDraws s s' ∧ Chain o s.pos (newDraws s s') s'.pos := by
  obtain ⟨ds, hl, hc⟩ := h
  have : Model.Rand.newDraws s s' = ds := by simp [Model.Rand.newDraws, hl]
  rw [this]; exact ⟨hl, hc⟩

/-! ## `Sat`: a relation between the state before and after holds for every run -/

structure Sat {α} (R : Oracle → St → St → Prop) (m : M α) : Prop where
  run : ∀ o s, R o s (m.run o s).2

structure IsPre (R : Oracle → St → St → Prop) : Prop where
  refl : ∀ o s, R o s s
  trans : ∀ {o s s' s''}, R o s s' → R o s' s'' → R o s s''

theorem extIsPre : IsPre Ext := ⟨Ext.refl, fun h1 h2 => Ext.trans h1 h2⟩

namespace Sat
variable {R : Oracle → St → St → Prop}

theorem pure {α} (hR : IsPre R) (a : α) : Sat R (Pure.pure a : M α) := ⟨fun o s => hR.refl o s⟩
theorem pure' {α} (hR : IsPre R) (a : α) : Sat R (M.pure a : M α) := ⟨fun o s => hR.refl o s⟩
theorem throw {α} (hR : IsPre R) (c : String) : Sat R (M.throw c : M α) := ⟨fun o s => hR.refl o s⟩
theorem panic {α} (hR : IsPre R) (c : String) : Sat R (M.panic c : M α) := ⟨fun o s => hR.refl o s⟩

theorem bind {α β} (hR : IsPre R) {m : M α} {f : α → M β} (hm : Sat R m) (hf : ∀ a, Sat R (f a)) :
    Sat R (m >>= f) := by
  constructor
  intro o s
  rw [M.run_bind]
  have h1 := hm.run o s
  rcases hr : m.run o s with ⟨r, s'⟩
  rw [hr] at h1
  cases r with
  | ok a => exact hR.trans h1 ((hf a).run o s')
  | err c => exact h1
  | panic c => exact h1

theorem draw (k : Kind) (n : Nat) : Sat Ext (Model.Rand.draw k n) := by
  constructor
  intro o s
  rw [run_draw]
  cases ha : ask o s.pos n with
  | none => exact Ext.refl o s
  | some b =>
    have := randAt_some ha
    exact Ext.push (by rw [this.2]; exact this.1)

end Sat

end Model.Rand
