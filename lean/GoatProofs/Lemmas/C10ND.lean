import Goat.Model.NumericDate
import GoatProofs.Lemmas.C10Digits
/-
NumericDate round trip, integral seconds: decode (encode t) = t for every whole-second instant of
the supported range.
-/
namespace GoatProofs.Lemmas.C10ND
open Model.NumericDate GoatProofs.Lemmas.C10Digits

theorem bitlen_le_of_lt (m k : Nat) (h : m < 2 ^ k) : bitlen m ≤ k := by
  unfold bitlen
  split
  · omega
  · rename_i hm
    have := (Nat.log2_lt hm).2 h
    omega

theorem bitlen_pos (m : Nat) (h : m ≠ 0) : 0 < bitlen m := by
  unfold bitlen; simp [h]

/-- lexing the text of a whole number of seconds -/
theorem lex_int (neg : Bool) (m : Nat) :
    lex ((if neg then ['-'] else []) ++ natDigits m) = some ⟨neg, m, 0, 0⟩ := by
  obtain ⟨hv, hd, hne⟩ := natDigits_spec m
  have hsplit : splitSign ((if neg then ['-'] else []) ++ natDigits m) = (neg, natDigits m) := by
    cases neg with
    | true => rfl
    | false =>
      simp only [Bool.false_eq_true, if_false, List.nil_append]
      cases hds : natDigits m with
      | nil => exact absurd hds hne
      | cons c r =>
        have hc := hd c (by rw [hds]; exact List.mem_cons_self)
        unfold splitSign
        split
        · rename_i h; cases h; exact absurd hc (by decide)
        · rename_i h; cases h; exact absurd hc (by decide)
        · rfl
  unfold lex
  simp only [hsplit, spanDigits_all _ hd]
  have hf : fracPart [] = ([], []) := rfl
  simp only [hf, List.append_nil, hv, List.length_nil, Nat.add_zero]
  have : (natDigits m).length ≠ 0 := by
    intro h; exact hne (List.length_eq_zero_iff.mp h)
  simp [this, expPart]

/-- decoding an integer literal within the range -/
theorem decodeLit_int (neg : Bool) (m : Nat) (hm : (m : Int) ≤ maxEpoch) :
    decodeLit ⟨neg, m, 0, 0⟩ = .ok (if neg then -(m : Int) else m, 0) := by
  have hmax : m ≤ 253402300799 := by unfold maxEpoch at hm; omega
  by_cases h0 : m = 0
  · subst h0
    cases neg <;> rfl
  · have hlt : m < 2 ^ 38 := by omega
    have hb := bitlen_le_of_lt m 38 hlt
    have hp := bitlen_pos m h0
    have hscan : scan 128 ⟨neg, m, 0, 0⟩ = some (.fin neg m 0) := by
      unfold scan
      simp only [h0, if_false]
      have e5 : ((0 : Int) - ((0 : Nat) : Int)) = 0 := by simp
      simp only [e5, Int.add_zero]
      have r1 : ¬ (((bitlen m : Nat) : Int) < minExp ∨ ((bitlen m : Nat) : Int) > maxExp) := by
        unfold minExp maxExp; omega
      simp only [r1, if_false, if_true]
      unfold norm
      simp only [h0, if_false]
      have g : goExp m 0 = (bitlen m : Int) := by unfold goExp; simp
      have r2 : ¬ (goExp m 0 < minExp) := by rw [g]; unfold minExp; omega
      have r3 : ¬ (goExp m 0 > maxExp) := by rw [g]; unfold maxExp; omega
      simp only [r2, r3, if_false]
      have hr : rne 128 m 0 false = (m, 0) := by
        unfold rne
        have : bitlen m ≤ 128 := by omega
        simp [this]
      simp only [hr, r3, if_false]
    have hti : toInt64 (.fin neg m 0) = (if neg then -(m : Int) else m, true) := by
      unfold toInt64
      have g : goExp m 0 = (bitlen m : Int) := by unfold goExp; simp
      have r1 : ¬ (goExp m 0 ≤ 0) := by rw [g]; omega
      have r2 : goExp m 0 ≤ 63 := by rw [g]; omega
      simp [r1, r2]
    unfold decodeLit
    simp only [hscan, hti, if_true]
    unfold gate
    have : ¬ ((if neg = true then -(m : Int) else (m : Int)) > maxEpoch ∨ (if neg = true then -(m : Int) else (m : Int)) < -maxEpoch) := by
      unfold maxEpoch; cases neg <;> simp <;> omega
    simp [this]

end GoatProofs.Lemmas.C10ND
