import Goat.Model.Recode
import Mathlib.Tactic.Ring
import Mathlib.Tactic.Linarith
/-
Lemmas for `signedRadix16` (GRP): the two loops with the int8 wraps removed, value and range.
-/
namespace Model.Recode

/-- `wrap` is the identity on the int8 range (true of `wrapI8`, of `id`, and of any other treatment
    of overflow): results that are the same for every such `wrap` do not depend on overflow. -/
def WrapOK (wrap : Int → Int) : Prop := ∀ x : Int, -128 ≤ x → x ≤ 127 → wrap x = x

theorem wrapI8_of_range {x : Int} (h1 : -128 ≤ x) (h2 : x ≤ 127) : wrapI8 x = x := by
  unfold wrapI8; omega

theorem wrapOK_wrapI8 : WrapOK wrapI8 := fun _ h1 h2 => wrapI8_of_range h1 h2
theorem wrapOK_id : WrapOK id := fun _ _ _ => rfl

theorem wrapI8_range (x : Int) : -128 ≤ wrapI8 x ∧ wrapI8 x ≤ 127 := by
  unfold wrapI8; omega

/-! ### first loop -/

theorem nibblesWith_eq {wrap : Int → Int} (hw : WrapOK wrap) (s : Bytes) :
    nibblesWith wrap s = nibblesWith id s := by
  induction s with
  | nil => rfl
  | cons b bs ih =>
    simp only [nibblesWith, ih, id]
    rw [hw _ (by omega) (by omega), hw _ (by omega) (by omega)]

theorem nibbles_length (s : Bytes) : (nibblesWith id s).length = 2 * s.length := by
  induction s with
  | nil => rfl
  | cons b bs ih => simp only [nibblesWith, List.length_cons, ih]; omega

theorem nibbles_range (s : Bytes) : ∀ x ∈ nibblesWith id s, 0 ≤ x ∧ x ≤ 15 := by
  induction s with
  | nil => intro x hx; cases hx
  | cons b bs ih =>
    intro x hx
    simp only [nibblesWith, id, List.mem_cons] at hx
    rcases hx with rfl | rfl | hx
    · omega
    · omega
    · exact ih x hx

theorem nibbles_value (s : Bytes) : digitsValue 16 (nibblesWith id s) = (Bytes.decodeLE s : Int) := by
  induction s with
  | nil => rfl
  | cons b bs ih =>
    simp only [nibblesWith, digitsValue, id, ih, Bytes.decodeLE]
    have := Nat.div_add_mod b.toNat 16
    have hb : b.toNat < 256 := b.toNat_lt
    have : b.toNat / 16 % 16 = b.toNat / 16 := Nat.mod_eq_of_lt (by omega)
    push_cast
    omega

/-- a 56-byte string splits off its last byte; the nibble list then ends in the two nibbles of it -/
theorem nibbles_append (s t : Bytes) : nibblesWith id (s ++ t) = nibblesWith id s ++ nibblesWith id t := by
  induction s with
  | nil => rfl
  | cons b bs ih => simp only [List.cons_append, nibblesWith, ih]

/-! ### second loop -/

theorem recenterWith_eq {wrap : Int → Int} (hw : WrapOK wrap) :
    ∀ (rest : List Int) (cur : Int), 0 ≤ cur → cur ≤ 16 → (∀ x ∈ rest, 0 ≤ x ∧ x ≤ 15) →
      recenterWith wrap cur rest = recenterWith id cur rest
  | [], _, _, _, _ => rfl
  | nxt :: rest, cur, h0, h1, hr => by
    have hn := hr nxt (List.mem_cons_self ..)
    simp only [recenterWith, id]
    rw [hw (cur + 8) (by omega) (by omega)]
    rw [hw ((cur + 8) / 16 * 16) (by omega) (by omega)]
    rw [hw (cur - (cur + 8) / 16 * 16) (by omega) (by omega)]
    rw [hw (nxt + (cur + 8) / 16) (by omega) (by omega)]
    rw [recenterWith_eq hw rest (nxt + (cur + 8) / 16) (by omega) (by omega)
      (fun x hx => hr x (List.mem_cons_of_mem _ hx))]

theorem recenter_length : ∀ (rest : List Int) (cur : Int),
    (recenterWith id cur rest).length = rest.length + 1
  | [], _ => rfl
  | nxt :: rest, cur => by
    simp only [recenterWith, List.length_cons, recenter_length rest]

theorem recenter_value : ∀ (rest : List Int) (cur : Int),
    digitsValue 16 (recenterWith id cur rest) = digitsValue 16 (cur :: rest)
  | [], _ => rfl
  | nxt :: rest, cur => by
    simp only [recenterWith, digitsValue, id, recenter_value rest]
    omega

/-- shape of the output on `rest ++ [t]`: every digit but the last lies in [−8, 7]; the last one is
    the last input digit plus a carry 0/1 -/
theorem recenter_shape : ∀ (rest : List Int) (cur t : Int), 0 ≤ cur → cur ≤ 16 →
    (∀ x ∈ rest, 0 ≤ x ∧ x ≤ 15) →
    ∃ (init : List Int) (c : Int), recenterWith id cur (rest ++ [t]) = init ++ [t + c] ∧
      (c = 0 ∨ c = 1) ∧ init.length = rest.length + 1 ∧ ∀ x ∈ init, -8 ≤ x ∧ x ≤ 7
  | [], cur, t, h0, h1, _ => by
    refine ⟨[cur - (cur + 8) / 16 * 16], (cur + 8) / 16, ?_, by omega, rfl, ?_⟩
    · simp [recenterWith]
    · intro x hx; simp only [List.mem_singleton] at hx; subst hx; omega
  | nxt :: rest, cur, t, h0, h1, hr => by
    have hn := hr nxt (List.mem_cons_self ..)
    obtain ⟨init, c, he, hc, hl, hi⟩ := recenter_shape rest (nxt + (cur + 8) / 16) t (by omega) (by omega)
      (fun x hx => hr x (List.mem_cons_of_mem _ hx))
    refine ⟨(cur - (cur + 8) / 16 * 16) :: init, c, ?_, hc, by simp [hl], ?_⟩
    · simp only [List.cons_append, recenterWith, id] at he ⊢
      rw [he]
    · intro x hx
      simp only [List.mem_cons] at hx
      rcases hx with rfl | hx
      · omega
      · exact hi x hx

/-! ### both loops -/

theorem radix16With_eq {wrap : Int → Int} (hw : WrapOK wrap) (s : Bytes) :
    radix16With wrap s = radix16With id s := by
  unfold radix16With
  rw [nibblesWith_eq hw]
  have hr := nibbles_range s
  cases h : nibblesWith id s with
  | nil => rfl
  | cons d ds =>
    rw [h] at hr
    have hd := hr d (List.mem_cons_self ..)
    exact recenterWith_eq hw ds d hd.1 (by omega) (fun x hx => hr x (List.mem_cons_of_mem _ hx))

theorem radix16_id_value (s : Bytes) : digitsValue 16 (radix16With id s) = (Bytes.decodeLE s : Int) := by
  unfold radix16With
  have hv := nibbles_value s
  cases h : nibblesWith id s with
  | nil => rw [h] at hv; exact hv
  | cons d ds => rw [h] at hv; simp only [recenter_value]; exact hv

theorem radix16_id_length (s : Bytes) (hs : s ≠ []) : (radix16With id s).length = 2 * s.length := by
  unfold radix16With
  have hl := nibbles_length s
  cases h : nibblesWith id s with
  | nil =>
    rw [h] at hl
    cases s with
    | nil => exact absurd rfl hs
    | cons b bs => simp at hl
  | cons d ds => rw [h] at hl; simp only [recenter_length]; simpa using hl

/-- shape for a string `s ++ [b]` whose last byte `b` is below 0x80 (`hb`), or in general -/
theorem radix16_id_shape (s : Bytes) (b : UInt8) :
    ∃ (init : List Int) (last : Int), radix16With id (s ++ [b]) = init ++ [last] ∧
      init.length = 2 * s.length + 1 ∧ (∀ x ∈ init, -8 ≤ x ∧ x ≤ 7) ∧
      0 ≤ last ∧ last ≤ (b.toNat / 16 : Nat) + 1 := by
  unfold radix16With
  rw [nibbles_append]
  have hnb : nibblesWith id [b] = [((b.toNat % 16 : Nat) : Int), ((b.toNat / 16 % 16 : Nat) : Int)] := rfl
  have hb : b.toNat < 256 := b.toNat_lt
  have hb' : b.toNat / 16 % 16 = b.toNat / 16 := Nat.mod_eq_of_lt (by omega)
  rw [hnb, hb']
  have hr := nibbles_range s
  have hl := nibbles_length s
  cases h : nibblesWith id s with
  | nil =>
    rw [h] at hl
    obtain ⟨init, c, he, hc, hli, hi⟩ := recenter_shape [] ((b.toNat % 16 : Nat) : Int)
      ((b.toNat / 16 : Nat) : Int) (by omega) (by omega) (fun x hx => by cases hx)
    refine ⟨init, ((b.toNat / 16 : Nat) : Int) + c, he, ?_, hi, by omega, by omega⟩
    simp only [List.length_nil] at hl hli; omega
  | cons d ds =>
    rw [h] at hr hl
    have hd := hr d (List.mem_cons_self ..)
    have hds : ∀ x ∈ ds ++ [((b.toNat % 16 : Nat) : Int)], 0 ≤ x ∧ x ≤ 15 := by
      intro x hx
      rcases List.mem_append.1 hx with hx | hx
      · exact hr x (List.mem_cons_of_mem _ hx)
      · simp only [List.mem_singleton] at hx; subst hx; omega
    obtain ⟨init, c, he, hc, hli, hi⟩ := recenter_shape (ds ++ [((b.toNat % 16 : Nat) : Int)]) d
      ((b.toNat / 16 : Nat) : Int) hd.1 (by omega) hds
    refine ⟨init, ((b.toNat / 16 : Nat) : Int) + c, ?_, ?_, hi, by omega, by omega⟩
    · simpa using he
    · simp only [List.length_cons, List.length_append, List.length_nil] at hl hli; omega

end Model.Recode
