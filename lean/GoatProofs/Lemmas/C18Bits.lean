import Mathlib.Tactic.Ring
import Mathlib.Tactic.Linarith
import Goat.Model.Fe256
/-
Word-level facts behind `Equal`, `IsZero`, `Select`, `Swap` (64-bit words as `Nat`).
-/
namespace C18Bits
open Model.Fe256

theorem isZeroWord_spec (x : Nat) (hx : x < 2 ^ 64) : isZeroWord x = if x = 0 then 1 else 0 := by
  unfold isZeroWord
  simp only
  have h1 : x &&& 0xFFFFFFFF = x % 2 ^ 32 := Nat.and_two_pow_sub_one_eq_mod x 32
  have h2 : x >>> 32 = x / 2 ^ 32 := Nat.shiftRight_eq_div_pow x 32
  have l1 : x % 2 ^ 32 < 2 ^ 32 := Nat.mod_lt _ (by decide)
  have l2 : x / 2 ^ 32 < 2 ^ 32 := by omega
  have hlt : (x &&& 0xFFFFFFFF) ||| (x >>> 32) < 2 ^ 32 := by
    rw [h1, h2]; exact Nat.or_lt_two_pow l1 l2
  have hz : (x &&& 0xFFFFFFFF) ||| (x >>> 32) = 0 ↔ x = 0 := by
    rw [Nat.or_eq_zero_iff, h1, h2]; omega
  generalize (x &&& 0xFFFFFFFF) ||| (x >>> 32) = c at hlt hz
  rw [Nat.shiftRight_eq_div_pow]
  unfold w64
  by_cases h : x = 0
  · have hc : c = 0 := hz.mpr h
    subst hc; simp [h]
  · have hc : c ≠ 0 := fun e => h (hz.mp e)
    simp only [h, if_false]
    have : (c + 2 ^ 64 - 1) % 2 ^ 64 / 2 ^ 63 = 0 := by omega
    rw [this]; rfl

theorem maskOf_one : maskOf 1 = 2 ^ 64 - 1 := by decide
theorem maskOf_zero : maskOf 0 = 0 := by decide

theorem ones_and (a : Nat) (h : a < 2 ^ 64) : (2 ^ 64 - 1) &&& a = a := by
  rw [Nat.and_comm, Nat.and_two_pow_sub_one_eq_mod]; exact Nat.mod_eq_of_lt h

theorem notW_ones : notW (2 ^ 64 - 1) = 0 := by decide
theorem notW_zero : notW 0 = 2 ^ 64 - 1 := by decide

theorem sel_one (a b : Nat) (ha : a < 2 ^ 64) :
    ((2 ^ 64 - 1) &&& a) ||| (notW (2 ^ 64 - 1) &&& b) = a := by
  rw [notW_ones, Nat.zero_and, Nat.or_zero, ones_and a ha]

theorem sel_zero (a b : Nat) (hb : b < 2 ^ 64) :
    (0 &&& a) ||| (notW 0 &&& b) = b := by
  rw [notW_zero, Nat.zero_and, Nat.zero_or, ones_and b hb]

theorem xor_cancel (a b : Nat) : a ^^^ (a ^^^ b) = b := by
  rw [← Nat.xor_assoc, Nat.xor_self, Nat.zero_xor]

theorem xor_eq_zero_iff (a b : Nat) : a ^^^ b = 0 ↔ a = b := by
  constructor
  · intro h
    have := xor_cancel a b
    rw [h, Nat.xor_zero] at this; exact this
  · intro h; rw [h, Nat.xor_self]

theorem swap_one (v u : Nat) (hv : v < 2 ^ 64) (hu : u < 2 ^ 64) :
    v ^^^ ((2 ^ 64 - 1) &&& (v ^^^ u)) = u ∧ u ^^^ ((2 ^ 64 - 1) &&& (v ^^^ u)) = v := by
  rw [ones_and _ (Nat.xor_lt_two_pow hv hu)]
  exact ⟨xor_cancel v u, by rw [Nat.xor_comm v u, xor_cancel]⟩

theorem swap_zero (v u : Nat) : v ^^^ (0 &&& (v ^^^ u)) = v ∧ u ^^^ (0 &&& (v ^^^ u)) = u := by
  rw [Nat.zero_and]; exact ⟨Nat.xor_zero v, Nat.xor_zero u⟩

theorem or4_zero (a b c d : Nat) : (((0 ||| a) ||| b) ||| c) ||| d = 0 ↔ a = 0 ∧ b = 0 ∧ c = 0 ∧ d = 0 := by
  rw [Nat.or_eq_zero_iff, Nat.or_eq_zero_iff, Nat.or_eq_zero_iff, Nat.zero_or]
  tauto

theorem or4_lt (a b c d : Nat) (ha : a < 2 ^ 64) (hb : b < 2 ^ 64) (hc : c < 2 ^ 64) (hd : d < 2 ^ 64) :
    (((0 ||| a) ||| b) ||| c) ||| d < 2 ^ 64 := by
  rw [Nat.zero_or]
  exact Nat.or_lt_two_pow (Nat.or_lt_two_pow (Nat.or_lt_two_pow ha hb) hc) hd

end C18Bits
