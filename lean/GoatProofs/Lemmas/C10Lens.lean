import Goat.Model.Custom
/-
Lens laws of the field walk (`walkGet` / `walkSet`) of the two reflect walkers: writing at one
index path does not change what is read at a diverging path.
-/
namespace GoatProofs.Lemmas.C10Lens
open Model Model.Custom

/-- two index paths part at some position (neither is a prefix of the other) -/
def diverge : List Nat → List Nat → Bool
  | i :: p, j :: q => if i = j then diverge p q else true
  | _, _ => false

theorem setPad_getD_same : ∀ (l : List Val) (i : Nat) (x : Val), (setPad l i x).getD i .opaque = x
  | [], 0, x => rfl
  | [], i + 1, x => by simpa [setPad, List.getD] using setPad_getD_same [] i x
  | _ :: r, 0, x => rfl
  | a :: r, i + 1, x => by simpa [setPad, List.getD] using setPad_getD_same r i x

theorem setPad_getD_ne : ∀ (l : List Val) (i j : Nat) (x : Val), i ≠ j →
    (setPad l i x).getD j .opaque = l.getD j .opaque
  | [], 0, j, x, h => by
    cases j with
    | zero => exact absurd rfl h
    | succ j => simp [setPad, List.getD]
  | [], i + 1, j, x, h => by
    cases j with
    | zero => simp [setPad, List.getD]
    | succ j =>
      have := setPad_getD_ne [] i j x (by omega)
      simpa [setPad, List.getD] using this
  | a :: r, 0, j, x, h => by
    cases j with
    | zero => exact absurd rfl h
    | succ j => simp [setPad, List.getD]
  | a :: r, i + 1, j, x, h => by
    cases j with
    | zero => simp [setPad, List.getD]
    | succ j =>
      have := setPad_getD_ne r i j x (by omega)
      simpa [setPad, List.getD] using this

theorem setPad_eq_set : ∀ (l : List Val) (i : Nat) (x : Val), i < l.length → setPad l i x = l.set i x
  | [], i, x, h => by simp at h
  | _ :: r, 0, x, _ => rfl
  | a :: r, i + 1, x, h => by
    simp only [setPad, List.set_cons_succ]
    rw [setPad_eq_set r i x (by simpa using h)]

theorem recGet_recSet_ne (sv : Val) (i j : Nat) (y : Val) (h : i ≠ j) :
    recGet (recSet sv i y) j = recGet sv j := by
  have h0 : (setPad [] i y).getD j .opaque = .opaque := by
    rw [setPad_getD_ne [] i j y h]; rfl
  cases sv with
  | strct fs => exact setPad_getD_ne fs i j y h
  | _ => exact h0

theorem recGet_recSet_same (sv : Val) (i : Nat) (y : Val) : recGet (recSet sv i y) i = y := by
  cases sv with
  | strct fs => exact setPad_getD_same fs i y
  | _ => exact setPad_getD_same [] i y

/-- one step of the read walk below the (dereferenced) struct -/
def getStep (addr : Bool) (i : Nat) (rest : List Nat) (st : Ty) (sv : Val) : Outcome (Ty × Val) :=
  match fieldAt st i with
  | none => Outcome.panic "reflect.Field"
  | some fd => walkGet addr rest fd.ty (addr && fd.exported) (recGet sv i)

def setStep (i : Nat) (rest : List Nat) (x : Val) (st : Ty) (sv : Val) : Val :=
  match fieldAt st i with
  | none => sv
  | some fd => recSet sv i (walkSet rest fd.ty (recGet sv i) x)

theorem walkGet_cons (addr : Bool) (i : Nat) (rest : List Nat) (t : Ty) (c : Bool) (v : Val) :
    walkGet addr (i :: rest) t c v =
      match t with
      | Ty.ptr e =>
        match v with
        | Val.ptr (some y) => getStep addr i rest e y
        | _ => if c then getStep addr i rest e (zero e) else Outcome.err "ptr-unexported"
      | _ => getStep addr i rest t v := by
  cases t <;> first | rfl | (cases v <;> first | rfl | (rename_i ov; cases ov <;> rfl))

theorem walkSet_cons (i : Nat) (rest : List Nat) (t : Ty) (v x : Val) :
    walkSet (i :: rest) t v x =
      match t with
      | Ty.ptr e =>
        match v with
        | Val.ptr (some y) => Val.ptr (some (setStep i rest x e y))
        | _ => Val.ptr (some (setStep i rest x e (zero e)))
      | _ => setStep i rest x t v := by
  cases t <;> first | rfl | (cases v <;> first | rfl | (rename_i ov; cases ov <;> rfl))

/-- **get after set at a diverging path**: if the written path `p` could be walked in `v`, writing
    there leaves every diverging path `q` reading what it read before -/
theorem walkGet_walkSet_other (addr : Bool) :
    ∀ (p q : List Nat) (t : Ty) (c : Bool) (v x : Val), diverge p q = true →
      (∃ tv, walkGet addr p t c v = .ok tv) →
      walkGet addr q t c (walkSet p t v x) = walkGet addr q t c v := by
  intro p
  induction p with
  | nil => intro q t c v x hd _; simp [diverge] at hd
  | cons i r ih =>
    intro q t c v x hd hget
    cases q with
    | nil => simp [diverge] at hd
    | cons j s =>
      -- the step below the dereferenced struct
      have core : ∀ (st : Ty) (sv : Val), (∃ tv, getStep addr i r st sv = .ok tv) →
          getStep addr j s st (setStep i r x st sv) = getStep addr j s st sv := by
        intro st sv ⟨tv, hg⟩
        unfold getStep at hg
        cases hfi : fieldAt st i with
        | none => rw [hfi] at hg; cases hg
        | some fd =>
          rw [hfi] at hg
          simp only at hg
          unfold setStep getStep
          simp only [hfi]
          cases hfj : fieldAt st j with
          | none => rfl
          | some fj =>
            simp only
            by_cases hij : i = j
            · subst hij
              rw [hfi] at hfj
              cases hfj
              simp only [diverge, if_true] at hd
              rw [recGet_recSet_same]
              exact ih s fd.ty _ _ x hd ⟨tv, hg⟩
            · rw [recGet_recSet_ne sv i j _ hij]
      rw [walkGet_cons, walkSet_cons] at *
      cases t with
      | ptr e =>
        simp only at hget ⊢
        cases v with
        | ptr ov =>
          cases ov with
          | some y =>
            simp only at hget ⊢
            rw [walkGet_cons]
            simp only
            exact core e y hget
          | none =>
            simp only at hget ⊢
            rw [walkGet_cons]
            simp only
            cases c with
            | false => obtain ⟨tv, h⟩ := hget; simp at h
            | true =>
              simp only [if_true] at hget ⊢
              exact core e (zero e) hget
        | _ =>
          simp only at hget ⊢
          rw [walkGet_cons]
          simp only
          cases c with
          | false => obtain ⟨tv, h⟩ := hget; simp at h
          | true =>
            simp only [if_true] at hget ⊢
            exact core e (zero e) hget
      | _ =>
        simp only at hget ⊢
        rw [walkGet_cons]
        simp only
        exact core _ v hget

/-- **get after set at the same path**: what was written is read back (with the type found there) -/
theorem walkGet_walkSet_same (addr : Bool) :
    ∀ (p : List Nat) (t : Ty) (c : Bool) (v x : Val) (tv : Ty × Val),
      walkGet addr p t c v = .ok tv → walkGet addr p t c (walkSet p t v x) = .ok (tv.1, x) := by
  intro p
  induction p with
  | nil =>
    intro t c v x tv h
    simp only [walkGet, Outcome.ok.injEq] at h
    subst h
    simp [walkGet, walkSet]
  | cons i r ih =>
    intro t c v x tv hget
    have core : ∀ (st : Ty) (sv : Val), getStep addr i r st sv = .ok tv →
        getStep addr i r st (setStep i r x st sv) = .ok (tv.1, x) := by
      intro st sv hg
      unfold getStep at hg
      cases hfi : fieldAt st i with
      | none => rw [hfi] at hg; cases hg
      | some fd =>
        rw [hfi] at hg
        simp only at hg
        unfold setStep getStep
        simp only [hfi, recGet_recSet_same]
        exact ih fd.ty _ _ x tv hg
    rw [walkGet_cons, walkSet_cons] at *
    cases t with
    | ptr e =>
      simp only at hget ⊢
      cases v with
      | ptr ov =>
        cases ov with
        | some y =>
          simp only at hget ⊢
          exact core e y hget
        | none =>
          simp only at hget ⊢
          cases c with
          | false => simp at hget
          | true =>
            simp only [if_true] at hget
            exact core e (zero e) hget
      | _ =>
        simp only at hget ⊢
        cases c with
        | false => simp at hget
        | true =>
          simp only [if_true] at hget
          exact core e (zero e) hget
    | _ =>
      simp only at hget ⊢
      exact core _ v hget

end GoatProofs.Lemmas.C10Lens
