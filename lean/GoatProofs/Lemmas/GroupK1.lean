import GoatProofs.Lemmas.GroupWindow
/-
Lemmas for the curve256k1 windowed multiplications and `normalizeScalar` (GRP).
-/
namespace Model.WindowMul
open Bytes (decodeBE)

variable {C G : Type} [AddCommGroup G]

/-! ### big-endian values -/

theorem decodeBE_foldl (l : Bytes) (acc : Nat) :
    l.foldl (fun acc x => acc * 256 + x.toNat) acc = acc * 256 ^ l.length + decodeBE l := by
  induction l generalizing acc with
  | nil => simp [decodeBE]
  | cons b bs ih =>
    simp only [List.foldl_cons, decodeBE, List.length_cons]
    rw [ih, ih (0 * 256 + b.toNat), Nat.pow_succ]
    ring

theorem decodeBE_cons (b : UInt8) (l : Bytes) :
    decodeBE (b :: l) = b.toNat * 256 ^ l.length + decodeBE l := by
  show List.foldl _ (0 * 256 + b.toNat) l = _
  rw [decodeBE_foldl]; simp

theorem decodeBE_append_singleton (l : Bytes) (b : UInt8) :
    decodeBE (l ++ [b]) = decodeBE l * 256 + b.toNat := by
  simp [decodeBE, List.foldl_append]

/-! ### lookupTable of curve256k1 -/

/-- table with `points[i] = (i+1)·P`, 15 entries -/
def K1Table (ops : GroupOps C) (Rep : C → G → Prop) (tbl : List C) (x : G) : Prop :=
  ∀ i, i < 15 → Rep (tbl.getD i ops.zero) (((i + 1 : ℕ) : ℤ) • x)

omit [AddCommGroup G] in
theorem getD_append_left (l m : List C) (i : Nat) (d : C) (h : i < l.length) :
    (l ++ m).getD i d = l.getD i d := by
  simp [List.getD_eq_getElem?_getD, List.getElem?_append_left h]

omit [AddCommGroup G] in
theorem k1BaseTable_length (ops : GroupOps C) : ∀ (n : Nat) (base : C), (k1BaseTable ops n base).length = n
  | 0, _ => rfl
  | n + 1, base => by simp [k1BaseTable, k1BaseTable_length ops n]

section
variable {ops : GroupOps C} {Rep : C → G → Prop} (R : Respects ops Rep)
include R

/-- one iteration of `Init` (odd `i` = current number of entries): doubles entry `i/2`, then adds P -/
theorem k1Init_step {p : C} {x : G} (hp : Rep p x) (pts : List C) (i : Nat) (hlen : pts.length = i)
    (hodd : i % 2 = 1) (hI : ∀ j, j < i → Rep (pts.getD j ops.zero) (((j + 1 : ℕ) : ℤ) • x)) :
    let d := ops.double (pts.getD (i / 2) ops.zero)
    (pts ++ [d, ops.add d p]).length = i + 2 ∧
      ∀ j, j < i + 2 → Rep ((pts ++ [d, ops.add d p]).getD j ops.zero) (((j + 1 : ℕ) : ℤ) • x) := by
  intro d
  have hd : Rep d (((i + 1 : ℕ) : ℤ) • x) := by
    refine R.cast (R.double (hI (i / 2) (by omega))) ?_
    rw [← add_smul]; congr 1; push_cast; omega
  refine ⟨by simp [hlen], ?_⟩
  intro j hj
  by_cases h1 : j < i
  · rw [getD_append_left _ _ _ _ (by omega)]; exact hI j h1
  · have hj' : j = i ∨ j = i + 1 := by omega
    rcases hj' with rfl | rfl
    · have : (pts ++ [d, ops.add d p]).getD pts.length ops.zero = d := by
        simp [List.getD_eq_getElem?_getD]
      rw [← hlen, this, hlen]; exact hd
    · have : (pts ++ [d, ops.add d p]).getD (pts.length + 1) ops.zero = ops.add d p := by
        simp [List.getD_eq_getElem?_getD]
      rw [← hlen, this, hlen]
      refine R.cast (R.add hd hp) ?_
      push_cast; module

/-- `lookupTable.Init`: 15 entries, `points[i] = (i+1)·P` -/
theorem k1LookupInit_rep {p : C} {x : G} (hp : Rep p x) :
    (k1LookupInit ops p).length = 15 ∧ K1Table ops Rep (k1LookupInit ops p) x := by
  unfold k1LookupInit K1Table
  have hr : List.range' 1 7 2 = [1, 3, 5, 7, 9, 11, 13] := by decide
  rw [hr]
  simp only [List.foldl_cons, List.foldl_nil]
  have h0 : ([p] : List C).length = 1 ∧
      ∀ j, j < 1 → Rep (([p] : List C).getD j ops.zero) (((j + 1 : ℕ) : ℤ) • x) := by
    refine ⟨rfl, ?_⟩
    intro j hj
    have : j = 0 := by omega
    subst this
    exact R.cast hp (by simp)
  have h1 := k1Init_step R hp _ 1 h0.1 (by decide) h0.2
  have h3 := k1Init_step R hp _ 3 h1.1 (by decide) h1.2
  have h5 := k1Init_step R hp _ 5 h3.1 (by decide) h3.2
  have h7 := k1Init_step R hp _ 7 h5.1 (by decide) h5.2
  have h9 := k1Init_step R hp _ 9 h7.1 (by decide) h7.2
  have h11 := k1Init_step R hp _ 11 h9.1 (by decide) h9.2
  have h13 := k1Init_step R hp _ 13 h11.1 (by decide) h11.2
  exact h13

/-- `SelectInto` for `x < 16`: never panics and yields `x·P` (`x = 0`: the identity) -/
theorem k1Select_rep {tbl : List C} {y : G} (hT : K1Table ops Rep tbl y) (x : Nat) (hx : x < 16) :
    ∃ c, k1Select ops tbl x = .ok c ∧ Rep c ((x : ℤ) • y) := by
  unfold k1Select
  rw [if_neg (by omega), foldl_select]
  refine ⟨_, rfl, ?_⟩
  by_cases h0 : x = 0
  · rw [if_neg (by omega), h0]; exact R.cast R.zero (by simp)
  · rw [if_pos (by omega)]
    exact R.cast (hT (x - 1) (by omega)) (by congr 2; omega)

theorem k1AddSel_rep {tbl : List C} {y : G} (hT : K1Table ops Rep tbl y) {v : C} {z : G} (hv : Rep v z)
    (x : Nat) (hx : x < 16) : ∃ r, k1AddSel ops tbl v x = .ok r ∧ Rep r (z + (x : ℤ) • y) := by
  obtain ⟨c, e, h⟩ := k1Select_rep R hT x hx
  exact ⟨_, by unfold k1AddSel; rw [e]; rfl, R.add hv h⟩

/-! ### `ScalarMult` -/

/-- two nibble steps for one byte: `v ↦ 256·v + b·Q` -/
theorem k1Byte_rep {tbl : List C} {y : G} (hT : K1Table ops Rep tbl y) {v : C} {z : G} (hv : Rep v z)
    (b : UInt8) :
    ∃ r, ((k1AddSel ops tbl (ops.double4 v) (b.toNat / 16)).bind fun v =>
        k1AddSel ops tbl (ops.double4 v) (b.toNat % 16)) = .ok r ∧
      Rep r ((256 : ℤ) • z + (b.toNat : ℤ) • y) := by
  have hb := b.toNat_lt
  obtain ⟨r1, e1, h1⟩ := k1AddSel_rep R hT (R.double4 hv) (b.toNat / 16) (by omega)
  obtain ⟨r2, e2, h2⟩ := k1AddSel_rep R hT (R.double4 h1) (b.toNat % 16) (by omega)
  refine ⟨r2, by rw [e1]; exact e2, R.cast h2 ?_⟩
  have : (b.toNat : ℤ) = 16 * ((b.toNat / 16 : ℕ) : ℤ) + ((b.toNat % 16 : ℕ) : ℤ) := by
    have := Nat.div_add_mod b.toNat 16; omega
  rw [this]; module

theorem k1Loop_rep {tbl : List C} {y : G} (hT : K1Table ops Rep tbl y) :
    ∀ (rest : Bytes) (v : C) (z : G), Rep v z →
      ∃ r, rest.foldl (fun (acc : Outcome C) b => acc.bind fun v =>
          (k1AddSel ops tbl (ops.double4 v) (b.toNat / 16)).bind fun v =>
          k1AddSel ops tbl (ops.double4 v) (b.toNat % 16)) (.ok v) = .ok r ∧
        Rep r (((256 : ℤ) ^ rest.length) • z + (decodeBE rest : ℤ) • y)
  | [], v, z, hv => ⟨v, rfl, R.cast hv (by simp [decodeBE])⟩
  | b :: rest, v, z, hv => by
    obtain ⟨r1, e1, h1⟩ := k1Byte_rep R hT hv b
    obtain ⟨r, e, h⟩ := k1Loop_rep hT rest r1 _ h1
    refine ⟨r, ?_, R.cast h ?_⟩
    · simp only [List.foldl_cons]
      have : ((Outcome.ok v : Outcome C).bind fun v =>
          (k1AddSel ops tbl (ops.double4 v) (b.toNat / 16)).bind fun v =>
          k1AddSel ops tbl (ops.double4 v) (b.toNat % 16)) = .ok r1 := e1
      rw [this]; exact e
    · rw [decodeBE_cons, List.length_cons, pow_succ]
      push_cast
      module

/-- `ScalarMult` on the (normalised) big-endian bytes `s`: `(decodeBE s)·Q`, no panic -/
theorem k1ScalarMult_rep {q : C} {y : G} (hq : Rep q y) (s : Bytes) (hs : s ≠ []) :
    ∃ r, k1ScalarMult ops s q = .ok r ∧ Rep r ((decodeBE s : ℤ) • y) := by
  have hT := (k1LookupInit_rep R hq).2
  cases s with
  | nil => exact absurd rfl hs
  | cons b rest =>
    have hb := b.toNat_lt
    unfold k1ScalarMult
    obtain ⟨r1, e1, h1⟩ := k1AddSel_rep R hT R.zero (b.toNat / 16) (by omega)
    obtain ⟨r2, e2, h2⟩ := k1AddSel_rep R hT (R.double4 h1) (b.toNat % 16) (by omega)
    obtain ⟨r, e, h⟩ := k1Loop_rep R hT rest r2 _ h2
    refine ⟨r, ?_, R.cast h ?_⟩
    · simp only [e1, e2, Outcome.bind]; exact e
    · rw [decodeBE_cons]
      have : (b.toNat : ℤ) = 16 * ((b.toNat / 16 : ℕ) : ℤ) + ((b.toNat % 16 : ℕ) : ℤ) := by
        have := Nat.div_add_mod b.toNat 16; omega
      simp only [Nat.cast_add, Nat.cast_mul, Nat.cast_pow, Nat.cast_ofNat]
      rw [this]; module

/-! ### `ScalarBaseMult` -/

/-- `tables[j]` is a lookup table of `16ʲ·G` -/
def K1BaseTables (ops : GroupOps C) (Rep : C → G → Prop) (tables : List (List C)) (g : G) : Prop :=
  ∀ j tbl, tables[j]? = some tbl → K1Table ops Rep tbl (((16 : ℤ) ^ j) • g)

/-- `initBaseTable`: table `j` is `lookupTable.Init` of `16ʲ·G` -/
theorem k1BaseTable_rep : ∀ (n : Nat) (base : C) (z : G), Rep base z →
    K1BaseTables ops Rep (k1BaseTable ops n base) z
  | 0, _, _, _ => by intro j tbl h; simp [k1BaseTable] at h
  | n + 1, base, z, hb => by
    intro j tbl h
    cases j with
    | zero =>
      simp only [k1BaseTable, List.getElem?_cons_zero, Option.some.injEq] at h
      subst h
      have := (k1LookupInit_rep R hb).2
      intro i hi; exact R.cast (this i hi) (by simp)
    | succ j =>
      simp only [k1BaseTable, List.getElem?_cons_succ] at h
      have := k1BaseTable_rep n _ _ (R.double4 hb) j tbl h
      intro i hi; refine R.cast (this i hi) ?_
      rw [pow_succ]; module

theorem k1BaseAddSel_rep {tables : List (List C)} {g : G} (hT : K1BaseTables ops Rep tables g)
    {v : C} {z : G} (hv : Rep v z) (j : Nat) (hj : j < tables.length) (x : Nat) (hx : x < 16) :
    ∃ r, k1BaseAddSel ops tables v (j : ℤ) x = .ok r ∧ Rep r (z + ((x : ℤ) * 16 ^ j) • g) := by
  unfold k1BaseAddSel
  rw [if_neg (by omega)]
  simp only [Int.toNat_natCast, List.getElem?_eq_getElem hj]
  obtain ⟨r, e, h⟩ := k1AddSel_rep R (hT j _ (List.getElem?_eq_getElem hj)) hv x hx
  exact ⟨r, e, R.cast h (by module)⟩

theorem k1BaseLoop_rep {tables : List (List C)} {g : G} (hT : K1BaseTables ops Rep tables g) :
    ∀ (s : Bytes) (v : C) (z : G), Rep v z → 2 * s.length ≤ tables.length →
      ∃ r j', s.foldl (fun (acc : Outcome (C × Int)) b => acc.bind fun (v, j) =>
          (k1BaseAddSel ops tables v j (b.toNat / 16)).bind fun v =>
          (k1BaseAddSel ops tables v (j - 1) (b.toNat % 16)).bind fun v =>
          .ok (v, j - 2)) (.ok (v, ((2 * s.length : ℕ) : ℤ) - 1)) = .ok (r, j') ∧
        Rep r (z + (decodeBE s : ℤ) • g)
  | [], v, z, hv, _ => ⟨v, _, rfl, R.cast hv (by simp [decodeBE])⟩
  | b :: rest, v, z, hv, hl => by
    have hb := b.toNat_lt
    simp only [List.length_cons] at hl
    have hj1 : ((2 * (rest.length + 1) : ℕ) : ℤ) - 1 = ((2 * rest.length + 1 : ℕ) : ℤ) := by
      push_cast; ring
    have hj2 : ((2 * rest.length + 1 : ℕ) : ℤ) - 1 = ((2 * rest.length : ℕ) : ℤ) := by
      push_cast; ring
    have hj3 : ((2 * rest.length + 1 : ℕ) : ℤ) - 2 = ((2 * rest.length : ℕ) : ℤ) - 1 := by
      push_cast; ring
    obtain ⟨r1, e1, h1⟩ := k1BaseAddSel_rep R hT hv (2 * rest.length + 1) (by omega) (b.toNat / 16) (by omega)
    obtain ⟨r2, e2, h2⟩ := k1BaseAddSel_rep R hT h1 (2 * rest.length) (by omega) (b.toNat % 16) (by omega)
    obtain ⟨r, j', e, h⟩ := k1BaseLoop_rep hT rest r2 _ h2 (by omega)
    refine ⟨r, j', ?_, R.cast h ?_⟩
    · simp only [List.foldl_cons, List.length_cons]
      rw [hj1]
      have : ((Outcome.ok (v, ((2 * rest.length + 1 : ℕ) : ℤ)) : Outcome (C × Int)).bind fun (v, j) =>
          (k1BaseAddSel ops tables v j (b.toNat / 16)).bind fun v =>
          (k1BaseAddSel ops tables v (j - 1) (b.toNat % 16)).bind fun v =>
          .ok (v, j - 2)) = .ok (r2, ((2 * rest.length : ℕ) : ℤ) - 1) := by
        show ((k1BaseAddSel ops tables v _ (b.toNat / 16)).bind fun v =>
          (k1BaseAddSel ops tables v (((2 * rest.length + 1 : ℕ) : ℤ) - 1) (b.toNat % 16)).bind fun v =>
          .ok (v, ((2 * rest.length + 1 : ℕ) : ℤ) - 2)) = _
        rw [e1]
        show ((k1BaseAddSel ops tables r1 (((2 * rest.length + 1 : ℕ) : ℤ) - 1) (b.toNat % 16)).bind fun v =>
          .ok (v, ((2 * rest.length + 1 : ℕ) : ℤ) - 2)) = _
        rw [hj2, e2, hj3]; rfl
      rw [this]; exact e
    · rw [decodeBE_cons]
      have : (b.toNat : ℤ) = 16 * ((b.toNat / 16 : ℕ) : ℤ) + ((b.toNat % 16 : ℕ) : ℤ) := by
        have := Nat.div_add_mod b.toNat 16; omega
      have hp : (256 : ℤ) ^ rest.length = 16 ^ (2 * rest.length) := by
        rw [pow_mul]; norm_num
      simp only [Nat.cast_add, Nat.cast_mul, Nat.cast_pow, Nat.cast_ofNat]
      rw [this, hp, pow_succ]; module

/-- `ScalarBaseMult` on the normalised bytes `s` with `len(baseTable) = 2·len(s)` (goat: 64 and 32) -/
theorem k1ScalarBaseMult_rep {tables : List (List C)} {g : G} (hT : K1BaseTables ops Rep tables g)
    (s : Bytes) (hl : tables.length = 2 * s.length) :
    ∃ r, k1ScalarBaseMult ops tables s = .ok r ∧ Rep r ((decodeBE s : ℤ) • g) := by
  unfold k1ScalarBaseMult
  obtain ⟨r, j', e, h⟩ := k1BaseLoop_rep R hT s _ _ R.zero (by omega)
  rw [hl, e]
  exact ⟨r, rfl, R.cast h (by simp)⟩

end

/-! ### `normalizeScalar` over abstract limb operations -/

/-- what the limb layer has to provide about `Lsh8`, `Add8`, `bytes`: `Inv` holds at the loop head,
    `Mid` after `Lsh8` (take `Mid = Inv` if one invariant serves both) -/
structure ScalarLimbSpec {S : Type} (n : Nat) (Inv Mid : S → Prop) (val : S → Nat)
    (lsh8 : S → S) (add8 : S → UInt8 → S) (bytes : S → Bytes) : Prop where
  lsh8_inv : ∀ s, Inv s → Mid (lsh8 s)
  add8_inv : ∀ s b, Mid s → Inv (add8 s b)
  lsh8_val : ∀ s, Inv s → val (lsh8 s) % n = (256 * val s) % n
  add8_val : ∀ s b, Mid s → val (add8 s b) % n = (val s + b.toNat) % n
  bytes_val : ∀ s, Inv s → decodeBE (bytes s) = val s % n
  bytes_len : ∀ s, Inv s → (bytes s).length = 32

theorem mod_mul_add (a p d n : Nat) : (a * p + d) % n = ((a % n) * p + d) % n := by
  rw [Nat.add_mod, Nat.mul_mod, Nat.add_mod ((a % n) * p), Nat.mul_mod (a % n), Nat.mod_mod]
  simp

theorem normalizeLoop_spec {S : Type} {n : Nat} {Inv Mid : S → Prop} {val : S → Nat}
    {lsh8 : S → S} {add8 : S → UInt8 → S} {bytes : S → Bytes}
    (H : ScalarLimbSpec n Inv Mid val lsh8 add8 bytes) :
    ∀ (k : Bytes) (s0 : S), Inv s0 →
      Inv (normalizeScalarLoop lsh8 add8 k s0) ∧
      val (normalizeScalarLoop lsh8 add8 k s0) % n = (val s0 * 256 ^ k.length + decodeBE k) % n
  | [], s0, h0 => ⟨h0, by simp [normalizeScalarLoop, decodeBE]⟩
  | b :: k, s0, h0 => by
    have hi1 := H.lsh8_inv s0 h0
    have hi2 := H.add8_inv (lsh8 s0) b hi1
    obtain ⟨ih1, ih2⟩ := normalizeLoop_spec H k (add8 (lsh8 s0) b) hi2
    refine ⟨ih1, ?_⟩
    show val (normalizeScalarLoop lsh8 add8 k (add8 (lsh8 s0) b)) % n = _
    rw [ih2, decodeBE_cons, List.length_cons, Nat.pow_succ]
    have e1 := H.add8_val (lsh8 s0) b hi1
    have e2 := H.lsh8_val s0 h0
    have step : val (add8 (lsh8 s0) b) % n = (256 * val s0 + b.toNat) % n := by
      rw [e1, Nat.add_mod, e2, ← Nat.add_mod]
    calc (val (add8 (lsh8 s0) b) * 256 ^ k.length + decodeBE k) % n
        = ((val (add8 (lsh8 s0) b) % n) * 256 ^ k.length + decodeBE k) % n := mod_mul_add _ _ _ _
      _ = (((256 * val s0 + b.toNat) % n) * 256 ^ k.length + decodeBE k) % n := by rw [step]
      _ = ((256 * val s0 + b.toNat) * 256 ^ k.length + decodeBE k) % n := (mod_mul_add _ _ _ _).symm
      _ = _ := by congr 1; ring

end Model.WindowMul
