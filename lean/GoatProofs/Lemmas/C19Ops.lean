import GoatProofs.Lemmas.C19Items
/-
C19 helper lemmas, part 6: every operation, when it succeeds, hands out only items that satisfy
`ItemOK` with respect to the draws it appended to the log; messages get a new CEK and a new IV.
-/
namespace Model.Rand

theorem mem_single {d : Draw} : d ∈ [d] := List.mem_singleton.mpr rfl

/-- what a successfully created message consists of -/
structure MsgFresh (e : Enc) (ds : List Draw) (items : List Item) : Prop where
  /-- the IV: CBC — a 16-byte draw of this step; GCM — `mask ⊕ be64 1` (first IV of a NEW
      instance) with the 12-byte mask a draw of this step -/
  iv : ∃ iv, Item.iv iv ∈ items ∧ iv.length = e.ivSize ∧
      ((e.gcmKeyLen? = none ∧ Backed ds .cbcIV iv) ∨
       (∃ mask, e.gcmKeyLen? ≠ none ∧ mask.length = 12 ∧ iv = xorCtr mask 1 ∧ Backed ds .gcmMask mask))
  /-- the CEK: a draw of this step of exactly `CEKSize(enc)` bytes, or the shared / agreed key -/
  cek : (∃ cek, Item.cek cek ∈ items ∧ cek.length = e.cekSize ∧ Backed ds .cek cek) ∨
      (∃ k, Item.cekShared k ∈ items ∧ k.length = e.cekSize) ∨ (Item.cekAgreed e.cekSize ∈ items)

theorem iv_itemOK {e : Enc} {iv : Bytes} {s s' : St} {i' : EncInst} {o : Oracle} (h? : Option Hdr)
    (h : (e.new).generateIV.run o s = (.ok (i', iv), s')) :
    ∃ d, s'.log = s.log ++ [d] ∧ d.pos = s.pos ∧ ItemOK [d] (some e) h? (.iv iv) ∧
      ((e.gcmKeyLen? = none ∧ Backed [d] .cbcIV iv) ∨
       (∃ mask, e.gcmKeyLen? ≠ none ∧ mask.length = 12 ∧ iv = xorCtr mask 1 ∧ Backed [d] .gcmMask mask)) := by
  obtain ⟨hl, hcase⟩ := new_generateIV_ok h
  rcases hcase with ⟨hk, h16, rfl, _⟩ | ⟨k, m, hk, hm, h12, rfl, rfl, _⟩
  · refine ⟨⟨.cbcIV, s.pos, iv⟩, rfl, rfl, ⟨?_, Or.inl ⟨h16, ⟨_, mem_single, rfl, rfl⟩⟩⟩,
      Or.inl ⟨hk, ⟨_, mem_single, rfl, rfl⟩⟩⟩
    intro e' he; simp at he; subst he; exact hl
  · refine ⟨⟨.gcmMask, s.pos, m⟩, rfl, rfl, ⟨?_, Or.inr ⟨h12, m, 1, rfl, hm, Nat.le_refl 1, by decide,
      fun _ => ⟨_, mem_single, rfl, rfl⟩⟩⟩, Or.inr ⟨m, by simp [hk], hm, rfl, ⟨_, mem_single, rfl, rfl⟩⟩⟩
    intro e' he; simp at he; subst he; exact hl

theorem cek_itemOK {e : Enc} {cek : Bytes} {s s' : St} {i' : EncInst} {o : Oracle} (h? : Option Hdr)
    (h : (e.new).generateCEK.run o s = (.ok (i', cek), s')) :
    s'.log = s.log ++ [⟨.cek, s.pos, cek⟩] ∧ cek.length = e.cekSize ∧ i' = e.new ∧
      ItemOK [⟨.cek, s.pos, cek⟩] (some e) h? (.cek cek) := by
  obtain ⟨rfl, hl, hi⟩ := new_generateCEK_ok h
  refine ⟨rfl, hl, hi, ⟨⟨_, mem_single, rfl, rfl⟩, ?_⟩⟩
  intro e' he; simp at he; subst he; exact hl


theorem sub_left {ds es : List Draw} : ∀ d ∈ ds, d ∈ ds ++ es := fun _ h => List.mem_append_left _ h
theorem sub_right {ds es : List Draw} : ∀ d ∈ es, d ∈ ds ++ es := fun _ h => List.mem_append_right _ h

theorem newMessage_ok {o : Oracle} {e : Enc} {s s' : St} {items : List Item}
    (h : stepRun o s (.newMessage e) = (.ok items, s')) :
    ∃ ds, s'.log = s.log ++ ds ∧ (∀ it ∈ items, ItemOK ds (some e) none it) ∧ MsgFresh e ds items := by
  unfold stepRun at h
  simp only [step] at h
  obtain ⟨⟨i1, cek⟩, s1, h1, h⟩ := M.run_bind_eq_ok o _ _ _ _ _ h
  simp only at h
  obtain ⟨⟨i2, iv⟩, s2, h2, h⟩ := M.run_bind_eq_ok o _ _ _ _ _ h
  simp only at h
  obtain ⟨_, s3, h3, h⟩ := M.run_bind_eq_ok o _ _ _ _ _ h
  obtain ⟨m, s4, h4, h⟩ := M.run_bind_eq_ok o _ _ _ _ _ h
  obtain ⟨hl1, hc1, rfl, ok1⟩ := cek_itemOK none h1
  obtain ⟨d, hl2, _, ok2, fr2⟩ := iv_itemOK none h2
  have := encryptCheck_ok h3; subst this
  simp only [run_pushMsg, Prod.mk.injEq, Outcome.ok.injEq] at h4
  obtain ⟨rfl, rfl⟩ := h4
  simp only [M.run_pure, Prod.mk.injEq, Outcome.ok.injEq] at h
  obtain ⟨rfl, rfl⟩ := h
  refine ⟨[⟨.cek, s.pos, cek⟩] ++ [d], by simp [hl2, hl1], ?_, ?_⟩
  · intro it hit
    simp only [List.mem_cons, List.mem_nil_iff, or_false] at hit
    rcases hit with rfl | rfl | rfl
    · trivial
    · exact ok1.mono sub_left
    · exact ok2.mono sub_right
  · refine ⟨⟨iv, by simp, (new_generateIV_ok h2).1, ?_⟩, Or.inl ⟨cek, by simp, hc1, ok1.1.mono sub_left⟩⟩
    rcases fr2 with ⟨hk, hb⟩ | ⟨mask, hk, hm, hiv, hb⟩
    · exact Or.inl ⟨hk, hb.mono sub_right⟩
    · exact Or.inr ⟨mask, hk, hm, hiv, hb.mono sub_right⟩


theorem encryptCheck_new_ok {o : Oracle} {e : Enc} {a b : Nat} {s s' : St}
    (h : ((e.new).encryptCheck a b).run o s = (.ok (), s')) : a = e.cekSize ∧ s' = s := by
  refine ⟨?_, encryptCheck_ok h⟩
  rw [new_eq] at h
  cases hk : e.gcmKeyLen? with
  | some k =>
    rw [hk] at h
    simp only [EncInst.encryptCheck, Gcm.new] at h
    by_cases hh : a = k
    · rw [← gcmKeyLen_cekSize hk]; exact hh
    · simp [hh] at h
  | none =>
    rw [hk] at h
    simp only [EncInst.encryptCheck] at h
    by_cases hh : a = e.cbcLens.2 + e.cbcLens.1
    · rw [← cbc_cekSize hk]; omega
    · simp [hh] at h

theorem newMessageKW_ok {o : Oracle} {e : Enc} {kw : KW} {hd : Hdr} {s s' : St} {items : List Item}
    (h : stepRun o s (.newMessageKW e kw hd) = (.ok items, s')) :
    ∃ ds, s'.log = s.log ++ ds ∧ (∀ it ∈ items, ItemOK ds (some e) (some hd) it) ∧ MsgFresh e ds items := by
  unfold stepRun at h
  simp only [step] at h
  by_cases hder : kw.isDeriver = true
  · simp only [hder, if_true] at h
    obtain ⟨c, s1, h1, h⟩ := M.run_bind_eq_ok o _ _ _ _ _ h
    obtain ⟨⟨i2, iv⟩, s2, h2, h⟩ := M.run_bind_eq_ok o _ _ _ _ _ h
    simp only at h
    obtain ⟨_, s3, h3, h⟩ := M.run_bind_eq_ok o _ _ _ _ _ h
    obtain ⟨m, s4, h4, h⟩ := M.run_bind_eq_ok o _ _ _ _ _ h
    obtain ⟨ds1, hl1, ok1, hdr, hag⟩ := kwDerive_ok (some hd) h1
    obtain ⟨d, hl2, _, ok2, fr2⟩ := iv_itemOK (some hd) h2
    obtain ⟨hlen, rfl⟩ := encryptCheck_new_ok h3
    simp only [run_pushMsg, Prod.mk.injEq, Outcome.ok.injEq] at h4
    obtain ⟨rfl, rfl⟩ := h4
    simp only [M.run_pure, Prod.mk.injEq, Outcome.ok.injEq] at h
    obtain ⟨rfl, rfl⟩ := h
    refine ⟨ds1 ++ [d], by simp [hl2, hl1], ?_, ?_⟩
    · intro it hit
      simp only [List.mem_cons, List.mem_nil_iff, or_false] at hit
      rcases hit with rfl | rfl | rfl
      · trivial
      · exact ok1.mono sub_left
      · exact ok2.mono sub_right
    · refine ⟨⟨iv, by simp, (new_generateIV_ok h2).1, ?_⟩, ?_⟩
      · rcases fr2 with ⟨hk, hb⟩ | ⟨mask, hk, hm, hiv, hb⟩
        · exact Or.inl ⟨hk, hb.mono sub_right⟩
        · exact Or.inr ⟨mask, hk, hm, hiv, hb.mono sub_right⟩
      · cases c with
        | drawn b =>
          exact Or.inl ⟨b, by simp [CekVal.item], hdr b rfl, (ok1.1).mono sub_left⟩
        | shared k => exact Or.inr (Or.inl ⟨k, by simp [CekVal.item], hlen⟩)
        | agreed n =>
          have : n = e.cekSize := hag n rfl
          subst this
          exact Or.inr (Or.inr (by simp [CekVal.item]))
  · simp only [hder] at h
    obtain ⟨⟨i1, cek⟩, s1, h1, h⟩ := M.run_bind_eq_ok o _ _ _ _ _ h
    simp only at h
    obtain ⟨⟨i2, iv⟩, s2, h2, h⟩ := M.run_bind_eq_ok o _ _ _ _ _ h
    simp only at h
    obtain ⟨⟨hd', kitems⟩, s3, h3, h⟩ := M.run_bind_eq_ok o _ _ _ _ _ h
    simp only at h
    obtain ⟨_, s4, h4, h⟩ := M.run_bind_eq_ok o _ _ _ _ _ h
    obtain ⟨m, s5, h5, h⟩ := M.run_bind_eq_ok o _ _ _ _ _ h
    obtain ⟨hl1, hc1, rfl, ok1⟩ := cek_itemOK (some hd) h1
    obtain ⟨d, hl2, _, ok2, fr2⟩ := iv_itemOK (some hd) h2
    obtain ⟨ds3, hl3, ok3⟩ := kwWrap_ok (some e) h3
    have := encryptCheck_ok h4; subst this
    simp only [run_pushMsg, Prod.mk.injEq, Outcome.ok.injEq] at h5
    obtain ⟨rfl, rfl⟩ := h5
    simp only [M.run_pure, Prod.mk.injEq, Outcome.ok.injEq] at h
    obtain ⟨rfl, rfl⟩ := h
    have sub1 : ∀ x ∈ [(⟨.cek, s.pos, cek⟩ : Draw)], x ∈ [⟨.cek, s.pos, cek⟩] ++ [d] ++ ds3 :=
      fun x hx => List.mem_append_left _ (List.mem_append_left _ hx)
    have sub2 : ∀ x ∈ [d], x ∈ [(⟨.cek, s.pos, cek⟩ : Draw)] ++ [d] ++ ds3 :=
      fun x hx => List.mem_append_left _ (List.mem_append_right _ hx)
    refine ⟨[⟨.cek, s.pos, cek⟩] ++ [d] ++ ds3, by simp [hl3, hl2, hl1], ?_, ?_⟩
    · intro it hit
      simp only [List.cons_append, List.nil_append, List.mem_cons] at hit
      rcases hit with rfl | rfl | rfl | hit
      · trivial
      · exact ok1.mono sub1
      · exact ok2.mono sub2
      · exact (ok3 it hit).mono sub_right
    · refine ⟨⟨iv, by simp, (new_generateIV_ok h2).1, ?_⟩, Or.inl ⟨cek, by simp, hc1, ok1.1.mono sub1⟩⟩
      rcases fr2 with ⟨hk, hb⟩ | ⟨mask, hk, hm, hiv, hb⟩
      · exact Or.inl ⟨hk, hb.mono sub2⟩
      · exact Or.inr ⟨mask, hk, hm, hiv, hb.mono sub2⟩


/-- every successful step hands out only items that are `ItemOK` for the draws it appended -/
theorem step_items {o : Oracle} {s s' : St} {op : Op} {items : List Item} (hs : Inv s)
    (h : stepRun o s op = (.ok items, s')) :
    ∃ ds, s'.log = s.log ++ ds ∧ ∀ it ∈ items, ItemOK ds (op.enc? s) op.hdr? it := by
  cases op with
  | newGcm e =>
    rw [stepRun_newGcm] at h
    cases hk : e.gcmKeyLen? with
    | none => rw [hk] at h; simp at h
    | some k =>
      rw [hk] at h
      simp at h
      obtain ⟨rfl, rfl⟩ := h
      exact ⟨[], by simp, by intro it hit; simp at hit; subst hit; trivial⟩
  | gcmCEK i =>
    rw [stepRun_gcmCEK] at h
    cases hg : s.insts[i]? with
    | none => rw [hg] at h; simp at h
    | some g =>
      rw [hg] at h
      simp only at h
      cases ha : ask o s.pos g.keyLen with
      | none => rw [ha] at h; simp at h
      | some b =>
        rw [ha] at h
        simp only [Prod.mk.injEq, Outcome.ok.injEq] at h
        obtain ⟨rfl, rfl⟩ := h
        refine ⟨[⟨.cek, s.pos, b⟩], rfl, ?_⟩
        intro it hit
        simp at hit; subst hit
        refine ⟨⟨_, mem_single, rfl, rfl⟩, ?_⟩
        intro e he
        simp [Op.enc?, hg] at he
        subst he
        rw [ask_length ha]; exact (hs i g hg).2.2.2
  | gcmIV i =>
    rw [stepRun_gcmIV] at h
    cases hg : s.insts[i]? with
    | none => rw [hg] at h; simp at h
    | some g =>
      rw [hg] at h
      simp only at h
      have hI := hs i g hg
      have hiv : ∀ e, Op.enc? s (.gcmIV i) = some e → e.ivSize = 12 := by
        intro e he
        simp [Op.enc?, hg] at he
        subst he
        exact gcm_ivSize hI.2.2.1
      split at h
      · cases ha : ask o s.pos 12 with
        | none => rw [ha] at h; simp at h
        | some m =>
          rw [ha] at h
          simp only [Prod.mk.injEq, Outcome.ok.injEq] at h
          obtain ⟨rfl, rfl⟩ := h
          have hm := ask_length ha
          refine ⟨[⟨.gcmMask, s.pos, m⟩], rfl, ?_⟩
          intro it hit
          simp at hit; subst hit
          have hl : (xorCtr m 1).length = 12 := xorCtr_length 1 hm
          refine ⟨fun e he => by rw [hl, hiv e he], Or.inr ⟨hl, m, 1, rfl, hm, Nat.le_refl 1, by decide,
            fun _ => ⟨_, mem_single, rfl, rfl⟩⟩⟩
      · rename_i hnz
        split at h
        · simp at h
        · rename_i hno
          simp only [Prod.mk.injEq, Outcome.ok.injEq] at h
          obtain ⟨rfl, rfl⟩ := h
          refine ⟨[], by simp, ?_⟩
          intro it hit
          simp at hit; subst hit
          have hl : (xorCtr g.mask ((g.counter + 1) % 2 ^ 64)).length = 12 := xorCtr_length _ hI.1
          have hlt : (g.counter + 1) % 2 ^ 64 < 2 ^ 64 := Nat.mod_lt _ (by decide)
          have h1 : 1 ≤ (g.counter + 1) % 2 ^ 64 := by omega
          have hne1 : (g.counter + 1) % 2 ^ 64 ≠ 1 := by
            have := hI.2.1
            intro h1'
            by_cases hlt' : g.counter + 1 < 2 ^ 64
            · rw [Nat.mod_eq_of_lt hlt'] at h1'; omega
            · have : g.counter + 1 = 2 ^ 64 := by omega
              rw [this] at hno; simp at hno
          exact ⟨fun e he => by rw [hl, hiv e he], Or.inr ⟨hl, g.mask, _, rfl, hI.1, h1, hlt,
            fun hc => absurd hc hne1⟩⟩
  | cbcCEK e =>
    unfold stepRun at h
    simp only [step] at h
    cases hk : e.gcmKeyLen? with
    | some k => rw [hk] at h; simp at h
    | none =>
      rw [hk] at h
      simp only [cbcGenerateCEK] at h
      obtain ⟨b, s1, h1, h2⟩ := M.run_bind_eq_ok o _ _ _ _ _ h
      obtain ⟨rfl, hl, _⟩ := draw_ok h1
      simp at h2
      obtain ⟨rfl, rfl⟩ := h2
      refine ⟨[⟨.cek, s.pos, b⟩], rfl, ?_⟩
      intro it hit
      simp at hit; subst hit
      refine ⟨⟨_, mem_single, rfl, rfl⟩, ?_⟩
      intro e' he
      simp [Op.enc?] at he; subst he
      rw [hl]; exact cbc_cekSize hk
  | cbcIV e =>
    unfold stepRun at h
    simp only [step] at h
    cases hk : e.gcmKeyLen? with
    | some k => rw [hk] at h; simp at h
    | none =>
      rw [hk] at h
      simp only [cbcGenerateIV] at h
      obtain ⟨b, s1, h1, h2⟩ := M.run_bind_eq_ok o _ _ _ _ _ h
      obtain ⟨rfl, hl, _⟩ := draw_ok h1
      simp at h2
      obtain ⟨rfl, rfl⟩ := h2
      refine ⟨[⟨.cbcIV, s.pos, b⟩], rfl, ?_⟩
      intro it hit
      simp at hit; subst hit
      refine ⟨?_, Or.inl ⟨hl, ⟨_, mem_single, rfl, rfl⟩⟩⟩
      intro e' he
      simp [Op.enc?] at he; subst he
      rw [hl, cbc_ivSize hk]
  | wrapKey kw n hd =>
    unfold stepRun at h
    simp only [step] at h
    obtain ⟨⟨hd', kitems⟩, s1, h1, h2⟩ := M.run_bind_eq_ok o _ _ _ _ _ h
    simp at h2
    obtain ⟨rfl, rfl⟩ := h2
    exact kwWrap_ok none h1
  | deriveKey kw e =>
    unfold stepRun at h
    simp only [step] at h
    obtain ⟨c, s1, h1, h2⟩ := M.run_bind_eq_ok o _ _ _ _ _ h
    simp at h2
    obtain ⟨rfl, rfl⟩ := h2
    obtain ⟨ds, hl, ok, _, _⟩ := kwDerive_ok none h1
    exact ⟨ds, hl, by intro it hit; simp at hit; subst hit; exact ok⟩
  | newMessage e =>
    obtain ⟨ds, hl, ok, _⟩ := newMessage_ok h
    exact ⟨ds, hl, ok⟩
  | newMessageKW e kw hd =>
    obtain ⟨ds, hl, ok, _⟩ := newMessageKW_ok h
    exact ⟨ds, hl, ok⟩
  | encrypt m kw hd =>
    unfold stepRun at h
    simp only [step] at h
    obtain ⟨x, s1, h1, h⟩ := M.run_bind_eq_ok o _ _ _ _ _ h
    obtain ⟨⟨hd', kitems⟩, s2, h2, h3⟩ := M.run_bind_eq_ok o _ _ _ _ _ h
    simp at h3
    obtain ⟨rfl, rfl⟩ := h3
    have : s1 = s := by
      rw [run_getMsg] at h1
      cases hm : s.msgs[m]? with
      | none => rw [hm] at h1; simp at h1
      | some y => rw [hm] at h1; simp at h1; exact h1.2.symm
    subst this
    exact kwWrap_ok none h2
  | bad =>
    unfold stepRun at h
    simp [step] at h

/-- the key wrapper and the header VALUE a step hands to `WrapKey` -/
def Op.kwArgs? : Op → Option (KW × Hdr)
  | .wrapKey kw _ h => some (kw, h)
  | .newMessageKW _ kw h => if kw.isDeriver then none else some (kw, h)
  | .encrypt _ kw h => some (kw, h)
  | _ => none

/-- a successful step that wraps a key ran `kwWrap` on exactly the header value of the operation,
    and hands out everything `kwWrap` handed out -/
theorem step_kwWrap {o : Oracle} {s s' : St} {op : Op} {items : List Item} {kw : KW} {hd : Hdr}
    (ha : op.kwArgs? = some (kw, hd)) (h : stepRun o s op = (.ok items, s')) :
    ∃ n h' kitems s1 s2, (kwWrap kw n hd).run o s1 = (.ok (h', kitems), s2) ∧
      ∀ it ∈ kitems, it ∈ items := by
  cases op with
  | wrapKey kw' n hd' =>
    simp [Op.kwArgs?] at ha
    obtain ⟨rfl, rfl⟩ := ha
    unfold stepRun at h
    simp only [step] at h
    obtain ⟨⟨hd', kitems⟩, s1, h1, h2⟩ := M.run_bind_eq_ok o _ _ _ _ _ h
    simp at h2
    obtain ⟨rfl, rfl⟩ := h2
    exact ⟨n, hd', _, s, _, h1, fun _ hit => hit⟩
  | encrypt m kw' hd' =>
    simp [Op.kwArgs?] at ha
    obtain ⟨rfl, rfl⟩ := ha
    unfold stepRun at h
    simp only [step] at h
    obtain ⟨x, s1, _, h⟩ := M.run_bind_eq_ok o _ _ _ _ _ h
    obtain ⟨⟨hd', kitems⟩, s2, h2, h3⟩ := M.run_bind_eq_ok o _ _ _ _ _ h
    simp at h3
    obtain ⟨rfl, rfl⟩ := h3
    exact ⟨_, hd', _, s1, _, h2, fun _ hit => hit⟩
  | newMessageKW e kw' hd' =>
    by_cases hder : kw'.isDeriver = true
    · simp [Op.kwArgs?, hder] at ha
    · simp [Op.kwArgs?, hder] at ha
      obtain ⟨rfl, rfl⟩ := ha
      unfold stepRun at h
      simp only [step, hder] at h
      obtain ⟨⟨i1, cek⟩, s1, _, h⟩ := M.run_bind_eq_ok o _ _ _ _ _ h
      simp only at h
      obtain ⟨⟨i2, iv⟩, s2, _, h⟩ := M.run_bind_eq_ok o _ _ _ _ _ h
      simp only at h
      obtain ⟨⟨hd', kitems⟩, s3, h3, h⟩ := M.run_bind_eq_ok o _ _ _ _ _ h
      simp only at h
      obtain ⟨_, s4, _, h⟩ := M.run_bind_eq_ok o _ _ _ _ _ h
      obtain ⟨m, s5, _, h⟩ := M.run_bind_eq_ok o _ _ _ _ _ h
      simp only [M.run_pure, Prod.mk.injEq, Outcome.ok.injEq] at h
      obtain ⟨rfl, rfl⟩ := h
      exact ⟨_, hd', _, s2, _, h3, fun _ hit => List.mem_append_right _ hit⟩
  | newGcm _ => simp [Op.kwArgs?] at ha
  | gcmCEK _ => simp [Op.kwArgs?] at ha
  | gcmIV _ => simp [Op.kwArgs?] at ha
  | cbcCEK _ => simp [Op.kwArgs?] at ha
  | cbcIV _ => simp [Op.kwArgs?] at ha
  | deriveKey _ _ => simp [Op.kwArgs?] at ha
  | newMessage _ => simp [Op.kwArgs?] at ha
  | bad => simp [Op.kwArgs?] at ha

end Model.Rand
