import GoatProofs.Lemmas.C11Round
/-
C11 — header placement: the protected header text (base64url of the JSON of the emitted object)
reads back as the header; compact serialisations.
-/
namespace C11
open Model.HeaderTable Model.Header Gen.HeaderTables

/-- oracle laws for carrying the object `obj` as protected-header text -/
def TextLaw (o : Oracle) (obj : List (String × Wire)) : Prop :=
  ∃ d s, o ⟨"json.marshal", [.obj obj]⟩ = .bytes d ∧ o ⟨"c11.b64url.enc", [.bytes d]⟩ = .str s ∧
    o ⟨"c11.b64url.dec", [.str s]⟩ = .bytes d ∧ o ⟨"json.decodeMap", [.bytes d]⟩ = .obj obj

theorem protected_roundtrip (o : Oracle) (enc : List Row) (dec : List DecStep)
    (hfit : tablesFit enc dec = true) (h : Header) (wf : WF o enc dec h)
    (law : ∀ obj, (encodeWith enc h).run o = .ok obj → TextLaw o obj) :
    ∃ raw obj, (protectedText (fun h => do let x ← encodeWith enc h; pure (Wire.obj x)) h).run o = .ok raw ∧
      (do let b ← b64urlDecStr raw; unmarshalWith dec b : PO Header).run o = .ok { fill o h with raw := obj } ∧
      (encodeWith enc h).run o = .ok obj := by
  obtain ⟨obj, ho⟩ := encode_ok' o enc dec hfit h wf
  obtain ⟨d, s, hm, he, hd, hj⟩ := law obj ho
  refine ⟨s, obj, ?_, ?_, ho⟩
  · simp only [protectedText, marshalObj, b64urlEnc, PO.run_bind, ho, PO.run_pure, PO.run_query, hm, he]
    rfl
  · simp only [b64urlDecStr, readBytes, unmarshalWith, PO.run_bind, PO.run_query, hd, PO.run_pure, hj]
    exact decodeWith_roundtrip o enc dec hfit h wf obj ho

theorem jws_fit' : tablesFit jws.encRows jws.decSteps = true := by decide
theorem jwe_fit' : tablesFit jwe.encRows jwe.decSteps = true := by decide

end C11
