import GoatProofs.Lemmas.GroupEd448
/-
Lemmas for `VarTimeDoubleScalarBaseMult` (GRP): NAF table selection, the add/sub step, the
high-to-low double-and-add loop, and the loop that skips the leading zero digits.
-/
namespace Model.WindowMul
open Model.Recode (digitsValue wrapI8 wrapI8_of_range digitsValue_append)

variable {C G : Type} [AddCommGroup G]

/-- digit shape that a table of `n` odd multiples can serve: 0, or odd with |d| < 2n -/
def NafDigitFor (n : Nat) (d : Int) : Prop := d = 0 ∨ (d % 2 = 1 ∧ -(2 * n : Int) < d ∧ d < 2 * n)

/-- `tbl` holds the odd multiples `1·x, 3·x, …, (2n−1)·x` up to `Rep` -/
def OddTable (ops : GroupOps C) (Rep : C → G → Prop) (tbl : List C) (n : Nat) (x : G) : Prop :=
  tbl.length = n ∧ ∀ i, i < n → Rep (tbl.getD i ops.zero) (((2 * i + 1 : ℕ) : ℤ) • x)

/-- the pair (0, 0) as tested by the skipping loop -/
def bothZero (p : Int × Int) : Bool := p.1 == 0 && p.2 == 0

theorem dropWhile_zero_fst : ∀ (l : List (Int × Int)),
    digitsValue 2 ((l.dropWhile bothZero).map Prod.fst).reverse = digitsValue 2 (l.map Prod.fst).reverse
  | [] => rfl
  | p :: l => by
    by_cases h : bothZero p = true
    · rw [List.dropWhile_cons_of_pos h, dropWhile_zero_fst l]
      have h1 : p.1 = 0 := by
        simp only [bothZero, Bool.and_eq_true, beq_iff_eq] at h; exact h.1
      rw [List.map_cons, List.reverse_cons, digitsValue_append, h1]
      simp [digitsValue]
    · rw [List.dropWhile_cons_of_neg h]

theorem dropWhile_zero_snd : ∀ (l : List (Int × Int)),
    digitsValue 2 ((l.dropWhile bothZero).map Prod.snd).reverse = digitsValue 2 (l.map Prod.snd).reverse
  | [] => rfl
  | p :: l => by
    by_cases h : bothZero p = true
    · rw [List.dropWhile_cons_of_pos h, dropWhile_zero_snd l]
      have h1 : p.2 = 0 := by
        simp only [bothZero, Bool.and_eq_true, beq_iff_eq] at h; exact h.2
      rw [List.map_cons, List.reverse_cons, digitsValue_append, h1]
      simp [digitsValue]
    · rw [List.dropWhile_cons_of_neg h]

section
variable {ops : GroupOps C} {Rep : C → G → Prop} (R : Respects ops Rep)
include R

theorem oddTable_nafTable {q : C} {x : G} (hq : Rep q x) (n : Nat) :
    OddTable ops Rep (nafTable ops q n) n x :=
  ⟨nafTable_length ops q n, fun i hi => nafTable_rep R hq n i hi ops.zero⟩

/-- `points[x/2]` for an odd `0 < x < 2n` is in range and is `x·Q` -/
theorem nafSelect_rep {tbl : List C} {n : Nat} {x : G} (hT : OddTable ops Rep tbl n x)
    (d : Int) (hodd : d % 2 = 1) (h0 : 0 < d) (h1 : d < 2 * n) :
    ∃ m, nafSelect tbl d = .ok m ∧ Rep m (d • x) := by
  unfold nafSelect
  have hdiv : Int.tdiv d 2 = d / 2 := Int.tdiv_eq_ediv_of_nonneg (by omega)
  have hi : (d / 2).toNat < n := by omega
  simp only [hdiv, show ¬ (d / 2 < 0) by omega, if_false]
  rw [List.getElem?_eq_getElem (by rw [hT.1]; exact hi)]
  refine ⟨_, rfl, ?_⟩
  have := hT.2 (d / 2).toNat hi
  rw [List.getD_eq_getElem?_getD, List.getElem?_eq_getElem (by rw [hT.1]; exact hi)] at this
  refine R.cast this ?_
  congr 1
  push_cast
  omega

/-- `if x > 0 { v += T[x] } else if x < 0 { v -= T[-x] }` adds `x·Q` -/
theorem nafAddSub_rep {tbl : List C} {n : Nat} {x : G} (hT : OddTable ops Rep tbl n x) (hn : n ≤ 64)
    {v : C} {z : G} (hv : Rep v z) (d : Int) (hd : NafDigitFor n d) :
    ∃ r, nafAddSub ops tbl v d = .ok r ∧ Rep r (z + d • x) := by
  unfold nafAddSub
  rcases hd with rfl | ⟨hodd, hlo, hhi⟩
  · exact ⟨v, by simp, R.cast hv (by simp)⟩
  · by_cases hpos : d > 0
    · obtain ⟨m, hm, hr⟩ := nafSelect_rep R hT d hodd hpos hhi
      simp only [hpos, if_true, hm]
      exact ⟨_, rfl, R.add hv hr⟩
    · have hneg : d < 0 := by omega
      have hw : wrapI8 (-d) = -d := wrapI8_of_range (by omega) (by omega)
      obtain ⟨m, hm, hr⟩ := nafSelect_rep R hT (-d) (by omega) (by omega) (by omega)
      simp only [hpos, hneg, if_false, if_true, hw, hm]
      refine ⟨_, rfl, R.cast (R.sub hv hr) ?_⟩
      module

/-- the main loop, from the highest remaining position down -/
theorem doubleLoop_rep {aT bT : List C} {xa xb : G} (hA : OddTable ops Rep aT 8 xa)
    (hB : OddTable ops Rep bT 64 xb) :
    ∀ (pairs : List (Int × Int)) (v : C) (z : G), Rep v z →
      (∀ p ∈ pairs, NafDigitFor 8 p.1 ∧ NafDigitFor 64 p.2) →
      ∃ r, pairs.foldl (fun (acc : Outcome C) p => acc.bind fun v =>
            let v := ops.double v
            (nafAddSub ops aT v p.1).bind fun v => nafAddSub ops bT v p.2) (.ok v) = .ok r ∧
        Rep r (((2 : ℤ) ^ pairs.length) • z + digitsValue 2 (pairs.map Prod.fst).reverse • xa
          + digitsValue 2 (pairs.map Prod.snd).reverse • xb)
  | [], v, z, hv, _ => ⟨v, rfl, R.cast hv (by simp [digitsValue])⟩
  | p :: pairs, v, z, hv, hp => by
    have hpd := hp p (List.mem_cons_self ..)
    obtain ⟨r1, e1, h1⟩ := nafAddSub_rep R hA (by omega) (R.double hv) p.1 hpd.1
    obtain ⟨r2, e2, h2⟩ := nafAddSub_rep R hB (by omega) h1 p.2 hpd.2
    obtain ⟨r, e, h⟩ := doubleLoop_rep hA hB pairs r2 _ h2 (fun q hq => hp q (List.mem_cons_of_mem _ hq))
    refine ⟨r, ?_, R.cast h ?_⟩
    · simp only [List.foldl_cons]
      have : ((Outcome.ok v : Outcome C).bind fun v =>
            let v := ops.double v
            (nafAddSub ops aT v p.1).bind fun v => nafAddSub ops bT v p.2) = .ok r2 := by
        show (nafAddSub ops aT (ops.double v) p.1).bind (fun v => nafAddSub ops bT v p.2) = _
        rw [e1]; exact e2
      rw [this]; exact e
    · simp only [List.map_cons, List.reverse_cons, digitsValue_append, List.length_reverse,
        List.length_map, List.length_cons, digitsValue]
      rw [pow_succ]
      module

/-- `VarTimeDoubleScalarBaseMult`: `a·A + b·B` from the two NAFs -/
theorem ed448DoubleScalarMult_rep {a : C} {xa xb : G} (ha : Rep a xa) {bT : List C}
    (hB : OddTable ops Rep bT 64 xb) (aNAF bNAF : List Int) (hlen : aNAF.length = bNAF.length)
    (hda : ∀ d ∈ aNAF, NafDigitFor 8 d) (hdb : ∀ d ∈ bNAF, NafDigitFor 64 d) :
    ∃ r, ed448DoubleScalarMult ops aNAF bNAF a bT = .ok r ∧
      Rep r (digitsValue 2 aNAF • xa + digitsValue 2 bNAF • xb) := by
  unfold ed448DoubleScalarMult
  have hA : OddTable ops Rep (nafTable5 ops a) 8 xa := oddTable_nafTable R ha 8
  have hmem : ∀ p ∈ ((aNAF.zip bNAF).reverse).dropWhile bothZero,
      NafDigitFor 8 p.1 ∧ NafDigitFor 64 p.2 := by
    intro p hp
    have h1 := (List.dropWhile_sublist bothZero).subset hp
    rw [List.mem_reverse] at h1
    have := List.of_mem_zip (a := p.1) (b := p.2) h1
    exact ⟨hda _ this.1, hdb _ this.2⟩
  obtain ⟨r, e, h⟩ := doubleLoop_rep R hA hB _ _ _ R.zero hmem
  refine ⟨r, e, R.cast h ?_⟩
  rw [dropWhile_zero_fst, dropWhile_zero_snd, List.map_reverse, List.map_reverse, List.reverse_reverse,
    List.reverse_reverse, List.map_fst_zip (by omega), List.map_snd_zip (by omega)]
  simp

end

end Model.WindowMul
