import GoatProofs.Lemmas.C10StructRT
/-
Structs without embedding (every field named, exported and tagged): `typeFields` is the field list
itself, and the field-wise round trip becomes equality of the whole value.
-/
namespace GoatProofs.Lemmas.C10Plain
open Model Model.Custom GoatProofs.Lemmas.C10Lens GoatProofs.Lemmas.C10Frame
open GoatProofs.Lemmas.C10Override GoatProofs.Lemmas.C10Paths GoatProofs.Lemmas.C10StructRT

def plainField (fd : Field) : Bool := !fd.anon && fd.exported && fd.tag != ""

def plainOut (pre : List Nat) : Nat → List Field → List FlatField
  | _, [] => []
  | i, fd :: r => ⟨fd.tag, pre ++ [i], fd.ty⟩ :: plainOut pre (i + 1) r

theorem scanField_plain (pre : List Nat) (i : Nat) (fd : Field) (st : ScanState) (h : plainField fd = true) :
    scanField false pre i fd st = { st with out := st.out ++ [⟨fd.tag, pre ++ [i], fd.ty⟩] } := by
  unfold plainField at h
  simp only [Bool.and_eq_true, Bool.not_eq_true', bne_iff_ne, ne_eq] at h
  obtain ⟨⟨ha, he⟩, ht⟩ := h
  unfold scanField
  simp [ha, he, ht]

theorem scanFields_plain (pre : List Nat) : ∀ (r : List Field) (i : Nat) (st : ScanState),
    (∀ fd ∈ r, plainField fd = true) →
    scanFields false pre i r st = { st with out := st.out ++ plainOut pre i r } := by
  intro r
  induction r with
  | nil => intro i st _; simp [scanFields, plainOut]
  | cons fd r ih =>
    intro i st h
    unfold scanFields
    rw [scanField_plain pre i fd st (h fd List.mem_cons_self)]
    rw [ih (i + 1) _ (fun x hx => h x (List.mem_cons_of_mem _ hx))]
    simp [plainOut]

theorem typeFieldsLoop_plain (n : Nat) (id : String) (fields : List Field)
    (h : ∀ fd ∈ fields, plainField fd = true) :
    typeFieldsLoop (n + 2) [⟨[], id, fields⟩] [] [] [] = plainOut [] 0 fields := by
  simp only [typeFieldsLoop, scanLevel, List.contains_nil, Bool.false_eq_true, if_false, countOf,
    gt_iff_lt, Nat.not_lt_zero, decide_false]
  rw [scanFields_plain [] fields 0 _ h]
  simp [typeFieldsLoop]

theorem typeFields_plain (id : String) (fields : List Field) (h : ∀ fd ∈ fields, plainField fd = true) :
    typeFields (.struct id fields) = plainOut [] 0 fields :=
  typeFieldsLoop_plain 62 id fields h

theorem mem_plainOut (pre : List Nat) : ∀ (r : List Field) (i k : Nat) (fd : Field),
    r[k]? = some fd → (⟨fd.tag, pre ++ [i + k], fd.ty⟩ : FlatField) ∈ plainOut pre i r := by
  intro r
  induction r with
  | nil => intro i k fd h; simp at h
  | cons a r ih =>
    intro i k fd h
    cases k with
    | zero => simp at h; subst h; simp [plainOut]
    | succ k =>
      simp at h
      have := ih (i + 1) k fd h
      rw [show i + 1 + k = i + (k + 1) by omega] at this
      simp [plainOut, this]

theorem plainOut_index (pre : List Nat) : ∀ (r : List Field) (i : Nat) (f : FlatField),
    f ∈ plainOut pre i r → ∃ k fd, r[k]? = some fd ∧ f = ⟨fd.tag, pre ++ [i + k], fd.ty⟩ := by
  intro r
  induction r with
  | nil => intro i f h; simp [plainOut] at h
  | cons a r ih =>
    intro i f h
    simp only [plainOut, List.mem_cons] at h
    rcases h with h | h
    · exact ⟨0, a, by simp, by simpa using h⟩
    · obtain ⟨k, fd, hk, hf⟩ := ih (i + 1) f h
      exact ⟨k + 1, fd, by simpa using hk, by rw [hf, show i + 1 + k = i + (k + 1) by omega]⟩

/-- reading / writing slot `i` of a plain struct value -/
theorem walkGet_slot (id : String) (fields : List Field) (i : Nat) (fd : Field) (xs : List Val)
    (h : fields[i]? = some fd) :
    walkGet true [i] (.struct id fields) true (.strct xs) = .ok (fd.ty, xs.getD i .opaque) := by
  simp [walkGet, fieldAt, structFields, h, recGet]

theorem walkSet_slot (id : String) (fields : List Field) (i : Nat) (fd : Field) (xs : List Val) (x : Val)
    (h : fields[i]? = some fd) :
    walkSet [i] (.struct id fields) (.strct xs) x = .strct (setPad xs i x) := by
  simp [walkSet, fieldAt, structFields, h, recSet, recGet]

theorem setPad_length (xs : List Val) (i : Nat) (x : Val) (h : i < xs.length) :
    (setPad xs i x).length = xs.length := by
  rw [setPad_eq_set xs i x h]; simp

/-- **plain struct round trip** — a struct whose fields are all named, exported and tagged (tags
    pairwise distinct: `fieldsOK`), with a value that has one slot per field: if every field value
    round-trips as a value of its own type, then decoding what `encode` wrote — into any destination,
    in particular the zero value — gives back exactly the value. -/
theorem plain_struct_roundtrip (o : Oracle) (fuel : Nat) (id : String) (fields : List Field)
    (vs : List Val) (cur : Val)
    (hplain : ∀ fd ∈ fields, plainField fd = true)
    (hok : fieldsOK (.struct id fields) = true)
    (hvs : vs.length = fields.length)
    (hRT : ∀ i fd, fields[i]? = some fd → ∀ w, (encode fuel true fd.ty (vs.getD i .opaque)).run o = .ok w →
        ∀ c, (decodeInto fuel fd.ty c w).run o = .ok (vs.getD i .opaque))
    (w : Wire) (henc : (encode (fuel + 1) true (.struct id fields) (.strct vs)).run o = .ok w) :
    (decodeInto (fuel + 1) (.struct id fields) cur w).run o = .ok (.strct vs) := by
  obtain ⟨cs, hfit, hcs⟩ := fitStruct_length fields.length cur
  have htf := typeFields_plain id fields hplain
  have hmemf : ∀ f ∈ typeFields (.struct id fields), ∃ k fd, fields[k]? = some fd ∧ f = ⟨fd.tag, [k], fd.ty⟩ := by
    intro f hf
    rw [htf] at hf
    obtain ⟨k, fd, hk, he⟩ := plainOut_index [] fields 0 f hf
    exact ⟨k, fd, hk, by simpa using he⟩
  have hRT' : ∀ f ∈ typeFields (.struct id fields), ∀ tvo,
      walkGet true f.index (.struct id fields) true (.strct vs) = .ok tvo →
      ∀ w, (encode fuel true tvo.1 tvo.2).run o = .ok w → ∀ c, (decodeInto fuel tvo.1 c w).run o = .ok tvo.2 := by
    intro f hf tvo hw
    obtain ⟨k, fd, hk, he⟩ := hmemf f hf
    subst he
    rw [walkGet_slot id fields k fd vs hk] at hw
    cases hw
    exact hRT k fd hk
  have hcur : ∀ f ∈ typeFields (.struct id fields), ∃ tv,
      walkGet true f.index (.struct id fields) true (fitStruct fields.length cur) = .ok tv := by
    intro f hf
    obtain ⟨k, fd, hk, he⟩ := hmemf f hf
    subst he
    rw [hfit]
    exact ⟨_, walkGet_slot id fields k fd cs hk⟩
  let Inv : Val → Prop := fun v => ∃ xs, v = .strct xs ∧ xs.length = fields.length
  have hInv : ∀ f ∈ typeFields (.struct id fields), ∀ v x, Inv v → Inv (walkSet f.index (.struct id fields) v x) := by
    intro f hf v x hinv
    obtain ⟨xs, hv, hl⟩ := hinv
    obtain ⟨k, fd, hk, he⟩ := hmemf f hf
    subst he
    subst hv
    have hklt : k < fields.length := by
      rcases Nat.lt_or_ge k fields.length with h | h
      · exact h
      · rw [List.getElem?_eq_none h] at hk; cases hk
    exact ⟨_, walkSet_slot id fields k fd xs x hk, by rw [setPad_length xs k x (by omega)]; exact hl⟩
  obtain ⟨sv', hrun, ⟨xs, hxs, hxl⟩, hfin⟩ :=
    struct_roundtrip_fields o fuel id fields (.strct vs) cur hok hRT' w henc hcur Inv hInv ⟨cs, hfit, hcs⟩
  rw [hrun, hxs]
  congr 2
  apply List.ext_getElem (by omega)
  intro i h1 h2
  have hi : i < fields.length := by omega
  have hfd : fields[i]? = some fields[i] := List.getElem?_eq_getElem hi
  have hmem : (⟨fields[i].tag, [i], fields[i].ty⟩ : FlatField) ∈ typeFields (.struct id fields) := by
    rw [htf]
    have := mem_plainOut [] fields 0 i fields[i] hfd
    simpa using this
  have := hfin _ hmem
  rw [hxs, walkGet_slot id fields i _ xs hfd, walkGet_slot id fields i _ vs hfd] at this
  simp only [Outcome.ok.injEq, Prod.mk.injEq, true_and] at this
  simpa [List.getD, h1, h2] using this

end GoatProofs.Lemmas.C10Plain
