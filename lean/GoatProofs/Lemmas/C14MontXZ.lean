import GoatProofs.Lemmas.C14MontCurve
/-
C14, Montgomery curves (part 2: projective x-only arithmetic).

`(X : Z)` REPRESENTS the point `Q` of Mathlib's group (`Repr`):
  Q = O        ⇒  Z = 0 ∧ X ≠ 0
  Q = (x, y)   ⇒  Z ≠ 0 ∧ X = x·Z.
The RFC 7748 ladder step consists of `dblX/dblZ` (x-only doubling) and `daddX/daddZ` (differential
addition); both are proved correct for EVERY input the ladder can meet, including the degenerate ones
(Q = O, Q + P = O, 2Q = O, 2Q + P = O).  The only assumption on the difference point P = (x₁, y₁) is
x₁ ≠ 0 (for x₁ = 0 the ladder is treated separately: it returns 0).
-/
namespace C14Mont
open WeierstrassCurve
set_option linter.unusedSectionVars false

variable {K : Type*} [Field K] [DecidableEq K]

/-- what is needed of the curve constant: char ≠ 2, a24 = (A − 2)/4, A ≠ ±2 (nonsingular curve) -/
structure Good (A a24 : K) : Prop where
  two : (2 : K) ≠ 0
  a24 : 4 * a24 = A - 2
  ap : A + 2 ≠ 0
  am : A - 2 ≠ 0

/-- RFC 7748: `x_2 = AA·BB` -/
def dblX (X Z : K) : K := (X + Z) ^ 2 * (X - Z) ^ 2
/-- RFC 7748: `z_2 = E·(AA + a24·E)` -/
def dblZ (a24 X Z : K) : K := ((X + Z) ^ 2 - (X - Z) ^ 2) * ((X + Z) ^ 2 + a24 * ((X + Z) ^ 2 - (X - Z) ^ 2))
/-- RFC 7748: `x_3 = (DA + CB)²` -/
def daddX (X2 Z2 X3 Z3 : K) : K := ((X3 - Z3) * (X2 + Z2) + (X3 + Z3) * (X2 - Z2)) ^ 2
/-- RFC 7748: `z_3 = x_1·(DA − CB)²` -/
def daddZ (x1 X2 Z2 X3 Z3 : K) : K := x1 * ((X3 - Z3) * (X2 + Z2) - (X3 + Z3) * (X2 - Z2)) ^ 2

theorem daddX_comm (X2 Z2 X3 Z3 : K) : daddX X3 Z3 X2 Z2 = daddX X2 Z2 X3 Z3 := by
  unfold daddX; ring
theorem daddZ_comm (x1 X2 Z2 X3 Z3 : K) : daddZ x1 X3 Z3 X2 Z2 = daddZ x1 X2 Z2 X3 Z3 := by
  unfold daddZ; ring

variable {A a24 : K}

/-- `(X : Z)` represents the x-coordinate of `Q` -/
def Repr (X Z : K) : (MW A).toAffine.Point → Prop
  | .zero => Z = 0 ∧ X ≠ 0
  | .some x _ _ => Z ≠ 0 ∧ X = x * Z

theorem repr_zero {X Z : K} : Repr X Z (0 : (MW A).toAffine.Point) ↔ (Z = 0 ∧ X ≠ 0) := Iff.rfl
theorem repr_some {X Z x y : K} {h : (MW A).toAffine.Nonsingular x y} :
    Repr X Z (Affine.Point.some x y h) ↔ (Z ≠ 0 ∧ X = x * Z) := Iff.rfl

theorem four_ne (g : Good A a24) : (4 : K) ≠ 0 := by
  have : (4 : K) = 2 * 2 := by norm_num
  rw [this]; exact mul_ne_zero g.two g.two

theorem dblX_eq (x Z : K) : dblX (x * Z) Z = Z ^ 4 * (x ^ 2 - 1) ^ 2 := by unfold dblX; ring
theorem dblZ_eq (g : Good A a24) (x Z : K) :
    dblZ a24 (x * Z) Z = 4 * Z ^ 4 * (x ^ 3 + A * x ^ 2 + x) := by
  unfold dblZ
  linear_combination (4 * x ^ 2 * Z ^ 4) * g.a24

/-- **x-only doubling** is correct, including `Q = O` and 2-torsion `Q` -/
theorem dbl_repr (g : Good A a24) {X Z : K} {Q : (MW A).toAffine.Point} (h : Repr X Z Q) :
    Repr (dblX X Z) (dblZ a24 X Z) (Q + Q) := by
  cases Q with
  | zero =>
    obtain ⟨hz, hx⟩ := h
    show Repr _ _ ((0 : (MW A).toAffine.Point) + 0)
    rw [add_zero, repr_zero, hz]
    refine ⟨by unfold dblZ; ring, ?_⟩
    unfold dblX
    simp only [add_zero, sub_zero]
    exact mul_ne_zero (pow_ne_zero 2 hx) (pow_ne_zero 2 hx)
  | some x y hn =>
    obtain ⟨hz, hx⟩ := h
    have he := eqn hn
    subst hx
    rw [dblX_eq, dblZ_eq g]
    by_cases hy : y = 0
    · rw [add_self_of_y_zero hn hy, repr_zero, ← he, hy]
      refine ⟨by ring, mul_ne_zero (pow_ne_zero 4 hz) (pow_ne_zero 2 ?_)⟩
      intro hx1
      -- x² = 1 and x³ + A x² + x = 0 give A² = 4
      have hf : x ^ 3 + A * x ^ 2 + x = 0 := by rw [← he, hy]; ring
      have h1 : 2 * x + A = 0 := by linear_combination hf - (x + A) * hx1
      have h2 : (A + 2) * (A - 2) = 0 := by linear_combination (A - 2 * x) * h1 + 4 * hx1
      rcases mul_eq_zero.mp h2 with h3 | h3
      · exact g.ap h3
      · exact g.am h3
    · have h2y : (2 : K) * y ≠ 0 := mul_ne_zero g.two hy
      obtain ⟨x', y', h', e, f⟩ := add_self_x hn h2y
      rw [e, repr_some, ← he]
      refine ⟨mul_ne_zero (mul_ne_zero (four_ne g) (pow_ne_zero 4 hz)) (pow_ne_zero 2 hy), ?_⟩
      linear_combination (-(Z ^ 4)) * f

theorem daddX_eq (X2 Z2 X3 Z3 : K) : daddX X2 Z2 X3 Z3 = 4 * (X2 * X3 - Z2 * Z3) ^ 2 := by
  unfold daddX; ring
theorem daddZ_eq (x1 X2 Z2 X3 Z3 : K) : daddZ x1 X2 Z2 X3 Z3 = 4 * x1 * (X3 * Z2 - Z3 * X2) ^ 2 := by
  unfold daddZ; ring

/-- **differential addition** is correct: if `(X2:Z2)` represents `Q`, `(X3:Z3)` represents `Q + P` and
    `x₁ = x(P) ≠ 0`, the RFC formulas give a representation of `Q + (Q + P)` — in every case, including
    `Q = O`, `Q + P = O`, `2Q + P = O` -/
theorem dadd_repr (g : Good A a24) {x1 y1 : K} {h1 : (MW A).toAffine.Nonsingular x1 y1} (hx1 : x1 ≠ 0)
    {X2 Z2 X3 Z3 : K} {Q : (MW A).toAffine.Point}
    (h2 : Repr X2 Z2 Q) (h3 : Repr X3 Z3 (Q + Affine.Point.some x1 y1 h1)) :
    Repr (daddX X2 Z2 X3 Z3) (daddZ x1 X2 Z2 X3 Z3) (Q + (Q + Affine.Point.some x1 y1 h1)) := by
  have h4 := four_ne g
  rw [daddX_eq, daddZ_eq]
  cases Q with
  | zero =>
    have e0 : (Affine.Point.zero : (MW A).toAffine.Point) = 0 := rfl
    rw [e0, zero_add] at h3 ⊢
    rw [zero_add]
    obtain ⟨hz2, hx2⟩ := h2
    obtain ⟨hz3, hx3⟩ := h3
    rw [repr_some, hz2, hx3]
    refine ⟨?_, by ring⟩
    have : 4 * x1 * (x1 * Z3 * 0 - Z3 * X2) ^ 2 = 4 * x1 * (Z3 ^ 2 * X2 ^ 2) := by ring
    rw [this]
    exact mul_ne_zero (mul_ne_zero h4 hx1) (mul_ne_zero (pow_ne_zero 2 hz3) (pow_ne_zero 2 hx2))
  | some xq yq hq =>
    obtain ⟨hz2, hx2⟩ := h2
    subst hx2
    generalize hR : Affine.Point.some xq yq hq + Affine.Point.some x1 y1 h1 = R at h3 ⊢
    cases R with
    | zero =>
      -- Q = −P: the result is Q, with x(Q) = x₁
      have e0 : (Affine.Point.zero : (MW A).toAffine.Point) = 0 := rfl
      rw [e0] at hR h3 ⊢
      rw [add_zero, repr_some]
      obtain ⟨hz3, hx3⟩ := h3
      have hqp : Affine.Point.some xq yq hq = -Affine.Point.some x1 y1 h1 := add_eq_zero_iff_eq_neg.mp hR
      obtain ⟨h1', en⟩ := neg_some' h1
      rw [en] at hqp
      have hxq : xq = x1 := by injection hqp
      subst hxq hz3
      refine ⟨?_, by ring⟩
      have : 4 * xq * (X3 * Z2 - 0 * (xq * Z2)) ^ 2 = 4 * xq * (X3 ^ 2 * Z2 ^ 2) := by ring
      rw [this]
      exact mul_ne_zero (mul_ne_zero h4 hx1) (mul_ne_zero (pow_ne_zero 2 hx3) (pow_ne_zero 2 hz2))
    | some xr yr hr =>
      obtain ⟨hz3, hx3⟩ := h3
      subst hx3
      -- P = R − Q
      have hP : Affine.Point.some xr yr hr + -Affine.Point.some xq yq hq = Affine.Point.some x1 y1 h1 := by
        rw [← hR]; abel
      by_cases hx : xq = xr
      · -- R = ±Q; R = Q is impossible (P ≠ O), so R = −Q and 2Q + P = O
        rcases Affine.Point.X_eq_iff.mp hx with hqr | hqr
        · exfalso
          rw [← hqr, add_neg_cancel] at hP
          exact Affine.Point.some_ne_zero h1 hP.symm
        · have hS : Affine.Point.some xq yq hq + Affine.Point.some xr yr hr = 0 := by
            rw [hqr, neg_add_cancel]
          rw [hS, repr_zero]
          subst hx
          refine ⟨by ring, ?_⟩
          -- P = −(Q + Q), so x₁·4y² = (x² − 1)² ≠ 0
          have hP2 : Affine.Point.some xq yq hq + Affine.Point.some xq yq hq = -Affine.Point.some x1 y1 h1 := by
            rw [← hP, hqr]; abel
          have hyq : yq ≠ 0 := by
            intro hy
            rw [add_self_of_y_zero hq hy] at hP2
            have := neg_eq_zero.mp hP2.symm
            exact Affine.Point.some_ne_zero h1 this
          obtain ⟨x', y', h', e, f⟩ := add_self_x hq (mul_ne_zero g.two hyq)
          obtain ⟨h1', en⟩ := neg_some' h1
          rw [e, en] at hP2
          have hx' : x' = x1 := by injection hP2
          subst hx'
          have hne : (xq ^ 2 - 1) ^ 2 ≠ 0 := by
            rw [← f]; exact mul_ne_zero hx1 (mul_ne_zero h4 (pow_ne_zero 2 hyq))
          have : 4 * (xq * Z2 * (xq * Z3) - Z2 * Z3) ^ 2 = 4 * (Z2 ^ 2 * Z3 ^ 2 * (xq ^ 2 - 1) ^ 2) := by ring
          rw [this]
          exact mul_ne_zero h4 (mul_ne_zero (mul_ne_zero (pow_ne_zero 2 hz2) (pow_ne_zero 2 hz3)) hne)
      · obtain ⟨xs, ys, hs, xd, yd, hd, es, ed, f⟩ := diff_add_x hq hr hx
        rw [ed] at hP
        have hxd : xd = x1 := by injection hP
        subst hxd
        rw [es, repr_some]
        have hd0 : xr - xq ≠ 0 := sub_ne_zero.mpr (Ne.symm hx)
        constructor
        · have : 4 * xd * (xr * Z3 * Z2 - Z3 * (xq * Z2)) ^ 2 = 4 * xd * (Z2 ^ 2 * Z3 ^ 2 * (xr - xq) ^ 2) := by ring
          rw [this]
          exact mul_ne_zero (mul_ne_zero h4 hx1)
            (mul_ne_zero (mul_ne_zero (pow_ne_zero 2 hz2) (pow_ne_zero 2 hz3)) (pow_ne_zero 2 hd0))
        · linear_combination (-4 * Z2 ^ 2 * Z3 ^ 2) * f

end C14Mont
