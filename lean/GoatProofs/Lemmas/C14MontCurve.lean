import Mathlib.AlgebraicGeometry.EllipticCurve.Affine.Point
/-
C14, Montgomery curves (part 1: the affine x-coordinate formulas).

A Montgomery curve `v² = u³ + A·u² + u` IS the Weierstrass curve `⟨a₁=0, a₂=A, a₃=0, a₄=1, a₆=0⟩`;
Mathlib proves that its nonsingular points form an `AddCommGroup`.  From Mathlib's chord/tangent
formulas (`slope`, `addX`) we derive the two classical x-only identities

  doubling               x(2Q) · 4·y_Q²            = (x_Q² − 1)²
  differential addition  x(Q+R) · x(R−Q) · (x_Q − x_R)² = (x_Q·x_R − 1)²       (x_Q ≠ x_R)

over an arbitrary field `K` (no assumption beyond what the statements say).
-/
namespace C14Mont
open WeierstrassCurve
set_option linter.unusedSectionVars false

variable {K : Type*} [Field K] [DecidableEq K]

/-- `v² = u³ + A·u² + u` as a Mathlib Weierstrass curve -/
def MW (A : K) : WeierstrassCurve K := ⟨0, A, 0, 1, 0⟩

variable {A : K}

theorem equation_iff (x y : K) : (MW A).toAffine.Equation x y ↔ y ^ 2 = x ^ 3 + A * x ^ 2 + x := by
  rw [Affine.equation_iff]
  show y ^ 2 + 0 * x * y + 0 * y = x ^ 3 + A * x ^ 2 + 1 * x + 0 ↔ _
  constructor <;> intro h <;> linear_combination h

theorem negY_eq (x y : K) : (MW A).toAffine.negY x y = -y := by
  show -y - 0 * x - 0 = -y
  ring

theorem eqn {x y : K} (h : (MW A).toAffine.Nonsingular x y) : y ^ 2 = x ^ 3 + A * x ^ 2 + x :=
  (equation_iff x y).mp h.left

theorem some_congr {x x' y y' : K} (ex : x = x') (ey : y = y') (h : (MW A).toAffine.Nonsingular x y)
    (h' : (MW A).toAffine.Nonsingular x' y') : Affine.Point.some x y h = Affine.Point.some x' y' h' := by
  subst ex; subst ey; rfl

/-- `−(x, y) = (x, −y)` -/
theorem neg_some' {x y : K} (h : (MW A).toAffine.Nonsingular x y) :
    ∃ h', -Affine.Point.some x y h = Affine.Point.some x (-y) h' := by
  rw [Affine.Point.neg_some]
  have e := negY_eq (A := A) x y
  refine ⟨?_, some_congr rfl e _ ?_⟩ <;> · rw [← e]; exact (Affine.nonsingular_neg ..).mpr h

/-! ## doubling -/

/-- a point with `y = 0` is 2-torsion -/
theorem add_self_of_y_zero {x y : K} (h : (MW A).toAffine.Nonsingular x y) (hy : y = 0) :
    Affine.Point.some x y h + Affine.Point.some x y h = 0 := by
  apply Affine.Point.add_self_of_Y_eq
  rw [negY_eq, hy, neg_zero]

/-- `x(2Q)·4y² = (x² − 1)²` when `2y ≠ 0` -/
theorem add_self_x {x y : K} (h : (MW A).toAffine.Nonsingular x y) (h2y : (2 : K) * y ≠ 0) :
    ∃ x' y' h', Affine.Point.some x y h + Affine.Point.some x y h = Affine.Point.some x' y' h' ∧
      x' * (4 * y ^ 2) = (x ^ 2 - 1) ^ 2 := by
  have hy' : y ≠ (MW A).toAffine.negY x y := by
    rw [negY_eq]; intro c; exact h2y (by linear_combination c)
  refine ⟨_, _, _, Affine.Point.add_self_of_Y_ne hy', ?_⟩
  rw [Affine.slope_of_Y_ne rfl hy', negY_eq]
  have hd : y - -y ≠ 0 := by intro c; exact h2y (by linear_combination c)
  have he := eqn h
  generalize hl : (3 * x ^ 2 + 2 * (MW A).a₂ * x + (MW A).a₄ - (MW A).a₁ * y) / (y - -y) = l
  have hl' : l * (2 * y) = 3 * x ^ 2 + 2 * A * x + 1 := by
    rw [← hl]
    show (3 * x ^ 2 + 2 * A * x + 1 - 0 * y) / (y - -y) * (2 * y) = _
    rw [show (2 : K) * y = y - -y by ring, div_mul_cancel₀ _ hd]; ring
  show (l ^ 2 + 0 * l - A - x - x) * (4 * y ^ 2) = _
  linear_combination (l * (2 * y) + (3 * x ^ 2 + 2 * A * x + 1)) * hl' + (-4 * (A + 2 * x)) * he

/-! ## differential addition -/

/-- the biquadratic relation between `x(Q+R)`, `x(R−Q)`, `x_Q`, `x_R` in polynomial form -/
theorem biquad (xq yq xr yr : K) (hq : yq ^ 2 = xq ^ 3 + A * xq ^ 2 + xq)
    (hr : yr ^ 2 = xr ^ 3 + A * xr ^ 2 + xr) :
    ((yq - yr) ^ 2 - (A + xq + xr) * (xq - xr) ^ 2) * ((yr + yq) ^ 2 - (A + xq + xr) * (xr - xq) ^ 2)
      = (xq * xr - 1) ^ 2 * (xq - xr) ^ 2 := by
  linear_combination
    ((yq ^ 2 + yr ^ 2 + (xq ^ 3 + A * xq ^ 2 + xq) + (xr ^ 3 + A * xr ^ 2 + xr)
        - 2 * ((A + xq + xr) * (xq - xr) ^ 2)) - 4 * yr ^ 2) * hq +
    ((yq ^ 2 + yr ^ 2 + (xq ^ 3 + A * xq ^ 2 + xq) + (xr ^ 3 + A * xr ^ 2 + xr)
        - 2 * ((A + xq + xr) * (xq - xr) ^ 2)) - 4 * (xq ^ 3 + A * xq ^ 2 + xq)) * hr

/-- chord addition: `x(Q+R)·(x_Q − x_R)² = (y_Q − y_R)² − (A + x_Q + x_R)(x_Q − x_R)²` -/
theorem add_x_of_ne {xq yq xr yr : K} (hq : (MW A).toAffine.Nonsingular xq yq)
    (hr : (MW A).toAffine.Nonsingular xr yr) (hx : xq ≠ xr) :
    ∃ x' y' h', Affine.Point.some xq yq hq + Affine.Point.some xr yr hr = Affine.Point.some x' y' h' ∧
      x' * (xq - xr) ^ 2 = (yq - yr) ^ 2 - (A + xq + xr) * (xq - xr) ^ 2 := by
  refine ⟨_, _, _, Affine.Point.add_of_X_ne hx, ?_⟩
  rw [Affine.slope_of_X_ne hx]
  have hd : xq - xr ≠ 0 := sub_ne_zero.mpr hx
  generalize hl : (yq - yr) / (xq - xr) = l
  have hl' : l * (xq - xr) = yq - yr := by rw [← hl, div_mul_cancel₀ _ hd]
  show (l ^ 2 + 0 * l - A - xq - xr) * (xq - xr) ^ 2 = _
  linear_combination (l * (xq - xr) + (yq - yr)) * hl'

/-- **differential addition**: for `x_Q ≠ x_R`, `x(Q+R)·x(R−Q)·(x_Q − x_R)² = (x_Q·x_R − 1)²` -/
theorem diff_add_x {xq yq xr yr : K} (hq : (MW A).toAffine.Nonsingular xq yq)
    (hr : (MW A).toAffine.Nonsingular xr yr) (hx : xq ≠ xr) :
    ∃ xs ys hs xd yd hd,
      Affine.Point.some xq yq hq + Affine.Point.some xr yr hr = Affine.Point.some xs ys hs ∧
      Affine.Point.some xr yr hr + -Affine.Point.some xq yq hq = Affine.Point.some xd yd hd ∧
      xs * xd * (xq - xr) ^ 2 = (xq * xr - 1) ^ 2 := by
  obtain ⟨xs, ys, hs, es, fs⟩ := add_x_of_ne hq hr hx
  obtain ⟨hq', eneg⟩ := neg_some' hq
  obtain ⟨xd, yd, hd, ed, fd⟩ := add_x_of_ne hr hq' (Ne.symm hx)
  refine ⟨xs, ys, hs, xd, yd, hd, es, by rw [eneg]; exact ed, ?_⟩
  have hb := biquad (A := A) xq yq xr yr (eqn hq) (eqn hr)
  have hd0 : xq - xr ≠ 0 := sub_ne_zero.mpr hx
  have hd2 : (xq - xr) ^ 2 ≠ 0 := pow_ne_zero 2 hd0
  apply mul_right_cancel₀ hd2
  have fd' : xd * (xq - xr) ^ 2 = (yr + yq) ^ 2 - (A + xq + xr) * (xr - xq) ^ 2 := by
    linear_combination fd
  calc xs * xd * (xq - xr) ^ 2 * (xq - xr) ^ 2
      = (xs * (xq - xr) ^ 2) * (xd * (xq - xr) ^ 2) := by ring
    _ = (xq * xr - 1) ^ 2 * (xq - xr) ^ 2 := by rw [fs, fd', hb]

end C14Mont
