import GoatProofs.Lemmas.Glue
import Goat.Base.Bytes
/-
Big-endian byte strings versus the reflective checker: polynomial / weights of a big-endian value.
-/
namespace C18B
open Reflect Glue

/-- big-endian value of a list of integers (radix 256) -/
def evalBE (l : List Int) : Int := l.foldl (fun acc x => acc * 256 + x) 0

theorem foldl_be (l : List Int) (acc : Int) :
    l.foldl (fun acc x => acc * 256 + x) acc = acc * 256 ^ l.length + evalBE l := by
  unfold evalBE
  induction l generalizing acc with
  | nil => simp
  | cons x xs ih =>
    simp only [List.foldl_cons, List.length_cons]
    rw [ih (acc * 256 + x), ih (0 * 256 + x)]
    ring

theorem evalBE_cons (x : Int) (l : List Int) : evalBE (x :: l) = x * 256 ^ l.length + evalBE l := by
  show (x :: l).foldl _ 0 = _
  simp only [List.foldl_cons]
  rw [foldl_be]; ring

theorem evalBE_nil : evalBE [] = 0 := rfl

theorem evalBE_append (a b : List Int) : evalBE (a ++ b) = evalBE a * 256 ^ b.length + evalBE b := by
  unfold evalBE
  rw [List.foldl_append, foldl_be]; rfl

theorem evalBE_replicate_zero (n : Nat) : evalBE (List.replicate n 0) = 0 := by
  induction n with
  | zero => rfl
  | succ n ih => rw [List.replicate_succ, evalBE_cons, ih]; simp

/-- Σ_{i<n} 256^(n-1-i) · atom(base+i) -/
def bePoly : Nat → Nat → Poly
  | 0, _ => []
  | n + 1, base => ([base], (256 : Int) ^ n) :: bePoly n (base + 1)

theorem evalPoly_bePoly (ρ : Nat → Int) : ∀ (n base : Nat),
    evalPoly ρ (bePoly n base) = evalBE ((List.range' base n).map ρ) := by
  intro n
  induction n with
  | zero => intro base; simp [bePoly, evalPoly, evalBE]
  | succ n ih =>
    intro base
    simp only [bePoly, evalPoly_cons, evalMono, List.range'_succ, List.map_cons, evalBE_cons, ih (base + 1),
      List.length_map, List.length_range']
    ring

theorem specAtoms_bePoly (nIn : Nat) : ∀ (n base : Nat), base + n ≤ nIn → specAtomsOk nIn (bePoly n base) = true := by
  intro n
  induction n with
  | zero => intro base _; rfl
  | succ n ih =>
    intro base h
    simp only [bePoly, specAtomsOk, List.all_cons, List.all_nil, Bool.and_true, Bool.and_eq_true, decide_eq_true_eq]
    exact ⟨by omega, ih (base + 1) (by omega)⟩

/-- weights 256^(n-1), …, 256, 1 -/
def weightsBE : Nat → List Int
  | 0 => []
  | n + 1 => (256 : Int) ^ n :: weightsBE n

theorem weightedSum_weightsBE (ρ : Nat → Int) : ∀ (outs : List Nat),
    weightedSum ρ outs (weightsBE outs.length) = evalBE (outs.map ρ) := by
  intro outs
  induction outs with
  | nil => rfl
  | cons o os ih =>
    simp only [List.length_cons, weightsBE, weightedSum, List.map_cons, evalBE_cons, ih, List.length_map]
    ring

theorem evalBE_bounds : ∀ (l : List Int), AllIn 0 255 l → 0 ≤ evalBE l ∧ evalBE l < 256 ^ l.length := by
  intro l
  induction l with
  | nil => intro _; simp [evalBE]
  | cons x xs ih =>
    intro h
    obtain ⟨i1, i2⟩ := ih (fun y hy => h y (by simp [hy]))
    have hx := h x (by simp)
    rw [evalBE_cons, List.length_cons, pow_succ]
    have hp : (0 : Int) < 256 ^ xs.length := by positivity
    constructor
    · have : 0 ≤ x * 256 ^ xs.length := Int.mul_nonneg hx.1 (le_of_lt hp)
      omega
    · nlinarith

/-- bytes as integers -/
def ofBytes (b : Bytes) : List Int := b.map (fun x => (x.toNat : Int))

theorem evalBE_ofBytes (b : Bytes) : evalBE (ofBytes b) = (Bytes.decodeBE b : Int) := by
  unfold ofBytes evalBE Bytes.decodeBE
  have : ∀ (acc : Nat), (b.map (fun x => (x.toNat : Int))).foldl (fun acc x => acc * 256 + x) (acc : Int)
      = ((b.foldl (fun acc x => acc * 256 + x.toNat) acc : Nat) : Int) := by
    induction b with
    | nil => intro acc; rfl
    | cons x xs ih =>
      intro acc
      simp only [List.map_cons, List.foldl_cons]
      have := ih (acc * 256 + x.toNat)
      push_cast at this ⊢
      exact this
  exact this 0

theorem allIn_ofBytes (b : Bytes) : AllIn 0 255 (ofBytes b) := by
  intro x hx
  unfold ofBytes at hx
  obtain ⟨y, _, rfl⟩ := List.mem_map.mp hx
  have := y.toNat_lt
  constructor <;> omega

end C18B
