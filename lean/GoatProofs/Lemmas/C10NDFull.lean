import GoatProofs.Lemmas.C10Frac
import GoatProofs.Lemmas.C10ND
import GoatProofs.Lemmas.C02Time
/-
NumericDate round trip for every instant of the supported range, any nanosecond part:
`decode (encode t) = t`.
-/
namespace GoatProofs.Lemmas.C10NDFull
open Model.NumericDate GoatProofs.Lemmas.C10Digits GoatProofs.Lemmas.C10ND GoatProofs.Lemmas.C10Frac

theorem isDigit_dot : isDigit '.' = false := by decide

/-- lexing `[-]S.F` -/
theorem lex_frac (neg : Bool) (S : Nat) (F : List Char) (hF : AllDigits F) (hne : F ≠ []) :
    lex ((if neg then ['-'] else []) ++ natDigits S ++ '.' :: F) =
      some ⟨neg, S * 10 ^ F.length + natOfDigits F, F.length, 0⟩ := by
  obtain ⟨hv, hd, hdne⟩ := natDigits_spec S
  have hsplit : splitSign ((if neg then ['-'] else []) ++ natDigits S ++ '.' :: F) =
      (neg, natDigits S ++ '.' :: F) := by
    cases neg with
    | true => rfl
    | false =>
      simp only [Bool.false_eq_true, if_false, List.nil_append]
      cases hds : natDigits S with
      | nil => exact absurd hds hdne
      | cons c r =>
        have hc := hd c (by rw [hds]; exact List.mem_cons_self)
        simp only [List.cons_append]
        unfold splitSign
        split
        · rename_i h; cases h; exact absurd hc (by decide)
        · rename_i h; cases h; exact absurd hc (by decide)
        · rfl
  have hspan : spanDigits (natDigits S ++ '.' :: F) = (natDigits S, '.' :: F) :=
    spanDigits_append _ _ hd (by intro c r h; cases h; exact isDigit_dot)
  unfold lex
  simp only [hsplit, hspan]
  have hfp : fracPart ('.' :: F) = (F, []) := by
    unfold fracPart; exact spanDigits_all F hF
  simp only [hfp]
  have hlen : ¬ ((natDigits S).length + F.length = 0) := by
    intro h
    have : F.length = 0 := by omega
    exact hne (List.length_eq_zero_iff.mp this)
  simp only [hlen, if_false, expPart, natOfDigits_append, hv]

/-- **numericDate_roundtrip (character level)** — for every instant `t` (nanoseconds since the
    epoch) whose encoding succeeds, i.e. `-(maxEpoch+1)·10^9 < t < (maxEpoch+1)·10^9`, decoding the
    text `MarshalJSON` wrote gives back exactly `t`. -/
theorem roundtrip_of_encode (t : Int) (cs : List Char) (h : encodeChars t = .ok cs) :
    decodeChars cs = .ok t := by
  have he9 : e9 = 1000000000 := rfl
  have hmod0 : 0 ≤ t % e9 := Int.emod_nonneg _ (by rw [he9]; omega)
  have hmod1 : t % e9 < e9 := Int.emod_lt_of_pos _ (by rw [he9]; omega)
  have hdm : t = t / e9 * e9 + t % e9 := by rw [he9]; omega
  by_cases hz : t % e9 = 0
  · -- whole seconds: the integral theorem
    have hts : t = (t / e9) * e9 := by omega
    have hint : ∀ s : Int, encodeChars (s * e9) = .ok cs → decodeChars cs = .ok (s * e9) := by
      intro s hs
      have hdiv : s * e9 / e9 = s := by rw [he9]; omega
      have hmod : s * e9 % e9 = 0 := by rw [he9]; omega
      unfold encodeChars at hs
      simp only [hdiv, hmod] at hs
      by_cases hr : (s > maxEpoch ∨ s < -maxEpoch)
      · simp [hr] at hs
      · have hcs : cs = (if decide (s < 0) then ['-'] else []) ++ natDigits s.natAbs := by
          by_cases hneg : s < 0 <;> simp [hneg, hr] at hs <;> simp [hneg, ← hs]
        rw [hcs]
        unfold decodeChars
        rw [lex_int]
        have hm : ((s.natAbs : Nat) : Int) ≤ maxEpoch := by unfold maxEpoch at *; omega
        simp only [decodeLit_int _ _ hm, Outcome.bind, unix]
        by_cases hneg : s < 0
        · have : ((s.natAbs : Nat) : Int) = -s := by omega
          simp [hneg, this]
        · have : ((s.natAbs : Nat) : Int) = s := by omega
          simp [hneg, this]
    rw [hts] at h ⊢
    exact hint _ h
  · -- a fractional part
    generalize hsec : t / e9 = sec0 at hdm h
    generalize hns : t % e9 = nsec0 at hdm h hmod0 hmod1 hz
    unfold encodeChars at h
    simp only [hsec, hns] at h
    -- S = |integer part toward zero|, n = nanoseconds toward zero, neg
    obtain ⟨neg, S, n, hS, hn, hn0, hn9, htext, hval⟩ :
        ∃ (neg : Bool) (S n : Nat), (S : Int) ≤ maxEpoch ∧ True ∧ 0 < n ∧ n < 1000000000 ∧
          cs = (if neg then ['-'] else []) ++ natDigits S ++ '.' :: fracDigits 9 n 100000000 ∧
          t = (if neg then -((S : Int) * e9 + n) else (S : Int) * e9 + n) := by
      by_cases hflip : sec0 < 0
      · -- negative instant with a fraction
        have hd : decide (sec0 < 0 ∧ nsec0 ≠ 0) = true := by simp [hflip, hz]
        simp only [hd, if_true] at h
        have hsecabs : (if (True ∧ sec0 + 1 < 0) then -(sec0 + 1) else sec0 + 1) = -(sec0 + 1) := by
          by_cases h1 : sec0 + 1 < 0
          · simp [h1]
          · have : sec0 + 1 = 0 := by omega
            simp [this]
        simp only [hsecabs] at h
        by_cases hr : (-(sec0 + 1) > maxEpoch ∨ -(sec0 + 1) < -maxEpoch)
        · rw [if_pos hr] at h; cases h
        · rw [if_neg hr] at h
          have hnn : ¬ (-(sec0 + 1) < 0) := by omega
          have hne : ¬ (e9 - nsec0 = 0) := by omega
          simp only [hnn, hne, if_false, Outcome.ok.injEq] at h
          refine ⟨true, (-(sec0 + 1)).natAbs, (e9 - nsec0).toNat, ?_, trivial, ?_, ?_, ?_, ?_⟩
          · have : (((-(sec0 + 1)).natAbs : Nat) : Int) = -(sec0 + 1) := by omega
            rw [this]; omega
          · omega
          · omega
          · rw [← h]; simp
          · have e1 : (((-(sec0 + 1)).natAbs : Nat) : Int) = -(sec0 + 1) := by omega
            have e2 : (((e9 - nsec0).toNat : Nat) : Int) = e9 - nsec0 := by omega
            simp only [if_true, e1, e2]
            rw [hdm, he9]; ring
      · have hd : decide (sec0 < 0 ∧ nsec0 ≠ 0) = false := by simp [hflip]
        simp only [hd, Bool.false_eq_true, if_false, false_and] at h
        by_cases hr : (sec0 > maxEpoch ∨ sec0 < -maxEpoch)
        · rw [if_pos hr] at h; cases h
        · rw [if_neg hr] at h
          have hnn : ¬ (sec0 < 0) := hflip
          simp only [hnn, hz, if_false, Outcome.ok.injEq, List.nil_append] at h
          refine ⟨false, sec0.natAbs, nsec0.toNat, ?_, trivial, ?_, ?_, ?_, ?_⟩
          · have : ((sec0.natAbs : Nat) : Int) = sec0 := by omega
            rw [this]; omega
          · omega
          · omega
          · rw [← h]; simp
          · have e1 : ((sec0.natAbs : Nat) : Int) = sec0 := by omega
            have e2 : ((nsec0.toNat : Nat) : Int) = nsec0 := by omega
            simp only [Bool.false_eq_true, if_false, e1, e2]
            exact hdm
    -- the fraction digits
    obtain ⟨hFd, hFlen, hFval, hFne⟩ := C02Time.fracDigits_spec 8 n (by norm_num; omega)
    have e8 : (10 : Nat) ^ 8 = 100000000 := by norm_num
    rw [e8] at hFd hFlen hFval hFne
    obtain ⟨F, hFdef⟩ : ∃ F, F = fracDigits 9 n 100000000 := ⟨_, rfl⟩
    rw [← hFdef] at hFd hFlen hFval hFne htext
    have hFne' : F ≠ [] := hFne (by omega)
    have hk1 : 1 ≤ F.length := by
      cases F with
      | nil => exact absurd rfl hFne'
      | cons _ _ => simp
    have hk9 : F.length ≤ 9 := by omega
    have hFv0 : 0 < natOfDigits F := by
      by_contra h0
      have : natOfDigits F = 0 := by omega
      rw [this] at hFval; omega
    have hFvD : natOfDigits F < 10 ^ F.length := by
      by_contra hge
      have h1 : 10 ^ F.length * 10 ^ (8 + 1 - F.length) ≤ natOfDigits F * 10 ^ (8 + 1 - F.length) :=
        Nat.mul_le_mul_right _ (by omega)
      rw [← Nat.pow_add, show F.length + (8 + 1 - F.length) = 9 by omega] at h1
      have : (10 : Nat) ^ 9 = 1000000000 := by norm_num
      omega
    have hS' : S ≤ 253402300799 := by unfold maxEpoch at hS; omega
    rw [htext]
    unfold decodeChars
    rw [lex_frac neg S F hFd hFne']
    simp only [decodeLit_frac neg S (natOfDigits F) F.length hk1 hk9 hFv0 hFvD hS', Outcome.bind, unix]
    have hFval' : natOfDigits F * 10 ^ (9 - F.length) = n := by
      rw [show 9 - F.length = 8 + 1 - F.length by omega]; exact hFval
    rw [hFval', hval]
    cases neg <;> simp <;> ring

/-- the instants `MarshalJSON` accepts -/
def InRange (t : Int) : Prop := -(maxEpoch + 1) * e9 < t ∧ t < (maxEpoch + 1) * e9

theorem encode_ok_of_inRange (t : Int) (h : InRange t) : ∃ cs, encodeChars t = .ok cs := by
  have he9 : e9 = 1000000000 := rfl
  unfold InRange at h
  have hmod0 : 0 ≤ t % e9 := Int.emod_nonneg _ (by rw [he9]; omega)
  have hmod1 : t % e9 < e9 := Int.emod_lt_of_pos _ (by rw [he9]; omega)
  have hdm : t = t / e9 * e9 + t % e9 := by rw [he9]; omega
  unfold encodeChars
  generalize t / e9 = sec0 at *
  generalize t % e9 = nsec0 at *
  have hme : maxEpoch = 253402300799 := rfl
  simp only
  by_cases hflip : sec0 < 0 ∧ nsec0 ≠ 0
  · have hd : decide (sec0 < 0 ∧ nsec0 ≠ 0) = true := by simp [hflip.1, hflip.2]
    simp only [hd, if_true]
    have hsecabs : (if (True ∧ sec0 + 1 < 0) then -(sec0 + 1) else sec0 + 1) = -(sec0 + 1) := by
      by_cases h1 : sec0 + 1 < 0
      · simp [h1]
      · have : sec0 + 1 = 0 := by omega
        simp [this]
    simp only [hsecabs]
    have hr : ¬ (-(sec0 + 1) > maxEpoch ∨ -(sec0 + 1) < -maxEpoch) := by
      rw [hme] at h ⊢; rw [he9] at h hdm hmod1; omega
    rw [if_neg hr]
    exact ⟨_, rfl⟩
  · have hd : decide (sec0 < 0 ∧ nsec0 ≠ 0) = false := by simpa using hflip
    simp only [hd, Bool.false_eq_true, if_false, false_and]
    have hor : nsec0 = 0 ∨ 0 ≤ sec0 := by
      by_cases h0 : nsec0 = 0
      · exact Or.inl h0
      · right
        by_contra hlt
        exact hflip ⟨by omega, h0⟩
    have hr : ¬ (sec0 > maxEpoch ∨ sec0 < -maxEpoch) := by
      rw [hme] at h ⊢; rw [he9] at h hdm hmod1; omega
    rw [if_neg hr]
    exact ⟨_, rfl⟩

/-- **numericDate_roundtrip** — for every instant in the accepted range, with any nanosecond part:
    `decode (encode t) = t` -/
theorem numericDate_roundtrip (t : Int) (h : InRange t) :
    (encodeChars t).bind decodeChars = .ok t := by
  obtain ⟨cs, hcs⟩ := encode_ok_of_inRange t h
  rw [hcs]
  exact roundtrip_of_encode t cs hcs

end GoatProofs.Lemmas.C10NDFull
