import GoatProofs.Lemmas.C08Okp
/-
crypto/ecdh key objects (`encodeECDHKey`, jwk/jwk.go): MarshalJSON closed form.  A P-256/P-384/P-521 ecdh key
marshals to the object of the ECDSA key with the same point and scalar, an X25519 ecdh key to the object of goat's
x25519 key — so the registered-representation and parse lemmas of those types apply.
-/
namespace C08
open Model.JWK Spec.IANA Gen.Consts

/-- the NIST curves of crypto/ecdh as elliptic curves -/
def ecdhCurve : EcdhCurve → Option GoCurve
  | .p256 => some .p256 | .p384 => some .p384 | .p521 => some .p521 | .x25519 => none

theorem ecdhCurve_facts (ec : EcdhCurve) (c : GoCurve) (h : ecdhCurve ec = some c) :
    ec.size = c.size ∧ ec.crv = c.name ∧ ec ≠ .x25519 ∧ c ≠ .other := by
  cases ec <;> simp [ecdhCurve] at h <;> subst h <;> decide

/-- `PublicKey.Bytes()` of a NIST ecdh key: the uncompressed point 04 ‖ X ‖ Y (fixed width) -/
def ecdhPoint (c : GoCurve) (x y : Nat) : Bytes := 4 :: (Bytes.encodeBE c.size x ++ Bytes.encodeBE c.size y)

/-- a crypto/ecdh key pair on a NIST curve: the public key holds the point, the private key the
    fixed-width scalar (`PrivateKey.Bytes()`) -/
def IsEcdhKey (k : Key) (ec : EcdhCurve) (c : GoCurve) (x y : Nat) (d : Option Nat) : Prop :=
  k.pub = .ecdh ec (ecdhPoint c x y) ∧
  k.priv = (match d with
    | some dv => .ecdh ec (Bytes.encodeBE c.size dv) (ecdhPoint c x y)
    | none => .none)

theorem marshal_ecdh (o : Oracle) (k : Key) (ec : EcdhCurve) (c : GoCurve) (hc : ecdhCurve ec = some c)
    (x y : Nat) (d : Option Nat) (hk : IsEcdhKey k ec c x y d) :
    (marshalFrom k).run o = .ok (ecObj o k c x y d) := by
  obtain ⟨hsize, hcrv, hne, _⟩ := ecdhCurve_facts ec c hc
  obtain ⟨hp, hq⟩ := hk
  have hlx : (Bytes.encodeBE c.size x).length = c.size := encodeBE_length _ _
  have hly : (Bytes.encodeBE c.size y).length = c.size := encodeBE_length _ _
  have hlen : ¬ ((ecdhPoint c x y).length < ec.size + 1) := by
    simp [ecdhPoint, hlx, hly, hsize]
  have htx : ((ecdhPoint c x y).drop 1).take ec.size = Bytes.encodeBE c.size x := by
    simp only [ecdhPoint, List.drop_succ_cons, List.drop_zero, hsize]
    rw [List.take_append_of_le_length (by omega)]
    exact List.take_of_length_le (by omega)
  have hty : (ecdhPoint c x y).drop (ec.size + 1) = Bytes.encodeBE c.size y := by
    simp only [ecdhPoint, List.drop_succ_cons, hsize]
    rw [List.drop_append_of_le_length (by omega)]
    simp [hlx]
  unfold marshalFrom
  simp only [PO.run_bind, run_encodeCommon, hp, hq]
  cases d with
  | none =>
    cases ec <;> first | exact absurd rfl hne | skip
    all_goals simp [encodeMaterial, encodeECDH, hlen, htx, hty, ecObj, osetOpt, hcrv] <;> simp_all [EcdhCurve.size]
  | some dv =>
    cases ec <;> first | exact absurd rfl hne | skip
    all_goals simp [encodeMaterial, encodeECDH, hlen, htx, hty, ecObj, osetOpt, hcrv] <;> simp_all [EcdhCurve.size]

/-- a crypto/ecdh X25519 key pair -/
def IsEcdhXKey (k : Key) (x : Bytes) (d : Option Bytes) : Prop :=
  k.pub = .ecdh .x25519 x ∧
  k.priv = (match d with
    | some dv => .ecdh .x25519 dv x
    | none => .none)

theorem marshal_ecdh_x (o : Oracle) (k : Key) (x : Bytes) (d : Option Bytes) (hk : IsEcdhXKey k x d) :
    (marshalFrom k).run o = .ok (okpObj o k .x25519 x d) := by
  obtain ⟨hp, hq⟩ := hk
  unfold marshalFrom
  simp only [PO.run_bind, run_encodeCommon, hp, hq]
  cases d <;> simp [encodeMaterial, encodeECDH, okpObj, osetOpt, EcdhCurve.crv, Okp.crv]

end C08
