import GoatProofs.Lemmas.C10Scan
/-
NumericDate.UnmarshalJSON on a literal with k ∈ [1,9] fraction digits, integer part S ≤ maxEpoch and
fraction F/10^k, 0 < F < 10^k: the result is exactly (±S, ±F·10^(9-k)).
-/
namespace GoatProofs.Lemmas.C10Frac
open Model.NumericDate GoatProofs.Lemmas.C10Rne GoatProofs.Lemmas.C10F64 GoatProofs.Lemmas.C10Scan

/-- a general normalisation step: a mantissa that fits is kept -/
theorem norm_fits (p : Nat) (neg : Bool) (m : Nat) (e : Int) (hm : m ≠ 0) (hb : bitlen m ≤ p)
    (he : -1000 ≤ e ∧ e ≤ 1000) (hp : p ≤ 1000) : norm p neg m e false = .fin neg m e := by
  unfold norm
  have g : goExp m e = e + (bitlen m : Int) := rfl
  have g1 : ¬ (goExp m e < minExp) := by rw [g]; unfold minExp; omega
  have g2 : ¬ (goExp m e > maxExp) := by rw [g]; unfold maxExp; omega
  simp only [hm, g1, g2, if_false, rne_fits p m e false hb]

/-- integer part of `mz·2^-L`: S, inexact -/
theorem toInt64_frac (neg : Bool) (mz L S : Nat) (hL : 1 ≤ L) (hS : S < 2 ^ 38)
    (h1 : S * 2 ^ L < mz) (h2 : mz < (S + 1) * 2 ^ L) :
    toInt64 (.fin neg mz (-(L : Int))) = (if neg then -(S : Int) else S, false) := by
  obtain ⟨T, hT⟩ : ∃ T, T = 2 ^ L := ⟨_, rfl⟩
  rw [← hT] at h1 h2
  have hTpos : 0 < T := by rw [hT]; positivity
  have hdiv : mz / T = S := by
    apply Nat.div_eq_of_lt_le
    · rw [Nat.mul_comm] at h1; exact Nat.le_of_lt (by rw [Nat.mul_comm]; exact h1)
    · exact h2
  have hmod : mz % T ≠ 0 := by
    intro h0
    have := Nat.div_add_mod mz T
    rw [h0, hdiv] at this
    rw [Nat.mul_comm] at this
    omega
  unfold toInt64
  have g : goExp mz (-(L : Int)) = -(L : Int) + (bitlen mz : Int) := rfl
  by_cases hle : goExp mz (-(L : Int)) ≤ 0
  · -- mz < T, so S = 0
    have hb : bitlen mz ≤ L := by rw [g] at hle; omega
    have hlt : mz < T := by
      have := lt_pow_bitlen mz
      have h3 : 2 ^ bitlen mz ≤ 2 ^ L := Nat.pow_le_pow_right (by omega) hb
      rw [hT]; omega
    have hS0 : S = 0 := by
      rw [← hdiv]; exact Nat.div_eq_of_lt hlt
    subst hS0
    simp only [hle, if_true]
    cases neg <;> simp
  · simp only [hle, if_false]
    have hbl : bitlen mz ≤ 38 + L := by
      apply bitlen_le_of_lt
      rw [Nat.pow_add, ← hT]
      have : (S + 1) * T ≤ 2 ^ 38 * T := Nat.mul_le_mul_right T hS
      omega
    have h63 : goExp mz (-(L : Int)) ≤ 63 := by rw [g]; omega
    have hneg : ¬ (-(L : Int) ≥ 0) := by omega
    have htn : (-(-(L : Int))).toNat = L := by omega
    simp only [h63, if_true, hneg, if_false, htn, ← hT, hdiv]
    simp [hmod]

/-- the fractional nanoseconds as a big.Float: within 2^-59 of N -/
theorem fracNs_frac (neg : Bool) (mz L S F k : Nat) (hk1 : 1 ≤ k) (hk9 : k ≤ 9)
    (hL89 : 89 ≤ L) (hL200 : L ≤ 200) (hmz : mz ≤ 2 ^ 128)
    (hF0 : 0 < F) (hFD : F < 10 ^ k)
    (e1 : 2 * (mz * 10 ^ k) ≤ 2 * ((S * 10 ^ k + F) * 2 ^ L) + 10 ^ k)
    (e2 : 2 * ((S * 10 ^ k + F) * 2 ^ L) ≤ 2 * (mz * 10 ^ k) + 10 ^ k)
    (h1 : S * 2 ^ L < mz) (h2 : mz < (S + 1) * 2 ^ L) :
    ∃ (my E : Nat), fracNs (.fin neg mz (-(L : Int))) (if neg then -(S : Int) else S) = .fin neg my (-(E : Int)) ∧
      59 ≤ E ∧ my ≤ F * 10 ^ (9 - k) * 2 ^ E + 2 ^ (E - 59) ∧ F * 10 ^ (9 - k) * 2 ^ E ≤ my + 2 ^ (E - 59) := by
  have hDW : 10 ^ k * 10 ^ (9 - k) = 1000000000 := by
    rw [← Nat.pow_add, show k + (9 - k) = 9 by omega]
  have hWpos : 0 < 10 ^ (9 - k) := by positivity
  have hDpos : 0 < 10 ^ k := by positivity
  have hTpos : 0 < 2 ^ L := by positivity
  generalize 10 ^ (9 - k) = W at *
  generalize 10 ^ k = D at *
  generalize hTdef : 2 ^ L = T at e1 e2 h1 h2 hTpos
  have hT : T = 2 ^ L := hTdef.symm
  -- f = mz - S*T
  obtain ⟨f, hf⟩ : ∃ f, mz = f + S * T := ⟨mz - S * T, by omega⟩
  have hf0 : 0 < f := by omega
  have hfT : f < T := by
    have : (S + 1) * T = S * T + T := by ring
    omega
  have b1 : 2 * (f * D) ≤ 2 * (F * T) + D := by subst hf; nlinarith
  have b2 : 2 * (F * T) ≤ 2 * (f * D) + D := by subst hf; nlinarith
  -- g = f * 10^9, N = F * W
  have c1 : 2 * (f * 1000000000) ≤ 2 * (F * W * T) + 1000000000 := by
    have := Nat.mul_le_mul_right W b1
    rw [← hDW]; nlinarith
  have c2 : 2 * (F * W * T) ≤ 2 * (f * 1000000000) + 1000000000 := by
    have := Nat.mul_le_mul_right W b2
    rw [← hDW]; nlinarith
  -- Kp = 2^(L-59) ≥ 2^30
  obtain ⟨Kp, hKp⟩ : ∃ Kp, Kp = 2 ^ (L - 59) := ⟨_, rfl⟩
  have hKp30 : 2 ^ 30 ≤ Kp := by rw [hKp]; exact Nat.pow_le_pow_right (by omega) (by omega)
  have h30 : (2 : Nat) ^ 30 = 1073741824 := by norm_num
  -- the subtraction z - sec
  have hsub : sub 128 (.fin neg mz (-(L : Int))) (ofInt (if neg then -(S : Int) else S)) = .fin neg f (-(L : Int)) := by
    by_cases hS0 : S = 0
    · subst hS0
      have : (if neg = true then -((0 : Nat) : Int) else ((0 : Nat) : Int)) = 0 := by cases neg <;> simp
      rw [this]
      have hfm : mz = f := by omega
      subst hfm
      simp [ofInt, sub]
    · have hsec0 : (if neg = true then -(S : Int) else (S : Int)) ≠ 0 := by cases neg <;> simp <;> omega
      have hsecneg : decide ((if neg = true then -(S : Int) else (S : Int)) < 0) = neg := by
        cases neg <;> simp <;> omega
      have hsecabs : (if neg = true then -(S : Int) else (S : Int)).natAbs = S := by cases neg <;> simp
      unfold ofInt
      simp only [hsec0, if_false, hsecneg, hsecabs]
      unfold sub
      have hle : (-(L : Int)) ≤ 0 := by omega
      simp only [hle, if_true]
      have s1 : scaled neg mz (-(L : Int)) (-(L : Int)) = if neg then -(mz : Int) else mz := by
        unfold scaled; simp
      have s2 : scaled neg S 0 (-(L : Int)) = if neg then -((S * T : Nat) : Int) else ((S * T : Nat) : Int) := by
        unfold scaled
        have : ((0 : Int) - -(L : Int)).toNat = L := by omega
        rw [this, hT]; push_cast; rfl
      rw [s1, s2]
      have hd : (if neg then -(mz : Int) else (mz : Int)) - (if neg then -((S * T : Nat) : Int) else ((S * T : Nat) : Int))
          = if neg then -(f : Int) else f := by
        subst hf; cases neg <;> simp <;> push_cast <;> ring
      rw [hd]
      have hd0 : (if neg = true then -(f : Int) else (f : Int)) ≠ 0 := by cases neg <;> simp <;> omega
      have hdneg : decide ((if neg = true then -(f : Int) else (f : Int)) < 0) = neg := by
        cases neg <;> simp <;> omega
      have hdabs : (if neg = true then -(f : Int) else (f : Int)).natAbs = f := by cases neg <;> simp
      simp only [hd0, if_false, hdneg, hdabs]
      apply norm_fits
      · omega
      · apply bitlen_le_of_lt
        have : f < mz := by
          have : 0 < S * T := Nat.mul_pos (by omega) hTpos
          omega
        omega
      · omega
      · omega
  have he9 : ofInt e9 = .fin false 1000000000 0 := by unfold ofInt e9; simp
  unfold fracNs
  rw [hsub, he9]
  unfold mul
  simp only [Bool.bne_false, Int.add_zero]
  obtain ⟨g, hg⟩ : ∃ g, g = f * 1000000000 := ⟨_, rfl⟩
  rw [← hg] at c1 c2 ⊢
  have hg0 : g ≠ 0 := by rw [hg]; omega
  have hgT : g < T * 2 ^ 30 := by rw [hg, h30]; nlinarith
  have hgbl : bitlen g ≤ L + 30 := by
    apply bitlen_le_of_lt; rw [Nat.pow_add, ← hT]; exact hgT
  by_cases hfit : bitlen g ≤ 128
  · refine ⟨g, L, ?_, by omega, ?_, ?_⟩
    · exact norm_fits 128 neg g _ hg0 hfit (by omega) (by omega)
    · rw [← hT, ← hKp]; omega
    · rw [← hT, ← hKp]; omega
  · have hbig : 128 < bitlen g := by omega
    obtain ⟨my, hrne, hmy1, hmy2, d1, d2⟩ := rne_plain 128 (by omega) g (-(L : Int)) hbig
    obtain ⟨r, hr⟩ : ∃ r, r = bitlen g - 128 := ⟨_, rfl⟩
    rw [← hr] at hrne d1 d2
    have hrL : r + 98 ≤ L := by omega
    obtain ⟨E, hE⟩ : ∃ E, E = L - r := ⟨_, rfl⟩
    have hEr : E + r = L := by omega
    obtain ⟨R, hR⟩ : ∃ R, R = 2 ^ r := ⟨_, rfl⟩
    have hRpos : 0 < R := by rw [hR]; positivity
    rw [← hR] at d1 d2
    have hTER : T = 2 ^ E * R := by rw [hT, hR, ← Nat.pow_add, hEr]
    have hKER : Kp = 2 ^ (E - 59) * R := by
      rw [hKp, hR, ← Nat.pow_add]; congr 1; omega
    have hRK : R ≤ Kp := by
      rw [hR, hKp]; exact Nat.pow_le_pow_right (by omega) (by omega)
    refine ⟨my, E, ?_, by omega, ?_, ?_⟩
    · unfold norm
      have gg : goExp g (-(L : Int)) = -(L : Int) + (bitlen g : Int) := rfl
      have g1 : ¬ (goExp g (-(L : Int)) < minExp) := by rw [gg]; unfold minExp; omega
      have g2 : ¬ (goExp g (-(L : Int)) > maxExp) := by rw [gg]; unfold maxExp; omega
      simp only [hg0, g1, g2, if_false, hrne]
      have hbmy : bitlen my ≤ 129 := bitlen_le_of_lt my 129 (by
        have : (2 : Nat) ^ 128 < 2 ^ 129 := by norm_num
        omega)
      have g3 : ¬ (goExp my (-(L : Int) + (r : Int)) > maxExp) := by
        unfold goExp maxExp; omega
      simp only [g3, if_false]
      have : (-(L : Int) + (r : Int)) = -(E : Int) := by omega
      rw [this]
    · apply Nat.le_of_mul_le_mul_right _ hRpos
      have : (F * W * 2 ^ E + 2 ^ (E - 59)) * R = F * W * (2 ^ E * R) + 2 ^ (E - 59) * R := by ring
      rw [this, ← hTER, ← hKER]
      omega
    · apply Nat.le_of_mul_le_mul_right _ hRpos
      have e3 : (my + 2 ^ (E - 59)) * R = my * R + 2 ^ (E - 59) * R := by ring
      have e4 : F * W * 2 ^ E * R = F * W * (2 ^ E * R) := by ring
      rw [e3, e4, ← hTER, ← hKER]
      omega

end GoatProofs.Lemmas.C10Frac

namespace GoatProofs.Lemmas.C10Frac
open Model.NumericDate GoatProofs.Lemmas.C10Rne GoatProofs.Lemmas.C10F64 GoatProofs.Lemmas.C10Scan

/-- **the arithmetic core of the NumericDate round trip**: a literal `±S.F` (k fraction digits) is
    decoded to exactly `(±S, ±F·10^(9-k))` -/
theorem decodeLit_frac (neg : Bool) (S F k : Nat) (hk1 : 1 ≤ k) (hk9 : k ≤ 9)
    (hF0 : 0 < F) (hFD : F < 10 ^ k) (hS : S ≤ 253402300799) :
    decodeLit ⟨neg, S * 10 ^ k + F, k, 0⟩ =
      .ok (if neg then -(S : Int) else S,
           if neg then -((F * 10 ^ (9 - k) : Nat) : Int) else ((F * 10 ^ (9 - k) : Nat) : Int)) := by
  have h38 : (2 : Nat) ^ 38 = 274877906944 := by norm_num
  have hS38 : S < 2 ^ 38 := by omega
  have hDpos : 0 < 10 ^ k := by positivity
  have hM1 : 1 ≤ S * 10 ^ k + F := by omega
  have hM : S * 10 ^ k + F + 1 ≤ 2 ^ 38 * 10 ^ k := by
    have : (S + 1) * 10 ^ k ≤ 2 ^ 38 * 10 ^ k := Nat.mul_le_mul_right _ (by omega)
    have e : (S + 1) * 10 ^ k = S * 10 ^ k + 10 ^ k := by ring
    omega
  obtain ⟨mz, L, hscan, hL89, hL200, hmz1, hmz2, e1, e2⟩ := scan_frac neg _ k hk1 hk9 hM1 hM
  have hD30 : 10 ^ k < 2 ^ 30 := pow10_lt k hk9
  have hT89 : 2 ^ 89 ≤ 2 ^ L := Nat.pow_le_pow_right (by omega) hL89
  have h3089 : (2 : Nat) ^ 30 < 2 ^ 89 := by norm_num
  have hDT : 10 ^ k < 2 ^ L := by omega
  -- S*T < mz < (S+1)*T
  have A2 : (S * 10 ^ k + F) * 2 ^ L = S * 10 ^ k * 2 ^ L + F * 2 ^ L := by ring
  have hlow : S * 2 ^ L < mz := by
    by_contra hle
    have h3 : mz * 10 ^ k ≤ S * 2 ^ L * 10 ^ k := Nat.mul_le_mul_right _ (by omega)
    have A1 : S * 2 ^ L * 10 ^ k = S * 10 ^ k * 2 ^ L := by ring
    have h4 : 2 ^ L ≤ F * 2 ^ L := Nat.le_mul_of_pos_left _ hF0
    rw [A2] at e2
    omega
  have hhigh : mz < (S + 1) * 2 ^ L := by
    by_contra hge
    have h3 : (S + 1) * 2 ^ L * 10 ^ k ≤ mz * 10 ^ k := Nat.mul_le_mul_right _ (by omega)
    have A1 : (S + 1) * 2 ^ L * 10 ^ k = S * 10 ^ k * 2 ^ L + 10 ^ k * 2 ^ L := by ring
    have h4 : (F + 1) * 2 ^ L ≤ 10 ^ k * 2 ^ L := Nat.mul_le_mul_right _ hFD
    have A3 : (F + 1) * 2 ^ L = F * 2 ^ L + 2 ^ L := by ring
    rw [A2] at e1
    omega
  have hti := toInt64_frac neg mz L S (by omega) hS38 hlow hhigh
  obtain ⟨my, E, hfrac, hE59, c1, c2⟩ :=
    fracNs_frac neg mz L S F k hk1 hk9 hL89 hL200 hmz2 hF0 hFD e1 e2 hlow hhigh
  obtain ⟨N, hN⟩ : ∃ N, N = F * 10 ^ (9 - k) := ⟨_, rfl⟩
  rw [← hN] at c1 c2 ⊢
  have hN1 : 1 ≤ N := by
    rw [hN]; exact Nat.mul_pos hF0 (by positivity)
  have hN9 : N < 1000000000 := by
    have : 10 ^ k * 10 ^ (9 - k) = 1000000000 := by
      rw [← Nat.pow_add, show k + (9 - k) = 9 by omega]
    rw [hN, ← this]
    exact Nat.mul_lt_mul_of_pos_right hFD (by positivity)
  have hN30 : N < 2 ^ 30 := by
    have : (2 : Nat) ^ 30 = 1073741824 := by norm_num
    omega
  have htr := f64_trunc_near_int neg my E N hN1 hN30 hE59 c1 c2
  unfold decodeLit
  simp only [hscan, hti, Bool.false_eq_true, if_false, hfrac, htr]
  unfold carry gate
  have hS' : (S : Int) ≤ 253402300799 := by omega
  have hN' : (N : Int) < 1000000000 := by omega
  cases neg
  · have q1 : ¬ ((N : Int) ≥ e9) := by unfold e9; omega
    have q2 : ¬ ((N : Int) ≤ -e9) := by unfold e9; omega
    have q3 : ¬ ((S : Int) > maxEpoch ∨ (S : Int) < -maxEpoch) := by unfold maxEpoch; omega
    simp [q1, q2, q3]
  · have q1 : ¬ (-(N : Int) ≥ e9) := by unfold e9; omega
    have q2 : ¬ (-(N : Int) ≤ -e9) := by unfold e9; omega
    have q3 : ¬ (-(S : Int) > maxEpoch ∨ -(S : Int) < -maxEpoch) := by unfold maxEpoch; omega
    simp [q1, q2]
    unfold maxEpoch; omega

end GoatProofs.Lemmas.C10Frac
