import Goat.Model.Custom
/-
The float64 arm of `decode` (caller-built Raw): a float64 is accepted by an integer destination iff
it is an integer within the destination range, and then the stored value is exactly that integer.
-/
namespace GoatProofs.Lemmas.C10F64Arm
open Model Model.Custom Model.NumericDate

/-- the integer a float64 denotes, if it is finite and integral -/
def intValue : F64 → Option Int
  | .nan => none
  | .inf _ => none
  | .fin neg m e =>
    if f64FracNonzero m e then none
    else some (if neg then -(f64TruncAbs m e : Int) else f64TruncAbs m e)

theorem pow_le_63 (bits : Nat) (hb : 1 ≤ bits ∧ bits ≤ 64) : (2 : Int) ^ (bits - 1) ≤ 2 ^ 63 := by
  have : (2 : Nat) ^ (bits - 1) ≤ 2 ^ 63 := Nat.pow_le_pow_right (by omega) (by omega)
  exact_mod_cast this

/-- **overflow_is_error, float64 into signed** -/
theorem decodeF64Int_spec (bits : Nat) (hb : 1 ≤ bits ∧ bits ≤ 64) (x : F64) :
    decodeF64Int bits x =
      match intValue x with
      | some i => if -(2 ^ (bits - 1) : Int) ≤ i ∧ i ≤ (2 ^ (bits - 1) : Int) - 1 then .ok i else .err "overflow"
      | none => .err "overflow" := by
  have hp := pow_le_63 bits hb
  have hpos : (0 : Int) < 2 ^ (bits - 1) := Int.pow_pos (by decide)
  cases x with
  | nan => rfl
  | inf n => rfl
  | fin neg m e =>
    unfold decodeF64Int intValue
    by_cases hf : f64FracNonzero m e = true
    · simp [hf]
    · simp only [hf, Bool.false_eq_true, if_false, false_or]
      generalize (if neg = true then -(f64TruncAbs m e : Int) else (f64TruncAbs m e : Int)) = i
      unfold cvtI64 overflowInt minInt64 maxInt64
      by_cases h64 : i < -9223372036854775808 ∨ i > 9223372036854775807
      · have hr : ¬ (-(2 ^ (bits - 1) : Int) ≤ i ∧ i ≤ (2 ^ (bits - 1) : Int) - 1) := by omega
        have hc : i ≥ 2 ^ 63 ∨ i < -9223372036854775808 ∨
            (decide (-9223372036854775808 < -(2 ^ (bits - 1) : Int) ∨ -9223372036854775808 > (2 ^ (bits - 1) : Int) - 1) = true) := by
          rcases h64 with h | h
          · exact Or.inr (Or.inl h)
          · left; omega
        simp only [h64, if_true, if_neg hr]
        rw [if_pos hc]
      · simp only [h64, if_false]
        by_cases hr : -(2 ^ (bits - 1) : Int) ≤ i ∧ i ≤ (2 ^ (bits - 1) : Int) - 1
        · have hc : ¬ (i ≥ 2 ^ 63 ∨ i < -9223372036854775808 ∨
              (decide (i < -(2 ^ (bits - 1) : Int) ∨ i > (2 ^ (bits - 1) : Int) - 1) = true)) := by
            simp only [decide_eq_true_eq]; omega
          rw [if_neg hc, if_pos hr]
        · have hc : (i ≥ 2 ^ 63 ∨ i < -9223372036854775808 ∨
              (decide (i < -(2 ^ (bits - 1) : Int) ∨ i > (2 ^ (bits - 1) : Int) - 1) = true)) := by
            simp only [decide_eq_true_eq]; omega
          rw [if_pos hc, if_neg hr]

/-- **overflow_is_error, float64 into unsigned** -/
theorem decodeF64Uint_spec (bits : Nat) (hb : bits ≤ 64) (x : F64) :
    decodeF64Uint bits x =
      match intValue x with
      | some i => if 0 ≤ i ∧ i < (2 ^ bits : Int) then .ok i.toNat else .err "overflow"
      | none => .err "overflow" := by
  have hp : (2 : Int) ^ bits ≤ 2 ^ 64 := by
    have : (2 : Nat) ^ bits ≤ 2 ^ 64 := Nat.pow_le_pow_right (by omega) hb
    exact_mod_cast this
  cases x with
  | nan => rfl
  | inf n => rfl
  | fin neg m e =>
    unfold decodeF64Uint intValue
    by_cases hf : f64FracNonzero m e = true
    · simp [hf]
    · simp only [hf, Bool.false_eq_true, if_false, false_or]
      generalize (if neg = true then -(f64TruncAbs m e : Int) else (f64TruncAbs m e : Int)) = i
      unfold cvtU64 overflowUint
      by_cases h64 : i < 0 ∨ i ≥ 2 ^ 64
      · have hr : ¬ (0 ≤ i ∧ i < (2 ^ bits : Int)) := by omega
        have hc : i ≥ 2 ^ 64 ∨ i < 0 ∨ (decide ((2 : Nat) ^ 63 ≥ 2 ^ bits) = true) := by
          rcases h64 with h | h
          · exact Or.inr (Or.inl h)
          · exact Or.inl h
        simp only [h64, if_true, if_neg hr]
        rw [if_pos hc]
      · simp only [h64, if_false]
        have hcast : ((i.toNat : Nat) : Int) = i := by omega
        have e : ((2 ^ bits : Nat) : Int) = (2 : Int) ^ bits := by norm_cast
        by_cases hr : 0 ≤ i ∧ i < (2 ^ bits : Int)
        · have hlt : ¬ (i.toNat ≥ 2 ^ bits) := by
            intro h
            have : ((2 ^ bits : Nat) : Int) ≤ (i.toNat : Int) := by exact_mod_cast h
            omega
          have hc : ¬ (i ≥ 2 ^ 64 ∨ i < 0 ∨ (decide (i.toNat ≥ 2 ^ bits) = true)) := by
            simp only [decide_eq_true_eq]; omega
          rw [if_neg hc, if_pos hr]
        · have hge : i.toNat ≥ 2 ^ bits := by
            have h1 : (2 : Int) ^ bits ≤ i := by omega
            have : ((2 ^ bits : Nat) : Int) ≤ (i.toNat : Int) := by rw [hcast, e]; exact h1
            exact_mod_cast this
          have hc : (i ≥ 2 ^ 64 ∨ i < 0 ∨ (decide (i.toNat ≥ 2 ^ bits) = true)) := by
            simp only [decide_eq_true_eq]; exact Or.inr (Or.inr hge)
          rw [if_pos hc, if_neg hr]

end GoatProofs.Lemmas.C10F64Arm
