import GoatProofs.Lemmas.C08MarshalEC
/-
Type-independent pieces of the C08 round trip: the key after a round trip, the dispatch of ParseMap
on `kty`, the certificate comparison, and "the marshalled object has the members of the spec encoding".
-/
namespace C08
open Model.JWK Spec.IANA Gen.Consts

/-- the key after a round trip: the same key, `Raw` = the parsed object, and the certificate
    thumbprints filled in from the chain when they were not set -/
def restored (o : Oracle) (k : Key) (m : Obj) : Key :=
  { k with raw := m, x5t := thumbVal o "sha1" k.x5t k.x5c, x5tS256 := thumbVal o "sha256" k.x5tS256 k.x5c }

/-- what decodeCommonParameters rebuilds from a marshalled key, with the key objects put back -/
theorem cpKey_restored (o : Oracle) (k : Key) (m : Obj) (pub : GoPub) (priv : GoPriv)
    (hp : k.pub = pub) (hq : k.priv = priv) (hx : k.x5c ≠ some []) :
    { (toCP o k).key m k.kty with pub := pub, priv := priv } = restored o k m := by
  obtain ⟨raw, kty, use, keyOps, alg, kid, x5u, x5c, x5t, x5tS256, priv', pub'⟩ := k
  simp only at hp hq hx
  subst hp hq
  have e1 : (if kid = "" then none else some kid).getD "" = kid := by split <;> simp_all
  have e2 : (if use = "" then none else some use).getD "" = use := by split <;> simp_all
  have e3 : (if alg = "" then none else some alg).getD "" = alg := by split <;> simp_all
  have e4 : (if x5c.getD [] = [] then none else some (x5c.getD [])) = x5c := by
    cases x5c with
    | none => simp
    | some cs => cases cs <;> simp_all
  simp [restored, toCP, CP.key, e1, e2, e3, e4]

/-! ## MarshalJSON drops the registered names from its copy of Raw (7805e88) -/

/-- the regenerated list `registeredMembers` of jwk/jwk.go names exactly the members Spec.IANA registers, which are
    exactly the names the jwk encoders write and the names the jwk decoders read (string literals in jwk/*.go) -/
theorem registered_members_complete :
    (∀ n, n ∈ Gen.JwkMembers.registeredMembers ↔ n ∈ registeredMembers) ∧
    (∀ n, n ∈ Gen.JwkMembers.writtenMembers ↔ n ∈ Gen.JwkMembers.registeredMembers) ∧
    (∀ n, n ∈ Gen.JwkMembers.readMembers ↔ n ∈ Gen.JwkMembers.registeredMembers) := by
  have h1 : Gen.JwkMembers.registeredMembers = registeredMembers := by decide
  have h2 : Gen.JwkMembers.writtenMembers.all (Gen.JwkMembers.registeredMembers.contains ·) = true ∧
      Gen.JwkMembers.registeredMembers.all (Gen.JwkMembers.writtenMembers.contains ·) = true := by decide
  have h3 : Gen.JwkMembers.readMembers.all (Gen.JwkMembers.registeredMembers.contains ·) = true ∧
      Gen.JwkMembers.registeredMembers.all (Gen.JwkMembers.readMembers.contains ·) = true := by decide
  refine ⟨fun n => by rw [h1], fun n => ⟨fun h => ?_, fun h => ?_⟩, fun n => ⟨fun h => ?_, fun h => ?_⟩⟩
  · simpa using List.all_eq_true.mp h2.1 n h
  · simpa using List.all_eq_true.mp h2.2 n h
  · simpa using List.all_eq_true.mp h3.1 n h
  · simpa using List.all_eq_true.mp h3.2 n h

theorem lookup_filter_none (raw : Obj) (p : String × Wire → Bool) (n : String) (h : ∀ v, p (n, v) = false) :
    Wire.lookup n (raw.filter p) = none := by
  induction raw with
  | nil => rfl
  | cons hd t ih =>
    obtain ⟨k, v⟩ := hd
    by_cases hp : p (k, v) = true
    · simp only [List.filter_cons, hp, if_true, Wire.lookup]
      by_cases hk : n = k
      · subst hk; rw [h v] at hp; cases hp
      · simp [hk, ih]
    · simp [List.filter_cons, hp, ih]

theorem lookup_filter_keep (raw : Obj) (p : String × Wire → Bool) (n : String) (h : ∀ v, p (n, v) = true) :
    Wire.lookup n (raw.filter p) = Wire.lookup n raw := by
  induction raw with
  | nil => rfl
  | cons hd t ih =>
    obtain ⟨k, v⟩ := hd
    by_cases hk : n = k
    · subst hk; simp [List.filter_cons, h v, Wire.lookup]
    · by_cases hp : p (k, v) = true <;> simp [List.filter_cons, hp, Wire.lookup, hk, ih]

/-- after the delete loop no registered name is left in the copy of Raw … -/
theorem dropRegistered_clean (raw : Obj) : Clean (dropRegistered raw) := by
  intro n hn
  have h1 : Gen.JwkMembers.registeredMembers = registeredMembers := by decide
  apply lookup_filter_none
  intro v
  simp [h1, hn]

/-- … and every unregistered member is still there -/
theorem dropRegistered_keeps (raw : Obj) (n : String) (hn : n ∉ registeredMembers) :
    Wire.lookup n (dropRegistered raw) = Wire.lookup n raw := by
  have h1 : Gen.JwkMembers.registeredMembers = registeredMembers := by decide
  apply lookup_filter_keep
  intro v
  simp [h1, hn]

/-- the key MarshalJSON encodes: the same key over the cleaned copy of Raw -/
def cleaned (k : Key) : Key := { k with raw := dropRegistered k.raw }

theorem marshal_eq (k : Key) : marshal k = marshalFrom (cleaned k) := rfl

theorem marshal_thumbKey (k : Key) : marshal (thumbKey k) = marshalFrom (thumbKey k) := by
  simp [marshal, thumbKey, dropRegistered]

/-- the registered members of the marshalled object are those of the spec encoding -/
theorem hasMembers_of_registered (o : Oracle) (k : Key) (m : Obj) (mat : KeyMaterial) (hx : k.x5c ≠ some [])
    (h : ∀ name, Wire.lookup name m = Wire.lookup name (specEncode (encS o) (encStdS o) mat (specParams o k) k.raw)) :
    HasMembers o m mat (toCP o k) k.raw := by
  intro n _
  rw [toCP_toSpec o k hx]
  exact h n

/-- `pub.Equal(cert.PublicKey)` succeeds when the first certificate is for `pub` -/
theorem run_certMatches (o : Oracle) (pub : GoPub) (cp : CP) (m : Obj) (kty : String)
    (hcert : ∀ c0, cp.certs.head? = some c0 → c0.pub = pub) :
    (certMatches pub (cp.key m kty).x5c).run o = .ok () := by
  unfold certMatches CP.key
  by_cases he : cp.certs = []
  · simp [he]
  · cases hcs : cp.certs with
    | nil => exact absurd hcs he
    | cons c0 rest =>
      have := hcert c0 (by simp [hcs])
      simp [this]

/-- decodeCommonParameters on an object with the registered members of the spec encoding -/
theorem run_decodeCommon_members (o : Oracle) (L : Laws o) (m extras : Obj) (mat : KeyMaterial) (cp : CP)
    (hm : HasMembers o m mat cp extras) (hcl : Clean extras) (K : CommonOK o cp) :
    (decodeCommon m).run o = .ok (cp.key m mat.kty) :=
  run_decodeCommon o L m _ cp (commonView_of_members o m _ cp extras hm hcl) K

/-- the `switch key.kty` of ParseMap -/
theorem parseMap_rsa (o : Oracle) (m : Obj) (key : Key) (h : (decodeCommon m).run o = .ok key)
    (hk : key.kty = ktyRSA) : (parseMap m).run o = (parseRsa m key).run o := by
  unfold parseMap
  simp only [PO.run_bind, h, hk]
  have e1 : (ktyRSA == jwa.EC) = false := by decide
  have e2 : (ktyRSA == jwa.RSA) = true := by decide
  simp [e1, e2]

theorem parseMap_okp (o : Oracle) (m : Obj) (key : Key) (h : (decodeCommon m).run o = .ok key)
    (hk : key.kty = ktyOKP) : (parseMap m).run o = (parseOkp m key).run o := by
  unfold parseMap
  simp only [PO.run_bind, h, hk]
  have e1 : (ktyOKP == jwa.EC) = false := by decide
  have e2 : (ktyOKP == jwa.RSA) = false := by decide
  have e3 : (ktyOKP == jwa.OKP) = true := by decide
  simp [e1, e2, e3]

theorem parseMap_oct (o : Oracle) (m : Obj) (key : Key) (h : (decodeCommon m).run o = .ok key)
    (hk : key.kty = ktyOct) : (parseMap m).run o = (parseOct m key).run o := by
  unfold parseMap
  simp only [PO.run_bind, h, hk]
  have e1 : (ktyOct == jwa.EC) = false := by decide
  have e2 : (ktyOct == jwa.RSA) = false := by decide
  have e3 : (ktyOct == jwa.OKP) = false := by decide
  have e4 : (ktyOct == jwa.Oct) = true := by decide
  simp [e1, e2, e3, e4]

/-- lookup of a material member of `m` through `HasMembers` -/
theorem lookup_member (o : Oracle) (m extras : Obj) (mat : KeyMaterial) (cp : CP)
    (hm : HasMembers o m mat cp extras) (hcl : Clean extras) (name : String)
    (hn : name ∈ ["crv", "x", "y", "d", "n", "e", "p", "q", "dp", "dq", "qi", "oth", "k"]) :
    Wire.lookup name m = Wire.lookup name (materialMembers (encS o) mat) := by
  have hreg : name ∈ registeredMembers := by
    simp only [List.mem_cons, List.mem_nil_iff, or_false] at hn
    rcases hn with h | h | h | h | h | h | h | h | h | h | h | h | h <;> subst h <;> decide
  rw [hm name hreg, lookup_spec_mat _ _ _ _ _ _ hn, hcl name hreg]
  cases Wire.lookup name (materialMembers (encS o) mat) <;> rfl

end C08
