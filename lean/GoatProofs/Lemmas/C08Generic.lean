import GoatProofs.Lemmas.C08MarshalEC
/-
Type-independent pieces of the C08 round trip: the key after a round trip, the dispatch of ParseMap
on `kty`, the certificate comparison, and "the marshalled object has the members of the spec encoding".
-/
namespace C08
open Model.JWK Spec.IANA Gen.Consts

/-- the key after a round trip: the same key, `Raw` = the parsed object, and the certificate
    thumbprints filled in from the chain when they were not set -/
def restored (o : Oracle) (k : Key) (m : Obj) : Key :=
  { k with raw := m, x5t := thumbVal o "sha1" k.x5t k.x5c, x5tS256 := thumbVal o "sha256" k.x5tS256 k.x5c }

/-- what decodeCommonParameters rebuilds from a marshalled key, with the key objects put back -/
theorem cpKey_restored (o : Oracle) (k : Key) (m : Obj) (pub : GoPub) (priv : GoPriv)
    (hp : k.pub = pub) (hq : k.priv = priv) (hx : k.x5c ≠ some []) :
    { (toCP o k).key m k.kty with pub := pub, priv := priv } = restored o k m := by
  obtain ⟨raw, kty, use, keyOps, alg, kid, x5u, x5c, x5t, x5tS256, priv', pub'⟩ := k
  simp only at hp hq hx
  subst hp hq
  have e1 : (if kid = "" then none else some kid).getD "" = kid := by split <;> simp_all
  have e2 : (if use = "" then none else some use).getD "" = use := by split <;> simp_all
  have e3 : (if alg = "" then none else some alg).getD "" = alg := by split <;> simp_all
  have e4 : (if x5c.getD [] = [] then none else some (x5c.getD [])) = x5c := by
    cases x5c with
    | none => simp
    | some cs => cases cs <;> simp_all
  simp [restored, toCP, CP.key, e1, e2, e3, e4]

/-- the registered members of the marshalled object are those of the spec encoding -/
theorem hasMembers_of_registered (o : Oracle) (k : Key) (m : Obj) (mat : KeyMaterial) (hx : k.x5c ≠ some [])
    (h : ∀ name, Wire.lookup name m = Wire.lookup name (specEncode (encS o) (encStdS o) mat (specParams o k) k.raw)) :
    HasMembers o m mat (toCP o k) k.raw := by
  intro n _
  rw [toCP_toSpec o k hx]
  exact h n

/-- `pub.Equal(cert.PublicKey)` succeeds when the first certificate is for `pub` -/
theorem run_certMatches (o : Oracle) (pub : GoPub) (cp : CP) (m : Obj) (kty : String)
    (hcert : ∀ c0, cp.certs.head? = some c0 → c0.pub = pub) :
    (certMatches pub (cp.key m kty).x5c).run o = .ok () := by
  unfold certMatches CP.key
  by_cases he : cp.certs = []
  · simp [he]
  · cases hcs : cp.certs with
    | nil => exact absurd hcs he
    | cons c0 rest =>
      have := hcert c0 (by simp [hcs])
      simp [this]

/-- decodeCommonParameters on an object with the registered members of the spec encoding -/
theorem run_decodeCommon_members (o : Oracle) (L : Laws o) (m extras : Obj) (mat : KeyMaterial) (cp : CP)
    (hm : HasMembers o m mat cp extras) (hcl : Clean extras) (K : CommonOK o cp) :
    (decodeCommon m).run o = .ok (cp.key m mat.kty) :=
  run_decodeCommon o L m _ cp (commonView_of_members o m _ cp extras hm hcl) K

/-- the `switch key.kty` of ParseMap -/
theorem parseMap_rsa (o : Oracle) (m : Obj) (key : Key) (h : (decodeCommon m).run o = .ok key)
    (hk : key.kty = ktyRSA) : (parseMap m).run o = (parseRsa m key).run o := by
  unfold parseMap
  simp only [PO.run_bind, h, hk]
  have e1 : (ktyRSA == jwa.EC) = false := by decide
  have e2 : (ktyRSA == jwa.RSA) = true := by decide
  simp [e1, e2]

theorem parseMap_okp (o : Oracle) (m : Obj) (key : Key) (h : (decodeCommon m).run o = .ok key)
    (hk : key.kty = ktyOKP) : (parseMap m).run o = (parseOkp m key).run o := by
  unfold parseMap
  simp only [PO.run_bind, h, hk]
  have e1 : (ktyOKP == jwa.EC) = false := by decide
  have e2 : (ktyOKP == jwa.RSA) = false := by decide
  have e3 : (ktyOKP == jwa.OKP) = true := by decide
  simp [e1, e2, e3]

theorem parseMap_oct (o : Oracle) (m : Obj) (key : Key) (h : (decodeCommon m).run o = .ok key)
    (hk : key.kty = ktyOct) : (parseMap m).run o = (parseOct m key).run o := by
  unfold parseMap
  simp only [PO.run_bind, h, hk]
  have e1 : (ktyOct == jwa.EC) = false := by decide
  have e2 : (ktyOct == jwa.RSA) = false := by decide
  have e3 : (ktyOct == jwa.OKP) = false := by decide
  have e4 : (ktyOct == jwa.Oct) = true := by decide
  simp [e1, e2, e3, e4]

/-- lookup of a material member of `m` through `HasMembers` -/
theorem lookup_member (o : Oracle) (m extras : Obj) (mat : KeyMaterial) (cp : CP)
    (hm : HasMembers o m mat cp extras) (hcl : Clean extras) (name : String)
    (hn : name ∈ ["crv", "x", "y", "d", "n", "e", "p", "q", "dp", "dq", "qi", "oth", "k"]) :
    Wire.lookup name m = Wire.lookup name (materialMembers (encS o) mat) := by
  have hreg : name ∈ registeredMembers := by
    simp only [List.mem_cons, List.mem_nil_iff, or_false] at hn
    rcases hn with h | h | h | h | h | h | h | h | h | h | h | h | h <;> subst h <;> decide
  rw [hm name hreg, lookup_spec_mat _ _ _ _ _ _ hn, hcl name hreg]
  cases Wire.lookup name (materialMembers (encS o) mat) <;> rfl

end C08
