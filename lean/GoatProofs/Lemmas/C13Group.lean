import GoatProofs.Lemmas.C13Bytes
/-
C13 helper lemmas on the group side: the executable double-and-add `Spec.Edwards448.smul` is scalar
multiplication in the (hypothetical) group; reduction of scalars modulo the order of B.
-/
namespace C13
open Model.Ed448 Spec.Edwards448 C16Pt Glue
set_option exponentiation.threshold 1000
set_option maxRecDepth 100000

variable (E : EdwardsGroup)

theorem val_add (g h : E.G) : EdwardsGroup.val (g + h) = Spec.Edwards448.add (EdwardsGroup.val g) (EdwardsGroup.val h) := E.add_val g h
theorem val_zero : EdwardsGroup.val (0 : E.G) = Spec.Edwards448.zero := E.zero_val

theorem smulFuel_eq (g : E.G) : ∀ (f k : ℕ), k < 2 ^ f →
    smulFuel f k (EdwardsGroup.val g) = EdwardsGroup.val (k • g)
  | 0, k, h => by
    have : k = 0 := by simpa using h
    subst this; simp [smulFuel, val_zero]
  | f + 1, k, h => by
    unfold smulFuel
    by_cases hk : k = 0
    · subst hk; simp [val_zero]
    · rw [if_neg hk]
      have ih := smulFuel_eq g f (k / 2) (by rw [pow_succ] at h; omega)
      simp only [ih, ← val_add]
      have hsplit : k = k / 2 + k / 2 + k % 2 := by omega
      by_cases ho : k % 2 = 1
      · simp only [ho, if_true]
        congr 1
        conv_rhs => rw [hsplit, ho]
        rw [add_smul, add_smul, one_smul]
      · simp only [ho, if_false]
        congr 1
        conv_rhs => rw [hsplit, show k % 2 = 0 by omega]
        rw [add_zero, add_smul]

/-- the executable spec multiplication is scalar multiplication in the group -/
theorem smul_eq (g : E.G) (k : ℕ) : Spec.Edwards448.smul k (EdwardsGroup.val g) = EdwardsGroup.val (k • g) :=
  smulFuel_eq E g _ k Nat.lt_log2_self

theorem smul_B_eq (k : ℕ) : Spec.Edwards448.smul k Spec.Edwards448.B = EdwardsGroup.val (k • E.B) :=
  smul_eq E E.B k

/-- scalars may be reduced modulo the order of the point -/
theorem smul_mod (g : E.G) (n : ℕ) (hn : n • g = 0) (k : ℕ) : (k % n) • g = k • g := by
  conv_rhs => rw [← Nat.div_add_mod k n]
  rw [add_smul, mul_comm, mul_smul, hn, smul_zero, zero_add]

end C13
