import GoatProofs.Lemmas.C11Pos
/-
C11 — JWS JSON serialisations (flattened and general): every header of every signature, in the
protected and in the unprotected position, survives MarshalJSON → Parse.
-/
namespace C11
open Model.HeaderTable Model.Header Gen.HeaderTables

/-- what the decoder returns for the object emitted for `h`: `h` with the derived thumbprints
    filled in and `Raw` = the emitted object (cf. `header_roundtrip_*`) -/
def rtHdr (o : Oracle) (enc : List Row) (h : Header) : Header :=
  match (encodeWith enc h).run o with
  | .ok obj => { fill o h with raw := obj }
  | _ => h

theorem rtHdr_spec (o : Oracle) (enc : List Row) (dec : List DecStep) (hfit : tablesFit enc dec = true)
    (h : Header) (wf : WF o enc dec h) :
    ∃ obj, (encodeWith enc h).run o = .ok obj ∧ rtHdr o enc h = { fill o h with raw := obj } ∧
      (decodeWith dec obj).run o = .ok (rtHdr o enc h) := by
  obtain ⟨obj, ho⟩ := encode_ok' o enc dec hfit h wf
  have e : rtHdr o enc h = { fill o h with raw := obj } := by simp only [rtHdr, ho]
  exact ⟨obj, ho, e, by rw [e]; exact decodeWith_roundtrip o enc dec hfit h wf obj ho⟩

theorem fill_nb64 (o : Oracle) (h : Header) : (fill o h).nb64 = h.nb64 := by
  unfold fill; split <;> rfl

theorem fill_crit (o : Oracle) (h : Header) : (fill o h).crit = h.crit := by
  unfold fill; split <;> rfl

/-- the string is base64url text (Parse decodes signatures, keys, iv … before keeping the text) -/
def B64Str (o : Oracle) (s : String) : Prop := ∃ b, o ⟨"c11.b64url.dec", [.str s]⟩ = .bytes b

theorem b64Str_run {o : Oracle} {s : String} (h : B64Str o s) : ∃ b, (b64urlDecStr s).run o = .ok b := by
  obtain ⟨b, hb⟩ := h
  exact ⟨b, by simp [b64urlDecStr, readBytes, hb]⟩

/-- the text form of a protected header reads back -/
theorem protText_rt (o : Oracle) (enc : List Row) (dec : List DecStep) (hfit : tablesFit enc dec = true)
    (p : Header) (wf : WF o enc dec p)
    (law : ∀ obj, (encodeWith enc p).run o = .ok obj → TextLaw o obj) (raw : String)
    (hraw : (protectedText (fun h => do let x ← encodeWith enc h; pure (Wire.obj x)) p).run o = .ok raw) :
    ∃ b, (b64urlDecStr raw).run o = .ok b ∧ (unmarshalWith dec b).run o = .ok (rtHdr o enc p) := by
  obtain ⟨raw', obj, h1, h2, ho⟩ := protected_roundtrip o enc dec hfit p wf law
  have e0 : raw' = raw := by rw [h1] at hraw; cases hraw; rfl
  subst e0
  have e : rtHdr o enc p = { fill o p with raw := obj } := by simp only [rtHdr, ho]
  have h2' : (b64urlDecStr raw' >>= fun b => unmarshalWith dec b).run o = .ok { fill o p with raw := obj } := h2
  rw [PO.run_bind] at h2'
  split at h2'
  · rename_i b hb; exact ⟨b, hb, by rw [e]; exact h2'⟩
  · cases h2'
  · cases h2'

/-- a signature as `Sign` leaves it, with well-formed headers -/
structure SigWF (o : Oracle) (nb : Bool) (s : Sig) : Prop where
  prot : ∃ p, s.prot = some p ∧ p.nb64 = nb ∧ WF o jws.encRows jws.decSteps p ∧
    (∀ obj, (encodeWith jws.encRows p).run o = .ok obj → TextLaw o obj) ∧
    (protectedText jwsEncodeHeader p).run o = .ok s.rawProtected
  header : ∀ u, s.header = some u → WF o jws.encRows jws.decSteps u
  sig : B64Str o s.b64sig

/-- the signature as `Parse` returns it -/
def rtSig (o : Oracle) (s : Sig) : Sig :=
  { s with prot := s.prot.map (rtHdr o jws.encRows), header := s.header.map (rtHdr o jws.encRows) }

/-- the JSON value of the unprotected header member -/
theorem encOpt_rt (o : Oracle) (u : Option Header) (hu : ∀ h, u = some h → WF o jws.encRows jws.decSteps h) :
    ∃ hw, (encOptHeader jwsEncodeHeader u).run o = .ok hw ∧
      (match hw with
       | none => u = none
       | some w => ∃ h obj, u = some h ∧ w = .obj obj ∧ (jwsDecodeHeader obj).run o = .ok (rtHdr o jws.encRows h)) := by
  cases u with
  | none => exact ⟨none, by simp [encOptHeader], rfl⟩
  | some h =>
    obtain ⟨obj, ho, _, hd⟩ := rtHdr_spec o _ _ jws_fit' h (hu h rfl)
    refine ⟨some (.obj obj), ?_, h, obj, rfl, rfl, hd⟩
    simp only [encOptHeader, jwsEncodeHeader, PO.run_bind, ho, PO.run_pure]

theorem parseSig_rt (o : Oracle) (nb : Bool) (s : Sig) (wf : SigWF o nb s) (ob : List (String × Wire))
    (hw : Option Wire) (hhw : (encOptHeader jwsEncodeHeader s.header).run o = .ok hw)
    (lp : Wire.lookup "protected" ob = some (.str s.rawProtected))
    (lh : Wire.lookup "header" ob = hw)
    (ls : Wire.lookup "signature" ob = some (.str s.b64sig)) :
    (parseSig (.obj ob)).run o = .ok (rtSig o s, some nb) := by
  obtain ⟨p, hp, hnb, wfp, law, hraw⟩ := wf.prot
  obtain ⟨b, hb, hun⟩ := protText_rt o _ _ jws_fit' p wfp law _ hraw
  obtain ⟨bs, hbs⟩ := b64Str_run wf.sig
  obtain ⟨hw', hhw', hm⟩ := encOpt_rt o s.header wf.header
  rw [hhw] at hhw'; cases hhw'
  have hun' : (jwsUnmarshalHeader b).run o = .ok (rtHdr o jws.encRows p) := hun
  cases hw with
  | none =>
    simp only at hm
    simp only [parseSig, lp, lh, ls, PO.run_bind, hb, hun', PO.run_pure, hbs]
    simp [rtSig, hp, hm, rtHdr, fill_nb64, hnb]
    split <;> simp [hnb]
  | some w =>
    obtain ⟨h, obj, hu, hwo, hd⟩ := hm
    subst hwo
    simp only [parseSig, lp, lh, ls, PO.run_bind, hb, hun', PO.run_pure, hbs, hd]
    simp [rtSig, hp, hu, rtHdr, fill_nb64, hnb]
    split <;> simp [hnb]

theorem sigMembers_rt (o : Oracle) (nb : Bool) (s : Sig) (wf : SigWF o nb s) :
    ∃ ms hw, (sigMembers s).run o = .ok ms ∧ (encOptHeader jwsEncodeHeader s.header).run o = .ok hw ∧
      ms = [("protected", Wire.str s.rawProtected)] ++ optMember "header" hw ++ [("signature", .str s.b64sig)] := by
  obtain ⟨p, hp, _⟩ := wf.prot
  obtain ⟨hw, hhw, _⟩ := encOpt_rt o s.header wf.header
  refine ⟨_, hw, ?_, hhw, rfl⟩
  simp only [sigMembers, PO.run_bind, hhw, PO.run_pure, hp, Option.isSome_some, ↓reduceIte]

theorem parseSig_members (o : Oracle) (nb : Bool) (s : Sig) (wf : SigWF o nb s) :
    ∃ ms, (sigMembers s).run o = .ok ms ∧ (parseSig (.obj ms)).run o = .ok (rtSig o s, some nb) := by
  obtain ⟨ms, hw, hms, hhw, e⟩ := sigMembers_rt o nb s wf
  refine ⟨ms, hms, parseSig_rt o nb s wf ms hw hhw ?_ ?_ ?_⟩ <;> subst e <;> cases hw <;>
    simp [Wire.lookup, optMember]

theorem parseSigs_rt (o : Oracle) (nb : Bool) (sigs : List Sig) (hwf : ∀ s ∈ sigs, SigWF o nb s)
    (i : Nat) (cur : Bool) (hi : i = 0 ∨ cur = nb) :
    ∃ arr, (mapPO (fun s => do let ms ← sigMembers s; pure (Wire.obj ms)) sigs).run o = .ok arr ∧
      (parseSigs arr i cur).run o = .ok (sigs.map (rtSig o), if sigs.isEmpty then cur else nb) := by
  induction sigs generalizing i cur with
  | nil => exact ⟨[], by simp [mapPO], by simp [parseSigs]⟩
  | cons s rest ih =>
    obtain ⟨ms, hms, hps⟩ := parseSig_members o nb s (hwf s (List.mem_cons_self ..))
    obtain ⟨arr, harr, hrest⟩ := ih (fun s' h' => hwf s' (List.mem_cons_of_mem _ h')) (i + 1) nb (Or.inr rfl)
    refine ⟨.obj ms :: arr, by simp [mapPO, hms, harr], ?_⟩
    have hnb' : (match some nb with
        | none => (pure cur : PO Bool)
        | some b => if i = 0 then pure b else if cur != b then PO.fail "b64-mismatch" else pure cur).run o = .ok nb := by
      rcases hi with e | e
      · simp [e]
      · subst e; by_cases hi0 : i = 0 <;> simp [hi0]
    simp only [parseSigs, PO.run_bind, hps, hnb', hrest, PO.run_pure]
    cases rest <;> simp

/-- a message as a sequence of `Sign` calls leaves it -/
structure MsgWF (o : Oracle) (m : Msg) : Prop where
  sigs : ∀ s ∈ m.sigs, SigWF o m.nb64 s
  /-- a message without signature does not record b64=false anywhere -/
  nb64 : m.sigs = [] → m.nb64 = false

/-- MarshalJSON → Parse on the JSON value, flattened (one signature) and general syntax -/
theorem jwsParseObj_marshal (o : Oracle) (m : Msg) (wf : MsgWF o m) :
    ∃ kvs, (jwsMarshalJSON m).run o = .ok (.obj kvs) ∧
      (jwsParseObj kvs).run o = .ok { m with sigs := m.sigs.map (rtSig o) } := by
  obtain ⟨payload, nb, sigs⟩ := m
  have hs : ∀ s ∈ sigs, SigWF o nb s := wf.sigs
  have general : ∀ l : List Sig, l = sigs → (l = [] → nb = false) →
      ∃ kvs, (do let arr ← mapPO (fun s => do let ms ← sigMembers s; pure (Wire.obj ms)) l
                 pure (Wire.obj [("payload", .str payload), ("signatures", .arr arr)]) : PO Wire).run o = .ok (.obj kvs) ∧
        (jwsParseObj kvs).run o = .ok { payload := payload, nb64 := nb, sigs := l.map (rtSig o) } := by
    intro l hl hnil
    subst hl
    obtain ⟨arr, harr, hp⟩ := parseSigs_rt o nb l hs 0 false (Or.inl rfl)
    refine ⟨[("payload", .str payload), ("signatures", .arr arr)], by simp only [PO.run_bind, harr, PO.run_pure], ?_⟩
    have g0 : Wire.lookup "payload" [("payload", Wire.str payload), ("signatures", Wire.arr arr)] = some (.str payload) := by
      simp [Wire.lookup]
    have g1 : Wire.lookup "signatures" [("payload", Wire.str payload), ("signatures", Wire.arr arr)] = some (.arr arr) := by
      simp [Wire.lookup]
    have g2 : Wire.lookup "signature" [("payload", Wire.str payload), ("signatures", Wire.arr arr)] = none := by
      simp [Wire.lookup]
    simp only [jwsParseObj, g0, g1, g2, PO.run_bind, PO.run_pure]
    rw [hp]
    cases l with
    | nil => simp [hnil rfl]
    | cons a t => simp
  cases sigs with
  | nil => exact general [] rfl wf.nb64
  | cons s rest =>
    cases rest with
    | cons s2 rest2 => exact general (s :: s2 :: rest2) rfl (fun h => by cases h)
    | nil =>
      -- flattened syntax
      have wfs := hs s (List.mem_cons_self ..)
      obtain ⟨ms, hw, hms, hhw, e⟩ := sigMembers_rt o nb s wfs
      refine ⟨("payload", .str payload) :: ms, by simp only [jwsMarshalJSON, PO.run_bind, hms, PO.run_pure], ?_⟩
      have hps : (parseSig (.obj ([("signature", Wire.str s.b64sig)] ++ optMember "protected" (some (Wire.str s.rawProtected))
          ++ optMember "header" hw))).run o = .ok (rtSig o s, some nb) := by
        refine parseSig_rt o nb s wfs _ hw hhw ?_ ?_ ?_ <;> cases hw <;> simp [Wire.lookup, optMember]
      have l1 : Wire.lookup "signatures" (("payload", Wire.str payload) :: ms) = none := by
        subst e; cases hw <;> simp [Wire.lookup, optMember]
      have l2 : Wire.lookup "signature" (("payload", Wire.str payload) :: ms) = some (.str s.b64sig) := by
        subst e; cases hw <;> simp [Wire.lookup, optMember]
      have l3 : Wire.lookup "protected" (("payload", Wire.str payload) :: ms) = some (.str s.rawProtected) := by
        subst e; cases hw <;> simp [Wire.lookup, optMember]
      have l4 : Wire.lookup "header" (("payload", Wire.str payload) :: ms) = hw := by
        subst e; cases hw <;> simp [Wire.lookup, optMember]
      have l0 : Wire.lookup "payload" (("payload", Wire.str payload) :: ms) = some (.str payload) := by
        simp [Wire.lookup]
      simp only [jwsParseObj, l0, l1, l2, l3, l4, PO.run_bind, PO.run_pure, parseSigs, hps]
      simp

end C11
