import Goat.Model.JWK
import Goat.Spec.IANA
/-
Helper lemmas of C08/C09: Go-map updates, big-endian octet strings, `run` of the oracle wrappers.
-/
namespace C08
open Model.JWK

/-! ## association lists -/

theorem lookup_oset (m : Obj) (a b : String) (v : Wire) :
    Wire.lookup a (oset m b v) = if a = b then some v else Wire.lookup a m := by
  induction m with
  | nil => simp [oset, Wire.lookup]
  | cons hd t ih =>
    obtain ⟨k', v'⟩ := hd
    simp only [oset]
    by_cases h : k' = b
    · subst h; simp [Wire.lookup]
      by_cases h2 : a = k' <;> simp [h2]
    · simp [h, Wire.lookup]
      by_cases h2 : a = k'
      · subst h2; simp [h]
      · simp [h2, ih]

theorem lookup_oset_self (m : Obj) (a : String) (v : Wire) :
    Wire.lookup a (oset m a v) = some v := by simp [lookup_oset]

theorem lookup_oset_ne (m : Obj) (a b : String) (v : Wire) (h : a ≠ b) :
    Wire.lookup a (oset m b v) = Wire.lookup a m := by simp [lookup_oset, h]

/-! ## octet strings -/

theorem u8_ofNat_mod (v : Nat) : (UInt8.ofNat (v % 256)).toNat = v % 256 := by
  simp [UInt8.toNat_ofNat']

theorem decodeLE_encodeLE (n v : Nat) : Bytes.decodeLE (Bytes.encodeLE n v) = v % 256 ^ n := by
  induction n generalizing v with
  | zero => simp [Bytes.encodeLE, Bytes.decodeLE, Nat.mod_one]
  | succ n ih =>
    simp only [Bytes.encodeLE, Bytes.decodeLE, ih, u8_ofNat_mod]
    rw [Nat.pow_succ, Nat.mul_comm (256 ^ n) 256, Nat.mod_mul]

theorem foldl_be (l : Bytes) (acc : Nat) :
    l.foldl (fun acc x => acc * 256 + x.toNat) acc = acc * 256 ^ l.length + l.foldl (fun acc x => acc * 256 + x.toNat) 0 := by
  induction l generalizing acc with
  | nil => simp
  | cons b t ih =>
    simp only [List.foldl_cons, List.length_cons]
    rw [ih (acc * 256 + b.toNat), ih (0 * 256 + b.toNat)]
    simp [Nat.pow_succ, Nat.add_mul, Nat.mul_assoc, Nat.add_assoc, Nat.mul_comm 256]

theorem decodeBE_cons (b : UInt8) (t : Bytes) :
    Bytes.decodeBE (b :: t) = b.toNat * 256 ^ t.length + Bytes.decodeBE t := by
  unfold Bytes.decodeBE
  simp only [List.foldl_cons]
  rw [foldl_be]; simp

theorem decodeBE_append_single (l : Bytes) (b : UInt8) :
    Bytes.decodeBE (l ++ [b]) = Bytes.decodeBE l * 256 + b.toNat := by
  unfold Bytes.decodeBE; simp [List.foldl_append]

theorem decodeBE_reverse (l : Bytes) : Bytes.decodeBE l.reverse = Bytes.decodeLE l := by
  induction l with
  | nil => rfl
  | cons b t ih =>
    simp only [List.reverse_cons, decodeBE_append_single, ih, Bytes.decodeLE]
    omega

theorem decodeBE_encodeBE (n v : Nat) (h : v < 256 ^ n) : Bytes.decodeBE (Bytes.encodeBE n v) = v := by
  unfold Bytes.encodeBE
  rw [decodeBE_reverse, decodeLE_encodeLE, Nat.mod_eq_of_lt h]

theorem encodeLE_length (n v : Nat) : (Bytes.encodeLE n v).length = n := by
  induction n generalizing v with
  | zero => rfl
  | succ n ih => simp [Bytes.encodeLE, ih]

theorem encodeBE_length (n v : Nat) : (Bytes.encodeBE n v).length = n := by
  simp [Bytes.encodeBE, encodeLE_length]

theorem encodeLE_succ' (n v : Nat) :
    Bytes.encodeLE (n + 1) v = Bytes.encodeLE n v ++ [UInt8.ofNat (v / 256 ^ n % 256)] := by
  induction n generalizing v with
  | zero => simp [Bytes.encodeLE]
  | succ n ih =>
    rw [Bytes.encodeLE, ih (v / 256)]
    simp only [Bytes.encodeLE, List.cons_append]
    rw [Nat.div_div_eq_div_mul, Nat.pow_succ, Nat.mul_comm 256]

theorem encodeBE_succ (n v : Nat) :
    Bytes.encodeBE (n + 1) v = UInt8.ofNat (v / 256 ^ n % 256) :: Bytes.encodeBE n v := by
  simp [Bytes.encodeBE, encodeLE_succ']

theorem i2osp_eq (n v : Nat) : Spec.IANA.i2osp n v = Bytes.encodeBE n v := by
  induction n with
  | zero => rfl
  | succ n ih => rw [Spec.IANA.i2osp, encodeBE_succ, ih]

theorem os2ip_eq (b : Bytes) : Spec.IANA.os2ip b = Bytes.decodeBE b := by
  induction b with
  | nil => rfl
  | cons x t ih => rw [Spec.IANA.os2ip, decodeBE_cons, ih]

theorem octLenAux_eq (f v a : Nat) : Spec.IANA.octLenAux f v a = byteLenAux f v a := by
  induction f generalizing v a with
  | zero => rfl
  | succ f ih => simp [Spec.IANA.octLenAux, byteLenAux, ih]

theorem minOctets_eq (v : Nat) : Spec.IANA.minOctets v = minBE v := by
  simp [Spec.IANA.minOctets, minBE, Spec.IANA.octLen, byteLen, octLenAux_eq, i2osp_eq]

/-- the digit count really is the length of the minimal representation -/
theorem byteLenAux_spec (f v a : Nat) (h : v ≤ f) :
    ∃ L, byteLenAux f v a = a + L ∧ v < 256 ^ L ∧ (v ≠ 0 → 256 ^ (L - 1) ≤ v ∧ 0 < L) := by
  induction f generalizing v a with
  | zero =>
    have : v = 0 := by omega
    subst this; exact ⟨0, by simp [byteLenAux], by simp, by simp⟩
  | succ f ih =>
    by_cases hv : v = 0
    · subst hv; exact ⟨0, by simp [byteLenAux], by simp, by simp⟩
    · have hle : v / 256 ≤ f := by
        have : v / 256 < v := Nat.div_lt_self (by omega) (by omega)
        omega
      obtain ⟨L, h1, h2, h3⟩ := ih (v / 256) (a + 1) hle
      refine ⟨L + 1, ?_, ?_, ?_⟩
      · simp [byteLenAux, hv, h1]; omega
      · rw [Nat.pow_succ]
        have := Nat.lt_mul_div_succ v (show 0 < 256 by omega)
        have : (v / 256 + 1) ≤ 256 ^ L := h2
        calc v < 256 * (v / 256 + 1) := by omega
          _ ≤ 256 * 256 ^ L := Nat.mul_le_mul_left _ this
          _ = 256 ^ L * 256 := Nat.mul_comm _ _
      · intro _
        refine ⟨?_, by omega⟩
        by_cases h0 : v / 256 = 0
        · have hL : L = 0 := by
            cases f with
            | zero => simp [byteLenAux] at h1; omega
            | succ f => simp [byteLenAux, h0] at h1; omega
          subst hL; simp; omega
        · obtain ⟨h4, h5⟩ := h3 h0
          have : 256 ^ (L - 1) * 256 ≤ v / 256 * 256 := Nat.mul_le_mul_right _ h4
          have e : 256 ^ (L - 1) * 256 = 256 ^ L := by
            rw [← Nat.pow_succ]; congr 1; omega
          simp only [Nat.add_sub_cancel]
          have := Nat.div_mul_le_self v 256
          omega

theorem lt_pow_byteLen (v : Nat) : v < 256 ^ byteLen v := by
  obtain ⟨L, h1, h2, _⟩ := byteLenAux_spec v v 0 (Nat.le_refl _)
  simp [byteLen, h1, h2]

theorem decodeBE_minBE (v : Nat) : Bytes.decodeBE (minBE v) = v :=
  decodeBE_encodeBE _ _ (lt_pow_byteLen v)

/-- minimal: no leading zero octet -/
theorem minBE_head (v : Nat) : (minBE v).head? ≠ some 0 := by
  obtain ⟨L, h1, h2, h3⟩ := byteLenAux_spec v v 0 (Nat.le_refl _)
  have hL : byteLen v = L := by simp [byteLen, h1]
  unfold minBE; rw [hL]
  by_cases hv : v = 0
  · subst hv
    have : L = 0 := by
      cases L with
      | zero => rfl
      | succ L => simp [byteLen, byteLenAux] at hL
    subst this; simp [Bytes.encodeBE, Bytes.encodeLE]
  · obtain ⟨h4, h5⟩ := h3 hv
    obtain ⟨n, rfl⟩ : ∃ n, L = n + 1 := ⟨L - 1, by omega⟩
    rw [encodeBE_succ]; simp only [List.head?_cons, ne_eq, Option.some.injEq, Nat.add_sub_cancel] at *
    have hq : 1 ≤ v / 256 ^ n := (Nat.le_div_iff_mul_le (Nat.pow_pos (by omega))).2 (by simpa using h4)
    have hq2 : v / 256 ^ n < 256 := by
      rw [Nat.div_lt_iff_lt_mul (Nat.pow_pos (by omega))]
      rw [Nat.pow_succ] at h2; rw [Nat.mul_comm]; exact h2
    intro hc
    have := congrArg UInt8.toNat hc
    rw [Nat.mod_eq_of_lt hq2] at this
    simp [UInt8.toNat_ofNat'] at this
    omega

theorem minOctets_minimal (v : Nat) : Spec.IANA.IsMinimalOctets (Spec.IANA.minOctets v) v := by
  rw [minOctets_eq]; exact ⟨by rw [os2ip_eq, decodeBE_minBE], minBE_head v⟩

theorem i2osp_fixed (n v : Nat) (h : v < 256 ^ n) : Spec.IANA.IsFixedOctets n (Spec.IANA.i2osp n v) v := by
  rw [i2osp_eq]; exact ⟨encodeBE_length n v, by rw [os2ip_eq, decodeBE_encodeBE n v h]⟩

end C08
