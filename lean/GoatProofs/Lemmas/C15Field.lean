import GoatProofs.C18
import Mathlib.Data.ZMod.Basic
import Mathlib.FieldTheory.Finite.Basic
import Mathlib.Tactic.FieldSimp
import Mathlib.Tactic.LinearCombination
/-
C15 — the field layer seen through `ZMod p`: `fv v` is the residue class of a limb vector; the C18
theorems make every field operation of the model a homomorphism for fully reduced operands.
Primality of p is an explicit hypothesis (`[Fact (Nat.Prime pNat)]`).
-/
namespace C15
open Model.Fe256 C18
set_option maxRecDepth 100000
set_option exponentiation.threshold 2000

abbrev F := ZMod pNat

/-- residue class of a limb vector -/
def fv (v : Limbs) : F := ((val v : Int) : F)

theorem cast_emod (x : Int) : (((x % P : Int)) : F) = (x : F) := by
  rw [P_eq_pNat]; exact ZMod.intCast_mod x pNat

theorem fv_add {a b : Limbs} (ha : Red a) (hb : Red b) : Red (add a b) ∧ fv (add a b) = fv a + fv b := by
  obtain ⟨r, e⟩ := add_spec a b ha hb
  exact ⟨r, by unfold fv; rw [e, cast_emod]; push_cast; rfl⟩
theorem fv_sub {a b : Limbs} (ha : Red a) (hb : Red b) : Red (sub a b) ∧ fv (sub a b) = fv a - fv b := by
  obtain ⟨r, e⟩ := sub_spec a b ha hb
  exact ⟨r, by unfold fv; rw [e, cast_emod]; push_cast; rfl⟩
theorem fv_mul {a b : Limbs} (ha : Red a) (hb : Red b) : Red (mul a b) ∧ fv (mul a b) = fv a * fv b := by
  obtain ⟨r, e⟩ := mul_spec a b ha hb
  exact ⟨r, by unfold fv; rw [e, cast_emod]; push_cast; rfl⟩
theorem fv_square {a : Limbs} (ha : Red a) : Red (square a) ∧ fv (square a) = fv a * fv a := by
  obtain ⟨r, e⟩ := square_spec a ha
  exact ⟨r, by unfold fv; rw [e, cast_emod]; push_cast; rfl⟩
theorem fv_neg {a : Limbs} (ha : Red a) : Red (neg a) ∧ fv (neg a) = - fv a := by
  obtain ⟨r, e⟩ := neg_spec a ha
  exact ⟨r, by unfold fv; rw [e, cast_emod]; push_cast; rfl⟩

theorem red_zero : Red zero := zero_rep.1
theorem red_one : Red one := one_rep.1
theorem fv_zero : fv zero = 0 := by unfold fv; rw [show val zero = 0 from by decide]; simp
theorem fv_one : fv one = 1 := by unfold fv; rw [show val one = 1 from by decide]; simp
theorem red_seven : Red [7, 0, 0, 0] :=
  ⟨lim_mk 7 0 0 0 (by decide) (by decide) (by decide) (by decide), by decide⟩
theorem fv_seven : fv [7, 0, 0, 0] = 7 := by
  unfold fv; rw [show val [7, 0, 0, 0] = 7 from by decide]; simp

theorem fv_eq_zero_iff {v : Limbs} (h : Red v) : fv v = 0 ↔ val v = 0 := by
  unfold fv
  rw [ZMod.intCast_zmod_eq_zero_iff_dvd]
  have h0 := (val_bounds h.1).1
  have h1 := h.2
  rw [P_eq_pNat] at h1
  constructor
  · intro hd
    by_contra hne
    have : (pNat : Int) ≤ val v := Int.le_of_dvd (by omega) hd
    omega
  · intro e; rw [e]; exact dvd_zero _

theorem fv_inj {a b : Limbs} (ha : Red a) (hb : Red b) (h : fv a = fv b) : a = b := by
  apply val_inj ha.1 hb.1
  unfold fv at h
  have := (ZMod.intCast_eq_intCast_iff_dvd_sub _ _ _).mp h
  have a0 := (val_bounds ha.1).1; have b0 := (val_bounds hb.1).1
  have a1 := ha.2; have b1 := hb.2
  rw [P_eq_pNat] at a1 b1
  by_contra hne
  rcases lt_or_gt_of_ne hne with hl | hl
  · have : (pNat : Int) ≤ val b - val a := Int.le_of_dvd (by omega) this
    omega
  · have h2 : (pNat : Int) ∣ val a - val b := by
      have := Int.dvd_neg.mpr this; simpa using this
    have : (pNat : Int) ≤ val a - val b := Int.le_of_dvd (by omega) h2
    omega

theorem isZero_fv {v : Limbs} (h : Red v) : isZero v = if fv v = 0 then 1 else 0 := by
  rw [isZero_spec v h.1]
  exact if_congr (fv_eq_zero_iff h).symm rfl rfl

theorem equal_fv {a b : Limbs} (ha : Red a) (hb : Red b) : equal a b = if fv a = fv b then 1 else 0 := by
  rw [equal_spec a b ha.1 hb.1]
  apply if_congr _ rfl rfl
  exact ⟨fun e => by rw [e], fv_inj ha hb⟩

theorem select_fv {a b : Limbs} (ha : Red a) (hb : Red b) (c : Prop) [Decidable c] :
    select a b (if c then 1 else 0) = if c then a else b := by
  obtain ⟨s1, s0⟩ := select_spec a b ha.1 hb.1
  split <;> assumption

section prime
variable [Fact (Nat.Prime pNat)]

theorem fv_inv {z : Limbs} (hz : Red z) : Red (inv z) ∧ fv (inv z) = (fv z)⁻¹ := by
  have h := inv_rep (rep_self hz)
  refine ⟨h.1, ?_⟩
  unfold fv
  rw [h.2, cast_emod]
  push_cast
  by_cases h0 : ((val z : Int) : F) = 0
  · rw [h0, inv_zero, zero_pow]
    have : 3 ≤ pNat := by unfold pNat; norm_num
    omega
  · have hf : ((val z : Int) : F) ^ (pNat - 1) = 1 := ZMod.pow_card_sub_one_eq_one h0
    have e : ((val z : Int) : F) ^ (pNat - 2) * ((val z : Int) : F) = 1 := by
      rw [← pow_succ]
      have h2 : pNat - 2 + 1 = pNat - 1 := by
        have : 2 ≤ pNat := by unfold pNat; norm_num
        omega
      rw [h2]; exact hf
    exact eq_inv_of_mul_eq_one_left e

end prime
end C15
