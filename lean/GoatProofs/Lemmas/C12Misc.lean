import GoatProofs.Lemmas.C12Buf
/-
C12: small facts about Go buffer idioms used by the GCM / PBES2 / CBC models.
-/
namespace C12L
open Spec Model.GoBuf

theorem slice_zero (b : Bytes) (n : Nat) : slice b 0 n = b.take n := by simp [slice]
theorem slice_to_end (b : Bytes) (n : Nat) : slice b n b.length = b.drop n := by simp [slice]

/-- `buf := make([]byte, len(x)+len(y)); copy(buf, x); copy(buf[len(x):], y)` is `x ‖ y` -/
theorem concat_buf (x y : Bytes) :
    goCopy (goCopy (List.replicate (x.length + y.length) 0) 0
        (List.replicate (x.length + y.length) (0 : UInt8)).length x) x.length
      (goCopy (List.replicate (x.length + y.length) 0) 0
        (List.replicate (x.length + y.length) (0 : UInt8)).length x).length y = x ++ y := by
  have h1 : goCopy (List.replicate (x.length + y.length) 0) 0
      (List.replicate (x.length + y.length) (0 : UInt8)).length x = x ++ List.replicate y.length 0 := by
    simp only [goCopy, List.length_replicate, Nat.sub_zero, List.take_zero, List.nil_append, Nat.zero_add]
    have : min (x.length + y.length) x.length = x.length := by omega
    rw [this, List.take_length, List.drop_replicate]
    simp
  rw [h1]
  simp only [goCopy, List.length_append, List.length_replicate]
  have : min (x.length + y.length - x.length) y.length = y.length := by omega
  rw [this, List.take_left' rfl, List.take_length, List.drop_of_length_le (by simp)]
  simp

end C12L

namespace C12L
open Spec Model.GoBuf
theorem concat_buf' (x y : Bytes) (m : Nat) (hm : m = x.length + y.length) :
    goCopy (goCopy (List.replicate m 0) 0 (List.replicate m (0 : UInt8)).length x) x.length
      (goCopy (List.replicate m 0) 0 (List.replicate m (0 : UInt8)).length x).length y = x ++ y := by
  subst hm; exact concat_buf x y
end C12L
