import Goat.Model.JWE
/-
Helper lemmas for C05: association lists, the pure form of encodeHeader, and the header codec round
trip `decodeHeader (encodeHeader h) = h` for the parameters the JWE model covers.
-/
namespace GoatProofs.C05
open Model.JWE

theorem lookup_setKey_same (k : String) (v : Wire) (m : KVs) :
    Wire.lookup k (setKey k v m) = some v := by
  induction m with
  | nil => simp [setKey, Wire.lookup]
  | cons kv rest ih =>
    obtain ⟨k', v'⟩ := kv
    unfold setKey
    by_cases h1 : (k == k') = true
    · simp [h1, Wire.lookup]
    · simp only [h1, Bool.false_eq_true, if_false]
      by_cases h2 : k < k'
      · simp [h2, Wire.lookup]
      · simp only [h2, if_false, Wire.lookup, h1, Bool.false_eq_true]
        exact ih

theorem lookup_setKey_other (k k' : String) (v : Wire) (m : KVs) (hne : k ≠ k') :
    Wire.lookup k (setKey k' v m) = Wire.lookup k m := by
  have hne' : (k == k') = false := by simpa using hne
  induction m with
  | nil => simp [setKey, Wire.lookup, hne']
  | cons kv rest ih =>
    obtain ⟨k2, v2⟩ := kv
    unfold setKey
    by_cases h1 : (k' == k2) = true
    · have : k' = k2 := by simpa using h1
      subst this
      simp [h1, Wire.lookup, hne']
    · simp only [h1, Bool.false_eq_true, if_false]
      by_cases h2 : k' < k2
      · simp [h2, Wire.lookup, hne']
      · simp only [h2, if_false, Wire.lookup]
        rw [ih]

/-- `m[k] = v` if `v` is present -/
def setOpt (k : String) (v : Option Wire) (m : KVs) : KVs :=
  match v with
  | none => m
  | some w => setKey k w m

theorem lookup_setOpt_same (k : String) (v : Option Wire) (m : KVs) :
    Wire.lookup k (setOpt k v m) = (match v with | some w => some w | none => Wire.lookup k m) := by
  cases v <;> simp [setOpt, lookup_setKey_same]

theorem lookup_setOpt_other (k k' : String) (v : Option Wire) (m : KVs) (hne : k ≠ k') :
    Wire.lookup k (setOpt k' v m) = Wire.lookup k m := by
  cases v <;> simp [setOpt, lookup_setKey_other _ _ _ _ hne]

end GoatProofs.C05

namespace GoatProofs.C05
open Model.JWE Gen.Consts

def strOpt (v : String) : Option Wire := if v != "" then some (.str v) else none
def bytesOpt (o : Oracle) (v : Option Bytes) : Option Wire :=
  match v with
  | none => none
  | some b => some (o ⟨"b64url.encStr", [.bytes b]⟩)
def critOpt (c : List String) : Option Wire := if c.length > 0 then some (.arr (c.map .str)) else none
def epkOpt (o : Oracle) (v : Option Wire) : Option Wire :=
  match v with
  | none => none
  | some k => some (o ⟨"jwk.marshal", [k]⟩)
def p2cOpt (o : Oracle) (n : Int) : Option Wire :=
  if n != 0 then some (.num (o ⟨"strconv.itoa", [.int n]⟩).asStr) else none

/-- encodeHeader as a pure function of the oracle -/
def encPure (o : Oracle) (h : Header) : KVs :=
  setOpt jwa.PBES2CountKey (p2cOpt o h.p2c) <|
  setOpt jwa.PBES2SaltInputKey (bytesOpt o h.p2s) <|
  setOpt jwa.AuthenticationTagKey (bytesOpt o h.tag) <|
  setOpt jwa.InitializationVectorKey (bytesOpt o h.iv) <|
  setOpt jwa.AgreementPartyVInfoKey (bytesOpt o h.apv) <|
  setOpt jwa.AgreementPartyUInfoKey (bytesOpt o h.apu) <|
  setOpt jwa.EphemeralPublicKeyKey (epkOpt o h.epk) <|
  setOpt jwa.CriticalKey (critOpt h.crit) <|
  setOpt jwa.ContentTypeKey (strOpt h.cty) <|
  setOpt jwa.TypeKey (strOpt h.typ) <|
  setOpt jwa.KeyIDKey (strOpt h.kid) <|
  setOpt jwa.CompressionAlgorithmKey (strOpt h.zip) <|
  setOpt jwa.EncryptionAlgorithmKey (strOpt h.enc) <|
  setOpt jwa.AlgorithmKey (strOpt h.alg) h.raw

theorem setStrIf_eq (k v : String) (m : KVs) : setStrIf k v m = setOpt k (strOpt v) m := by
  unfold setStrIf strOpt setOpt; split <;> simp_all

theorem run_setBytesIf (o : Oracle) (k : String) (v : Option Bytes) (m : KVs) :
    (setBytesIf k v m).run o = .ok (setOpt k (bytesOpt o v) m) := by
  cases v <;> simp [setBytesIf, bytesOpt, setOpt, b64EncodeStr]

theorem encodeHeader_run (o : Oracle) (h : Header) :
    (encodeHeader h).run o = .ok (encPure o h) := by
  unfold encodeHeader encPure
  simp only [setStrIf_eq, PO.run_bind, run_setBytesIf]
  have hc : (if h.crit.length > 0 then setKey jwa.CriticalKey (.arr (h.crit.map .str))
      (setOpt jwa.ContentTypeKey (strOpt h.cty) (setOpt jwa.TypeKey (strOpt h.typ) (setOpt jwa.KeyIDKey (strOpt h.kid)
      (setOpt jwa.CompressionAlgorithmKey (strOpt h.zip) (setOpt jwa.EncryptionAlgorithmKey (strOpt h.enc)
      (setOpt jwa.AlgorithmKey (strOpt h.alg) h.raw))))))
      else (setOpt jwa.ContentTypeKey (strOpt h.cty) (setOpt jwa.TypeKey (strOpt h.typ) (setOpt jwa.KeyIDKey (strOpt h.kid)
      (setOpt jwa.CompressionAlgorithmKey (strOpt h.zip) (setOpt jwa.EncryptionAlgorithmKey (strOpt h.enc)
      (setOpt jwa.AlgorithmKey (strOpt h.alg) h.raw))))))) =
      setOpt jwa.CriticalKey (critOpt h.crit) (setOpt jwa.ContentTypeKey (strOpt h.cty) (setOpt jwa.TypeKey (strOpt h.typ) (setOpt jwa.KeyIDKey (strOpt h.kid)
      (setOpt jwa.CompressionAlgorithmKey (strOpt h.zip) (setOpt jwa.EncryptionAlgorithmKey (strOpt h.enc)
      (setOpt jwa.AlgorithmKey (strOpt h.alg) h.raw)))))) := by
    unfold critOpt setOpt; split <;> simp_all
  rw [hc]
  have hn : ∀ k m, setOpt k none m = m := fun _ _ => rfl
  have hs : ∀ k w m, setOpt k (some w) m = setKey k w m := fun _ _ _ => rfl
  cases hepk : h.epk <;> by_cases hp : h.p2c = 0 <;>
    simp [epkOpt, p2cOpt, hp, hn, hs, run_setBytesIf]

end GoatProofs.C05

namespace GoatProofs.C05
open Model.JWE Gen.Consts

theorem or_none {α} (x : Option α) :
    (match x with | some w => some w | none => (none : Option α)) = x := by cases x <;> rfl

macro "lk_tac" hraw:ident : tactic => `(tactic|
  (unfold encPure
   simp (disch := decide) only [lookup_setOpt_other, lookup_setOpt_same, $hraw:ident, Wire.lookup]
   try (split <;> simp_all)))

section
variable (o : Oracle) (h : Header) (hraw : h.raw = [])
include hraw
theorem lk_alg : Wire.lookup jwa.AlgorithmKey (encPure o h) = strOpt h.alg := by lk_tac hraw
theorem lk_enc : Wire.lookup jwa.EncryptionAlgorithmKey (encPure o h) = strOpt h.enc := by lk_tac hraw
theorem lk_zip : Wire.lookup jwa.CompressionAlgorithmKey (encPure o h) = strOpt h.zip := by lk_tac hraw
theorem lk_kid : Wire.lookup jwa.KeyIDKey (encPure o h) = strOpt h.kid := by lk_tac hraw
theorem lk_typ : Wire.lookup jwa.TypeKey (encPure o h) = strOpt h.typ := by lk_tac hraw
theorem lk_cty : Wire.lookup jwa.ContentTypeKey (encPure o h) = strOpt h.cty := by lk_tac hraw
theorem lk_crit : Wire.lookup jwa.CriticalKey (encPure o h) = critOpt h.crit := by lk_tac hraw
theorem lk_epk : Wire.lookup jwa.EphemeralPublicKeyKey (encPure o h) = epkOpt o h.epk := by lk_tac hraw
theorem lk_apu : Wire.lookup jwa.AgreementPartyUInfoKey (encPure o h) = bytesOpt o h.apu := by lk_tac hraw
theorem lk_apv : Wire.lookup jwa.AgreementPartyVInfoKey (encPure o h) = bytesOpt o h.apv := by lk_tac hraw
theorem lk_iv : Wire.lookup jwa.InitializationVectorKey (encPure o h) = bytesOpt o h.iv := by lk_tac hraw
theorem lk_tag : Wire.lookup jwa.AuthenticationTagKey (encPure o h) = bytesOpt o h.tag := by lk_tac hraw
theorem lk_p2s : Wire.lookup jwa.PBES2SaltInputKey (encPure o h) = bytesOpt o h.p2s := by lk_tac hraw
theorem lk_p2c : Wire.lookup jwa.PBES2CountKey (encPure o h) = p2cOpt o h.p2c := by lk_tac hraw
end

/-- laws of the standard-library oracles used by the header codec -/
structure CodecLaws (o : Oracle) : Prop where
  /-- base64url text round trip (`Encoder.Encode` / `Decoder.decode`) -/
  b64s : ∀ b, ∃ s, o ⟨"b64url.encStr", [.bytes b]⟩ = .str s ∧ o ⟨"b64url.decStr", [.str s]⟩ = .bytes b
  /-- encoding/json writes an int as the decimal text that json.Number.Int64 reads back -/
  itoa : ∀ n : Int, 0 ≤ n →
    o ⟨"strconv.parseInt64", [.str (o ⟨"strconv.itoa", [.int n]⟩).asStr]⟩ = .int n
  /-- a JWK written by jwk.Key.MarshalJSON is read back by jwk.ParseMap as the same key -/
  epk : ∀ k : Wire, k.isNone = false →
    ∃ kvs, o ⟨"jwk.marshal", [k]⟩ = .obj kvs ∧ o ⟨"jwk.parsePublicMap", [.obj kvs]⟩ = k

theorem allStrings_map (l : List String) : allStrings (l.map Wire.str) = some l := by
  induction l with
  | nil => rfl
  | cons a t ih => simp [allStrings, ih]

theorem run_getString_str (o : Oracle) (raw : KVs) (k v : String)
    (h : Wire.lookup k raw = strOpt v) :
    (getString raw k).run o = .ok (if v != "" then some v else none) := by
  unfold getString
  rw [h]
  unfold strOpt
  by_cases hv : v = "" <;> simp [hv]

theorem run_getBytes (o : Oracle) (L : CodecLaws o) (raw : KVs) (k : String) (v : Option Bytes)
    (h : Wire.lookup k raw = bytesOpt o v) :
    (getBytes raw k).run o = .ok v := by
  unfold getBytes getString
  cases v with
  | none => simp [bytesOpt] at h; simp [h]
  | some b =>
    obtain ⟨s, hs1, hs2⟩ := L.b64s b
    simp [bytesOpt, hs1] at h
    simp [h, hs2]

/-- `raw` is a JSON object carrying exactly the parameters of `h` (as far as the model covers them) -/
structure Encodes (o : Oracle) (h : Header) (raw : KVs) : Prop where
  alg : Wire.lookup jwa.AlgorithmKey raw = strOpt h.alg
  enc : Wire.lookup jwa.EncryptionAlgorithmKey raw = strOpt h.enc
  zip : Wire.lookup jwa.CompressionAlgorithmKey raw = strOpt h.zip
  kid : Wire.lookup jwa.KeyIDKey raw = strOpt h.kid
  typ : Wire.lookup jwa.TypeKey raw = strOpt h.typ
  cty : Wire.lookup jwa.ContentTypeKey raw = strOpt h.cty
  crit : Wire.lookup jwa.CriticalKey raw = critOpt h.crit
  epk : Wire.lookup jwa.EphemeralPublicKeyKey raw = epkOpt o h.epk
  apu : Wire.lookup jwa.AgreementPartyUInfoKey raw = bytesOpt o h.apu
  apv : Wire.lookup jwa.AgreementPartyVInfoKey raw = bytesOpt o h.apv
  iv : Wire.lookup jwa.InitializationVectorKey raw = bytesOpt o h.iv
  tag : Wire.lookup jwa.AuthenticationTagKey raw = bytesOpt o h.tag
  p2s : Wire.lookup jwa.PBES2SaltInputKey raw = bytesOpt o h.p2s
  p2c : Wire.lookup jwa.PBES2CountKey raw = p2cOpt o h.p2c

theorem encodes_encPure (o : Oracle) (h : Header) (hraw : h.raw = []) : Encodes o h (encPure o h) :=
  ⟨lk_alg o h hraw, lk_enc o h hraw, lk_zip o h hraw, lk_kid o h hraw, lk_typ o h hraw, lk_cty o h hraw,
   lk_crit o h hraw, lk_epk o h hraw, lk_apu o h hraw, lk_apv o h hraw, lk_iv o h hraw, lk_tag o h hraw,
   lk_p2s o h hraw, lk_p2c o h hraw⟩

/-- The header codec round trip: an object that carries the parameters of `h` decodes to `h`. -/
theorem decode_of_encodes (o : Oracle) (L : CodecLaws o) (h : Header) (raw : KVs) (E : Encodes o h raw)
    (hcrit : h.crit.all knownParams.contains = true) (hp2c : 0 ≤ h.p2c)
    (hepk : ∀ k, h.epk = some k → k.isNone = false) :
    (decodeHeader raw).run o = .ok { h with raw := raw } := by
  unfold decodeHeader
  simp only [PO.run_bind, run_getString_str o _ _ _ E.alg, run_getString_str o _ _ _ E.enc,
    run_getString_str o _ _ _ E.zip, run_getString_str o _ _ _ E.kid,
    run_getString_str o _ _ _ E.typ, run_getString_str o _ _ _ E.cty,
    run_getBytes o L _ _ _ E.apu, run_getBytes o L _ _ _ E.apv,
    run_getBytes o L _ _ _ E.iv, run_getBytes o L _ _ _ E.tag,
    run_getBytes o L _ _ _ E.p2s]
  have hcritrun : (getStringArray raw jwa.CriticalKey).run o = .ok h.crit := by
    unfold getStringArray
    rw [E.crit]
    unfold critOpt
    cases hc : h.crit with
    | nil => simp
    | cons a t =>
      have := allStrings_map (a :: t)
      simp only [List.map] at this
      simp [this]
  have hepkrun : (getEpk raw).run o = .ok h.epk := by
    unfold getEpk
    rw [E.epk]
    cases he : h.epk with
    | none => simp [epkOpt]
    | some k =>
      obtain ⟨kvs, h1, h2⟩ := L.epk k (hepk k he)
      simp only [epkOpt, h1, PO.run_bind, PO.run_query, h2]
      have := hepk k he
      cases k <;> simp_all [Wire.isNone]
  have hp2crun : (getP2c raw).run o = .ok h.p2c := by
    unfold getP2c
    rw [E.p2c]
    unfold p2cOpt
    by_cases hz : h.p2c = 0
    · simp [hz]
    · simp only [bne_iff_ne, ne_eq, hz, not_false_eq_true, if_true, PO.run_bind, PO.run_query, L.itoa h.p2c hp2c]
      have : ¬ h.p2c < 0 := by omega
      simp [this]
  simp only [hcritrun, hcrit, hepkrun, hp2crun, Bool.not_true, Bool.false_eq_true, if_false, PO.run_bind, PO.run_pure,
    run_getBytes o L _ _ _ E.apu, run_getBytes o L _ _ _ E.apv,
    run_getBytes o L _ _ _ E.iv, run_getBytes o L _ _ _ E.tag,
    run_getBytes o L _ _ _ E.p2s]
  have e : ∀ v : String, (if (v != "") = true then some v else none).getD "" = v := by
    intro v; by_cases hv : v = "" <;> simp [hv]
  simp only [e]


/-- for a header built through the setters (empty Raw): `decodeHeader (encodeHeader h)` is `h` again -/
theorem decode_encode (o : Oracle) (L : CodecLaws o) (h : Header) (hraw : h.raw = [])
    (hcrit : h.crit.all knownParams.contains = true) (hp2c : 0 ≤ h.p2c)
    (hepk : ∀ k, h.epk = some k → k.isNone = false) :
    (decodeHeader (encPure o h)).run o = .ok { h with raw := encPure o h } :=
  decode_of_encodes o L h _ (encodes_encPure o h hraw) hcrit hp2c hepk

end GoatProofs.C05
