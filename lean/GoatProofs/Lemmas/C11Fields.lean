import GoatProofs.Lemmas.C11Tables
/-
C11 — field access lemmas for the Header record and association-list lemmas.
-/
namespace C11
open Model.HeaderTable Model.Header

theorem get_set_same {h h' : Header} {f : Fld} {v : FVal} (hs : h.set f v = some h') :
    h'.get f = v := by
  cases f <;> cases v <;> simp [Header.set] at hs <;> subst hs <;> rfl

theorem get_set_other {h h' : Header} {f g : Fld} {v : FVal} (hs : h.set f v = some h')
    (hne : g ≠ f) : h'.get g = h.get g := by
  cases f <;> cases v <;> simp [Header.set] at hs <;> subst hs <;> cases g <;>
    first | rfl | exact absurd rfl hne

theorem raw_set {h h' : Header} {f : Fld} {v : FVal} (hs : h.set f v = some h') : h'.raw = h.raw := by
  cases f <;> cases v <;> simp [Header.set] at hs <;> subst hs <;> rfl

theorem set_get_some (h H : Header) (f : Fld) : ∃ h', h.set f (H.get f) = some h' := by
  cases f <;> exact ⟨_, rfl⟩

theorem ext_get {a b : Header} (hg : ∀ f, a.get f = b.get f) (hr : a.raw = b.raw) : a = b := by
  cases a; cases b
  have h1 := hg .alg; have h2 := hg .enc; have h3 := hg .zip; have h4 := hg .jku; have h5 := hg .jwk
  have h6 := hg .kid; have h7 := hg .x5u; have h8 := hg .x5c; have h9 := hg .x5t; have h10 := hg .x5tS256
  have h11 := hg .typ; have h12 := hg .cty; have h13 := hg .crit; have h14 := hg .nb64; have h15 := hg .epk
  have h16 := hg .apu; have h17 := hg .apv; have h18 := hg .iv; have h19 := hg .tag; have h20 := hg .p2s
  have h21 := hg .p2c
  simp only [Header.get, FVal.s.injEq, FVal.url.injEq, FVal.key.injEq, FVal.certs.injEq, FVal.bytes.injEq,
    FVal.strs.injEq, FVal.flag.injEq, FVal.int.injEq] at h1 h2 h3 h4 h5 h6 h7 h8 h9 h10 h11 h12 h13 h14 h15 h16 h17 h18 h19 h20 h21
  simp only at hr
  subst_vars
  rfl

theorem lookup_objSet (k k' : String) (v : Wire) (l : List (String × Wire)) :
    Wire.lookup k (objSet k' v l) = if k = k' then some v else Wire.lookup k l := by
  induction l with
  | nil =>
    simp only [objSet, Wire.lookup, beq_iff_eq]
  | cons hd tl ih =>
    obtain ⟨hk, hv⟩ := hd
    simp only [objSet]
    by_cases e : k' = hk
    · subst e
      simp only [beq_self_eq_true, ↓reduceIte, Wire.lookup, beq_iff_eq]
      split <;> rfl
    · have : (k' == hk) = false := by simpa using e
      simp only [this, Bool.false_eq_true, ↓reduceIte, Wire.lookup, beq_iff_eq, ih]
      by_cases e2 : k = hk
      · subst e2
        have : ¬ k = k' := fun x => e x.symm
        simp [this]
      · simp [e2]

end C11
