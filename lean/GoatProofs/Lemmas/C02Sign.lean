import GoatProofs.Lemmas.C02Verify
/-
C02 — oracle laws (base64url, header codec) and what a successful `Sign` produced.
-/
namespace Model.JWS

/-- base64url law: decoding inverts encoding, and the encoding never contains '.' -/
def B64Law (o : Oracle) : Prop :=
  ∀ x, ∃ e, o ⟨"b64url.enc", [.bytes x]⟩ = .bytes e ∧ o ⟨"b64url.dec", [.bytes e]⟩ = .bytes x ∧ dot ∉ e

/-- header codec law for one header: what `Sign` marshals decodes again, to `hp'` -/
def HeaderRoundTrip (o : Oracle) (hp hp' : Header) : Prop :=
  ∀ W hj, (encodeHeader hp).run o = .ok W → o ⟨"c01.json.marshalB", [W]⟩ = .bytes hj →
    (unmarshalHeader hj).run o = .ok hp'

/-- what a successful `msg.Sign(protected, header, key)` produced: the protected header is
    marshalled once, base64url-encoded once, these exact bytes are signed together with the stored
    payload text, and the same bytes are stored for re-emission. -/
theorem sign_ok (o : Oracle) (msg msg1 : Message) (hp : Header) (hdr : Option Header)
    (sk : Sig.SigningKey) (h : (sign msg (some hp) hdr sk).run o = .ok msg1) :
    msg.nb64 = hp.nb64 ∧ ∃ W hj rawB sg b64sig,
      (encodeHeader hp).run o = .ok W ∧ o ⟨"c01.json.marshalB", [W]⟩ = .bytes hj ∧
      o ⟨"b64url.enc", [.bytes hj]⟩ = .bytes rawB ∧
      (Sig.signKey sk (rawB ++ dot :: msg.payload)).run o = .ok sg ∧
      o ⟨"b64url.enc", [.bytes sg]⟩ = .bytes b64sig ∧
      msg1 = { msg with signatures := msg.signatures ++
        [{ prot := some hp, header := hdr, rawProtected := rawB, b64signature := b64sig, signature := sg }] } := by
  unfold sign at h
  simp only at h
  by_cases hnb : (msg.nb64 != hp.nb64) = true
  · simp [hnb] at h
  · simp only [hnb, Bool.false_eq_true, if_false] at h
    have hnb' : msg.nb64 = hp.nb64 := by
      cases hx : msg.nb64 <;> cases hy : hp.nb64 <;> simp [hx, hy] at hnb <;> rfl
    obtain ⟨W, hW, h⟩ := PO.run_bind_eq_ok o _ _ _ h
    obtain ⟨hj, hhj, h⟩ := PO.run_bind_eq_ok o _ _ _ h
    obtain ⟨rawB, hrawB, h⟩ := PO.run_bind_eq_ok o _ _ _ h
    obtain ⟨sg, hsg, h⟩ := PO.run_bind_eq_ok o _ _ _ h
    obtain ⟨b64sig, hb64sig, h⟩ := PO.run_bind_eq_ok o _ _ _ h
    simp only [PO.run_pure] at h
    injection h with h
    refine ⟨hnb', W, hj, rawB, sg, b64sig, hW, ?_, (b64Encode_ok o _ _).1 hrawB, hsg,
      (b64Encode_ok o _ _).1 hb64sig, h.symm⟩
    simp only [jsonMarshalB, PO.run_bind, PO.run_query] at hhj
    cases hq : o ⟨"c01.json.marshalB", [W]⟩ <;> simp [hq] at hhj
    rw [hhj]

/-- forward direction of the compact parser on well-formed segments -/
theorem parseCompact_of_segments (o : Oracle) (h p sg hb sig : Bytes) (hdr : Header)
    (n1 : dot ∉ h) (n2 : dot ∉ p)
    (h1 : o ⟨"b64url.dec", [.bytes h]⟩ = .bytes hb) (h2 : (unmarshalHeader hb).run o = .ok hdr)
    (h3 : o ⟨"b64url.dec", [.bytes sg]⟩ = .bytes sig) :
    (parseCompact (h ++ dot :: (p ++ dot :: sg))).run o = .ok
      { payload := p, nb64 := hdr.nb64,
        signatures := [{ prot := some hdr, rawProtected := h, b64signature := sg, signature := sig }] } := by
  unfold parseCompact
  rw [splitDot_append h _ n1]
  simp only
  rw [splitDot_append p _ n2]
  simp only
  rw [PO.run_bind_ok o _ _ hb ((b64Decode_ok o h hb).2 h1)]
  rw [PO.run_bind_ok o _ _ hdr h2]
  rw [PO.run_bind_ok o _ _ sig ((b64Decode_ok o sg sig).2 h3)]
  rfl

end Model.JWS
