import GoatProofs.Lemmas.C12Loops
import GoatProofs.Lemmas.C12Buf
import Goat.Model.KW.AKW
/-
C12, AES Key Wrap: the loop body of the Go code on the buffer layout equals the RFC step on the
(A, R) state; pure versions of the model's loop bodies.
-/
namespace C12L
open Spec Spec.RFC3394 Model.GoBuf Model.KW.AKW

theorem ofNat_mod256 (x : Nat) : UInt8.ofNat (x % 256) = UInt8.ofNat x := by
  apply UInt8.toNat_inj.mp
  simp [UInt8.toNat_ofNat']

/-- the eight `byte(u >> k)` of the Go code are the 64-bit big-endian encoding of `u` -/
theorem counterBytes_eq (u : Nat) : counterBytes u = be64 u := by
  simp only [counterBytes, be64, Bytes.encodeBE, Bytes.encodeLE, List.reverse_cons, List.reverse_nil,
    List.nil_append, List.cons_append]
  simp only [ofNat_mod256, Nat.shiftRight_eq_div_pow, Nat.div_div_eq_div_mul]

theorem be64_length (u : Nat) : (be64 u).length = 8 := by
  simp [be64, Bytes.encodeBE, Bytes.encodeLE]

theorem blocks_length (k n : Nat) (b : Bytes) : (blocks k n b).length = n := by
  induction n generalizing b with
  | zero => rfl
  | succ n ih => simp [blocks, ih]

theorem blocks_uniform (k n : Nat) (b : Bytes) (h : k * n ≤ b.length) : Uniform k (blocks k n b) := by
  induction n generalizing b with
  | zero => intro r hr; simp [blocks] at hr
  | succ n ih =>
    intro r hr
    simp only [blocks, List.mem_cons] at hr
    rcases hr with h1 | h1
    · rw [h1, List.length_take]; rw [Nat.mul_succ] at h; omega
    · exact ih (b.drop k) (by rw [List.length_drop]; rw [Nat.mul_succ] at h; omega) r h1

theorem blocks_flatten (k n : Nat) (b : Bytes) (h : b.length = k * n) : (blocks k n b).flatten = b := by
  induction n generalizing b with
  | zero => simp [blocks]; exact (List.length_eq_zero_iff.mp (by simpa using h))
  | succ n ih =>
    simp only [blocks, List.flatten_cons]
    rw [ih (b.drop k) (by rw [List.length_drop, h, Nat.mul_succ]; omega), List.take_append_drop]

theorem xorCounter_lay {A B : Bytes} {R : List Bytes} (hA : A.length = 8) (u : Nat) :
    xorCounter (lay A B R) u = lay (xorBytes A (be64 u)) B R := by
  unfold xorCounter chunkLen
  rw [slice_lay_a hA, counterBytes_eq, goCopy_lay_a hA]
  rw [xorBytes_length, hA, be64_length]; rfl

/-- pure body of the WrapKey loop (the oracle fixed to a block function) -/
def wrapIterP (E : Bytes → Bytes) (n t : Nat) (buf : Bytes) : Bytes :=
  let off := chunkLen * 2 + (t % n) * chunkLen
  let buf := goCopy buf chunkLen (chunkLen * 2) (slice buf off buf.length)
  let buf := goCopy buf 0 (chunkLen * 2) (E (slice buf 0 (chunkLen * 2)))
  let buf := xorCounter buf (t + 1)
  goCopy buf off buf.length (slice buf chunkLen (chunkLen * 2))

theorem run_wrapIter (o : Oracle) (key : Bytes) (n t : Nat) (buf : Bytes) :
    PO.run o (wrapIter key n t buf) = .ok (wrapIterP (encFn o key) n t buf) := by
  simp [wrapIter, wrapIterP]

/-- pure body of the UnwrapKey loop -/
def unwrapIterP (D : Bytes → Bytes) (n t : Nat) (buf : Bytes) : Bytes :=
  let u := 6 * n - t
  let buf := xorCounter buf u
  let off := chunkLen * 2 + ((u - 1) % n) * chunkLen
  let buf := goCopy buf chunkLen (chunkLen * 2) (slice buf off buf.length)
  let buf := goCopy buf 0 (chunkLen * 2) (D (slice buf 0 (chunkLen * 2)))
  goCopy buf off buf.length (slice buf chunkLen (chunkLen * 2))

theorem run_unwrapIter (o : Oracle) (key : Bytes) (n t : Nat) (buf : Bytes) :
    PO.run o (unwrapIter key n t buf) = .ok (unwrapIterP (decFn o key) n t buf) := by
  simp [unwrapIter, unwrapIterP]

/-- the invariant tying the Go buffer to the RFC state -/
def Rel (n : Nat) (buf : Bytes) (s : State) : Prop :=
  ∃ B, buf = lay s.1 B s.2 ∧ s.1.length = 8 ∧ B.length = 8 ∧ Uniform 8 s.2 ∧ s.2.length = n

/-- one iteration of the Go wrap loop at index i0 = t % n is the RFC step with i = i0 + 1, t + 1 -/
theorem wrapIterP_step (E : Bytes → Bytes) (hE : ∀ x, (E x).length = 16) (n t : Nat) (hn : 0 < n)
    (buf : Bytes) (s : State) (h : Rel n buf s) :
    Rel n (wrapIterP E n t buf) (wrapStep E n (t / n) (t % n + 1) s) := by
  obtain ⟨B, rfl, hA, hB, hR, hlen⟩ := h
  obtain ⟨A, R⟩ := s
  simp only at hA hR hlen ⊢
  have hi : t % n < R.length := by rw [hlen]; exact Nat.mod_lt _ hn
  have hRi : (R.getD (t % n) []).length = 8 := getD_length hR hi
  have hoff : chunkLen * 2 + (t % n) * chunkLen = 16 + 8 * (t % n) := by simp [chunkLen]; omega
  have hcnt : n * (t / n) + (t % n + 1) = t + 1 := by have := Nat.div_add_mod t n; omega
  unfold wrapIterP
  simp only [hoff]
  simp only [show chunkLen = 8 from rfl, show (8 : Nat) * 2 = 16 from rfl]
  -- copy(b, r[i*8:])
  rw [slice_lay_r hA hB hR, flatten_drop_cons hi,
    goCopy_lay_b hA hB _ (by rw [List.length_append, hRi]; omega), List.take_left' hRi]
  -- block.Encrypt(ab, ab)
  rw [slice_lay_ab hA hRi, goCopy_lay_ab hA hRi _ (hE _)]
  have h8 : ((E (A ++ R.getD (t % n) [])).take 8).length = 8 := by rw [List.length_take, hE]; rfl
  have h8' : ((E (A ++ R.getD (t % n) [])).drop 8).length = 8 := by rw [List.length_drop, hE]
  -- a ^= t+1
  rw [xorCounter_lay h8]
  have hx : (xorBytes ((E (A ++ R.getD (t % n) [])).take 8) (be64 (t + 1))).length = 8 := by
    rw [xorBytes_length, h8, be64_length]; rfl
  -- copy(r[i*8:], b)
  rw [slice_lay_b hx h8', goCopy_lay_r hx h8' hR _ hi _ h8']
  refine ⟨_, ?_, ?_, h8', ?_, ?_⟩
  · simp only [wrapStep, getR, setR, msb64, lsb64, Nat.add_sub_cancel, hcnt]
  · simp only [wrapStep, getR, msb64, Nat.add_sub_cancel, hcnt]; exact hx
  · simp only [wrapStep, setR, getR, lsb64, Nat.add_sub_cancel]; exact hR.set _ _ h8'
  · simp only [wrapStep, setR, Nat.add_sub_cancel, List.length_set]; exact hlen

/-- one iteration of the Go unwrap loop with u = 6n - t is the RFC step with t_rfc = u,
    i = (u-1) % n + 1, j = (u-1) / n -/
theorem unwrapIterP_step (D : Bytes → Bytes) (hD : ∀ x, (D x).length = 16) (n t : Nat) (hn : 0 < n)
    (ht : t < 6 * n) (buf : Bytes) (s : State) (h : Rel n buf s) :
    Rel n (unwrapIterP D n t buf)
      (unwrapStep D n ((6 * n - t - 1) / n) ((6 * n - t - 1) % n + 1) s) := by
  obtain ⟨B, rfl, hA, hB, hR, hlen⟩ := h
  obtain ⟨A, R⟩ := s
  simp only at hA hR hlen ⊢
  generalize hu : 6 * n - t - 1 = v
  have hv : 6 * n - t = v + 1 := by omega
  have hi : v % n < R.length := by rw [hlen]; exact Nat.mod_lt _ hn
  have hRi : (R.getD (v % n) []).length = 8 := getD_length hR hi
  have hoff : chunkLen * 2 + (v % n) * chunkLen = 16 + 8 * (v % n) := by simp [chunkLen]; omega
  have hcnt : n * (v / n) + (v % n + 1) = v + 1 := by have := Nat.div_add_mod v n; omega
  unfold unwrapIterP
  simp only [hv, Nat.add_sub_cancel, hoff]
  simp only [show chunkLen = 8 from rfl, show (8 : Nat) * 2 = 16 from rfl]
  -- a ^= u
  rw [xorCounter_lay hA]
  have hx : (xorBytes A (be64 (v + 1))).length = 8 := by rw [xorBytes_length, hA, be64_length]; rfl
  -- copy(b, r[i*8:])
  rw [slice_lay_r hx hB hR, flatten_drop_cons hi,
    goCopy_lay_b hx hB _ (by rw [List.length_append, hRi]; omega), List.take_left' hRi]
  -- block.Decrypt(ab, ab)
  rw [slice_lay_ab hx hRi, goCopy_lay_ab hx hRi _ (hD _)]
  have h8 : ((D (xorBytes A (be64 (v + 1)) ++ R.getD (v % n) [])).take 8).length = 8 := by
    rw [List.length_take, hD]; rfl
  have h8' : ((D (xorBytes A (be64 (v + 1)) ++ R.getD (v % n) [])).drop 8).length = 8 := by
    rw [List.length_drop, hD]
  -- copy(r[i*8:], b)
  rw [slice_lay_b h8 h8', goCopy_lay_r h8 h8' hR _ hi _ h8']
  refine ⟨_, ?_, ?_, h8', ?_, ?_⟩
  · simp only [unwrapStep, getR, setR, msb64, lsb64, Nat.add_sub_cancel, hcnt]
  · simp only [unwrapStep, getR, msb64, Nat.add_sub_cancel, hcnt]; exact h8
  · simp only [unwrapStep, setR, getR, lsb64, Nat.add_sub_cancel, hcnt]; exact hR.set _ _ h8'
  · simp only [unwrapStep, setR, Nat.add_sub_cancel, List.length_set]; exact hlen

end C12L
