import GoatProofs.Lemmas.Glue
import GoatProofs.Lemmas.C18Exec
import GoatProofs.Lemmas.C18Arith
import GoatProofs.Lemmas.C18Bytes
import GoatProofs.Lemmas.C18Bits
import Goat.Model.Fe256
import Mathlib.FieldTheory.Finite.Basic
/-
C18 — secp256k1 field arithmetic and scalar reduction are correct (see docs/C18.md).

The limb programs `Gen.Fe256.*` / `Gen.Sc256.*` are regenerated from internal/curve256k1/field/fe.go and
internal/curve256k1/scalar.go on every run.  Each `…_check` below is re-established by kernel
evaluation of the verified reflective checker; `Reflect.check_sound` turns it into EXACT linear
identities between program phases (carries are atoms), and the value-level clauses ("x, y < p ⇒ no
additional carry", "result < p") follow from whole-value bounds by the small integer lemmas of
`GoatProofs/Lemmas/C18Arith.lean`.
-/
namespace C18
open Reflect Glue Model.Fe256 C18X C18B
set_option maxRecDepth 1000000
set_option exponentiation.threshold 2000

def U64 : Int := 2 ^ 64 - 1
def zeros (n : Nat) : List Int := List.replicate n 0

/-- four 64-bit words -/
def Lim (v : Limbs) : Prop := v.length = 4 ∧ AllIn 0 U64 v
/-- the invariant of C18: four 64-bit words whose value is below p (fully reduced) -/
def Red (v : Limbs) : Prop := Lim v ∧ val v < P

theorem lim_cases {v : Limbs} (h : Lim v) : ∃ a b c d, v = [a, b, c, d] ∧
    (0 ≤ a ∧ a ≤ 2 ^ 64 - 1) ∧ (0 ≤ b ∧ b ≤ 2 ^ 64 - 1) ∧ (0 ≤ c ∧ c ≤ 2 ^ 64 - 1) ∧ (0 ≤ d ∧ d ≤ 2 ^ 64 - 1) := by
  obtain ⟨hl, hr⟩ := h
  match v, hl with
  | [a, b, c, d], _ =>
    exact ⟨a, b, c, d, rfl, by simpa [U64] using hr a (by simp), by simpa [U64] using hr b (by simp),
      by simpa [U64] using hr c (by simp), by simpa [U64] using hr d (by simp)⟩

theorem lim_mk (a b c d : Int) (ha : 0 ≤ a ∧ a ≤ 2 ^ 64 - 1) (hb : 0 ≤ b ∧ b ≤ 2 ^ 64 - 1)
    (hc : 0 ≤ c ∧ c ≤ 2 ^ 64 - 1) (hd : 0 ≤ d ∧ d ≤ 2 ^ 64 - 1) : Lim [a, b, c, d] := by
  refine ⟨rfl, ?_⟩
  intro x hx
  simp only [List.mem_cons, List.not_mem_nil, or_false] at hx
  unfold U64
  rcases hx with h | h | h | h <;> subst h <;> assumption

theorem val4 (a b c d : Int) : val [a, b, c, d] = a + 2 ^ 64 * b + 2 ^ 128 * c + 2 ^ 192 * d := by
  simp only [val]; ring

theorem lim_within (v : Limbs) (h : Lim v) : inputsWithin (zeros 4) (List.replicate 4 U64) v := by
  have := within_replicate_append 0 U64 v [] [] [] h.2 rfl rfl within_nil
  rw [h.1] at this; simpa [zeros] using this

/-! ## `reduce` -/

/-- `reduce` without its last op `v.l3 += c` -/
def redP : Prog := Gen.Fe256.reduce.take 13

def cfgReduceId : Cfg :=
  { inLo := zeros 4, inHi := List.replicate 4 U64, obs := [12, 14, 16, 15, 9],
    outLo := zeros 5, outHi := [U64, U64, U64, 1, 1],
    weights := [1, 2 ^ 64, 2 ^ 128, 2 ^ 192, -K], spec := limbPoly 64 3 0 0, modulus := 0 }

theorem reduce_id_check : check redP cfgReduceId = true := by decide +kernel
theorem reduce_wf : opsLt Gen.Fe256.reduce.nIn Gen.Fe256.reduce.body := by decide
theorem redP_wf : opsLt redP.nIn redP.body := by decide

theorem reduce_spec (v : Limbs) (hv : Lim v) : Red (reduce v) ∧ val (reduce v) = val v % P := by
  obtain ⟨a, b, c, d, rfl, ha, hb, hc, hd⟩ := lim_cases hv
  have g := check_sound redP cfgReduceId reduce_id_check [a, b, c, d] rfl (lim_within _ hv) (sideOK_of_none _ _ rfl)
  let ρ := redP.val [a, b, c, d]
  have hρ : ∀ i, xval false redP [a, b, c, d] i = ρ i := fun _ => rfl
  have i0 : ρ 0 = a := g.inputs 0 (by decide)
  have i1 : ρ 1 = b := g.inputs 1 (by decide)
  have i2 : ρ 2 = c := g.inputs 2 (by decide)
  have i3 : ρ 3 = d := g.inputs 3 (by decide)
  have k4 : ρ 4 = 4294968273 := const_at false redP redP_wf _ 0 _ (by decide) rfl rfl (by decide)
  have k5 : ρ 5 = 0 := const_at false redP redP_wf _ 1 _ (by decide) rfl rfl (by decide)
  -- the carry chain of the comparison with p (ideal = machine: no op of the prefix wraps)
  have c1 : ρ 6 = (a + 4294968273 + 0) / 2 ^ 64 := by
    have := carry_at false redP redP_wf [a, b, c, d] 2 0 4 5 (by decide) rfl
    rwa [hρ, hρ, hρ, hρ, i0, k4, k5] at this
  have c2 : ρ 7 = (b + 0 + ρ 6) / 2 ^ 64 := by
    have := carry_at false redP redP_wf [a, b, c, d] 3 1 5 6 (by decide) rfl
    rwa [hρ, hρ, hρ, hρ, i1, k5] at this
  have c3 : ρ 8 = (c + 0 + ρ 7) / 2 ^ 64 := by
    have := carry_at false redP redP_wf [a, b, c, d] 4 2 5 7 (by decide) rfl
    rwa [hρ, hρ, hρ, hρ, i2, k5] at this
  have c4 : ρ 9 = (d + 0 + ρ 8) / 2 ^ 64 := by
    have := carry_at false redP redP_wf [a, b, c, d] 5 3 5 8 (by decide) rfl
    rwa [hρ, hρ, hρ, hρ, i3, k5] at this
  -- machine values of the outputs
  have hm : ∀ i, i < 17 → xval true Gen.Fe256.reduce [a, b, c, d] i = ρ i :=
    fun i hi => xval_true_of_take Gen.Fe256.reduce cfgReduceId _ 13 i (by decide) hi g
  have hlast : xval true Gen.Fe256.reduce [a, b, c, d] 17 = (d + ρ 15) % 2 ^ 64 := by
    have := add_at_mach Gen.Fe256.reduce reduce_wf [a, b, c, d] 13 3 15 (by decide) rfl rfl
    rw [hm 3 (by decide), hm 15 (by decide), i3] at this; exact this
  have hout : reduce [a, b, c, d] = [ρ 12, ρ 14, ρ 16, (d + ρ 15) % 2 ^ 64] := by
    show Gen.Fe256.reduce.outputs true _ = _
    rw [outputs_eq]
    show [_, _, _, _] = _
    rw [hm 12 (by decide), hm 14 (by decide), hm 16 (by decide), hlast]
  -- the exact identity and the ranges
  have hb0 := g.outBounds 0 (by decide)
  have hb1 := g.outBounds 1 (by decide)
  have hb2 := g.outBounds 2 (by decide)
  have hb3 := g.outBounds 3 (by decide)
  have hid : ρ 12 + 2 ^ 64 * ρ 14 + 2 ^ 128 * ρ 16 + 2 ^ 192 * ρ 15 - 4294968273 * ρ 9
      = a + 2 ^ 64 * b + 2 ^ 128 * c := by
    have h := Int.eq_of_sub_eq_zero (Int.zero_dvd.mp g.value)
    simp only [cfgReduceId, weightedSum, limbPoly, evalPoly, evalMono, K, List.getD_cons_zero, List.getD_cons_succ] at h
    show redP.val _ 12 + 2 ^ 64 * redP.val _ 14 + 2 ^ 128 * redP.val _ 16 + 2 ^ 192 * redP.val _ 15 - 4294968273 * redP.val _ 9 = _
    norm_num at h ⊢
    linarith
  simp only [cfgReduceId, zeros, U64, List.getD_cons_zero, List.getD_cons_succ, List.replicate] at hb0 hb1 hb2 hb3
  obtain ⟨r1, r2, r3, r4⟩ := C18A.reduce_arith a b c d (ρ 12) (ρ 14) (ρ 16) (ρ 15) (ρ 6) (ρ 7) (ρ 8) (ρ 9) _
    ha.1 ha.2 hb.1 hb.2 hc.1 hc.2 hd.1 hd.2 hb0.1 hb0.2 hb1.1 hb1.2 hb2.1 hb2.2 hb3.1 hb3.2 c1 c2 c3 c4 rfl hid
  rw [hout]
  refine ⟨⟨lim_mk _ _ _ _ ⟨hb0.1, hb0.2⟩ ⟨hb1.1, hb1.2⟩ ⟨hb2.1, hb2.2⟩ ⟨r1, r2⟩, ?_⟩, ?_⟩
  · rw [val4]; exact r3
  · rw [val4, val4]; exact r4

/-! ## `Add` -/

theorem val_bounds {v : Limbs} (h : Lim v) : 0 ≤ val v ∧ val v < 2 ^ 256 := by
  obtain ⟨a, b, c, d, rfl, ha, hb, hc, hd⟩ := lim_cases h
  rw [val4]; constructor <;> omega

theorem within12 (x y : Limbs) (hx : Lim x) (hy : Lim y) :
    inputsWithin (zeros 12) (List.replicate 12 U64) (zero4 ++ x ++ y) := by
  have hz : AllIn 0 U64 zero4 := allIn_replicate 0 U64 0 4 (by decide) (by decide)
  have := within_replicate_append 0 U64 zero4 _ _ _ hz (by simp) (by simp)
    (within_replicate_append 0 U64 x _ _ _ hx.2 (by simp) (by simp)
      (within_replicate_append 0 U64 y [] [] [] hy.2 rfl rfl within_nil))
  rw [hx.1, hy.1] at this
  simpa [zeros, zero4, List.append_assoc] using this

/-- `Add` without its last op `v.l3 += c` -/
def addP : Prog := Gen.Fe256.addCore.take 17

/-- phase 1: the 256-bit sum with its carry:  S + 2^256·c = x + y -/
def cfgAdd1 : Cfg :=
  { inLo := zeros 12, inHi := List.replicate 12 U64, obs := [14, 16, 18, 20, 19],
    outLo := zeros 5, outHi := [U64, U64, U64, U64, 1],
    weights := [1, 2 ^ 64, 2 ^ 128, 2 ^ 192, 2 ^ 256], spec := padd (limbPoly 64 4 0 4) (limbPoly 64 4 0 8), modulus := 0 }
/-- phase 2: folding the carry:  m0 + W·m1 + W²·m2 + W³·d3 = s0 + W·s1 + W²·s2 + K·c -/
def cfgAdd2 : Cfg :=
  { inLo := zeros 12, inHi := List.replicate 12 U64, obs := [24, 26, 28, 27, 14, 16, 18, 19],
    outLo := zeros 8, outHi := [U64, U64, U64, 1, U64, U64, U64, 1],
    weights := [1, 2 ^ 64, 2 ^ 128, 2 ^ 192, -1, -(2 ^ 64), -(2 ^ 128), -K], spec := [], modulus := 0 }
/-- whole `Add` core: the result is ≡ x + y (mod p); the no-overflow of `v.l3 += c` is the side obligation -/
def cfgAdd : Cfg :=
  { inLo := zeros 12, inHi := List.replicate 12 U64, obs := Gen.Fe256.addCore.outs,
    outLo := zeros 4, outHi := List.replicate 4 U64,
    weights := weights 64 4 0, spec := padd (limbPoly 64 4 0 4) (limbPoly 64 4 0 8), modulus := P }

theorem add1_check : check addP cfgAdd1 = true := by decide +kernel
theorem add2_check : check addP cfgAdd2 = true := by decide +kernel
theorem add_check : check Gen.Fe256.addCore cfgAdd = true := by decide +kernel

theorem val_eq_evalR (l : Limbs) : val l = evalR 64 l := by
  induction l with
  | nil => rfl
  | cons x xs ih => simp only [val, evalR, ih]

/-- a program whose only `addA` reads two variables of the prefix `P.take k` -/
theorem sideOK_single (P : Prog) (ins : List Int) (hlen : ins.length = P.nIn) (k u w : Nat)
    (hs : sideOps P.body = [(u, w)]) (hk : k ≤ P.body.length) (hu : u < P.nIn + k) (hw : w < P.nIn + k)
    (hsg : P.signed = false) (h : (P.take k).val ins u + (P.take k).val ins w ≤ 2 ^ 64 - 1) : SideOK P ins := by
  intro a b hm
  rw [hs] at hm
  simp only [List.mem_singleton, Prod.mk.injEq] at hm
  obtain ⟨rfl, rfl⟩ := hm
  rw [← val_take P ins hlen k a hk hu, ← val_take P ins hlen k b hk hw, hsg]
  exact h

/-- packaging of a successful whole-program check: four 64-bit output words, value ≡ spec (mod p) -/
theorem core_out (prog : Prog) (cfg : Cfg) (ins : List Int) (g : Guarantee prog cfg ins)
    (hobs : cfg.obs = prog.outs) (hol : prog.outs.length = 4)
    (holo : cfg.outLo = List.replicate cfg.obs.length 0) (hohi : cfg.outHi = List.replicate cfg.obs.length U64)
    (hw : cfg.weights = weights 64 cfg.obs.length 0) (hm : cfg.modulus = P) :
    Lim (run prog ins) ∧ P ∣ val (run prog ins) - evalPoly (fun i => ins.getD i 0) cfg.spec := by
  have hout : run prog ins = prog.outs.map (prog.val ins) := outputs_true_eq prog cfg _ g
  refine ⟨⟨by rw [hout]; simpa using hol, ?_⟩, ?_⟩
  · rw [hout, ← hobs]; exact allIn_outputs prog cfg _ g 0 U64 holo hohi
  · have hv := g.value
    rw [hw, weightedSum_weights, hm, hobs] at hv
    rw [hout, val_eq_evalR]
    simpa using hv

theorem addCore_spec (x y : Limbs) (hx : Red x) (hy : Red y) :
    Lim (addCore x y) ∧ P ∣ val (addCore x y) - (val x + val y) := by
  obtain ⟨a, b, c, d, rfl, ha, hb, hc, hd⟩ := lim_cases hx.1
  obtain ⟨e, f, g', h, rfl, he, hf, hg, hh⟩ := lim_cases hy.1
  have hwi := within12 _ _ hx.1 hy.1
  show Lim (run Gen.Fe256.addCore [0, 0, 0, 0, a, b, c, d, e, f, g', h]) ∧
    P ∣ val (run Gen.Fe256.addCore [0, 0, 0, 0, a, b, c, d, e, f, g', h]) - _
  change inputsWithin _ _ [0, 0, 0, 0, a, b, c, d, e, f, g', h] at hwi
  have hlen : [0, 0, 0, 0, a, b, c, d, e, f, g', h].length = 12 := rfl
  have g1 := check_sound addP cfgAdd1 add1_check _ hlen hwi (sideOK_of_none _ _ rfl)
  have g2 := check_sound addP cfgAdd2 add2_check _ hlen hwi (sideOK_of_none _ _ rfl)
  have hX := hx.2; have hY := hy.2
  rw [val4] at hX hY
  unfold P at hX hY
  have hside : SideOK Gen.Fe256.addCore [0, 0, 0, 0, a, b, c, d, e, f, g', h] := by
    apply sideOK_single _ _ hlen 17 20 27 rfl (by decide) (by decide) (by decide) rfl
    show addP.val _ 20 + addP.val _ 27 ≤ _
    have b0 := g1.outBounds 0 (by decide)
    have b1 := g1.outBounds 1 (by decide)
    have b2 := g1.outBounds 2 (by decide)
    have b3 := g1.outBounds 3 (by decide)
    have b4 := g1.outBounds 4 (by decide)
    have d0 := g2.outBounds 0 (by decide)
    have d1 := g2.outBounds 1 (by decide)
    have d2 := g2.outBounds 2 (by decide)
    have d3 := g2.outBounds 3 (by decide)
    have id1 := Int.eq_of_sub_eq_zero (Int.zero_dvd.mp g1.value)
    have id2 := Int.eq_of_sub_eq_zero (Int.zero_dvd.mp g2.value)
    simp only [cfgAdd1, cfgAdd2, zeros, U64, List.getD_cons_zero, List.getD_cons_succ, List.replicate] at b0 b1 b2 b3 b4 d0 d1 d2 d3
    simp only [cfgAdd1, cfgAdd2, weightedSum, evalPoly_padd, limbPoly, evalPoly, evalMono, K,
      List.getD_cons_zero, List.getD_cons_succ] at id1 id2
    generalize addP.val [0, 0, 0, 0, a, b, c, d, e, f, g', h] = ρ at *
    norm_num at id1 id2
    exact C18A.add_side _ _ _ _ _ _ _ _ _ _ _ hX hY b0.1 b0.2 b1.1 b1.2 b2.1 b2.2 b3.1 b3.2 b4.1 b4.2
      d0.1 d0.2 d1.1 d1.2 d2.1 d2.2 d3.1 d3.2 (by linarith) (by linarith)
  have g3 := check_sound Gen.Fe256.addCore cfgAdd add_check _ hlen hwi hside
  obtain ⟨l, v⟩ := core_out Gen.Fe256.addCore cfgAdd _ g3 rfl rfl rfl rfl rfl rfl
  refine ⟨l, ?_⟩
  have : evalPoly (fun i => [0, 0, 0, 0, a, b, c, d, e, f, g', h].getD i 0) cfgAdd.spec
      = val [a, b, c, d] + val [e, f, g', h] := by
    simp only [cfgAdd, evalPoly_padd, limbPoly, evalPoly, evalMono,
      List.getD_cons_zero, List.getD_cons_succ, val]
    norm_num
    ring
  rw [this] at v
  exact v

theorem add_spec (x y : Limbs) (hx : Red x) (hy : Red y) :
    Red (add x y) ∧ val (add x y) = (val x + val y) % P := by
  obtain ⟨l, hv⟩ := addCore_spec x y hx hy
  obtain ⟨r, e⟩ := reduce_spec (addCore x y) l
  refine ⟨r, ?_⟩
  show val (reduce (addCore x y)) = _
  rw [e]
  exact Int.emod_eq_emod_iff_emod_sub_eq_zero.mpr (Int.emod_eq_zero_of_dvd hv)

/-! ## `Neg`, `Sub` -/

theorem within8 (x : Limbs) (hx : Lim x) :
    inputsWithin (zeros 8) (List.replicate 8 U64) (zero4 ++ x) := by
  have hz : AllIn 0 U64 zero4 := allIn_replicate 0 U64 0 4 (by decide) (by decide)
  have := within_replicate_append 0 U64 zero4 _ _ _ hz (by simp) (by simp)
      (within_replicate_append 0 U64 x [] [] [] hx.2 rfl rfl within_nil)
  rw [hx.1] at this
  simpa [zeros, zero4] using this

/-- exact identity of the borrow chain:  Σ outᵢ·2^(64i) − 2^256·borrow = p − x  (the borrow that the
    Go code discards with `_` is observed) -/
def cfgNeg : Cfg :=
  { inLo := zeros 8, inHi := List.replicate 8 U64, obs := [11, 14, 16, 18, 17],
    outLo := zeros 5, outHi := [U64, U64, U64, U64, 1],
    weights := [1, 2 ^ 64, 2 ^ 128, 2 ^ 192, -(2 ^ 256)], spec := padd (pconst P) (pneg (limbPoly 64 4 0 4)), modulus := 0 }

theorem neg_check : check Gen.Fe256.negCore cfgNeg = true := by decide +kernel
theorem neg_outs : Gen.Fe256.negCore.outs = [11, 14, 16, 18] := rfl

/-- the borrow chain of `Neg` computes exactly `p − x` for x ≤ p (no borrow out) -/
theorem negCore_exact (x : Limbs) (hx : Lim x) (hle : val x ≤ P) : Lim (negCore x) ∧ val (negCore x) = P - val x := by
  obtain ⟨a, b, c, d, rfl, ha, hb, hc, hd⟩ := lim_cases hx
  have hwi := within8 _ hx
  show Lim (run Gen.Fe256.negCore [0, 0, 0, 0, a, b, c, d]) ∧ val (run Gen.Fe256.negCore [0, 0, 0, 0, a, b, c, d]) = _
  change inputsWithin _ _ [0, 0, 0, 0, a, b, c, d] at hwi
  have g := check_sound Gen.Fe256.negCore cfgNeg neg_check _ rfl hwi (sideOK_of_none _ _ rfl)
  have hout : run Gen.Fe256.negCore [0, 0, 0, 0, a, b, c, d] = Gen.Fe256.negCore.outs.map (Gen.Fe256.negCore.val _) :=
    outputs_true_eq _ cfgNeg _ g
  have b0 := g.outBounds 0 (by decide)
  have b1 := g.outBounds 1 (by decide)
  have b2 := g.outBounds 2 (by decide)
  have b3 := g.outBounds 3 (by decide)
  have b4 := g.outBounds 4 (by decide)
  have id1 := Int.eq_of_sub_eq_zero (Int.zero_dvd.mp g.value)
  simp only [cfgNeg, zeros, U64, List.getD_cons_zero, List.getD_cons_succ, List.replicate] at b0 b1 b2 b3 b4
  simp only [cfgNeg, weightedSum, evalPoly_padd, evalPoly_pneg,
    evalPoly_pconst, limbPoly, evalPoly, evalMono, List.getD_cons_zero, List.getD_cons_succ] at id1
  rw [val4] at hle ⊢
  rw [hout, neg_outs]
  show Lim [_, _, _, _] ∧ val [_, _, _, _] = _
  rw [val4]
  generalize Prog.val _ [0, 0, 0, 0, a, b, c, d] = ρ at *
  unfold P at hle id1 ⊢
  norm_num at id1
  have hbw : ρ 17 = 0 := by omega
  rw [hbw] at id1
  exact ⟨lim_mk _ _ _ _ b0 b1 b2 b3, by linarith⟩

theorem neg_spec (x : Limbs) (hx : Red x) : Red (neg x) ∧ val (neg x) = (- val x) % P := by
  obtain ⟨l, e⟩ := negCore_exact x hx.1 (le_of_lt hx.2)
  obtain ⟨r, e2⟩ := reduce_spec (negCore x) l
  refine ⟨r, ?_⟩
  show val (reduce (negCore x)) = _
  rw [e2, e]
  have : P - val x = - val x + P * 1 := by ring
  rw [this, Int.add_mul_emod_self_left]

/-- detector of the former defect (`Neg(0) = p`): on the fixed tree `Neg(0)` is 0 -/
theorem neg_zero : neg zero = zero := by decide +kernel

theorem sub_spec (x y : Limbs) (hx : Red x) (hy : Red y) :
    Red (sub x y) ∧ val (sub x y) = (val x - val y) % P := by
  obtain ⟨r, e⟩ := neg_spec y hy
  obtain ⟨r2, e2⟩ := add_spec x (neg y) hx r
  refine ⟨r2, ?_⟩
  show val (add x (neg y)) = _
  rw [e2, e, Int.add_emod_emod]; rfl

/-! ## byte decoding: `setBytes` (range check) and the `SetBytes` wrapper -/

def cfgSetBytes : Cfg :=
  { inLo := zeros 36, inHi := List.replicate 4 U64 ++ List.replicate 32 255, obs := [119, 98, 77, 56],
    outLo := zeros 4, outHi := List.replicate 4 U64,
    weights := weights 64 4 0, spec := bePoly 32 4, modulus := 0 }

theorem setBytes_check : check Gen.Fe256.setBytes cfgSetBytes = true := by decide +kernel
theorem setBytes_wf : opsLt Gen.Fe256.setBytes.nIn Gen.Fe256.setBytes.body := by decide
theorem setBytes_outs : Gen.Fe256.setBytes.outs = [119, 98, 77, 56, 125] := rfl

/-- `setBytes` on 32 octets: the limbs hold exactly the big-endian integer, and the returned carry is
    0 exactly for values below p -/
theorem setBytesRaw_spec (buf : List Int) (hl : buf.length = 32) (hb : AllIn 0 255 buf) :
    Lim (setBytesRaw buf).1 ∧ val (setBytesRaw buf).1 = evalBE buf ∧
      ((setBytesRaw buf).2 = 0 ∨ (setBytesRaw buf).2 = 1) ∧
      ((setBytesRaw buf).2 = 0 ↔ evalBE buf < P) := by
  have hz : AllIn 0 U64 zero4 := allIn_replicate 0 U64 0 4 (by decide) (by decide)
  have hwi : inputsWithin cfgSetBytes.inLo cfgSetBytes.inHi (zero4 ++ buf) := by
    have := within_replicate_append 0 U64 zero4 _ _ _ hz (by simp) (by simp)
      (within_replicate_append 0 255 buf [] [] [] hb rfl rfl within_nil)
    rw [hl] at this
    simpa [zeros, zero4, cfgSetBytes] using this
  have hlen : (zero4 ++ buf).length = Gen.Fe256.setBytes.nIn := by simp [zero4, hl]; rfl
  have g := check_sound Gen.Fe256.setBytes cfgSetBytes setBytes_check _ hlen hwi (sideOK_of_none _ _ rfl)
  let ρ := Gen.Fe256.setBytes.val (zero4 ++ buf)
  have hρ : ∀ i, xval false Gen.Fe256.setBytes (zero4 ++ buf) i = ρ i := fun _ => rfl
  have hout : run Gen.Fe256.setBytes (zero4 ++ buf) = [ρ 119, ρ 98, ρ 77, ρ 56, ρ 125] := by
    have := outputs_true_eq _ cfgSetBytes _ g
    rw [setBytes_outs] at this; exact this
  have e1 : (setBytesRaw buf).1 = [ρ 119, ρ 98, ρ 77, ρ 56] := by
    show (run Gen.Fe256.setBytes (zero4 ++ buf)).take 4 = _
    rw [hout]; rfl
  have e2 : (setBytesRaw buf).2 = ρ 125 := by
    show (run Gen.Fe256.setBytes (zero4 ++ buf)).getD 4 0 = _
    rw [hout]; rfl
  have b0 := g.outBounds 0 (by decide)
  have b1 := g.outBounds 1 (by decide)
  have b2 := g.outBounds 2 (by decide)
  have b3 := g.outBounds 3 (by decide)
  simp only [cfgSetBytes, zeros, U64, List.getD_cons_zero, List.getD_cons_succ, List.replicate] at b0 b1 b2 b3
  have hval : val [ρ 119, ρ 98, ρ 77, ρ 56] = evalBE buf := by
    have hv := g.value
    have ew : cfgSetBytes.weights = weights 64 cfgSetBytes.obs.length 0 := rfl
    have es : cfgSetBytes.spec = bePoly 32 4 := rfl
    have em : cfgSetBytes.modulus = 0 := rfl
    rw [ew, weightedSum_weights, es, em, evalPoly_bePoly] at hv
    have hr := range'_map_getD_append zero4 buf []
    rw [hl] at hr
    simp only [List.append_nil] at hr
    have hz4 : zero4.length = 4 := rfl
    rw [hz4] at hr
    rw [hr] at hv
    have := Int.eq_of_sub_eq_zero (Int.zero_dvd.mp hv)
    rw [val_eq_evalR]
    simpa [cfgSetBytes] using this
  have k4 : ρ 120 = 4294968273 := const_at false _ setBytes_wf _ 84 _ (by decide) rfl rfl (by decide)
  have k5 : ρ 121 = 0 := const_at false _ setBytes_wf _ 85 _ (by decide) rfl rfl (by decide)
  have c1 : ρ 122 = (ρ 119 + 4294968273 + 0) / 2 ^ 64 := by
    have := carry_at false _ setBytes_wf (zero4 ++ buf) 86 119 120 121 (by decide) rfl
    rwa [hρ, hρ, hρ, hρ, k4, k5] at this
  have c2 : ρ 123 = (ρ 98 + 0 + ρ 122) / 2 ^ 64 := by
    have := carry_at false _ setBytes_wf (zero4 ++ buf) 87 98 121 122 (by decide) rfl
    rwa [hρ, hρ, hρ, hρ, k5] at this
  have c3 : ρ 124 = (ρ 77 + 0 + ρ 123) / 2 ^ 64 := by
    have := carry_at false _ setBytes_wf (zero4 ++ buf) 88 77 121 123 (by decide) rfl
    rwa [hρ, hρ, hρ, hρ, k5] at this
  have c4 : ρ 125 = (ρ 56 + 0 + ρ 124) / 2 ^ 64 := by
    have := carry_at false _ setBytes_wf (zero4 ++ buf) 89 56 121 124 (by decide) rfl
    rwa [hρ, hρ, hρ, hρ, k5] at this
  obtain ⟨q1, q2⟩ := C18A.cmp_chain _ _ _ _ _ _ _ _ b0.1 b0.2 b1.1 b1.2 b2.1 b2.2 b3.1 b3.2 c1 c2 c3 c4
  rw [e1, e2, hval]
  refine ⟨lim_mk _ _ _ _ b0 b1 b2 b3, rfl, q1, ?_⟩
  rw [q2, ← hval, val4]; rfl

theorem setBytes32_spec (buf : List Int) (hl : buf.length = 32) (hb : AllIn 0 255 buf) :
    (evalBE buf < P → ∃ v, setBytes32 buf = .ok v ∧ Red v ∧ val v = evalBE buf) ∧
    (P ≤ evalBE buf → setBytes32 buf = .err "overflow") := by
  obtain ⟨l, e, c01, ciff⟩ := setBytesRaw_spec buf hl hb
  constructor
  · intro hlt
    refine ⟨(setBytesRaw buf).1, ?_, ⟨l, by rw [e]; exact hlt⟩, e⟩
    unfold setBytes32
    simp only [ciff.mpr hlt, ne_eq, not_true_eq_false, if_false]
  · intro hge
    unfold setBytes32
    have : (setBytesRaw buf).2 ≠ 0 := fun h => absurd (ciff.mp h) (not_lt.mpr hge)
    simp only [ne_eq, this, not_false_eq_true, if_true]

/-- **byte decoding**: `SetBytes` accepts exactly the big-endian values below p (shorter inputs are
    left-padded with zeros), returns the fully reduced element of that value, and panics for more than
    32 octets -/
theorem setBytes_spec (x : Bytes) :
    (32 < x.length → setBytes x = .panic "fe256.SetBytes.toolong") ∧
    (x.length ≤ 32 →
      ((Bytes.decodeBE x : Int) < P → ∃ v, setBytes x = .ok v ∧ Red v ∧ val v = Bytes.decodeBE x) ∧
      (P ≤ (Bytes.decodeBE x : Int) → setBytes x = .err "overflow")) := by
  constructor
  · intro h; unfold setBytes; simp [h]
  · intro h
    have hnot : ¬ x.length > 32 := by omega
    have hbuf : evalBE (List.replicate (32 - x.length) 0 ++ bytesToInts x) = (Bytes.decodeBE x : Int) := by
      rw [evalBE_append, evalBE_replicate_zero]
      show 0 * _ + evalBE (ofBytes x) = _
      rw [evalBE_ofBytes]; simp
    have hl : (List.replicate (32 - x.length) (0 : Int) ++ bytesToInts x).length = 32 := by
      simp [bytesToInts]; omega
    have hb : AllIn 0 255 (List.replicate (32 - x.length) (0 : Int) ++ bytesToInts x) := by
      intro y hy
      rcases List.mem_append.mp hy with h1 | h1
      · rw [List.eq_of_mem_replicate h1]; exact ⟨le_refl _, by decide⟩
      · exact allIn_ofBytes x y h1
    obtain ⟨s1, s2⟩ := setBytes32_spec _ hl hb
    rw [hbuf] at s1 s2
    unfold setBytes
    simp only [hnot, if_false]
    exact ⟨s1, s2⟩

/-! ## byte encoding -/

def cfgBytes : Cfg :=
  { inLo := zeros 4, inHi := List.replicate 4 U64, obs := Gen.Fe256.bytes.outs,
    outLo := List.replicate 32 0, outHi := List.replicate 32 255,
    weights := weightsBE 32, spec := limbPoly 64 4 0 0, modulus := 0 }

theorem bytes_check : check Gen.Fe256.bytes cfgBytes = true := by decide +kernel

theorem bytesInts_spec (v : Limbs) (hv : Lim v) :
    (bytesInts v).length = 32 ∧ AllIn 0 255 (bytesInts v) ∧ evalBE (bytesInts v) = val v := by
  have g := check_sound Gen.Fe256.bytes cfgBytes bytes_check v hv.1 (lim_within v hv) (sideOK_of_none _ _ rfl)
  have hout : bytesInts v = Gen.Fe256.bytes.outs.map (Gen.Fe256.bytes.val v) := outputs_true_eq _ cfgBytes _ g
  refine ⟨by rw [hout]; rfl, ?_, ?_⟩
  · rw [hout]; exact allIn_outputs _ cfgBytes _ g 0 255 rfl rfl
  · have h := g.value
    have ew : cfgBytes.weights = weightsBE cfgBytes.obs.length := rfl
    have es : cfgBytes.spec = limbPoly 64 4 0 0 := rfl
    have em : cfgBytes.modulus = 0 := rfl
    rw [ew, weightedSum_weightsBE, es, em, evalPoly_limbPoly] at h
    have hr := range'_map_getD_append [] v []
    rw [hv.1] at hr
    simp only [List.append_nil, List.nil_append, List.length_nil] at hr
    rw [hr] at h
    rw [hout, val_eq_evalR]
    have := Int.eq_of_sub_eq_zero (Int.zero_dvd.mp h)
    simpa [cfgBytes] using this

theorem ofBytes_intsToBytes (l : List Int) (h : AllIn 0 255 l) : ofBytes (intsToBytes l) = l := by
  unfold ofBytes intsToBytes
  rw [List.map_map]
  conv_rhs => rw [← List.map_id l]
  apply List.map_congr_left
  intro x hx
  obtain ⟨h0, h1⟩ := h x hx
  simp only [Function.comp, id]
  have : x.toNat < 256 := by omega
  rw [UInt8.toNat_ofNat_of_lt' (by simpa using this)]
  omega

/-- **byte encoding**: 32 octets whose big-endian value is exactly the value of the element -/
theorem bytes_spec (v : Limbs) (hv : Lim v) :
    (bytes v).length = 32 ∧ (Bytes.decodeBE (bytes v) : Int) = val v := by
  obtain ⟨l, r, e⟩ := bytesInts_spec v hv
  refine ⟨by simp [bytes, intsToBytes, l], ?_⟩
  rw [← evalBE_ofBytes]
  show evalBE (ofBytes (intsToBytes (bytesInts v))) = _
  rw [ofBytes_intsToBytes _ r, e]

theorem val_inj {u v : Limbs} (hu : Lim u) (hv : Lim v) (h : val u = val v) : u = v := by
  obtain ⟨a, b, c, d, rfl, ha, hb, hc, hd⟩ := lim_cases hu
  obtain ⟨e, f, g', h', rfl, he, hf, hg, hh⟩ := lim_cases hv
  rw [val4, val4] at h
  have h1 : a = e := by omega
  subst h1
  have h2 : b = f := by omega
  subst h2
  have h3 : c = g' := by omega
  subst h3
  have h4 : d = h' := by omega
  subst h4
  rfl

/-- decoding the encoding of a reduced element gives the element back -/
theorem bytes_setBytes (v : Limbs) (hv : Red v) : setBytes (bytes v) = .ok v := by
  obtain ⟨l, e⟩ := bytes_spec v hv.1
  obtain ⟨_, h2⟩ := setBytes_spec (bytes v)
  obtain ⟨s1, _⟩ := h2 (by omega)
  obtain ⟨w, hw, rw', ew⟩ := s1 (by rw [e]; exact hv.2)
  rw [hw]
  congr 1
  exact val_inj rw'.1 hv.1 (by rw [ew, e])

/-! ## `Equal`, `IsZero`, `Select`, `Swap` -/

theorem toNat_lt {a : Int} (h : 0 ≤ a ∧ a ≤ 2 ^ 64 - 1) : a.toNat < 2 ^ 64 := by omega

theorem isZero_spec (v : Limbs) (hv : Lim v) : isZero v = if val v = 0 then 1 else 0 := by
  obtain ⟨a, b, c, d, rfl, ha, hb, hc, hd⟩ := lim_cases hv
  unfold isZero
  simp only [limbN, List.getD_cons_zero, List.getD_cons_succ]
  rw [C18Bits.isZeroWord_spec _ (C18Bits.or4_lt _ _ _ _ (toNat_lt ha) (toNat_lt hb) (toNat_lt hc) (toNat_lt hd)),
    val4]
  apply if_congr _ rfl rfl
  rw [C18Bits.or4_zero]
  constructor
  · rintro ⟨h1, h2, h3, h4⟩; omega
  · intro h; omega

theorem equal_spec (u v : Limbs) (hu : Lim u) (hv : Lim v) : equal u v = if u = v then 1 else 0 := by
  obtain ⟨a, b, c, d, rfl, ha, hb, hc, hd⟩ := lim_cases hu
  obtain ⟨e, f, g', h, rfl, he, hf, hg, hh⟩ := lim_cases hv
  unfold equal
  simp only [limbN, List.getD_cons_zero, List.getD_cons_succ]
  rw [C18Bits.isZeroWord_spec _ (C18Bits.or4_lt _ _ _ _ (Nat.xor_lt_two_pow (toNat_lt ha) (toNat_lt he))
    (Nat.xor_lt_two_pow (toNat_lt hb) (toNat_lt hf)) (Nat.xor_lt_two_pow (toNat_lt hc) (toNat_lt hg))
    (Nat.xor_lt_two_pow (toNat_lt hd) (toNat_lt hh)))]
  apply if_congr _ rfl rfl
  rw [C18Bits.or4_zero]
  simp only [C18Bits.xor_eq_zero_iff]
  constructor
  · rintro ⟨h1, h2, h3, h4⟩
    have : a = e := by omega
    have : b = f := by omega
    have : c = g' := by omega
    have : d = h := by omega
    subst_vars; rfl
  · intro h; injection h with h1 h; injection h with h2 h; injection h with h3 h; injection h with h4 h
    subst_vars; exact ⟨rfl, rfl, rfl, rfl⟩

/-- for fully reduced operands `Equal` decides equality of the residues -/
theorem equal_iff (u v : Limbs) (hu : Red u) (hv : Red v) : equal u v = 1 ↔ val u = val v := by
  rw [equal_spec u v hu.1 hv.1]
  constructor
  · intro h; split at h
    · next e => rw [e]
    · cases h
  · intro h; rw [if_pos (val_inj hu.1 hv.1 h)]

theorem natCast_toNat {a : Int} (h : 0 ≤ a ∧ a ≤ 2 ^ 64 - 1) : ((a.toNat : Nat) : Int) = a := by omega

theorem select_spec (a b : Limbs) (ha : Lim a) (hb : Lim b) : select a b 1 = a ∧ select a b 0 = b := by
  obtain ⟨a0, a1, a2, a3, rfl, h0, h1, h2, h3⟩ := lim_cases ha
  obtain ⟨b0, b1, b2, b3, rfl, k0, k1, k2, k3⟩ := lim_cases hb
  constructor
  · unfold select
    simp only [C18Bits.maskOf_one, limbN, List.range, List.range.loop, List.map_cons, List.map_nil,
      List.getD_cons_zero, List.getD_cons_succ]
    rw [C18Bits.sel_one _ _ (toNat_lt h0), C18Bits.sel_one _ _ (toNat_lt h1), C18Bits.sel_one _ _ (toNat_lt h2),
      C18Bits.sel_one _ _ (toNat_lt h3), natCast_toNat h0, natCast_toNat h1, natCast_toNat h2, natCast_toNat h3]
  · unfold select
    simp only [C18Bits.maskOf_zero, limbN, List.range, List.range.loop, List.map_cons, List.map_nil,
      List.getD_cons_zero, List.getD_cons_succ]
    rw [C18Bits.sel_zero _ _ (toNat_lt k0), C18Bits.sel_zero _ _ (toNat_lt k1), C18Bits.sel_zero _ _ (toNat_lt k2),
      C18Bits.sel_zero _ _ (toNat_lt k3), natCast_toNat k0, natCast_toNat k1, natCast_toNat k2, natCast_toNat k3]

theorem swap_spec (v u : Limbs) (hv : Lim v) (hu : Lim u) : swap v u 1 = (u, v) ∧ swap v u 0 = (v, u) := by
  obtain ⟨a0, a1, a2, a3, rfl, h0, h1, h2, h3⟩ := lim_cases hv
  obtain ⟨b0, b1, b2, b3, rfl, k0, k1, k2, k3⟩ := lim_cases hu
  constructor
  · unfold swap
    simp only [C18Bits.maskOf_one, limbN, List.range, List.range.loop, List.map_cons, List.map_nil,
      List.getD_cons_zero, List.getD_cons_succ]
    rw [(C18Bits.swap_one _ _ (toNat_lt h0) (toNat_lt k0)).1, (C18Bits.swap_one _ _ (toNat_lt h0) (toNat_lt k0)).2,
      (C18Bits.swap_one _ _ (toNat_lt h1) (toNat_lt k1)).1, (C18Bits.swap_one _ _ (toNat_lt h1) (toNat_lt k1)).2,
      (C18Bits.swap_one _ _ (toNat_lt h2) (toNat_lt k2)).1, (C18Bits.swap_one _ _ (toNat_lt h2) (toNat_lt k2)).2,
      (C18Bits.swap_one _ _ (toNat_lt h3) (toNat_lt k3)).1, (C18Bits.swap_one _ _ (toNat_lt h3) (toNat_lt k3)).2,
      natCast_toNat h0, natCast_toNat h1, natCast_toNat h2, natCast_toNat h3,
      natCast_toNat k0, natCast_toNat k1, natCast_toNat k2, natCast_toNat k3]
  · unfold swap
    simp only [C18Bits.maskOf_zero, limbN, List.range, List.range.loop, List.map_cons, List.map_nil,
      List.getD_cons_zero, List.getD_cons_succ]
    rw [(C18Bits.swap_zero _ _).1, (C18Bits.swap_zero _ _).2, (C18Bits.swap_zero _ _).1, (C18Bits.swap_zero _ _).2,
      (C18Bits.swap_zero _ _).1, (C18Bits.swap_zero _ _).2, (C18Bits.swap_zero _ _).1, (C18Bits.swap_zero _ _).2,
      natCast_toNat h0, natCast_toNat h1, natCast_toNat h2, natCast_toNat h3,
      natCast_toNat k0, natCast_toNat k1, natCast_toNat k2, natCast_toNat k3]
/-! ## `Mul` -/

theorem ident0 (P : Prog) (cfg : Cfg) (ins : List Int) (g : Guarantee P cfg ins) (hm : cfg.modulus = 0)
    (hs : cfg.spec = []) : weightedSum (P.val ins) cfg.obs cfg.weights = 0 := by
  have h := g.value
  rw [hm, hs] at h
  have := Int.eq_of_sub_eq_zero (Int.zero_dvd.mp h)
  rw [this]; rfl

theorem bnd (P : Prog) (cfg : Cfg) (ins : List Int) (g : Guarantee P cfg ins) (k : Nat) (lo hi : Int) (o : Nat)
    (hk : k < cfg.obs.length) (h1 : cfg.outLo.getD k 0 = lo) (h2 : cfg.outHi.getD k 0 = hi)
    (h3 : cfg.obs.getD k 0 = o) : lo ≤ P.val ins o ∧ P.val ins o ≤ hi := by
  have := g.outBounds k hk; rwa [h1, h2, h3] at this

def LA : Poly := limbPoly 64 4 0 4
def LB : Poly := limbPoly 64 4 0 8
/-- `Mul` without its last op `r3 += c` -/
def mulP : Prog := Gen.Fe256.mulCore.take 190

def idCfg (obs : List Nat) (his ws : List Int) : Cfg :=
  { inLo := zeros 12, inHi := List.replicate 12 U64, obs := obs, outLo := zeros obs.length, outHi := his,
    weights := ws, spec := [], modulus := 0 }

/-- schoolbook product: Σ rᵢ·2^(64i) (i = 0..8) = a·b exactly -/
def cfgMulA : Cfg :=
  { inLo := zeros 12, inHi := List.replicate 12 U64, obs := [13, 93, 95, 97, 99, 101, 103, 105, 106],
    outLo := zeros 9, outHi := List.replicate 8 U64 ++ [3],
    weights := weights 64 9 0, spec := pmul LA LB, modulus := 0 }
/-- first fold of pass 1 (window r4..r7, multiplier r8) -/
def cfgMul2 : Cfg := idCfg [111, 113, 115, 117, 116, 99, 101, 103, 105, 106] [U64, U64, U64, U64, 1, U64, U64, U64, U64, 3]
  [1, 2 ^ 64, 2 ^ 128, 2 ^ 192, 2 ^ 256, -1, -(2 ^ 64), -(2 ^ 128), -(2 ^ 192), -K]
/-- the multiplier of the last fold: r4 = f4 + (carries out of r3 in pass 2) + K·f8 -/
def cfgMul3 : Cfg := idCfg [193, 156, 169, 180, 191, 116] [U64, 1, 1, 1, 1, 1] [1, -1, -1, -1, -1, -K]
def cfgMul4 : Cfg := idCfg [157, 156, 145, 154] [U64, 1, U64, 1] [1, 2 ^ 64, -1, -1]
def cfgMul5 : Cfg := idCfg [170, 169, 157, 166] [U64, 1, U64, 1] [1, 2 ^ 64, -1, -K]
def cfgMul6 : Cfg := idCfg [181, 180, 170, 178] [U64, 1, U64, 1] [1, 2 ^ 64, -1, -1]
def cfgMul7 : Cfg := idCfg [192, 191, 181, 189] [U64, 1, U64, 1] [1, 2 ^ 64, -1, -1]
def cfgMul8 : Cfg := idCfg [197, 199, 201, 200, 151, 188, 190, 193] [U64, U64, U64, 1, U64, U64, U64, U64]
  [1, 2 ^ 64, 2 ^ 128, 2 ^ 192, -1, -(2 ^ 64), -(2 ^ 128), -K]
/-- whole `Mul` core: result ≡ a·b (mod p); the no-overflow of the final `r3 += c` is the side obligation -/
def cfgMul : Cfg :=
  { inLo := zeros 12, inHi := List.replicate 12 U64, obs := Gen.Fe256.mulCore.outs,
    outLo := zeros 4, outHi := List.replicate 4 U64,
    weights := weights 64 4 0, spec := pmul LA LB, modulus := P }

theorem mulA_check : check mulP cfgMulA = true := by decide +kernel
theorem mul2_check : check mulP cfgMul2 = true := by decide +kernel
theorem mul3_check : check mulP cfgMul3 = true := by decide +kernel
theorem mul4_check : check mulP cfgMul4 = true := by decide +kernel
theorem mul5_check : check mulP cfgMul5 = true := by decide +kernel
theorem mul6_check : check mulP cfgMul6 = true := by decide +kernel
theorem mul7_check : check mulP cfgMul7 = true := by decide +kernel
theorem mul8_check : check mulP cfgMul8 = true := by decide +kernel
theorem mul_check : check Gen.Fe256.mulCore cfgMul = true := by decide +kernel

theorem evalLALB (a b c d e f g' h : Int) :
    evalPoly (fun i => [0, 0, 0, 0, a, b, c, d, e, f, g', h].getD i 0) (pmul LA LB)
      = val [a, b, c, d] * val [e, f, g', h] := by
  rw [evalPoly_pmul]
  simp only [LA, LB, limbPoly, evalPoly, evalMono, List.getD_cons_zero, List.getD_cons_succ, val]
  norm_num
  ring

/-- the product of two 256-bit values has no ninth word -/
theorem r8_zero (A B r0 r1 r2 r3 r4 r5 r6 r7 r8 : Int) (hA : 0 ≤ A ∧ A < 2 ^ 256) (hB : 0 ≤ B ∧ B < 2 ^ 256)
    (h0 : 0 ≤ r0) (h1 : 0 ≤ r1) (h2 : 0 ≤ r2) (h3 : 0 ≤ r3) (h4 : 0 ≤ r4) (h5 : 0 ≤ r5) (h6 : 0 ≤ r6)
    (h7 : 0 ≤ r7) (h8 : 0 ≤ r8)
    (hid : r0 + 2 ^ 64 * r1 + 2 ^ 128 * r2 + 2 ^ 192 * r3 + 2 ^ 256 * r4 + 2 ^ 320 * r5 + 2 ^ 384 * r6
      + 2 ^ 448 * r7 + 2 ^ 512 * r8 = A * B) : r8 = 0 := by
  have hAB : A * B < 2 ^ 256 * 2 ^ 256 := by
    have h1 : A * B ≤ (2 ^ 256 - 1) * (2 ^ 256 - 1) :=
      Int.mul_le_mul (by omega) (by omega) hB.1 (by norm_num)
    have : ((2 : Int) ^ 256 - 1) * (2 ^ 256 - 1) < 2 ^ 256 * 2 ^ 256 := by norm_num
    omega
  have : (2 : Int) ^ 256 * 2 ^ 256 = 2 ^ 512 := by norm_num
  omega

theorem mulP_side : sideOps mulP.body = [] := rfl

theorem mulCore_spec (x y : Limbs) (hx : Lim x) (hy : Lim y) :
    Lim (mulCore x y) ∧ P ∣ val (mulCore x y) - val x * val y := by
  obtain ⟨vx0, vx1⟩ := val_bounds hx
  obtain ⟨vy0, vy1⟩ := val_bounds hy
  obtain ⟨a, b, c, d, rfl, ha, hb, hc, hd⟩ := lim_cases hx
  obtain ⟨e, f, g', h, rfl, he, hf, hg, hh⟩ := lim_cases hy
  have hwi := within12 _ _ hx hy
  show Lim (run Gen.Fe256.mulCore [0, 0, 0, 0, a, b, c, d, e, f, g', h]) ∧
    P ∣ val (run Gen.Fe256.mulCore [0, 0, 0, 0, a, b, c, d, e, f, g', h]) - _
  change inputsWithin _ _ [0, 0, 0, 0, a, b, c, d, e, f, g', h] at hwi
  have hlen : [0, 0, 0, 0, a, b, c, d, e, f, g', h].length = 12 := rfl
  have hside : SideOK Gen.Fe256.mulCore [0, 0, 0, 0, a, b, c, d, e, f, g', h] := by
    apply sideOK_single _ _ hlen 190 192 200 rfl (by decide) (by decide) (by decide) rfl
    show mulP.val _ 192 + mulP.val _ 200 ≤ _
    have gA := check_sound mulP cfgMulA mulA_check _ hlen hwi (sideOK_of_none _ _ mulP_side)
    have g2 := check_sound mulP cfgMul2 mul2_check _ hlen hwi (sideOK_of_none _ _ mulP_side)
    have g3 := check_sound mulP cfgMul3 mul3_check _ hlen hwi (sideOK_of_none _ _ mulP_side)
    have g4 := check_sound mulP cfgMul4 mul4_check _ hlen hwi (sideOK_of_none _ _ mulP_side)
    have g5 := check_sound mulP cfgMul5 mul5_check _ hlen hwi (sideOK_of_none _ _ mulP_side)
    have g6 := check_sound mulP cfgMul6 mul6_check _ hlen hwi (sideOK_of_none _ _ mulP_side)
    have g7 := check_sound mulP cfgMul7 mul7_check _ hlen hwi (sideOK_of_none _ _ mulP_side)
    have g8 := check_sound mulP cfgMul8 mul8_check _ hlen hwi (sideOK_of_none _ _ mulP_side)
    -- the ninth product word is zero
    have idA := Int.eq_of_sub_eq_zero (Int.zero_dvd.mp gA.value)
    rw [show cfgMulA.spec = pmul LA LB from rfl, evalLALB] at idA
    simp only [cfgMulA, weights, weightedSum] at idA
    have i2 := ident0 _ _ _ g2 rfl rfl
    have i3 := ident0 _ _ _ g3 rfl rfl
    have i4 := ident0 _ _ _ g4 rfl rfl
    have i5 := ident0 _ _ _ g5 rfl rfl
    have i6 := ident0 _ _ _ g6 rfl rfl
    have i7 := ident0 _ _ _ g7 rfl rfl
    have i8 := ident0 _ _ _ g8 rfl rfl
    simp only [cfgMul2, cfgMul3, cfgMul4, cfgMul5, cfgMul6, cfgMul7, cfgMul8, idCfg, weightedSum, K] at i2 i3 i4 i5 i6 i7 i8
    have a0 := bnd _ _ _ gA 0 0 (2 ^ 64 - 1) 13 (by decide) rfl rfl rfl
    have a1 := bnd _ _ _ gA 1 0 (2 ^ 64 - 1) 93 (by decide) rfl rfl rfl
    have a2 := bnd _ _ _ gA 2 0 (2 ^ 64 - 1) 95 (by decide) rfl rfl rfl
    have a3 := bnd _ _ _ gA 3 0 (2 ^ 64 - 1) 97 (by decide) rfl rfl rfl
    have a4 := bnd _ _ _ gA 4 0 (2 ^ 64 - 1) 99 (by decide) rfl rfl rfl
    have a5 := bnd _ _ _ gA 5 0 (2 ^ 64 - 1) 101 (by decide) rfl rfl rfl
    have a6 := bnd _ _ _ gA 6 0 (2 ^ 64 - 1) 103 (by decide) rfl rfl rfl
    have a7 := bnd _ _ _ gA 7 0 (2 ^ 64 - 1) 105 (by decide) rfl rfl rfl
    have a8 := bnd _ _ _ gA 8 0 3 106 (by decide) rfl rfl rfl
    have p0 := bnd _ _ _ g2 0 0 (2 ^ 64 - 1) 111 (by decide) rfl rfl rfl
    have p1 := bnd _ _ _ g2 1 0 (2 ^ 64 - 1) 113 (by decide) rfl rfl rfl
    have p2 := bnd _ _ _ g2 2 0 (2 ^ 64 - 1) 115 (by decide) rfl rfl rfl
    have p3 := bnd _ _ _ g2 3 0 (2 ^ 64 - 1) 117 (by decide) rfl rfl rfl
    have p4 := bnd _ _ _ g2 4 0 1 116 (by decide) rfl rfl rfl
    have q0 := bnd _ _ _ g3 0 0 (2 ^ 64 - 1) 193 (by decide) rfl rfl rfl
    have q1 := bnd _ _ _ g3 1 0 1 156 (by decide) rfl rfl rfl
    have q2 := bnd _ _ _ g3 2 0 1 169 (by decide) rfl rfl rfl
    have q3 := bnd _ _ _ g3 3 0 1 180 (by decide) rfl rfl rfl
    have q4 := bnd _ _ _ g3 4 0 1 191 (by decide) rfl rfl rfl
    have s0 := bnd _ _ _ g4 0 0 (2 ^ 64 - 1) 157 (by decide) rfl rfl rfl
    have s2 := bnd _ _ _ g4 2 0 (2 ^ 64 - 1) 145 (by decide) rfl rfl rfl
    have s3 := bnd _ _ _ g4 3 0 1 154 (by decide) rfl rfl rfl
    have t0 := bnd _ _ _ g5 0 0 (2 ^ 64 - 1) 170 (by decide) rfl rfl rfl
    have t3 := bnd _ _ _ g5 3 0 1 166 (by decide) rfl rfl rfl
    have u0 := bnd _ _ _ g6 0 0 (2 ^ 64 - 1) 181 (by decide) rfl rfl rfl
    have u3 := bnd _ _ _ g6 3 0 1 178 (by decide) rfl rfl rfl
    have v0 := bnd _ _ _ g7 0 0 (2 ^ 64 - 1) 192 (by decide) rfl rfl rfl
    have v3 := bnd _ _ _ g7 3 0 1 189 (by decide) rfl rfl rfl
    have w0 := bnd _ _ _ g8 0 0 (2 ^ 64 - 1) 197 (by decide) rfl rfl rfl
    have w1 := bnd _ _ _ g8 1 0 (2 ^ 64 - 1) 199 (by decide) rfl rfl rfl
    have w2 := bnd _ _ _ g8 2 0 (2 ^ 64 - 1) 201 (by decide) rfl rfl rfl
    have w3 := bnd _ _ _ g8 3 0 1 200 (by decide) rfl rfl rfl
    have w4 := bnd _ _ _ g8 4 0 (2 ^ 64 - 1) 151 (by decide) rfl rfl rfl
    have w5 := bnd _ _ _ g8 5 0 (2 ^ 64 - 1) 188 (by decide) rfl rfl rfl
    have w6 := bnd _ _ _ g8 6 0 (2 ^ 64 - 1) 190 (by decide) rfl rfl rfl
    generalize mulP.val [0, 0, 0, 0, a, b, c, d, e, f, g', h] = ρ at *
    have hr8 : ρ 106 = 0 :=
      r8_zero _ _ (ρ 13) (ρ 93) (ρ 95) (ρ 97) (ρ 99) (ρ 101) (ρ 103) (ρ 105) (ρ 106) ⟨vx0, vx1⟩ ⟨vy0, vy1⟩
        a0.1 a1.1 a2.1 a3.1 a4.1 a5.1 a6.1 a7.1 a8.1 (by rw [← idA]; norm_num; ring)
    exact C18A.mul_side (ρ 106) (ρ 99) (ρ 101) (ρ 103) (ρ 105) (ρ 111) (ρ 113) (ρ 115) (ρ 117) (ρ 116)
      (ρ 193) (ρ 156) (ρ 169) (ρ 180) (ρ 191) (ρ 145) (ρ 154) (ρ 157) (ρ 166) (ρ 170) (ρ 178) (ρ 181) (ρ 189) (ρ 192)
      (ρ 151) (ρ 188) (ρ 190) (ρ 197) (ρ 199) (ρ 201) (ρ 200) hr8
      a4 a5 a6 a7 p0 p1 p2 p3 p4 q1 q2 q3 q4 s2 s3 s0 t3 t0 u3 u0 v3 v0 w4 w5 w6 w0 w1 w2 w3 q0.1
      (by linarith) (by linarith) (by linarith) (by linarith) (by linarith) (by linarith) (by linarith)
  have g := check_sound Gen.Fe256.mulCore cfgMul mul_check _ hlen hwi hside
  obtain ⟨l, v⟩ := core_out Gen.Fe256.mulCore cfgMul _ g rfl rfl rfl rfl rfl rfl
  refine ⟨l, ?_⟩
  rw [show cfgMul.spec = pmul LA LB from rfl, evalLALB] at v
  exact v

theorem mul_spec (x y : Limbs) (hx : Red x) (hy : Red y) :
    Red (mul x y) ∧ val (mul x y) = (val x * val y) % P := by
  obtain ⟨l, hv⟩ := mulCore_spec x y hx.1 hy.1
  obtain ⟨r, e⟩ := reduce_spec (mulCore x y) l
  refine ⟨r, ?_⟩
  show val (reduce (mulCore x y)) = _
  rw [e]
  exact Int.emod_eq_emod_iff_emod_sub_eq_zero.mpr (Int.emod_eq_zero_of_dvd hv)
/-! ## `Square`

Same reduction passes as `Mul`.  The product phase has one peculiarity: the second accumulation chain
starts with `bits.Add64(r2, a0a2, c)` where `c` is the (stale) carry out of the first chain, which has
already been added to `r8`.  `sq1_check` + `sq_c1_zero` show that this carry is always 0 (the partial
sum after the first chain is a sub-sum of x², hence < 2^512), so the stale use is harmless. -/

def LX : Poly := limbPoly 64 4 0 4
/-- `Square` without its last op `r3 += c` -/
def sqP : Prog := Gen.Fe256.squareCore.take 179

def idCfg8 (obs : List Nat) (his ws : List Int) : Cfg :=
  { inLo := zeros 8, inHi := List.replicate 8 U64, obs := obs, outLo := zeros obs.length, outHi := his,
    weights := ws, spec := [], modulus := 0 }

/-- after the first accumulation chain: (partial words) + 2^512·c₁ + (the words still to be added) = x² -/
def cfgSq1 : Cfg :=
  { inLo := zeros 8, inHi := List.replicate 8 U64,
    obs := [9, 11, 13, 54, 56, 58, 60, 62, 61,  13, 10, 19, 16, 23, 18, 25, 20,  11, 8, 17, 10, 19, 12, 21, 14],
    outLo := zeros 25, outHi := List.replicate 8 U64 ++ [1] ++ List.replicate 16 U64,
    weights := [1, 2 ^ 64, 2 ^ 128, 2 ^ 192, 2 ^ 256, 2 ^ 320, 2 ^ 384, 2 ^ 448, 2 ^ 512,
      2 ^ 128, 2 ^ 128, 2 ^ 192, 2 ^ 192, 2 ^ 256, 2 ^ 256, 2 ^ 320, 2 ^ 320,
      2 ^ 64, 2 ^ 64, 2 ^ 128, 2 ^ 128, 2 ^ 192, 2 ^ 192, 2 ^ 256, 2 ^ 256],
    spec := pmul LX LX, modulus := 0 }
/-- product phase: Σ rᵢ·2^(64i) (i = 0..8) = x² + 2^128·c₁ -/
def cfgSqA : Cfg :=
  { inLo := zeros 8, inHi := List.replicate 8 U64, obs := [9, 78, 80, 82, 84, 86, 88, 90, 91, 61],
    outLo := zeros 10, outHi := List.replicate 8 U64 ++ [3, 1],
    weights := weights 64 9 0 ++ [-(2 ^ 128)], spec := pmul LX LX, modulus := 0 }
def cfgSq2 : Cfg := idCfg8 [96, 98, 100, 102, 101, 84, 86, 88, 90, 91] [U64, U64, U64, U64, 1, U64, U64, U64, U64, 3]
  [1, 2 ^ 64, 2 ^ 128, 2 ^ 192, 2 ^ 256, -1, -(2 ^ 64), -(2 ^ 128), -(2 ^ 192), -K]
def cfgSq3 : Cfg := idCfg8 [178, 141, 154, 165, 176, 101] [U64, 1, 1, 1, 1, 1] [1, -1, -1, -1, -1, -K]
def cfgSq4 : Cfg := idCfg8 [142, 141, 130, 139] [U64, 1, U64, 1] [1, 2 ^ 64, -1, -1]
def cfgSq5 : Cfg := idCfg8 [155, 154, 142, 151] [U64, 1, U64, 1] [1, 2 ^ 64, -1, -K]
def cfgSq6 : Cfg := idCfg8 [166, 165, 155, 163] [U64, 1, U64, 1] [1, 2 ^ 64, -1, -1]
def cfgSq7 : Cfg := idCfg8 [177, 176, 166, 174] [U64, 1, U64, 1] [1, 2 ^ 64, -1, -1]
def cfgSq8 : Cfg := idCfg8 [182, 184, 186, 185, 136, 173, 175, 178] [U64, U64, U64, 1, U64, U64, U64, U64]
  [1, 2 ^ 64, 2 ^ 128, 2 ^ 192, -1, -(2 ^ 64), -(2 ^ 128), -K]
/-- whole `Square` core: result − 2^128·c₁ ≡ x² (mod p) -/
def cfgSq : Cfg :=
  { inLo := zeros 8, inHi := List.replicate 8 U64, obs := [182, 184, 186, 187, 61],
    outLo := zeros 5, outHi := List.replicate 4 U64 ++ [1],
    weights := [1, 2 ^ 64, 2 ^ 128, 2 ^ 192, -(2 ^ 128)], spec := pmul LX LX, modulus := P }

theorem sq1_check : check sqP cfgSq1 = true := by decide +kernel
theorem sqA_check : check sqP cfgSqA = true := by decide +kernel
theorem sq2_check : check sqP cfgSq2 = true := by decide +kernel
theorem sq3_check : check sqP cfgSq3 = true := by decide +kernel
theorem sq4_check : check sqP cfgSq4 = true := by decide +kernel
theorem sq5_check : check sqP cfgSq5 = true := by decide +kernel
theorem sq6_check : check sqP cfgSq6 = true := by decide +kernel
theorem sq7_check : check sqP cfgSq7 = true := by decide +kernel
theorem sq8_check : check sqP cfgSq8 = true := by decide +kernel
theorem sq_check : check Gen.Fe256.squareCore cfgSq = true := by decide +kernel

theorem sqP_side : sideOps sqP.body = [] := rfl
theorem sq_outs : Gen.Fe256.squareCore.outs = [182, 184, 186, 187] := rfl

theorem evalLXLX (a b c d : Int) :
    evalPoly (fun i => [0, 0, 0, 0, a, b, c, d].getD i 0) (pmul LX LX) = val [a, b, c, d] * val [a, b, c, d] := by
  rw [evalPoly_pmul]
  simp only [LX, limbPoly, evalPoly, evalMono, List.getD_cons_zero, List.getD_cons_succ, val]
  norm_num
  ring

/-- a non-negative sub-sum of x² plus 2^512·c equals x² < 2^512: c = 0 -/
theorem sq_c1_zero (X rest c1 : Int) (hX : 0 ≤ X ∧ X < 2 ^ 256) (hr : 0 ≤ rest) (hc : 0 ≤ c1)
    (hid : rest + 2 ^ 512 * c1 = X * X) : c1 = 0 := by
  have hXX : X * X < 2 ^ 256 * 2 ^ 256 := by
    have h1 : X * X ≤ (2 ^ 256 - 1) * (2 ^ 256 - 1) := Int.mul_le_mul (by omega) (by omega) hX.1 (by norm_num)
    have : ((2 : Int) ^ 256 - 1) * (2 ^ 256 - 1) < 2 ^ 256 * 2 ^ 256 := by norm_num
    omega
  have : (2 : Int) ^ 256 * 2 ^ 256 = 2 ^ 512 := by norm_num
  omega

theorem squareCore_spec (x : Limbs) (hx : Lim x) :
    Lim (squareCore x) ∧ P ∣ val (squareCore x) - val x * val x := by
  obtain ⟨vx0, vx1⟩ := val_bounds hx
  obtain ⟨a, b, c, d, rfl, ha, hb, hc, hd⟩ := lim_cases hx
  have hwi := within8 _ hx
  show Lim (run Gen.Fe256.squareCore [0, 0, 0, 0, a, b, c, d]) ∧
    P ∣ val (run Gen.Fe256.squareCore [0, 0, 0, 0, a, b, c, d]) - _
  change inputsWithin _ _ [0, 0, 0, 0, a, b, c, d] at hwi
  have hlen : [0, 0, 0, 0, a, b, c, d].length = 8 := rfl
  -- the stale carry c₁ is zero
  have g1 := check_sound sqP cfgSq1 sq1_check _ hlen hwi (sideOK_of_none _ _ sqP_side)
  have hc1 : sqP.val [0, 0, 0, 0, a, b, c, d] 61 = 0 := by
    have id1 := Int.eq_of_sub_eq_zero (Int.zero_dvd.mp g1.value)
    rw [show cfgSq1.spec = pmul LX LX from rfl, evalLXLX] at id1
    simp only [cfgSq1, weightedSum] at id1
    have nn : ∀ k, k < 25 → 0 ≤ sqP.val [0, 0, 0, 0, a, b, c, d] (cfgSq1.obs.getD k 0) := by
      intro k hk
      have := (g1.outBounds k hk).1
      have e : cfgSq1.outLo.getD k 0 = 0 := by
        simp only [cfgSq1, zeros, List.getD_eq_getElem?_getD, List.getElem?_replicate]
        split <;> rfl
      rwa [e] at this
    have n0 := nn 0 (by decide); have n1 := nn 1 (by decide); have n2 := nn 2 (by decide)
    have n3 := nn 3 (by decide); have n4 := nn 4 (by decide); have n5 := nn 5 (by decide)
    have n6 := nn 6 (by decide); have n7 := nn 7 (by decide); have n8 := nn 8 (by decide)
    have n10 := nn 10 (by decide); have n11 := nn 11 (by decide); have n12 := nn 12 (by decide)
    have n13 := nn 13 (by decide); have n14 := nn 14 (by decide); have n15 := nn 15 (by decide)
    have n16 := nn 16 (by decide); have n18 := nn 18 (by decide); have n19 := nn 19 (by decide)
    have n22 := nn 22 (by decide); have n23 := nn 23 (by decide); have n24 := nn 24 (by decide)
    simp only [cfgSq1, List.getD_cons_zero, List.getD_cons_succ] at n0 n1 n2 n3 n4 n5 n6 n7 n8 n10 n11 n12 n13 n14 n15 n16 n18 n19 n22 n23 n24
    generalize sqP.val [0, 0, 0, 0, a, b, c, d] = ρ at *
    refine sq_c1_zero (val [a, b, c, d])
      (1 * ρ 9 + (2 ^ 64 * ρ 11 + (2 ^ 128 * ρ 13 + (2 ^ 192 * ρ 54 + (2 ^ 256 * ρ 56 + (2 ^ 320 * ρ 58 +
        (2 ^ 384 * ρ 60 + (2 ^ 448 * ρ 62 + (2 ^ 128 * ρ 13 + (2 ^ 128 * ρ 10 + (2 ^ 192 * ρ 19 +
        (2 ^ 192 * ρ 16 + (2 ^ 256 * ρ 23 + (2 ^ 256 * ρ 18 + (2 ^ 320 * ρ 25 + (2 ^ 320 * ρ 20 +
        (2 ^ 64 * ρ 11 + (2 ^ 64 * ρ 8 + (2 ^ 128 * ρ 17 + (2 ^ 128 * ρ 10 + (2 ^ 192 * ρ 19 + (2 ^ 192 * ρ 12 +
        (2 ^ 256 * ρ 21 + 2 ^ 256 * ρ 14))))))))))))))))))))))) (ρ 61) ⟨vx0, vx1⟩ (by positivity) n8 ?_
    rw [← id1]; ring
  have hside : SideOK Gen.Fe256.squareCore [0, 0, 0, 0, a, b, c, d] := by
    apply sideOK_single _ _ hlen 179 177 185 rfl (by decide) (by decide) (by decide) rfl
    show sqP.val _ 177 + sqP.val _ 185 ≤ _
    have gA := check_sound sqP cfgSqA sqA_check _ hlen hwi (sideOK_of_none _ _ sqP_side)
    have g2 := check_sound sqP cfgSq2 sq2_check _ hlen hwi (sideOK_of_none _ _ sqP_side)
    have g3 := check_sound sqP cfgSq3 sq3_check _ hlen hwi (sideOK_of_none _ _ sqP_side)
    have g4 := check_sound sqP cfgSq4 sq4_check _ hlen hwi (sideOK_of_none _ _ sqP_side)
    have g5 := check_sound sqP cfgSq5 sq5_check _ hlen hwi (sideOK_of_none _ _ sqP_side)
    have g6 := check_sound sqP cfgSq6 sq6_check _ hlen hwi (sideOK_of_none _ _ sqP_side)
    have g7 := check_sound sqP cfgSq7 sq7_check _ hlen hwi (sideOK_of_none _ _ sqP_side)
    have g8 := check_sound sqP cfgSq8 sq8_check _ hlen hwi (sideOK_of_none _ _ sqP_side)
    have idA := Int.eq_of_sub_eq_zero (Int.zero_dvd.mp gA.value)
    rw [show cfgSqA.spec = pmul LX LX from rfl, evalLXLX] at idA
    simp only [cfgSqA, weights, weightedSum, List.cons_append, List.nil_append] at idA
    rw [hc1] at idA
    have i2 := ident0 _ _ _ g2 rfl rfl
    have i3 := ident0 _ _ _ g3 rfl rfl
    have i4 := ident0 _ _ _ g4 rfl rfl
    have i5 := ident0 _ _ _ g5 rfl rfl
    have i6 := ident0 _ _ _ g6 rfl rfl
    have i7 := ident0 _ _ _ g7 rfl rfl
    have i8 := ident0 _ _ _ g8 rfl rfl
    simp only [cfgSq2, cfgSq3, cfgSq4, cfgSq5, cfgSq6, cfgSq7, cfgSq8, idCfg8, weightedSum, K] at i2 i3 i4 i5 i6 i7 i8
    have a0 := bnd _ _ _ gA 0 0 (2 ^ 64 - 1) 9 (by decide) rfl rfl rfl
    have a1 := bnd _ _ _ gA 1 0 (2 ^ 64 - 1) 78 (by decide) rfl rfl rfl
    have a2 := bnd _ _ _ gA 2 0 (2 ^ 64 - 1) 80 (by decide) rfl rfl rfl
    have a3 := bnd _ _ _ gA 3 0 (2 ^ 64 - 1) 82 (by decide) rfl rfl rfl
    have a4 := bnd _ _ _ gA 4 0 (2 ^ 64 - 1) 84 (by decide) rfl rfl rfl
    have a5 := bnd _ _ _ gA 5 0 (2 ^ 64 - 1) 86 (by decide) rfl rfl rfl
    have a6 := bnd _ _ _ gA 6 0 (2 ^ 64 - 1) 88 (by decide) rfl rfl rfl
    have a7 := bnd _ _ _ gA 7 0 (2 ^ 64 - 1) 90 (by decide) rfl rfl rfl
    have a8 := bnd _ _ _ gA 8 0 3 91 (by decide) rfl rfl rfl
    have p0 := bnd _ _ _ g2 0 0 (2 ^ 64 - 1) 96 (by decide) rfl rfl rfl
    have p1 := bnd _ _ _ g2 1 0 (2 ^ 64 - 1) 98 (by decide) rfl rfl rfl
    have p2 := bnd _ _ _ g2 2 0 (2 ^ 64 - 1) 100 (by decide) rfl rfl rfl
    have p3 := bnd _ _ _ g2 3 0 (2 ^ 64 - 1) 102 (by decide) rfl rfl rfl
    have p4 := bnd _ _ _ g2 4 0 1 101 (by decide) rfl rfl rfl
    have q0 := bnd _ _ _ g3 0 0 (2 ^ 64 - 1) 178 (by decide) rfl rfl rfl
    have q1 := bnd _ _ _ g3 1 0 1 141 (by decide) rfl rfl rfl
    have q2 := bnd _ _ _ g3 2 0 1 154 (by decide) rfl rfl rfl
    have q3 := bnd _ _ _ g3 3 0 1 165 (by decide) rfl rfl rfl
    have q4 := bnd _ _ _ g3 4 0 1 176 (by decide) rfl rfl rfl
    have s0 := bnd _ _ _ g4 0 0 (2 ^ 64 - 1) 142 (by decide) rfl rfl rfl
    have s2 := bnd _ _ _ g4 2 0 (2 ^ 64 - 1) 130 (by decide) rfl rfl rfl
    have s3 := bnd _ _ _ g4 3 0 1 139 (by decide) rfl rfl rfl
    have t0 := bnd _ _ _ g5 0 0 (2 ^ 64 - 1) 155 (by decide) rfl rfl rfl
    have t3 := bnd _ _ _ g5 3 0 1 151 (by decide) rfl rfl rfl
    have u0 := bnd _ _ _ g6 0 0 (2 ^ 64 - 1) 166 (by decide) rfl rfl rfl
    have u3 := bnd _ _ _ g6 3 0 1 163 (by decide) rfl rfl rfl
    have v0 := bnd _ _ _ g7 0 0 (2 ^ 64 - 1) 177 (by decide) rfl rfl rfl
    have v3 := bnd _ _ _ g7 3 0 1 174 (by decide) rfl rfl rfl
    have w0 := bnd _ _ _ g8 0 0 (2 ^ 64 - 1) 182 (by decide) rfl rfl rfl
    have w1 := bnd _ _ _ g8 1 0 (2 ^ 64 - 1) 184 (by decide) rfl rfl rfl
    have w2 := bnd _ _ _ g8 2 0 (2 ^ 64 - 1) 186 (by decide) rfl rfl rfl
    have w3 := bnd _ _ _ g8 3 0 1 185 (by decide) rfl rfl rfl
    have w4 := bnd _ _ _ g8 4 0 (2 ^ 64 - 1) 136 (by decide) rfl rfl rfl
    have w5 := bnd _ _ _ g8 5 0 (2 ^ 64 - 1) 173 (by decide) rfl rfl rfl
    have w6 := bnd _ _ _ g8 6 0 (2 ^ 64 - 1) 175 (by decide) rfl rfl rfl
    clear g1 hc1
    generalize sqP.val [0, 0, 0, 0, a, b, c, d] = ρ at *
    have hr8 : ρ 91 = 0 :=
      r8_zero _ _ (ρ 9) (ρ 78) (ρ 80) (ρ 82) (ρ 84) (ρ 86) (ρ 88) (ρ 90) (ρ 91) ⟨vx0, vx1⟩ ⟨vx0, vx1⟩
        a0.1 a1.1 a2.1 a3.1 a4.1 a5.1 a6.1 a7.1 a8.1 (by rw [← idA]; norm_num; ring)
    exact C18A.mul_side (ρ 91) (ρ 84) (ρ 86) (ρ 88) (ρ 90) (ρ 96) (ρ 98) (ρ 100) (ρ 102) (ρ 101)
      (ρ 178) (ρ 141) (ρ 154) (ρ 165) (ρ 176) (ρ 130) (ρ 139) (ρ 142) (ρ 151) (ρ 155) (ρ 163) (ρ 166) (ρ 174) (ρ 177)
      (ρ 136) (ρ 173) (ρ 175) (ρ 182) (ρ 184) (ρ 186) (ρ 185) hr8
      a4 a5 a6 a7 p0 p1 p2 p3 p4 q1 q2 q3 q4 s2 s3 s0 t3 t0 u3 u0 v3 v0 w4 w5 w6 w0 w1 w2 w3 q0.1
      (by linarith) (by linarith) (by linarith) (by linarith) (by linarith) (by linarith) (by linarith)
  have g := check_sound Gen.Fe256.squareCore cfgSq sq_check _ hlen hwi hside
  have hout : run Gen.Fe256.squareCore [0, 0, 0, 0, a, b, c, d]
      = Gen.Fe256.squareCore.outs.map (Gen.Fe256.squareCore.val _) := outputs_true_eq _ cfgSq _ g
  have hc1' : Gen.Fe256.squareCore.val [0, 0, 0, 0, a, b, c, d] 61 = 0 := by
    rw [← val_take Gen.Fe256.squareCore _ hlen 179 61 (by decide) (by decide)]; exact hc1
  have o0 := bnd _ _ _ g 0 0 (2 ^ 64 - 1) 182 (by decide) rfl rfl rfl
  have o1 := bnd _ _ _ g 1 0 (2 ^ 64 - 1) 184 (by decide) rfl rfl rfl
  have o2 := bnd _ _ _ g 2 0 (2 ^ 64 - 1) 186 (by decide) rfl rfl rfl
  have o3 := bnd _ _ _ g 3 0 (2 ^ 64 - 1) 187 (by decide) rfl rfl rfl
  have hv := g.value
  rw [show cfgSq.spec = pmul LX LX from rfl, evalLXLX, show cfgSq.modulus = P from rfl] at hv
  simp only [cfgSq, weightedSum] at hv
  rw [hc1'] at hv
  rw [hout, sq_outs]
  show Lim [_, _, _, _] ∧ P ∣ val [_, _, _, _] - _
  refine ⟨lim_mk _ _ _ _ o0 o1 o2 o3, ?_⟩
  rw [val4]
  have e : ∀ (r0 r1 r2 r3 S : Int), 1 * r0 + (2 ^ 64 * r1 + (2 ^ 128 * r2 + (2 ^ 192 * r3 + (-(2 ^ 128) * 0 + 0)))) - S
      = r0 + 2 ^ 64 * r1 + 2 ^ 128 * r2 + 2 ^ 192 * r3 - S := by intros; ring
  rw [e] at hv
  exact hv

theorem square_spec (x : Limbs) (hx : Red x) :
    Red (square x) ∧ val (square x) = (val x * val x) % P := by
  obtain ⟨l, hv⟩ := squareCore_spec x hx.1
  obtain ⟨r, e⟩ := reduce_spec (squareCore x) l
  refine ⟨r, ?_⟩
  show val (reduce (squareCore x)) = _
  rw [e]
  exact Int.emod_eq_emod_iff_emod_sub_eq_zero.mpr (Int.emod_eq_zero_of_dvd hv)
/-! ## residues: `Rep v x` — `v` is fully reduced and represents the residue of `x` -/

def Rep (v : Limbs) (x : Int) : Prop := Red v ∧ val v = x % P

theorem rep_self {v : Limbs} (h : Red v) : Rep v (val v) :=
  ⟨h, (Int.emod_eq_of_lt (val_bounds h.1).1 h.2).symm⟩

theorem add_rep {a b : Limbs} {x y : Int} (ha : Rep a x) (hb : Rep b y) : Rep (add a b) (x + y) := by
  obtain ⟨r, e⟩ := add_spec a b ha.1 hb.1
  exact ⟨r, by rw [e, ha.2, hb.2, ← Int.add_emod]⟩
theorem sub_rep {a b : Limbs} {x y : Int} (ha : Rep a x) (hb : Rep b y) : Rep (sub a b) (x - y) := by
  obtain ⟨r, e⟩ := sub_spec a b ha.1 hb.1
  exact ⟨r, by rw [e, ha.2, hb.2, ← Int.sub_emod]⟩
theorem mul_rep {a b : Limbs} {x y : Int} (ha : Rep a x) (hb : Rep b y) : Rep (mul a b) (x * y) := by
  obtain ⟨r, e⟩ := mul_spec a b ha.1 hb.1
  exact ⟨r, by rw [e, ha.2, hb.2, ← Int.mul_emod]⟩
theorem neg_rep {a : Limbs} {x : Int} (ha : Rep a x) : Rep (neg a) (-x) := by
  obtain ⟨r, e⟩ := neg_spec a ha.1
  refine ⟨r, ?_⟩
  rw [e, ha.2]
  have h1 : -x = -(x % P) + P * (-(x / P)) := by
    have := Int.emod_add_mul_ediv x P
    linarith
  rw [h1, Int.add_mul_emod_self_left]
theorem square_rep {a : Limbs} {x : Int} (ha : Rep a x) : Rep (square a) (x * x) := by
  obtain ⟨r, e⟩ := square_spec a ha.1
  exact ⟨r, by rw [e, ha.2, ← Int.mul_emod]⟩

theorem one_rep : Rep one 1 := ⟨⟨lim_mk 1 0 0 0 (by decide) (by decide) (by decide) (by decide), by decide⟩, by decide⟩
theorem zero_rep : Rep zero 0 := ⟨⟨lim_mk 0 0 0 0 (by decide) (by decide) (by decide) (by decide), by decide⟩, by decide⟩

/-! ## `Inv`: the addition chain computes z^(p−2) -/

theorem sq_pow {a : Limbs} {x : Int} {e : Nat} (h : Rep a (x ^ e)) : Rep (square a) (x ^ (e * 2)) := by
  have := square_rep h
  rwa [← pow_add, ← Nat.mul_two] at this
theorem sqn_pow {x : Int} : ∀ (n : Nat) {a : Limbs} {e : Nat}, Rep a (x ^ e) → Rep (sqn n a) (x ^ (e * 2 ^ n))
  | 0, a, e, h => by simpa [sqn] using h
  | n + 1, a, e, h => by
    have := sqn_pow n (sq_pow h)
    rw [Nat.mul_assoc, ← Nat.pow_succ'] at this
    exact this
theorem mul_pow {a b : Limbs} {x : Int} {e1 e2 : Nat} (ha : Rep a (x ^ e1)) (hb : Rep b (x ^ e2)) :
    Rep (mul a b) (x ^ (e1 + e2)) := by
  have := mul_rep ha hb
  rwa [← pow_add] at this

/-- p as a natural number -/
def pNat : Nat := 2 ^ 256 - 2 ^ 32 - 977

theorem sqn_pow' {x : Int} (n e' : Nat) {a : Limbs} {e : Nat} (h : Rep a (x ^ e)) (he : e * 2 ^ n = e') :
    Rep (sqn n a) (x ^ e') := he ▸ sqn_pow n h
theorem mul_pow' {a b : Limbs} {x : Int} {e1 e2 : Nat} (e : Nat) (ha : Rep a (x ^ e1)) (hb : Rep b (x ^ e2))
    (he : e1 + e2 = e) : Rep (mul a b) (x ^ e) := he ▸ mul_pow ha hb

/-- `Inv` computes z^(p−2) (fully reduced), unconditionally -/
theorem inv_rep {z : Limbs} {x : Int} (hz : Rep z x) : Rep (inv z) (x ^ (pNat - 2)) := by
  have h1 : Rep z (x ^ 1) := by simpa using hz
  have z1 := sqn_pow' 1 2 h1 (by norm_num)
  have z2 := sqn_pow' 1 4 z1 (by norm_num)
  have z3 := sqn_pow' 1 8 z2 (by norm_num)
  have z4a := mul_pow' 3 h1 z1 (by norm_num)
  have z4b := mul_pow' 7 z4a z2 (by norm_num)
  have z4 := mul_pow' 15 z4b z3 (by norm_num)
  have z8 := mul_pow' 255 (sqn_pow' 4 240 z4 (by norm_num)) z4 (by norm_num)
  have z16 := mul_pow' 65535 (sqn_pow' 8 65280 z8 (by norm_num)) z8 (by norm_num)
  have z32 := mul_pow' 4294967295 (sqn_pow' 16 4294901760 z16 (by norm_num)) z16 (by norm_num)
  have z64 := mul_pow' 18446744073709551615 (sqn_pow' 32 18446744069414584320 z32 (by norm_num)) z32 (by norm_num)
  have z128 := mul_pow' 340282366920938463463374607431768211455 (sqn_pow' 64 340282366920938463444927863358058659840 z64 (by norm_num)) z64 (by norm_num)
  have x1 := mul_pow' 6277101735386680763835789423207666416102355444464034512895 (sqn_pow' 64 6277101735386680763835789423207666416083908700390324961280 z128 (by norm_num)) z64 (by norm_num)
  have x2 := mul_pow' 411376139330301510538742295639337626245683966408394965837152255 (sqn_pow' 16 411376139330301510538742295639337626245683966408394965837086720 x1 (by norm_num)) z16 (by norm_num)
  have x3 := mul_pow' 105312291668557186697918027683670432318895095400549111254310977535 (sqn_pow' 8 105312291668557186697918027683670432318895095400549111254310977280 x2 (by norm_num)) z8 (by norm_num)
  have x4 := mul_pow' 1684996666696914987166688442938726917102321526408785780068975640575 (sqn_pow' 4 1684996666696914987166688442938726917102321526408785780068975640560 x3 (by norm_num)) z4 (by norm_num)
  have x5 := mul_pow' 3369993333393829974333376885877453834204643052817571560137951281151 (sqn_pow' 1 3369993333393829974333376885877453834204643052817571560137951281150 x4 (by norm_num)) h1 (by norm_num)
  have x6 := mul_pow' 6739986666787659948666753771754907668409286105635143120275902562303 (sqn_pow' 1 6739986666787659948666753771754907668409286105635143120275902562302 x5 (by norm_num)) h1 (by norm_num)
  have x7 := mul_pow' 13479973333575319897333507543509815336818572211270286240551805124607 (sqn_pow' 1 13479973333575319897333507543509815336818572211270286240551805124606 x6 (by norm_num)) h1 (by norm_num)
  have x8 := mul_pow' 1766847064778384329583297500742918515827483896875618958121606201292554239 (sqn_pow' 17 1766847064778384329583297500742918515827483896875618958121606201292488704 x7 (by norm_num)) z16 (by norm_num)
  have x9 := mul_pow' 28269553036454149273332760011886696253239742350009903329945699220680867839 (sqn_pow' 4 28269553036454149273332760011886696253239742350009903329945699220680867824 x8 (by norm_num)) z4 (by norm_num)
  have x10 := mul_pow' 56539106072908298546665520023773392506479484700019806659891398441361735679 (sqn_pow' 1 56539106072908298546665520023773392506479484700019806659891398441361735678 x9 (by norm_num)) h1 (by norm_num)
  have x11 := mul_pow' 113078212145816597093331040047546785012958969400039613319782796882723471359 (sqn_pow' 1 113078212145816597093331040047546785012958969400039613319782796882723471358 x10 (by norm_num)) h1 (by norm_num)
  have x12 := mul_pow' 3618502788666131106986593281521497120414687020801267626233049500247151083489 (sqn_pow' 5 3618502788666131106986593281521497120414687020801267626233049500247151083488 x11 (by norm_num)) h1 (by norm_num)
  have x13 := mul_pow' 14474011154664524427946373126085988481658748083205070504932198000988604333957 (sqn_pow' 2 14474011154664524427946373126085988481658748083205070504932198000988604333956 x12 (by norm_num)) h1 (by norm_num)
  have x14 := mul_pow' 28948022309329048855892746252171976963317496166410141009864396001977208667915 (sqn_pow' 1 28948022309329048855892746252171976963317496166410141009864396001977208667914 x13 (by norm_num)) h1 (by norm_num)
  have x15 := mul_pow' 115792089237316195423570985008687907853269984665640564039457584007908834671661 (sqn_pow' 2 115792089237316195423570985008687907853269984665640564039457584007908834671660 x14 (by norm_num)) h1 (by norm_num)
  have hp : pNat - 2 = 115792089237316195423570985008687907853269984665640564039457584007908834671661 := by unfold pNat; norm_num
  rw [hp]
  exact x15

theorem P_eq_pNat : P = (pNat : Int) := by unfold P pNat; norm_num

/-- for z ≢ 0, `z · Inv(z) = 1` — under the explicit HYPOTHESIS that p is prime (Fermat) -/
theorem inv_mul_cancel (hp : Nat.Prime pNat) {z : Limbs} {x : Int} (hz : Rep z x) (hnz : ¬ P ∣ x) :
    Rep (mul z (inv z)) 1 := by
  have h := mul_rep hz (inv_rep hz)
  refine ⟨h.1, ?_⟩
  rw [h.2]
  have hc : IsCoprime x (pNat : Int) := by
    rw [Int.isCoprime_iff_gcd_eq_one]
    have := (Nat.Prime.coprime_iff_not_dvd hp (n := x.natAbs)).mpr (by
      intro hd
      apply hnz
      rw [P_eq_pNat]
      exact Int.natCast_dvd.mpr hd)
    rw [Int.gcd_comm]
    exact this
  have hf := Int.ModEq.pow_card_sub_one_eq_one hp hc
  have e : x * x ^ (pNat - 2) = x ^ (pNat - 1) := by
    rw [← pow_succ']
    have h2 : pNat - 2 + 1 = pNat - 1 := by
      have : 2 ≤ pNat := by unfold pNat; norm_num
      omega
    rw [h2]
  rw [e, P_eq_pNat]
  exact hf

/-! ## closure under arbitrary operation sequences (destination may alias any operand) -/

/-- instructions over a register file of field elements; `d` may coincide with an operand -/
inductive FeInstr where
  | add (d a b : Nat) | sub (d a b : Nat) | mul (d a b : Nat)
  | neg (d a : Nat) | sq (d a : Nat) | inv (d a : Nat) | set (d a : Nat)
  | sel (d a b : Nat) (cond : Bool)
  | swap (a b : Nat) (cond : Bool)
  | one (d : Nat) | zero (d : Nat)
  | setBytes (d : Nat) (x : Bytes)

def regGet (rs : List Limbs) (i : Nat) : Limbs := rs.getD i zero
def b2i (c : Bool) : Int := if c then 1 else 0

/-- one step on limb vectors: the model functions of `Model.Fe256` (a failing `SetBytes` — error or
    panic — leaves the register file as it was: every caller in goat returns the error) -/
def feStep (rs : List Limbs) : FeInstr → List Limbs
  | .add d a b => rs.set d (add (regGet rs a) (regGet rs b))
  | .sub d a b => rs.set d (sub (regGet rs a) (regGet rs b))
  | .mul d a b => rs.set d (mul (regGet rs a) (regGet rs b))
  | .neg d a => rs.set d (neg (regGet rs a))
  | .sq d a => rs.set d (square (regGet rs a))
  | .inv d a => rs.set d (inv (regGet rs a))
  | .set d a => rs.set d (set (regGet rs a))
  | .sel d a b c => rs.set d (select (regGet rs a) (regGet rs b) (b2i c))
  | .swap a b c =>
    let r := swap (regGet rs a) (regGet rs b) (b2i c)
    (rs.set a r.1).set b r.2
  | .one d => rs.set d one
  | .zero d => rs.set d zero
  | .setBytes d x => match setBytes x with
    | .ok v => rs.set d v
    | _ => rs

/-- the mathematical meaning of the same instruction on integers (read modulo p) -/
def feDen (vs : List Int) : FeInstr → List Int
  | .add d a b => vs.set d (vs.getD a 0 + vs.getD b 0)
  | .sub d a b => vs.set d (vs.getD a 0 - vs.getD b 0)
  | .mul d a b => vs.set d (vs.getD a 0 * vs.getD b 0)
  | .neg d a => vs.set d (- vs.getD a 0)
  | .sq d a => vs.set d (vs.getD a 0 * vs.getD a 0)
  | .inv d a => vs.set d (vs.getD a 0 ^ (pNat - 2))
  | .set d a => vs.set d (vs.getD a 0)
  | .sel d a b c => vs.set d (if c then vs.getD a 0 else vs.getD b 0)
  | .swap a b c =>
    if c then (vs.set a (vs.getD b 0)).set b (vs.getD a 0) else (vs.set a (vs.getD a 0)).set b (vs.getD b 0)
  | .one d => vs.set d 1
  | .zero d => vs.set d 0
  | .setBytes d x => if x.length ≤ 32 ∧ (Bytes.decodeBE x : Int) < P then vs.set d (Bytes.decodeBE x) else vs

def RegsRep (rs : List Limbs) (vs : List Int) : Prop :=
  rs.length = vs.length ∧ ∀ i, i < rs.length → Rep (regGet rs i) (vs.getD i 0)

theorem regsRep_get {rs : List Limbs} {vs : List Int} (h : RegsRep rs vs) (i : Nat) :
    Rep (regGet rs i) (vs.getD i 0) := by
  by_cases hi : i < rs.length
  · exact h.2 i hi
  · have h1 : regGet rs i = zero := by
      unfold regGet; rw [List.getD_eq_getElem?_getD, List.getElem?_eq_none (by omega)]; rfl
    have h2 : vs.getD i 0 = 0 := by
      rw [List.getD_eq_getElem?_getD, List.getElem?_eq_none (by rw [← h.1]; omega)]; rfl
    rw [h1, h2]; exact zero_rep

theorem regsRep_set {rs : List Limbs} {vs : List Int} (h : RegsRep rs vs) (d : Nat) (v : Limbs) (x : Int)
    (hv : Rep v x) : RegsRep (rs.set d v) (vs.set d x) := by
  refine ⟨by simp [h.1], ?_⟩
  intro i hi
  simp only [List.length_set] at hi
  unfold regGet
  by_cases hd : d = i
  · subst hd
    rw [List.getD_eq_getElem?_getD, List.getD_eq_getElem?_getD, List.getElem?_set_self hi,
        List.getElem?_set_self (by rw [← h.1]; exact hi)]
    exact hv
  · rw [List.getD_eq_getElem?_getD, List.getD_eq_getElem?_getD, List.getElem?_set_ne hd, List.getElem?_set_ne hd]
    have := h.2 i hi
    unfold regGet at this
    rw [List.getD_eq_getElem?_getD, List.getD_eq_getElem?_getD] at this
    exact this

theorem feStep_rep {rs : List Limbs} {vs : List Int} (h : RegsRep rs vs) (ins : FeInstr) :
    RegsRep (feStep rs ins) (feDen vs ins) := by
  cases ins with
  | add d a b => exact regsRep_set h d _ _ (add_rep (regsRep_get h a) (regsRep_get h b))
  | sub d a b => exact regsRep_set h d _ _ (sub_rep (regsRep_get h a) (regsRep_get h b))
  | mul d a b => exact regsRep_set h d _ _ (mul_rep (regsRep_get h a) (regsRep_get h b))
  | neg d a => exact regsRep_set h d _ _ (neg_rep (regsRep_get h a))
  | sq d a => exact regsRep_set h d _ _ (square_rep (regsRep_get h a))
  | inv d a => exact regsRep_set h d _ _ (inv_rep (regsRep_get h a))
  | set d a => exact regsRep_set h d _ _ (regsRep_get h a)
  | sel d a b c =>
    have ha := regsRep_get h a; have hb := regsRep_get h b
    obtain ⟨s1, s0⟩ := select_spec _ _ ha.1.1 hb.1.1
    cases c
    · simp only [feStep, feDen, b2i, Bool.false_eq_true, if_false, s0]; exact regsRep_set h d _ _ hb
    · simp only [feStep, feDen, b2i, if_true, s1]; exact regsRep_set h d _ _ ha
  | swap a b c =>
    have ha := regsRep_get h a; have hb := regsRep_get h b
    obtain ⟨s1, s0⟩ := swap_spec _ _ ha.1.1 hb.1.1
    cases c
    · simp only [feStep, feDen, b2i, Bool.false_eq_true, if_false, s0]
      exact regsRep_set (regsRep_set h a _ _ ha) b _ _ hb
    · simp only [feStep, feDen, b2i, if_true, s1]
      exact regsRep_set (regsRep_set h a _ _ hb) b _ _ ha
  | one d => exact regsRep_set h d _ _ one_rep
  | zero d => exact regsRep_set h d _ _ zero_rep
  | setBytes d x =>
    obtain ⟨hp, hq⟩ := setBytes_spec x
    simp only [feStep, feDen]
    by_cases hl : x.length ≤ 32
    · obtain ⟨hok, herr⟩ := hq hl
      by_cases hv : (Bytes.decodeBE x : Int) < P
      · obtain ⟨v, e, r, ev⟩ := hok hv
        rw [e, if_pos ⟨hl, hv⟩]
        exact regsRep_set h d _ _ ⟨r, by rw [ev, Int.emod_eq_of_lt (by positivity) hv]⟩
      · rw [herr (not_lt.mp hv), if_neg (fun c => hv c.2)]; exact h
    · rw [hp (by omega), if_neg (fun c => hl c.1)]; exact h

/-- **closure**: every finite sequence of field operations (any aliasing of destination and operand
    registers), started from a register file of fully reduced elements, yields fully reduced elements
    holding exactly the interpreted residues -/
theorem seq_closed (prog : List FeInstr) (rs : List Limbs) (vs : List Int) (h : RegsRep rs vs) :
    RegsRep (prog.foldl feStep rs) (prog.foldl feDen vs) := by
  induction prog generalizing rs vs with
  | nil => exact h
  | cons i rest ih => exact ih _ _ (feStep_rep h i)

/-- non-vacuity -/
example : RegsRep [] [] := ⟨rfl, fun i hi => by cases hi⟩
example : RegsRep [one, zero] [1, 0] := by
  refine ⟨rfl, fun i hi => ?_⟩
  match i, hi with
  | 0, _ => exact one_rep
  | 1, _ => exact zero_rep
end C18
