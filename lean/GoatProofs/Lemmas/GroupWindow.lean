import Goat.Model.WindowMul
import GoatProofs.Lemmas.GroupNafLoop
import Mathlib.Tactic.Module
import Mathlib.Algebra.Module.NatInt
/-
Lemmas for the windowed multiplications (GRP), edwards448 part.

Everything is proved for point operations that are correct only UP TO a representation relation
`Rep : C → G → Prop` (`C` = concrete points, `G` = an abstract commutative group): `Respects ops Rep`.
The case `C = G`, `Rep = Eq`, `ops = groupOps` gives the equational statements.
-/
namespace Model.WindowMul
open Model.Recode (digitsValue wrapI8 wrapI8_of_range)

variable {C G : Type} [AddCommGroup G]

/-- the concrete operations compute the group operations on representatives -/
structure Respects (ops : GroupOps C) (Rep : C → G → Prop) : Prop where
  zero : Rep ops.zero 0
  add : ∀ {p q x y}, Rep p x → Rep q y → Rep (ops.add p q) (x + y)
  double : ∀ {p x}, Rep p x → Rep (ops.double p) (x + x)
  neg : ∀ {p x}, Rep p x → Rep (ops.neg p) (-x)

/-- the group itself as a record of operations -/
def groupOps (G : Type) [AddCommGroup G] : GroupOps G :=
  { zero := 0, add := (· + ·), double := fun x => x + x, neg := fun x => -x }

theorem respects_groupOps : Respects (groupOps G) (Eq : G → G → Prop) where
  zero := rfl
  add := by intro p q x y h1 h2; subst h1; subst h2; rfl
  double := by intro p x h; subst h; rfl
  neg := by intro p x h; subst h; rfl

/-- transport along an equation in `G` -/
theorem Respects.cast {ops : GroupOps C} {Rep : C → G → Prop} (_ : Respects ops Rep) {p : C} {x y : G}
    (h : Rep p x) (e : x = y) : Rep p y := e ▸ h

omit [AddCommGroup G] in
theorem chainAdd_length (ops : GroupOps C) (step : C) :
    ∀ (n : Nat) (prev : C), (chainAdd ops step n prev).length = n
  | 0, _ => rfl
  | n + 1, prev => by simp [chainAdd, chainAdd_length ops step n]

omit [AddCommGroup G] in
theorem lookupInit8_length (ops : GroupOps C) (p : C) : (lookupInit8 ops p).length = 8 := by
  simp [lookupInit8, chainAdd_length]

omit [AddCommGroup G] in
theorem nafTable_length (ops : GroupOps C) (q : C) (n : Nat) : (nafTable ops q n).length = n := by
  cases n with
  | zero => rfl
  | succ n => simp [nafTable, chainAdd_length]

section
variable {ops : GroupOps C} {Rep : C → G → Prop} (R : Respects ops Rep)
include R

theorem Respects.sub {p q : C} {x y : G} (h1 : Rep p x) (h2 : Rep q y) : Rep (ops.sub p q) (x - y) := by
  rw [sub_eq_add_neg]; exact R.add h1 (R.neg h2)

theorem Respects.double4 {p : C} {x : G} (h : Rep p x) : Rep (ops.double4 p) ((16 : ℤ) • x) :=
  R.cast (R.double (R.double (R.double (R.double h)))) (by module)

theorem Respects.addSelf4 {p : C} {x : G} (h : Rep p x) : Rep (ops.addSelf4 p) ((16 : ℤ) • x) := by
  have h1 := R.add h h
  have h2 := R.add h1 h1
  have h3 := R.add h2 h2
  exact R.cast (R.add h3 h3) (by module)

theorem Respects.addSelf8 {p : C} {x : G} (h : Rep p x) : Rep (addSelf8 ops p) ((256 : ℤ) • x) :=
  R.cast (R.addSelf4 (R.addSelf4 h)) (by module)

/-! ### tables built by repeated addition -/

theorem chainAdd_rep {step : C} {y : G} (hs : Rep step y) (d : C) :
    ∀ (n : Nat) (prev : C) (z : G), Rep prev z → ∀ i, i < n →
      Rep ((chainAdd ops step n prev).getD i d) (z + ((i + 1 : ℕ) : ℤ) • y)
  | 0, _, _, _, i, hi => by omega
  | n + 1, prev, z, hp, 0, _ => by
    simp only [chainAdd, List.getD_cons_zero]
    exact R.cast (R.add hp hs) (by push_cast; module)
  | n + 1, prev, z, hp, i + 1, hi => by
    simp only [chainAdd, List.getD_cons_succ]
    exact R.cast (chainAdd_rep hs d n _ _ (R.add hp hs) i (by omega)) (by push_cast; module)

/-- `lookupTable.Init`: `points[i] = (i+1)·P` -/
theorem lookupInit8_rep {p : C} {x : G} (hp : Rep p x) (i : Nat) (hi : i < 8) :
    Rep ((lookupInit8 ops p).getD i ops.zero) (((i + 1 : ℕ) : ℤ) • x) := by
  cases i with
  | zero => simp only [lookupInit8, List.getD_cons_zero]; exact R.cast hp (by simp)
  | succ i =>
    simp only [lookupInit8, List.getD_cons_succ]
    exact R.cast (chainAdd_rep R hp ops.zero 7 p x hp i (by omega)) (by push_cast; module)

/-- `nafLookupTable5/8.Init`: `points[i] = (2i+1)·Q` -/
theorem nafTable_rep {q : C} {x : G} (hq : Rep q x) (n i : Nat) (hi : i < n) (d : C) :
    Rep ((nafTable ops q n).getD i d) (((2 * i + 1 : ℕ) : ℤ) • x) := by
  cases n with
  | zero => omega
  | succ n =>
    cases i with
    | zero => simp only [nafTable, List.getD_cons_zero]; exact R.cast hq (by simp)
    | succ i =>
      simp only [nafTable, List.getD_cons_succ]
      exact R.cast (chainAdd_rep R (R.add hq hq) d n q x hq i (by omega)) (by push_cast; module)

end

/-! ### constant-time selection chains -/

omit [AddCommGroup G] in
theorem foldl_select (f : Nat → C) (z : C) (a : Nat) : ∀ n : Nat,
    (List.range' 1 n).foldl (fun dest i => if a = i then f i else dest) z
      = if 1 ≤ a ∧ a ≤ n then f a else z
  | 0 => by
    show z = _
    rw [if_neg (by omega)]
  | n + 1 => by
    rw [List.range'_1_concat, List.foldl_append, foldl_select f z a n]
    simp only [List.foldl_cons, List.foldl_nil]
    by_cases h : a = 1 + n
    · subst h; rw [if_pos rfl, if_pos ⟨by omega, by omega⟩]
    · simp only [h, if_false]
      by_cases h2 : 1 ≤ a ∧ a ≤ n
      · rw [if_pos h2, if_pos ⟨h2.1, by omega⟩]
      · rw [if_neg h2, if_neg (by omega)]

theorem absI8_eq (x : Int) (h1 : -127 ≤ x) (h2 : x ≤ 127) : absI8 x = x.natAbs := by
  unfold absI8
  by_cases hx : x < 0
  · simp only [hx, if_true]
    rw [wrapI8_of_range (by omega) (by omega)]
    simp only [show ¬ ((-1 : Int) = 0) by omega, if_false]
    omega
  · simp only [hx, if_false, if_true]
    rw [wrapI8_of_range (by omega) (by omega)]
    omega

section
variable {ops : GroupOps C} {Rep : C → G → Prop} (R : Respects ops Rep)
include R

/-- `lookupTable.SelectInto` on any table with `points[i] = (i+1)·P`: the result is `d·P` for
    −8 ≤ d ≤ 8 (0 gives the identity, negative digits the negated entry) -/
theorem lookupSelect8_rep {tbl : List C} {x : G}
    (hT : ∀ i, i < 8 → Rep (tbl.getD i ops.zero) (((i + 1 : ℕ) : ℤ) • x))
    (d : Int) (h1 : -8 ≤ d) (h2 : d ≤ 8) : Rep (lookupSelect8 ops tbl d) (d • x) := by
  unfold lookupSelect8
  simp only [foldl_select, absI8_eq d (by omega) (by omega)]
  have hsel : Rep (if 1 ≤ d.natAbs ∧ d.natAbs ≤ 8 then tbl.getD (d.natAbs - 1) ops.zero else ops.zero)
      ((d.natAbs : ℤ) • x) := by
    by_cases hz : d.natAbs = 0
    · rw [if_neg (by omega), hz]; exact R.cast R.zero (by simp)
    · rw [if_pos (by omega)]
      exact R.cast (hT (d.natAbs - 1) (by omega)) (by congr 2; omega)
  by_cases hd : d < 0
  · simp only [hd, if_true]
    refine R.cast (R.neg hsel) ?_
    rw [← neg_smul]; congr 1; omega
  · simp only [hd, if_false]
    refine R.cast hsel ?_
    congr 1; omega

/-! ### edwards448 `ScalarMult`: Horner evaluation from the top digit -/

theorem horner_rep {sel : Int → C} {x : G} (hsel : ∀ d, -8 ≤ d → d ≤ 8 → Rep (sel d) (d • x)) :
    ∀ (rest : List Int) (v : C) (z : G), Rep v z → (∀ d ∈ rest, -8 ≤ d ∧ d ≤ 8) →
      Rep (rest.foldl (fun v d => ops.add (ops.double4 v) (sel d)) v)
        (((16 : ℤ) ^ rest.length) • z + digitsValue 16 rest.reverse • x)
  | [], v, z, hv, _ => by simpa [digitsValue] using hv
  | d :: rest, v, z, hv, hr => by
    have hd := hr d (List.mem_cons_self ..)
    have hstep := R.add (R.double4 hv) (hsel d hd.1 hd.2)
    have := horner_rep hsel rest _ _ hstep (fun e he => hr e (List.mem_cons_of_mem _ he))
    simp only [List.foldl_cons]
    refine R.cast this ?_
    rw [List.reverse_cons, Model.Recode.digitsValue_append, List.length_reverse, List.length_cons]
    simp only [digitsValue]
    rw [pow_succ]
    module

end

end Model.WindowMul
