import GoatProofs.Lemmas.C16PtEnc
/-
C16 (points part), decoding: `Point.SetBytes` accepts exactly the canonical encodings of curve
points (RFC 8032 §5.2.3) and returns a representative of the encoded point.
-/
namespace C16Pt
open C17 (Rep Cong)
open Model.Fe448 Model.Ed448Pt Spec.Edwards448 Glue
set_option exponentiation.threshold 1000
set_option maxRecDepth 100000

/-- two canonical residues with the same square and the same parity are equal (p is odd) -/
theorem root_parity_unique (hp : Nat.Prime q) {r s : ℤ} (hr : Canon r) (hs : Canon s)
    (hsq : (r : F) * r = (s : F) * s) (hpar : r % 2 = s % 2) : r = s := by
  have : Fact (Nat.Prime q) := ⟨hp⟩
  have h0 : ((r : F) - s) * ((r : F) + s) = 0 := by linear_combination hsq
  rcases mul_eq_zero.mp h0 with h | h
  · exact canon_eq_of_cast hr hs (by linear_combination h)
  · have h' : ((r + s : ℤ) : F) = ((0 : ℤ) : F) := by push_cast; exact h
    rw [← cong_iff] at h'
    unfold Cong at h'
    rw [P_eq_p] at h'
    obtain ⟨k, hk⟩ := h'
    have hp2 : p % 2 = 1 := by decide +kernel
    have hpp : 0 < p := by decide +kernel
    obtain ⟨r0, r1⟩ := hr
    obtain ⟨s0, s1⟩ := hs
    have hk0 : 0 ≤ k := by
      by_contra hneg
      have : k ≤ -1 := by omega
      have : p * k ≤ p * (-1) := Int.mul_le_mul_of_nonneg_left this (le_of_lt hpp)
      omega
    have hk2 : k < 2 := by
      by_contra hge
      have : 2 ≤ k := by omega
      have : p * 2 ≤ p * k := Int.mul_le_mul_of_nonneg_left this (le_of_lt hpp)
      omega
    have : k = 0 ∨ k = 1 := by omega
    rcases this with rfl | rfl
    · omega
    · omega

/-- the decoded y-limbs, the candidate root and the sign-selected root of `SetBytes data` -/
def decY (data : List Int) : Limbs := Model.Fe448.setBytes (data.take 56)
def decR (data : List Int) : Limbs × Int :=
  Model.Fe448Ext.sqrtRatio (Model.Fe448.sub (square (decY data)) feOne)
    (Model.Fe448.sub (mul (square (decY data)) feD) feOne)
def decTop (data : List Int) : Nat := (data.getD 56 0).toNat
def decX (data : List Int) : Limbs :=
  Model.Fe448Ext.select (Model.Fe448.negate (decR data).1) (decR data).1
    (Int.ofNat ((decTop data >>> 7) ^^^ (Model.Fe448Ext.isNegative (decR data).1).toNat))

/-- `SetBytes` as its four checks -/
theorem setBytes_unfold (data : List Int) (hl : data.length = 57) :
    Model.Ed448Pt.setBytes data =
      if Model.Fe448.bytes (decY data) ≠ data.take 56 ∨ decTop data &&& 0x7f ≠ 0 then .err "encoding"
      else if (decR data).2 = 0 then .err "encoding"
      else if Model.Fe448Ext.equal (decX data) Model.Fe448Ext.zero = 1 ∧ decTop data >>> 7 = 1 then .err "encoding"
      else .ok ⟨decX data, decY data, Model.Fe448Ext.one⟩ := by
  unfold Model.Ed448Pt.setBytes
  rw [if_neg (by omega)]
  simp only [ctCompare, decY, decR, decTop, decX, Model.Fe448Ext.set]
  by_cases h1 : Model.Fe448.bytes (Model.Fe448.setBytes (data.take 56)) = data.take 56
  · simp [h1]
  · simp [h1]

/-- `SetBytes` never panics: every input is either decoded or rejected with an error -/
theorem setBytes_total (data : List Int) : (Model.Ed448Pt.setBytes data).isPanic = false := by
  by_cases hl : data.length = 57
  · rw [setBytes_unfold data hl]
    split
    · rfl
    · split
      · rfl
      · split <;> rfl
  · unfold Model.Ed448Pt.setBytes; rw [if_pos hl]; rfl

/-- facts about the pieces of `SetBytes data` for 57 octets -/
structure DecFacts (data : List Int) : Prop where
  yrep : Rep (decY data) (evalBytes (data.take 56))
  y0 : 0 ≤ evalBytes (data.take 56)
  ylt : Model.Fe448.bytes (decY data) = data.take 56 ↔ evalBytes (data.take 56) < p
  rinv : C17.Inv (decR data).1
  ws01 : (decR data).2 = 1 ∨ (decR data).2 = 0
  ws : (decR data).2 = 1 ↔
    ((eval (decR data).1 : ℤ) : F) ^ 2 + ((evalBytes (data.take 56) : ℤ) : F) ^ 2 =
      1 + ((d : ℤ) : F) * ((eval (decR data).1 : ℤ) : F) ^ 2 * ((evalBytes (data.take 56) : ℤ) : F) ^ 2
  wsq : (decR data).2 = 1 ↔ ∃ s : F, s ^ 2 + ((evalBytes (data.take 56) : ℤ) : F) ^ 2 =
      1 + ((d : ℤ) : F) * s ^ 2 * ((evalBytes (data.take 56) : ℤ) : F) ^ 2

theorem take56_facts (data : List Int) (hl : data.length = 57) (hb : AllIn 0 255 data) :
    (data.take 56).length = 56 ∧ AllIn 0 255 (data.take 56) :=
  ⟨by rw [List.length_take]; omega, fun x hx => hb x (List.mem_of_mem_take hx)⟩

theorem evalBytes_nonneg : ∀ (l : List Int), AllIn 0 255 l → 0 ≤ evalBytes l
  | [], _ => by simp [evalBytes]
  | x :: xs, h => by
    have := evalBytes_nonneg xs (fun z hz => h z (List.mem_cons_of_mem _ hz))
    have := (h x List.mem_cons_self).1
    simp only [evalBytes]; omega

/-- dy² − 1 is never 0: d is a non-square -/
theorem den_ne_zero (hp : Nat.Prime q) (y : F) : y ^ 2 * ((d : ℤ) : F) - 1 ≠ 0 := by
  have : Fact (Nat.Prime q) := ⟨hp⟩
  intro h
  have hy : y ≠ 0 := by
    rintro rfl
    have : (1 : F) = 0 := by linear_combination -h
    exact one_ne_zero this
  apply d_nonsquare hp
  refine ⟨y⁻¹, ?_⟩
  field_simp
  linear_combination h

theorem decFacts (hp : Nat.Prime q) (data : List Int) (hl : data.length = 57) (hb : AllIn 0 255 data) :
    DecFacts data := by
  have : Fact (Nat.Prime q) := ⟨hp⟩
  obtain ⟨tl, tb⟩ := take56_facts data hl hb
  have hy : Rep (decY data) (evalBytes (data.take 56)) := C17.setBytes_rep _ tl tb
  have hY0 := evalBytes_nonneg _ tb
  obtain ⟨bl, ball, bval⟩ := C17.bytes_spec _ hy.1
  have hu := C17.sub_rep (C17.square_rep hy) C17Ext.one_rep
  have hv := C17.sub_rep (C17.mul_rep (C17.square_rep hy) feD_rep) C17Ext.one_rep
  obtain ⟨hr, h01, hiff⟩ := C17Ext.sqrtRatio_spec hu hv
  have hvne : ¬ Cong (evalBytes (data.take 56) * evalBytes (data.take 56) * d - 1) 0 := by
    rw [not_cong_zero_iff]; push_cast
    have := den_ne_zero hp ((evalBytes (data.take 56) : ℤ) : F)
    intro h; apply this; linear_combination h
  have hsq := C17Ext.sqrtRatio_square_iff hp hu hv hvne
  have eR : decR data = Model.Fe448Ext.sqrtRatio (Model.Fe448.sub (square (decY data)) Model.Fe448Ext.one)
      (Model.Fe448.sub (mul (square (decY data)) feD) Model.Fe448Ext.one) := rfl
  refine ⟨hy, hY0, ?_, hr.1, h01, ?_, ?_⟩
  · constructor
    · intro h
      have e : evalBytes (data.take 56) % Model.Fe448.P = evalBytes (data.take 56) := by
        rw [← (C17Ext.cong_iff_emod _ _).mp hy.2, ← bval]; exact congrArg evalBytes h
      rw [P_eq_p] at e
      have : evalBytes (data.take 56) % p < p := Int.emod_lt_of_pos _ (by decide +kernel)
      omega
    · intro h
      apply evalBytes_inj _ _ (by rw [bl, tl]) ball tb
      rw [bval, (C17Ext.cong_iff_emod _ _).mp hy.2, P_eq_p]
      exact Int.emod_eq_of_lt hY0 h
  · rw [eR, hiff, cong_iff]; push_cast
    constructor <;> intro h <;> linear_combination -h
  · rw [eR, hsq]
    constructor
    · rintro ⟨s, hs⟩
      refine ⟨(s : F), ?_⟩
      have := (cong_iff _ _).mp hs
      push_cast at this
      linear_combination -this
    · rintro ⟨s, hs⟩
      refine ⟨(s.val : ℤ), ?_⟩
      rw [cong_iff]; push_cast
      rw [ZMod.natCast_zmod_val]
      linear_combination -hs

theorem neg_emod_p (x : ℤ) : (-x) % p = if x % p = 0 then 0 else p - x % p := by
  have hpp : 0 < p := by decide +kernel
  have h1 := Int.emod_add_mul_ediv x p
  have h2 := Int.emod_nonneg x (ne_of_gt hpp)
  have h3 := Int.emod_lt_of_pos x hpp
  by_cases h0 : x % p = 0
  · rw [if_pos h0]
    have : -x = p * (-(x / p)) := by rw [h0] at h1; linarith
    rw [this]; exact Int.mul_emod_right _ _
  · rw [if_neg h0]
    have : -x = (p - x % p) + p * (-(x / p) - 1) := by linarith
    rw [this, Int.add_mul_emod_self_left]
    exact Int.emod_eq_of_lt (by omega) (by omega)

theorem split57 (data : List Int) (hl : data.length = 57) : data = data.take 56 ++ [data.getD 56 0] := by
  conv_lhs => rw [← List.take_append_drop 56 data]
  congr 1
  have h1 : (data.drop 56).length = 1 := by rw [List.length_drop]; omega
  match hd : data.drop 56, h1 with
  | [x], _ =>
    have : data.getD 56 0 = x := by
      rw [List.getD_eq_getElem?_getD]
      have := List.getElem?_drop (xs := data) (i := 56) (j := 0)
      rw [hd] at this
      simp at this
      rw [← this]; rfl
    rw [this]

/-- the sign-selected root: inside the invariant, same square as the candidate, and parity equal to
    the sign bit unless it is 0 with the sign bit set (which `SetBytes` rejects) -/
theorem decX_facts (data : List Int) (hr : C17.Inv (decR data).1) (hs : decTop data >>> 7 = 0 ∨ decTop data >>> 7 = 1) :
    C17.Inv (decX data) ∧
    ((eval (decX data) : ℤ) : F) * ((eval (decX data) : ℤ) : F) =
      ((eval (decR data).1 : ℤ) : F) * ((eval (decR data).1 : ℤ) : F) ∧
    (¬ (Cong (eval (decX data)) 0 ∧ decTop data >>> 7 = 1) →
      (eval (decX data) % p) % 2 = ((decTop data >>> 7 : ℕ) : ℤ)) := by
  have hrr : Rep (decR data).1 (eval (decR data).1) := ⟨hr, C17.Cong.refl _⟩
  have hn := C17.negate_rep hrr
  obtain ⟨s1, s0⟩ := C17Ext.select_spec _ _ hn.1 hr
  have hneg := C17Ext.isNegative_spec _ hr
  have hpar : (eval (decR data).1 % Model.Fe448.P) % 2 = 0 ∨ (eval (decR data).1 % Model.Fe448.P) % 2 = 1 := by omega
  have hp2 : p % 2 = 1 := by decide +kernel
  have hpp : 0 < p := by decide +kernel
  have hm0 := Int.emod_nonneg (eval (decR data).1) (ne_of_gt hpp)
  have hm1 := Int.emod_lt_of_pos (eval (decR data).1) hpp
  have hnegv : eval (Model.Fe448.negate (decR data).1) % p = (-(eval (decR data).1)) % p := by
    have := (C17Ext.cong_iff_emod _ _).mp hn.2
    rwa [P_eq_p] at this
  rw [neg_emod_p] at hnegv
  rw [P_eq_p] at hneg hpar
  have c00 : Int.ofNat (0 ^^^ (0 : ℤ).toNat) = 0 := by decide
  have c01 : Int.ofNat (0 ^^^ (1 : ℤ).toNat) = 1 := by decide
  have c10 : Int.ofNat (1 ^^^ (0 : ℤ).toNat) = 1 := by decide
  have c11 : Int.ofNat (1 ^^^ (1 : ℤ).toNat) = 0 := by decide
  unfold decX
  rcases hs with hs | hs <;> rcases hpar with hq | hq <;> rw [hs, hneg, hq]
  · -- sign 0, parity 0: keep
    rw [c00, s0]; refine ⟨hr, rfl, fun _ => by exact_mod_cast hq⟩
  · -- sign 0, parity 1: negate
    rw [c01, s1]
    refine ⟨hn.1, ?_, fun _ => ?_⟩
    · have := (cong_iff _ _).mp hn.2; rw [this]; push_cast; ring
    · rw [hnegv]; split <;> omega
  · -- sign 1, parity 0: negate
    rw [c10, s1]
    refine ⟨hn.1, ?_, fun hno => ?_⟩
    · have := (cong_iff _ _).mp hn.2; rw [this]; push_cast; ring
    · rw [hnegv]
      split
      · next h0 =>
        exfalso; apply hno
        refine ⟨?_, rfl⟩
        rw [C17Ext.cong_iff_emod, P_eq_p, hnegv, if_pos h0]; rfl
      · omega
  · -- sign 1, parity 1: keep
    rw [c11, s0]; refine ⟨hr, rfl, fun _ => by exact_mod_cast hq⟩

/-- shape of the RFC 8032 encoding as a list of integers: 56 octets of y, then the sign octet -/
theorem encode_shape {a : AffinePoint} (ha : OnCurve a) :
    ∃ yb, intsOf (Spec.RFC8032.encodePoint a) = yb ++ [128 * (a.x % 2)] ∧ yb.length = 56 ∧
      AllIn 0 255 yb ∧ evalBytes yb = a.y := by
  obtain ⟨l56, v56⟩ := intsOf_encodeLE 56 a.y.toNat
  obtain ⟨l57, v57⟩ := intsOf_encodeLE 57 (a.y.toNat + 2 ^ 455 * (a.x % 2).toNat)
  have hy0 := ha.2.1.1
  have hy1 := ha.2.1.2
  have hpl : p < 2 ^ 448 := by decide +kernel
  have h01 : a.x % 2 = 0 ∨ a.x % 2 = 1 := by omega
  have ev56 : evalBytes (intsOf (Bytes.encodeLE 56 a.y.toNat)) = a.y := by
    rw [v56, Nat.mod_eq_of_lt (by omega)]; omega
  refine ⟨intsOf (Bytes.encodeLE 56 a.y.toNat), ?_, l56, intsOf_allIn _, ev56⟩
  unfold Spec.RFC8032.encodePoint
  apply evalBytes_inj
  · rw [l57, List.length_append, l56]; rfl
  · exact intsOf_allIn _
  · intro z hz
    rcases List.mem_append.mp hz with h | h
    · exact intsOf_allIn _ z h
    · rw [List.mem_singleton] at h; rw [h]; rcases h01 with h | h <;> rw [h] <;> decide
  · rw [v57, evalBytes_append, l56, ev56]
    simp only [evalBytes]
    rcases h01 with h | h <;> rw [h]
    · have : (a.y.toNat + 2 ^ 455 * (0 : Int).toNat) % 256 ^ 57 = a.y.toNat := by
        simp only [Int.toNat_zero, Nat.mul_zero, Nat.add_zero]
        apply Nat.mod_eq_of_lt; omega
      rw [this]; omega
    · have : (a.y.toNat + 2 ^ 455 * (1 : Int).toNat) % 256 ^ 57 = a.y.toNat + 2 ^ 455 := by
        simp only [Int.toNat_one, Nat.mul_one]
        apply Nat.mod_eq_of_lt; omega
      rw [this]; push_cast; omega

theorem eval_one : eval Model.Fe448Ext.one = 1 := by decide
theorem eval_zero : eval Model.Fe448Ext.zero = 0 := by decide

/-- SOUNDNESS of `SetBytes` (strictness): whatever it accepts is the canonical RFC 8032 encoding of
    a curve point, and the result represents that point.  In particular y ≥ p, stray bits in octet
    56, and x = 0 with the sign bit set are all rejected. -/
theorem setBytes_sound (hp : Nat.Prime q) (data : List Int) (hb : AllIn 0 255 data)
    (Pt : Model.Ed448Pt.Point) (h : Model.Ed448Pt.setBytes data = .ok Pt) :
    ∃ a, OnCurve a ∧ data = intsOf (Spec.RFC8032.encodePoint a) ∧ PRep Pt a := by
  have : Fact (Nat.Prime q) := ⟨hp⟩
  by_cases hl : data.length = 57
  swap
  · unfold Model.Ed448Pt.setBytes at h; rw [if_pos hl] at h; cases h
  rw [setBytes_unfold data hl] at h
  split at h
  · cases h
  next h1 =>
  split at h
  · cases h
  next h2 =>
  split at h
  · cases h
  next h3 =>
  have hPt : Pt = ⟨decX data, decY data, Model.Fe448Ext.one⟩ := by cases h; rfl
  have f := decFacts hp data hl hb
  obtain ⟨tl, tb⟩ := take56_facts data hl hb
  have hbytes : Model.Fe448.bytes (decY data) = data.take 56 := by
    by_contra hc; exact h1 (Or.inl hc)
  have hmask : decTop data &&& 0x7f = 0 := by
    by_contra hc; exact h1 (Or.inr hc)
  have hY := f.ylt.mp hbytes
  have hws : (decR data).2 = 1 := by rcases f.ws01 with h | h; exact h; exact absurd h h2
  -- the top octet
  have htop := hb (data.getD 56 0) (by
    rw [List.getD_eq_getElem?_getD, List.getElem?_eq_getElem (by omega)]; exact List.getElem_mem _)
  have hT : ((decTop data : ℕ) : ℤ) = data.getD 56 0 := by unfold decTop; omega
  have hT255 : decTop data ≤ 255 := by unfold decTop; omega
  have hmod : decTop data % 128 = 0 := by
    have := Nat.and_two_pow_sub_one_eq_mod (decTop data) 7
    simpa [this] using hmask
  have hsh : decTop data >>> 7 = decTop data / 128 := Nat.shiftRight_eq_div_pow _ 7
  have hsign : decTop data >>> 7 = 0 ∨ decTop data >>> 7 = 1 := by rw [hsh]; omega
  obtain ⟨xinv, xsq, xpar⟩ := decX_facts data f.rinv hsign
  obtain ⟨_, eqiff⟩ := C17Ext.equal_spec _ _ xinv C17Ext.zero_inv
  rw [eval_zero] at eqiff
  have hno : ¬ (Cong (eval (decX data)) 0 ∧ decTop data >>> 7 = 1) := by
    rintro ⟨hc, hs⟩; exact h3 ⟨eqiff.mpr hc, hs⟩
  have hpar := xpar hno
  have hpp : 0 < p := by decide +kernel
  -- the decoded affine point
  refine ⟨⟨eval (decX data) % p, evalBytes (data.take 56)⟩, ?_, ?_, ?_⟩
  · refine ⟨⟨Int.emod_nonneg _ (ne_of_gt hpp), Int.emod_lt_of_pos _ hpp⟩, ⟨f.y0, hY⟩, ?_⟩
    rw [emod_eq_iff]; push_cast; rw [cast_emod_p]
    have := f.ws.mp hws
    linear_combination this + (1 - ((d : ℤ) : F) * ((evalBytes (data.take 56) : ℤ) : F) ^ 2) * xsq
  · have hon : OnCurve ⟨eval (decX data) % p, evalBytes (data.take 56)⟩ := by
      refine ⟨⟨Int.emod_nonneg _ (ne_of_gt hpp), Int.emod_lt_of_pos _ hpp⟩, ⟨f.y0, hY⟩, ?_⟩
      rw [emod_eq_iff]; push_cast; rw [cast_emod_p]
      have := f.ws.mp hws
      linear_combination this + (1 - ((d : ℤ) : F) * ((evalBytes (data.take 56) : ℤ) : F) ^ 2) * xsq
    obtain ⟨yb, esh, ybl, ybb, ybv⟩ := encode_shape hon
    rw [esh]
    conv_lhs => rw [split57 data hl]
    have e1 : yb = data.take 56 := evalBytes_inj _ _ (by rw [ybl, tl]) ybb tb ybv
    rw [e1]
    congr 2
    show data.getD 56 0 = 128 * ((eval (decX data) % p) % 2)
    have hpar' := hpar
    rw [hsh] at hpar'
    omega
  · rw [hPt]
    refine ⟨xinv, f.yrep.1, C17Ext.one_inv, ?_, ?_, ?_⟩
    · show ¬ Cong (eval Model.Fe448Ext.one) 0
      rw [eval_one]; unfold Cong; decide +kernel
    · show Cong (eval (decX data)) ((eval (decX data) % p) * eval Model.Fe448Ext.one)
      rw [eval_one, Int.mul_one, ← P_eq_p]; exact C17.Cong.symm (C17Ext.cong_emod _)
    · show Cong (eval (decY data)) (evalBytes (data.take 56) * eval Model.Fe448Ext.one)
      rw [eval_one, Int.mul_one]; exact f.yrep.2

/-- the RFC 8032 encoding is injective on curve points -/
theorem encode_inj (hp : Nat.Prime q) {a b : AffinePoint} (ha : OnCurve a) (hb : OnCurve b)
    (h : intsOf (Spec.RFC8032.encodePoint a) = intsOf (Spec.RFC8032.encodePoint b)) : a = b := by
  have : Fact (Nat.Prime q) := ⟨hp⟩
  obtain ⟨ya, ea, la, _, va⟩ := encode_shape ha
  obtain ⟨yb, eb, lb, _, vb⟩ := encode_shape hb
  rw [ea, eb] at h
  obtain ⟨h1, h2⟩ := List.append_inj h (by rw [la, lb])
  have hy : a.y = b.y := by rw [← va, ← vb, h1]
  have hpar : a.x % 2 = b.x % 2 := by
    have := List.cons.inj h2
    omega
  have ca := onCurve_F ha
  have cb := onCurve_F hb
  rw [hy] at ca
  have hden := den_ne_zero hp ((b.y : ℤ) : F)
  have hsq : (a.x : F) * a.x = (b.x : F) * b.x := by
    have : ((a.x : F) * a.x - (b.x : F) * b.x) * (((b.y : ℤ) : F) ^ 2 * ((d : ℤ) : F) - 1) = 0 := by
      linear_combination cb - ca
    rcases mul_eq_zero.mp this with h | h
    · linear_combination h
    · exact absurd h hden
  have hx := root_parity_unique hp ha.1 hb.1 hsq hpar
  cases a; cases b; simp_all

/-- COMPLETENESS of `SetBytes`: the canonical encoding of every curve point is accepted and
    decodes to a representative of that point -/
theorem setBytes_complete (hp : Nat.Prime q) {a : AffinePoint} (ha : OnCurve a) :
    ∃ Pt, Model.Ed448Pt.setBytes (intsOf (Spec.RFC8032.encodePoint a)) = .ok Pt ∧ PRep Pt a := by
  have : Fact (Nat.Prime q) := ⟨hp⟩
  obtain ⟨yb, esh, ybl, ybb, ybv⟩ := encode_shape ha
  set data := intsOf (Spec.RFC8032.encodePoint a) with hdata
  have hb : AllIn 0 255 data := intsOf_allIn _
  have hl : data.length = 57 := by rw [esh, List.length_append, ybl]; rfl
  have htake : data.take 56 = yb := by rw [esh, List.take_left' ybl]
  have hget : data.getD 56 0 = 128 * (a.x % 2) := by
    rw [esh, List.getD_eq_getElem?_getD, List.getElem?_append_right (by omega), ybl]; rfl
  have f := decFacts hp data hl hb
  have h01 : a.x % 2 = 0 ∨ a.x % 2 = 1 := by omega
  have hY : evalBytes (data.take 56) = a.y := by rw [htake, ybv]
  have hT : decTop data = 0 ∨ decTop data = 128 := by
    unfold decTop; rw [hget]; rcases h01 with h | h <;> rw [h] <;> decide
  have c1 : ¬ (Model.Fe448.bytes (decY data) ≠ data.take 56 ∨ decTop data &&& 0x7f ≠ 0) := by
    rintro (h | h)
    · exact h (f.ylt.mpr (by rw [hY]; exact ha.2.1.2))
    · rcases hT with e | e <;> rw [e] at h <;> exact h (by decide)
  have ca := onCurve_F ha
  have hws : (decR data).2 = 1 := f.wsq.mpr ⟨(a.x : F), by rw [hY]; exact ca⟩
  have c2 : ¬ (decR data).2 = 0 := by rw [hws]; decide
  have hsign : decTop data >>> 7 = 0 ∨ decTop data >>> 7 = 1 := by
    rcases hT with e | e <;> rw [e] <;> decide
  obtain ⟨xinv, xsq, xpar⟩ := decX_facts data f.rinv hsign
  obtain ⟨_, eqiff⟩ := C17Ext.equal_spec _ _ xinv C17Ext.zero_inv
  rw [eval_zero] at eqiff
  have c3 : ¬ (Model.Fe448Ext.equal (decX data) Model.Fe448Ext.zero = 1 ∧ decTop data >>> 7 = 1) := by
    rintro ⟨he, hs⟩
    have hz := (cong_iff _ _).mp (eqiff.mp he)
    push_cast at hz
    -- (decX)² = r² = a.x² (same y, non-zero denominator)
    have hr := f.ws.mp hws
    rw [hY] at hr
    have hden := den_ne_zero hp ((a.y : ℤ) : F)
    have hsq : ((eval (decR data).1 : ℤ) : F) * ((eval (decR data).1 : ℤ) : F) = (a.x : F) * a.x := by
      have : (((eval (decR data).1 : ℤ) : F) * ((eval (decR data).1 : ℤ) : F) - (a.x : F) * a.x) *
          (((a.y : ℤ) : F) ^ 2 * ((d : ℤ) : F) - 1) = 0 := by linear_combination ca - hr
      rcases mul_eq_zero.mp this with h | h
      · linear_combination h
      · exact absurd h hden
    rw [← xsq, hz] at hsq
    have hx0 : (a.x : F) = 0 := by
      have : (a.x : F) * a.x = 0 := by linear_combination -hsq
      rcases mul_eq_zero.mp this with h | h <;> exact h
    have : a.x = 0 := canon_eq_of_cast ha.1 ⟨le_refl 0, by decide +kernel⟩ (by push_cast; exact hx0)
    have hT0 : decTop data = 0 := by unfold decTop; rw [hget, this]; rfl
    rw [hT0] at hs; revert hs; decide
  have hok : Model.Ed448Pt.setBytes data = .ok ⟨decX data, decY data, Model.Fe448Ext.one⟩ := by
    rw [setBytes_unfold data hl, if_neg c1, if_neg c2, if_neg c3]
  obtain ⟨a', ha', henc, hrep⟩ := setBytes_sound hp data hb _ hok
  have : a = a' := encode_inj hp ha ha' (by rw [← hdata, ← henc])
  exact ⟨_, hok, this ▸ hrep⟩

/-- decoding then encoding is the identity on canonical encodings -/
theorem setBytes_bytes (hp : Nat.Prime q) (data : List Int) (hb : AllIn 0 255 data)
    (Pt : Model.Ed448Pt.Point) (h : Model.Ed448Pt.setBytes data = .ok Pt) :
    Model.Ed448Pt.bytes Pt = data := by
  obtain ⟨a, ha, henc, hrep⟩ := setBytes_sound hp data hb Pt h
  rw [bytes_canonical hp hrep ha, ← henc]

/-- encoding then decoding returns a representative of the same point (and accepts) -/
theorem bytes_setBytes (hp : Nat.Prime q) {Pt : Model.Ed448Pt.Point} {a : AffinePoint}
    (hP : PRep Pt a) (ha : OnCurve a) :
    ∃ Q, Model.Ed448Pt.setBytes (Model.Ed448Pt.bytes Pt) = .ok Q ∧ PRep Q a := by
  rw [bytes_canonical hp hP ha]; exact setBytes_complete hp ha

end C16Pt
