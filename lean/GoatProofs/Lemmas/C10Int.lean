import Goat.Model.Custom
import GoatProofs.Lemmas.C10Digits
/-
Integer texts against integer kinds (cuctom_decode.go:135-146): strconv.ParseInt / ParseUint on
the json.Number text followed by reflect's OverflowInt / OverflowUint.
-/
namespace GoatProofs.Lemmas.C10Int
open Model Model.Custom Model.NumericDate GoatProofs.Lemmas.C10Digits

/-- the characters `formatInt` writes -/
def intChars (n : Int) : List Char :=
  if n < 0 then '-' :: natDigits n.natAbs else natDigits n.natAbs

theorem formatInt_toList (n : Int) : (formatInt n).toList = intChars n := by
  unfold formatInt intChars
  simp [String.toList_ofList]

theorem head_digit_not_sign (ds : List Char) (hd : AllDigits ds) (hne : ds ≠ []) :
    splitSign ds = (false, ds) := by
  cases ds with
  | nil => exact absurd rfl hne
  | cons c r =>
    have hc := hd c List.mem_cons_self
    unfold splitSign
    split
    · rename_i h; cases h; exact absurd hc (by decide)
    · rename_i h; cases h; exact absurd hc (by decide)
    · rfl

/-- ParseInt reads back what FormatInt wrote, and reports exactly the int64 range -/
theorem parseInt64_intChars (n : Int) :
    parseInt64 (intChars n) = if n < minInt64 ∨ n > maxInt64 then none else some n := by
  obtain ⟨hv, hd, hne⟩ := natDigits_spec n.natAbs
  unfold parseInt64 intChars
  by_cases hneg : n < 0
  · simp only [hneg, if_true]
    have hs : splitSign ('-' :: natDigits n.natAbs) = (true, natDigits n.natAbs) := rfl
    rw [hs]
    simp only [spanDigits_all _ hd, hv]
    have : ((n.natAbs : Nat) : Int) = -n := by omega
    simp only [hne, ne_eq, not_true_eq_false, or_self, if_false, if_true, this, Int.neg_neg]
  · simp only [hneg, if_false]
    rw [head_digit_not_sign _ hd hne]
    simp only [spanDigits_all _ hd, hv]
    have : ((n.natAbs : Nat) : Int) = n := by omega
    simp only [hne, ne_eq, not_true_eq_false, or_self, if_false, this, Bool.false_eq_true]

theorem parseUint64_intChars (n : Int) :
    parseUint64 (intChars n) = if n < 0 ∨ n ≥ 2 ^ 64 then none else some n.toNat := by
  obtain ⟨hv, hd, hne⟩ := natDigits_spec n.natAbs
  unfold parseUint64 intChars
  by_cases hneg : n < 0
  · simp only [hneg, if_true, true_or]
    have : spanDigits ('-' :: natDigits n.natAbs) = ([], '-' :: natDigits n.natAbs) := by
      simp [spanDigits]; decide
    simp [this]
  · simp only [hneg, if_false, false_or]
    simp only [spanDigits_all _ hd, hv]
    simp only [hne, ne_eq, not_true_eq_false, or_self, if_false]
    have h1 : n.natAbs = n.toNat := by omega
    by_cases hbig : n ≥ 2 ^ 64
    · have : n.natAbs ≥ 2 ^ 64 := by omega
      rw [if_pos this, if_pos hbig]
    · have : ¬ n.natAbs ≥ 2 ^ 64 := by omega
      rw [if_neg this, if_neg hbig, h1]

/-- a text with a non-digit after the optional sign (".", "e", …) is not an integer literal -/
theorem spanDigits_parts (cs : List Char) :
    (spanDigits cs).1 ++ (spanDigits cs).2 = cs ∧ AllDigits (spanDigits cs).1 := by
  induction cs with
  | nil => simp [spanDigits, AllDigits]
  | cons c r ih =>
    unfold spanDigits
    by_cases h : isDigit c = true
    · simp only [h, if_true]
      refine ⟨by simp [ih.1], ?_⟩
      intro x hx
      simp at hx
      rcases hx with hx | hx
      · subst hx; exact h
      · exact ih.2 x hx
    · simp [h, AllDigits]

theorem parseInt64_nondigit (cs : List Char) (c : Char) (hc : c ∈ (splitSign cs).2) (hnd : isDigit c = false) :
    parseInt64 cs = none := by
  unfold parseInt64
  obtain ⟨happ, hall⟩ := spanDigits_parts (splitSign cs).2
  by_cases h2 : (spanDigits (splitSign cs).2).2 = []
  · rw [h2, List.append_nil] at happ
    rw [← happ] at hc
    have := hall c hc
    rw [hnd] at this
    cases this
  · simp [h2]

theorem parseUint64_nondigit (cs : List Char) (c : Char) (hc : c ∈ cs) (hnd : isDigit c = false) :
    parseUint64 cs = none := by
  unfold parseUint64
  obtain ⟨happ, hall⟩ := spanDigits_parts cs
  by_cases h2 : (spanDigits cs).2 = []
  · rw [h2, List.append_nil] at happ
    rw [← happ] at hc
    have := hall c hc
    rw [hnd] at this
    cases this
  · simp [h2]

theorem decodeInt_formatInt_eq (bits : Nat) (hb : 1 ≤ bits ∧ bits ≤ 64) (n : Int) :
    decodeInt bits (formatInt n) =
      if -(2 ^ (bits - 1) : Int) ≤ n ∧ n ≤ (2 ^ (bits - 1) : Int) - 1 then .ok n else .err "overflow" := by
  unfold decodeInt
  rw [formatInt_toList, parseInt64_intChars]
  have hpow : (2 : Int) ^ (bits - 1) ≤ 2 ^ 63 := by
    have : (2 : Nat) ^ (bits - 1) ≤ 2 ^ 63 := Nat.pow_le_pow_right (by omega) (by omega)
    exact_mod_cast this
  have hpos : (0 : Int) < 2 ^ (bits - 1) := Int.pow_pos (by decide)
  by_cases h64 : n < minInt64 ∨ n > maxInt64
  · have : ¬ (-(2 ^ (bits - 1) : Int) ≤ n ∧ n ≤ (2 ^ (bits - 1) : Int) - 1) := by
      unfold minInt64 maxInt64 at h64; omega
    rw [if_pos h64, if_neg this]
  · rw [if_neg h64]
    unfold overflowInt
    by_cases hr : -(2 ^ (bits - 1) : Int) ≤ n ∧ n ≤ (2 ^ (bits - 1) : Int) - 1
    · have : ¬ (n < -(2 ^ (bits - 1) : Int) ∨ n > (2 ^ (bits - 1) : Int) - 1) := by omega
      rw [if_pos hr]
      simp only [decide_eq_true_eq, this, if_false]
    · have : (n < -(2 ^ (bits - 1) : Int) ∨ n > (2 ^ (bits - 1) : Int) - 1) := by omega
      rw [if_neg hr]
      simp only [decide_eq_true_eq, this, if_true]

theorem decodeUint_formatInt_eq (bits : Nat) (hb : bits ≤ 64) (n : Int) :
    decodeUint bits (formatInt n) =
      if 0 ≤ n ∧ n < (2 ^ bits : Int) then .ok n.toNat else .err "overflow" := by
  unfold decodeUint
  rw [formatInt_toList, parseUint64_intChars]
  have hpow : (2 : Int) ^ bits ≤ 2 ^ 64 := by
    have : (2 : Nat) ^ bits ≤ 2 ^ 64 := Nat.pow_le_pow_right (by omega) hb
    exact_mod_cast this
  by_cases h64 : n < 0 ∨ n ≥ 2 ^ 64
  · have : ¬ (0 ≤ n ∧ n < (2 ^ bits : Int)) := by omega
    rw [if_pos h64, if_neg this]
  · rw [if_neg h64]
    unfold overflowUint
    have hcast : ((n.toNat : Nat) : Int) = n := by omega
    by_cases hr : 0 ≤ n ∧ n < (2 ^ bits : Int)
    · have : ¬ (n.toNat ≥ 2 ^ bits) := by
        intro h
        have : ((2 ^ bits : Nat) : Int) ≤ (n.toNat : Int) := by exact_mod_cast h
        rw [hcast] at this
        have e : ((2 ^ bits : Nat) : Int) = (2 : Int) ^ bits := by norm_cast
        omega
      rw [if_pos hr]
      simp only [decide_eq_true_eq, this, if_false]
    · have : n.toNat ≥ 2 ^ bits := by
        have h1 : (2 : Int) ^ bits ≤ n := by omega
        have e : ((2 ^ bits : Nat) : Int) = (2 : Int) ^ bits := by norm_cast
        have : ((2 ^ bits : Nat) : Int) ≤ (n.toNat : Int) := by rw [hcast, e]; exact h1
        exact_mod_cast this
      rw [if_neg hr]
      simp only [decide_eq_true_eq, this, if_true]

end GoatProofs.Lemmas.C10Int
