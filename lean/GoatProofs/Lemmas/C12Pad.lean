import GoatProofs.Lemmas.C12CBC
/-
C12: `extractPadding` (+ the range check of Decrypt) decides exactly PKCS #7 validity for block
size 16, and PKCS #7 removal undoes PKCS #7 padding.
-/
namespace C12L
open Spec Spec.CBCHS Model.GoBuf Model.Enc.ACBC

/-- the checking loop of extractPadding as a conjunction -/
theorem padLoop_true (P : Bytes) (p : Nat) (g0 : Bool) (n : Nat) :
    iterUp (fun i0 g => if i0 + 1 ≤ p then g && ((P.getD (P.length - (i0 + 1)) 0).toNat == p) else g) n g0 = true
      ↔ (g0 = true ∧ ∀ i0, i0 < n → i0 + 1 ≤ p → (P.getD (P.length - (i0 + 1)) 0).toNat = p) := by
  induction n with
  | zero => simp [iterUp]
  | succ n ih =>
    simp only [iterUp]
    by_cases hn : n + 1 ≤ p
    · rw [if_pos hn, Bool.and_eq_true, ih, beq_iff_eq]
      constructor
      · rintro ⟨⟨h0, h1⟩, h2⟩
        refine ⟨h0, fun i0 hi hp => ?_⟩
        rcases Nat.lt_succ_iff_lt_or_eq.mp hi with h | h
        · exact h1 i0 h hp
        · subst h; exact h2
      · rintro ⟨h0, h1⟩
        exact ⟨⟨h0, fun i0 hi hp => h1 i0 (Nat.lt_succ_of_lt hi) hp⟩, h1 n (Nat.lt_succ_self n) hn⟩
    · rw [if_neg hn, ih]
      constructor
      · rintro ⟨h0, h1⟩
        refine ⟨h0, fun i0 hi hp => ?_⟩
        rcases Nat.lt_succ_iff_lt_or_eq.mp hi with h | h
        · exact h1 i0 h hp
        · subst h; exact absurd hp hn
      · rintro ⟨h0, h1⟩
        exact ⟨h0, fun i0 hi hp => h1 i0 (Nat.lt_succ_of_lt hi) hp⟩

/-- "the last p octets all have the value of `last`" in index form -/
theorem drop_eq_replicate_iff (P : Bytes) (last : UInt8) (p : Nat) (hp : p ≤ P.length) :
    P.drop (P.length - p) = List.replicate p last ↔
      ∀ i0, i0 < p → (P.getD (P.length - (i0 + 1)) 0).toNat = last.toNat := by
  constructor
  · intro h i0 hi
    have hidx : P.length - (i0 + 1) < P.length := by omega
    have : P.getD (P.length - (i0 + 1)) 0 = last := by
      rw [List.getD_eq_getElem?_getD, List.getElem?_eq_getElem hidx, Option.getD_some]
      have h1 : (P.drop (P.length - p))[p - 1 - i0]'(by rw [List.length_drop]; omega) = last := by
        simp only [h, List.getElem_replicate]
      rw [List.getElem_drop] at h1
      rw [← h1]; congr 1; omega
    rw [this]
  · intro h
    apply List.ext_getElem
    · rw [List.length_drop, List.length_replicate]; omega
    · intro j h1 h2
      rw [List.length_drop] at h1
      rw [List.getElem_drop, List.getElem_replicate]
      have hj : j < p := by omega
      have := h (p - 1 - j) (by omega)
      have hidx : P.length - (p - 1 - j + 1) = P.length - p + j := by omega
      rw [hidx, List.getD_eq_getElem?_getD, List.getElem?_eq_getElem (by omega), Option.getD_some] at this
      exact UInt8.toNat_inj.mp this

/-- the decision taken by Decrypt (`good` of extractPadding AND the 1..16 range check) together
    with the number of octets removed is PKCS #7 removal of the specification -/
theorem padding_decision (P : Bytes) :
    let r := extractPadding P
    (if (r.2 && decide (1 ≤ r.1 ∧ r.1 ≤ 16)) = true then some (P.take (P.length - r.1)) else none) = unpad P := by
  intro r
  by_cases hlen : P.length < 1
  · have : P = [] := List.length_eq_zero_iff.mp (by omega)
    subst this
    simp [r, extractPadding, unpad]
  have hlast : P.getLast? = some (P.getD (P.length - 1) 0) := by
    rw [List.getLast?_eq_getElem?, List.getD_eq_getElem?_getD, List.getElem?_eq_getElem (by omega)]; rfl
  generalize hl : P.getD (P.length - 1) 0 = last at hlast
  have hlt : last.toNat < 256 := UInt8.toNat_lt last
  have hr : r = (if (iterUp (fun i0 g => if i0 + 1 ≤ last.toNat then
        g && ((P.getD (P.length - (i0 + 1)) 0).toNat == last.toNat) else g)
        (if 256 > P.length then P.length else 256) (decide (last.toNat ≤ P.length))) = true then last.toNat else 0,
      iterUp (fun i0 g => if i0 + 1 ≤ last.toNat then
        g && ((P.getD (P.length - (i0 + 1)) 0).toNat == last.toNat) else g)
        (if 256 > P.length then P.length else 256) (decide (last.toNat ≤ P.length))) := by
    simp only [r, extractPadding, if_neg hlen, hl]
  generalize hg : iterUp (fun i0 g => if i0 + 1 ≤ last.toNat then
        g && ((P.getD (P.length - (i0 + 1)) 0).toNat == last.toNat) else g)
        (if 256 > P.length then P.length else 256) (decide (last.toNat ≤ P.length)) = good at hr
  have hgood : good = true ↔ (last.toNat ≤ P.length ∧
      P.drop (P.length - last.toNat) = List.replicate last.toNat last) := by
    rw [← hg, padLoop_true, decide_eq_true_iff]
    constructor
    · rintro ⟨h0, h1⟩
      refine ⟨h0, (drop_eq_replicate_iff P last _ h0).mpr (fun i0 hi => h1 i0 ?_ (by omega))⟩
      split <;> omega
    · rintro ⟨h0, h1⟩
      exact ⟨h0, fun i0 _ hp => (drop_eq_replicate_iff P last _ h0).mp h1 i0 (by omega)⟩
  simp only [unpad, hlast, hr]
  by_cases hgt : good = true
  · obtain ⟨h0, h1⟩ := hgood.mp hgt
    simp only [hgt, if_true, Bool.true_and, decide_eq_true_iff]
    by_cases hrange : 1 ≤ last.toNat ∧ last.toNat ≤ 16
    · rw [if_pos hrange, if_pos ⟨hrange.1, hrange.2, h0, h1⟩]
    · rw [if_neg hrange, if_neg (fun h => hrange ⟨h.1, h.2.1⟩)]
  · have hgf : good = false := by simpa using hgt
    have : ¬ (1 ≤ last.toNat ∧ last.toNat ≤ 16 ∧ last.toNat ≤ P.length ∧
        P.drop (P.length - last.toNat) = List.replicate last.toNat last) :=
      fun h => hgt (hgood.mpr ⟨h.2.2.1, h.2.2.2⟩)
    rw [if_neg this]
    simp [hgf]

/-- PKCS #7 removal undoes PKCS #7 padding, for every plaintext length -/
theorem unpad_pad (p : Bytes) : unpad (pad p) = some p := by
  have hk1 : 1 ≤ 16 - p.length % 16 := by omega
  have hk2 : 16 - p.length % 16 ≤ 16 := by omega
  generalize hk : 16 - p.length % 16 = k at hk1 hk2
  have hkn : (UInt8.ofNat k).toNat = k := by
    rw [UInt8.toNat_ofNat']; omega
  have hlast : (p ++ List.replicate k (UInt8.ofNat k)).getLast? = some (UInt8.ofNat k) := by
    obtain ⟨k', rfl⟩ : ∃ k', k = k' + 1 := ⟨k - 1, by omega⟩
    rw [List.replicate_succ', ← List.append_assoc, List.getLast?_append]; simp
  simp only [unpad, pad, hk, hlast, hkn, List.length_append, List.length_replicate, Nat.add_sub_cancel]
  rw [if_pos ⟨hk1, hk2, by omega, List.drop_left' rfl⟩, List.take_left' rfl]

theorem pad_length (p : Bytes) : (pad p).length % 16 = 0 ∧ 16 ≤ (pad p).length := by
  simp only [pad, List.length_append, List.length_replicate]; omega

end C12L

namespace C12L
open Spec Spec.CBCHS Model.GoBuf Model.Enc.ACBC

theorem blocks_of_flatten_k (k : Nat) (R : List Bytes) (h : Uniform k R) : blocks k R.length R.flatten = R := by
  induction R with
  | nil => rfl
  | cons r R ih =>
    simp only [List.length_cons, blocks, List.flatten_cons]
    rw [List.take_left' h.head, List.drop_left' h.head, ih h.tail]

theorem toOption_eq_some {α : Type} (x : Outcome α) (v : α) (h : x.toOption = some v) : x = .ok v := by
  cases x <;> simp [Outcome.toOption] at h
  rw [h]

/-- `calcAuthTag` is the specification's T -/
theorem run_calcAuthTag (o : Oracle) (ps : Spec.CBCHS.Params) (mac aad iv ct : Bytes) :
    PO.run o (calcAuthTag ps mac aad iv ct) = .ok (Spec.CBCHS.tag ps (hmacFn o ps.hash) mac aad iv ct) := by
  have : be64 (aad.length * 8 % 2 ^ 64) = be64 (aad.length * 8) := be64_mod _
  simp only [calcAuthTag, Spec.CBCHS.tag, al, this, slice_zero, PO.run_bind, run_hmacQ, PO.run_pure]

/-- the whole encrypt loop -/
theorem encLoop_all (E : Bytes → Bytes) (hE : ∀ x, (E x).length = 16) (buf iv : Bytes) (m : Nat)
    (hm : buf.length = 16 * m) :
    (iterUp (encIterP E) m (buf, iv)).1 = (cbcEnc E iv (blocks 16 m buf)).flatten := by
  have hU := blocks_uniform 16 m buf (by omega)
  have hl := blocks_length 16 m buf
  have hf := blocks_flatten 16 m buf hm
  have := encLoop_spec E hE (blocks 16 m buf) hU [] iv 0 rfl
  rw [hl, hf] at this
  simp only [List.nil_append] at this
  rw [← this]
  congr 1
  apply iterUp_congr; intro t _ s; rw [Nat.zero_add]

/-- the whole decrypt loop -/
theorem decLoop_all (D : Bytes → Bytes) (hD : ∀ x, (D x).length = 16) (ct iv : Bytes) (m : Nat)
    (hm : ct.length = 16 * m) (hiv : iv.length = 16) :
    (iterUp (decIterP D ct) m (List.replicate ct.length 0, iv)).1 = (cbcDec D iv (blocks 16 m ct)).flatten := by
  have hU := blocks_uniform 16 m ct (by omega)
  have hl := blocks_length 16 m ct
  have hf := blocks_flatten 16 m ct hm
  have := decLoop_spec D hD (blocks 16 m ct) hU ct [] [] (List.replicate ct.length 0) iv 0
    (by rw [hf]; rfl) rfl rfl (by rw [List.length_replicate, hl, hm]) hiv
  rw [hl] at this
  simp only [List.nil_append] at this
  rw [← this]
  congr 1
  apply iterUp_congr; intro t _ s; rw [Nat.zero_add]

end C12L
