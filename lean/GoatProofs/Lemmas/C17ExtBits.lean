import GoatProofs.C17
import Goat.Model.Fe448Ext
/-
64-bit word lemmas behind Select / Swap / Equal / IsNegative (all over `Nat`, core lemmas only).
-/
namespace C17Ext
open Model.Fe448 Model.Fe448Ext
set_option exponentiation.threshold 2000

theorem xor_eq_zero_iff (a b : Nat) : a ^^^ b = 0 ↔ a = b := by
  constructor
  · intro h
    have : a ^^^ (a ^^^ b) = b := by rw [← Nat.xor_assoc, Nat.xor_self, Nat.zero_xor]
    rw [h, Nat.xor_zero] at this; exact this
  · rintro rfl; exact Nat.xor_self a

theorem word_eq (x : Int) (h0 : 0 ≤ x) (h1 : x < 2 ^ 64) : word x = x.toNat := by
  unfold word; rw [Int.emod_eq_of_lt h0 h1]

theorem word_lt (x : Int) : word x < 2 ^ 64 := by
  unfold word
  have h1 : 0 ≤ x % 2 ^ 64 := Int.emod_nonneg _ (by decide)
  have h2 : x % 2 ^ 64 < 2 ^ 64 := Int.emod_lt_of_pos _ (by decide)
  omega

theorem ofNat_word (x : Int) (h0 : 0 ≤ x) (h1 : x < 2 ^ 64) : Int.ofNat (word x) = x := by
  rw [word_eq x h0 h1]; simp only [Int.ofNat_eq_natCast]; omega

theorem mask_one : mask64Bits 1 = 2 ^ 64 - 1 := by decide
theorem mask_zero : mask64Bits 0 = 0 := by decide
theorem not64_ones : not64 (2 ^ 64 - 1) = 0 := by unfold not64; exact Nat.xor_self _
theorem not64_zero : not64 0 = 2 ^ 64 - 1 := by unfold not64; exact Nat.zero_xor _

theorem ones_and (x : Nat) (hx : x < 2 ^ 64) : (2 ^ 64 - 1) &&& x = x := by
  rw [Nat.and_comm, Nat.and_two_pow_sub_one_eq_mod, Nat.mod_eq_of_lt hx]

/-- the select expression with an all-ones mask picks the first operand -/
theorem sel_one (x y : Nat) (hx : x < 2 ^ 64) :
    (mask64Bits 1 &&& x) ||| (not64 (mask64Bits 1) &&& y) = x := by
  rw [mask_one, not64_ones, Nat.zero_and, Nat.or_zero, ones_and x hx]

/-- … and with a zero mask the second -/
theorem sel_zero (x y : Nat) (hy : y < 2 ^ 64) :
    (mask64Bits 0 &&& x) ||| (not64 (mask64Bits 0) &&& y) = y := by
  rw [mask_zero, not64_zero, Nat.zero_and, Nat.zero_or, ones_and y hy]

theorem swap_one_left (x y : Nat) (hx : x < 2 ^ 64) (hy : y < 2 ^ 64) :
    x ^^^ (mask64Bits 1 &&& (x ^^^ y)) = y := by
  rw [mask_one, ones_and _ (Nat.xor_lt_two_pow hx hy), ← Nat.xor_assoc, Nat.xor_self, Nat.zero_xor]

theorem swap_one_right (x y : Nat) (hx : x < 2 ^ 64) (hy : y < 2 ^ 64) :
    y ^^^ (mask64Bits 1 &&& (x ^^^ y)) = x := by
  rw [mask_one, ones_and _ (Nat.xor_lt_two_pow hx hy), Nat.xor_comm x y, ← Nat.xor_assoc, Nat.xor_self,
    Nat.zero_xor]

theorem swap_zero (x z : Nat) : x ^^^ (mask64Bits 0 &&& z) = x := by
  rw [mask_zero, Nat.zero_and, Nat.xor_zero]

/-- the constant-time zero test of `Equal`:
    `(((c & 0xFFFFFFFF) | (c >> 32)) - 1) >> 63 = 1 ↔ c = 0` for every 64-bit `c` (else 0) -/
theorem isZero64_spec (c : Nat) (hc : c < 2 ^ 64) : isZero64 c = if c = 0 then 1 else 0 := by
  unfold isZero64
  simp only
  have e1 : c &&& 0xFFFFFFFF = c % 2 ^ 32 := Nat.and_two_pow_sub_one_eq_mod c 32
  have e2 : c >>> 32 = c / 2 ^ 32 := Nat.shiftRight_eq_div_pow c 32
  rw [e1, e2, Nat.shiftRight_eq_div_pow]
  have hlo : c % 2 ^ 32 < 2 ^ 32 := Nat.mod_lt _ (by decide)
  have hhi : c / 2 ^ 32 < 2 ^ 32 := by omega
  have hd : (c % 2 ^ 32 ||| c / 2 ^ 32) < 2 ^ 32 := Nat.or_lt_two_pow hlo hhi
  by_cases h : c = 0
  · subst h; decide
  · rw [if_neg h]
    have hne : (c % 2 ^ 32 ||| c / 2 ^ 32) ≠ 0 := by
      intro hz
      obtain ⟨z1, z2⟩ := Nat.or_eq_zero_iff.mp hz
      omega
    generalize (c % 2 ^ 32 ||| c / 2 ^ 32) = d at hd hne
    omega

theorem isZero64_eq_one_iff (c : Nat) (hc : c < 2 ^ 64) : isZero64 c = 1 ↔ c = 0 := by
  rw [isZero64_spec c hc]; split <;> simp_all

/-- the OR of eight XORs vanishes iff the eight pairs are equal -/
theorem or8_xor_eq_zero (x y : Nat → Nat) :
    (x 0 ^^^ y 0 ||| x 1 ^^^ y 1 ||| x 2 ^^^ y 2 ||| x 3 ^^^ y 3 ||| x 4 ^^^ y 4 ||| x 5 ^^^ y 5 |||
      x 6 ^^^ y 6 ||| x 7 ^^^ y 7) = 0 ↔ ∀ i, i < 8 → x i = y i := by
  simp only [Nat.or_eq_zero_iff, xor_eq_zero_iff]
  constructor
  · rintro ⟨⟨⟨⟨⟨⟨⟨h0, h1⟩, h2⟩, h3⟩, h4⟩, h5⟩, h6⟩, h7⟩ i hi
    have : i = 0 ∨ i = 1 ∨ i = 2 ∨ i = 3 ∨ i = 4 ∨ i = 5 ∨ i = 6 ∨ i = 7 := by omega
    rcases this with h | h | h | h | h | h | h | h <;> subst h <;> assumption
  · intro h
    exact ⟨⟨⟨⟨⟨⟨⟨h 0 (by decide), h 1 (by decide)⟩, h 2 (by decide)⟩, h 3 (by decide)⟩, h 4 (by decide)⟩,
      h 5 (by decide)⟩, h 6 (by decide)⟩, h 7 (by decide)⟩

theorem or8_xor_lt (x y : Nat → Nat) (hx : ∀ i, x i < 2 ^ 64) (hy : ∀ i, y i < 2 ^ 64) :
    (x 0 ^^^ y 0 ||| x 1 ^^^ y 1 ||| x 2 ^^^ y 2 ||| x 3 ^^^ y 3 ||| x 4 ^^^ y 4 ||| x 5 ^^^ y 5 |||
      x 6 ^^^ y 6 ||| x 7 ^^^ y 7) < 2 ^ 64 := by
  have h := fun i => Nat.xor_lt_two_pow (hx i) (hy i)
  exact Nat.or_lt_two_pow (Nat.or_lt_two_pow (Nat.or_lt_two_pow (Nat.or_lt_two_pow (Nat.or_lt_two_pow
    (Nat.or_lt_two_pow (Nat.or_lt_two_pow (h 0) (h 1)) (h 2)) (h 3)) (h 4)) (h 5)) (h 6)) (h 7)

/-! ### limb access under the invariant -/

theorem inv_getD {a : Limbs} (ha : C17.Inv a) (i : Nat) (hi : i < 8) : 0 ≤ a.getD i 0 ∧ a.getD i 0 ≤ B := by
  have hl : i < a.length := by rw [ha.1]; exact hi
  rw [List.getD_eq_getElem?_getD, List.getElem?_eq_getElem hl]
  exact ha.2 _ (List.getElem_mem hl)

theorem B_lt : B < 2 ^ 64 := by decide

theorem limb_eq {a : Limbs} (ha : C17.Inv a) (i : Nat) (hi : i < 8) : Int.ofNat (limb a i) = a.getD i 0 := by
  obtain ⟨h0, h1⟩ := inv_getD ha i hi
  exact ofNat_word _ h0 (by have := B_lt; omega)

theorem limb_lt (a : Limbs) (i : Nat) : limb a i < 2 ^ 64 := word_lt _

/-- a length-8 list is the table of its `getD` -/
theorem map_range_getD (a : Limbs) (hl : a.length = 8) : (List.range 8).map (fun i => a.getD i 0) = a := by
  apply List.ext_getElem
  · simp [hl]
  · intro i h1 h2
    simp only [List.getElem_map, List.getElem_range]
    rw [List.getD_eq_getElem?_getD, List.getElem?_eq_getElem h2]; rfl

theorem map_range_congr (f g : Nat → Int) (h : ∀ i, i < 8 → f i = g i) :
    (List.range 8).map f = (List.range 8).map g := by
  apply List.map_congr_left
  intro i hi
  exact h i (List.mem_range.mp hi)

end C17Ext
