import GoatProofs.Lemmas.C16PtClosure
import GoatProofs.Lemmas.C16PtEnc
/-
[L]B = (0, 1) for the executable affine spec (`Spec.Edwards448.smul`), cheaply: the same
double-and-add is run in PROJECTIVE coordinates over ℤ mod p (no inversion), proved to represent the
affine run step by step (`C16Pt.add_formula` + closure + completeness), and the projective result is
evaluated ONCE in the kernel.  (The direct `decide +kernel` on the affine `smul L B` needs ≈ 1300
modular inversions by exponentiation: 9 CPU-minutes; this takes about a second.)
-/
namespace C13
open Spec.Edwards448 C16Pt
set_option exponentiation.threshold 1000
set_option maxRecDepth 100000

abbrev PPt := ℤ × ℤ × ℤ

/-- projective Edwards addition (the formulas of `Point.Add`), every product reduced mod p -/
def padd (P Q : PPt) : PPt :=
  let a := P.2.2 * Q.2.2 % p
  let b := a * a % p
  let c := P.1 * Q.1 % p
  let dd := P.2.1 * Q.2.1 % p
  let e := d * c % p * dd % p
  let f := (b - e) % p
  let g := (b + e) % p
  let h := (P.1 + P.2.1) * (Q.1 + Q.2.1) % p
  ((h - c - dd) * a % p * f % p, (dd - c) * g % p * a % p, f * g % p)

/-- `P` represents the affine point `a` -/
def PR (P : PPt) (a : AffinePoint) : Prop :=
  (P.2.2 : F) ≠ 0 ∧ (P.1 : F) = (a.x : F) * (P.2.2 : F) ∧ (P.2.1 : F) = (a.y : F) * (P.2.2 : F)

theorem padd_rep (hp : Nat.Prime q) {P Q : PPt} {a b : AffinePoint} (hP : PR P a) (hQ : PR Q b)
    (ha : OnCurve a) (hb : OnCurve b) : PR (padd P Q) (Spec.Edwards448.add a b) := by
  have : Fact (Nat.Prime q) := ⟨hp⟩
  obtain ⟨z1, ex1, ey1⟩ := hP
  obtain ⟨z2, ex2, ey2⟩ := hQ
  obtain ⟨dp, dm⟩ := edwards_complete ((d : ℤ) : F) (d_nonsquare hp) two_ne_zero_F (onCurve_F ha) (onCurve_F hb)
  have hform := add_formula ((d : ℤ) : F) (a.x : F) (a.y : F) (b.x : F) (b.y : F) (P.2.2 : F) (Q.2.2 : F) z1 z2 dp dm
  dsimp only at hform
  obtain ⟨fx, fy, fz⟩ := hform
  have eZ : (((padd P Q).2.2 : ℤ) : F) =
      ((P.2.2 : F) * Q.2.2 * ((P.2.2 : F) * Q.2.2) - (d : F) * ((a.x : F) * P.2.2 * ((b.x : F) * Q.2.2)) * ((a.y : F) * P.2.2 * ((b.y : F) * Q.2.2))) *
      ((P.2.2 : F) * Q.2.2 * ((P.2.2 : F) * Q.2.2) + (d : F) * ((a.x : F) * P.2.2 * ((b.x : F) * Q.2.2)) * ((a.y : F) * P.2.2 * ((b.y : F) * Q.2.2))) := by
    simp only [padd, cast_emod_p, Int.cast_mul, Int.cast_sub, Int.cast_add, ex1, ey1, ex2, ey2]
  refine ⟨by rw [eZ]; exact fz, ?_, ?_⟩
  · rw [eZ, add_x_F hp]
    simp only [padd, cast_emod_p, Int.cast_mul, Int.cast_sub, Int.cast_add, ex1, ey1, ex2, ey2]
    linear_combination fx
  · rw [eZ, add_y_F hp]
    simp only [padd, cast_emod_p, Int.cast_mul, Int.cast_sub, Int.cast_add, ex1, ey1, ex2, ey2]
    linear_combination fy

/-- the double-and-add of `Spec.Edwards448.smulFuel`, in projective coordinates -/
def psmulFuel : ℕ → ℕ → PPt → PPt
  | 0, _, _ => (0, 1, 1)
  | f + 1, k, P =>
    if k = 0 then (0, 1, 1)
    else
      let h := psmulFuel f (k / 2) P
      let h2 := padd h h
      if k % 2 = 1 then padd h2 P else h2

theorem one_ne_zero_F : (1 : F) ≠ 0 := fun h => two_ne_zero_F (by linear_combination 2 * h)

theorem pzero_rep : PR (0, 1, 1) Spec.Edwards448.zero := by
  refine ⟨?_, ?_, ?_⟩
  · simpa using one_ne_zero_F
  · simp [Spec.Edwards448.zero]
  · simp [Spec.Edwards448.zero]

theorem psmulFuel_rep (hp : Nat.Prime q) {P : PPt} {a : AffinePoint} (hP : PR P a) (ha : OnCurve a) :
    ∀ (f k : ℕ), PR (psmulFuel f k P) (smulFuel f k a) ∧ OnCurve (smulFuel f k a)
  | 0, k => ⟨pzero_rep, zero_onCurve⟩
  | f + 1, k => by
    unfold psmulFuel smulFuel
    by_cases hk : k = 0
    · simp only [hk, if_true]; exact ⟨pzero_rep, zero_onCurve⟩
    · simp only [hk, if_false]
      obtain ⟨ih, ihc⟩ := psmulFuel_rep hp hP ha f (k / 2)
      have h2 := padd_rep hp ih ih ihc ihc
      have h2c := add_onCurve hp ihc ihc
      by_cases ho : k % 2 = 1
      · simp only [ho, if_true]; exact ⟨padd_rep hp h2 hP h2c ha, add_onCurve hp h2c ha⟩
      · simp only [ho, if_false]; exact ⟨h2, h2c⟩

/-- the one kernel evaluation: the projective [L]B has X ≡ 0 and Y ≡ Z (mod p) -/
theorem psmul_L_B :
    (psmulFuel (L.log2 + 1) L (B.x, B.y, 1)).1 % p = 0 ∧
    ((psmulFuel (L.log2 + 1) L (B.x, B.y, 1)).2.1 - (psmulFuel (L.log2 + 1) L (B.x, B.y, 1)).2.2) % p = 0 := by
  decide +kernel

theorem B_onCurve' : OnCurve Spec.Edwards448.B := by decide +kernel

/-- [L]B = (0, 1): B has order dividing L (L is prime and B ≠ (0,1), so exactly L) -/
theorem smul_L_B (hp : Nat.Prime q) : smul L B = Spec.Edwards448.zero := by
  have : Fact (Nat.Prime q) := ⟨hp⟩
  have hB : PR (B.x, B.y, 1) B := by
    refine ⟨?_, ?_, ?_⟩
    · simpa using one_ne_zero_F
    · simp
    · simp
  obtain ⟨⟨hz, hx, hy⟩, hc⟩ := psmulFuel_rep hp hB B_onCurve' (L.log2 + 1) L
  obtain ⟨k1, k2⟩ := psmul_L_B
  have e1 : (((psmulFuel (L.log2 + 1) L (B.x, B.y, 1)).1 : ℤ) : F) = 0 := by
    have := (emod_eq_iff _ 0).mp (by rw [k1]; rfl)
    simpa using this
  have e2 : (((psmulFuel (L.log2 + 1) L (B.x, B.y, 1)).2.1 : ℤ) : F) = (((psmulFuel (L.log2 + 1) L (B.x, B.y, 1)).2.2 : ℤ) : F) := by
    have := (emod_eq_iff _ 0).mp (by rw [k2]; rfl)
    push_cast at this
    linear_combination this
  unfold smul
  have hx0 : ((smulFuel (L.log2 + 1) L B).x : F) = 0 := by
    rw [e1] at hx
    rcases mul_eq_zero.mp hx.symm with h | h
    · exact h
    · exact absurd h hz
  have hy1 : ((smulFuel (L.log2 + 1) L B).y : F) = 1 := by
    rw [e2] at hy
    have : (((smulFuel (L.log2 + 1) L B).y : F) - 1) * (((psmulFuel (L.log2 + 1) L (B.x, B.y, 1)).2.2 : ℤ) : F) = 0 := by
      linear_combination -hy
    rcases mul_eq_zero.mp this with h | h
    · linear_combination h
    · exact absurd h hz
  have c0 : Canon (0 : ℤ) := ⟨le_refl 0, by decide +kernel⟩
  have c1 : Canon (1 : ℤ) := ⟨by decide, by decide +kernel⟩
  cases hs : smulFuel (L.log2 + 1) L B with
  | mk sx sy =>
    rw [hs] at hx0 hy1 hc
    have h1 : sx = 0 := by
      have : ((sx : ℤ) : F) = ((0 : ℤ) : F) := by push_cast; exact hx0
      exact canon_eq_of_cast hc.1 c0 this
    have h2 : sy = 1 := by
      have : ((sy : ℤ) : F) = ((1 : ℤ) : F) := by push_cast; exact hy1
      exact canon_eq_of_cast hc.2.1 c1 this
    rw [h1, h2]; rfl

end C13
