import Goat.Model.HeaderMsg
import Goat.Spec.HeaderParams
/-
C11 — decidable facts about the regenerated tables (`Gen.HeaderTables`) against the RFC-derived
parameter list (`Spec.HeaderParams`).
-/
namespace C11
open Model.HeaderTable Model.Header Spec.HeaderParams

/-- which Go-side conversion realises which registered value encoding -/
def realises : Enc → Kind → Bool
  | .text, .str => true
  | .uri, .url => true
  | .jwkObject, .jwk => true
  | .b64stdArray, .certs => true
  | .thumbprint h, .thumb h' => h == h'
  | .b64url, .bytes => true
  | .names, .strs => true
  | .bool, .nb64 => true
  | .posInt, .int => true
  | _, _ => false

/-- the struct field that belongs to a registered name (the model's `Header` record uses goat's
    field names: `x5t#S256` is `x5tS256`, `b64` is stored negated in `nb64`) -/
def ownField (name : String) : String :=
  if name = "x5t#S256" then "x5tS256" else if name = "b64" then "nb64" else name

/-- the chain a thumbprint is derived from / checked against -/
def ownAux : Enc → String
  | .thumbprint _ => "x5c"
  | _ => ""

def rowFor (p : Param) (r : Row) : Bool :=
  r.key == p.name && r.field == ownField p.name && realises p.enc r.kind && r.aux == ownAux p.enc
    && (Fld.ofString r.field).isSome

def distinct : List String → Bool
  | [] => true
  | x :: xs => !xs.contains x && distinct xs

/-- `rows` pairs exactly the parameters `ps`, each with its own field and encoding, once -/
def tableOK (ps : List Param) (rows : List Row) : Bool :=
  rows.length == ps.length && ps.all (fun p => rows.any (rowFor p))
    && distinct (rows.map (·.key)) && distinct (rows.map (·.field))

def decRows : List DecStep → List Row
  | [] => []
  | .row r :: rest => r :: decRows rest
  | .critCheck _ _ :: rest => decRows rest

/-- same rows in both directions (order may differ) -/
def sameRows (a b : List Row) : Bool := a.all (b.contains ·) && b.all (a.contains ·)

/-- the getter / setter named after a parameter reads / writes the parameter's own field -/
def accessorOK (ps : List Param) (api : String → String × String)
    (getters : List (String × String)) (setters : List (String × List String)) : Bool :=
  ps.all fun p =>
    getters.contains ((api p.name).1, ownField p.name) &&
    setters.any (fun s => s.1 == (api p.name).2 && s.2.contains (ownField p.name))

/-- accessor names of goat's public header API (jws and jwe use the same names) -/
def api : String → String × String
  | "alg" => ("Algorithm", "SetAlgorithm")
  | "enc" => ("EncryptionAlgorithm", "SetEncryptionAlgorithm")
  | "zip" => ("CompressionAlgorithm", "SetCompressionAlgorithm")
  | "jku" => ("JWKSetURL", "SetJWKSetURL")
  | "jwk" => ("JWK", "SetJWK")
  | "kid" => ("KeyID", "SetKeyID")
  | "x5u" => ("X509URL", "SetX509URL")
  | "x5c" => ("X509CertificateChain", "SetX509CertificateChain")
  | "x5t" => ("X509CertificateSHA1", "SetX509CertificateSHA1")
  | "x5t#S256" => ("X509CertificateSHA256", "SetX509CertificateSHA256")
  | "typ" => ("Type", "SetType")
  | "cty" => ("ContentType", "SetContentType")
  | "crit" => ("Critical", "SetCritical")
  | "b64" => ("Base64", "SetBase64")
  | "epk" => ("EphemeralPublicKey", "SetEphemeralPublicKey")
  | "apu" => ("AgreementPartyUInfo", "SetAgreementPartyUInfo")
  | "apv" => ("AgreementPartyVInfo", "SetAgreementPartyVInfo")
  | "iv" => ("InitializationVector", "SetInitializationVector")
  | "tag" => ("AuthenticationTag", "SetAuthenticationTag")
  | "p2s" => ("PBES2SaltInput", "SetPBES2SaltInput")
  | "p2c" => ("PBES2Count", "SetPBES2Count")
  | _ => ("", "")

end C11
