import Goat.Model.HeaderMsg
import Goat.Spec.HeaderParams
/-
C11 — decidable facts about the regenerated tables (`Gen.HeaderTables`) against the RFC-derived
parameter list (`Spec.HeaderParams`).
-/
namespace C11
open Model.HeaderTable Model.Header Spec.HeaderParams

/-- which Go-side conversion realises which registered value encoding -/
def realises : Enc → Kind → Bool
  | .text, .str => true
  | .uri, .url => true
  | .jwkObject, .jwk => true
  | .b64stdArray, .certs => true
  | .thumbprint h, .thumb h' => h == h'
  | .b64url, .bytes => true
  | .names, .strs => true
  | .bool, .nb64 => true
  | .posInt, .int => true
  | _, _ => false

/-- the struct field that belongs to a registered name (the model's `Header` record uses goat's
    field names: `x5t#S256` is `x5tS256`, `b64` is stored negated in `nb64`) -/
def ownField (name : String) : String :=
  if name = "x5t#S256" then "x5tS256" else if name = "b64" then "nb64" else name

/-- the chain a thumbprint is derived from / checked against -/
def ownAux : Enc → String
  | .thumbprint _ => "x5c"
  | _ => ""

def rowFor (p : Param) (r : Row) : Bool :=
  r.key == p.name && r.field == ownField p.name && realises p.enc r.kind && r.aux == ownAux p.enc
    && (Fld.ofString r.field).isSome

def distinct : List String → Bool
  | [] => true
  | x :: xs => !xs.contains x && distinct xs

/-- `rows` pairs exactly the parameters `ps`, each with its own field and encoding, once -/
def tableOK (ps : List Param) (rows : List Row) : Bool :=
  rows.length == ps.length && ps.all (fun p => rows.any (rowFor p))
    && distinct (rows.map (·.key)) && distinct (rows.map (·.field))

def decRows : List DecStep → List Row
  | [] => []
  | .row r :: rest => r :: decRows rest
  | .critCheck _ _ :: rest => decRows rest

/-- same rows in both directions (order may differ) -/
def sameRows (a b : List Row) : Bool := a.all (b.contains ·) && b.all (a.contains ·)

/-- the getter / setter named after a parameter reads / writes the parameter's own field -/
def accessorOK (ps : List Param) (api : String → String × String)
    (getters : List (String × String)) (setters : List (String × List String)) : Bool :=
  ps.all fun p =>
    getters.contains ((api p.name).1, ownField p.name) &&
    setters.any (fun s => s.1 == (api p.name).2 && s.2.contains (ownField p.name))

/-- accessor names of goat's public header API (jws and jwe use the same names) -/
def api : String → String × String
  | "alg" => ("Algorithm", "SetAlgorithm")
  | "enc" => ("EncryptionAlgorithm", "SetEncryptionAlgorithm")
  | "zip" => ("CompressionAlgorithm", "SetCompressionAlgorithm")
  | "jku" => ("JWKSetURL", "SetJWKSetURL")
  | "jwk" => ("JWK", "SetJWK")
  | "kid" => ("KeyID", "SetKeyID")
  | "x5u" => ("X509URL", "SetX509URL")
  | "x5c" => ("X509CertificateChain", "SetX509CertificateChain")
  | "x5t" => ("X509CertificateSHA1", "SetX509CertificateSHA1")
  | "x5t#S256" => ("X509CertificateSHA256", "SetX509CertificateSHA256")
  | "typ" => ("Type", "SetType")
  | "cty" => ("ContentType", "SetContentType")
  | "crit" => ("Critical", "SetCritical")
  | "b64" => ("Base64", "SetBase64")
  | "epk" => ("EphemeralPublicKey", "SetEphemeralPublicKey")
  | "apu" => ("AgreementPartyUInfo", "SetAgreementPartyUInfo")
  | "apv" => ("AgreementPartyVInfo", "SetAgreementPartyVInfo")
  | "iv" => ("InitializationVector", "SetInitializationVector")
  | "tag" => ("AuthenticationTag", "SetAuthenticationTag")
  | "p2s" => ("PBES2SaltInput", "SetPBES2SaltInput")
  | "p2c" => ("PBES2Count", "SetPBES2Count")
  | _ => ("", "")

/-- number of sites: encoder rows, decoder rows, getters and setters that carry parameter `p`
    (rows by member name AND own field; accessors by own field) -/
def sites (p : Param) (enc dec : List Row) (getters : List (String × String))
    (setters : List (String × List String)) : Nat × Nat × Nat × Nat :=
  ((enc.filter (fun r => r.key == p.name && r.field == ownField p.name)).length,
   (dec.filter (fun r => r.key == p.name && r.field == ownField p.name)).length,
   (getters.filter (fun g => g.2 == ownField p.name)).length,
   (setters.filter (fun s => s.2.contains (ownField p.name))).length)

/-- every parameter has exactly one encoder site, one decoder site, one getter and one setter —
    except that the listed `extra` setters may write a field in addition to its own setter
    (jws `SetBase64` also maintains `crit`) — and no member name or field is used by a second row -/
def oneSiteEach (ps : List Param) (enc dec : List Row) (getters : List (String × String))
    (setters : List (String × List String)) (extra : List (String × String)) : Bool :=
  ps.all (fun p =>
    let n := sites p enc dec getters setters
    n.1 == 1 && n.2.1 == 1 && n.2.2.1 == 1 &&
      n.2.2.2 == 1 + (extra.filter (fun e => e.2 == ownField p.name)).length) &&
  enc.all (fun r => (enc.filter (fun r' => r'.key == r.key || r'.field == r.field)).length == 1) &&
  dec.all (fun r => (dec.filter (fun r' => r'.key == r.key || r'.field == r.field)).length == 1) &&
  getters.length == ps.length

/-- every setter of a registered parameter deletes exactly its own registered member name from
    `Raw` (and nothing else), and no other setter exists -/
def settersDeleteOwn (ps : List Param) (api : String → String × String)
    (dels : List (String × List String)) : Bool :=
  ps.all (fun p => dels.contains ((api p.name).2, [p.name])) && dels.length == ps.length

/-- for the model: the plain setter of each row's field deletes exactly that row's member name
    (`skip`: fields without a plain setter — jws nb64 is written by SetBase64 only) -/
def plainSettersDelete (rows : List Row) (setters dels : List (String × List String)) (skip : List String) : Bool :=
  rows.all (fun r => skip.contains r.field ||
    match Fld.ofString r.field with
    | some f => deletesOf dels (plainSetter setters f) == [r.key]
    | none => false)

end C11
