import GoatProofs.Lemmas.C14MontXZ
import GoatProofs.Lemmas.C14Ladder
import GoatProofs.Primes
/-
C14, Montgomery curves (part 3: the RFC 7748 ladder computes x-only scalar multiplication).

`Spec.RFC7748.ladder` works on integers with `% p`; casting to `F = ZMod p` (p = 2^448 − 2^224 − 1, prime by
`GoatProofs.Primes.p448_prime`) turns one `step` into `dblX/dblZ/daddX/daddZ` of `C14MontXZ`.
Loop invariant (`Inv`): after the bits 447 … j the logical pair (the stored pair, exchanged when the pending
swap bit is 1) represents `([m]P, [m+1]P)` with `m = k >> j`.  Result:

  ladder_cast :  k < 2^448 → (u : F) = xOf Q → (ladder k u : F) = xOf (k • Q)        for EVERY point Q

(`xOf O = 0`; for `x(Q) = 0`, i.e. `Q = O` or the 2-torsion point `(0,0)`, the ladder returns 0: `ladder_x1_zero`).
-/
namespace C14Mont
open WeierstrassCurve GoatProofs.Primes Spec.RFC7748
set_option exponentiation.threshold 2000

/-- the field of curve448 -/
abbrev F := ZMod p448

/-- curve448: `v² = u³ + 156326·u² + u` over `F` -/
abbrev A448 : F := 156326
abbrev Pt := (MW A448).toAffine.Point

theorem p_cast : ((p448 : ℕ) : ℤ) = p := by decide +kernel

theorem cast_mod (a : ℤ) : ((a % p : ℤ) : F) = (a : F) := by
  rw [← p_cast]; exact ZMod.intCast_mod a p448

theorem small_ne (n : ℕ) (h0 : 0 < n) (hn : n < p448) : ((n : ℕ) : F) ≠ 0 := by
  rw [Ne, ZMod.natCast_eq_zero_iff]
  intro hd
  exact absurd (Nat.le_of_dvd h0 hd) (by omega)

theorem good448 : Good A448 (39081 : F) where
  two := by
    have := small_ne 2 (by decide) (by decide +kernel); exact_mod_cast this
  a24 := by norm_num [A448]
  ap := by
    have := small_ne 156328 (by decide) (by decide +kernel)
    have e : A448 + 2 = ((156328 : ℕ) : F) := by norm_num [A448]
    rw [e]; exact this
  am := by
    have := small_ne 156324 (by decide) (by decide +kernel)
    have e : A448 - 2 = ((156324 : ℕ) : F) := by norm_num [A448]
    rw [e]; exact this

/-! ## one ladder step, cast to `F` -/

theorem cast_fadd (a b : ℤ) : ((fadd a b : ℤ) : F) = a + b := by unfold fadd; rw [cast_mod, Int.cast_add]
theorem cast_fsub (a b : ℤ) : ((fsub a b : ℤ) : F) = a - b := by unfold fsub; rw [cast_mod, Int.cast_sub]
theorem cast_fmul (a b : ℤ) : ((fmul a b : ℤ) : F) = a * b := by unfold fmul; rw [cast_mod, Int.cast_mul]
theorem cast_fsq (a : ℤ) : ((fsq a : ℤ) : F) = (a : F) ^ 2 := by unfold fsq; rw [cast_mod, Int.cast_mul, sq]
theorem cast_a24 : ((a24 : ℤ) : F) = 39081 := by unfold a24; norm_num

/-- the pair the step doubles -/
def pair2 (k : Nat) (s : State) (t : Nat) : ℤ × ℤ :=
  ((cswap (s.swap ^^^ ((k >>> t) &&& 1)) s.x2 s.x3).1, (cswap (s.swap ^^^ ((k >>> t) &&& 1)) s.z2 s.z3).1)
/-- the other pair -/
def pair3 (k : Nat) (s : State) (t : Nat) : ℤ × ℤ :=
  ((cswap (s.swap ^^^ ((k >>> t) &&& 1)) s.x2 s.x3).2, (cswap (s.swap ^^^ ((k >>> t) &&& 1)) s.z2 s.z3).2)

theorem step_x1 (k : Nat) (s : State) (t : Nat) : (step k s t).x1 = s.x1 := rfl
theorem step_swap (k : Nat) (s : State) (t : Nat) : (step k s t).swap = (k >>> t) &&& 1 := rfl

theorem step_x2 (k : Nat) (s : State) (t : Nat) :
    (((step k s t).x2 : ℤ) : F) = dblX ((pair2 k s t).1 : F) ((pair2 k s t).2 : F) := by
  simp only [step, pair2, cast_fmul, cast_fsq, cast_fadd, cast_fsub, dblX]

theorem step_z2 (k : Nat) (s : State) (t : Nat) :
    (((step k s t).z2 : ℤ) : F) = dblZ (39081 : F) ((pair2 k s t).1 : F) ((pair2 k s t).2 : F) := by
  simp only [step, pair2, cast_fmul, cast_fsq, cast_fadd, cast_fsub, cast_a24, dblZ]

theorem step_x3 (k : Nat) (s : State) (t : Nat) :
    (((step k s t).x3 : ℤ) : F) =
      daddX ((pair2 k s t).1 : F) ((pair2 k s t).2 : F) ((pair3 k s t).1 : F) ((pair3 k s t).2 : F) := by
  simp only [step, pair2, pair3, cast_fmul, cast_fsq, cast_fadd, cast_fsub, daddX]

theorem step_z3 (k : Nat) (s : State) (t : Nat) :
    (((step k s t).z3 : ℤ) : F) =
      daddZ (s.x1 : F) ((pair2 k s t).1 : F) ((pair2 k s t).2 : F) ((pair3 k s t).1 : F) ((pair3 k s t).2 : F) := by
  simp only [step, pair2, pair3, cast_fmul, cast_fsq, cast_fadd, cast_fsub, daddZ]

/-- the exchange, by cases of the stored swap bit and the key bit -/
theorem pairs_of (k : Nat) (s : State) (t : Nat) (sw kt : Nat) (hs : s.swap = sw) (hk : (k >>> t) &&& 1 = kt) :
    (sw ^^^ kt = 1 → pair2 k s t = (s.x3, s.z3) ∧ pair3 k s t = (s.x2, s.z2)) ∧
    (sw ^^^ kt ≠ 1 → pair2 k s t = (s.x2, s.z2) ∧ pair3 k s t = (s.x3, s.z3)) := by
  subst hs hk
  unfold pair2 pair3 cswap
  constructor <;> intro h
  · simp only [if_pos h, and_self]
  · simp only [if_neg h, and_self]

/-! ## group identities for the invariant -/

section grp
variable {G : Type*} [AddCommGroup G] (m : ℕ) (P : G)
theorem g00 : (2 * m + 0) • P = m • P + m • P := by rw [add_zero, two_mul, add_nsmul]
theorem g01 : (2 * m + 0) • P + P = m • P + (m • P + P) := by rw [g00, add_assoc]
theorem g10 : (2 * m + 1) • P = m • P + (m • P + P) := by rw [add_nsmul, one_nsmul, two_mul, add_nsmul, add_assoc]
theorem g11 : (2 * m + 1) • P + P = (m • P + P) + (m • P + P) := by rw [g10]; abel
end grp

/-! ## the invariant -/

/-- logical pair `([m]P, [m+1]P)`: stored as is when the pending swap bit is 0, exchanged when it is 1 -/
def Inv (x1 : F) (P : Pt) (m : ℕ) (s : State) : Prop :=
  (s.x1 : F) = x1 ∧
  ((s.swap = 0 ∧ Repr (s.x2 : F) (s.z2 : F) (m • P) ∧ Repr (s.x3 : F) (s.z3 : F) (m • P + P)) ∨
   (s.swap = 1 ∧ Repr (s.x3 : F) (s.z3 : F) (m • P) ∧ Repr (s.x2 : F) (s.z2 : F) (m • P + P)))

theorem and_one_cases (n : Nat) : n &&& 1 = 0 ∨ n &&& 1 = 1 := by rw [Nat.and_one_is_mod]; omega

theorem step_inv {x1 y1 : F} {h1 : (MW A448).toAffine.Nonsingular x1 y1} (hx1 : x1 ≠ 0)
    (k : Nat) (s : State) (t m : Nat) (h : Inv x1 (Affine.Point.some x1 y1 h1) m s) :
    Inv x1 (Affine.Point.some x1 y1 h1) (2 * m + ((k >>> t) &&& 1)) (step k s t) := by
  obtain ⟨hx, hcase⟩ := h
  refine ⟨by rw [step_x1]; exact hx, ?_⟩
  rw [step_swap, step_x2, step_z2, step_x3, step_z3, hx]
  rcases hcase with ⟨hs, ha, hb⟩ | ⟨hs, ha, hb⟩ <;> rcases and_one_cases (k >>> t) with hk | hk
  · -- stored (a, b), bit 0: no exchange
    obtain ⟨e2, e3⟩ := (pairs_of k s t 0 0 hs hk).2 (by decide)
    rw [hk, e2, e3]
    left
    refine ⟨rfl, ?_, ?_⟩
    · rw [g00]; exact dbl_repr good448 ha
    · rw [g01]; exact dadd_repr good448 hx1 ha hb
  · -- stored (a, b), bit 1: exchange, double b
    obtain ⟨e2, e3⟩ := (pairs_of k s t 0 1 hs hk).1 (by decide)
    rw [hk, e2, e3]
    right
    refine ⟨rfl, ?_, ?_⟩
    · rw [g10, daddX_comm, daddZ_comm]; exact dadd_repr good448 hx1 ha hb
    · rw [g11]; exact dbl_repr good448 hb
  · -- stored (b, a), bit 0: exchange back, double a
    obtain ⟨e2, e3⟩ := (pairs_of k s t 1 0 hs hk).1 (by decide)
    rw [hk, e2, e3]
    left
    refine ⟨rfl, ?_, ?_⟩
    · rw [g00]; exact dbl_repr good448 ha
    · rw [g01]; exact dadd_repr good448 hx1 ha hb
  · -- stored (b, a), bit 1: no exchange, double b
    obtain ⟨e2, e3⟩ := (pairs_of k s t 1 1 hs hk).2 (by decide)
    rw [hk, e2, e3]
    right
    refine ⟨rfl, ?_, ?_⟩
    · rw [g10, daddX_comm, daddZ_comm]; exact dadd_repr good448 hx1 ha hb
    · rw [g11]; exact dbl_repr good448 hb

theorem shift_step (k n : Nat) : k >>> n = 2 * (k >>> (n + 1)) + ((k >>> n) &&& 1) := by
  rw [Nat.shiftRight_succ, Nat.and_one_is_mod]; omega

theorem fold_inv {x1 y1 : F} {h1 : (MW A448).toAffine.Nonsingular x1 y1} (hx1 : x1 ≠ 0) (k : Nat) :
    ∀ (n : Nat) (s : State), Inv x1 (Affine.Point.some x1 y1 h1) (k >>> n) s →
      Inv x1 (Affine.Point.some x1 y1 h1) k ((List.range n).reverse.foldl (step k) s) := by
  intro n
  induction n with
  | zero => intro s h; simpa using h
  | succ n ih =>
    intro s h
    rw [List.range_succ, List.reverse_append, List.reverse_singleton, List.singleton_append, List.foldl_cons]
    apply ih
    rw [shift_step k n]
    exact step_inv hx1 k s n _ h

/-! ## the final division -/

/-- x-coordinate with `O ↦ 0` (the value the RFC function returns for the point at infinity) -/
def xOf : Pt → F
  | .zero => 0
  | .some x _ _ => x

theorem xOf_zero : xOf (0 : Pt) = 0 := rfl
theorem xOf_some {x y : F} (h : (MW A448).toAffine.Nonsingular x y) : xOf (Affine.Point.some x y h) = x := rfl

theorem cast_fpow (b : ℤ) (e : ℕ) : ((fpow b e : ℤ) : F) = (b : F) ^ e := by
  have h := C14.fpow_cong b e
  unfold C17.Cong at h
  rw [← C14.p_eq, ← p_cast] at h
  have := (ZMod.intCast_eq_intCast_iff_dvd_sub (b ^ e) (fpow b e) p448).mpr h
  rw [← this, Int.cast_pow]

theorem pm2 : (p - 2).toNat = p448 - 2 := by decide +kernel
theorem p448_sub : p448 - 2 + 1 = p448 - 1 := by decide +kernel
theorem p448_sub_ne : p448 - 2 ≠ 0 := by decide +kernel

theorem final_repr {X Z : ℤ} {Q : Pt} (h : Repr (X : F) (Z : F) Q) :
    ((fmul X (fpow Z (p - 2).toNat) : ℤ) : F) = xOf Q := by
  rw [cast_fmul, cast_fpow, pm2]
  cases Q with
  | zero =>
    obtain ⟨hz, _⟩ := h
    rw [hz, zero_pow p448_sub_ne, mul_zero]; rfl
  | some x y hn =>
    obtain ⟨hz, hx⟩ := h
    show _ = x
    rw [hx, mul_assoc, ← pow_succ', p448_sub, ZMod.pow_card_sub_one_eq_one hz, mul_one]

/-! ## the ladder with x₁ ≠ 0 -/

theorem ladder_some {x1 y1 : F} (h1 : (MW A448).toAffine.Nonsingular x1 y1) (hx1 : x1 ≠ 0)
    (k : ℕ) (hk : k < 2 ^ 448) (u : ℤ) (hu : (u : F) = x1) :
    ((ladder k u : ℤ) : F) = xOf (k • Affine.Point.some x1 y1 h1) := by
  have h0 : Inv x1 (Affine.Point.some x1 y1 h1) (k >>> 448)
      { x1 := u % p, x2 := 1, z2 := 0, x3 := u % p, z3 := 1, swap := 0 } := by
    have hm : k >>> 448 = 0 := by rw [Nat.shiftRight_eq_div_pow]; exact Nat.div_eq_of_lt hk
    rw [hm]
    refine ⟨by show ((u % p : ℤ) : F) = x1; rw [cast_mod, hu], Or.inl ⟨rfl, ?_, ?_⟩⟩
    · rw [zero_nsmul]
      exact ⟨by norm_num, by norm_num⟩
    · rw [zero_nsmul, zero_add, repr_some]
      show ((1 : ℤ) : F) ≠ 0 ∧ ((u % p : ℤ) : F) = x1 * ((1 : ℤ) : F)
      rw [cast_mod, hu]
      exact ⟨by norm_num, by norm_num⟩
  have hfin := fold_inv hx1 k 448 _ h0
  obtain ⟨_, ⟨hs, ha, _⟩ | ⟨hs, ha, _⟩⟩ := hfin
  · have := final_repr ha
    unfold ladder indices bits cswap
    simp only [hs]
    exact this
  · have := final_repr ha
    unfold ladder indices bits cswap
    simp only [hs]
    exact this

/-! ## the ladder with x₁ = 0 returns 0 -/

/-- invariant for `x₁ = 0`: `z₂ = 0` and `x₃ = 0` in the stored state, whatever the swap bit -/
def Inv0 (s : State) : Prop := (s.x1 : F) = 0 ∧ (s.z2 : F) = 0 ∧ (s.x3 : F) = 0

theorem step_inv0 (k : Nat) (s : State) (t : Nat) (h : Inv0 s) : Inv0 (step k s t) := by
  obtain ⟨h1, h2, h3⟩ := h
  refine ⟨by rw [step_x1]; exact h1, ?_, ?_⟩
  · rw [step_z2]
    by_cases hsw : s.swap ^^^ ((k >>> t) &&& 1) = 1
    · rw [((pairs_of k s t _ _ rfl rfl).1 hsw).1]
      show dblZ _ (s.x3 : F) _ = 0
      rw [h3]; unfold dblZ; ring
    · rw [((pairs_of k s t _ _ rfl rfl).2 hsw).1]
      show dblZ _ _ (s.z2 : F) = 0
      rw [h2]; unfold dblZ; ring
  · rw [step_x3]
    by_cases hsw : s.swap ^^^ ((k >>> t) &&& 1) = 1
    · obtain ⟨e2, e3⟩ := (pairs_of k s t _ _ rfl rfl).1 hsw
      rw [e2, e3]
      show daddX (s.x3 : F) _ _ (s.z2 : F) = 0
      rw [h2, h3]; unfold daddX; ring
    · obtain ⟨e2, e3⟩ := (pairs_of k s t _ _ rfl rfl).2 hsw
      rw [e2, e3]
      show daddX _ (s.z2 : F) (s.x3 : F) _ = 0
      rw [h2, h3]; unfold daddX; ring

theorem fold_inv0 (k : Nat) (ts : List Nat) : ∀ s : State, Inv0 s → Inv0 (ts.foldl (step k) s) := by
  induction ts with
  | nil => intro s h; exact h
  | cons t ts ih => intro s h; exact ih _ (step_inv0 k s t h)

/-- `X448(k, 0)` is 0 for EVERY scalar: with `x₁ = 0` the ladder returns 0 -/
theorem ladder_x1_zero (k : ℕ) (u : ℤ) (hu : (u : F) = 0) : ((ladder k u : ℤ) : F) = 0 := by
  have h0 : Inv0 { x1 := u % p, x2 := 1, z2 := 0, x3 := u % p, z3 := 1, swap := 0 } := by
    refine ⟨?_, ?_, ?_⟩
    · show ((u % p : ℤ) : F) = 0
      rw [cast_mod, hu]
    · show ((0 : ℤ) : F) = 0
      norm_num
    · show ((u % p : ℤ) : F) = 0
      rw [cast_mod, hu]
  obtain ⟨_, h2, h3⟩ := fold_inv0 k indices _ h0
  unfold ladder
  simp only
  rw [cast_fmul, cast_fpow, pm2]
  unfold cswap
  split
  · show (_ : F) * _ = 0
    simp only
    rw [h3, zero_mul]
  · simp only
    rw [h2, zero_pow p448_sub_ne, mul_zero]

/-! ## every point -/

/-- a point with `x = 0` is `(0, 0)`, of order 2: its multiples are `O` and itself -/
theorem nsmul_x_zero {y : F} (h : (MW A448).toAffine.Nonsingular 0 y) (k : ℕ) :
    xOf (k • Affine.Point.some 0 y h) = 0 := by
  have hy : y = 0 := by
    have := eqn h
    have : y ^ 2 = 0 := by rw [this]; ring
    exact pow_eq_zero_iff (by decide) |>.mp this
  have h2 : Affine.Point.some 0 y h + Affine.Point.some 0 y h = 0 := add_self_of_y_zero h hy
  have : k • Affine.Point.some 0 y h = 0 ∨ k • Affine.Point.some 0 y h = Affine.Point.some 0 y h := by
    induction k with
    | zero => left; exact zero_nsmul _
    | succ k ih =>
      rcases ih with e | e
      · right; rw [succ_nsmul, e, zero_add]
      · left; rw [succ_nsmul, e, h2]
  rcases this with e | e <;> rw [e] <;> rfl

/-- **the RFC 7748 ladder is x-only scalar multiplication on curve448**: for every point `Q` of the curve
    (Mathlib's group of nonsingular points of `v² = u³ + 156326u² + u` over `ZMod p`), every scalar below
    2^448 and every integer `u` congruent to `x(Q)` (to 0 for `Q = O`), `ladder k u ≡ x([k]Q)` (0 if `[k]Q = O`) -/
theorem ladder_cast (k : ℕ) (hk : k < 2 ^ 448) (u : ℤ) (Q : Pt) (hu : (u : F) = xOf Q) :
    ((ladder k u : ℤ) : F) = xOf (k • Q) := by
  cases Q with
  | zero =>
    have e0 : (Affine.Point.zero : Pt) = 0 := rfl
    rw [e0, nsmul_zero, xOf_zero]
    exact ladder_x1_zero k u hu
  | some x y h =>
    by_cases hx : x = 0
    · subst hx
      rw [nsmul_x_zero h k]
      exact ladder_x1_zero k u hu
    · exact ladder_some h hx k hk u hu

end C14Mont
