import Goat.Model.NumericDate
/-
Decimal digit lemmas: reading back what `natDigits` (strconv.AppendInt / FormatInt) wrote.
-/
namespace GoatProofs.Lemmas.C10Digits
open Model.NumericDate

theorem digitVal_digitChar : ∀ d, d < 10 → digitVal (digitChar d) = d := by decide
theorem isDigit_digitChar : ∀ d, d < 10 → isDigit (digitChar d) = true := by decide

theorem natOfDigits_append (xs ys : List Char) :
    natOfDigits (xs ++ ys) = natOfDigits xs * 10 ^ ys.length + natOfDigits ys := by
  unfold natOfDigits
  induction ys generalizing xs with
  | nil => simp
  | cons y ys ih =>
    have h := ih (xs ++ [y])
    simp only [List.append_assoc, List.singleton_append] at h
    rw [h]
    have h2 := ih [y]
    simp only [List.singleton_append] at h2
    rw [h2]
    simp only [List.foldl_append, List.foldl_cons, List.foldl_nil, List.length_cons, Nat.zero_mul, Nat.zero_add]
    rw [Nat.pow_succ]
    generalize List.foldl (fun a c => a * 10 + digitVal c) 0 xs = A
    generalize 10 ^ ys.length = P
    rw [Nat.add_mul, Nat.mul_assoc, Nat.mul_comm 10 P]
    omega

theorem natDigitsAux_acc (fuel n : Nat) (acc : List Char) :
    natDigitsAux fuel n acc = natDigitsAux fuel n [] ++ acc := by
  induction fuel generalizing n acc with
  | zero => simp [natDigitsAux]
  | succ f ih =>
    unfold natDigitsAux
    split
    · simp
    · rw [ih (n / 10) (digitChar (n % 10) :: acc), ih (n / 10) [digitChar (n % 10)]]
      simp

/-- every char written is a digit -/
def AllDigits (cs : List Char) : Prop := ∀ c ∈ cs, isDigit c = true

theorem natDigitsAux_spec (fuel n : Nat) (h : n < fuel) :
    natOfDigits (natDigitsAux fuel n []) = n ∧ AllDigits (natDigitsAux fuel n []) ∧ natDigitsAux fuel n [] ≠ [] := by
  induction fuel generalizing n with
  | zero => omega
  | succ f ih =>
    unfold natDigitsAux
    split
    · rename_i h0
      have hn : n < 10 := by omega
      refine ⟨?_, ?_, by simp⟩
      · simp [natOfDigits, digitVal_digitChar (n % 10) (by omega)]; omega
      · intro c hc
        simp at hc
        subst hc
        exact isDigit_digitChar _ (by omega)
    · rename_i h0
      have hlt : n / 10 < f := by omega
      obtain ⟨h1, h2, h3⟩ := ih (n / 10) hlt
      rw [natDigitsAux_acc]
      refine ⟨?_, ?_, by simp⟩
      · rw [natOfDigits_append, h1]
        simp [natOfDigits, digitVal_digitChar (n % 10) (by omega)]
        omega
      · intro c hc
        simp at hc
        rcases hc with hc | hc
        · exact h2 c hc
        · subst hc; exact isDigit_digitChar _ (by omega)

theorem natDigits_spec (n : Nat) :
    natOfDigits (natDigits n) = n ∧ AllDigits (natDigits n) ∧ natDigits n ≠ [] :=
  natDigitsAux_spec (n + 1) n (by omega)

/-- spanDigits splits a digit run from a tail that does not begin with a digit -/
theorem spanDigits_append (ds rest : List Char) (hd : AllDigits ds)
    (hr : ∀ c r, rest = c :: r → isDigit c = false) : spanDigits (ds ++ rest) = (ds, rest) := by
  induction ds with
  | nil =>
    cases rest with
    | nil => rfl
    | cons c r => simp [spanDigits, hr c r rfl]
  | cons d ds ih =>
    have hd' : AllDigits ds := fun c hc => hd c (List.mem_cons_of_mem _ hc)
    have := ih hd'
    simp [spanDigits, hd d (List.mem_cons_self), this]

theorem spanDigits_all (ds : List Char) (hd : AllDigits ds) : spanDigits ds = (ds, []) := by
  have := spanDigits_append ds [] hd (by intro c r h; cases h)
  simpa using this

end GoatProofs.Lemmas.C10Digits
