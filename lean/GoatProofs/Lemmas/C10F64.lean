import GoatProofs.Lemmas.C10Rne
/-
`int64(math.Trunc(x.Float64()))` for a big.Float within 2^-59 of an integer N, 1 ≤ N < 2^30:
the binary64 rounding lands exactly on N (N is representable; the neighbours are at least
2^-23 away), so the truncation is N.
-/
namespace GoatProofs.Lemmas.C10F64
open Model.NumericDate GoatProofs.Lemmas.C10Rne

theorem pow_split (a b : Nat) (h : b ≤ a) : 2 ^ a = 2 ^ (a - b) * 2 ^ b := by
  rw [← Nat.pow_add]; congr 1; omega

theorem f64_trunc_near_int (neg : Bool) (m E N : Nat) (hN1 : 1 ≤ N) (hN : N < 2 ^ 30) (hE : 59 ≤ E)
    (h1 : m ≤ N * 2 ^ E + 2 ^ (E - 59)) (h2 : N * 2 ^ E ≤ m + 2 ^ (E - 59)) :
    f64TruncI64 (.fin neg m (-(E : Int))) = if neg then -(N : Int) else N := by
  -- size of m
  have hK : 2 ^ E = 2 ^ 59 * 2 ^ (E - 59) := by rw [← Nat.pow_add]; congr 1; omega
  obtain ⟨K, hKdef⟩ : ∃ K, K = 2 ^ (E - 59) := ⟨_, rfl⟩
  rw [← hKdef] at h1 h2 hK
  have hKpos : 0 < K := by rw [hKdef]; positivity
  have hmlo : 2 ^ (E - 1) ≤ m := by
    have : 2 ^ E = 2 * 2 ^ (E - 1) := by
      rw [show E = (E - 1) + 1 by omega, Nat.pow_succ]; simp; ring
    have h59 : (2 : Nat) ^ 59 = 576460752303423488 := by norm_num
    nlinarith
  have hmhi : m < 2 ^ (E + 31) := by
    have : 2 ^ (E + 31) = 2 ^ E * 2 ^ 31 := Nat.pow_add 2 E 31
    have h31 : (2 : Nat) ^ 31 = 2147483648 := by norm_num
    have h30 : (2 : Nat) ^ 30 = 1073741824 := by norm_num
    have h59 : (2 : Nat) ^ 59 = 576460752303423488 := by norm_num
    have hEpos : 0 < 2 ^ E := by positivity
    nlinarith
  have hb1 : E ≤ bitlen m := by
    have := lt_bitlen_of_pow_le m (E - 1) hmlo
    omega
  have hb2 : bitlen m ≤ E + 31 := bitlen_le_of_lt m _ hmhi
  obtain ⟨m', hrne, _, _, hd1, hd2⟩ := rne_plain 53 (by omega) m (-(E : Int)) (by omega)
  obtain ⟨b, hb⟩ : ∃ b, b = bitlen m := ⟨_, rfl⟩
  rw [← hb] at hrne hd1 hd2 hb1 hb2
  obtain ⟨r, hr⟩ : ∃ r, r = b - 53 := ⟨_, rfl⟩
  rw [← hr] at hrne hd1 hd2
  have hrE : r + 22 ≤ E := by omega
  have hrE2 : E ≤ r + 53 := by omega
  -- 2^E = A * R, R ≥ 64 K
  obtain ⟨R, hR⟩ : ∃ R, R = 2 ^ r := ⟨_, rfl⟩
  obtain ⟨A, hA⟩ : ∃ A, A = 2 ^ (E - r) := ⟨_, rfl⟩
  have hAR : 2 ^ E = A * R := by rw [hA, hR]; exact pow_split E r (by omega)
  have hRK : 64 * K ≤ R := by
    rw [hR, hKdef]
    have : 2 ^ r = 2 ^ (r - (E - 59)) * 2 ^ (E - 59) := pow_split r (E - 59) (by omega)
    rw [this]
    have : 2 ^ 6 ≤ 2 ^ (r - (E - 59)) := Nat.pow_le_pow_right (by omega) (by omega)
    have h6 : (2 : Nat) ^ 6 = 64 := by norm_num
    nlinarith
  rw [← hR] at hd1 hd2
  rw [hAR] at h1 h2
  have hRpos : 0 < R := by rw [hR]; positivity
  have hm' : m' = N * A := by
    apply Nat.le_antisymm
    · by_contra hlt
      have h3 : (N * A + 1) * R ≤ m' * R := Nat.mul_le_mul_right R (by omega)
      nlinarith
    · by_contra hlt
      have h3 : (m' + 1) * R ≤ N * A * R := Nat.mul_le_mul_right R (by omega)
      nlinarith
  subst hm'
  -- evaluate
  have hApos : 0 < A := by rw [hA]; positivity
  have hA22 : 2 ^ 22 ≤ A := by rw [hA]; exact Nat.pow_le_pow_right (by omega) (by omega)
  have hexp : (-(E : Int) + (r : Int)) = -((E - r : Nat) : Int) := by omega
  unfold f64TruncI64
  have hg1 : ¬ (goExp m (-(E : Int)) - 1 < -1022) := by
    unfold goExp; rw [← hb]; omega
  simp only [hg1, if_false, hrne]
  have hNA : N * A < 2 ^ (30 + (E - r)) := by
    rw [Nat.pow_add, ← hA]; exact Nat.mul_lt_mul_of_pos_right hN hApos
  have hbl : bitlen (N * A) ≤ 30 + (E - r) := bitlen_le_of_lt _ _ hNA
  have hg2 : ¬ (goExp (N * A) (-(E : Int) + (r : Int)) - 1 > 1023) := by
    unfold goExp; omega
  simp only [hg2, if_false]
  have hneg : ¬ (-(E : Int) + (r : Int) ≥ 0) := by omega
  simp only [hneg, if_false]
  have htn : (-(-(E : Int) + (r : Int))).toNat = E - r := by omega
  rw [htn, ← hA, Nat.mul_div_cancel _ hApos]
  have hN' : (N : Int) < 1073741824 := by
    have : (2 : Nat) ^ 30 = 1073741824 := by norm_num
    omega
  cases neg
  · have : ¬ ((N : Int) < minInt64 ∨ (N : Int) > maxInt64) := by unfold minInt64 maxInt64; omega
    simp [this]
  · have : ¬ (-(N : Int) < minInt64 ∨ -(N : Int) > maxInt64) := by unfold minInt64 maxInt64; omega
    simp [this]

end GoatProofs.Lemmas.C10F64
