import Goat.Model.JWTClaims
import GoatProofs.Lemmas.C10Claims
import GoatProofs.Lemmas.C10NDFull
/-
The assembled registered-claims round trip: `encodeClaims` followed by `parseClaims`.
-/
namespace GoatProofs.Lemmas.C10ClaimsRT
open Model Model.JWTClaims GoatProofs.Lemmas.C10Claims

/-- `if p { raw[k] = v }` -/
def optSet (p : Bool) (k : String) (v : Wire) (m : List (String × Wire)) : List (String × Wire) :=
  if p then setKey k v m else m

theorem optSet_decide (p : Prop) [Decidable p] (k : String) (v : Wire) (m : List (String × Wire)) :
    optSet (decide p) k v m = if p then setKey k v m else m := by
  unfold optSet; by_cases h : p <;> simp [h]

theorem lookup_optSet_ne (p : Bool) (k k' : String) (v : Wire) (m : List (String × Wire)) (h : k' ≠ k) :
    Wire.lookup k' (optSet p k v m) = Wire.lookup k' m := by
  unfold optSet; split
  · exact lookup_setKey_ne k k' v m h
  · rfl

theorem lookup_optSet_same (p : Bool) (k : String) (v : Wire) (m : List (String × Wire)) :
    Wire.lookup k (optSet p k v m) = if p then some v else Wire.lookup k m := by
  unfold optSet; split <;> simp_all [lookup_setKey_same]

theorem lookup_setAud_ne (l : List String) (m : List (String × Wire)) (k : String) (hk : k ≠ "aud") :
    Wire.lookup k (setAud l m) = Wire.lookup k m := by
  unfold setAud
  match l with
  | [] => rfl
  | [a] => exact lookup_setKey_ne _ _ _ _ hk
  | a :: b :: r => exact lookup_setKey_ne _ _ _ _ hk

/-- the text a non-zero instant is written as -/
def timeText (t : Int) : String :=
  match NumericDate.encode t with
  | .ok s => s
  | _ => ""

/-- an instant the encoder accepts: the zero time (claim omitted) or an instant in range -/
def TimeOK (t : Int) : Prop := t = NumericDate.zeroTime ∨ GoatProofs.Lemmas.C10NDFull.InRange t

theorem timeOK_text (t : Int) (h : TimeOK t) (hz : t ≠ NumericDate.zeroTime) :
    NumericDate.encode t = .ok (timeText t) ∧ NumericDate.decode (timeText t) = .ok t := by
  rcases h with h | h
  · exact absurd h hz
  · have h1 := GoatProofs.Lemmas.C10NDFull.numericDate_roundtrip t h
    unfold timeText NumericDate.encode NumericDate.decode
    cases he : NumericDate.encodeChars t with
    | ok cs =>
      rw [he] at h1
      simp only [Outcome.bind] at h1
      refine ⟨by simp [Outcome.bind], ?_⟩
      simpa [Outcome.bind, String.toList_ofList] using h1
    | err c => rw [he] at h1; cases h1
    | panic p => rw [he] at h1; cases h1

theorem setTime_ok (name : String) (t : Int) (m : List (String × Wire)) (h : TimeOK t) :
    setTime name t (m, none) = (optSet (decide (t ≠ NumericDate.zeroTime)) name (.num (timeText t)) m, none) := by
  unfold setTime optSet
  by_cases hz : t = NumericDate.zeroTime
  · simp [hz]
  · obtain ⟨he, _⟩ := timeOK_text t h hz
    simp [hz, he]

/-- the map `encodeClaims` marshals, written out -/
def theMap (c : Claims) : List (String × Wire) :=
  let m0 : List (String × Wire) := rawKVs c.raw
  optSet (decide (c.jti ≠ "")) "jti" (.str c.jti)
    (optSet (decide (c.iat ≠ NumericDate.zeroTime)) "iat" (.num (timeText c.iat))
      (optSet (decide (c.nbf ≠ NumericDate.zeroTime)) "nbf" (.num (timeText c.nbf))
        (optSet (decide (c.exp ≠ NumericDate.zeroTime)) "exp" (.num (timeText c.exp))
          (setAud c.aud
            (optSet (decide (c.sub ≠ "")) "sub" (.str c.sub)
              (optSet (decide (c.iss ≠ "")) "iss" (.str c.iss) m0))))))

theorem claimsMap_ok (c : Claims) (he : TimeOK c.exp) (hn : TimeOK c.nbf) (hi : TimeOK c.iat) :
    claimsMap c = .ok (theMap c) := by
  unfold claimsMap theMap
  simp only [setTime_ok _ _ _ he, setTime_ok _ _ _ hn, setTime_ok _ _ _ hi, optSet_decide]
  try rfl

/-- the members of the original `Raw` do not use registered names -/
def RawClean (c : Claims) : Prop :=
  ∀ k ∈ ["iss", "sub", "aud", "exp", "nbf", "iat", "jti"],
    Wire.lookup k (rawKVs c.raw) = none

theorem getString_of_lookup (raw : List (String × Wire)) (k s : String)
    (h : Wire.lookup k raw = if s ≠ "" then some (.str s) else none) :
    (getString ⟨raw, none⟩ k).1 = s ∧ (getString ⟨raw, none⟩ k).2.2 = ⟨raw, none⟩ := by
  unfold getString
  simp only [h]
  by_cases hs : s = ""
  · subst hs; simp
  · simp [hs]

theorem getTime_of_lookup (raw : List (String × Wire)) (k : String) (t : Int) (ht : TimeOK t)
    (h : Wire.lookup k raw = if t ≠ NumericDate.zeroTime then some (.num (timeText t)) else none) :
    getTime ⟨raw, none⟩ k = .ok (t, decide (t ≠ NumericDate.zeroTime), ⟨raw, none⟩) := by
  unfold getTime
  simp only [h]
  by_cases hz : t = NumericDate.zeroTime
  · subst hz; simp
  · obtain ⟨_, hd⟩ := timeOK_text t ht hz
    simp [hz, hd]

theorem audience_of_lookup (raw : List (String × Wire)) (l : List String)
    (h : Wire.lookup "aud" raw = match l with
      | [] => none
      | [a] => some (.str a)
      | l => some (.arr (l.map Wire.str))) :
    audience ⟨raw, none⟩ = (l, ⟨raw, none⟩) := by
  unfold audience
  simp only [h]
  match l with
  | [] => rfl
  | [a] => rfl
  | a :: b :: r => simp [audElems_map_str, audBad_map_str, audElems, audBad]

/-- **claims_roundtrip** -/
theorem claims_roundtrip (o : Oracle) (c : Claims)
    (hclean : RawClean c) (he : TimeOK c.exp) (hn : TimeOK c.nbf) (hi : TimeOK c.iat)
    (payload : Bytes) (kvs' : List (String × Wire))
    (hmarshal : o ⟨"json.marshal", [.obj (theMap c)]⟩ = .bytes payload)
    (hdecode : o ⟨"json.decodeMap", [.bytes payload]⟩ = .obj kvs')
    (hjson : ∀ k, Wire.lookup k kvs' = Wire.lookup k (theMap c))
    (hviss : o ⟨"verifyIssuer", [.str c.iss, .str c.sub]⟩ = .bool true)
    (hvaud : o ⟨"verifyAudience", [.arr (c.aud.map Wire.str)]⟩ = .bool true)
    (hexp : c.exp ≠ NumericDate.zeroTime → (o ⟨"now", []⟩).asInt < c.exp)
    (hnbf : c.nbf ≠ NumericDate.zeroTime → ¬ (o ⟨"now", []⟩).asInt < c.nbf) :
    (encodeClaims c >>= parseClaims).run o =
      .ok ⟨c.iss, c.sub, c.aud, c.exp, c.nbf, c.iat, c.jti, .obj kvs'⟩ := by
  -- lookups of the registered names in the marshalled map
  have hm0 := hclean
  unfold RawClean at hm0
  simp only [List.mem_cons, List.mem_nil_iff, or_false, forall_eq_or_imp, forall_eq] at hm0
  obtain ⟨c_iss, c_sub, c_aud, c_exp, c_nbf, c_iat, c_jti⟩ := hm0
  have L_iss : Wire.lookup "iss" kvs' = if c.iss ≠ "" then some (.str c.iss) else none := by
    rw [hjson]; unfold theMap
    simp only [lookup_optSet_ne _ _ "iss" _ _ (by decide : "iss" ≠ "jti"),
      lookup_optSet_ne _ _ "iss" _ _ (by decide : "iss" ≠ "iat"), lookup_optSet_ne _ _ "iss" _ _ (by decide : "iss" ≠ "nbf"),
      lookup_optSet_ne _ _ "iss" _ _ (by decide : "iss" ≠ "exp"), lookup_setAud_ne _ _ "iss" (by decide),
      lookup_optSet_ne _ _ "iss" _ _ (by decide : "iss" ≠ "sub"), lookup_optSet_same, c_iss]
    by_cases h : c.iss = "" <;> simp [h]
  have L_sub : Wire.lookup "sub" kvs' = if c.sub ≠ "" then some (.str c.sub) else none := by
    rw [hjson]; unfold theMap
    simp only [lookup_optSet_ne _ _ "sub" _ _ (by decide : "sub" ≠ "jti"),
      lookup_optSet_ne _ _ "sub" _ _ (by decide : "sub" ≠ "iat"), lookup_optSet_ne _ _ "sub" _ _ (by decide : "sub" ≠ "nbf"),
      lookup_optSet_ne _ _ "sub" _ _ (by decide : "sub" ≠ "exp"), lookup_setAud_ne _ _ "sub" (by decide),
      lookup_optSet_same, lookup_optSet_ne _ _ "sub" _ _ (by decide : "sub" ≠ "iss"), c_sub]
    by_cases h : c.sub = "" <;> simp [h]
  have L_jti : Wire.lookup "jti" kvs' = if c.jti ≠ "" then some (.str c.jti) else none := by
    rw [hjson]; unfold theMap
    simp only [lookup_optSet_same, lookup_optSet_ne _ _ "jti" _ _ (by decide : "jti" ≠ "iat"),
      lookup_optSet_ne _ _ "jti" _ _ (by decide : "jti" ≠ "nbf"), lookup_optSet_ne _ _ "jti" _ _ (by decide : "jti" ≠ "exp"),
      lookup_setAud_ne _ _ "jti" (by decide), lookup_optSet_ne _ _ "jti" _ _ (by decide : "jti" ≠ "sub"),
      lookup_optSet_ne _ _ "jti" _ _ (by decide : "jti" ≠ "iss"), c_jti]
    by_cases h : c.jti = "" <;> simp [h]
  have L_exp : Wire.lookup "exp" kvs' = if c.exp ≠ NumericDate.zeroTime then some (.num (timeText c.exp)) else none := by
    rw [hjson]; unfold theMap
    simp only [lookup_optSet_ne _ _ "exp" _ _ (by decide : "exp" ≠ "jti"),
      lookup_optSet_ne _ _ "exp" _ _ (by decide : "exp" ≠ "iat"), lookup_optSet_ne _ _ "exp" _ _ (by decide : "exp" ≠ "nbf"),
      lookup_optSet_same, lookup_setAud_ne _ _ "exp" (by decide),
      lookup_optSet_ne _ _ "exp" _ _ (by decide : "exp" ≠ "sub"), lookup_optSet_ne _ _ "exp" _ _ (by decide : "exp" ≠ "iss"), c_exp]
    by_cases h : c.exp = NumericDate.zeroTime <;> simp [h]
  have L_nbf : Wire.lookup "nbf" kvs' = if c.nbf ≠ NumericDate.zeroTime then some (.num (timeText c.nbf)) else none := by
    rw [hjson]; unfold theMap
    simp only [lookup_optSet_ne _ _ "nbf" _ _ (by decide : "nbf" ≠ "jti"),
      lookup_optSet_ne _ _ "nbf" _ _ (by decide : "nbf" ≠ "iat"), lookup_optSet_same,
      lookup_optSet_ne _ _ "nbf" _ _ (by decide : "nbf" ≠ "exp"), lookup_setAud_ne _ _ "nbf" (by decide),
      lookup_optSet_ne _ _ "nbf" _ _ (by decide : "nbf" ≠ "sub"), lookup_optSet_ne _ _ "nbf" _ _ (by decide : "nbf" ≠ "iss"), c_nbf]
    by_cases h : c.nbf = NumericDate.zeroTime <;> simp [h]
  have L_iat : Wire.lookup "iat" kvs' = if c.iat ≠ NumericDate.zeroTime then some (.num (timeText c.iat)) else none := by
    rw [hjson]; unfold theMap
    simp only [lookup_optSet_ne _ _ "iat" _ _ (by decide : "iat" ≠ "jti"), lookup_optSet_same,
      lookup_optSet_ne _ _ "iat" _ _ (by decide : "iat" ≠ "nbf"),
      lookup_optSet_ne _ _ "iat" _ _ (by decide : "iat" ≠ "exp"), lookup_setAud_ne _ _ "iat" (by decide),
      lookup_optSet_ne _ _ "iat" _ _ (by decide : "iat" ≠ "sub"), lookup_optSet_ne _ _ "iat" _ _ (by decide : "iat" ≠ "iss"), c_iat]
    by_cases h : c.iat = NumericDate.zeroTime <;> simp [h]
  have L_aud : Wire.lookup "aud" kvs' = match c.aud with
      | [] => none
      | [a] => some (.str a)
      | l => some (.arr (l.map Wire.str)) := by
    rw [hjson]; unfold theMap
    simp only [lookup_optSet_ne _ _ "aud" _ _ (by decide : "aud" ≠ "jti"),
      lookup_optSet_ne _ _ "aud" _ _ (by decide : "aud" ≠ "iat"), lookup_optSet_ne _ _ "aud" _ _ (by decide : "aud" ≠ "nbf"),
      lookup_optSet_ne _ _ "aud" _ _ (by decide : "aud" ≠ "exp")]
    unfold setAud
    match hca : c.aud with
    | [] =>
      simp only [lookup_optSet_ne _ _ "aud" _ _ (by decide : "aud" ≠ "sub"),
        lookup_optSet_ne _ _ "aud" _ _ (by decide : "aud" ≠ "iss"), c_aud]
    | [a] => simp [lookup_setKey_same]
    | a :: b :: r => simp [lookup_setKey_same]
  -- run
  obtain ⟨gi1, gi2⟩ := getString_of_lookup kvs' "iss" c.iss L_iss
  obtain ⟨gs1, gs2⟩ := getString_of_lookup kvs' "sub" c.sub L_sub
  obtain ⟨gj1, gj2⟩ := getString_of_lookup kvs' "jti" c.jti L_jti
  have ga := audience_of_lookup kvs' c.aud L_aud
  have gte := getTime_of_lookup kvs' "exp" c.exp he L_exp
  have gtn := getTime_of_lookup kvs' "nbf" c.nbf hn L_nbf
  have gti := getTime_of_lookup kvs' "iat" c.iat hi L_iat
  have cexp : (decide (c.exp ≠ NumericDate.zeroTime) && !decide ((o ⟨"now", []⟩).asInt < c.exp)) = false := by
    by_cases h : c.exp = NumericDate.zeroTime
    · simp [h]
    · simp [h, hexp h]
  have cnbf : (decide (c.nbf ≠ NumericDate.zeroTime) && decide ((o ⟨"now", []⟩).asInt < c.nbf)) = false := by
    by_cases h : c.nbf = NumericDate.zeroTime
    · simp [h]
    · simp [h, hnbf h]
  have hfin : finish (o ⟨"now", []⟩).asInt (.obj kvs') c.iss c.sub c.aud ⟨kvs', none⟩ =
      .ok ⟨c.iss, c.sub, c.aud, c.exp, c.nbf, c.iat, c.jti, .obj kvs'⟩ := by
    unfold finish
    simp only [gte, cexp, Bool.false_eq_true, if_false, gtn, cnbf, gti, gj2, gj1]
  unfold encodeClaims
  rw [claimsMap_ok c he hn hi]
  simp only [PO.run_bind, PO.run_query, hmarshal, PO.run_pure]
  unfold parseClaims
  simp only [PO.run_bind, PO.run_query, hdecode, rawMap, gi1, gi2, gs1, gs2, hviss, ga, hvaud,
    PO.run_ofOutcome, hfin]

/-- every member of `Raw` under a non-registered name is marshalled unchanged (extra / custom claims
    survive) -/
theorem theMap_extra (c : Claims) (k : String)
    (hk : k ∉ ["iss", "sub", "aud", "exp", "nbf", "iat", "jti"]) :
    Wire.lookup k (theMap c) = Wire.lookup k (rawKVs c.raw) := by
  simp only [List.mem_cons, List.mem_nil_iff, or_false, not_or] at hk
  obtain ⟨h1, h2, h3, h4, h5, h6, h7⟩ := hk
  unfold theMap
  simp only [lookup_optSet_ne _ _ k _ _ h7, lookup_optSet_ne _ _ k _ _ h6, lookup_optSet_ne _ _ k _ _ h5,
    lookup_optSet_ne _ _ k _ _ h4, lookup_setAud_ne _ _ k h3, lookup_optSet_ne _ _ k _ _ h2,
    lookup_optSet_ne _ _ k _ _ h1]

/-! ### the field wins: registered names also present in `Raw` -/

/-- **encodeClaims_field_wins** — the map `encodeClaims` marshals, for every Claims value (no
    condition on `Raw`): under each registered name the member is the encoding of the struct FIELD
    when the field is set (non-empty string, non-nil audience, non-zero time) — whatever `Raw` holds
    under that name — and `Raw`'s own member when the field is zero; every other member is `Raw`'s. -/
theorem encodeClaims_field_wins (c : Claims) (he : TimeOK c.exp) (hn : TimeOK c.nbf) (hi : TimeOK c.iat) :
    claimsMap c = .ok (theMap c) ∧
    Wire.lookup "iss" (theMap c) = (if c.iss ≠ "" then some (.str c.iss) else Wire.lookup "iss" (rawKVs c.raw)) ∧
    Wire.lookup "sub" (theMap c) = (if c.sub ≠ "" then some (.str c.sub) else Wire.lookup "sub" (rawKVs c.raw)) ∧
    Wire.lookup "jti" (theMap c) = (if c.jti ≠ "" then some (.str c.jti) else Wire.lookup "jti" (rawKVs c.raw)) ∧
    Wire.lookup "exp" (theMap c) = (if c.exp ≠ NumericDate.zeroTime then some (.num (timeText c.exp)) else Wire.lookup "exp" (rawKVs c.raw)) ∧
    Wire.lookup "nbf" (theMap c) = (if c.nbf ≠ NumericDate.zeroTime then some (.num (timeText c.nbf)) else Wire.lookup "nbf" (rawKVs c.raw)) ∧
    Wire.lookup "iat" (theMap c) = (if c.iat ≠ NumericDate.zeroTime then some (.num (timeText c.iat)) else Wire.lookup "iat" (rawKVs c.raw)) ∧
    Wire.lookup "aud" (theMap c) = (match c.aud with
      | [] => Wire.lookup "aud" (rawKVs c.raw)
      | [a] => some (.str a)
      | l => some (.arr (l.map Wire.str))) := by
  refine ⟨claimsMap_ok c he hn hi, ?_, ?_, ?_, ?_, ?_, ?_, ?_⟩
  · unfold theMap
    simp only [lookup_optSet_ne _ _ "iss" _ _ (by decide : "iss" ≠ "jti"),
      lookup_optSet_ne _ _ "iss" _ _ (by decide : "iss" ≠ "iat"), lookup_optSet_ne _ _ "iss" _ _ (by decide : "iss" ≠ "nbf"),
      lookup_optSet_ne _ _ "iss" _ _ (by decide : "iss" ≠ "exp"), lookup_setAud_ne _ _ "iss" (by decide),
      lookup_optSet_ne _ _ "iss" _ _ (by decide : "iss" ≠ "sub"), lookup_optSet_same]
    by_cases h : c.iss = "" <;> simp [h]
  · unfold theMap
    simp only [lookup_optSet_ne _ _ "sub" _ _ (by decide : "sub" ≠ "jti"),
      lookup_optSet_ne _ _ "sub" _ _ (by decide : "sub" ≠ "iat"), lookup_optSet_ne _ _ "sub" _ _ (by decide : "sub" ≠ "nbf"),
      lookup_optSet_ne _ _ "sub" _ _ (by decide : "sub" ≠ "exp"), lookup_setAud_ne _ _ "sub" (by decide),
      lookup_optSet_same, lookup_optSet_ne _ _ "sub" _ _ (by decide : "sub" ≠ "iss")]
    by_cases h : c.sub = "" <;> simp [h]
  · unfold theMap
    simp only [lookup_optSet_same, lookup_optSet_ne _ _ "jti" _ _ (by decide : "jti" ≠ "iat"),
      lookup_optSet_ne _ _ "jti" _ _ (by decide : "jti" ≠ "nbf"), lookup_optSet_ne _ _ "jti" _ _ (by decide : "jti" ≠ "exp"),
      lookup_setAud_ne _ _ "jti" (by decide), lookup_optSet_ne _ _ "jti" _ _ (by decide : "jti" ≠ "sub"),
      lookup_optSet_ne _ _ "jti" _ _ (by decide : "jti" ≠ "iss")]
    by_cases h : c.jti = "" <;> simp [h]
  · unfold theMap
    simp only [lookup_optSet_ne _ _ "exp" _ _ (by decide : "exp" ≠ "jti"),
      lookup_optSet_ne _ _ "exp" _ _ (by decide : "exp" ≠ "iat"), lookup_optSet_ne _ _ "exp" _ _ (by decide : "exp" ≠ "nbf"),
      lookup_optSet_same, lookup_setAud_ne _ _ "exp" (by decide),
      lookup_optSet_ne _ _ "exp" _ _ (by decide : "exp" ≠ "sub"), lookup_optSet_ne _ _ "exp" _ _ (by decide : "exp" ≠ "iss")]
    by_cases h : c.exp = NumericDate.zeroTime <;> simp [h]
  · unfold theMap
    simp only [lookup_optSet_ne _ _ "nbf" _ _ (by decide : "nbf" ≠ "jti"),
      lookup_optSet_ne _ _ "nbf" _ _ (by decide : "nbf" ≠ "iat"), lookup_optSet_same,
      lookup_optSet_ne _ _ "nbf" _ _ (by decide : "nbf" ≠ "exp"), lookup_setAud_ne _ _ "nbf" (by decide),
      lookup_optSet_ne _ _ "nbf" _ _ (by decide : "nbf" ≠ "sub"), lookup_optSet_ne _ _ "nbf" _ _ (by decide : "nbf" ≠ "iss")]
    by_cases h : c.nbf = NumericDate.zeroTime <;> simp [h]
  · unfold theMap
    simp only [lookup_optSet_ne _ _ "iat" _ _ (by decide : "iat" ≠ "jti"), lookup_optSet_same,
      lookup_optSet_ne _ _ "iat" _ _ (by decide : "iat" ≠ "nbf"),
      lookup_optSet_ne _ _ "iat" _ _ (by decide : "iat" ≠ "exp"), lookup_setAud_ne _ _ "iat" (by decide),
      lookup_optSet_ne _ _ "iat" _ _ (by decide : "iat" ≠ "sub"), lookup_optSet_ne _ _ "iat" _ _ (by decide : "iat" ≠ "iss")]
    by_cases h : c.iat = NumericDate.zeroTime <;> simp [h]
  · unfold theMap
    simp only [lookup_optSet_ne _ _ "aud" _ _ (by decide : "aud" ≠ "jti"),
      lookup_optSet_ne _ _ "aud" _ _ (by decide : "aud" ≠ "iat"), lookup_optSet_ne _ _ "aud" _ _ (by decide : "aud" ≠ "nbf"),
      lookup_optSet_ne _ _ "aud" _ _ (by decide : "aud" ≠ "exp")]
    unfold setAud
    match hca : c.aud with
    | [] =>
      simp only [lookup_optSet_ne _ _ "aud" _ _ (by decide : "aud" ≠ "sub"),
        lookup_optSet_ne _ _ "aud" _ _ (by decide : "aud" ≠ "iss")]
    | [a] => simp [lookup_setKey_same]
    | a :: b :: r => simp [lookup_setKey_same]

/-- the string `Parse` reads under `k`: the member if it is a string, "" if it is absent -/
def StrIs (raw : List (String × Wire)) (k s : String) : Prop :=
  Wire.lookup k raw = some (.str s) ∨ (Wire.lookup k raw = none ∧ s = "")

/-- the instant `Parse` reads under `k`: a number that NumericDate decodes, or absent (zero time) -/
def TimeIs (raw : List (String × Wire)) (k : String) (t : Int) : Prop :=
  (∃ txt, Wire.lookup k raw = some (.num txt) ∧ NumericDate.decode txt = .ok t) ∨
  (Wire.lookup k raw = none ∧ t = NumericDate.zeroTime)

theorem getString_of_strIs (raw : List (String × Wire)) (k s : String) (h : StrIs raw k s) :
    (getString ⟨raw, none⟩ k).1 = s ∧ (getString ⟨raw, none⟩ k).2.2 = ⟨raw, none⟩ := by
  unfold getString
  rcases h with h | ⟨h, hs⟩
  · simp [h]
  · simp [h, hs]

theorem getTime_of_timeIs (raw : List (String × Wire)) (k : String) (t : Int) (h : TimeIs raw k t) :
    getTime ⟨raw, none⟩ k = .ok (t, (Wire.lookup k raw).isSome, ⟨raw, none⟩) := by
  unfold getTime
  rcases h with ⟨txt, h, hd⟩ | ⟨h, ht⟩
  · simp [h, hd]
  · simp [h, ht]

theorem audience_congr (r0 r1 : List (String × Wire)) (l : List String)
    (hl : Wire.lookup "aud" r1 = Wire.lookup "aud" r0)
    (h : audience ⟨r0, none⟩ = (l, ⟨r0, none⟩)) : audience ⟨r1, none⟩ = (l, ⟨r1, none⟩) := by
  unfold audience at h ⊢
  simp only [hl]
  cases hv : Wire.lookup "aud" r0 with
  | none => rw [hv] at h; simp at h ⊢; exact h
  | some v =>
    rw [hv] at h
    cases v with
    | arr ws =>
      simp only at h ⊢
      cases hb : audBad ws with
      | true =>
        rw [hb] at h
        simp only [if_true, Prod.mk.injEq] at h
        have := congrArg Dec.err h.2
        simp [Dec.save] at this
      | false =>
        rw [hb] at h
        simp only [Bool.false_eq_true, if_false, Prod.mk.injEq] at h
        simp [h.1]
    | str s => simp only [Prod.mk.injEq] at h ⊢; first | exact ⟨h.1, trivial⟩ | exact h.1
    | _ => simp only [Prod.mk.injEq] at h ⊢; first | exact ⟨h.1, trivial⟩ | exact h.1

/-- **claims_roundtrip, general** — no condition on `Raw`.  `iss' … jti'` are the values a reader of
    the emitted object sees: for a SET field the field itself (it wins over any member of `Raw`
    under its name), for a zero field whatever well-typed member `Raw` carries (absent = zero value).
    Under the json law, verifiers accepting those values and `now` on the right side of the emitted
    exp/nbf, `encodeClaims` then `parseClaims` returns exactly them. -/
theorem claims_roundtrip_general (o : Oracle) (c : Claims)
    (he : TimeOK c.exp) (hn : TimeOK c.nbf) (hi : TimeOK c.iat)
    (iss' sub' jti' : String) (aud' : List String) (exp' nbf' iat' : Int)
    (hiss : (c.iss ≠ "" → iss' = c.iss) ∧ (c.iss = "" → StrIs (rawKVs c.raw) "iss" iss'))
    (hsub : (c.sub ≠ "" → sub' = c.sub) ∧ (c.sub = "" → StrIs (rawKVs c.raw) "sub" sub'))
    (hjti : (c.jti ≠ "" → jti' = c.jti) ∧ (c.jti = "" → StrIs (rawKVs c.raw) "jti" jti'))
    (hexp : (c.exp ≠ NumericDate.zeroTime → exp' = c.exp) ∧ (c.exp = NumericDate.zeroTime → TimeIs (rawKVs c.raw) "exp" exp'))
    (hnbf : (c.nbf ≠ NumericDate.zeroTime → nbf' = c.nbf) ∧ (c.nbf = NumericDate.zeroTime → TimeIs (rawKVs c.raw) "nbf" nbf'))
    (hiat : (c.iat ≠ NumericDate.zeroTime → iat' = c.iat) ∧ (c.iat = NumericDate.zeroTime → TimeIs (rawKVs c.raw) "iat" iat'))
    (haud : (c.aud ≠ [] → aud' = c.aud) ∧
      (c.aud = [] → audience ⟨rawKVs c.raw, none⟩ = (aud', ⟨rawKVs c.raw, none⟩)))
    (payload : Bytes) (kvs' : List (String × Wire))
    (hmarshal : o ⟨"json.marshal", [.obj (theMap c)]⟩ = .bytes payload)
    (hdecode : o ⟨"json.decodeMap", [.bytes payload]⟩ = .obj kvs')
    (hjson : ∀ k, Wire.lookup k kvs' = Wire.lookup k (theMap c))
    (hviss : o ⟨"verifyIssuer", [.str iss', .str sub']⟩ = .bool true)
    (hvaud : o ⟨"verifyAudience", [.arr (aud'.map Wire.str)]⟩ = .bool true)
    (hnowE : (Wire.lookup "exp" kvs').isSome = true → (o ⟨"now", []⟩).asInt < exp')
    (hnowN : (Wire.lookup "nbf" kvs').isSome = true → ¬ (o ⟨"now", []⟩).asInt < nbf') :
    (encodeClaims c >>= parseClaims).run o = .ok ⟨iss', sub', aud', exp', nbf', iat', jti', .obj kvs'⟩ := by
  obtain ⟨hmap, Liss, Lsub, Ljti, Lexp, Lnbf, Liat, Laud⟩ := encodeClaims_field_wins c he hn hi
  have strCase : ∀ (k : String) (fld s' : String),
      Wire.lookup k (theMap c) = (if fld ≠ "" then some (.str fld) else Wire.lookup k (rawKVs c.raw)) →
      ((fld ≠ "" → s' = fld) ∧ (fld = "" → StrIs (rawKVs c.raw) k s')) → StrIs kvs' k s' := by
    intro k fld s' hL hh
    unfold StrIs
    rw [hjson, hL]
    by_cases hf : fld = ""
    · simp only [hf, ne_eq, not_true_eq_false, if_false]
      exact hh.2 hf
    · simp only [ne_eq, hf, not_false_eq_true, if_true]
      left; rw [hh.1 hf]
  have timeCase : ∀ (k : String) (fld t' : Int), TimeOK fld →
      Wire.lookup k (theMap c) = (if fld ≠ NumericDate.zeroTime then some (.num (timeText fld)) else Wire.lookup k (rawKVs c.raw)) →
      ((fld ≠ NumericDate.zeroTime → t' = fld) ∧ (fld = NumericDate.zeroTime → TimeIs (rawKVs c.raw) k t')) →
      TimeIs kvs' k t' := by
    intro k fld t' hok hL hh
    unfold TimeIs
    rw [hjson, hL]
    by_cases hf : fld = NumericDate.zeroTime
    · simp only [hf, ne_eq, not_true_eq_false, if_false]
      exact hh.2 hf
    · simp only [ne_eq, hf, not_false_eq_true, if_true]
      left
      rw [hh.1 hf]
      exact ⟨timeText fld, rfl, (timeOK_text fld hok hf).2⟩
  obtain ⟨gi1, gi2⟩ := getString_of_strIs kvs' "iss" iss' (strCase "iss" c.iss iss' Liss hiss)
  obtain ⟨gs1, gs2⟩ := getString_of_strIs kvs' "sub" sub' (strCase "sub" c.sub sub' Lsub hsub)
  obtain ⟨gj1, gj2⟩ := getString_of_strIs kvs' "jti" jti' (strCase "jti" c.jti jti' Ljti hjti)
  have gte := getTime_of_timeIs kvs' "exp" exp' (timeCase "exp" c.exp exp' he Lexp hexp)
  have gtn := getTime_of_timeIs kvs' "nbf" nbf' (timeCase "nbf" c.nbf nbf' hn Lnbf hnbf)
  have gti := getTime_of_timeIs kvs' "iat" iat' (timeCase "iat" c.iat iat' hi Liat hiat)
  have ga : audience ⟨kvs', none⟩ = (aud', ⟨kvs', none⟩) := by
    by_cases hca : c.aud = []
    · apply audience_congr (rawKVs c.raw) kvs' aud' _ (haud.2 hca)
      rw [hjson, Laud, hca]
    · rw [haud.1 hca]
      apply audience_of_lookup
      rw [hjson, Laud]
      cases hc : c.aud with
      | nil => exact absurd hc hca
      | cons a r => cases r <;> rfl
  have cexp : ((Wire.lookup "exp" kvs').isSome && !decide ((o ⟨"now", []⟩).asInt < exp')) = false := by
    cases hp : (Wire.lookup "exp" kvs').isSome with
    | false => rfl
    | true => simp [hnowE hp]
  have cnbf : ((Wire.lookup "nbf" kvs').isSome && decide ((o ⟨"now", []⟩).asInt < nbf')) = false := by
    cases hp : (Wire.lookup "nbf" kvs').isSome with
    | false => rfl
    | true => simp [hnowN hp]
  have hfin : finish (o ⟨"now", []⟩).asInt (.obj kvs') iss' sub' aud' ⟨kvs', none⟩ =
      .ok ⟨iss', sub', aud', exp', nbf', iat', jti', .obj kvs'⟩ := by
    unfold finish
    simp only [gte, cexp, Bool.false_eq_true, if_false, gtn, cnbf, gti, gj2, gj1]
  unfold encodeClaims
  rw [hmap]
  simp only [PO.run_bind, PO.run_query, hmarshal, PO.run_pure]
  unfold parseClaims
  simp only [PO.run_bind, PO.run_query, hdecode, rawMap, gi1, gi2, gs1, gs2, hviss, ga, hvaud,
    PO.run_ofOutcome, hfin]

end GoatProofs.Lemmas.C10ClaimsRT
