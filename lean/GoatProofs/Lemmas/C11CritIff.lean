import GoatProofs.Lemmas.C11Crit
/-
C11 — the crit acceptance rule of decodeHeader as an equivalence, generic in the step table:
the `crit` member decides acceptance independently of every other member.
-/
namespace C11
open Model.HeaderTable Model.Header

def omap {α β} (f : α → β) : Outcome α → Outcome β
  | .ok a => .ok (f a)
  | .err c => .err c
  | .panic s => .panic s

/-- the decoder state with the crit field overwritten -/
def liftCrit (c : List String) (st : DecState) : DecState := ({ st.1 with crit := c }, st.2)

theorem set_crit_comm (h : Header) (f : Fld) (v : FVal) (c : List String) (hf : f ≠ .crit) :
    ({ h with crit := c } : Header).set f v = (h.set f v).map (fun h' => { h' with crit := c }) := by
  cases f <;> cases v <;> first | rfl | exact absurd rfl hf

/-- a row that neither reads the crit member nor writes the crit field -/
def neutral (ck : String) : DecStep → Bool
  | .row r => r.key != ck && Fld.ofString r.field != some .crit
  | .critCheck _ _ => false

theorem decStep_neutral (o : Oracle) (look : String → Option Wire) (ck : String) (c : List String)
    (s : DecStep) (hn : neutral ck s = true) (st : DecState) :
    (decStep look (liftCrit c st) s).run o =
      omap (liftCrit c) ((decStep (fun k => if k = ck then none else look k) st s).run o) := by
  cases s with
  | critCheck a b => simp [neutral] at hn
  | row r =>
    simp only [neutral, Bool.and_eq_true, bne_iff_ne, ne_eq] at hn
    obtain ⟨hk, hf⟩ := hn
    simp only [decStep, hk, ↓reduceIte]
    cases hfo : Fld.ofString r.field with
    | none => simp [omap]
    | some f =>
      have hfc : f ≠ .crit := by intro e; subst e; exact hf hfo
      simp only [PO.run_bind, liftCrit]
      cases hrv : (readVal r.kind (look r.key) st.2).run o with
      | err e => simp [omap]
      | panic e => simp [omap]
      | ok rv =>
        obtain ⟨rv1, rv2⟩ := rv
        cases rv1 with
        | none => simp [omap, liftCrit]
        | some v =>
          have hc := set_crit_comm st.1 f v c hfc
          simp only at hc ⊢
          rw [hc]
          cases hs : st.1.set f v with
          | none => simp [omap]
          | some h' => simp [omap, liftCrit]

theorem decSteps_neutral (o : Oracle) (look : String → Option Wire) (ck : String) (c : List String)
    (steps : List DecStep) (hn : steps.all (neutral ck) = true) (st : DecState) :
    (decSteps look steps (liftCrit c st)).run o =
      omap (liftCrit c) ((decSteps (fun k => if k = ck then none else look k) steps st).run o) := by
  induction steps generalizing st with
  | nil => simp [decSteps, omap]
  | cons s rest ih =>
    simp only [List.all_cons, Bool.and_eq_true] at hn
    simp only [decSteps, PO.run_bind, decStep_neutral o look ck c s hn.1 st]
    cases (decStep (fun k => if k = ck then none else look k) st s).run o with
    | ok st' => simp only [omap]; exact ih hn.2 st'
    | err e => simp [omap]
    | panic e => simp [omap]

theorem decSteps_append (o : Oracle) (look : String → Option Wire) (a b : List DecStep) (st : DecState) :
    (decSteps look (a ++ b) st).run o = match (decSteps look a st).run o with
      | .ok st' => (decSteps look b st').run o
      | .err e => .err e
      | .panic e => .panic e := by
  induction a generalizing st with
  | nil => simp [decSteps]
  | cons s rest ih =>
    simp only [List.cons_append, decSteps, PO.run_bind]
    cases (decStep look st s).run o with
    | ok st' => exact ih st'
    | err e => rfl
    | panic e => rfl

theorem neutral_noCrit (ck : String) (steps : List DecStep) (hn : steps.all (neutral ck) = true) :
    steps.all noCrit = true := by
  simp only [List.all_eq_true] at hn ⊢
  intro s hs
  have := hn s hs
  cases s with
  | row r => simp only [neutral, Bool.and_eq_true] at this; simpa [noCrit] using this.2
  | critCheck a b => simp [neutral] at this

/-- is the value of the crit member acceptable: absent, or an array of strings all in `known` -/
def critMember (known : List String) : Option Wire → Option (List String)
  | none => some []
  | some (.arr l) => match strList l with
    | some ss => if critOK known ss then some ss else none
    | none => none
  | some _ => none

def critRow (ck aux : String) : DecStep := .row { key := ck, field := "crit", kind := .strs, aux := aux }

theorem critRow_absent (o : Oracle) (look : String → Option Wire) (ck aux : String) (hl : look ck = none)
    (st : DecState) : (decStep look st (critRow ck aux)).run o = .ok st := by
  simp [critRow, decStep, Fld.ofString, hl, readVal]

theorem critRow_present (o : Oracle) (look : String → Option Wire) (ck aux : String) (c0 : List String)
    (st : DecState) :
    (decStep look (liftCrit c0 st) (critRow ck aux)).run o = match look ck with
      | none => .ok (liftCrit c0 st)
      | some (.arr l) => (match strList l with
          | some ss => .ok (liftCrit ss st)
          | none => .err "type")
      | some _ => .err "type" := by
  simp only [critRow, decStep, Fld.ofString, PO.run_bind]
  cases hl : look ck with
  | none => simp [readVal, liftCrit]
  | some v =>
    cases v <;> simp only [readVal, PO.run_fail]
    rename_i l
    cases hs : strList l with
    | none => simp
    | some ss => simp [liftCrit, Header.set]

theorem check_lift (o : Oracle) (look : String → Option Wire) (known c : List String) (st : DecState) :
    (decStep look (liftCrit c st) (.critCheck "crit" known)).run o =
      if critOK known c then .ok (liftCrit c st) else .err "crit" := by
  simp only [decStep, Fld.ofString, Option.map, Header.get, liftCrit]
  split <;> simp

theorem check_nil (o : Oracle) (look : String → Option Wire) (known : List String) (st : DecState)
    (hc : st.1.crit = []) : (decStep look st (.critCheck "crit" known)).run o = .ok st := by
  simp [decStep, Fld.ofString, Header.get, hc, critOK]

theorem liftCrit_lift (c c' : List String) (st : DecState) : liftCrit c (liftCrit c' st) = liftCrit c st := rfl

/-- **crit acceptance as an equivalence** (generic in the table).  For a step list of the shape
    `pre ++ [crit row] ++ mid ++ [validation against known] ++ post` in which no other step reads the
    crit member or writes the crit field: decoding succeeds on `look` iff decoding succeeds with
    the crit member removed AND the crit member is absent or an array of strings all of which are in
    `known` (`critMember`); the two results differ only in the crit field. -/
theorem crit_iff (o : Oracle) (look : String → Option Wire) (ck aux : String) (known : List String)
    (pre mid post : List DecStep) (npre : pre.all (neutral ck) = true) (nmid : mid.all (neutral ck) = true)
    (npost : post.all (neutral ck) = true) (st1 : DecState) :
    (decSteps look (pre ++ (critRow ck aux :: (mid ++ (DecStep.critCheck "crit" known :: post))))
        (Header.zero, none)).run o = .ok st1 ↔
    ∃ st2 c, (decSteps (fun k => if k = ck then none else look k)
        (pre ++ (critRow ck aux :: (mid ++ (DecStep.critCheck "crit" known :: post)))) (Header.zero, none)).run o = .ok st2 ∧
      critMember known (look ck) = some c ∧ st1 = liftCrit c st2 := by
  have hl2 : (fun k => if k = ck then none else look k) ck = none := by simp
  have h0 : ((Header.zero, none) : DecState) = liftCrit [] (Header.zero, none) := rfl
  rw [decSteps_append, decSteps_append]
  conv => lhs; rw [h0, decSteps_neutral o look ck [] pre npre]
  cases hA : (decSteps (fun k => if k = ck then none else look k) pre (Header.zero, none)).run o with
  | err e => simp [omap]
  | panic e => simp [omap]
  | ok sA =>
    have hcA : sA.1.crit = [] := by
      have := decSteps_preserve_crit o _ pre (neutral_noCrit ck pre npre) _ sA hA
      simpa [Header.zero] using this
    have key2 := critRow_absent o (fun k => if k = ck then none else look k) ck aux hl2 sA
    simp only [omap, decSteps, PO.run_bind, key2, critRow_present o look ck aux [] sA, decSteps_append]
    -- the crit member
    cases hv : look ck with
    | none =>
      simp only [critMember]
      rw [decSteps_neutral o look ck [] mid nmid]
      cases hB : (decSteps (fun k => if k = ck then none else look k) mid sA).run o with
      | err e => simp [omap]
      | panic e => simp [omap]
      | ok sB =>
        have hcB : sB.1.crit = [] := by
          rw [decSteps_preserve_crit o _ mid (neutral_noCrit ck mid nmid) _ sB hB]; exact hcA
        simp only [omap, check_lift, check_nil o _ known sB hcB]
        have : critOK known [] = true := rfl
        simp only [this, ↓reduceIte, decSteps_neutral o look ck [] post npost]
        cases hC : (decSteps (fun k => if k = ck then none else look k) post sB).run o with
        | err e => simp [omap]
        | panic e => simp [omap]
        | ok sC =>
          simp only [omap, Outcome.ok.injEq]
          constructor
          · intro h; exact ⟨sC, [], rfl, rfl, h.symm⟩
          · rintro ⟨st2, c, h2, hc, h1⟩; cases hc; cases h2; exact h1.symm
    | some v =>
      cases v with
      | arr l =>
        cases hs : strList l with
        | none =>
          simp only [critMember, hs]
          constructor
          · intro h; cases h
          · rintro ⟨_, _, _, hc, _⟩; cases hc
        | some ss =>
          simp only [critMember, hs]
          rw [decSteps_neutral o look ck ss mid nmid]
          cases hB : (decSteps (fun k => if k = ck then none else look k) mid sA).run o with
          | err e => simp [omap]
          | panic e => simp [omap]
          | ok sB =>
            have hcB : sB.1.crit = [] := by
              rw [decSteps_preserve_crit o _ mid (neutral_noCrit ck mid nmid) _ sB hB]; exact hcA
            simp only [omap, check_lift, check_nil o _ known sB hcB]
            by_cases hk : critOK known ss = true
            · simp only [hk, ↓reduceIte, decSteps_neutral o look ck ss post npost]
              cases hC : (decSteps (fun k => if k = ck then none else look k) post sB).run o with
              | err e => simp [omap]
              | panic e => simp [omap]
              | ok sC =>
                simp only [omap, Outcome.ok.injEq]
                constructor
                · intro h; exact ⟨sC, ss, rfl, rfl, h.symm⟩
                · rintro ⟨st2, c, h2, hc, h1⟩; cases hc; cases h2; exact h1.symm
            · simp only [hk, Bool.false_eq_true, ↓reduceIte]
              constructor
              · intro h; cases h
              · rintro ⟨_, _, _, hc, _⟩; cases hc
      | _ =>
        simp only [critMember]
        constructor
        · intro h; cases h
        · rintro ⟨_, _, _, hc, _⟩; cases hc

/-- the object without one member -/
def dropMember (ck : String) (obj : List (String × Wire)) : List (String × Wire) :=
  obj.filter (fun kv => kv.1 != ck)

theorem lookup_dropMember (ck k : String) (obj : List (String × Wire)) :
    Wire.lookup k (dropMember ck obj) = if k = ck then none else Wire.lookup k obj := by
  induction obj with
  | nil => simp [dropMember, Wire.lookup]
  | cons hd tl ih =>
    obtain ⟨k', v⟩ := hd
    simp only [dropMember, List.filter_cons] at ih ⊢
    by_cases e : k' = ck
    · subst e
      simp only [bne_self_eq_false, Bool.false_eq_true, ↓reduceIte, ih, Wire.lookup, beq_iff_eq]
      by_cases e2 : k = k' <;> simp [e2]
    · have : (k' != ck) = true := by simpa using e
      simp only [this, ↓reduceIte, Wire.lookup, beq_iff_eq, ih]
      by_cases e2 : k = k'
      · subst e2; simp [e]
      · simp [e2]

/-- crit acceptance for decodeHeader itself: `decodeWith steps obj` succeeds iff it succeeds on the
    object without the crit member and the crit member is acceptable; the headers agree except for
    `crit` (and `Raw`, which is the respective input object). -/
theorem decodeWith_crit_iff (o : Oracle) (ck aux : String) (known : List String)
    (pre mid post : List DecStep) (npre : pre.all (neutral ck) = true) (nmid : mid.all (neutral ck) = true)
    (npost : post.all (neutral ck) = true) (obj : List (String × Wire)) (h : Header) :
    (decodeWith (pre ++ (critRow ck aux :: (mid ++ (DecStep.critCheck "crit" known :: post)))) obj).run o = .ok h ↔
    ∃ h' c, (decodeWith (pre ++ (critRow ck aux :: (mid ++ (DecStep.critCheck "crit" known :: post))))
        (dropMember ck obj)).run o = .ok h' ∧
      critMember known (Wire.lookup ck obj) = some c ∧ h = { h' with crit := c, raw := obj } := by
  have hlook : (fun k => Wire.lookup k (dropMember ck obj)) = fun k => if k = ck then none else Wire.lookup k obj := by
    funext k; exact lookup_dropMember ck k obj
  simp only [decodeWith, PO.run_bind, hlook]
  constructor
  · intro hd
    cases h1 : (decSteps (fun k => Wire.lookup k obj) (pre ++ (critRow ck aux :: (mid ++ (DecStep.critCheck "crit" known :: post))))
        (Header.zero, none)).run o with
    | err e => rw [h1] at hd; cases hd
    | panic e => rw [h1] at hd; cases hd
    | ok st1 =>
      rw [h1] at hd
      obtain ⟨st2, c, h2, hc, e⟩ := (crit_iff o _ ck aux known pre mid post npre nmid npost st1).1 h1
      refine ⟨{ st2.1 with raw := dropMember ck obj }, c, by rw [h2]; rfl, hc, ?_⟩
      simp only [PO.run_pure, Outcome.ok.injEq] at hd
      rw [← hd, e]; rfl
  · rintro ⟨h', c, hd, hc, e⟩
    cases h2 : (decSteps (fun k => if k = ck then none else Wire.lookup k obj)
        (pre ++ (critRow ck aux :: (mid ++ (DecStep.critCheck "crit" known :: post)))) (Header.zero, none)).run o with
    | err e => rw [h2] at hd; cases hd
    | panic e => rw [h2] at hd; cases hd
    | ok st2 =>
      rw [h2] at hd
      have h1 := (crit_iff o (fun k => Wire.lookup k obj) ck aux known pre mid post npre nmid npost (liftCrit c st2)).2
        ⟨st2, c, h2, hc, rfl⟩
      rw [h1]
      simp only [PO.run_pure, Outcome.ok.injEq] at hd ⊢
      rw [e, ← hd]; rfl

theorem lookup_dropKeys (keys : List String) (k : String) (raw : List (String × Wire)) :
    Wire.lookup k (dropKeys keys raw) = if k ∈ keys then none else Wire.lookup k raw := by
  induction raw with
  | nil => simp [dropKeys, Wire.lookup]
  | cons hd tl ih =>
    obtain ⟨k', v⟩ := hd
    simp only [dropKeys, List.filter_cons] at ih ⊢
    by_cases e : k' ∈ keys
    · have : (!keys.contains k') = false := by simpa using e
      simp only [this, Bool.false_eq_true, ↓reduceIte, ih, Wire.lookup, beq_iff_eq]
      by_cases e2 : k = k'
      · subst e2; simp [e]
      · simp [e2]
    · have : (!keys.contains k') = true := by simpa using e
      simp only [this, ↓reduceIte, Wire.lookup, beq_iff_eq, ih]
      by_cases e2 : k = k'
      · subst e2; simp [e]
      · simp [e2]

end C11
