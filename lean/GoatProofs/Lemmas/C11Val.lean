import GoatProofs.Lemmas.C11Enc
/-
C11 — value level: what a row emits, the matching getter reads back (under the oracle laws).
-/
namespace C11
open Model.HeaderTable Model.Header

def hashOf (o : Oracle) (name : String) (c : Bytes) : Bytes :=
  (o ⟨"hash", [.str name, .bytes c]⟩).asBytes

def first? : Option (List Bytes) → Option Bytes
  | some (c :: _) => some c
  | _ => none

/-- the header the decoder is expected to return for an emitted `h`: `h` itself, except that the
    thumbprints goat derives from the first certificate (when x5c is set and they are not) appear -/
def fill (o : Oracle) (h : Header) : Header :=
  match first? h.x5c with
  | some c => { h with x5t := some (h.x5t.getD (hashOf o "sha1" c)),
                       x5tS256 := some (h.x5tS256.getD (hashOf o "sha256" c)) }
  | none => h

def B64Law (o : Oracle) (b : Bytes) : Prop :=
  ∃ s, o ⟨"c11.b64url.enc", [.bytes b]⟩ = .str s ∧ o ⟨"c11.b64url.dec", [.str s]⟩ = .bytes b

def CertLaw (o : Oracle) (c : Bytes) : Prop :=
  ∃ s, o ⟨"c11.b64std.enc", [.bytes c]⟩ = .str s ∧ o ⟨"c11.b64std.dec", [.str s]⟩ = .bytes c ∧
    (o ⟨"c11.x509.parse", [.bytes c]⟩).asBool = true

/-- oracle laws and value constraints needed for one field value to survive the round trip -/
def ValLaw (o : Oracle) : FVal → Prop
  | .s _ => True
  | .url none => True
  | .url (some s) => o ⟨"c11.url.parse", [.str s]⟩ = .str s
  | .key none => True
  | .key (some k) => k.isNone = false ∧ ∃ kvs, o ⟨"c11.jwk.marshal", [k]⟩ = .obj kvs ∧
      o ⟨"c11.jwk.parse", [.obj kvs]⟩ = k
  | .certs none => True
  | .certs (some l) => l ≠ [] ∧ ∀ c ∈ l, CertLaw o c
  | .bytes none => True
  | .bytes (some b) => B64Law o b
  | .strs _ => True
  | .flag _ => True
  | .int n => 0 ≤ n ∧ n ≤ maxInt ∧ (n ≠ 0 → o ⟨"c11.num.int64", [.num (toString n)]⟩ = .int n)

/-- the decoder's `cert0` is unset or the first certificate of `h` -/
def CertInv (h : Header) (c0 : Option Bytes) : Prop := c0 = none ∨ c0 = first? h.x5c

/-- thumbprints that are set agree with the chain that is set (otherwise the decoder refuses) -/
def ThumbsOK (o : Oracle) (h : Header) : Prop :=
  ∀ c, first? h.x5c = some c →
    (∀ b, h.x5t = some b → b = hashOf o "sha1" c) ∧ (∀ b, h.x5tS256 = some b → b = hashOf o "sha256" c)

/-- which conversion may sit on which struct field (x5t / x5t#S256 with their own hash and x5c as source) -/
def kindFits (r : Row) (f : Fld) : Bool :=
  match r.kind, f with
  | .str, .alg | .str, .enc | .str, .zip | .str, .kid | .str, .typ | .str, .cty => true
  | .url, .jku | .url, .x5u => true
  | .jwk, .jwk | .jwk, .epk => true
  | .certs, .x5c => true
  | .bytes, .apu | .bytes, .apv | .bytes, .iv | .bytes, .tag | .bytes, .p2s => true
  | .thumb hash, .x5t => hash == "sha1" && r.aux == "x5c"
  | .thumb hash, .x5tS256 => hash == "sha256" && r.aux == "x5c"
  | .strs, .crit => true
  | .nb64, .nb64 => true
  | .int, .p2c => true
  | _, _ => false

/-- round trip of one row: the emitted value, read by the getter of the same kind, is the field -/
def RowRT (o : Oracle) (h : Header) (r : Row) : Prop :=
  ∃ f, Fld.ofString r.field = some f ∧ ∃ v, (emit h r).run o = .ok v ∧
    ∀ c0, CertInv h c0 → ∃ rv c0', (readVal r.kind v c0).run o = .ok (rv, c0') ∧ CertInv h c0' ∧
      (match rv with
       | none => (fill o h).get f = Header.zero.get f
       | some x => x = (fill o h).get f)

theorem fill_get_other (o : Oracle) (h : Header) (f : Fld) (h1 : f ≠ .x5t) (h2 : f ≠ .x5tS256) :
    (fill o h).get f = h.get f := by
  unfold fill
  split
  · cases f <;> first | rfl | exact absurd rfl h1 | exact absurd rfl h2
  · rfl

theorem certs_codec (o : Oracle) (l : List Bytes) (hl : ∀ c ∈ l, CertLaw o c) :
    ∃ ss : List String, (mapPO b64stdEnc l).run o = .ok (ss.map Wire.str) ∧
      ∀ c0, (readCerts ss c0).run o = .ok (l, match c0 with | some c => some c | none => l.head?) := by
  induction l with
  | nil => exact ⟨[], by simp [mapPO], fun c0 => by cases c0 <;> simp [readCerts]⟩
  | cons c t ih =>
    obtain ⟨s, he, hd, hx⟩ := hl c (List.mem_cons_self ..)
    obtain ⟨ss, h1, h2⟩ := ih (fun c' hc' => hl c' (List.mem_cons_of_mem _ hc'))
    refine ⟨s :: ss, by simp [mapPO, b64stdEnc, he, h1], fun c0 => ?_⟩
    cases c0 with
    | none =>
      simp only [readCerts, PO.run_bind, PO.run_query, hd, hx, ↓reduceIte, h2 (some c)]
      simp
    | some c' =>
      simp only [readCerts, PO.run_bind, PO.run_query, hd, hx, ↓reduceIte, h2 (some c')]
      simp

section aux
variable (o : Oracle) (h : Header) (r : Row) (f : Fld) (hf : Fld.ofString r.field = some f)
include hf

theorem rt_str (hk : r.kind = .str) (v : String) (hget : h.get f = .s v)
    (hfill : (fill o h).get f = .s v) (hz : Header.zero.get f = .s "") : RowRT o h r := by
  refine ⟨f, hf, ?_⟩
  simp only [emit, hf, hk, hget]
  by_cases e : v = ""
  · refine ⟨none, by simp [e], fun c0 hc => ⟨none, c0, by simp [readVal], hc, ?_⟩⟩
    simp [hfill, hz, e]
  · refine ⟨some (.str v), by simp [e], fun c0 hc => ⟨some (.s v), c0, by simp [readVal], hc, ?_⟩⟩
    simp [hfill]

theorem rt_url (hk : r.kind = .url) (v : Option String) (hget : h.get f = .url v)
    (hfill : (fill o h).get f = .url v) (hz : Header.zero.get f = .url none)
    (law : ValLaw o (h.get f)) : RowRT o h r := by
  rw [hget] at law
  refine ⟨f, hf, ?_⟩
  simp only [emit, hf, hk, hget]
  cases v with
  | none =>
    refine ⟨none, by simp, fun c0 hc => ⟨none, c0, by simp [readVal], hc, ?_⟩⟩
    simp [hfill, hz]
  | some s =>
    simp only [ValLaw] at law
    refine ⟨some (.str s), by simp, fun c0 hc => ⟨some (.url (some s)), c0, ?_, hc, ?_⟩⟩
    · simp [readVal, law]
    · simp [hfill]

theorem rt_jwk (hk : r.kind = .jwk) (v : Option Wire) (hget : h.get f = .key v)
    (hfill : (fill o h).get f = .key v) (hz : Header.zero.get f = .key none)
    (law : ValLaw o (h.get f)) : RowRT o h r := by
  rw [hget] at law
  refine ⟨f, hf, ?_⟩
  simp only [emit, hf, hk, hget]
  cases v with
  | none =>
    refine ⟨none, by simp, fun c0 hc => ⟨none, c0, by simp [readVal], hc, ?_⟩⟩
    simp [hfill, hz]
  | some k =>
    simp only [ValLaw] at law
    obtain ⟨hk0, kvs, hm, hp⟩ := law
    refine ⟨some (.obj kvs), by simp [hm, Wire.isNone], fun c0 hc => ⟨some (.key (some k)), c0, ?_, hc, ?_⟩⟩
    · simp [readVal, hp, hk0]
    · simp [hfill]

theorem rt_bytes (hk : r.kind = .bytes) (v : Option Bytes) (hget : h.get f = .bytes v)
    (hfill : (fill o h).get f = .bytes v) (hz : Header.zero.get f = .bytes none)
    (law : ValLaw o (h.get f)) : RowRT o h r := by
  rw [hget] at law
  refine ⟨f, hf, ?_⟩
  simp only [emit, hf, hk, hget]
  cases v with
  | none =>
    refine ⟨none, by simp, fun c0 hc => ⟨none, c0, by simp [readVal], hc, ?_⟩⟩
    simp [hfill, hz]
  | some b =>
    simp only [ValLaw] at law
    obtain ⟨s, he, hd⟩ := law
    refine ⟨some (.str s), by simp [b64urlEnc, he], fun c0 hc => ⟨some (.bytes (some b)), c0, ?_, hc, ?_⟩⟩
    · simp [readVal, readBytes, hd]
    · simp [hfill]

theorem rt_strs (hk : r.kind = .strs) (v : List String) (hget : h.get f = .strs v)
    (hfill : (fill o h).get f = .strs v) (hz : Header.zero.get f = .strs []) : RowRT o h r := by
  refine ⟨f, hf, ?_⟩
  simp only [emit, hf, hk, hget]
  have hsl : ∀ l : List String, strList (l.map Wire.str) = some l := by
    intro l; induction l with
    | nil => rfl
    | cons a t ih => simp [strList, ih]
  cases v with
  | nil =>
    refine ⟨none, by simp, fun c0 hc => ⟨none, c0, by simp [readVal], hc, ?_⟩⟩
    simp [hfill, hz]
  | cons a t =>
    refine ⟨some (.arr ((a :: t).map Wire.str)), by simp, fun c0 hc => ⟨some (.strs (a :: t)), c0, ?_, hc, ?_⟩⟩
    · simp only [readVal, hsl]; simp
    · simp [hfill]

theorem rt_nb64 (hk : r.kind = .nb64) (v : Bool) (hget : h.get f = .flag v)
    (hfill : (fill o h).get f = .flag v) (hz : Header.zero.get f = .flag false) : RowRT o h r := by
  refine ⟨f, hf, ?_⟩
  simp only [emit, hf, hk, hget]
  cases v with
  | false =>
    refine ⟨none, by simp, fun c0 hc => ⟨none, c0, by simp [readVal], hc, ?_⟩⟩
    simp [hfill, hz]
  | true =>
    refine ⟨some (.bool false), by simp, fun c0 hc => ⟨some (.flag true), c0, by simp [readVal], hc, ?_⟩⟩
    simp [hfill]

theorem rt_int (hk : r.kind = .int) (v : Int) (hget : h.get f = .int v)
    (hfill : (fill o h).get f = .int v) (hz : Header.zero.get f = .int 0)
    (law : ValLaw o (h.get f)) : RowRT o h r := by
  rw [hget] at law
  refine ⟨f, hf, ?_⟩
  simp only [emit, hf, hk, hget]
  simp only [ValLaw] at law
  obtain ⟨h0, hmax, hl⟩ := law
  by_cases e : v = 0
  · refine ⟨none, by simp [e], fun c0 hc => ⟨none, c0, by simp [readVal], hc, ?_⟩⟩
    simp [hfill, hz, e]
  · refine ⟨some (.num (toString v)), by simp [e], fun c0 hc => ⟨some (.int v), c0, ?_, hc, ?_⟩⟩
    · have : ¬ (v < 0 ∨ maxInt < v) := by omega
      simp only [readVal, PO.run_bind, PO.run_query]
      rw [hl e]
      simp [this]
    · simp [hfill]

theorem rt_certs (hk : r.kind = .certs) (hfx : f = .x5c) (law : ValLaw o (.certs h.x5c)) : RowRT o h r := by
  subst hfx
  refine ⟨.x5c, hf, ?_⟩
  have hfill : (fill o h).get .x5c = .certs h.x5c := by
    rw [fill_get_other o h _ (by decide) (by decide)]; rfl
  have hg : h.get .x5c = .certs h.x5c := rfl
  simp only [emit, hf, hk, hg]
  have hsl : ∀ l : List String, strList (l.map Wire.str) = some l := by
    intro l; induction l with
    | nil => rfl
    | cons a t ih => simp [strList, ih]
  cases hx : h.x5c with
  | none =>
    refine ⟨none, by simp, fun c0 hc => ⟨none, c0, by simp [readVal], hc, ?_⟩⟩
    rw [hfill, hx]; rfl
  | some l =>
    rw [hx] at law
    simp only [ValLaw] at law
    obtain ⟨hne, hl⟩ := law
    obtain ⟨ss, h1, h2⟩ := certs_codec o l hl
    refine ⟨some (.arr (ss.map Wire.str)), by simp [h1], fun c0 hc => ?_⟩
    have h2 := h2 c0
    refine ⟨some (.certs (some l)), (match c0 with | some c => some c | none => l.head?), ?_, ?_, ?_⟩
    · simp only [readVal, hsl, PO.run_bind, h2]
      cases l with
      | nil => exact absurd rfl hne
      | cons a t => cases c0 <;> simp
    · cases l with
      | nil => exact absurd rfl hne
      | cons a t =>
        rcases hc with e | e
        · subst e; right; simp [hx, first?]
        · cases c0 with
          | none => right; simp [hx, first?]
          | some c => right; simpa using e
    · simp [hfill, hx]

theorem rt_thumb (hash : String) (hk : r.kind = .thumb hash) (haux : r.aux = "x5c") (v : Option Bytes)
    (hget : h.get f = .bytes v)
    (hfill : (fill o h).get f = .bytes (match first? h.x5c with
      | some c => some (v.getD (hashOf o hash c)) | none => v))
    (hz : Header.zero.get f = .bytes none)
    (law : ValLaw o ((fill o h).get f))
    (hth : ∀ c, first? h.x5c = some c → ∀ b, v = some b → b = hashOf o hash c) : RowRT o h r := by
  refine ⟨f, hf, ?_⟩
  have hfc : firstCert (Option.map h.get (Fld.ofString "x5c")) = first? h.x5c := by
    simp only [Fld.ofString, Option.map, Header.get]
    cases h.x5c with
    | none => rfl
    | some l => cases l <;> rfl
  rw [hfill] at law
  simp only [emit, hf, hk, hget, haux, hfc]
  -- the decoder side, for an emitted octet string b that agrees with the chain
  have dec : ∀ (b : Bytes) (s : String), o ⟨"c11.b64url.dec", [.str s]⟩ = .bytes b →
      (∀ c, first? h.x5c = some c → b = hashOf o hash c) → ∀ c0, CertInv h c0 →
      (readVal (.thumb hash) (some (.str s)) c0).run o = .ok (some (.bytes (some b)), c0) := by
    intro b s hd hb c0 hc
    simp only [readVal, readBytes, PO.run_bind, PO.run_query, hd]
    cases c0 with
    | none => simp
    | some c =>
      rcases hc with e | e
      · cases e
      · have := hb c e.symm
        simp [hashOf] at this
        simp [this]
  cases v with
  | some b =>
    have hb : ∀ c, first? h.x5c = some c → b = hashOf o hash c := fun c hc => hth c hc b rfl
    have lawb : B64Law o b := by
      cases hfx : first? h.x5c with
      | none => simpa [hfx, ValLaw] using law
      | some c => simpa [hfx, ValLaw] using law
    obtain ⟨s, he, hd⟩ := lawb
    refine ⟨some (.str s), by simp [b64urlEnc, he], fun c0 hc => ⟨_, c0, dec b s hd hb c0 hc, hc, ?_⟩⟩
    rw [hfill]
    cases hfx : first? h.x5c <;> simp
  | none =>
    cases hfx : first? h.x5c with
    | none =>
      refine ⟨none, by simp, fun c0 hc => ⟨none, c0, by simp [readVal], hc, ?_⟩⟩
      simp [hfill, hz, hfx]
    | some c =>
      have lawb : B64Law o (hashOf o hash c) := by simpa [hfx, ValLaw] using law
      obtain ⟨s, he, hd⟩ := lawb
      have hb : ∀ c', first? h.x5c = some c' → hashOf o hash c = hashOf o hash c' := by
        intro c' hc'; rw [hfx] at hc'; cases hc'; rfl
      refine ⟨some (.str s), ?_, fun c0 hc => ⟨_, c0, dec _ s hd hb c0 hc, hc, ?_⟩⟩
      · simp only [PO.run_bind, PO.run_query, b64urlEnc]
        simp only [hashOf] at he
        simp [he]
      · rw [hfill]; simp [hfx]

end aux

/-- the oracle laws / value constraints hold for every field of the header the decoder will see -/
def HdrLaws (o : Oracle) (h : Header) : Prop := ∀ f, ValLaw o ((fill o h).get f)

theorem laws_get {o : Oracle} {h : Header} (laws : HdrLaws o h) (g : Fld) (h1 : g ≠ .x5t) (h2 : g ≠ .x5tS256) :
    ValLaw o (h.get g) := by
  have := laws g
  rwa [fill_get_other o h g h1 h2] at this

theorem fill_x5t (o : Oracle) (h : Header) : (fill o h).get .x5t = .bytes (match first? h.x5c with
    | some c => some (h.x5t.getD (hashOf o "sha1" c)) | none => h.x5t) := by
  unfold fill; split <;> simp [*, Header.get]

theorem fill_x5tS256 (o : Oracle) (h : Header) : (fill o h).get .x5tS256 = .bytes (match first? h.x5c with
    | some c => some (h.x5tS256.getD (hashOf o "sha256" c)) | none => h.x5tS256) := by
  unfold fill; split <;> simp [*, Header.get]

/-- every row whose conversion fits its field round-trips -/
theorem rowRT_of_laws (o : Oracle) (h : Header) (r : Row) (f : Fld) (hf : Fld.ofString r.field = some f)
    (hfit : kindFits r f = true) (laws : HdrLaws o h) (hth : ThumbsOK o h) : RowRT o h r := by
  have nf : ∀ g, g ≠ Fld.x5t → g ≠ Fld.x5tS256 → (fill o h).get g = h.get g := fill_get_other o h
  cases hk : r.kind with
  | str =>
    cases f <;> simp [kindFits, hk] at hfit <;>
      exact rt_str o h r _ hf hk _ rfl (nf _ (by decide) (by decide)) rfl
  | url =>
    cases f <;> simp [kindFits, hk] at hfit <;>
      exact rt_url o h r _ hf hk _ rfl (nf _ (by decide) (by decide)) rfl (laws_get laws _ (by decide) (by decide))
  | jwk =>
    cases f <;> simp [kindFits, hk] at hfit <;>
      exact rt_jwk o h r _ hf hk _ rfl (nf _ (by decide) (by decide)) rfl (laws_get laws _ (by decide) (by decide))
  | certs =>
    cases f <;> simp [kindFits, hk] at hfit
    exact rt_certs o h r _ hf hk rfl (laws_get laws .x5c (by decide) (by decide))
  | bytes =>
    cases f <;> simp [kindFits, hk] at hfit <;>
      exact rt_bytes o h r _ hf hk _ rfl (nf _ (by decide) (by decide)) rfl (laws_get laws _ (by decide) (by decide))
  | thumb hash =>
    cases f <;> simp [kindFits, hk] at hfit
    · obtain ⟨e, haux⟩ := hfit; subst e
      exact rt_thumb o h r _ hf "sha1" hk haux h.x5t rfl (fill_x5t o h) rfl (laws .x5t)
        (fun c hc b hb => (hth c hc).1 b hb)
    · obtain ⟨e, haux⟩ := hfit; subst e
      exact rt_thumb o h r _ hf "sha256" hk haux h.x5tS256 rfl (fill_x5tS256 o h) rfl (laws .x5tS256)
        (fun c hc b hb => (hth c hc).2 b hb)
  | strs =>
    cases f <;> simp [kindFits, hk] at hfit
    exact rt_strs o h r _ hf hk _ rfl (nf _ (by decide) (by decide)) rfl
  | nb64 =>
    cases f <;> simp [kindFits, hk] at hfit
    exact rt_nb64 o h r _ hf hk _ rfl (nf _ (by decide) (by decide)) rfl
  | int =>
    cases f <;> simp [kindFits, hk] at hfit
    exact rt_int o h r _ hf hk _ rfl (nf _ (by decide) (by decide)) rfl (laws_get laws _ (by decide) (by decide))

end C11
