import GoatProofs.Lemmas.C10Rne
import GoatProofs.Lemmas.C10F64
import Mathlib.Tactic.NormNum
/-
`big.Float.Parse` (precision 128) of a decimal text with k ∈ [1,9] fraction digits and an integer
part below 2^38: the result is `mz · 2^-L` with L ≥ 89 and |mz·10^k − M·2^L| ≤ 10^k / 2 — the
correctly rounded quotient M / 10^k.
-/
namespace GoatProofs.Lemmas.C10Scan
open Model.NumericDate GoatProofs.Lemmas.C10Rne GoatProofs.Lemmas.C10F64

theorem pow10_split (k : Nat) : 10 ^ k = 5 ^ k * 2 ^ k := by
  rw [← Nat.mul_pow]

theorem pow5_lt (k : Nat) (hk : k ≤ 9) : 5 ^ k < 2 ^ 21 := by
  have : 5 ^ k ≤ 5 ^ 9 := Nat.pow_le_pow_right (by omega) hk
  have h : (5 : Nat) ^ 9 < 2 ^ 21 := by norm_num
  omega

theorem pow10_lt (k : Nat) (hk : k ≤ 9) : 10 ^ k < 2 ^ 30 := by
  have : 10 ^ k ≤ 10 ^ 9 := Nat.pow_le_pow_right (by omega) hk
  have h : (10 : Nat) ^ 9 < 2 ^ 30 := by norm_num
  omega

/-- Parse of `±M · 10^-k` -/
theorem scan_frac (neg : Bool) (M k : Nat) (hk1 : 1 ≤ k) (hk9 : k ≤ 9) (hM1 : 1 ≤ M)
    (hM : M + 1 ≤ 2 ^ 38 * 10 ^ k) :
    ∃ (mz L : Nat), scan 128 ⟨neg, M, k, 0⟩ = some (.fin neg mz (-(L : Int))) ∧ 89 ≤ L ∧ L ≤ 200 ∧
      (2 : Nat) ^ 127 ≤ mz ∧ mz ≤ (2 : Nat) ^ 128 ∧
      2 * (mz * 10 ^ k) ≤ 2 * (M * 2 ^ L) + 10 ^ k ∧
      2 * (M * 2 ^ L) ≤ 2 * (mz * 10 ^ k) + 10 ^ k := by
  obtain ⟨P, hP⟩ : ∃ P, P = 5 ^ k := ⟨_, rfl⟩
  have hPpos : 0 < P := by rw [hP]; positivity
  have hP21 : P < 2 ^ 21 := by rw [hP]; exact pow5_lt k hk9
  have hD : 10 ^ k = P * 2 ^ k := by rw [hP]; exact pow10_split k
  have hM0 : M ≠ 0 := by omega
  have hD30 : 10 ^ k < 2 ^ 30 := pow10_lt k hk9
  have hM68 : M < 2 ^ 68 := by
    have : (2 : Nat) ^ 38 * 2 ^ 30 = 2 ^ 68 := by rw [← Nat.pow_add]
    have h38 : 0 < (2 : Nat) ^ 38 := by positivity
    nlinarith
  obtain ⟨bM, hbM⟩ : ∃ bM, bM = bitlen M := ⟨_, rfl⟩
  obtain ⟨bP, hbP⟩ : ∃ bP, bP = bitlen P := ⟨_, rfl⟩
  have hbM1 : 1 ≤ bM := by rw [hbM]; exact bitlen_pos M hM0
  have hbM68 : bM ≤ 68 := by rw [hbM]; exact bitlen_le_of_lt M 68 hM68
  have hbP21 : bP ≤ 21 := by rw [hbP]; exact bitlen_le_of_lt P 21 hP21
  have hMlo : 2 ^ (bM - 1) ≤ M := by rw [hbM]; exact pow_le_of_bitlen M hM0
  have hPhi : P < 2 ^ bP := by rw [hbP]; exact lt_pow_bitlen P
  obtain ⟨s, hs⟩ : ∃ s, s = 128 + 2 + bP - bM := ⟨_, rfl⟩
  have hs' : s + bM = 130 + bP := by omega
  obtain ⟨a, ha⟩ : ∃ a, a = M * 2 ^ s := ⟨_, rfl⟩
  -- the quotient has more than 128 bits
  have hq128 : 2 ^ 128 ≤ a / P := by
    rw [Nat.le_div_iff_mul_le hPpos]
    have h1 : 2 ^ 128 * P ≤ 2 ^ 128 * 2 ^ bP := Nat.mul_le_mul_left _ (Nat.le_of_lt hPhi)
    have h2 : 2 ^ 128 * 2 ^ bP ≤ 2 ^ (bM - 1) * 2 ^ s := by
      rw [← Nat.pow_add, ← Nat.pow_add]; exact Nat.pow_le_pow_right (by omega) (by omega)
    have h3 : 2 ^ (bM - 1) * 2 ^ s ≤ M * 2 ^ s := Nat.mul_le_mul_right _ hMlo
    rw [ha]; omega
  have hbq : 128 < bitlen (a / P) := lt_bitlen_of_pow_le _ 128 hq128
  have hqa : a / P ≤ a := Nat.div_le_self a P
  have halt : a < 2 ^ (68 + s) := by
    rw [ha, Nat.pow_add]; exact Nat.mul_lt_mul_of_pos_right hM68 (by positivity)
  have hbq2 : bitlen (a / P) ≤ 68 + s := bitlen_le_of_lt _ _ (Nat.lt_of_le_of_lt hqa halt)
  obtain ⟨mz, hrne, hmz1, hmz2, hd1, hd2⟩ :=
    rne_quot 128 (by omega) a P hPpos ((-(k : Int)) - 0 - (s : Int)) hbq
  obtain ⟨r, hr⟩ : ∃ r, r = bitlen (a / P) - 128 := ⟨_, rfl⟩
  rw [← hr] at hrne hd1 hd2
  have hr1 : 1 ≤ r := by omega
  have hrs : r ≤ s + k := by omega
  obtain ⟨L, hL⟩ : ∃ L, L = s + k - r := ⟨_, rfl⟩
  have hLs : L + r = s + k := by omega
  have hL200 : L ≤ 200 := by omega
  -- transfer the bound to the scale 2^L, 10^k
  obtain ⟨R, hR⟩ : ∃ R, R = 2 ^ r := ⟨_, rfl⟩
  have hRpos : 0 < R := by rw [hR]; positivity
  rw [← hR] at hd1 hd2
  have hsk : 2 ^ s * 2 ^ k = 2 ^ L * R := by
    rw [hR, ← Nat.pow_add, ← Nat.pow_add, hLs]
  have eqL : ∀ x : Nat, R * (2 * (mz * (P * 2 ^ k))) = 2 * (mz * R * P) * 2 ^ k := by intro _; ring
  have eqR : R * (2 * (M * 2 ^ L) + P * 2 ^ k) = (2 * (M * 2 ^ s) + R * P) * 2 ^ k := by
    calc R * (2 * (M * 2 ^ L) + P * 2 ^ k) = 2 * M * (2 ^ L * R) + R * P * 2 ^ k := by ring
      _ = 2 * M * (2 ^ s * 2 ^ k) + R * P * 2 ^ k := by rw [hsk]
      _ = (2 * (M * 2 ^ s) + R * P) * 2 ^ k := by ring
  have eqR2 : R * (2 * (mz * (P * 2 ^ k)) + P * 2 ^ k) = (2 * (mz * R * P) + R * P) * 2 ^ k := by ring
  have eqL2 : R * (2 * (M * 2 ^ L)) = 2 * (M * 2 ^ s) * 2 ^ k := by
    calc R * (2 * (M * 2 ^ L)) = 2 * M * (2 ^ L * R) := by ring
      _ = 2 * M * (2 ^ s * 2 ^ k) := by rw [hsk]
      _ = 2 * (M * 2 ^ s) * 2 ^ k := by ring
  have e1 : 2 * (mz * 10 ^ k) ≤ 2 * (M * 2 ^ L) + 10 ^ k := by
    apply Nat.le_of_mul_le_mul_left _ hRpos
    rw [hD, eqL 0, eqR]
    rw [ha] at hd1
    exact Nat.mul_le_mul_right (2 ^ k) hd1
  have e2 : 2 * (M * 2 ^ L) ≤ 2 * (mz * 10 ^ k) + 10 ^ k := by
    apply Nat.le_of_mul_le_mul_left _ hRpos
    rw [hD, eqL2, eqR2]
    rw [ha] at hd2
    exact Nat.mul_le_mul_right (2 ^ k) hd2
  -- L ≥ 89: otherwise the value would be at least 2^38
  have hL89 : 89 ≤ L := by
    by_contra hlt
    have hT : 2 ^ L ≤ 2 ^ 88 := Nat.pow_le_pow_right (by omega) (by omega)
    have hDpos : 0 < 10 ^ k := by positivity
    have h1 : 2 ^ 127 * 10 ^ k ≤ mz * 10 ^ k := Nat.mul_le_mul_right _ hmz1
    have h2 : M * 2 ^ L ≤ M * 2 ^ 88 := Nat.mul_le_mul_left _ hT
    have h3 : (M + 1) * 2 ^ 88 ≤ 2 ^ 38 * 10 ^ k * 2 ^ 88 := Nat.mul_le_mul_right _ hM
    have h127 : (2 : Nat) ^ 127 = 2 ^ 38 * 2 ^ 88 * 2 := by norm_num
    have h88 : (2 : Nat) ^ 88 > 2 ^ 30 := by norm_num
    nlinarith
  refine ⟨mz, L, ?_, hL89, hL200, hmz1, hmz2, e1, e2⟩
  -- evaluate scan
  have hexp5 : ((0 : Int) - ((k : Nat) : Int)) = -(k : Int) := by omega
  unfold scan
  simp only [hM0, if_false, hexp5]
  have hr1' : ¬ (((bitlen M : Nat) : Int) + -(k : Int) < minExp ∨ ((bitlen M : Nat) : Int) + -(k : Int) > maxExp) := by
    unfold minExp maxExp; rw [← hbM]; omega
  have hk0 : ¬ (-(k : Int) = 0) := by omega
  have hkneg : -(k : Int) < 0 := by omega
  simp only [hr1', hk0, hkneg, if_false, if_true]
  have hna : (-(k : Int)).natAbs = k := by omega
  have hpow5 : pow5 (128 + 64) k = .fin false (5 ^ k) 0 := by
    unfold pow5 pow5tabMax
    have : k ≤ 27 := by omega
    simp [this]
  rw [hna, hpow5, ← hP]
  unfold quo
  simp only [← hbM, ← hbP, ← hs, ← ha, Bool.bne_false]
  unfold norm
  have hq0 : a / P ≠ 0 := by
    have : 0 < 2 ^ 128 := by positivity
    omega
  have hg : goExp (a / P) (-(k : Int) - 0 - (s : Int)) = ((bitlen (a / P) : Nat) : Int) - k - s := by
    unfold goExp; omega
  have hg1 : ¬ (goExp (a / P) (-(k : Int) - 0 - (s : Int)) < minExp) := by rw [hg]; unfold minExp; omega
  have hg2 : ¬ (goExp (a / P) (-(k : Int) - 0 - (s : Int)) > maxExp) := by rw [hg]; unfold maxExp; omega
  simp only [hq0, hg1, hg2, if_false, hrne]
  have hbmz : bitlen mz ≤ 129 := bitlen_le_of_lt mz 129 (by
    have : (2 : Nat) ^ 128 < 2 ^ 129 := by norm_num
    omega)
  have hg3 : ¬ (goExp mz (-(k : Int) - 0 - (s : Int) + (r : Int)) > maxExp) := by
    unfold goExp maxExp; omega
  simp only [hg3, if_false]
  have : (-(k : Int) - 0 - (s : Int) + (r : Int)) = -(L : Int) := by omega
  rw [this]

end GoatProofs.Lemmas.C10Scan
