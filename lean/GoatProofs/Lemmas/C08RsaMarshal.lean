import GoatProofs.Lemmas.C08Generic
/-
RSA keys: closed form of MarshalJSON (public; private with any number of primes, with precomputed
values or with empty `Precomputed`), and its agreement with the spec encoder incl. "oth".
-/
namespace C08
open Model.JWK Spec.IANA Gen.Consts

/-- closed form of the object `MarshalJSON` serialises for an RSA public key -/
def rsaPubObj (o : Oracle) (k : Key) (n e : Nat) : Obj :=
  oset (oset (oset (commonObj o k.raw k) "kty" (.str jwa.RSA)) "e" (.str (encS o (minBE e))))
    "n" (.str (encS o (minBE n)))

theorem marshal_rsa_pub (o : Oracle) (k : Key) (n e : Nat) (hp : k.pub = .rsa ⟨n, e⟩) (hq : k.priv = .none)
    (hn : 0 < n) (he : 2 ≤ e) (he' : e ≤ 2147483647) :
    (marshalFrom k).run o = .ok (rsaPubObj o k n e) := by
  have h1 : n ≠ 0 := by omega
  have h2 : ¬ ((e : Int) < 2 ∨ (e : Int) > 2147483647) := by omega
  unfold marshalFrom
  simp only [PO.run_bind, run_encodeCommon, hp, hq]
  simp [encodeMaterial, encodeRsa, validateRsaPub, h1, h2, rsaPubObj]

theorem rsaPubObj_registered (o : Oracle) (k : Key) (n e : Nat) (name : String) :
    Wire.lookup name (rsaPubObj o k n e) =
      Wire.lookup name (specEncode (encS o) (encStdS o) (.rsa n e none) (specParams o k) k.raw) := by
  unfold rsaPubObj
  simp only [lookup_oset]
  by_cases h1 : name = "n"
  · subst h1; simp [specEncode, materialMembers, Wire.lookup, mKty, mN, minOctets_eq]
  by_cases h2 : name = "e"
  · subst h2; simp [specEncode, materialMembers, Wire.lookup, mKty, mN, mE, minOctets_eq]
  by_cases h3 : name = "kty"
  · subst h3; simp [specEncode, Wire.lookup, mKty, KeyMaterial.kty, ktyRSA]; decide
  rw [if_neg h1, if_neg h2, if_neg h3, lookup_commonObj _ _ _ _ h3]
  simp [specEncode, materialMembers, Wire.lookup, mKty, mN, mE, lookup_append, h1, h2, h3]

/-! ## private keys -/

/-- the (r, d, t) triples of the spec from the Go representation: CRTValues (Exp, Coeff, R) give d and t,
    the prime itself comes from `Primes[i+2]` (CRTValue.R is the product of the earlier primes) -/
def specOth : List (Nat × Nat × Nat) → List Nat → List (Nat × Nat × Nat)
  | (exp, coeff, _) :: rest, r :: primes => (r, exp, coeff) :: specOth rest primes
  | _, _ => []

theorem run_encodeOth (o : Oracle) (crt : List (Nat × Nat × Nat)) (primes : List Nat) :
    (encodeOth crt primes).run o = .ok ((specOth crt primes).map (othElement (encS o))) := by
  induction crt generalizing primes with
  | nil => simp [encodeOth, specOth]
  | cons c rest ih =>
    obtain ⟨exp, coeff, r0⟩ := c
    cases primes with
    | nil => simp [encodeOth, specOth]
    | cons r ps => simp [encodeOth, specOth, ih, othElement, minOctets_eq]

/-- `(*rsa.PrivateKey).Precompute()` as a function of the oracle -/
def rsaPreS (o : Oracle) (n e d : Nat) (primes : List Nat) : RsaPre :=
  (preOfWire (o ⟨"jwk.rsa.precompute", [.int n, .int e, .int d,
    .arr (primes.map fun (x : Nat) => Wire.int (x : Int))]⟩)).getD ⟨0, 0, 0, []⟩

theorem run_rsaPrecomputeQ (o : Oracle) (n e d : Nat) (primes : List Nat) :
    (rsaPrecomputeQ ⟨n, e⟩ d primes).run o = .ok (rsaPreS o n e d primes) := by
  simp [rsaPrecomputeQ, rsaPreS]

/-- the precomputed values `encodeRSAKey` uses: the key's own, or — when they are empty and there are
    more than two primes — those of a `Precompute()`d copy -/
def effPre (o : Oracle) (n e d : Nat) (primes : List Nat) : Option RsaPre → Option RsaPre
  | some p => some p
  | none => if primes.length > 2 then some (rsaPreS o n e d primes) else none

/-- the CRT members on top of the object `m2` that has n, e, d, p, q -/
def rsaCrtObj (o : Oracle) (m2 : Obj) (rs : List Nat) : Option RsaPre → Obj
  | none => m2
  | some pre =>
    osetOpt (oset (oset (oset m2 "dp" (.str (encS o (minBE pre.dp)))) "dq" (.str (encS o (minBE pre.dq))))
      "qi" (.str (encS o (minBE pre.qi))))
      "oth" (if specOth pre.crt rs = [] then none else some (.arr ((specOth pre.crt rs).map (othElement (encS o)))))

/-- closed form of the object `MarshalJSON` serialises for an RSA private key -/
def rsaPrivObj (o : Oracle) (k : Key) (n e d p q : Nat) (rs : List Nat) (eff : Option RsaPre) : Obj :=
  rsaCrtObj o (oset (oset (oset (rsaPubObj o k n e)
      "d" (.str (encS o (minBE d)))) "p" (.str (encS o (minBE p)))) "q" (.str (encS o (minBE q)))) rs eff

/-- the spec material of an RSA private key whose effective precomputed values are `eff` -/
def rsaMat (n e d p q : Nat) (rs : List Nat) (eff : Option RsaPre) : KeyMaterial :=
  .rsa n e (some ⟨d, p, q, eff.map (fun pre => (pre.dp, pre.dq, pre.qi)),
    match eff with | some pre => specOth pre.crt rs | none => []⟩)

/-- the RSA validation oracle accepts the key; its primes are pairwise coprime -/
structure RsaOK (o : Oracle) (n e d p q : Nat) (rs : List Nat) : Prop where
  n0 : 0 < n
  e2 : 2 ≤ e
  e31 : e ≤ 2147483647
  valid : (o ⟨"jwk.rsa.validate", [.int n, .int e, .int d,
      .arr ((p :: q :: rs).map fun (x : Nat) => Wire.int (x : Int))]⟩).asBool = true
  coprime : pairwiseCoprime (p :: q :: rs) = true

theorem run_validateRsaPriv (o : Oracle) (n e d p q : Nat) (rs : List Nat) (R : RsaOK o n e d p q rs) :
    (validateRsaPriv ⟨n, e⟩ d (p :: q :: rs)).run o = .ok () := by
  have hl2 : ¬ ((p :: q :: rs).length < 2) := by simp
  unfold validateRsaPriv rsaValidateQ
  simp only [hl2, if_false, PO.run_bind, PO.run_query, PO.run_pure]
  rw [R.valid]
  simp [R.coprime]

theorem marshal_rsa_priv (o : Oracle) (k : Key) (n e d p q : Nat) (rs : List Nat) (pre : Option RsaPre)
    (hp : k.pub = .rsa ⟨n, e⟩) (hq : k.priv = .rsa ⟨n, e⟩ d (p :: q :: rs) pre)
    (R : RsaOK o n e d p q rs)
    (hcrt : ∀ v, effPre o n e d (p :: q :: rs) pre = some v → v.crt.length = rs.length) :
    (marshalFrom k).run o = .ok (rsaPrivObj o k n e d p q rs (effPre o n e d (p :: q :: rs) pre)) := by
  have h1 : n ≠ 0 := by have := R.n0; omega
  have h2 : ¬ ((e : Int) < 2 ∨ (e : Int) > 2147483647) := by have := R.e2; have := R.e31; omega
  have hv := run_validateRsaPriv o n e d p q rs R
  unfold marshalFrom
  simp only [PO.run_bind, run_encodeCommon, hp, hq]
  simp only [encodeMaterial, encodeRsa, PO.run_bind, validateRsaPub, hv]
  -- the CRT part, by the shape of the effective precomputed values
  have crt : ∀ (m2 : Obj), (encodeRsaCrt m2 ⟨n, e⟩ d (p :: q :: rs) pre).run o =
      .ok (rsaCrtObj o m2 rs (effPre o n e d (p :: q :: rs) pre)) := by
    intro m2
    have some_case : ∀ v, v.crt.length = rs.length →
        (match (some v : Option RsaPre) with
          | Option.none => (pure m2 : PO Obj)
          | some pre =>
            if pre.crt.length ≠ (p :: q :: rs).length - 2 then PO.fail "rsa-pre"
            else do
              let m ← setBigInt m2 "dp" pre.dp
              let m ← setBigInt m "dq" pre.dq
              let m ← setBigInt m "qi" pre.qi
              let oth ← encodeOth pre.crt ((p :: q :: rs).drop 2)
              if oth.isEmpty then pure m else pure (oset m "oth" (.arr oth))).run o =
          .ok (rsaCrtObj o m2 rs (some v)) := by
      intro v hl
      have hl' : ¬ (v.crt.length ≠ (p :: q :: rs).length - 2) := by simp [hl]
      simp only [hl', if_false, PO.run_bind, run_setBigInt, run_encodeOth, List.drop]
      by_cases ho : specOth v.crt rs = []
      · simp [ho, rsaCrtObj, osetOpt]
      · simp [ho, rsaCrtObj, osetOpt]
    unfold encodeRsaCrt
    cases pre with
    | some v =>
      simp only [PO.run_bind, PO.run_pure]
      exact some_case v (hcrt v rfl)
    | none =>
      by_cases hr : rs = []
      · subst hr
        simp [effPre, rsaCrtObj]
      · have hlen : (p :: q :: rs).length > 2 := by
          cases rs with
          | nil => exact absurd rfl hr
          | cons a t => simp
        have he : effPre o n e d (p :: q :: rs) none = some (rsaPreS o n e d (p :: q :: rs)) := by
          simp [effPre, hr]
        simp only [hlen, if_true, PO.run_bind, run_rsaPrecomputeQ, PO.run_pure, he]
        exact some_case _ (hcrt _ he)
  simp only [run_setBigInt, run_setBytes, PO.run_pure, List.getD, crt]
  simp [h1, h2, rsaPrivObj, rsaPubObj]

theorem rsaPrivObj_registered (o : Oracle) (k : Key) (n e d p q : Nat) (rs : List Nat) (eff : Option RsaPre)
    (name : String) :
    Wire.lookup name (rsaPrivObj o k n e d p q rs eff) =
      Wire.lookup name (specEncode (encS o) (encStdS o) (rsaMat n e d p q rs eff) (specParams o k) k.raw) := by
  unfold rsaPrivObj rsaMat
  cases eff with
  | none =>
    unfold rsaCrtObj rsaPubObj
    simp only [lookup_oset]
    by_cases g4 : name = "q"
    · subst g4; simp [specEncode, materialMembers, Wire.lookup, mKty, mN, mE, mD, mP, mQ, minOctets_eq, lookup_append]
    by_cases g5 : name = "p"
    · subst g5; simp [specEncode, materialMembers, Wire.lookup, mKty, mN, mE, mD, mP, minOctets_eq, lookup_append]
    by_cases g6 : name = "d"
    · subst g6; simp [specEncode, materialMembers, Wire.lookup, mKty, mN, mE, mD, minOctets_eq, lookup_append]
    by_cases g7 : name = "n"
    · subst g7; simp [specEncode, materialMembers, Wire.lookup, mKty, mN, minOctets_eq]
    by_cases g8 : name = "e"
    · subst g8; simp [specEncode, materialMembers, Wire.lookup, mKty, mN, mE, minOctets_eq]
    by_cases g9 : name = "kty"
    · subst g9; simp [specEncode, Wire.lookup, mKty, KeyMaterial.kty, ktyRSA]; decide
    rw [if_neg g4, if_neg g5, if_neg g6, if_neg g7, if_neg g8, if_neg g9, lookup_commonObj _ _ _ _ g9]
    simp [specEncode, materialMembers, othMember, Wire.lookup, mKty, mN, mE, mD, mP, mQ, lookup_append,
      g4, g5, g6, g7, g8, g9]
  | some pre =>
    unfold rsaCrtObj
    simp only [lookup_osetOpt, lookup_oset, Option.map]
    by_cases g0 : name = "oth"
    · subst g0
      by_cases ho : specOth pre.crt rs = []
      · simp only [ho, if_true, Option.orElse]
        rw [if_neg (by decide : ¬ "oth" = "qi"), if_neg (by decide : ¬ "oth" = "dq"), if_neg (by decide : ¬ "oth" = "dp"),
          if_neg (by decide : ¬ "oth" = "q"), if_neg (by decide : ¬ "oth" = "p"), if_neg (by decide : ¬ "oth" = "d")]
        unfold rsaPubObj
        simp only [lookup_oset]
        rw [if_neg (by decide : ¬ "oth" = "n"), if_neg (by decide : ¬ "oth" = "e"), if_neg (by decide : ¬ "oth" = "kty"),
          lookup_commonObj _ _ _ _ (by decide)]
        simp [ho, specEncode, materialMembers, othMember, Wire.lookup, mKty, mN, mE, mD, mP, mQ, mDP, mDQ, mQI, lookup_append,
          paramMembers, lookup_optMember, mKid, mUse, mKeyOps, mAlg, mX5u, mX5c, mX5t, mX5tS256]
      · simp [ho, specEncode, materialMembers, othMember, Wire.lookup, mKty, mN, mE, mD, mP, mQ, mDP, mDQ, mQI, mOth, lookup_append]
    by_cases g1 : name = "qi"
    · subst g1; simp [specEncode, materialMembers, Wire.lookup, mKty, mN, mE, mD, mP, mQ, mDP, mDQ, mQI, minOctets_eq, lookup_append]
    by_cases g2 : name = "dq"
    · subst g2; simp [specEncode, materialMembers, Wire.lookup, mKty, mN, mE, mD, mP, mQ, mDP, mDQ, minOctets_eq, lookup_append]
    by_cases g3 : name = "dp"
    · subst g3; simp [specEncode, materialMembers, Wire.lookup, mKty, mN, mE, mD, mP, mQ, mDP, minOctets_eq, lookup_append]
    rw [if_neg g0, if_neg g1, if_neg g2, if_neg g3]
    unfold rsaPubObj
    simp only [lookup_oset]
    by_cases g4 : name = "q"
    · subst g4; simp [specEncode, materialMembers, Wire.lookup, mKty, mN, mE, mD, mP, mQ, minOctets_eq, lookup_append]
    by_cases g5 : name = "p"
    · subst g5; simp [specEncode, materialMembers, Wire.lookup, mKty, mN, mE, mD, mP, minOctets_eq, lookup_append]
    by_cases g6 : name = "d"
    · subst g6; simp [specEncode, materialMembers, Wire.lookup, mKty, mN, mE, mD, minOctets_eq, lookup_append]
    by_cases g7 : name = "n"
    · subst g7; simp [specEncode, materialMembers, Wire.lookup, mKty, mN, minOctets_eq]
    by_cases g8 : name = "e"
    · subst g8; simp [specEncode, materialMembers, Wire.lookup, mKty, mN, mE, minOctets_eq]
    by_cases g9 : name = "kty"
    · subst g9; simp [specEncode, Wire.lookup, mKty, KeyMaterial.kty, ktyRSA]; decide
    rw [if_neg g4, if_neg g5, if_neg g6, if_neg g7, if_neg g8, if_neg g9, lookup_commonObj _ _ _ _ g9]
    have hoth : Wire.lookup name (othMember (encS o) (specOth pre.crt rs)) = none := by
      unfold othMember; split <;> simp [Wire.lookup, mOth, g0]
    simp [specEncode, materialMembers, Wire.lookup, mKty, mN, mE, mD, mP, mQ, mDP, mDQ, mQI, lookup_append, hoth,
      g0, g1, g2, g3, g4, g5, g6, g7, g8, g9]

/-- the `oth` array has one element per extra prime, in order, and element i is the encoding of
    (r_i, d_i, t_i) = (Primes[i+2], CRTValues[i].Exp, CRTValues[i].Coeff) — no element aliases another -/
theorem oth_elements (crt : List (Nat × Nat × Nat)) (rs : List Nat) (h : crt.length = rs.length) :
    (specOth crt rs).length = rs.length ∧
    ∀ i (hi : i < rs.length), (specOth crt rs)[i]? = some (rs[i], (crt[i]'(h ▸ hi)).1, (crt[i]'(h ▸ hi)).2.1) := by
  induction crt generalizing rs with
  | nil =>
    cases rs with
    | nil => simp [specOth]
    | cons r ps => simp at h
  | cons c rest ih =>
    obtain ⟨exp, coeff, r0⟩ := c
    cases rs with
    | nil => simp at h
    | cons r ps =>
      have h' : rest.length = ps.length := by simpa using h
      obtain ⟨l, g⟩ := ih ps h'
      refine ⟨by simp [specOth, l], ?_⟩
      intro i hi
      cases i with
      | zero => simp [specOth]
      | succ j => simpa [specOth] using g j (by simpa using hi)

end C08
