import GoatProofs.Lemmas.C14MontLadder
/-
C14, Montgomery curves (part 4: what is needed to decide WHEN `X448(k, 5)` is zero).

* `l448` (the prime order of the curve448 subgroup) and the kernel evaluation `ladder l448 5 = 0`
  (through `ladder_cast` this says `[ℓ]G ∈ {O, (0,0)}`, hence `[2ℓ]G = O` — no point counting is needed);
* points with `xOf = 0` (O and the 2-torsion point (0,0)) are killed by 2 and their multiples have `xOf = 0`;
* arithmetic of clamped scalars: a multiple of 4 in `[2^447, 2^448)` divisible by `ℓ` is `4ℓ`;
* the clamped scalar IS a multiple of 4 in `[2^447, 2^448)`.
-/
namespace C14Mont
open WeierstrassCurve GoatProofs.Primes Spec.RFC7748
set_option exponentiation.threshold 2000
set_option maxRecDepth 1000000

/-- the order of the prime-order subgroup of curve448 (RFC 7748 §4.2) -/
def l448 : ℕ := 2 ^ 446 - 13818066809895115352007386748515426880336692474882178609894547503885

theorem l448_prime : Nat.Prime l448 := GoatProofs.Primes.l448_prime

/-- the RFC ladder itself, evaluated by the kernel: `X448`-value of `(ℓ, 5)` is 0 -/
theorem ladder_l_5 : ladder l448 5 = 0 := by decide +kernel

theorem l448_lt : l448 < 2 ^ 448 := by decide +kernel
theorem two_l448_lt : 2 * l448 < 2 ^ 447 := by decide +kernel
theorem five_l448_gt : 2 ^ 448 < 5 * l448 := by decide +kernel
theorem l448_mod4 : l448 % 4 = 3 := by decide +kernel
theorem four_l448_ge : 2 ^ 447 ≤ 4 * l448 := by decide +kernel
theorem four_l448_lt : 4 * l448 < 2 ^ 448 := by decide +kernel

/-! ## points with `xOf = 0` -/

theorem y_zero_of_x_zero {y : F} (h : (MW A448).toAffine.Nonsingular 0 y) : y = 0 := by
  have := eqn h
  have : y ^ 2 = 0 := by rw [this]; ring
  exact pow_eq_zero_iff (by decide) |>.mp this

theorem add_self_of_xOf_zero {Q : Pt} (h : xOf Q = 0) : Q + Q = 0 := by
  cases Q with
  | zero => rfl
  | some x y hn =>
    have hx : x = 0 := h
    subst hx
    exact add_self_of_y_zero hn (y_zero_of_x_zero hn)

theorem xOf_nsmul_of_xOf_zero {Q : Pt} (h : xOf Q = 0) (j : ℕ) : xOf (j • Q) = 0 := by
  cases Q with
  | zero =>
    have e0 : (Affine.Point.zero : Pt) = 0 := rfl
    rw [e0, nsmul_zero]; rfl
  | some x y hn =>
    have hx : x = 0 := h
    subst hx
    exact nsmul_x_zero hn j

/-! ## which clamped scalars are multiples of ℓ -/

theorem eq_four_l_of_dvd {k : ℕ} (h4 : k % 4 = 0) (hlo : 2 ^ 447 ≤ k) (hhi : k < 2 ^ 448) (hd : l448 ∣ k) :
    k = 4 * l448 := by
  obtain ⟨j, rfl⟩ := hd
  have h1 := two_l448_lt
  have h2 := five_l448_gt
  have h3 := l448_mod4
  generalize l448 = l at *
  have hj3 : 3 ≤ j := by
    by_contra hc
    have : l * j ≤ l * 2 := Nat.mul_le_mul_left l (by omega)
    omega
  have hj4 : j ≤ 4 := by
    by_contra hc
    have : l * 5 ≤ l * j := Nat.mul_le_mul_left l (by omega)
    omega
  have : j = 3 ∨ j = 4 := by omega
  rcases this with rfl | rfl
  · omega
  · omega

/-! ## the clamped scalar -/

theorem dle_set_ge (v : ℕ) : ∀ (l : List ℕ) (i : ℕ), i < l.length → v * 256 ^ i ≤ decodeLittleEndian (l.set i v) := by
  intro l
  induction l with
  | nil => intro i hi; simp at hi
  | cons x xs ih =>
    intro i hi
    cases i with
    | zero => simp only [List.set_cons_zero, decodeLittleEndian, pow_zero, mul_one]; omega
    | succ i =>
      have := ih i (by simpa using hi)
      simp only [List.set_cons_succ, decodeLittleEndian, pow_succ]
      have e : v * (256 ^ i * 256) = 256 * (v * 256 ^ i) := by ring
      omega

theorem and252_mod4 (x : ℕ) : (x &&& 252) % 4 = 0 := by
  have h := Nat.and_two_pow_sub_one_eq_mod (x &&& 252) 2
  have e : (2 : ℕ) ^ 2 - 1 = 3 := by norm_num
  rw [e, Nat.and_assoc] at h
  have : (252 : ℕ) &&& 3 = 0 := by decide
  rw [this, Nat.and_zero] at h
  omega

theorem clamp_mod4 (l : List ℕ) (hl : l.length = 56) : decodeLittleEndian (clampList l) % 4 = 0 := by
  match l, hl with
  | x :: xs, _ =>
    have h := and252_mod4 x
    simp only [clampList, List.getD_cons_zero, List.set_cons_zero, List.set_cons_succ, decodeLittleEndian]
    omega

theorem clamp_ge (l : List ℕ) (hl : l.length = 56) : 2 ^ 447 ≤ decodeLittleEndian (clampList l) := by
  unfold clampList
  simp only
  have h := dle_set_ge ((l.set 0 (l.getD 0 0 &&& 252)).getD 55 0 ||| 128) (l.set 0 (l.getD 0 0 &&& 252)) 55
    (by rw [List.length_set, hl]; decide)
  have h2 : 128 * 256 ^ 55 ≤ ((l.set 0 (l.getD 0 0 &&& 252)).getD 55 0 ||| 128) * 256 ^ 55 :=
    Nat.mul_le_mul_right _ Nat.right_le_or
  have e : (128 : ℕ) * 256 ^ 55 = 2 ^ 447 := by decide +kernel
  omega

theorem scalar_mod4 (k : Bytes) (hk : k.length = 56) : decodeScalar448 k % 4 = 0 :=
  clamp_mod4 _ (by rw [List.length_map, hk])

theorem scalar_ge (k : Bytes) (hk : k.length = 56) : 2 ^ 447 ≤ decodeScalar448 k :=
  clamp_ge _ (by rw [List.length_map, hk])

end C14Mont
