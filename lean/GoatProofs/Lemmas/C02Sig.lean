import GoatProofs.Lemmas.C01Sig
/-
C02 — "what a key signs, the corresponding verification key accepts", derived per algorithm from
the explicit law of the primitive oracle.
-/
namespace Model.Sig

/-- `vk` accepts whatever `sk` signs (under oracle `o`) -/
def SignVerifyPair (o : Oracle) (sk vk : SigningKey) : Prop :=
  ∀ input sg, (signKey sk input).run o = .ok sg → (verifyKey vk input sg).run o = .ok ()

theorem encodeLE_length : ∀ (n v : Nat), (Bytes.encodeLE n v).length = n := by
  intro n
  induction n with
  | zero => intro v; rfl
  | succ k ih => intro v; simp [Bytes.encodeLE, ih]

theorem encodeBE_length (n v : Nat) : (Bytes.encodeBE n v).length = n := by
  simp [Bytes.encodeBE, encodeLE_length]

/-- HS*: no law needed — signing and verifying ask the same HMAC query; the key must be allowed
    to verify. -/
theorem hs_pair (o : Oracle) (h : Hash) (secret : Bytes) (cs cs' : Bool) :
    SignVerifyPair o (.hs h secret cs true) (.hs h secret cs' true) := by
  intro input sg hs
  rw [hs_verify_ok_iff]
  refine ⟨rfl, ?_⟩
  simp only [signKey] at hs
  cases cs
  · simp at hs
  · simp only [Bool.not_true, Bool.false_eq_true, if_false] at hs
    exact (askBytes_ok o _ _ _).1 hs

/-- `none` -/
theorem none_pair (o : Oracle) : SignVerifyPair o .none .none := by
  intro input sg hs
  simp only [signKey, PO.run_pure] at hs
  injection hs with hs
  rw [none_verify]; exact hs.symm

/-- RS*/PS*: law = the verification oracle accepts what the signing oracle returned for the same
    digest. -/
theorem rsa_pair (o : Oracle) (pss : Bool) (h : Hash) (id : Wire) (priv' : Option Wire) (n e : Bytes)
    (cs cs' : Bool)
    (law : ∀ digest sg,
      o ⟨if pss then "c02.rsa.signPSS" else "c02.rsa.signPKCS1v15", [id, .str h.name, .bytes digest]⟩ = .bytes sg →
      o ⟨if pss then "c01.rsa.verifyPSS" else "c01.rsa.verifyPKCS1v15",
         [.bytes n, .bytes e, .str h.name, .bytes digest, .bytes sg]⟩ = .bool true) :
    SignVerifyPair o (.rsa pss h (some id) n e cs true) (.rsa pss h priv' n e cs' true) := by
  intro input sg hs
  rw [rsa_verify_ok_iff]
  simp only [signKey] at hs
  cases cs
  · simp at hs
  · simp only [Bool.not_true, Bool.false_eq_true, if_false] at hs
    obtain ⟨digest, hd, hs⟩ := PO.run_bind_eq_ok o _ _ _ hs
    have hd' := (askBytes_ok o _ _ _).1 hd
    simp only [PO.run_bind, PO.run_query] at hs
    refine ⟨rfl, digest, hd', ?_⟩
    apply law digest sg
    cases hq : o ⟨if pss then "c02.rsa.signPSS" else "c02.rsa.signPKCS1v15", [id, .str h.name, .bytes digest]⟩ <;>
      simp [hq] at hs
    rw [hs]

/-- ES*: law = the verification oracle accepts `(r, s)` returned by the signing oracle, given as
    the fixed-width big-endian halves; `r, s` fit the width. -/
theorem es_pair (o : Oracle) (h : Hash) (c : Curve) (id : Wire) (priv' : Option Wire) (x y : Bytes)
    (cs cs' : Bool)
    (law : ∀ digest (r s : Int), o ⟨"c02.ecdsa.sign", [id, .str c.name, .bytes digest]⟩ = .arr [.int r, .int s] →
      0 ≤ r → 0 ≤ s → r.toNat < 256 ^ c.size → s.toNat < 256 ^ c.size →
      o ⟨"c01.ecdsa.verify", [.str c.name, .bytes x, .bytes y, .bytes digest,
         .bytes (Bytes.encodeBE c.size r.toNat), .bytes (Bytes.encodeBE c.size s.toNat)]⟩ = .bool true) :
    SignVerifyPair o (.es h c (some id) (some (x, y)) cs true) (.es h c priv' (some (x, y)) cs' true) := by
  intro input sg hs
  rw [es_verify_ok_iff]
  simp only [signKey] at hs
  cases cs
  · simp at hs
  · simp only [Bool.not_true, Bool.false_eq_true, if_false] at hs
    obtain ⟨digest, hd, hs⟩ := PO.run_bind_eq_ok o _ _ _ hs
    have hd' := (askBytes_ok o _ _ _).1 hd
    simp only [PO.run_bind, PO.run_query] at hs
    cases hq : o ⟨"c02.ecdsa.sign", [id, .str c.name, .bytes digest]⟩ with
    | arr l =>
      rw [hq] at hs
      match l, hs with
      | [.int r, .int s], hs =>
        simp only at hs
        by_cases hneg : r < 0 ∨ s < 0
        · simp [hneg] at hs
        · simp only [hneg, if_false] at hs
          by_cases hbig : r.toNat ≥ 256 ^ c.size ∨ s.toNat ≥ 256 ^ c.size
          · simp [hbig] at hs
          · simp only [hbig, if_false, PO.run_pure] at hs
            injection hs with hs
            subst hs
            have hr0 : 0 ≤ r := by omega
            have hs0 : 0 ≤ s := by omega
            have hrl : r.toNat < 256 ^ c.size := by omega
            have hsl : s.toNat < 256 ^ c.size := by omega
            have hlen : (Bytes.encodeBE c.size r.toNat).length = c.size := encodeBE_length _ _
            refine ⟨rfl, x, y, rfl, ?_, digest, hd', ?_⟩
            · simp [encodeBE_length]; omega
            · rw [List.take_left' hlen, List.drop_left' hlen]
              exact law digest r s hq hr0 hs0 hrl hsl
    | _ => simp [hq] at hs

/-- EdDSA/Ed25519: law = `ed25519.Verify(pub, m, ed25519.Sign(priv, m))` for the key pair -/
theorem ed25519_pair (o : Oracle) (priv pub : Bytes) (priv' : Option Bytes) (cs cs' : Bool)
    (hpub : pub.length = 32)
    (law : ∀ m sg, o ⟨"c02.ed25519.sign", [.bytes priv, .bytes m]⟩ = .bytes sg →
      o ⟨"c01.ed25519.verify", [.bytes pub, .bytes m, .bytes sg]⟩ = .bool true) :
    SignVerifyPair o (.ed25519 (some priv) pub cs true) (.ed25519 priv' pub cs' true) := by
  intro input sg hs
  rw [ed25519_verify_ok_iff]
  simp only [signKey] at hs
  cases cs
  · simp at hs
  · simp only [Bool.not_true, Bool.false_eq_true, if_false] at hs
    by_cases hl : (priv.length != 64) = true
    · simp [hl] at hs
    · simp only [hl, Bool.false_eq_true, if_false] at hs
      exact ⟨rfl, hpub, law input sg ((askBytes_ok o _ _ _).1 hs)⟩

/-- EdDSA/Ed448 (the primitive itself is property C13) -/
theorem ed448_pair (o : Oracle) (priv pub : Bytes) (priv' : Option Bytes) (cs cs' : Bool)
    (hpub : pub.length = 57)
    (law : ∀ m sg, o ⟨"c02.ed448.sign", [.bytes priv, .bytes m]⟩ = .bytes sg →
      o ⟨"c01.ed448.verify", [.bytes pub, .bytes m, .bytes sg]⟩ = .bool true) :
    SignVerifyPair o (.ed448 (some priv) pub cs true) (.ed448 priv' pub cs' true) := by
  intro input sg hs
  rw [ed448_verify_ok_iff]
  simp only [signKey] at hs
  cases cs
  · simp at hs
  · simp only [Bool.not_true, Bool.false_eq_true, if_false] at hs
    by_cases hl : (decide (priv.length < 57)) = true
    · simp at hl; simp [hl] at hs
    · simp at hl
      have : ¬ priv.length < 57 := by omega
      simp only [this, if_false] at hs
      exact ⟨rfl, hpub, law input sg ((askBytes_ok o _ _ _).1 hs)⟩

end Model.Sig
