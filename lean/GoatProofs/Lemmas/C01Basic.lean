import Goat.Model.JWS
import Goat.Model.JWT
/-
C01 helper lemmas: characterisation of the oracle helper steps and of `splitDot`.
-/
namespace Model.JWS

theorem splitDot_spec : ∀ (d a b : Bytes), splitDot d = some (a, b) → d = a ++ dot :: b ∧ dot ∉ a := by
  intro d
  induction d with
  | nil => intro a b h; simp [splitDot] at h
  | cons c rest ih =>
    intro a b h
    unfold splitDot at h
    by_cases hc : c = dot
    · simp [hc] at h
      obtain ⟨rfl, rfl⟩ := h
      simp [hc]
    · simp only [hc, if_false] at h
      cases hr : splitDot rest with
      | none => simp [hr] at h
      | some p =>
        obtain ⟨a', b'⟩ := p
        simp [hr] at h
        obtain ⟨rfl, rfl⟩ := h
        obtain ⟨h1, h2⟩ := ih a' b' hr
        refine ⟨by simp [h1], ?_⟩
        intro hm
        cases hm with
        | head => exact hc rfl
        | tail _ hm' => exact h2 hm'

/-- conversely: the split of `a ++ '.' :: b` with no '.' in `a` is `(a, b)` -/
theorem splitDot_append : ∀ (a b : Bytes), dot ∉ a → splitDot (a ++ dot :: b) = some (a, b) := by
  intro a
  induction a with
  | nil => intro b _; simp [splitDot]
  | cons c rest ih =>
    intro b h
    have hc : c ≠ dot := fun e => h (by simp [e])
    have hr : dot ∉ rest := fun e => h (List.mem_cons_of_mem _ e)
    simp [splitDot, hc, ih b hr]

theorem b64Dec?_run (o : Oracle) (src : Bytes) :
    (b64Dec? src).run o = .ok (match o ⟨"b64url.dec", [.bytes src]⟩ with | .bytes b => some b | _ => none) := by
  simp only [b64Dec?, PO.run_bind, PO.run_query]
  split <;> simp_all

theorem b64Decode_ok (o : Oracle) (src b : Bytes) :
    (b64Decode src).run o = .ok b ↔ o ⟨"b64url.dec", [.bytes src]⟩ = .bytes b := by
  simp only [b64Decode, PO.run_bind, b64Dec?_run]
  cases ho : o ⟨"b64url.dec", [.bytes src]⟩ <;> simp

theorem b64Encode_ok (o : Oracle) (src b : Bytes) :
    (b64Encode src).run o = .ok b ↔ o ⟨"b64url.enc", [.bytes src]⟩ = .bytes b := by
  simp only [b64Encode, PO.run_bind, PO.run_query]
  constructor
  · intro h; split at h <;> simp_all
  · intro h; simp [h]

end Model.JWS

/-! ## members are looked up by their exact names -/
namespace Model.JWS
open Gen.Consts

/-- `Wire.lookup` finds a member only under EXACTLY the name asked for: the member it returns is the
    first one whose name equals `k` as a string — no case folding, no trimming, no Unicode
    equivalence (what encoding/json already decoded, e.g. `alg`, IS the name `alg`) -/
theorem lookup_exact (k : String) : ∀ (kvs : List (String × Wire)) (v : Wire), Wire.lookup k kvs = some v →
    ∃ pre post, kvs = pre ++ (k, v) :: post ∧ ∀ kv ∈ pre, kv.1 ≠ k := by
  intro kvs
  induction kvs with
  | nil => intro v h; simp [Wire.lookup] at h
  | cons kv rest ih =>
    intro v h
    obtain ⟨k', v'⟩ := kv
    unfold Wire.lookup at h
    by_cases he : (k == k') = true
    · simp only [he, if_true] at h
      injection h with h; subst h
      have : k = k' := by simpa using he
      subst this
      exact ⟨[], rest, rfl, by intro kv hkv; cases hkv⟩
    · simp only [he, Bool.false_eq_true, if_false] at h
      obtain ⟨pre, post, hp, hn⟩ := ih v h
      refine ⟨(k', v') :: pre, post, by rw [hp]; rfl, ?_⟩
      intro kv hkv
      cases hkv with
      | head => intro hc; apply he; simp only [beq_iff_eq]; exact hc.symm
      | tail _ hm => exact hn kv hm

/-- a member under any OTHER name — however similar — is invisible to a lookup of `k` -/
theorem lookup_cons_ne (k k' : String) (v : Wire) (kvs : List (String × Wire)) (h : k' ≠ k) :
    Wire.lookup k ((k', v) :: kvs) = Wire.lookup k kvs := by
  have : (k == k') = false := by simpa using fun e : k = k' => h e.symm
  simp [Wire.lookup, this]

/-- the names `decodeHeader` asks for -/
def registeredNames : List String :=
  [jwa.AlgorithmKey, jwa.JWKSetURLKey, jwa.JSONWebKey, jwa.X509URLKey, jwa.X509CertificateChainKey,
   jwa.X509CertificateSHA1Thumbprint, jwa.X509CertificateSHA256Thumbprint, jwa.KeyIDKey, jwa.TypeKey,
   jwa.ContentTypeKey, jwa.CriticalKey, jwa.Base64URLEncodePayloadKey]

/-- **the typed header fields depend on the exactly-named members only**: two objects that agree
    under the twelve registered names decode to the same typed fields — whatever other members
    (`ALG`, `B64`, `Kid`, `cri​t`, …) either of them has -/
theorem decodeFields_congr (kvs kvs' : KVs)
    (h : ∀ n ∈ registeredNames, Wire.lookup n kvs' = Wire.lookup n kvs) :
    decodeFields kvs' = decodeFields kvs := by
  have h1 := h jwa.AlgorithmKey (by simp [registeredNames])
  have h2 := h jwa.JWKSetURLKey (by simp [registeredNames])
  have h3 := h jwa.JSONWebKey (by simp [registeredNames])
  have h4 := h jwa.X509URLKey (by simp [registeredNames])
  have h5 := h jwa.X509CertificateChainKey (by simp [registeredNames])
  have h6 := h jwa.X509CertificateSHA1Thumbprint (by simp [registeredNames])
  have h7 := h jwa.X509CertificateSHA256Thumbprint (by simp [registeredNames])
  have h8 := h jwa.KeyIDKey (by simp [registeredNames])
  have h9 := h jwa.TypeKey (by simp [registeredNames])
  have h10 := h jwa.ContentTypeKey (by simp [registeredNames])
  have h11 := h jwa.CriticalKey (by simp [registeredNames])
  have h12 := h jwa.Base64URLEncodePayloadKey (by simp [registeredNames])
  unfold decodeFields getURL getBytes getString getObject getStringArray getBoolean
  simp only [h1, h2, h3, h4, h5, h6, h7, h8, h9, h10, h11, h12]

/-- … in particular an extra member under an unregistered name changes nothing but `Raw` -/
theorem decodeHeader_extra_member (k' : String) (v : Wire) (kvs : KVs) (hk : k' ∉ registeredNames) :
    decodeHeader (.obj ((k', v) :: kvs)) =
      (do let h ← decodeFields kvs; pure { h with raw := .obj ((k', v) :: kvs) } : PO Header) := by
  unfold decodeHeader
  simp only [Wire.asObj]
  rw [decodeFields_congr kvs ((k', v) :: kvs)]
  intro n hn
  exact lookup_cons_ne n k' v kvs (fun e => hk (e ▸ hn))

example : "ALG" ∉ registeredNames := by decide
example : "B64" ∉ registeredNames := by decide
example : "alg " ∉ registeredNames := by decide

end Model.JWS
