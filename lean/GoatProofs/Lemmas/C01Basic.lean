import Goat.Model.JWS
import Goat.Model.JWT
/-
C01 helper lemmas: characterisation of the oracle helper steps and of `splitDot`.
-/
namespace Model.JWS

theorem splitDot_spec : ∀ (d a b : Bytes), splitDot d = some (a, b) → d = a ++ dot :: b ∧ dot ∉ a := by
  intro d
  induction d with
  | nil => intro a b h; simp [splitDot] at h
  | cons c rest ih =>
    intro a b h
    unfold splitDot at h
    by_cases hc : c = dot
    · simp [hc] at h
      obtain ⟨rfl, rfl⟩ := h
      simp [hc]
    · simp only [hc, if_false] at h
      cases hr : splitDot rest with
      | none => simp [hr] at h
      | some p =>
        obtain ⟨a', b'⟩ := p
        simp [hr] at h
        obtain ⟨rfl, rfl⟩ := h
        obtain ⟨h1, h2⟩ := ih a' b' hr
        refine ⟨by simp [h1], ?_⟩
        intro hm
        cases hm with
        | head => exact hc rfl
        | tail _ hm' => exact h2 hm'

/-- conversely: the split of `a ++ '.' :: b` with no '.' in `a` is `(a, b)` -/
theorem splitDot_append : ∀ (a b : Bytes), dot ∉ a → splitDot (a ++ dot :: b) = some (a, b) := by
  intro a
  induction a with
  | nil => intro b _; simp [splitDot]
  | cons c rest ih =>
    intro b h
    have hc : c ≠ dot := fun e => h (by simp [e])
    have hr : dot ∉ rest := fun e => h (List.mem_cons_of_mem _ e)
    simp [splitDot, hc, ih b hr]

theorem b64Dec?_run (o : Oracle) (src : Bytes) :
    (b64Dec? src).run o = .ok (match o ⟨"b64url.dec", [.bytes src]⟩ with | .bytes b => some b | _ => none) := by
  simp only [b64Dec?, PO.run_bind, PO.run_query]
  split <;> simp_all

theorem b64Decode_ok (o : Oracle) (src b : Bytes) :
    (b64Decode src).run o = .ok b ↔ o ⟨"b64url.dec", [.bytes src]⟩ = .bytes b := by
  simp only [b64Decode, PO.run_bind, b64Dec?_run]
  cases ho : o ⟨"b64url.dec", [.bytes src]⟩ <;> simp

theorem b64Encode_ok (o : Oracle) (src b : Bytes) :
    (b64Encode src).run o = .ok b ↔ o ⟨"b64url.enc", [.bytes src]⟩ = .bytes b := by
  simp only [b64Encode, PO.run_bind, PO.run_query]
  constructor
  · intro h; split at h <;> simp_all
  · intro h; simp [h]

end Model.JWS
