import GoatProofs.Lemmas.C13Group
/-
The executable RFC 8032 §5.2.3 decoder of the spec (`Spec.RFC8032.decodePoint`) accepts exactly the
canonical encodings of curve points and returns the encoded point.
-/
namespace C13
open Model.Ed448 Spec.Edwards448 C16Pt Glue
set_option exponentiation.threshold 1000
set_option maxRecDepth 100000

theorem decodeLE_lt (b : Bytes) : Bytes.decodeLE b < 256 ^ b.length := by
  induction b with
  | nil => simp [Bytes.decodeLE]
  | cons x xs ih =>
    simp only [Bytes.decodeLE, List.length_cons, pow_succ]
    have := x.toNat_lt
    omega

theorem decodeLE_encodeLE (n v : ℕ) : Bytes.decodeLE (Bytes.encodeLE n v) = v % 256 ^ n := by
  have h1 := decodeLE_eq (Bytes.encodeLE n v)
  rw [toInts_eq_intsOf, evalLE_eq_evalBytes, (intsOf_encodeLE n v).2] at h1
  exact_mod_cast h1

theorem encodeLE_decodeLE (b : Bytes) : Bytes.encodeLE b.length (Bytes.decodeLE b) = b := by
  apply intsOf_inj
  obtain ⟨l, v⟩ := intsOf_encodeLE b.length (Bytes.decodeLE b)
  apply evalBytes_inj
  · rw [l]; unfold intsOf; simp
  · exact intsOf_allIn _
  · exact intsOf_allIn _
  · rw [v, Nat.mod_eq_of_lt (decodeLE_lt b), decodeLE_eq, toInts_eq_intsOf, evalLE_eq_evalBytes]

/-- the RFC candidate root: if u/v is a square (u = s²v, v ≠ 0) then v·x² = u -/
theorem cand_root (hp : Nat.Prime q) (u v s : F) (hv : v ≠ 0) (hu : u = s ^ 2 * v) :
    v * (u ^ 3 * v * (u ^ 5 * v ^ 3) ^ (2 ^ 446 - 2 ^ 222 - 1)) ^ 2 = u := by
  have : Fact (Nat.Prime q) := ⟨hp⟩
  by_cases hs : s = 0
  · subst hs; simp [hu]
  · have hw : u ^ 5 * v ^ 3 = (s ^ 5 * v ^ 4) ^ 2 := by rw [hu]; ring
    have hne : s ^ 5 * v ^ 4 ≠ 0 := mul_ne_zero (pow_ne_zero _ hs) (pow_ne_zero _ hv)
    have hf : (s ^ 5 * v ^ 4) ^ (q - 1) = 1 := ZMod.pow_card_sub_one_eq_one hne
    have e1 : v * (u ^ 3 * v * (u ^ 5 * v ^ 3) ^ (2 ^ 446 - 2 ^ 222 - 1)) ^ 2 =
        u * ((u ^ 5 * v ^ 3) ^ (2 * (2 ^ 446 - 2 ^ 222 - 1) + 1)) := by
      have ht : (u ^ 5 * v ^ 3) ^ (2 * (2 ^ 446 - 2 ^ 222 - 1) + 1) =
          ((u ^ 5 * v ^ 3) ^ (2 ^ 446 - 2 ^ 222 - 1)) ^ 2 * (u ^ 5 * v ^ 3) := by
        rw [pow_succ, mul_comm 2, pow_mul]
      rw [ht]; ring
    rw [e1, hw, ← pow_mul, show 2 * (2 * (2 ^ 446 - 2 ^ 222 - 1) + 1) = q - 1 by decide +kernel, hf, mul_one]

theorem cand_cast (u v : ℤ) : ((sqrtRatioCandidate u v : ℤ) : F) =
    (u : F) ^ 3 * v * ((u : F) ^ 5 * (v : F) ^ 3) ^ (2 ^ 446 - 2 ^ 222 - 1) := by
  unfold sqrtRatioCandidate
  simp only [cast_emod_p, Int.cast_mul, fpow_cast _ _ (show 2 ^ 446 - 2 ^ 222 - 1 < 2 ^ 448 by decide +kernel)]
  ring

theorem cand_canon (u v : ℤ) : Canon (sqrtRatioCandidate u v) := by
  unfold sqrtRatioCandidate
  exact ⟨Int.emod_nonneg _ (by decide +kernel), Int.emod_lt_of_pos _ (by decide +kernel)⟩

theorem encodePoint_length' (a : AffinePoint) : (Spec.RFC8032.encodePoint a).length = 57 := by
  have := (intsOf_encodeLE 57 (a.y.toNat + 2 ^ 455 * (a.x % 2).toNat)).1
  unfold intsOf at this
  simpa [Spec.RFC8032.encodePoint] using this

theorem p_lt : p < 2 ^ 448 := by decide +kernel
theorem p_odd : p % 2 = 1 := by decide +kernel
theorem p_pos : 0 < p := by decide +kernel

/-- the pieces of `decodePoint` -/
def decN (b : Bytes) : ℕ := Bytes.decodeLE b
def decX0 (b : Bytes) : ℤ := ((decN b / 2 ^ 455 % 2 : ℕ) : ℤ)
def decYv (b : Bytes) : ℤ := ((decN b % 2 ^ 455 : ℕ) : ℤ)
def decU (b : Bytes) : ℤ := (decYv b * decYv b - 1) % p
def decV (b : Bytes) : ℤ := (d * (decYv b * decYv b) - 1) % p
def decC (b : Bytes) : ℤ := sqrtRatioCandidate (decU b) (decV b)

theorem decodePoint_unfold (b : Bytes) (hl : b.length = 57) :
    Spec.RFC8032.decodePoint b =
      if decYv b ≥ p then none
      else if decV b * (decC b * decC b) % p ≠ decU b then none
      else if decC b = 0 ∧ decX0 b = 1 then none
      else if decX0 b ≠ decC b % 2 then some ⟨p - decC b, decYv b⟩
      else some ⟨decC b, decYv b⟩ := by
  unfold Spec.RFC8032.decodePoint
  rw [if_neg (by omega)]
  rfl

/-- facts in the field about the pieces -/
theorem dec_field (b : Bytes) :
    ((decU b : ℤ) : F) = ((decYv b : ℤ) : F) ^ 2 - 1 ∧
    ((decV b : ℤ) : F) = ((decYv b : ℤ) : F) ^ 2 * ((d : ℤ) : F) - 1 := by
  unfold decU decV
  constructor
  · rw [cast_emod_p]; push_cast; ring
  · rw [cast_emod_p]; push_cast; ring

theorem decU_canon (b : Bytes) : decU b % p = decU b := by
  unfold decU; exact Int.emod_emod_of_dvd _ (dvd_refl p)

/-- the check `v·x² = u` of the decoder, in the field -/
theorem dec_check_iff (b : Bytes) :
    decV b * (decC b * decC b) % p = decU b ↔
      ((decV b : ℤ) : F) * (((decC b : ℤ) : F) * ((decC b : ℤ) : F)) = ((decU b : ℤ) : F) := by
  rw [← decU_canon b, emod_eq_iff, decU_canon b]; push_cast; rfl

/-- SOUNDNESS and COMPLETENESS of the spec decoder: it returns `a` exactly on the canonical
    encoding of the curve point `a` -/
theorem decodePoint_iff (hp : Nat.Prime q) (b : Bytes) (a : AffinePoint) :
    Spec.RFC8032.decodePoint b = some a ↔ OnCurve a ∧ b = Spec.RFC8032.encodePoint a := by
  have : Fact (Nat.Prime q) := ⟨hp⟩
  constructor
  · intro h
    have hl : b.length = 57 := by
      by_contra hne
      unfold Spec.RFC8032.decodePoint at h; rw [if_pos hne] at h; cases h
    rw [decodePoint_unfold b hl] at h
    split at h
    · cases h
    next h1 =>
    split at h
    · cases h
    next h2 =>
    split at h
    · cases h
    next h3 =>
    have h2' : decV b * (decC b * decC b) % p = decU b := by by_contra hc; exact h2 hc
    have hchk := (dec_check_iff b).mp h2'
    obtain ⟨fu, fv⟩ := dec_field b
    have hcan : Canon (decC b) := cand_canon (decU b) (decV b)
    have hnlt : decN b < 2 ^ 456 := by
      have := decodeLE_lt b; rw [hl] at this
      unfold decN; calc Bytes.decodeLE b < 256 ^ 57 := this
        _ = 2 ^ 456 := by norm_num
    have hx01 : decX0 b = 0 ∨ decX0 b = 1 := by unfold decX0; omega
    have hy0 : 0 ≤ decYv b := by unfold decYv; omega
    have hylt : decYv b < p := by omega
    -- curve equation for (decC, decYv)
    have hcurve : ((decC b : ℤ) : F) ^ 2 + ((decYv b : ℤ) : F) ^ 2 =
        1 + ((d : ℤ) : F) * ((decC b : ℤ) : F) ^ 2 * ((decYv b : ℤ) : F) ^ 2 := by
      rw [fu, fv] at hchk; linear_combination -hchk
    have hxcases : (decC b = 0 → decX0 b = 0) := by
      intro hc; rcases hx01 with h | h
      · exact h
      · exact absurd ⟨hc, h⟩ h3
    -- the encoding side: b = encodeLE 57 (y + 2^455·x0)
    have henc : ∀ ax : ℤ, ax % 2 = decX0 b →
        b = Spec.RFC8032.encodePoint ⟨ax, decYv b⟩ := by
      intro ax hpar
      unfold Spec.RFC8032.encodePoint
      simp only
      rw [hpar]
      have : (decYv b).toNat + 2 ^ 455 * (decX0 b).toNat = decN b := by
        unfold decYv decX0
        have : decN b / 2 ^ 455 < 2 := by omega
        have e2 : decN b / 2 ^ 455 % 2 = decN b / 2 ^ 455 := Nat.mod_eq_of_lt this
        rw [e2]
        simp only [Int.toNat_natCast]
        have := Nat.div_add_mod (decN b) (2 ^ 455)
        omega
      rw [this]
      unfold decN
      conv_lhs => rw [← encodeLE_decodeLE b, hl]
    split at h
    next h4 =>
      -- negated root
      have ha : a = ⟨p - decC b, decYv b⟩ := (Option.some.inj h).symm
      have hx0 : decC b ≠ 0 := by
        intro hc
        have := hxcases hc
        rw [hc, this] at h4; exact h4 (by decide)
      have hpar : (p - decC b) % 2 = decX0 b := by
        have := p_odd
        rcases hx01 with h | h <;> rw [h] at h4 ⊢ <;> omega
      have c1 : 0 ≤ p - decC b := by have := hcan.2; omega
      have c2 : p - decC b < p := by have := hcan.1; omega
      rw [ha]
      refine ⟨⟨⟨c1, c2⟩, ⟨hy0, hylt⟩, ?_⟩, henc _ hpar⟩
      rw [emod_eq_iff]; push_cast; rw [cast_p]
      linear_combination hcurve
    next h4 =>
      have ha : a = ⟨decC b, decYv b⟩ := (Option.some.inj h).symm
      have hpar : decC b % 2 = decX0 b := by
        by_contra hc; exact h4 (fun e => hc e.symm)
      rw [ha]
      refine ⟨⟨hcan, ⟨hy0, hylt⟩, ?_⟩, henc _ hpar⟩
      rw [emod_eq_iff]; push_cast
      linear_combination hcurve
  · rintro ⟨ha, rfl⟩
    have hl := encodePoint_length' a
    rw [decodePoint_unfold _ hl]
    have ca := onCurve_F ha
    obtain ⟨⟨ax0, ax1⟩, ⟨ay0, ay1⟩, _⟩ := ha
    have hplt := p_lt
    have h01 : a.x % 2 = 0 ∨ a.x % 2 = 1 := by omega
    -- the integer read back
    have hN : decN (Spec.RFC8032.encodePoint a) = a.y.toNat + 2 ^ 455 * (a.x % 2).toNat := by
      unfold decN Spec.RFC8032.encodePoint
      rw [decodeLE_encodeLE]
      apply Nat.mod_eq_of_lt
      have : (256 : ℕ) ^ 57 = 2 ^ 456 := by norm_num
      rw [this]
      rcases h01 with h | h <;> rw [h] <;> simp <;> omega
    have hY : decYv (Spec.RFC8032.encodePoint a) = a.y := by
      unfold decYv; rw [hN]
      rcases h01 with h | h <;> rw [h] <;> simp <;> omega
    have hX0 : decX0 (Spec.RFC8032.encodePoint a) = a.x % 2 := by
      unfold decX0; rw [hN]
      rcases h01 with h | h <;> rw [h] <;> simp <;> omega
    set b := Spec.RFC8032.encodePoint a with hb
    obtain ⟨fu, fv⟩ := dec_field b
    rw [hY] at fu fv
    have hvne : ((decV b : ℤ) : F) ≠ 0 := by rw [fv]; exact den_ne_zero hp _
    have hus : ((decU b : ℤ) : F) = ((a.x : ℤ) : F) ^ 2 * ((decV b : ℤ) : F) := by
      rw [fu, fv]; linear_combination ca
    have hroot := cand_root hp _ _ _ hvne hus
    rw [← cand_cast] at hroot
    have hchk : decV b * (decC b * decC b) % p = decU b := by
      rw [dec_check_iff]; unfold decC; linear_combination hroot
    have hcan : Canon (decC b) := cand_canon (decU b) (decV b)
    have hsq : ((decC b : ℤ) : F) * ((decC b : ℤ) : F) = ((a.x : ℤ) : F) * ((a.x : ℤ) : F) := by
      have : (((decC b : ℤ) : F) * ((decC b : ℤ) : F) - ((a.x : ℤ) : F) * ((a.x : ℤ) : F)) * ((decV b : ℤ) : F) = 0 := by
        unfold decC; linear_combination hroot + hus
      rcases mul_eq_zero.mp this with h | h
      · linear_combination h
      · exact absurd h hvne
    rw [if_neg (by rw [hY]; omega), if_neg (by rw [hchk]; exact fun h => h rfl)]
    have hzero : decC b = 0 → a.x = 0 := by
      intro hc
      rw [hc] at hsq
      have : ((a.x : ℤ) : F) = 0 := by
        have : ((a.x : ℤ) : F) * ((a.x : ℤ) : F) = 0 := by rw [← hsq]; simp
        rcases mul_eq_zero.mp this with h | h <;> exact h
      exact canon_eq_of_cast ⟨ax0, ax1⟩ ⟨le_refl 0, p_pos⟩ (by push_cast; exact this)
    rw [if_neg (by
      rintro ⟨hc, hx⟩
      rw [hX0, hzero hc] at hx; revert hx; decide)]
    rw [hX0, hY]
    by_cases hpar : a.x % 2 = decC b % 2
    · rw [if_neg (fun h => h hpar)]
      have : decC b = a.x := root_parity_unique hp hcan ⟨ax0, ax1⟩ hsq hpar.symm
      rw [this]
    · rw [if_pos hpar]
      have hx0 : decC b ≠ 0 := by
        intro hc
        rw [hc, hzero hc] at hpar; exact hpar rfl
      have hcanN : Canon (p - decC b) := ⟨by have := hcan.2; omega, by have := hcan.1; omega⟩
      have hsqN : (((p - decC b : ℤ) : ℤ) : F) * (((p - decC b : ℤ) : ℤ) : F) = ((a.x : ℤ) : F) * ((a.x : ℤ) : F) := by
        push_cast; rw [cast_p]; linear_combination hsq
      have hparN : (p - decC b) % 2 = a.x % 2 := by have := p_odd; omega
      have : p - decC b = a.x := root_parity_unique hp hcanN ⟨ax0, ax1⟩ hsqN hparN
      rw [this]

end C13
