import GoatProofs.Lemmas.C08RsaMarshal
/-
RSA keys: ParseMap of an object that has the registered members of the spec encoding
(public; private with any number of primes, with or without the CRT members).
-/
namespace C08
open Model.JWK Spec.IANA Gen.Consts

/-- what parseRSAKey makes of an `oth` element -/
def othParsed (t : Nat × Nat × Nat) : Option Nat × Option Nat × Option Nat := (some t.1, some t.2.1, some t.2.2)

theorem run_parseOth (o : Oracle) (L : Laws o) (l : List (Nat × Nat × Nat)) :
    (parseOth (l.map (othElement (encS o)))).run o = .ok (l.map othParsed) := by
  induction l with
  | nil => simp [parseOth]
  | cons t rest ih =>
    obtain ⟨r, d, tt⟩ := t
    simp [parseOth, othElement, parseOthParam, Wire.lookup, run_b64dec_enc o L, minOctets_eq, decodeBE_minBE, ih, othParsed]

theorem run_parseOthMember (o : Oracle) (L : Laws o) (m : Obj) (l : List (Nat × Nat × Nat))
    (h : Wire.lookup "oth" m = if l = [] then none else some (.arr (l.map (othElement (encS o))))) :
    (parseOthMember m).run o = .ok (l.map othParsed) := by
  unfold parseOthMember
  by_cases hl : l = []
  · simp [hl] at h; simp [h, hl]
  · simp only [hl, if_false] at h
    simp only [h]
    exact run_parseOth o L l

theorem allSome_parsed (l : List (Nat × Nat × Nat)) :
    allSome ((l.map othParsed).map (·.1)) = some (l.map (·.1)) := by
  induction l with
  | nil => rfl
  | cons t rest ih => simp [allSome, othParsed, ih] at ih ⊢; simp [allSome, ih]

theorem specOth_fst (crt : List (Nat × Nat × Nat)) (rs : List Nat) (h : crt.length = rs.length) :
    (specOth crt rs).map (·.1) = rs := by
  induction crt generalizing rs with
  | nil => cases rs <;> simp_all [specOth]
  | cons c rest ih =>
    obtain ⟨exp, coeff, r0⟩ := c
    cases rs with
    | nil => simp at h
    | cons r ps => simp [specOth, ih ps (by simpa using h)]

theorem crtList_ok (crt : List (Nat × Nat × Nat)) (rs : List Nat) (h : crt.length = rs.length) :
    crtListMismatch crt ((specOth crt rs).map othParsed) = false := by
  induction crt generalizing rs with
  | nil => cases rs <;> simp_all [specOth, crtListMismatch]
  | cons c rest ih =>
    obtain ⟨exp, coeff, r0⟩ := c
    cases rs with
    | nil => simp at h
    | cons r ps => simp [specOth, crtListMismatch, crtMismatch, othParsed, ih ps (by simpa using h)]

/-- ParseMap of an object with the registered members of an RSA public key -/
theorem parse_rsa_pub (o : Oracle) (L : Laws o) (m extras : Obj) (cp : CP) (n e : Nat)
    (hm : HasMembers o m (.rsa n e none) cp extras) (hcl : Clean extras) (K : CommonOK o cp)
    (hn : 0 < n) (he : 2 ≤ e) (he' : e ≤ 2147483647)
    (hcert : ∀ c0, cp.certs.head? = some c0 → c0.pub = .rsa ⟨n, e⟩) :
    (parseMap m).run o = .ok { cp.key m ktyRSA with pub := .rsa ⟨n, e⟩, priv := .none } := by
  have hdc := run_decodeCommon_members o L m extras _ cp hm hcl K
  have le : Wire.lookup "e" m = some (.str (encS o (minBE e))) := by
    rw [lookup_member o m extras _ cp hm hcl "e" (by decide)]
    simp [materialMembers, Wire.lookup, mN, mE, minOctets_eq]
  have ln : Wire.lookup "n" m = some (.str (encS o (minBE n))) := by
    rw [lookup_member o m extras _ cp hm hcl "n" (by decide)]
    simp [materialMembers, Wire.lookup, mN, minOctets_eq]
  have ld : Wire.lookup "d" m = none := by
    rw [lookup_member o m extras _ cp hm hcl "d" (by decide)]
    simp [materialMembers, Wire.lookup, mN, mE, mD]
  have hcm := run_certMatches o (.rsa ⟨n, e⟩) cp m ktyRSA hcert
  have h0 : ¬ (e ≥ 2 ^ 63 ∨ e = 0) := by omega
  have h1 : n ≠ 0 := by omega
  have h2 : ¬ ((e : Int) < 2 ∨ (e : Int) > 2147483647) := by omega
  rw [parseMap_rsa o m _ hdc rfl]
  unfold parseRsa
  simp only [PO.run_bind, run_mustBigInt o L m "e" _ le, decodeBE_minBE, h0, if_false,
    run_mustBigInt o L m "n" _ ln]
  simp [validateRsaPub, h1, h2, parseRsaPrivOpt, ld, hcm, KeyMaterial.kty]

/-- ParseMap of an object with the registered members of an RSA private key: d, p, q, optionally
    dp/dq/qi (then equal to the recomputed ones), and `oth` for the further primes -/
theorem parse_rsa_priv (o : Oracle) (L : Laws o) (m extras : Obj) (cp : CP) (n e d p q : Nat) (rs : List Nat)
    (crt : Option (Nat × Nat × Nat))
    (hm : HasMembers o m (.rsa n e (some ⟨d, p, q, crt, specOth (rsaPreS o n e d (p :: q :: rs)).crt rs⟩)) cp extras)
    (hcl : Clean extras) (K : CommonOK o cp) (R : RsaOK o n e d p q rs)
    (hlen : (rsaPreS o n e d (p :: q :: rs)).crt.length = rs.length)
    (hcrt : crt = none ∨ crt = some ((rsaPreS o n e d (p :: q :: rs)).dp, (rsaPreS o n e d (p :: q :: rs)).dq,
      (rsaPreS o n e d (p :: q :: rs)).qi))
    (hcert : ∀ c0, cp.certs.head? = some c0 → c0.pub = .rsa ⟨n, e⟩) :
    (parseMap m).run o = .ok { cp.key m ktyRSA with pub := GoPub.rsa ⟨n, e⟩, priv := (GoPriv.rsa ⟨n, e⟩ d (p :: q :: rs) (some (rsaPreS o n e d (p :: q :: rs)))) } := by
  have hdc := run_decodeCommon_members o L m extras _ cp hm hcl K
  have hoth0 : ∀ nm, nm ≠ "oth" → Wire.lookup nm (othMember (encS o) (specOth (rsaPreS o n e d (p :: q :: rs)).crt rs)) = none := by
    intro nm hne; unfold othMember; split <;> simp [Wire.lookup, mOth, hne]
  have le : Wire.lookup "e" m = some (.str (encS o (minBE e))) := by
    rw [lookup_member o m extras _ cp hm hcl "e" (by decide)]
    simp [materialMembers, Wire.lookup, mN, mE, minOctets_eq]
  have ln : Wire.lookup "n" m = some (.str (encS o (minBE n))) := by
    rw [lookup_member o m extras _ cp hm hcl "n" (by decide)]
    simp [materialMembers, Wire.lookup, mN, minOctets_eq]
  have ld : Wire.lookup "d" m = some (.str (encS o (minBE d))) := by
    rw [lookup_member o m extras _ cp hm hcl "d" (by decide)]
    simp [materialMembers, Wire.lookup, mN, mE, mD, minOctets_eq, lookup_append]
  have lp : Wire.lookup "p" m = some (.str (encS o (minBE p))) := by
    rw [lookup_member o m extras _ cp hm hcl "p" (by decide)]
    simp [materialMembers, Wire.lookup, mN, mE, mD, mP, minOctets_eq, lookup_append]
  have lq : Wire.lookup "q" m = some (.str (encS o (minBE q))) := by
    rw [lookup_member o m extras _ cp hm hcl "q" (by decide)]
    simp [materialMembers, Wire.lookup, mN, mE, mD, mP, mQ, minOctets_eq, lookup_append]
  have ldp : Wire.lookup "dp" m = (crt.map fun c => minBE c.1).map (fun b => Wire.str (encS o b)) := by
    rw [lookup_member o m extras _ cp hm hcl "dp" (by decide)]
    cases crt with
    | none => simp [materialMembers, Wire.lookup, mN, mE, mD, mP, mQ, lookup_append, hoth0 "dp" (by decide)]
    | some c => obtain ⟨a, b, c⟩ := c; simp [materialMembers, Wire.lookup, mN, mE, mD, mP, mQ, mDP, minOctets_eq, lookup_append]
  have ldq : Wire.lookup "dq" m = (crt.map fun c => minBE c.2.1).map (fun b => Wire.str (encS o b)) := by
    rw [lookup_member o m extras _ cp hm hcl "dq" (by decide)]
    cases crt with
    | none => simp [materialMembers, Wire.lookup, mN, mE, mD, mP, mQ, lookup_append, hoth0 "dq" (by decide)]
    | some c => obtain ⟨a, b, c⟩ := c; simp [materialMembers, Wire.lookup, mN, mE, mD, mP, mQ, mDP, mDQ, minOctets_eq, lookup_append]
  have lqi : Wire.lookup "qi" m = (crt.map fun c => minBE c.2.2).map (fun b => Wire.str (encS o b)) := by
    rw [lookup_member o m extras _ cp hm hcl "qi" (by decide)]
    cases crt with
    | none => simp [materialMembers, Wire.lookup, mN, mE, mD, mP, mQ, lookup_append, hoth0 "qi" (by decide)]
    | some c => obtain ⟨a, b, c⟩ := c; simp [materialMembers, Wire.lookup, mN, mE, mD, mP, mQ, mDP, mDQ, mQI, minOctets_eq, lookup_append]
  have loth : Wire.lookup "oth" m = if specOth (rsaPreS o n e d (p :: q :: rs)).crt rs = [] then none
      else some (.arr ((specOth (rsaPreS o n e d (p :: q :: rs)).crt rs).map (othElement (encS o)))) := by
    rw [lookup_member o m extras _ cp hm hcl "oth" (by decide)]
    cases crt with
    | none => simp [materialMembers, othMember, Wire.lookup, mN, mE, mD, mP, mQ, mOth, lookup_append]; split <;> simp [Wire.lookup]
    | some c =>
      obtain ⟨a, b, c⟩ := c
      simp [materialMembers, othMember, Wire.lookup, mN, mE, mD, mP, mQ, mDP, mDQ, mQI, mOth, lookup_append]; split <;> simp [Wire.lookup]
  have hcm := run_certMatches o (.rsa ⟨n, e⟩) cp m ktyRSA hcert
  have h0 : ¬ (e ≥ 2 ^ 63 ∨ e = 0) := by have := R.e2; have := R.e31; omega
  have h1 : n ≠ 0 := by have := R.n0; omega
  have h2 : ¬ ((e : Int) < 2 ∨ (e : Int) > 2147483647) := by have := R.e2; have := R.e31; omega
  have hver : (verifyPrecomputed (rsaPreS o n e d (p :: q :: rs)) (crt.map (·.1)) (crt.map (·.2.1)) (crt.map (·.2.2))
      ((specOth (rsaPreS o n e d (p :: q :: rs)).crt rs).map othParsed)).run o = .ok () := by
    unfold verifyPrecomputed
    rw [crtList_ok _ _ hlen]
    rcases hcrt with h | h <;> subst h <;> simp [crtMismatch]
  have hpriv : (parseRsaPriv m ⟨n, e⟩).run o =
      .ok (.rsa ⟨n, e⟩ d (p :: q :: rs) (some (rsaPreS o n e d (p :: q :: rs)))) := by
    unfold parseRsaPriv
    simp only [PO.run_bind, run_mustBigInt o L m "d" _ ld, run_mustBigInt o L m "p" _ lp, run_mustBigInt o L m "q" _ lq,
      decodeBE_minBE, run_parseOthMember o L m _ loth, run_getBigInt_opt o L m "dp" _ ldp,
      run_getBigInt_opt o L m "dq" _ ldq, run_getBigInt_opt o L m "qi" _ lqi, allSome_parsed, specOth_fst _ _ hlen]
    have e1 : (crt.map fun c => minBE c.1).map Bytes.decodeBE = crt.map (·.1) := by cases crt <;> simp [decodeBE_minBE]
    have e2 : (crt.map fun c => minBE c.2.1).map Bytes.decodeBE = crt.map (·.2.1) := by cases crt <;> simp [decodeBE_minBE]
    have e3 : (crt.map fun c => minBE c.2.2).map Bytes.decodeBE = crt.map (·.2.2) := by cases crt <;> simp [decodeBE_minBE]
    simp only [e1, e2, e3, run_validateRsaPriv o n e d p q rs R, run_rsaPrecomputeQ, hver]
    simp
  have hds : (Wire.lookup "d" m).isSome = true := by simp [ld]
  rw [parseMap_rsa o m _ hdc rfl]
  unfold parseRsa
  simp only [PO.run_bind, run_mustBigInt o L m "e" _ le, decodeBE_minBE, h0, if_false,
    run_mustBigInt o L m "n" _ ln]
  simp [validateRsaPub, h1, h2, parseRsaPrivOpt, hds, hpriv, hcm, KeyMaterial.kty]

end C08
