import GoatProofs.Lemmas.C12AKW
import Goat.Model.KW.ECDHES
import Goat.Spec.ConcatKDF
/-
C12, Concat KDF: goat's reader (`kdf.Read` driven by `io.ReadFull`) produces the leftmost octets
of K(1) ‖ K(2) ‖ … of SP 800-56A.
-/
namespace C12L
open Spec Spec.ConcatKDF Model.GoBuf Model.KW.ECDHES

theorem encodeLE_mod (n v : Nat) : Bytes.encodeLE n (v % 256 ^ n) = Bytes.encodeLE n v := by
  induction n generalizing v with
  | zero => rfl
  | succ n ih =>
    simp only [Bytes.encodeLE]
    have h1 : v % 256 ^ (n + 1) % 256 = v % 256 := by
      rw [Nat.pow_succ, Nat.mul_comm]; exact Nat.mod_mul_right_mod v 256 (256 ^ n)
    have h2 : v % 256 ^ (n + 1) / 256 = (v / 256) % 256 ^ n := by
      rw [Nat.pow_succ, Nat.mul_comm]; exact Nat.mod_mul_right_div_self v 256 (256 ^ n)
    rw [h1, h2, ih]

theorem be32_mod (v : Nat) : be32 (v % 2 ^ 32) = be32 v := by
  have : (2 : Nat) ^ 32 = 256 ^ 4 := by decide
  simp only [be32, Bytes.encodeBE, this, encodeLE_mod]

theorem be64_mod (v : Nat) : be64 (v % 2 ^ 64) = be64 v := by
  have : (2 : Nat) ^ 64 = 256 ^ 8 := by decide
  simp only [be64, Bytes.encodeBE, this, encodeLE_mod]

/-- `putUint32` writes the 32-bit big-endian encoding -/
theorem putUint32_eq (v : Nat) : putUint32 v = be32 v := by
  simp only [putUint32, be32, Bytes.encodeBE, Bytes.encodeLE, List.reverse_cons, List.reverse_nil,
    List.nil_append, List.cons_append]
  simp only [ofNat_mod256, Nat.shiftRight_eq_div_pow, Nat.div_div_eq_div_mul]

/-- what one round hashes is `counter ‖ Z ‖ OtherInfo` of the specification -/
theorem roundInput_eq (z alg apu apv : Bytes) (keySize round : Nat) :
    roundInput { z := z, alg := alg, apu := apu, apv := apv,
                 pub := putUint32 (keySize * 8), priv := [] } round
      = be32 round ++ z ++ otherInfo alg apu apv keySize := by
  simp only [roundInput, otherInfo, lenPrefixed, putUint32_eq, be32_mod, List.append_assoc, List.append_nil]

theorem stream_length (H : Bytes → Bytes) (hH : ∀ x, (H x).length = 32) (z info : Bytes) (r : Nat) :
    (stream H z info r).length = 32 * r := by
  induction r with
  | zero => rfl
  | succ r ih =>
    simp only [stream, iterUp] at ih ⊢
    rw [List.length_append, ih, round, hH]; omega

theorem stream_succ (H : Bytes → Bytes) (z info : Bytes) (r : Nat) :
    stream H z info (r + 1) = stream H z info r ++ round H z info (r + 1) := rfl

/-- the loop invariant of `io.ReadFull` over goat's reader (fresh reader: every Read starts a round) -/
theorem readFull_spec (o : Oracle) (c : KDFIn) (info : Bytes)
    (hc : ∀ r, roundInput c r = be32 r ++ c.z ++ info) (want : Nat) :
    ∀ (fuel r : Nat) (st : KDF), st.n = 0 → st.round = r % 2 ^ 32 → 32 * r ≤ want → want - 32 * r < fuel →
      PO.run o (readFull c fuel st want (stream (hashFn o "sha256") c.z info r))
        = .ok ((stream (hashFn o "sha256") c.z info (reps want 32)).take want) := by
  have hH : ∀ x, (hashFn o "sha256" x).length = 32 := fun x => fit_length _ _
  intro fuel
  induction fuel with
  | zero => intro r st _ _ _ h; omega
  | succ fuel ih =>
    intro r st hn hr hle hfuel
    have hlenS := stream_length (hashFn o "sha256") hH c.z info r
    unfold readFull
    by_cases hdone : want ≤ 32 * r
    · -- exactly `want` octets collected
      have hw : want = 32 * r := by omega
      have hreps : reps want 32 = r := by unfold reps; omega
      rw [if_pos (by rw [hlenS]; exact hdone), hreps, List.take_of_length_le (by omega)]
      rfl
    · rw [if_neg (by rw [hlenS]; omega)]
      -- one Read: new round
      have hround : be32 ((st.round + 1) % 2 ^ 32) = be32 (r + 1) := by
        rw [be32_mod, hr, ← be32_mod (r % 2 ^ 32 + 1), Nat.add_mod, Nat.mod_mod, ← Nat.add_mod, be32_mod]
      have hread : PO.run o (read c st (want - 32 * r)) =
          .ok ((round (hashFn o "sha256") c.z info (r + 1)).take (min (want - 32 * r) 32),
               { round := (st.round + 1) % 2 ^ 32, n := 32 - min (want - 32 * r) 32,
                 buf := round (hashFn o "sha256") c.z info (r + 1) }) := by
        have hK : hashFn o "sha256" (roundInput c ((st.round + 1) % 2 ^ 32))
            = round (hashFn o "sha256") c.z info (r + 1) := by
          rw [hc, hround]; rfl
        have hKl := hH (be32 (r + 1) ++ c.z ++ info)
        simp only [Model.KW.ECDHES.read, hn, beq_self_eq_true, if_true, PO.run_bind, run_hashQ, PO.run_pure, hK, hlenS,
          round, hKl, Nat.sub_self, List.drop_zero]
      rw [PO.run_bind, hlenS, hread]
      simp only
      by_cases hfull : 32 ≤ want - 32 * r
      · -- a whole block is consumed: next round
        have hm : min (want - 32 * r) 32 = 32 := by omega
        simp only [hm]
        have hKl : (round (hashFn o "sha256") c.z info (r + 1)).length = 32 := hH _
        rw [List.take_of_length_le (by omega), ← stream_succ]
        apply ih (r + 1)
        · rfl
        · show (st.round + 1) % 2 ^ 32 = (r + 1) % 2 ^ 32
          rw [hr, Nat.add_mod, Nat.mod_mod, ← Nat.add_mod]
        · omega
        · omega
      · -- the last, partial block
        have hm : min (want - 32 * r) 32 = want - 32 * r := by omega
        have hreps : reps want 32 = r + 1 := by unfold reps; omega
        simp only [hm]
        cases fuel with
        | zero => omega
        | succ fuel =>
          unfold readFull
          have hKl : (round (hashFn o "sha256") c.z info (r + 1)).length = 32 := hH _
          have hge : (stream (hashFn o "sha256") c.z info r ++
              (round (hashFn o "sha256") c.z info (r + 1)).take (want - 32 * r)).length ≥ want := by
            rw [List.length_append, hlenS, List.length_take, hKl]; omega
          rw [if_pos hge]
          have ht : List.take want (stream (hashFn o "sha256") c.z info r)
              = stream (hashFn o "sha256") c.z info r := List.take_of_length_le (by rw [hlenS]; exact hle)
          rw [hreps, stream_succ, List.take_append, hlenS, ht]
          rfl

end C12L
