import Goat.Spec.Blocks
/-
Helper lemmas for C12: counted loops (`iterUp` / `iterDown`): splitting, re-indexing, flattening of
nested loops into one loop, and the inverse-loop principle.
-/
namespace C12L
open Spec

theorem iterUp_add {σ : Type} (f : Nat → σ → σ) (a b : Nat) (s : σ) :
    iterUp f (a + b) s = iterUp (fun t => f (a + t)) b (iterUp f a s) := by
  induction b with
  | zero => rfl
  | succ b ih => show f (a + b) (iterUp f (a + b) s) = _; rw [ih]; rfl

theorem iterDown_add {σ : Type} (f : Nat → σ → σ) (a b : Nat) (s : σ) :
    iterDown f (a + b) s = iterDown f a (iterDown (fun t => f (a + t)) b s) := by
  induction b generalizing s with
  | zero => rfl
  | succ b ih => show iterDown f (a + b) (f (a + b) s) = _; rw [ih]; rfl

theorem iterUp_congr {σ : Type} (f g : Nat → σ → σ) (n : Nat) (s : σ)
    (h : ∀ t, t < n → ∀ s, f t s = g t s) : iterUp f n s = iterUp g n s := by
  induction n with
  | zero => rfl
  | succ n ih =>
    simp only [iterUp]
    rw [ih (fun t ht => h t (Nat.lt_succ_of_lt ht)), h n (Nat.lt_succ_self n)]

theorem iterDown_congr {σ : Type} (f g : Nat → σ → σ) (n : Nat) (s : σ)
    (h : ∀ t, t < n → ∀ s, f t s = g t s) : iterDown f n s = iterDown g n s := by
  induction n generalizing s with
  | zero => rfl
  | succ n ih =>
    simp only [iterDown]
    rw [h n (Nat.lt_succ_self n), ih _ (fun t ht => h t (Nat.lt_succ_of_lt ht))]

/-- one loop over `m*n` = `m` outer × `n` inner iterations with index `n*j+i` -/
theorem iterUp_mul {σ : Type} (f : Nat → σ → σ) (m n : Nat) (s : σ) :
    iterUp f (n * m) s = iterUp (fun j s => iterUp (fun i s => f (n * j + i) s) n s) m s := by
  induction m with
  | zero => rfl
  | succ m ih => rw [Nat.mul_succ, iterUp_add, ih]; rfl

theorem iterDown_mul {σ : Type} (f : Nat → σ → σ) (m n : Nat) (s : σ) :
    iterDown f (n * m) s = iterDown (fun j s => iterDown (fun i s => f (n * j + i) s) n s) m s := by
  induction m generalizing s with
  | zero => rfl
  | succ m ih => rw [Nat.mul_succ, iterDown_add, ih]; rfl

/-- shifting: the first iteration peeled off -/
theorem iterUp_succ_left {σ : Type} (f : Nat → σ → σ) (n : Nat) (s : σ) :
    iterUp f (n + 1) s = iterUp (fun t => f (t + 1)) n (f 0 s) := by
  induction n with
  | zero => rfl
  | succ n ih => rw [iterUp, ih]; rfl

/-- an ascending loop with reversed index is the descending loop -/
theorem iterUp_rev {σ : Type} (h : Nat → σ → σ) (n : Nat) (s : σ) :
    iterUp (fun t => h (n - 1 - t)) n s = iterDown h n s := by
  induction n generalizing s with
  | zero => rfl
  | succ n ih =>
    rw [iterUp_succ_left]
    simp only [iterDown, Nat.add_sub_cancel, Nat.sub_zero]
    rw [← ih]
    apply iterUp_congr
    intro t _ s
    have : n - (t + 1) = n - 1 - t := by omega
    rw [this]

/-- the inverse-loop principle: if `g k` undoes `f k` on states satisfying an invariant that `f`
    preserves, the descending `g`-loop undoes the ascending `f`-loop. -/
theorem iterDown_iterUp_inv {σ : Type} (Inv : σ → Prop) (f g : Nat → σ → σ) (n : Nat)
    (hpres : ∀ k, k < n → ∀ s, Inv s → Inv (f k s))
    (hinv : ∀ k, k < n → ∀ s, Inv s → g k (f k s) = s) (s : σ) (hs : Inv s) :
    iterDown g n (iterUp f n s) = s ∧ Inv (iterUp f n s) := by
  induction n with
  | zero => exact ⟨rfl, hs⟩
  | succ n ih =>
    have ⟨h1, h2⟩ := ih (fun k hk => hpres k (Nat.lt_succ_of_lt hk)) (fun k hk => hinv k (Nat.lt_succ_of_lt hk))
    refine ⟨?_, hpres n (Nat.lt_succ_self n) _ h2⟩
    simp only [iterUp, iterDown]
    rw [hinv n (Nat.lt_succ_self n) _ h2, h1]

theorem iterUp_inv {σ : Type} (Inv : σ → Prop) (f : Nat → σ → σ) (n : Nat)
    (hpres : ∀ k, k < n → ∀ s, Inv s → Inv (f k s)) (s : σ) (hs : Inv s) : Inv (iterUp f n s) := by
  induction n with
  | zero => exact hs
  | succ n ih => exact hpres n (Nat.lt_succ_self n) _ (ih (fun k hk => hpres k (Nat.lt_succ_of_lt hk)))

theorem iterDown_inv {σ : Type} (Inv : σ → Prop) (f : Nat → σ → σ) (n : Nat)
    (hpres : ∀ k, k < n → ∀ s, Inv s → Inv (f k s)) (s : σ) (hs : Inv s) : Inv (iterDown f n s) := by
  induction n generalizing s with
  | zero => exact hs
  | succ n ih =>
    exact ih (fun k hk => hpres k (Nat.lt_succ_of_lt hk)) _ (hpres n (Nat.lt_succ_self n) _ hs)

/-- simulation of two loops through a relation -/
theorem iterUp_sim {σ τ : Type} (R : σ → τ → Prop) (f : Nat → σ → σ) (g : Nat → τ → τ) (n : Nat)
    (h : ∀ k, k < n → ∀ s t, R s t → R (f k s) (g k t)) (s : σ) (t : τ) (hst : R s t) :
    R (iterUp f n s) (iterUp g n t) := by
  induction n with
  | zero => exact hst
  | succ n ih => exact h n (Nat.lt_succ_self n) _ _ (ih (fun k hk => h k (Nat.lt_succ_of_lt hk)))

end C12L
