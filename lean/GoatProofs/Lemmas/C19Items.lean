import GoatProofs.Lemmas.C19Epoch
/-
C19 helper lemmas, part 5: what a successful run of each component hands out, in terms of the
draws it appended to the log.
-/
namespace Model.Rand

/-- the content-encryption algorithm an operation works with (for the instance operations: the
    algorithm the instance was created for) -/
def Op.enc? (pre : St) : Op → Option Enc
  | .gcmCEK i => (pre.insts[i]?).map (·.enc)
  | .gcmIV i => (pre.insts[i]?).map (·.enc)
  | .cbcCEK e => some e
  | .cbcIV e => some e
  | .deriveKey _ e => some e
  | .newMessage e => some e
  | .newMessageKW e _ _ => some e
  | _ => none

/-- the header the caller passed -/
def Op.hdr? : Op → Option Hdr
  | .wrapKey _ _ h => some h
  | .newMessageKW _ _ h => some h
  | .encrypt _ _ h => some h
  | _ => none

/-- `b` is the content of a draw of kind `k` among `ds` -/
def Backed (ds : List Draw) (k : Kind) (b : Bytes) : Prop := ∃ d ∈ ds, d.kind = k ∧ d.bytes = b

/-- what is guaranteed about an item handed out by a step that made the draws `ds`, worked with
    content-encryption algorithm `e?` and was given header `h?` -/
def ItemOK (ds : List Draw) (e? : Option Enc) (h? : Option Hdr) : Item → Prop
  | .cek b => Backed ds .cek b ∧ (∀ e, e? = some e → b.length = e.cekSize)
  | .iv b => (∀ e, e? = some e → b.length = e.ivSize) ∧
      ((b.length = 16 ∧ Backed ds .cbcIV b) ∨
       (b.length = 12 ∧ ∃ mask c, b = xorCtr mask c ∧ mask.length = 12 ∧ 1 ≤ c ∧ c < 2 ^ 64 ∧
          (c = 1 → Backed ds .gcmMask mask)))
  | .kwIV b false => b.length = 12 ∧ Backed ds .kwIV b
  | .kwIV b true => ∀ h, h? = some h → h.iv = some b ∧ b.length = 12
  | .salt b false => b.length = 32 ∧ Backed ds .salt b
  | .salt b true => ∀ h, h? = some h → h.p2s = some b
  | .p2c n d => ∀ h, h? = some h → n = (if h.p2c = 0 then 10000 else h.p2c) ∧ d = decide (h.p2c = 0)
  | .cekAgreed n => ∀ e, e? = some e → n = e.cekSize
  | .cekShared _ => True
  | .inst _ => True
  | .msg _ => True

theorem Backed.mono {ds ds' : List Draw} {k : Kind} {b : Bytes} (hsub : ∀ d ∈ ds, d ∈ ds')
    (h : Backed ds k b) : Backed ds' k b := by
  obtain ⟨d, hd, h1, h2⟩ := h
  exact ⟨d, hsub d hd, h1, h2⟩

theorem ItemOK.mono {ds ds' : List Draw} {e? : Option Enc} {h? : Option Hdr} {it : Item}
    (hsub : ∀ d ∈ ds, d ∈ ds') (h : ItemOK ds e? h? it) : ItemOK ds' e? h? it := by
  cases it with
  | cek b => exact ⟨h.1.mono hsub, h.2⟩
  | iv b =>
    refine ⟨h.1, ?_⟩
    rcases h.2 with h2 | h2
    · exact Or.inl ⟨h2.1, h2.2.mono hsub⟩
    · obtain ⟨hl, mask, c, h3, h4, h5, h6, h7⟩ := h2
      exact Or.inr ⟨hl, mask, c, h3, h4, h5, h6, fun hc => (h7 hc).mono hsub⟩
  | kwIV b s =>
    cases s with
    | false => exact ⟨h.1, h.2.mono hsub⟩
    | true => exact h
  | salt b s =>
    cases s with
    | false => exact ⟨h.1, h.2.mono hsub⟩
    | true => exact h
  | p2c n d => exact h
  | cekAgreed n => exact h
  | cekShared _ => trivial
  | inst _ => trivial
  | msg _ => trivial

/-! ### size tables -/

theorem gcm_ivSize {e : Enc} {k : Nat} (h : e.gcmKeyLen? = some k) : e.ivSize = 12 := by
  cases e <;> simp [Enc.gcmKeyLen?] at h <;> rfl

theorem cbc_ivSize {e : Enc} (h : e.gcmKeyLen? = none) : e.ivSize = 16 := by
  cases e <;> simp [Enc.gcmKeyLen?] at h <;> rfl

theorem cbc_cekSize {e : Enc} (h : e.gcmKeyLen? = none) : e.cbcLens.1 + e.cbcLens.2 = e.cekSize := by
  cases e <;> simp [Enc.gcmKeyLen?] at h <;> rfl

theorem cekSize_mod8 (e : Enc) : e.cekSize % 8 = 0 := by cases e <;> rfl

/-! ### components -/

theorem push_log (s : St) (k : Kind) (b : Bytes) : (s.push k b).log = s.log ++ [⟨k, s.pos, b⟩] := rfl

theorem gcmGenerateCEK_ok {o : Oracle} {g g' : Gcm} {s s' : St} {cek : Bytes}
    (h : (gcmGenerateCEK g).run o s = (.ok (g', cek), s')) :
    s' = s.push .cek cek ∧ cek.length = g.keyLen ∧ g' = { g with counter := 0 } := by
  unfold gcmGenerateCEK at h
  obtain ⟨b, s1, h1, h2⟩ := M.run_bind_eq_ok o _ _ _ _ _ h
  obtain ⟨rfl, hl, _⟩ := draw_ok h1
  simp only [M.run_pure, Prod.mk.injEq, Outcome.ok.injEq] at h2
  obtain ⟨⟨rfl, rfl⟩, rfl⟩ := h2
  exact ⟨rfl, hl, rfl⟩

theorem gcmGenerateIV_ok {o : Oracle} {g g' : Gcm} {s s' : St} {iv : Bytes}
    (h : (gcmGenerateIV g).run o s = (.ok (g', iv), s')) :
    (g.counter = 0 ∧ ∃ m, m.length = 12 ∧ s' = s.push .gcmMask m ∧
        g' = { g with mask := m, counter := 1 } ∧ iv = xorCtr m 1) ∨
    (g.counter ≠ 0 ∧ s' = s ∧ (g.counter + 1) % 2 ^ 64 ≠ 0 ∧
        g' = { g with counter := (g.counter + 1) % 2 ^ 64 } ∧
        iv = xorCtr g.mask ((g.counter + 1) % 2 ^ 64)) := by
  unfold gcmGenerateIV at h
  by_cases hc : g.counter = 0
  · left
    simp only [hc, if_true] at h
    obtain ⟨g1, s1, h1, h2⟩ := M.run_bind_eq_ok o _ _ _ _ _ h
    obtain ⟨m, s2, h3, h4⟩ := M.run_bind_eq_ok o _ _ _ _ _ h1
    obtain ⟨rfl, hl, _⟩ := draw_ok h3
    simp only [M.run_pure, Prod.mk.injEq, Outcome.ok.injEq] at h4
    obtain ⟨rfl, rfl⟩ := h4
    simp [gcmFinishIV] at h2
    obtain ⟨⟨rfl, rfl⟩, rfl⟩ := h2
    exact ⟨hc, m, hl, rfl, rfl, rfl⟩
  · right
    simp only [hc, if_false, M.run_bind, M.run_pure] at h
    by_cases hno : (g.counter + 1) % 2 ^ 64 = 0
    · simp [gcmFinishIV, hno] at h
    · simp [gcmFinishIV, hno] at h
      obtain ⟨⟨rfl, rfl⟩, rfl⟩ := h
      exact ⟨hc, rfl, hno, rfl, rfl⟩

theorem new_eq (e : Enc) : e.new = (match e.gcmKeyLen? with
    | some k => EncInst.gcm (Gcm.new e k) | none => EncInst.cbc e) := rfl

/-- `enc.New().GenerateCEK()`: one draw of exactly `CEKSize(enc)` bytes; the instance is still new -/
theorem new_generateCEK_ok {o : Oracle} {e : Enc} {i' : EncInst} {s s' : St} {cek : Bytes}
    (h : (e.new).generateCEK.run o s = (.ok (i', cek), s')) :
    s' = s.push .cek cek ∧ cek.length = e.cekSize ∧ i' = e.new := by
  rw [new_eq] at h ⊢
  cases hk : e.gcmKeyLen? with
  | some k =>
    rw [hk] at h
    simp only [EncInst.generateCEK] at h
    obtain ⟨⟨g', c⟩, s1, h1, h2⟩ := M.run_bind_eq_ok o _ _ _ _ _ h
    obtain ⟨rfl, hl, rfl⟩ := gcmGenerateCEK_ok h1
    simp only [M.run_pure, Prod.mk.injEq, Outcome.ok.injEq] at h2
    obtain ⟨⟨rfl, rfl⟩, rfl⟩ := h2
    exact ⟨rfl, by rw [hl]; exact gcmKeyLen_cekSize hk, rfl⟩
  | none =>
    rw [hk] at h
    simp only [EncInst.generateCEK, cbcGenerateCEK] at h
    obtain ⟨c, s1, h1, h2⟩ := M.run_bind_eq_ok o _ _ _ _ _ h
    obtain ⟨rfl, hl, _⟩ := draw_ok h1
    simp only [M.run_pure, Prod.mk.injEq, Outcome.ok.injEq] at h2
    obtain ⟨⟨rfl, rfl⟩, rfl⟩ := h2
    exact ⟨rfl, by rw [hl]; exact cbc_cekSize hk, rfl⟩

/-- `enc.New().GenerateIV()` on a new instance: CBC — one 16-byte draw; GCM — one 12-byte mask
    draw and the IV is `mask ⊕ be64 1` -/
theorem new_generateIV_ok {o : Oracle} {e : Enc} {i' : EncInst} {s s' : St} {iv : Bytes}
    (h : (e.new).generateIV.run o s = (.ok (i', iv), s')) :
    iv.length = e.ivSize ∧
    ((e.gcmKeyLen? = none ∧ iv.length = 16 ∧ s' = s.push .cbcIV iv ∧ i' = .cbc e) ∨
     (∃ k m, e.gcmKeyLen? = some k ∧ m.length = 12 ∧ iv.length = 12 ∧ s' = s.push .gcmMask m ∧
        iv = xorCtr m 1 ∧ i' = .gcm { Gcm.new e k with mask := m, counter := 1 })) := by
  rw [new_eq] at h
  cases hk : e.gcmKeyLen? with
  | some k =>
    rw [hk] at h
    simp only [EncInst.generateIV] at h
    obtain ⟨⟨g', c⟩, s1, h1, h2⟩ := M.run_bind_eq_ok o _ _ _ _ _ h
    simp only [M.run_pure, Prod.mk.injEq, Outcome.ok.injEq] at h2
    obtain ⟨⟨rfl, rfl⟩, rfl⟩ := h2
    rcases gcmGenerateIV_ok h1 with ⟨_, m, hm, rfl, rfl, rfl⟩ | ⟨hne, _⟩
    · have hl : (xorCtr m 1).length = 12 := xorCtr_length 1 hm
      exact ⟨by rw [hl, gcm_ivSize hk], Or.inr ⟨k, m, rfl, hm, hl, rfl, rfl, rfl⟩⟩
    · exact absurd rfl hne
  | none =>
    rw [hk] at h
    simp only [EncInst.generateIV, cbcGenerateIV] at h
    obtain ⟨c, s1, h1, h2⟩ := M.run_bind_eq_ok o _ _ _ _ _ h
    obtain ⟨rfl, hl, _⟩ := draw_ok h1
    simp only [M.run_pure, Prod.mk.injEq, Outcome.ok.injEq] at h2
    obtain ⟨⟨rfl, rfl⟩, rfl⟩ := h2
    exact ⟨by rw [hl, cbc_ivSize hk], Or.inl ⟨rfl, hl, rfl, rfl⟩⟩

theorem encryptCheck_ok {o : Oracle} {i : EncInst} {a b : Nat} {s s' : St}
    (h : (i.encryptCheck a b).run o s = (.ok (), s')) : s' = s := by
  cases i <;> simp only [EncInst.encryptCheck] at h
  all_goals
    split at h
    · simp at h
    · split at h
      · simp at h
      · simp at h; exact h.symm

/-- `WrapKey`: at most one draw (kwIV 12 or salt 32), items as `ItemOK` says -/
theorem kwWrap_ok {o : Oracle} {kw : KW} {n : Nat} {h h' : Hdr} {items : List Item}
    {s s' : St} (e? : Option Enc) (hr : (kwWrap kw n h).run o s = (.ok (h', items), s')) :
    ∃ ds, s'.log = s.log ++ ds ∧ ∀ it ∈ items, ItemOK ds e? (some h) it := by
  cases kw with
  | akw =>
    simp only [kwWrap] at hr
    split at hr
    · simp at hr
    · simp at hr; obtain ⟨⟨_, rfl⟩, rfl⟩ := hr; exact ⟨[], by simp, by simp⟩
  | gcmkw =>
    simp only [kwWrap] at hr
    split at hr
    · obtain ⟨b, s1, h1, h2⟩ := M.run_bind_eq_ok o _ _ _ _ _ hr
      obtain ⟨rfl, hl, _⟩ := draw_ok h1
      simp at h2
      obtain ⟨⟨_, rfl⟩, rfl⟩ := h2
      refine ⟨[⟨.kwIV, s.pos, b⟩], rfl, ?_⟩
      intro it hit
      simp at hit; subst hit
      exact ⟨hl, ⟨_, List.mem_singleton.mpr rfl, rfl, rfl⟩⟩
    · rename_i hne
      split at hr
      · simp at hr
      · rename_i h12
        simp at hr
        obtain ⟨⟨_, rfl⟩, rfl⟩ := hr
        refine ⟨[], by simp, ?_⟩
        intro it hit
        simp at hit; subst hit
        intro hh hhe
        simp at hhe; subst hhe
        cases hiv : h.iv with
        | none => simp [hiv] at hne
        | some b => simp [hiv] at h12 ⊢; exact h12
  | pbes2 =>
    simp only [kwWrap] at hr
    obtain ⟨⟨h1, sItem⟩, s1, hr1, hr2⟩ := M.run_bind_eq_ok o _ _ _ _ _ hr
    have key : ∃ ds, s1.log = s.log ++ ds ∧ ItemOK ds e? (some h) sItem ∧ h1.p2c = h.p2c := by
      cases hp : h.p2s with
      | some sb =>
        rw [hp] at hr1
        simp at hr1
        obtain ⟨⟨rfl, rfl⟩, rfl⟩ := hr1
        exact ⟨[], by simp, by intro hh hhe; simp at hhe; subst hhe; exact hp, rfl⟩
      | none =>
        rw [hp] at hr1
        obtain ⟨b, s2, h3, h4⟩ := M.run_bind_eq_ok o _ _ _ _ _ hr1
        obtain ⟨rfl, hl, _⟩ := draw_ok h3
        simp at h4
        obtain ⟨⟨rfl, rfl⟩, rfl⟩ := h4
        exact ⟨[⟨.salt, s.pos, b⟩], rfl, ⟨hl, ⟨_, List.mem_singleton.mpr rfl, rfl, rfl⟩⟩, rfl⟩
    obtain ⟨ds, hl, hs, hp2c⟩ := key
    simp only at hr2
    by_cases hz : h1.p2c = 0
    · simp only [hz, if_true] at hr2
      split at hr2
      · simp at hr2
      · simp at hr2
        obtain ⟨⟨_, rfl⟩, rfl⟩ := hr2
        refine ⟨ds, hl, ?_⟩
        intro it hit
        simp at hit
        rcases hit with rfl | rfl
        · exact hs
        · intro hh hhe
          simp at hhe; subst hhe
          rw [hp2c] at hz
          simp [hz, defaultP2C]
    · simp only [hz, if_false] at hr2
      split at hr2
      · simp at hr2
      · simp at hr2
        obtain ⟨⟨_, rfl⟩, rfl⟩ := hr2
        refine ⟨ds, hl, ?_⟩
        intro it hit
        simp at hit
        rcases hit with rfl | rfl
        · exact hs
        · intro hh hhe
          simp at hhe; subst hhe
          rw [hp2c] at hz ⊢
          simp [hz]
  | dir k => simp [kwWrap] at hr; obtain ⟨⟨_, rfl⟩, rfl⟩ := hr; exact ⟨[], by simp, by simp⟩
  | ecdhDirect => simp [kwWrap] at hr; obtain ⟨⟨_, rfl⟩, rfl⟩ := hr; exact ⟨[], by simp, by simp⟩
  | ecdhKW => simp [kwWrap] at hr; obtain ⟨⟨_, rfl⟩, rfl⟩ := hr; exact ⟨[], by simp, by simp⟩
  | invalid => simp [kwWrap] at hr

/-- whether `WrapKey` draws is decided by the header VALUE it is given and by nothing else (the
    state keeps no memory of headers): no `iv` (nil or empty) ⇒ the `iv` handed out is a drawn one;
    no `p2s` ⇒ the salt handed out is a drawn one -/
theorem kwWrap_fresh {o : Oracle} {kw : KW} {n : Nat} {h h' : Hdr} {items : List Item}
    {s s' : St} (hr : (kwWrap kw n h).run o s = (.ok (h', items), s')) :
    (kw = .gcmkw → (h.iv.getD []).length = 0 → ∃ b, items = [.kwIV b false]) ∧
    (kw = .pbes2 → h.p2s = none → ∃ b c, items = [.salt b false, c]) := by
  cases kw with
  | gcmkw =>
    refine ⟨fun _ h0 => ?_, nofun⟩
    simp only [kwWrap, h0, if_true] at hr
    obtain ⟨b, s1, _, h2⟩ := M.run_bind_eq_ok o _ _ _ _ _ hr
    simp at h2
    exact ⟨b, h2.1.2.symm⟩
  | pbes2 =>
    refine ⟨nofun, fun _ hp => ?_⟩
    simp only [kwWrap, hp] at hr
    obtain ⟨⟨h1, sItem⟩, s1, hr1, hr2⟩ := M.run_bind_eq_ok o _ _ _ _ _ hr
    obtain ⟨b, s2, _, h4⟩ := M.run_bind_eq_ok o _ _ _ _ _ hr1
    simp at h4
    obtain ⟨⟨rfl, rfl⟩, rfl⟩ := h4
    simp only at hr2
    split at hr2
    · simp at hr2
    · simp at hr2; exact ⟨b, _, hr2.1.2.symm⟩
  | akw => exact ⟨nofun, nofun⟩
  | dir k => exact ⟨nofun, nofun⟩
  | ecdhDirect => exact ⟨nofun, nofun⟩
  | ecdhKW => exact ⟨nofun, nofun⟩
  | invalid => exact ⟨nofun, nofun⟩

/-- `DeriveKey`: a drawn CEK is one draw of exactly `CEKSize(enc)` bytes; otherwise nothing is drawn -/
theorem kwDerive_ok {o : Oracle} {kw : KW} {e : Enc} {c : CekVal}
    {s s' : St} (h? : Option Hdr) (hr : (kwDerive kw e).run o s = (.ok c, s')) :
    ∃ ds, s'.log = s.log ++ ds ∧ ItemOK ds (some e) h? c.item ∧
      (∀ b, c = .drawn b → c.len = e.cekSize) ∧ (∀ n, c = .agreed n → c.len = e.cekSize) := by
  cases kw with
  | dir k =>
    simp [kwDerive] at hr
    obtain ⟨rfl, rfl⟩ := hr
    exact ⟨[], by simp, trivial, (by intro b hb; cases hb), (by intro b hb; cases hb)⟩
  | ecdhDirect =>
    simp [kwDerive] at hr
    obtain ⟨rfl, rfl⟩ := hr
    refine ⟨[], by simp, ?_, ?_, ?_⟩
    · intro e' he; simp at he; subst he; rfl
    · intro _ h; cases h
    · intro _ _; rfl
  | ecdhKW =>
    simp only [kwDerive] at hr
    obtain ⟨b, s1, h1, h2⟩ := M.run_bind_eq_ok o _ _ _ _ _ hr
    split at h2
    · simp at h2
    · simp at h2
      obtain ⟨rfl, rfl⟩ := h2
      obtain ⟨rfl, hl, _⟩ := draw_ok h1
      refine ⟨[⟨.cek, s.pos, b⟩], rfl, ⟨⟨_, List.mem_singleton.mpr rfl, rfl, rfl⟩, ?_⟩, ?_, ?_⟩
      · intro e' he; simp at he; subst he; exact hl
      · intro _ _; exact hl
      · intro _ h; cases h
  | akw => simp [kwDerive] at hr
  | gcmkw => simp [kwDerive] at hr
  | pbes2 => simp [kwDerive] at hr
  | invalid => simp [kwDerive] at hr

end Model.Rand
