import GoatProofs.Lemmas.GroupRadix16
/-
Lemmas for `nonAdjacentForm` (GRP), part 1: the 64-bit digit buffer represents the scalar, and one
loop iteration extracts `⌊V / 2^pos⌋ mod 2^w` from it (single-word and word-boundary case).
-/
namespace Model.Recode
open Bytes (decodeLE)

/-! ### bytes → words -/

theorem decodeLE_append (a b : Bytes) :
    decodeLE (a ++ b) = decodeLE a + 256 ^ a.length * decodeLE b := by
  induction a with
  | nil => simp [decodeLE]
  | cons x xs ih =>
    simp only [List.cons_append, decodeLE, ih, List.length_cons, Nat.pow_succ]
    ring

theorem decodeLE_lt (a : Bytes) : decodeLE a < 256 ^ a.length := by
  induction a with
  | nil => simp [decodeLE]
  | cons x xs ih =>
    simp only [decodeLE, List.length_cons, Nat.pow_succ]
    have := x.toNat_lt
    omega

theorem decodeLE_take8 (s : Bytes) :
    decodeLE s = decodeLE (s.take 8) + 2 ^ 64 * decodeLE (s.drop 8) := by
  conv_lhs => rw [← List.take_append_drop 8 s]
  rw [decodeLE_append]
  by_cases h : 8 ≤ s.length
  · rw [List.length_take, Nat.min_eq_left h]; norm_num
  · rw [List.drop_eq_nil_of_le (by omega)]; simp [decodeLE]

theorem word64_lt (s : Bytes) (i : Nat) : word64 s i < 2 ^ 64 := by
  unfold word64
  have h := decodeLE_lt ((s.drop (8 * i)).take 8)
  have hl : ((s.drop (8 * i)).take 8).length ≤ 8 := by rw [List.length_take]; omega
  have : (256 : Nat) ^ ((s.drop (8 * i)).take 8).length ≤ 256 ^ 8 := Nat.pow_le_pow_right (by omega) hl
  have h8 : (256 : Nat) ^ 8 = 2 ^ 64 := by norm_num
  omega

/-- value of a little-endian list of 64-bit words -/
def wordsValue : List Nat → Nat
  | [] => 0
  | w :: ws => w + 2 ^ 64 * wordsValue ws

theorem nafWords_eq (s : Bytes) : nafWords s =
    [word64 s 0, word64 s 1, word64 s 2, word64 s 3, word64 s 4, word64 s 5, word64 s 6, 0] := rfl

theorem nafWords_length (s : Bytes) : (nafWords s).length = 8 := rfl

theorem nafWords_lt (s : Bytes) : ∀ x ∈ nafWords s, x < 2 ^ 64 := by
  intro x hx
  rw [nafWords_eq] at hx
  simp only [List.mem_cons, List.not_mem_nil, or_false] at hx
  rcases hx with rfl | rfl | rfl | rfl | rfl | rfl | rfl | rfl <;> first | exact word64_lt _ _ | norm_num

theorem nafWords_value (s : Bytes) (h : s.length = 56) : wordsValue (nafWords s) = decodeLE s := by
  rw [nafWords_eq]
  simp only [wordsValue, word64]
  have h0 := decodeLE_take8 s
  have h1 := decodeLE_take8 (s.drop 8)
  have h2 := decodeLE_take8 (s.drop 16)
  have h3 := decodeLE_take8 (s.drop 24)
  have h4 := decodeLE_take8 (s.drop 32)
  have h5 := decodeLE_take8 (s.drop 40)
  have h6 := decodeLE_take8 (s.drop 48)
  have h7 : decodeLE (s.drop 56) = 0 := by rw [List.drop_eq_nil_of_le (by omega)]; rfl
  simp only [List.drop_drop] at h1 h2 h3 h4 h5 h6
  norm_num at h1 h2 h3 h4 h5 h6 ⊢
  omega

/-- splitting the word list at word `i` -/
theorem wordsValue_split : ∀ (ws : List Nat), (∀ x ∈ ws, x < 2 ^ 64) → ∀ i : Nat,
    wordsValue ws = wordsValue (ws.take i) + 2 ^ (64 * i) * wordsValue (ws.drop i) ∧
      wordsValue (ws.take i) < 2 ^ (64 * i)
  | [], _, i => by simp [wordsValue]
  | w :: ws, h, 0 => by simp [wordsValue]
  | w :: ws, h, i + 1 => by
    obtain ⟨h1, h2⟩ := wordsValue_split ws (fun x hx => h x (List.mem_cons_of_mem _ hx)) i
    have hw := h w (List.mem_cons_self ..)
    have hp : 2 ^ (64 * (i + 1)) = 2 ^ 64 * 2 ^ (64 * i) := by rw [Nat.mul_succ, Nat.pow_add, Nat.mul_comm]
    simp only [List.take_succ_cons, List.drop_succ_cons, wordsValue, hp]
    generalize 2 ^ (64 * i) = P at *
    generalize wordsValue (ws.take i) = A at *
    generalize wordsValue (ws.drop i) = B at *
    constructor
    · rw [h1]; ring
    · have : 2 ^ 64 * (A + 1) ≤ 2 ^ 64 * P := Nat.mul_le_mul_left _ h2
      omega

theorem wordsValue_div (ws : List Nat) (h : ∀ x ∈ ws, x < 2 ^ 64) (i : Nat) :
    wordsValue ws / 2 ^ (64 * i) = wordsValue (ws.drop i) := by
  obtain ⟨h1, h2⟩ := wordsValue_split ws h i
  rw [h1, Nat.add_mul_div_left _ _ (Nat.two_pow_pos _), Nat.div_eq_of_lt h2, Nat.zero_add]

/-! ### extracting a window -/

/-- the window lies inside one word -/
theorem extract_single (lo X b w : Nat) (hbw : b + w ≤ 64) :
    ((lo + 2 ^ 64 * X) / 2 ^ b) % 2 ^ w = (lo / 2 ^ b) % 2 ^ w := by
  have h64 : 2 ^ 64 = 2 ^ b * (2 ^ w * 2 ^ (64 - b - w)) := by
    rw [← Nat.pow_add, ← Nat.pow_add]; congr 1; omega
  rw [h64, Nat.mul_assoc, Nat.add_mul_div_left _ _ (Nat.two_pow_pos _), Nat.mul_assoc,
    Nat.add_mul_mod_self_left]

theorem add_mul_mod_mul (A F E Y : Nat) (hA : A < F) : (A + F * Y) % (F * E) = A + F * (Y % E) := by
  have hE : 0 < E ∨ E = 0 := by omega
  rcases hE with hE | rfl
  · have hY := Nat.div_add_mod Y E
    have h1 : A + F * Y = (A + F * (Y % E)) + (F * E) * (Y / E) := by
      conv_lhs => rw [← hY]
      ring
    have h2 : A + F * (Y % E) < F * E := by
      have : Y % E + 1 ≤ E := Nat.mod_lt _ hE
      have : F * (Y % E + 1) ≤ F * E := Nat.mul_le_mul_left _ this
      have : F * (Y % E + 1) = F * (Y % E) + F := by ring
      omega
    rw [h1, Nat.add_mul_mod_self_left, Nat.mod_eq_of_lt h2]
  · simp

/-- the window straddles a word boundary: Go's `(lo >> b) | (hi << (64-b))` in uint64 -/
theorem extract_double (lo hi R b w : Nat) (hlo : lo < 2 ^ 64) (hb : b ≤ 64) (hw : w ≤ 64) :
    ((lo >>> b) ||| ((hi <<< (64 - b)) % 2 ^ 64)) % 2 ^ w
      = ((lo + 2 ^ 64 * (hi + 2 ^ 64 * R)) / 2 ^ b) % 2 ^ w := by
  have hEF : 2 ^ 64 = 2 ^ (64 - b) * 2 ^ b := by rw [← Nat.pow_add]; congr 1; omega
  have hA : lo / 2 ^ b < 2 ^ (64 - b) := by
    apply Nat.div_lt_of_lt_mul; rw [Nat.mul_comm, ← hEF]; exact hlo
  -- the Go expression is `A + F·(hi mod E)`
  have hgo : (lo >>> b) ||| ((hi <<< (64 - b)) % 2 ^ 64)
      = lo / 2 ^ b + 2 ^ (64 - b) * (hi % 2 ^ b) := by
    rw [Nat.shiftRight_eq_div_pow, Nat.shiftLeft_eq, Nat.mul_comm hi]
    conv_lhs => rw [hEF, Nat.mul_mod_mul_left]
    rw [Nat.or_comm, ← Nat.two_pow_add_eq_or_of_lt hA, Nat.add_comm]
  -- the exact quotient, reduced mod 2^64
  have hq : ((lo + 2 ^ 64 * (hi + 2 ^ 64 * R)) / 2 ^ b) % 2 ^ 64
      = lo / 2 ^ b + 2 ^ (64 - b) * (hi % 2 ^ b) := by
    have h1 : lo + 2 ^ 64 * (hi + 2 ^ 64 * R) = lo + 2 ^ b * (2 ^ (64 - b) * (hi + 2 ^ 64 * R)) := by
      rw [← Nat.mul_assoc, Nat.mul_comm (2 ^ b), ← hEF]
    rw [h1, Nat.add_mul_div_left _ _ (Nat.two_pow_pos _)]
    conv_lhs => rw [hEF]
    rw [add_mul_mod_mul _ _ _ _ hA]
    congr 2
    rw [Nat.mul_comm (2 ^ (64 - b)), Nat.mul_assoc, Nat.add_mul_mod_self_left]
  rw [hgo, ← hq, Nat.mod_mod_of_dvd _ (Nat.pow_dvd_pow 2 hw)]

/-! ### one iteration -/

/-- what one iteration computes, in terms of the scalar value `V` -/
def nafStepSpec (w V pos c : Nat) : NafStep :=
  let window := c + (V / 2 ^ pos) % 2 ^ w
  if window % 2 = 0 then ⟨pos + 1, c, none⟩
  else if window < 2 ^ w / 2 then ⟨pos + w, 0, some (window : Int)⟩
  else ⟨pos + w, 1, some ((window : Int) - 2 ^ w)⟩

theorem wrapI8_window_small (w window : Nat) (hw8 : w ≤ 8) (h : window < 2 ^ w / 2) :
    wrapI8 (window : Int) = window := by
  have : 2 ^ w ≤ 2 ^ 8 := Nat.pow_le_pow_right (by omega) hw8
  apply wrapI8_of_range <;> omega

theorem wrapI8_window_large (w window : Nat) (hw2 : 2 ≤ w) (hw8 : w ≤ 8) (h1 : ¬ window < 2 ^ w / 2)
    (h2 : window ≤ 2 ^ w) :
    wrapI8 (wrapI8 (window : Int) - wrapI8 ((2 ^ w : Nat) : Int)) = (window : Int) - 2 ^ w := by
  have : w = 2 ∨ w = 3 ∨ w = 4 ∨ w = 5 ∨ w = 6 ∨ w = 7 ∨ w = 8 := by omega
  rcases this with rfl | rfl | rfl | rfl | rfl | rfl | rfl <;>
    (norm_num at h1 h2 ⊢; unfold wrapI8; omega)

theorem nafStep_eq (w : Nat) (hw2 : 2 ≤ w) (hw8 : w ≤ 8) (ws : List Nat) (hlen : ws.length = 8)
    (hws : ∀ x ∈ ws, x < 2 ^ 64) (pos c : Nat) (hpos : pos < 448) (hc : c ≤ 1) :
    nafStep w ws pos c = .ok (nafStepSpec w (wordsValue ws) pos c) := by
  have hi : pos / 64 < ws.length := by omega
  have hi1 : pos / 64 + 1 < ws.length := by omega
  -- the word list from word `pos/64` on
  have hdrop : ws.drop (pos / 64) = ws[pos / 64] :: ws[pos / 64 + 1] :: ws.drop (pos / 64 + 1 + 1) := by
    rw [List.drop_eq_getElem_cons hi, List.drop_eq_getElem_cons hi1]
  have hlo : ws[pos / 64] < 2 ^ 64 := hws _ (List.getElem_mem _)
  -- V / 2^pos in terms of these words
  have hV : wordsValue ws / 2 ^ pos
      = (ws[pos / 64] + 2 ^ 64 * (ws[pos / 64 + 1] + 2 ^ 64 * wordsValue (ws.drop (pos / 64 + 1 + 1))))
        / 2 ^ (pos % 64) := by
    have hp : 2 ^ pos = 2 ^ (64 * (pos / 64)) * 2 ^ (pos % 64) := by
      rw [← Nat.pow_add, Nat.div_add_mod]
    rw [hp, ← Nat.div_div_eq_div_mul, wordsValue_div ws hws, hdrop]
    rfl
  -- the masked bit buffer
  have hmask : ∀ x : Nat, x &&& (2 ^ w - 1) = x % 2 ^ w := fun x => Nat.and_two_pow_sub_one_eq_mod x w
  have hwin : ∀ bitBuf : Nat, bitBuf % 2 ^ w = (wordsValue ws / 2 ^ pos) % 2 ^ w →
      (let window := c + (bitBuf &&& (2 ^ w - 1))
       if window &&& 1 = 0 then (Outcome.ok ⟨pos + 1, c, none⟩ : Outcome NafStep)
       else if window < 2 ^ w / 2 then .ok ⟨pos + w, 0, some (wrapI8 window)⟩
       else .ok ⟨pos + w, 1, some (wrapI8 (wrapI8 window - wrapI8 ((2 ^ w : Nat) : Int)))⟩)
      = .ok (nafStepSpec w (wordsValue ws) pos c) := by
    intro bitBuf hb
    simp only [hmask, hb, Nat.and_one_is_mod, nafStepSpec]
    have hlt : (wordsValue ws / 2 ^ pos) % 2 ^ w < 2 ^ w := Nat.mod_lt _ (Nat.two_pow_pos _)
    split
    · rfl
    · split
      · rename_i h; rw [wrapI8_window_small w _ hw8 h]
      · rename_i h; rw [wrapI8_window_large w _ hw2 hw8 h (by omega)]
  unfold nafStep
  simp only [List.getElem?_eq_getElem hi]
  by_cases hb : pos % 64 < 64 - w
  · simp only [hb, if_true]
    apply hwin
    rw [hV, Nat.shiftRight_eq_div_pow, extract_single _ _ _ _ (by omega)]
  · simp only [hb, if_false]
    have : ws[1 + pos / 64]? = some ws[pos / 64 + 1] := by
      rw [Nat.add_comm 1]; exact List.getElem?_eq_getElem hi1
    simp only [this]
    apply hwin
    rw [hV, extract_double _ _ _ _ _ hlo (by omega) (by omega)]

end Model.Recode
