/-
  Pocklington / Brillhart–Lehmer–Selfridge certificates (partial factorization of `N - 1`).

  For a number `N` whose `N - 1` has a cofactor that cannot itself be certified (its own `q - 1`
  resists factorization), only a completely factored part `F ∣ N - 1` with `F³ > N` (roughly) is
  needed.  `tools/primecert.py` falls back to such an entry automatically; with the factorizations
  now known every target has a pure Pratt certificate, and the entries of this kind are the
  REDUNDANT second certificates `altCerts` (`Primes.lean`).

  * `pock_step`   — Pocklington: `a ^ (N-1) = 1`, `gcd (a ^ ((N-1)/q) - 1, N) = 1`, `q ^ e ∣ N - 1`
                    ⇒ every prime divisor `r` of `N` has `q ^ e ∣ r - 1`;
  * `bls_prime`   — if every prime divisor of `N = F·R + 1` is `≡ 1 (mod F)`, `R < F²`, and there
                    are no `x, y ≥ 1` with `x + y = R % F`, `x·y = R / F`, then `N` is prime;
  * `Cert`, `checkCerts`, `checkCerts_sound` — the combined checker (Pratt entries from
    `PrimesCert.lean` and Pocklington entries in one dependency-ordered list).
-/
import GoatProofs.Lemmas.PrimesCert
import Mathlib.FieldTheory.Finite.Basic

namespace GoatProofs.Primes

/-! ### Pocklington -/

theorem pock_step {N r q e a : ℕ} (hN : 1 < N) (hr : r.Prime) (hrN : r ∣ N) (hq : q.Prime)
    (he : 0 < e) (hqe : q ^ e ∣ N - 1)
    (h1 : powMod a (N - 1) N = 1)
    (hg : Nat.gcd (powMod a ((N - 1) / q) N + (N - 1)) N = 1) :
    q ^ e ∣ r - 1 := by
  have := Fact.mk hr
  have := Fact.mk hq
  have hA1 : (a : ZMod r) ^ (N - 1) = 1 := by
    rw [powMod_eq] at h1
    have h2 : a ^ (N - 1) ≡ 1 [MOD N] := by rw [Nat.ModEq, h1, Nat.mod_eq_of_lt hN]
    have h3 := (ZMod.natCast_eq_natCast_iff _ _ _).2 (h2.of_dvd hrN)
    simpa using h3
  have hA2 : (a : ZMod r) ^ ((N - 1) / q) ≠ 1 := by
    intro h
    have h' : a ^ ((N - 1) / q) ≡ 1 [MOD r] := by
      apply (ZMod.natCast_eq_natCast_iff _ _ _).1; simpa using h
    have ht : powMod a ((N - 1) / q) N ≡ 1 [MOD r] := by
      rw [powMod_eq]; exact ((Nat.mod_modEq _ _).of_dvd hrN).trans h'
    have hdiv : r ∣ powMod a ((N - 1) / q) N + (N - 1) := by
      have h2 : powMod a ((N - 1) / q) N + (N - 1) ≡ 1 + (N - 1) [MOD r] := ht.add_right _
      rw [show 1 + (N - 1) = N by omega] at h2
      exact (Nat.modEq_zero_iff_dvd).1 (h2.trans ((Nat.modEq_zero_iff_dvd).2 hrN))
    have h3 := Nat.dvd_gcd hdiv hrN
    rw [hg] at h3
    exact hr.one_lt.ne' (Nat.dvd_one.1 h3)
  obtain ⟨M, hM⟩ := hqe
  obtain ⟨e', rfl⟩ : ∃ e', e = e' + 1 := ⟨e - 1, by omega⟩
  have hdivq : (N - 1) / q = M * q ^ e' := by
    rw [hM, pow_succ, show q ^ e' * q * M = (M * q ^ e') * q by ring]
    exact Nat.mul_div_cancel _ hq.pos
  have hb1 : ((a : ZMod r) ^ M) ^ q ^ (e' + 1) = 1 := by
    rw [← pow_mul, mul_comm, ← hM]; exact hA1
  have hb2 : ¬ ((a : ZMod r) ^ M) ^ q ^ e' = 1 := by
    rw [← pow_mul, ← hdivq]; exact hA2
  have hord : orderOf ((a : ZMod r) ^ M) = q ^ (e' + 1) := orderOf_eq_prime_pow hb2 hb1
  have hb0 : (a : ZMod r) ^ M ≠ 0 := by
    intro h0
    rw [h0, zero_pow (pow_pos hq.pos _).ne'] at hb1
    exact zero_ne_one hb1
  rw [← hord]
  exact orderOf_dvd_of_pow_eq_one (ZMod.pow_card_sub_one_eq_one hb0)

/-! ### The Brillhart–Lehmer–Selfridge cube-root bound -/

theorem bls_prime {N F R : ℕ} (hN : N = F * R + 1) (hN1 : 1 < N) (hF : 1 < F) (hR : R < F * F)
    (hpock : ∀ r, r.Prime → r ∣ N → r % F = 1)
    (hsq : ∀ x y : ℕ, 1 ≤ x → 1 ≤ y → x + y = R % F → x * y = R / F → False) : N.Prime := by
  by_contra hnp
  have hF0 : 0 < F := by omega
  have hr : (N.minFac).Prime := Nat.minFac_prime (by omega)
  obtain ⟨v, hv⟩ := Nat.minFac_dvd N
  set r := N.minFac with hrdef
  have hr1 : r % F = 1 := hpock r hr ⟨v, hv⟩
  have hv1 : 1 < v := by
    rcases Nat.lt_or_ge 1 v with h | h
    · exact h
    · exfalso
      interval_cases v
      · omega
      · rw [mul_one] at hv; exact hnp (hv ▸ hr)
  have hNF : N % F = 1 := by
    rw [hN, Nat.mul_add_mod]; exact Nat.mod_eq_of_lt hF
  have hvF : v % F = 1 := by
    have h := hNF
    rw [hv, Nat.mul_mod, hr1, one_mul, Nat.mod_mod] at h
    exact h
  obtain ⟨x, hrx⟩ : ∃ x, r = F * x + 1 := ⟨r / F, by have := Nat.div_add_mod r F; omega⟩
  obtain ⟨y, hvy⟩ : ∃ y, v = F * y + 1 := ⟨v / F, by have := Nat.div_add_mod v F; omega⟩
  have hx : 1 ≤ x := by
    rcases Nat.eq_zero_or_pos x with h | h
    · rw [h] at hrx; have := hr.one_lt; omega
    · exact h
  have hy : 1 ≤ y := by
    rcases Nat.eq_zero_or_pos y with h | h
    · rw [h] at hvy; omega
    · exact h
  have hRxy : R = F * (x * y) + (x + y) := by
    have h1 : F * R + 1 = (F * x + 1) * (F * y + 1) := by rw [← hN, hv, ← hrx, ← hvy]
    have h2 : F * R = F * (F * (x * y) + (x + y)) := by
      have : (F * x + 1) * (F * y + 1) = F * (F * (x * y) + (x + y)) + 1 := by ring
      omega
    exact Nat.eq_of_mul_eq_mul_left hF0 h2
  have hxyF : x * y < F := by
    by_contra h
    have h' : F ≤ x * y := Nat.le_of_not_lt h
    have : F * F ≤ F * (x * y) := Nat.mul_le_mul_left F h'
    omega
  have hsum : x + y ≤ x * y + 1 := by
    obtain ⟨x', rfl⟩ : ∃ x', x = x' + 1 := ⟨x - 1, by omega⟩
    obtain ⟨y', rfl⟩ : ∃ y', y = y' + 1 := ⟨y - 1, by omega⟩
    have : (x' + 1) * (y' + 1) = x' * y' + x' + y' + 1 := by ring
    omega
  have hsumF : x + y < F := by
    rcases Nat.lt_or_ge (x + y) F with h | h
    · exact h
    · exfalso
      have h1 : x * y = F - 1 := by omega
      have h2 : F * (x * y) + F = F * F := by
        rw [h1]
        obtain ⟨F', rfl⟩ : ∃ F', F = F' + 1 := ⟨F - 1, by omega⟩
        simp only [Nat.add_sub_cancel]; ring
      omega
  refine hsq x y hx hy ?_ ?_
  · rw [hRxy, Nat.mul_add_mod, Nat.mod_eq_of_lt hsumF]
  · rw [hRxy, Nat.mul_add_div hF0, Nat.div_eq_of_lt hsumF, add_zero]

/-! ### Pocklington certificate entries -/

/-- Each `qᵢ ^ eᵢ` is coprime to the product of the later ones. -/
def coprimeFs : List (Nat × Nat) → Bool
  | [] => true
  | (q, e) :: fs => (Nat.gcd (q ^ e) (prodFs fs) == 1) && coprimeFs fs

theorem prodFs_dvd_of_forall {fs : List (Nat × Nat)} (hc : coprimeFs fs = true) {m : ℕ}
    (h : ∀ f ∈ fs, f.1 ^ f.2 ∣ m) : prodFs fs ∣ m := by
  induction fs with
  | nil => simp [prodFs]
  | cons f fs ih =>
    obtain ⟨q, e⟩ := f
    simp only [coprimeFs, Bool.and_eq_true, beq_iff_eq] at hc
    exact Nat.Coprime.mul_dvd_of_dvd_of_dvd hc.1 (h (q, e) (by simp))
      (ih hc.2 (fun f hf => h f (List.mem_cons_of_mem _ hf)))

theorem pow_dvd_prodFs {fs : List (Nat × Nat)} : ∀ f ∈ fs, f.1 ^ f.2 ∣ prodFs fs := by
  induction fs with
  | nil => intro f hf; cases hf
  | cons g fs ih =>
    obtain ⟨q, e⟩ := g
    intro f hf
    rcases List.mem_cons.1 hf with rfl | hf
    · exact Dvd.intro _ rfl
    · exact Dvd.dvd.mul_left (ih f hf) _

/-- Certificate that `t² − c₁ t + c₂` has no roots `x, y ≥ 1` in ℕ: `c₂ = 0`, or negative
discriminant, or `s² < c₁² − 4c₂ < (s+1)²`. -/
def noSplit (c1 c2 s : Nat) : Bool :=
  c2 == 0 || decide (c1 * c1 < 4 * c2)
    || (decide (s * s < c1 * c1 - 4 * c2) && decide (c1 * c1 - 4 * c2 < (s + 1) * (s + 1)))

theorem noSplit_sound {c1 c2 s : Nat} (h : noSplit c1 c2 s = true) (x y : ℕ) (hx : 1 ≤ x)
    (hy : 1 ≤ y) (h1 : x + y = c1) (h2 : x * y = c2) : False := by
  subst h1 h2
  simp only [noSplit, Bool.or_eq_true, beq_iff_eq, decide_eq_true_eq, Bool.and_eq_true] at h
  wlog hxy : x ≤ y generalizing x y
  · exact this y x hy hx (by rwa [add_comm y x, mul_comm y x]) (by omega)
  obtain ⟨d, rfl⟩ := Nat.exists_eq_add_of_le hxy
  have hid : (x + (x + d)) * (x + (x + d)) = 4 * (x * (x + d)) + d * d := by ring
  rcases h with (h | h) | ⟨ha, hb⟩
  · have : 0 < x * (x + d) := Nat.mul_pos (by omega) (by omega)
    omega
  · omega
  · rw [hid, Nat.add_sub_cancel_left] at ha hb
    have h3 : s < d := Nat.mul_self_lt_mul_self_iff.1 ha
    have h4 : d < s + 1 := Nat.mul_self_lt_mul_self_iff.1 hb
    omega

/-- One Pocklington/BLS entry: `fs` is the completely factored part `F` of `p - 1`, `a` the
witness, `s` the integer square root used by `noSplit`. -/
structure PockCert where
  p : Nat
  a : Nat
  fs : List (Nat × Nat)
  s : Nat

def checkPock (known : List Nat) (c : PockCert) : Bool :=
  let N := c.p
  let F := prodFs c.fs
  let R := (N - 1) / F
  decide (1 < N) && decide (1 < F) && ((N - 1) % F == 0) && coprimeFs c.fs
    && c.fs.all (fun f => (f.1 == 2 || known.contains f.1) && decide (0 < f.2))
    && (powMod c.a (N - 1) N == 1)
    && c.fs.all (fun f => Nat.gcd (powMod c.a ((N - 1) / f.1) N + (N - 1)) N == 1)
    && decide (R < F * F) && noSplit (R % F) (R / F) c.s

theorem checkPock_sound {known : List Nat} (hk : ∀ q ∈ known, q.Prime) {c : PockCert}
    (h : checkPock known c = true) : c.p.Prime := by
  simp only [checkPock, Bool.and_eq_true, decide_eq_true_eq, beq_iff_eq, List.all_eq_true,
    Bool.or_eq_true, List.contains_iff_mem] at h
  obtain ⟨⟨⟨⟨⟨⟨⟨⟨hN, hF⟩, hdvd⟩, hcop⟩, hfs⟩, hone⟩, hgcd⟩, hR⟩, hns⟩ := h
  have hFd : prodFs c.fs ∣ c.p - 1 := Nat.dvd_of_mod_eq_zero hdvd
  have hNeq : c.p = prodFs c.fs * ((c.p - 1) / prodFs c.fs) + 1 := by
    rw [Nat.mul_div_cancel' hFd]; omega
  refine bls_prime hNeq hN hF hR ?_ (noSplit_sound hns)
  intro r hr hrN
  have hFr : prodFs c.fs ∣ r - 1 := by
    refine prodFs_dvd_of_forall hcop ?_
    intro f hf
    have hq : f.1.Prime := by
      rcases (hfs f hf).1 with h2 | hmem
      · rw [h2]; exact Nat.prime_two
      · exact hk _ hmem
    exact pock_step hN hr hrN hq (hfs f hf).2 ((pow_dvd_prodFs f hf).trans hFd) hone (hgcd f hf)
  obtain ⟨k, hk'⟩ := hFr
  have : r = prodFs c.fs * k + 1 := by have := hr.one_lt; omega
  rw [this, Nat.mul_add_mod]
  exact Nat.mod_eq_of_lt hF

/-! ### Lists of certificates -/

inductive Cert where
  | pratt (c : PrattCert)
  | pock (c : PockCert)

def Cert.p : Cert → Nat
  | .pratt c => c.p
  | .pock c => c.p

def checkCert (known : List Nat) : Cert → Bool
  | .pratt c => checkOne known c
  | .pock c => checkPock known c

/-- Check a list of entries in dependency order. -/
def checkCertsAux : List Nat → List Cert → Bool
  | _, [] => true
  | known, c :: cs => checkCert known c && checkCertsAux (c.p :: known) cs

def checkCerts (cs : List Cert) : Bool := checkCertsAux [] cs

/-- `n` is the subject of one of the entries. -/
def certifies (cs : List Cert) (n : Nat) : Bool := (cs.map Cert.p).contains n

theorem checkCert_sound {known : List Nat} (hk : ∀ q ∈ known, q.Prime) {c : Cert}
    (h : checkCert known c = true) : c.p.Prime := by
  cases c with
  | pratt c => exact checkOne_sound hk h
  | pock c => exact checkPock_sound hk h

theorem checkCertsAux_sound {known : List Nat} (hk : ∀ q ∈ known, q.Prime) {cs : List Cert}
    (h : checkCertsAux known cs = true) : ∀ c ∈ cs, c.p.Prime := by
  induction cs generalizing known with
  | nil => intro c hc; cases hc
  | cons c cs ih =>
    simp only [checkCertsAux, Bool.and_eq_true] at h
    have hc : c.p.Prime := checkCert_sound hk h.1
    intro c' hc'
    rcases List.mem_cons.1 hc' with rfl | hmem
    · exact hc
    · refine ih (known := c.p :: known) ?_ h.2 c' hmem
      intro q hq
      rcases List.mem_cons.1 hq with rfl | hq
      · exact hc
      · exact hk q hq

/-- **Soundness of the certificate checker.** -/
theorem checkCerts_sound {cs : List Cert} (h : checkCerts cs = true) (n : Nat)
    (hn : certifies cs n = true) : n.Prime := by
  simp only [certifies, List.contains_iff_mem, List.mem_map] at hn
  obtain ⟨c, hc, rfl⟩ := hn
  exact checkCertsAux_sound (known := []) (by intro q hq; cases hq) h c hc

end GoatProofs.Primes
