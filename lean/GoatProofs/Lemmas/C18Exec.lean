import GoatProofs.Reflect.Sound
/-
Generic facts about the two concrete semantics of `Reflect.Prog` used by C18 / C15:
reading the defining equation of a single SSA variable (`xval_at`), prefixes (`xval_take`), and
the relation between machine outputs and variable values.  (Own helper file of C18; nothing here
changes the checker.)
-/
namespace C18X
open Reflect

/-- value of variable `i` in the machine (`mach = true`) or ideal (`mach = false`) run -/
def xval (mach : Bool) (P : Prog) (ins : List Int) (i : Nat) : Int :=
  cget (P.run mach ins) (P.nIn + P.body.length) i

theorem xval_false (P : Prog) (ins : List Int) : xval false P ins = P.val ins := rfl

theorem outputs_eq (mach : Bool) (P : Prog) (ins : List Int) :
    P.outputs mach ins = P.outs.map (xval mach P ins) := rfl

theorem exec_append (mach signed : Bool) : ∀ (pre post : List Op) (tr : List Int) (n : Nat),
    exec mach signed (pre ++ post) tr n = exec mach signed post (exec mach signed pre tr n) (n + pre.length) := by
  intro pre
  induction pre with
  | nil => intro post tr n; rfl
  | cons op pre ih =>
    intro post tr n
    simp only [List.cons_append, exec, List.length_cons]
    rw [ih post _ (n + 1)]; congr 1; omega

/-- every op reads only earlier variables -/
def opsLt : Nat → List Op → Prop
  | _, [] => True
  | n, op :: rest => operandsLt n op ∧ opsLt (n + 1) rest

instance (n : Nat) (op : Op) : Decidable (operandsLt n op) := by
  cases op <;> simp only [operandsLt] <;> infer_instance

instance : ∀ (n : Nat) (ops : List Op), Decidable (opsLt n ops)
  | _, [] => isTrue trivial
  | n, op :: rest =>
    have := instDecidableOpsLt (n + 1) rest
    by simp only [opsLt]; infer_instance

theorem opsLt_append : ∀ (pre : List Op) (op : Op) (post : List Op) (n : Nat),
    opsLt n (pre ++ op :: post) → operandsLt (n + pre.length) op := by
  intro pre
  induction pre with
  | nil => intro op post n h; exact h.1
  | cons p pre ih =>
    intro op post n h
    have := ih op post (n + 1) h.2
    simpa [Nat.add_assoc, Nat.add_comm 1] using this

/-- the defining equation of variable `nIn + i` -/
theorem xval_at (mach : Bool) (P : Prog) (hwf : opsLt P.nIn P.body) (ins : List Int) (i : Nat)
    (hi : i < P.body.length) :
    xval mach P ins (P.nIn + i) = evalOp mach P.signed (xval mach P ins) (P.body.getD i (.const 0)) := by
  have hsplit : P.body = P.body.take i ++ (P.body[i] :: P.body.drop (i + 1)) := by
    rw [List.getElem_cons_drop, List.take_append_drop]
  have hl : (P.body.take i).length = i := by simp; omega
  have hop : operandsLt (P.nIn + i) P.body[i] := by
    have := opsLt_append (P.body.take i) P.body[i] (P.body.drop (i + 1)) P.nIn (by rw [← hsplit]; exact hwf)
    rwa [hl] at this
  have hget : P.body.getD i (.const 0) = P.body[i] := by
    rw [List.getD_eq_getElem?_getD, List.getElem?_eq_getElem hi]; rfl
  rw [hget]
  unfold xval Prog.run
  have hlen : P.nIn + P.body.length = P.nIn + i + (P.body[i] :: P.body.drop (i + 1)).length := by
    simp; omega
  -- the whole run = run of the suffix on the trace of the prefix
  have hrun : exec mach P.signed P.body ins.reverse P.nIn
      = exec mach P.signed (P.body[i] :: P.body.drop (i + 1))
          (exec mach P.signed (P.body.take i) ins.reverse P.nIn) (P.nIn + i) := by
    conv_lhs => rw [hsplit, exec_append, hl]
  rw [hrun, hlen, exec_at]
  apply evalOp_congr mach P.signed _ _ (P.nIn + i) _ hop
  intro j hj
  rw [← hlen, ← hrun]
  rw [hrun, hlen, exec_suffix mach P.signed _ _ (P.nIn + i) j hj]

/-- a program cut after `k` ops computes the same values for the variables it still has (both semantics) -/
theorem xval_take (mach : Bool) (P : Prog) (ins : List Int) (k i : Nat) (hk : k ≤ P.body.length)
    (hi : i < P.nIn + k) : xval mach (P.take k) ins i = xval mach P ins i := by
  have hsplit : P.body = P.body.take k ++ P.body.drop k := (List.take_append_drop k P.body).symm
  unfold xval Prog.run Prog.take
  simp only
  have hl : (P.body.take k).length = k := by simp [hk]
  conv_rhs => rw [hsplit, exec_append]
  rw [hl]
  have := exec_suffix mach P.signed (P.body.drop k)
    (exec mach P.signed (P.body.take k) ins.reverse P.nIn) (P.nIn + k) i hi
  rw [show P.nIn + (List.take k P.body ++ List.drop k P.body).length = P.nIn + k + (P.body.drop k).length by
    simp; omega]
  rw [this]

/-- inputs are read back unchanged -/
theorem xval_input (mach : Bool) (P : Prog) (ins : List Int) (hlen : ins.length = P.nIn) (i : Nat) (hi : i < P.nIn) :
    xval mach P ins i = ins.getD i 0 := by
  unfold xval Prog.run
  rw [exec_suffix mach P.signed P.body ins.reverse P.nIn i hi]
  unfold cget; exact getD_reverse ins 0 P.nIn i hlen hi

/-- machine values of a prefix on which a check succeeded are the ideal values of the whole program -/
theorem xval_true_of_take (P : Prog) (cfg : Cfg) (ins : List Int) (k i : Nat) (hk : k ≤ P.body.length)
    (hi : i < P.nIn + k) (g : Guarantee (P.take k) cfg ins) :
    xval true P ins i = (P.take k).val ins i := by
  rw [← xval_take true P ins k i hk hi]
  unfold xval
  rw [g.noOverflow]; rfl

/-! ### reading single ops -/

theorem const_at (mach : Bool) (P : Prog) (hwf : opsLt P.nIn P.body) (ins : List Int) (i : Nat) (k : Int)
    (hi : i < P.body.length) (hs : P.signed = false) (hop : P.body.getD i (.const 0) = .const k)
    (hk : 0 ≤ k ∧ k < 2 ^ 64) : xval mach P ins (P.nIn + i) = k := by
  rw [xval_at mach P hwf ins i hi, hop, hs]
  cases mach
  · rfl
  · simp only [evalOp, wrap, if_true, Bool.false_eq_true, if_false]
    exact Int.emod_eq_of_lt hk.1 (by rw [W64_eq]; exact hk.2)

theorem carry_at (mach : Bool) (P : Prog) (hwf : opsLt P.nIn P.body) (ins : List Int) (i a b c : Nat)
    (hi : i < P.body.length) (hop : P.body.getD i (.const 0) = .carry a b c) :
    xval mach P ins (P.nIn + i) = (xval mach P ins a + xval mach P ins b + xval mach P ins c) / 2 ^ 64 := by
  rw [xval_at mach P hwf ins i hi, hop]; rfl

theorem add64_at (mach : Bool) (P : Prog) (hwf : opsLt P.nIn P.body) (ins : List Int) (i a b c : Nat) (q : Option Nat)
    (hi : i < P.body.length) (hop : P.body.getD i (.const 0) = .add64 a b c q) :
    xval mach P ins (P.nIn + i) = (xval mach P ins a + xval mach P ins b + xval mach P ins c) % 2 ^ 64 := by
  rw [xval_at mach P hwf ins i hi, hop]; rfl

theorem borrow_at (mach : Bool) (P : Prog) (hwf : opsLt P.nIn P.body) (ins : List Int) (i a b c : Nat)
    (hi : i < P.body.length) (hop : P.body.getD i (.const 0) = .borrow a b c) :
    xval mach P ins (P.nIn + i) = -((xval mach P ins a - xval mach P ins b - xval mach P ins c) / 2 ^ 64) := by
  rw [xval_at mach P hwf ins i hi, hop]; rfl

/-- machine meaning of a plain `+` (wraps) in an unsigned program -/
theorem add_at_mach (P : Prog) (hwf : opsLt P.nIn P.body) (ins : List Int) (i a b : Nat)
    (hi : i < P.body.length) (hs : P.signed = false) (hop : P.body.getD i (.const 0) = .add a b) :
    xval true P ins (P.nIn + i) = (xval true P ins a + xval true P ins b) % 2 ^ 64 := by
  rw [xval_at true P hwf ins i hi, hop, hs]; rfl


/-! ### treating the first `k` ops as inputs (for ops the abstract interpreter cannot bound tightly) -/

/-- the same program with its first `k` variables-by-ops declared as inputs (indices are absolute, so
    nothing is renumbered) -/
def dropProg (P : Prog) (k : Nat) : Prog := { P with nIn := P.nIn + k, body := P.body.drop k }

/-- the values of the inputs and of the first `k` ops, in variable order -/
def prefTrace (mach : Bool) (P : Prog) (k : Nat) (ins : List Int) : List Int :=
  (exec mach P.signed (P.body.take k) ins.reverse P.nIn).reverse

theorem run_drop (mach : Bool) (P : Prog) (k : Nat) (ins : List Int) (hk : k ≤ P.body.length) :
    (dropProg P k).run mach (prefTrace mach P k ins) = P.run mach ins := by
  unfold Prog.run dropProg prefTrace
  simp only [List.reverse_reverse]
  have hsplit : P.body = P.body.take k ++ P.body.drop k := (List.take_append_drop k P.body).symm
  conv_rhs => rw [hsplit, exec_append]
  have hl : (P.body.take k).length = k := by simp [hk]
  rw [hl]

theorem outputs_drop (mach : Bool) (P : Prog) (k : Nat) (ins : List Int) (hk : k ≤ P.body.length) :
    (dropProg P k).outputs mach (prefTrace mach P k ins) = P.outputs mach ins := by
  unfold Prog.outputs
  rw [run_drop mach P k ins hk]
  have : (dropProg P k).nIn + (dropProg P k).body.length = P.nIn + P.body.length := by
    simp [dropProg]; omega
  rw [this]; rfl

end C18X
