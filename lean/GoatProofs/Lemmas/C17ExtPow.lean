import GoatProofs.Lemmas.C17ExtBits
import Mathlib.FieldTheory.Finite.Basic
import Mathlib.Tactic.Ring
import Mathlib.Tactic.NormNum
/-
Powers: `Cong` is closed under powers, n-fold squaring, the exponent bookkeeping of the Power446
addition chain, and the bridge `Cong ↔ equality in ZMod p` used for the statements that need
primality (kept as an explicit hypothesis everywhere).
-/
namespace C17Ext
open C17 Model.Fe448 Model.Fe448Ext
set_option exponentiation.threshold 2000

/-- the field prime as a natural number -/
def p448 : Nat := 2 ^ 448 - 2 ^ 224 - 1

theorem p448_cast : ((p448 : Nat) : Int) = P := by decide
theorem p448_mod4 : p448 % 4 = 3 := by decide
theorem p448_gt : 3 < p448 := by decide

theorem _root_.C17.Cong.pow {a b : Int} (h : Cong a b) (n : Nat) : Cong (a ^ n) (b ^ n) := by
  induction n with
  | zero => simp only [pow_zero]; exact Cong.refl 1
  | succ n ih => rw [pow_succ, pow_succ]; exact Cong.mul ih h

theorem _root_.C17.Cong.symm {a b : Int} (h : Cong a b) : Cong b a := by
  unfold Cong at *
  have : b - a = -(a - b) := by ring
  rw [this]; exact (Int.dvd_neg).mpr h

theorem cong_emod (x : Int) : Cong (x % P) x := by
  unfold Cong
  have : x % P - x = P * (-(x / P)) := by
    have := Int.emod_add_mul_ediv x P
    linarith
  rw [this]; exact Dvd.intro _ rfl

theorem cong_iff_emod (x y : Int) : Cong x y ↔ x % P = y % P := by
  unfold Cong
  constructor
  · intro h; exact Int.emod_eq_emod_iff_emod_sub_eq_zero.mpr (Int.emod_eq_zero_of_dvd h)
  · intro h; exact Int.dvd_of_emod_eq_zero (Int.emod_eq_emod_iff_emod_sub_eq_zero.mp h)

theorem rep_congr {v : Limbs} {x y : Int} (h : Rep v x) (e : x = y) : Rep v y := e ▸ h

theorem rep_cong {v : Limbs} {x y : Int} (h : Rep v x) (e : Cong x y) : Rep v y := ⟨h.1, Cong.trans h.2 e⟩

/-- n successive squarings raise to the power 2^n -/
theorem sqn_rep {v : Limbs} {x : Int} (n : Nat) (h : Rep v x) : Rep (sqn n v) (x ^ (2 ^ n)) := by
  induction n generalizing v x with
  | zero => simpa [sqn] using h
  | succ n ih =>
    have := ih (square_rep h)
    refine rep_congr this ?_
    rw [← pow_two, ← pow_mul, pow_succ']

theorem sqn_inv {v : Limbs} (n : Nat) (h : C17.Inv v) : C17.Inv (sqn n v) := by
  induction n generalizing v with
  | zero => exact h
  | succ n ih => exact ih (square_spec v h).1

theorem chain_exp (a b : Nat) : (2 ^ a - 1) * 2 ^ b + (2 ^ b - 1) = 2 ^ (a + b) - 1 := by
  have h1 : 1 ≤ 2 ^ a := Nat.one_le_two_pow
  have h2 : 1 ≤ 2 ^ b := Nat.one_le_two_pow
  have h3 : 2 ^ (a + b) = 2 ^ a * 2 ^ b := pow_add 2 a b
  have h4 : (2 ^ a - 1) * 2 ^ b = 2 ^ a * 2 ^ b - 2 ^ b := by rw [Nat.sub_mul, Nat.one_mul]
  have h5 : 2 ^ b ≤ 2 ^ a * 2 ^ b := Nat.le_mul_of_pos_left _ (by omega)
  rw [h3, h4]; omega

/-- one link of the addition chain: from x^(2^a − 1) and x^(2^b − 1) to x^(2^(a+b) − 1) -/
theorem chain_step {v w : Limbs} {x : Int} {a b : Nat} (hv : Rep v (x ^ (2 ^ a - 1))) (hw : Rep w (x ^ (2 ^ b - 1))) :
    Rep (mul (sqn b v) w) (x ^ (2 ^ (a + b) - 1)) := by
  refine rep_congr (mul_rep (sqn_rep b hv) hw) ?_
  rw [← pow_mul, ← pow_add, chain_exp]

/-- the same with the loop shape of the Go code: `t.Square(&v); for i := 1; i < b+1; i++ { t.Square(&t) }` -/
theorem chain_step2 {v w : Limbs} {x : Int} {a b : Nat} (hv : Rep v (x ^ (2 ^ a - 1))) (hw : Rep w (x ^ (2 ^ (b + 1) - 1))) :
    Rep (mul (sqn b (square v)) w) (x ^ (2 ^ (a + (b + 1)) - 1)) := chain_step (b := b + 1) hv hw

theorem chain_step3 {v w : Limbs} {x : Int} {a : Nat} (hv : Rep v (x ^ (2 ^ a - 1))) (hw : Rep w (x ^ (2 ^ 3 - 1))) :
    Rep (mul (square (square (square v))) w) (x ^ (2 ^ (a + 3) - 1)) := chain_step (b := 3) hv hw

theorem chain_one {v w : Limbs} {x : Int} {a : Nat} (hv : Rep v (x ^ (2 ^ a - 1))) (hw : Rep w (x ^ (2 ^ 1 - 1))) :
    Rep (mul (square v) w) (x ^ (2 ^ (a + 1) - 1)) := chain_step (b := 1) hv hw

theorem sqn_rep2 {v : Limbs} {x : Int} (n : Nat) (h : Rep v x) : Rep (sqn n (square v)) (x ^ (2 ^ (n + 1))) :=
  sqn_rep (n + 1) h

/-! ### ZMod bridge (used only where primality is assumed) -/

theorem cong_iff_zmod (a b : Int) : Cong a b ↔ ((a : ZMod p448) = (b : ZMod p448)) := by
  rw [ZMod.intCast_eq_intCast_iff_dvd_sub, p448_cast]
  unfold Cong
  have : b - a = -(a - b) := by ring
  rw [this, Int.dvd_neg]

/-- Fermat's little theorem in the shape used by `Inv` -/
theorem fermat_aux {p : Nat} [Fact p.Prime] (x : ZMod p) (hx : ¬ x = 0) (n : Nat) (hn : n + 1 = p - 1) :
    x * x ^ n = 1 := by
  rw [← pow_succ', hn]; exact ZMod.pow_card_sub_one_eq_one hx

/-- the square-root candidate r = a·(a·b)^e with 2(2e+1) = p − 1 satisfies r²·b = a whenever a = s²·b, b ≠ 0 -/
theorem sqrt_aux {p : Nat} [Fact p.Prime] (S Bv : ZMod p) (hb : ¬ Bv = 0) (e : Nat) (he : 2 * (2 * e + 1) = p - 1) :
    S * S * Bv * (S * S * Bv * Bv) ^ e * (S * S * Bv * (S * S * Bv * Bv) ^ e) * Bv = S * S * Bv := by
  by_cases hS : S = 0
  · subst hS; ring
  · have hSB : S * Bv ≠ 0 := mul_ne_zero hS hb
    have hf := ZMod.pow_card_sub_one_eq_one hSB
    have : S * S * Bv * (S * S * Bv * Bv) ^ e * (S * S * Bv * (S * S * Bv * Bv) ^ e) * Bv
        = S * S * Bv * (S * Bv) ^ (2 * (2 * e + 1)) := by ring
    rw [this, he, hf, mul_one]

end C17Ext
