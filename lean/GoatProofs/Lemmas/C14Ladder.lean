import GoatProofs.Lemmas.C14Bytes
/-
The loop invariant of the Montgomery ladder: the five limb variables of the Go loop represent the
five residues of the RFC's loop, and the pending swap bit agrees.
-/
namespace C14
open C17 C17Ext Glue Model.Fe448 Model.Fe448Ext Model.X448 Spec.RFC7748
set_option exponentiation.threshold 2000

theorem p_eq : Spec.RFC7748.p = P := rfl

/-! ### GF(p) operations of the spec vs limb operations -/

theorem cong_mod (x : Int) : Cong x (x % p) := Cong.symm (cong_emod x)

theorem add_rep' {a b : Limbs} {x y : Int} (ha : Rep a x) (hb : Rep b y) : Rep (add a b) (fadd x y) :=
  rep_cong (add_rep ha hb) (cong_mod _)
theorem sub_rep' {a b : Limbs} {x y : Int} (ha : Rep a x) (hb : Rep b y) : Rep (sub a b) (fsub x y) :=
  rep_cong (sub_rep ha hb) (cong_mod _)
theorem mul_rep' {a b : Limbs} {x y : Int} (ha : Rep a x) (hb : Rep b y) : Rep (mul a b) (fmul x y) :=
  rep_cong (mul_rep ha hb) (cong_mod _)
/-- the same with the factors in the other order (`z3.Mul(&z3, &x1)` vs the RFC's `x_1 * (…)`) -/
theorem mul_rep_c {a b : Limbs} {x y : Int} (ha : Rep a x) (hb : Rep b y) : Rep (mul a b) (fmul y x) := by
  have := mul_rep' ha hb
  unfold fmul at *; rwa [Int.mul_comm y x]
theorem add_rep_c {a b : Limbs} {x y : Int} (ha : Rep a x) (hb : Rep b y) : Rep (add a b) (fadd y x) := by
  have := add_rep' ha hb
  unfold fadd at *; rwa [Int.add_comm y x]
theorem sq_rep' {a : Limbs} {x : Int} (ha : Rep a x) : Rep (square a) (fsq x) :=
  rep_cong (square_rep ha) (cong_mod _)
/-- `z2.Mul32(&e, 39081)` is the RFC's `a24 * E` -/
theorem mul32_rep' {a : Limbs} {x : Int} (ha : Rep a x) : Rep (mul32 a 39081) (fmul a24 x) := by
  have := rep_cong (mul32_rep 39081 ha (by decide) (by decide)) (cong_mod _)
  unfold fmul a24; rwa [Int.mul_comm 39081 x]

/-- binary exponentiation of the spec is exponentiation modulo p -/
theorem fpowAux_cong : ∀ (fuel : Nat) (b : Int) (e : Nat), e ≤ fuel → Cong (fpowAux fuel b e) (b ^ e) := by
  intro fuel
  induction fuel with
  | zero => intro b e he; have : e = 0 := by omega
            subst this; show Cong 1 (b ^ 0); rw [pow_zero]; exact Cong.refl _
  | succ f ih =>
    intro b e he
    unfold fpowAux
    by_cases h0 : e = 0
    · subst h0; simp only [if_true, pow_zero]; exact Cong.refl _
    · simp only [if_neg h0]
      have hh : Cong (fpowAux f (fsq b) (e / 2)) ((b * b) ^ (e / 2)) :=
        Cong.trans (ih (fsq b) (e / 2) (by omega)) (Cong.pow (cong_emod (b * b)) _)
      have hsplit : e = 2 * (e / 2) + e % 2 := by omega
      by_cases h1 : e % 2 = 1
      · simp only [if_pos h1]
        have : b ^ e = b * (b * b) ^ (e / 2) := by
          conv_lhs => rw [hsplit, h1]
          rw [pow_succ, pow_mul, pow_two]; ring
        rw [this]
        exact Cong.trans (cong_emod _) (Cong.mul (Cong.refl b) hh)
      · simp only [if_neg h1]
        have : b ^ e = (b * b) ^ (e / 2) := by
          conv_lhs => rw [hsplit, (by omega : e % 2 = 0)]
          rw [Nat.add_zero, pow_mul, pow_two]
        rw [this]; exact hh

theorem fpow_cong (b : Int) (e : Nat) : Cong (fpow b e) (b ^ e) := fpowAux_cong e b e (Nat.le_refl _)

/-! ### conditional swap -/

theorem swap_rel {a b : Limbs} {x y : Int} {c c' : Nat} (hc : c ≤ 1) (he : c = c') (ha : Rep a x) (hb : Rep b y) :
    Rep (swap a b (Int.ofNat c)).1 (cswap c' x y).1 ∧ Rep (swap a b (Int.ofNat c)).2 (cswap c' x y).2 := by
  subst he
  obtain ⟨s1, s0⟩ := swap_spec a b ha.1 hb.1
  have : c = 0 ∨ c = 1 := by omega
  rcases this with h | h <;> subst h
  · show Rep (swap a b 0).1 _ ∧ Rep (swap a b 0).2 _
    rw [s0]; exact ⟨ha, hb⟩
  · show Rep (swap a b 1).1 _ ∧ Rep (swap a b 1).2 _
    rw [s1]; exact ⟨hb, ha⟩

/-! ### the loop invariant -/

structure LRel (m : LState) (s : State) : Prop where
  x1 : Rep m.x1 s.x1
  x2 : Rep m.x2 s.x2
  z2 : Rep m.z2 s.z2
  x3 : Rep m.x3 s.x3
  z3 : Rep m.z3 s.z3
  swap : m.swap = s.swap
  swap01 : m.swap ≤ 1

theorem and_one_le (n : Nat) : n &&& 1 ≤ 1 := by rw [Nat.and_one_is_mod]; omega

theorem xor_le_one {a b : Nat} (ha : a ≤ 1) (hb : b ≤ 1) : a ^^^ b ≤ 1 := by
  have h1 : a = 0 ∨ a = 1 := by omega
  have h2 : b = 0 ∨ b = 1 := by omega
  rcases h1 with h | h <;> rcases h2 with h' | h' <;> subst h <;> subst h' <;> decide

/-- one loop iteration preserves the invariant, provided the model reads the same scalar bit as the spec -/
theorem ladderStep_rel (k : List Nat) (kN : Nat) (t : Nat) (hbit : bitAt k t = (kN >>> t) &&& 1)
    {m : LState} {s : State} (h : LRel m s) : LRel (ladderStep k m t) (step kN s t) := by
  have hkt : bitAt k t ≤ 1 := and_one_le _
  have hc : m.swap ^^^ bitAt k t ≤ 1 := xor_le_one h.swap01 hkt
  have hsw : m.swap ^^^ bitAt k t = s.swap ^^^ ((kN >>> t) &&& 1) := by rw [h.swap, hbit]
  obtain ⟨hx2, hx3⟩ := swap_rel hc hsw h.x2 h.x3
  obtain ⟨hz2, hz3⟩ := swap_rel hc hsw h.z2 h.z3
  have hA := add_rep' hx2 hz2
  have hAA := sq_rep' hA
  have hB := sub_rep' hx2 hz2
  have hBB := sq_rep' hB
  have hE := sub_rep' hAA hBB
  have hC := add_rep' hx3 hz3
  have hD := sub_rep' hx3 hz3
  have hDA := mul_rep' hD hA
  have hCB := mul_rep' hC hB
  have hX3 := sq_rep' (add_rep' hDA hCB)
  have hZ3 := mul_rep_c (sq_rep' (sub_rep' hDA hCB)) h.x1
  have hX2 := mul_rep' hAA hBB
  have hZ2 := mul_rep_c (add_rep_c (mul32_rep' hE) hAA) hE
  exact ⟨h.x1, hX2, hZ2, hX3, hZ3, hbit, hkt⟩

theorem ladder_rel (k : List Nat) (kN : Nat) (ts : List Nat)
    (hbit : ∀ t ∈ ts, bitAt k t = (kN >>> t) &&& 1) :
    ∀ {m : LState} {s : State}, LRel m s → LRel (ts.foldl (ladderStep k) m) (ts.foldl (step kN) s) := by
  induction ts with
  | nil => intro m s h; exact h
  | cons t rest ih =>
    intro m s h
    exact ih (fun t' ht' => hbit t' (List.mem_cons_of_mem _ ht'))
      (ladderStep_rel k kN t (hbit t List.mem_cons_self) h)

/-! ### the clamped scalar -/

theorem clamp_eq (l : List Nat) : clamp l = clampList l := rfl

theorem clamp_length (l : List Nat) : (clamp l).length = l.length := by simp [clamp]

theorem clamp_lt (l : List Nat) (hl : ∀ x ∈ l, x < 256) : ∀ x ∈ clamp l, x < 256 := by
  intro x hx
  unfold clamp at hx
  simp only at hx
  have h128 : ∀ y, y < 256 → y ||| 128 < 256 := fun y hy =>
    Nat.or_lt_two_pow (n := 8) hy (by decide)
  have h252 : ∀ y, y < 256 → y &&& 252 < 256 := fun y hy => Nat.lt_of_le_of_lt Nat.and_le_left hy
  have hget : ∀ (l' : List Nat) (i : Nat), (∀ z ∈ l', z < 256) → l'.getD i 0 < 256 := by
    intro l' i hl'
    rw [List.getD_eq_getElem?_getD]
    by_cases hi : i < l'.length
    · rw [List.getElem?_eq_getElem hi]; exact hl' _ (List.getElem_mem hi)
    · rw [List.getElem?_eq_none (by omega)]; decide
  have hl1 : ∀ z ∈ l.set 0 (l.getD 0 0 &&& 252), z < 256 := by
    intro z hz
    rcases List.mem_or_eq_of_mem_set hz with h | h
    · exact hl z h
    · rw [h]; exact h252 _ (hget l 0 hl)
  rcases List.mem_or_eq_of_mem_set hx with h | h
  · exact hl1 x h
  · rw [h]; exact h128 _ (hget _ 55 hl1)

theorem indices_lt : ∀ t ∈ Model.X448.indices, t < 448 := by
  intro t ht
  simp only [Model.X448.indices, List.mem_reverse, List.mem_range] at ht
  omega

theorem indices_eq : Model.X448.indices = Spec.RFC7748.indices := rfl

end C14
