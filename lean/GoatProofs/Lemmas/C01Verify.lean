import GoatProofs.Lemmas.C01Basic
import GoatProofs.Lemmas.C01Sig
/-
C01 — the verification loop: what a success of `verify` / `verifyContent` means.
-/
namespace Model.JWS

theorem jsonDecodeMap_ok (o : Oracle) (data : Bytes) (raw : Wire) :
    (jsonDecodeMap data).run o = .ok raw →
      o ⟨"json.decodeMap", [.bytes data]⟩ = raw ∧ (raw = .null ∨ ∃ kvs, raw = .obj kvs) := by
  simp only [jsonDecodeMap, PO.run_bind, PO.run_query]
  cases ho : o ⟨"json.decodeMap", [.bytes data]⟩ <;> simp
  · intro h; exact ⟨h, Or.inl h.symm⟩
  · intro h; exact ⟨h, Or.inr ⟨_, h.symm⟩⟩

theorem decodeHeader_raw (o : Oracle) (raw : Wire) (h : Header) :
    (decodeHeader raw).run o = .ok h → h.raw = raw := by
  intro hr
  unfold decodeHeader at hr
  obtain ⟨h0, _, h2⟩ := PO.run_bind_eq_ok o _ _ _ hr
  simp at h2
  rw [← h2]

/-- `hdr` is what goat decodes from the base64url text `rawB64` *as received*:
    base64url-decode (oracle), JSON-decode into a map (oracle), `decodeHeader`. -/
def HeaderOf (o : Oracle) (rawB64 : Bytes) (hdr : Header) : Prop :=
  ∃ hb, o ⟨"b64url.dec", [.bytes rawB64]⟩ = .bytes hb ∧
    hdr.raw = o ⟨"json.decodeMap", [.bytes hb]⟩ ∧
    (decodeHeader hdr.raw).run o = .ok hdr

theorem headerOf_of_runs (o : Oracle) (rawB64 hb : Bytes) (hdr : Header)
    (h1 : (b64Decode rawB64).run o = .ok hb) (h2 : (unmarshalHeader hb).run o = .ok hdr) :
    HeaderOf o rawB64 hdr := by
  unfold unmarshalHeader at h2
  obtain ⟨raw, hraw, hdec⟩ := PO.run_bind_eq_ok o _ _ _ h2
  have hr := decodeHeader_raw o raw hdr hdec
  obtain ⟨hq, _⟩ := jsonDecodeMap_ok o hb raw hraw
  refine ⟨hb, (b64Decode_ok o rawB64 hb).1 h1, ?_, ?_⟩
  · rw [hr, hq]
  · rw [hr]; exact hdec

/-- every protected header of the message is the decoding of the raw text stored next to it -/
def ProtDecoded (o : Oracle) (s : Signature) : Prop :=
  ∀ p, s.prot = some p → HeaderOf o s.rawProtected p

/-- with no unprotected header (compact serialisation, JWT) the algorithm is the protected header's -/
theorem Signature.alg_of_protected_only (s : Signature) (p : Header) (h1 : s.prot = some p)
    (h2 : s.header = none) : s.alg = p.alg := by
  unfold Signature.alg Signature.unprotAlg
  rw [h1, h2]
  simp only
  split
  · rename_i h
    simp [Gen.Consts.jwa.SignatureAlgorithmUnknown] at h
    exact h.symm
  · rfl

/-- a protected header that names an algorithm decides it, whatever the unprotected header says -/
theorem Signature.alg_of_protected_named (s : Signature) (p : Header) (h1 : s.prot = some p)
    (hne : p.alg ≠ "") : s.alg = p.alg := by
  unfold Signature.alg
  rw [h1]
  simp only
  split
  · rename_i h
    simp [Gen.Consts.jwa.SignatureAlgorithmUnknown] at h
    exact absurd h hne
  · rfl

/-- Signature entry `s` was verified against `sigContent`: its algorithm is named (protected header
    first, else unprotected), allowed by the configuration, the key is the key finder's answer for
    exactly `(s.prot, s.header)`, and the primitive accepted exactly
    `s.rawProtected ++ "." ++ sigContent` with the full `s.signature`. -/
structure Verified (o : Oracle) (cfg : Cfg) (s : Signature) (sigContent : Bytes) : Prop where
  named : s.alg ≠ ""
  allowed : cfg.allows s.alg = true
  accepted : ∃ sk, Sig.signingKeyOfHandle (o (findKeyQuery s)) = some (.ok sk) ∧
    Sig.PrimAccepts o sk (s.rawProtected ++ dot :: sigContent) s.signature

theorem trySig_true (o : Oracle) (cfg : Cfg) (sc : Bytes) (s : Signature)
    (h : (trySig cfg sc s).run o = .ok true) : Verified o cfg s sc := by
  unfold trySig at h
  by_cases h1 : (s.alg == Gen.Consts.jwa.SignatureAlgorithmUnknown) = true
  · simp [h1] at h
  · simp only [h1, Bool.false_eq_true, if_false] at h
    by_cases h2 : cfg.allows s.alg = true
    · simp only [h2, Bool.not_true, Bool.false_eq_true, if_false, PO.run_bind, PO.run_query] at h
      have hn : s.alg ≠ "" := by
        intro he
        apply h1
        simp [he, Gen.Consts.jwa.SignatureAlgorithmUnknown]
      refine ⟨hn, h2, ?_⟩
      show ∃ sk, Sig.signingKeyOfHandle (o ⟨(findKeyQuery s).name, (findKeyQuery s).args⟩) = _ ∧ _
      cases hk : Sig.signingKeyOfHandle (o ⟨(findKeyQuery s).name, (findKeyQuery s).args⟩) with
      | none => simp [hk] at h
      | some r =>
        cases r with
        | panic site => simp [hk] at h
        | err c => simp [hk] at h
        | ok sk =>
          simp only [hk, PO.run_bind, PO.run_attempt] at h
          refine ⟨sk, rfl, ?_⟩
          cases hv : (Sig.verifyKey sk (signingInput s sc) s.signature).run o with
          | ok u =>
            cases u
            exact (Sig.verifyKey_ok_iff o sk _ _).1 hv
          | err c => simp [hv] at h
          | panic site => simp [hv] at h
    · simp [h2] at h

theorem verifyLoop_ok (o : Oracle) (cfg : Cfg) (rc sc : Bytes) :
    ∀ (sigs : List Signature) (r : Option Header × Option Header × Bytes),
      (verifyLoop cfg rc sc sigs).run o = .ok r →
      ∃ s ∈ sigs, r = (s.prot, s.header, rc) ∧ Verified o cfg s sc := by
  intro sigs
  induction sigs with
  | nil => intro r h; simp [verifyLoop] at h
  | cons s rest ih =>
    intro r h
    unfold verifyLoop at h
    rw [PO.run_bind] at h
    cases ht : (trySig cfg sc s).run o with
    | ok b =>
      rw [ht] at h
      cases b
      · simp only [Bool.false_eq_true, if_false] at h
        obtain ⟨s', hm, hr, hv⟩ := ih r h
        exact ⟨s', List.mem_cons_of_mem _ hm, hr, hv⟩
      · simp only [if_true, PO.run_pure] at h
        injection h with h
        exact ⟨s, List.mem_cons_self .., h.symm, trySig_true o cfg sc s ht⟩
    | err c => rw [ht] at h; cases h
    | panic p => rw [ht] at h; cases h

/-- the content handed back is the received payload itself (b64=false) or its base64url decoding -/
def Returned (o : Oracle) (msg : Message) (payload : Bytes) : Prop :=
  if msg.nb64 then payload = msg.payload
  else o ⟨"b64url.dec", [.bytes msg.payload]⟩ = .bytes payload

theorem verify_ok (o : Oracle) (cfg : Cfg) (msg : Message) (r : Option Header × Option Header × Bytes)
    (h : (verify cfg msg).run o = .ok r) :
    cfg.configured = true ∧ ∃ s ∈ msg.signatures, r.1 = s.prot ∧ r.2.1 = s.header ∧
      Verified o cfg s msg.payload ∧ Returned o msg r.2.2 := by
  unfold verify at h
  cases hc : cfg.configured
  · simp [hc] at h
  · simp only [hc, Bool.not_true, Bool.false_eq_true, if_false] at h
    refine ⟨rfl, ?_⟩
    cases hn : msg.nb64
    · simp only [hn, Bool.not_false, if_true, PO.run_bind, b64Dec?_run] at h
      cases hd : o ⟨"b64url.dec", [.bytes msg.payload]⟩ <;> simp only [hd] at h <;> try (cases h)
      rename_i content
      obtain ⟨s, hm, hr, hv⟩ := verifyLoop_ok o cfg content msg.payload msg.signatures r h
      refine ⟨s, hm, by simp [hr], by simp [hr], hv, ?_⟩
      simp [Returned, hn, hd, hr]
    · simp only [hn, Bool.not_true, Bool.false_eq_true, if_false] at h
      obtain ⟨s, hm, hr, hv⟩ := verifyLoop_ok o cfg msg.payload msg.payload msg.signatures r h
      refine ⟨s, hm, by simp [hr], by simp [hr], hv, ?_⟩
      simp [Returned, hn, hr]

/-- `VerifyContent` (detached payload): the caller's `content` is returned, and what was verified
    is `content` itself (b64=false) or its base64url *encoding* (b64=true). -/
theorem verifyContent_ok (o : Oracle) (cfg : Cfg) (msg : Message) (content : Bytes)
    (r : Option Header × Option Header × Bytes)
    (h : (verifyContent cfg msg content).run o = .ok r) :
    cfg.configured = true ∧ r.2.2 = content ∧
    ∃ sc, (if msg.nb64 then sc = content else o ⟨"b64url.enc", [.bytes content]⟩ = .bytes sc) ∧
      ∃ s ∈ msg.signatures, r.1 = s.prot ∧ r.2.1 = s.header ∧ Verified o cfg s sc := by
  unfold verifyContent at h
  cases hc : cfg.configured
  · simp [hc] at h
  · simp only [hc, Bool.not_true, Bool.false_eq_true, if_false] at h
    refine ⟨rfl, ?_⟩
    cases hn : msg.nb64
    · simp only [hn, Bool.not_false, if_true] at h
      obtain ⟨sc, hsc, hl⟩ := PO.run_bind_eq_ok o _ _ _ h
      obtain ⟨s, hm, hr, hv⟩ := verifyLoop_ok o cfg content sc msg.signatures r hl
      refine ⟨by simp [hr], sc, ?_, s, hm, by simp [hr], by simp [hr], hv⟩
      simpa using (b64Encode_ok o content sc).1 hsc
    · simp only [hn, Bool.not_true, Bool.false_eq_true, if_false] at h
      obtain ⟨s, hm, hr, hv⟩ := verifyLoop_ok o cfg content content msg.signatures r h
      exact ⟨by simp [hr], content, by simp, s, hm, by simp [hr], by simp [hr], hv⟩

end Model.JWS
