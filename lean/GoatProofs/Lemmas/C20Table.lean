import Goat.Model.Conc
import GoatProofs.Lemmas.C20Inv
/-!
C20 — from the executable discipline check on an access table to the discipline of every model
program generated from the table.
-/
namespace Conc

theorem find_of_nodup : ∀ (l : List VarAccess), (l.map (fun v => v.id)).Nodup → ∀ v ∈ l,
    l.find? (fun x => x.id == v.id) = some v := by
  intro l
  induction l with
  | nil => intro _ v hv; cases hv
  | cons x r ih =>
    intro hn v hv
    simp only [List.map, List.nodup_cons] at hn
    rcases List.mem_cons.1 hv with rfl | hv
    · simp [List.find?]
    · have hne : x.id ≠ v.id := by
        intro heq
        exact hn.1 (heq ▸ List.mem_map_of_mem hv)
      have hb : (x.id == v.id) = false := by simpa using hne
      simp only [List.find?, hb]
      exact ih hn.2 v hv

theorem cellGuard_eq {T : AccessTable} (hn : idsNodup T = true) {v : VarAccess} (hv : v ∈ T.vars) :
    cellGuard T v.id = if v.kind = .plain then guardOf v else none := by
  have := find_of_nodup T.vars (by simpa [idsNodup] using hn) v hv
  simp only [cellGuard, this]

theorem varOk_of {T : AccessTable} (h : disciplineHolds T = true) {v : VarAccess} (hv : v ∈ T.vars) :
    varOk T v = true := by
  simp only [disciplineHolds, Bool.and_eq_true, List.all_eq_true] at h
  exact h.2 v hv

theorem nodup_of {T : AccessTable} (h : disciplineHolds T = true) : idsNodup T = true := by
  simp only [disciplineHolds, Bool.and_eq_true] at h
  exact h.1

theorem okTop_append {G : Cell → Option OnceId} :
    ∀ (a b : List Op) (seen : OnceId → Prop), okTop G seen a → (∀ seen', okTop G seen' b) →
      okTop G seen (a ++ b) := by
  intro a
  induction a with
  | nil => intro b seen _ hb; exact hb seen
  | cons x r ih =>
    intro b seen ha hb
    cases x with
    | acc a' => exact ⟨ha.1, ih b seen ha.2 hb⟩
    | doOnce o => exact ih b _ ha hb

theorem okTop_flatten {G : Cell → Option OnceId} :
    ∀ (cs : List (List Op)), (∀ c ∈ cs, ∀ seen, okTop G seen c) → ∀ seen, okTop G seen cs.flatten := by
  intro cs
  induction cs with
  | nil => intro _ seen; simp [okTop]
  | cons c r ih =>
    intro h seen
    simp only [List.flatten_cons]
    exact okTop_append c _ seen (h c (by simp) seen) (ih (fun c' hc' => h c' (by simp [hc'])))

/-- every accessor call of a disciplined table is a disciplined operation sequence -/
theorem calls_ok {T : AccessTable} (h : disciplineHolds T = true) :
    ∀ c ∈ calls T, ∀ seen, okTop (cellGuard T) seen c := by
  intro c hc seen
  simp only [calls, List.mem_flatMap, List.mem_append, List.mem_map] at hc
  obtain ⟨v, hv, hc⟩ := hc
  have hok := varOk_of h hv
  have hG := cellGuard_eq (nodup_of h) hv
  rcases hc with ⟨r, hr, rfl⟩ | ⟨w, hw, rfl⟩
  · -- a read site
    unfold varOk at hok
    unfold readOps
    cases hk : v.kind with
    | plain =>
      simp only [hk, Bool.and_eq_true, List.all_eq_true] at hok
      have hrd := hok.1.2 r hr
      simp only [hk, if_true] at hG
      cases hcls : r.cls with
      | initTime => simp [okTop]
      | inOnce o => simp [okTop]
      | viaSync => simp [okTop, okAccTop]
      | other =>
        simp only [okTop, okAccTop, and_true]
        intro o ho
        rw [hG] at ho
        simp [readOk, ho, hcls] at hrd
      | afterDo o =>
        simp only [okTop, okAccTop, and_true]
        intro o' ho'
        rw [hG] at ho'
        simp only [readOk, ho', hcls, beq_iff_eq] at hrd
        exact Or.inl hrd.symm
    | once | syncMap | atomic | mutex | memoize =>
      have hG' : cellGuard T v.id = none := by rw [hG]; simp [hk]
      cases hcls : r.cls <;> simp [okTop, okAccTop, hG']
  · -- a write site
    unfold varOk at hok
    unfold writeOps
    cases hctx : w.ctx with
    | pkgInit => simp [okTop]
    | initFunc => simp [okTop]
    | onceBody o => simp [okTop]
    | func f =>
      simp only
      cases hk : v.kind with
      | plain =>
        simp only [hk, Bool.and_eq_true, List.all_eq_true] at hok
        have hwr := hok.1.1 w hw
        simp only [writeOk, hctx, Bool.and_eq_true] at hwr
        simp [hwr.2, okTop]
      | once | syncMap | atomic | mutex | memoize =>
        simp only [hk, Bool.and_eq_true, List.isEmpty_iff] at hok
        rw [hok.1] at hw; cases hw

/-- the once closures of a disciplined table are disciplined -/
theorem body_ok {T : AccessTable} (h : disciplineHolds T = true) :
    ∀ o, ∀ a ∈ bodyOf T o, okBody (cellGuard T) o a := by
  intro o a ha
  simp only [bodyOf, List.mem_flatMap] at ha
  obtain ⟨v, hv, ha⟩ := ha
  have hok := varOk_of h hv
  have hG := cellGuard_eq (nodup_of h) hv
  unfold varOk at hok
  simp only [bodyOfVar, List.mem_append, List.mem_filterMap] at ha
  cases hk : v.kind with
  | plain =>
    simp only [hk, Bool.and_eq_true, List.all_eq_true] at hok
    simp only [hk, if_true] at hG
    rcases ha with ⟨w, hw, hwa⟩ | ⟨r, hr, hra⟩
    · split at hwa
      · rename_i hctx
        cases hwa
        have hwr := hok.1.1 w hw
        simp only [writeOk, hctx, Bool.and_eq_true, beq_iff_eq] at hwr
        simp only [okBody]
        rw [hG]; exact hwr.2
      · cases hwa
    · split at hra
      · rename_i hcls
        cases hra
        have hrd := hok.1.2 r hr
        simp only [okBody]
        rw [hG]
        cases hg : guardOf v with
        | none => exact Or.inr rfl
        | some o' =>
          simp only [readOk, hg, hcls, beq_iff_eq] at hrd
          exact Or.inl (by rw [hrd])
      · cases hra
  | once | syncMap | atomic | mutex | memoize =>
    simp only [hk, Bool.and_eq_true, List.isEmpty_iff, List.all_eq_true] at hok
    rcases ha with ⟨w, hw, _⟩ | ⟨r, hr, hra⟩
    · rw [hok.1] at hw; cases hw
    · split at hra
      · rename_i hcls
        have := hok.2 r hr
        rw [hcls] at this
        simp at this
      · cases hra

/-- **Link.** Every program generated from a table that passes the executable discipline check
    is disciplined in the sense of the model. -/
theorem disciplined_of_table {T : AccessTable} (h : disciplineHolds T = true) {P : Prog}
    (hP : GenProg T P) : Disciplined (cellGuard T) P := by
  constructor
  · intro o a ha
    rw [hP.body] at ha
    exact body_ok h o a ha
  · intro ops hops
    obtain ⟨cs, hcs, rfl⟩ := hP.threads ops hops
    exact okTop_flatten cs (fun c hc => calls_ok h c (hcs c hc)) _

end Conc
