import GoatProofs.Lemmas.C03Basic
namespace GoatProofs.C03
open Model.Binding Gen.Consts

/-- which constructed keys can pass Verify on a signature of `n` bytes -/
def Verifiable : SigningKey → Nat → Prop
  | .hmac _ _ _ cv, _ => cv = true
  | .rsa _ _ _ _ _ cv, _ => cv = true
  | .ecdsa _ _ (some c) _ cv, n => cv = true ∧ n = 2 * c.byteSize
  | .ed25519 _ _ cv, _ => cv = true
  | .ed448 _ _ cv, _ => cv = true
  | .none, n => n = 0
  | _, _ => False

/-- which constructed keys can pass Sign -/
def Signable : SigningKey → Prop
  | .hmac _ _ cs _ => cs = true
  | .rsa _ _ hasPriv _ cs _ => hasPriv = true ∧ cs = true
  | .ecdsa _ (some _) _ cs _ => cs = true
  | .ed25519 hasPriv cs _ => hasPriv = true ∧ cs = true
  | .ed448 hasPriv cs _ => hasPriv = true ∧ cs = true
  | .none => True
  | _ => False

theorem verify_ok_shape (o : Oracle) (sk : SigningKey) (n : Nat) (ctx : Wire)
    (h : (verify sk n ctx).run o = .ok ()) : Verifiable sk n := by
  cases sk with
  | invalid => simp [verify] at h
  | errKey => simp [verify] at h
  | hmac hh len cs cv => cases cv <;> simp [verify, Verifiable] at h ⊢
  | rsa pss hh hp b cs cv => cases cv <;> simp [verify, Verifiable] at h ⊢
  | ecdsa hh priv pub cs cv =>
    cases pub with
    | none => simp [verify] at h
    | some c =>
      cases cv
      · simp [verify] at h
      · simp only [verify] at h
        by_cases hn : n = 2 * c.byteSize
        · simp [Verifiable, hn]
        · simp [hn] at h
  | ed25519 hp cs cv => cases cv <;> simp [verify, Verifiable] at h ⊢
  | ed448 hp cs cv => cases cv <;> simp [verify, Verifiable] at h ⊢
  | none =>
    simp only [verify] at h
    by_cases hn : n = 0
    · simp [Verifiable, hn]
    · simp [hn] at h

theorem sign_ok_shape (o : Oracle) (sk : SigningKey) (h : (sign sk).run o = .ok ()) : Signable sk := by
  cases sk with
  | invalid => simp [sign] at h
  | errKey => simp [sign] at h
  | hmac hh len cs cv => cases cs <;> simp [sign, Signable] at h ⊢
  | rsa pss hh hp b cs cv => cases cs <;> cases hp <;> simp [sign, Signable] at h ⊢
  | ecdsa hh priv pub cs cv =>
    cases priv with
    | none => simp [sign] at h
    | some c => cases cs <;> simp [sign, Signable] at h ⊢
  | ed25519 hp cs cv => cases cs <;> cases hp <;> simp [sign, Signable] at h ⊢
  | ed448 hp cs cv => cases cs <;> cases hp <;> simp [sign, Signable] at h ⊢
  | none => simp [Signable]

/-- everything rs/ps NewSigningKey can return, with the conditions on the key under which it does -/
theorem newRSAKey_cases (pss : Bool) (h : Hash) (weak : Bool) (k : Key) :
    newRSAKey pss h weak k = .invalid ∨ newRSAKey pss h weak k = .errKey ∨
    ∃ hasPriv bits,
      newRSAKey pss h weak k = .rsa pss h hasPriv bits (canUseFor k opSign) (canUseFor k opVerify) ∧
      (hasPriv = true → ∃ b, k.priv = .rsaPriv b) ∧
      (k.priv = .nil ∨ ∃ b, k.priv = .rsaPriv b) ∧
      (k.pub = .rsaPub bits ∨ (k.pub = .nil ∧ k.priv = .rsaPriv bits)) ∧
      (weak = false → 2048 ≤ bits) := by
  obtain ⟨priv, pub, use, ops, alg⟩ := k
  cases priv <;> cases pub <;> simp [newRSAKey]
  all_goals (split <;> simp_all <;> omega)

theorem newECDSAKey_cases (crv : Crv) (h : Hash) (k : Key) :
    newECDSAKey crv h k = .invalid ∨
    ∃ priv pub,
      newECDSAKey crv h k = .ecdsa h priv pub (canUseFor k opSign) (canUseFor k opVerify) ∧
      (∀ c, priv = some c → c = crv ∧ k.priv = .ecdsaPriv crv ∧ k.pub = .ecdsaPub crv) ∧
      (∀ c, pub = some c → c = crv ∧ k.pub = .ecdsaPub crv ∧ (k.priv = .nil ∨ k.priv = .ecdsaPriv crv)) := by
  obtain ⟨priv, pub, use, ops, alg⟩ := k
  cases priv <;> cases pub <;> simp [newECDSAKey, crvMismatch]
  case nil.ecdsaPub c =>
    by_cases hc : c = crv
    · subst hc; simp
      exact ⟨none, some c, ⟨rfl, rfl⟩, by simp, by intro _ h; cases h; rfl⟩
    · simp [hc]
  case ecdsaPriv.ecdsaPub c c' =>
    by_cases hc : c = crv
    · by_cases hc' : c' = crv
      · subst hc; subst hc'; simp
        exact ⟨some _, some _, ⟨rfl, rfl⟩, by intro _ h; cases h; simp, by intro _ h; cases h; simp⟩
      · simp [hc']
    · simp [hc]
  all_goals exact ⟨none, none, ⟨rfl, rfl⟩, by simp, by simp⟩

theorem newEdDSAKey_cases (k : Key) :
    newEdDSAKey k = .invalid ∨
    (∃ hasPriv, newEdDSAKey k = .ed25519 hasPriv (canUseFor k opSign) (canUseFor k opVerify) ∧
      k.pub = .ed25519Pub ∧ (hasPriv = true → k.priv = .ed25519Priv) ∧
      (k.priv = .nil ∨ k.priv = .ed25519Priv)) ∨
    (∃ hasPriv, newEdDSAKey k = .ed448 hasPriv (canUseFor k opSign) (canUseFor k opVerify) ∧
      k.pub = .ed448Pub ∧ (hasPriv = true → k.priv = .ed448Priv) ∧
      (k.priv = .nil ∨ k.priv = .ed448Priv)) := by
  obtain ⟨priv, pub, use, ops, alg⟩ := k
  cases priv <;> cases pub <;> simp [newEdDSAKey]

theorem newHMACKey_cases (h : Hash) (weak : Bool) (k : Key) :
    newHMACKey h weak k = .invalid ∨ newHMACKey h weak k = .errKey ∨
    ∃ n, newHMACKey h weak k = .hmac h n (canUseFor k opSign) (canUseFor k opVerify) ∧
      k.priv = .bytes n ∧ k.pub = .nil ∧ (weak = false → h.size ≤ n) := by
  obtain ⟨priv, pub, use, ops, alg⟩ := k
  cases priv <;> simp [newHMACKey]
  rename_i n
  by_cases hp : pub = .nil
  · subst hp
    by_cases hw : weak = false ∧ n < h.size
    · simp [hw]
    · simp [hw]; intro h1; subst h1; simp at hw; exact hw
  · simp [hp]

end GoatProofs.C03
