/-
Closing tactics of the point-formula obligations (GoatProofs.C16PtOps / C15PtOps / C14StepOps).

`ptops_named "C16PtOps.add_ops" => tacs` runs `tacs`; if they fail, the error message NAMES the broken
obligation, so that the `lake build` log of `./check` says which regenerated function no longer
matches its model.

Shape of the proofs: unfold the model definition and the instantiation record `ops`, GENERALISE the
field functions to variables, then `as_aux_lemma => rfl`.  After the generalisation both sides are
compositions of the same VARIABLES; `as_aux_lemma` makes the generalised statement a lemma of its own,
so the KERNEL checks `rfl` with the field functions as bound variables too and can only compare the
two compositions structurally.  (Without it the generalisation is beta-reduced away in the final
proof term; the kernel ignores `[irreducible]` and — depending on definitional heights — starts to
evaluate e.g. `Fe256.isZero` on symbolic limbs: observed as a 10-minute `deep recursion` failure.)
A mismatch fails at once, in the elaborator.
-/
open Lean

macro "ptops_named " n:str " => " t:tacticSeq : tactic => do
  let msg := Syntax.mkStrLit ("BROKEN OBLIGATION " ++ n.getString ++
    ": the hand-written model / the pinned layout no longer agrees with the operation sequence regenerated from the Go source (translator/opseq.go, docs/PTOPS.md)")
  `(tactic| first | ($t) | fail $msg)

/-- layout / guards / hazards / well-formedness of the regenerated data -/
macro "ptops_decide " n:str : tactic => `(tactic| ptops_named $n => decide)
