import GoatProofs.Lemmas.C10Frame
import GoatProofs.Lemmas.C10Override
import GoatProofs.Lemmas.C10Paths
/-
Round trip of struct values through `encode` / `decodeInto`, for any embedding depth:
every flattened field of the decoded value reads what it read in the original.
-/
namespace GoatProofs.Lemmas.C10StructRT
open Model Model.Custom GoatProofs.Lemmas.C10Lens GoatProofs.Lemmas.C10Frame
open GoatProofs.Lemmas.C10Override GoatProofs.Lemmas.C10Paths

/-- the decidable side condition on a struct type: flattened fields with the same claim name are the
    same slot (same index path), fields with different names sit at diverging paths -/
def fieldsOK (t : Ty) : Bool :=
  (typeFields t).all fun f => (typeFields t).all fun g =>
    if f.name = g.name then f.index == g.index else diverge f.index g.index

theorem fieldsOK_spec (t : Ty) (h : fieldsOK t = true) :
    (∀ f ∈ typeFields t, ∀ g ∈ typeFields t, f.name = g.name → f.index = g.index) ∧ PathsApart t := by
  unfold fieldsOK at h
  rw [List.all_eq_true] at h
  constructor
  · intro f hf g hg hn
    have h1 := h f hf
    rw [List.all_eq_true] at h1
    have h2 := h1 g hg
    simpa [hn] using h2
  · intro f hf g hg hn
    have h1 := h f hf
    rw [List.all_eq_true] at h1
    have h2 := h1 g hg
    simpa [hn] using h2

theorem walkGet_ty (addr : Bool) : ∀ (p : List Nat) (t : Ty) (c : Bool) (v : Val) (tv : Ty × Val),
    walkGet addr p t c v = .ok tv → typeAt p t = some tv.1 := by
  intro p
  induction p with
  | nil => intro t c v tv h; simp only [walkGet, Outcome.ok.injEq] at h; subst h; rfl
  | cons i r ih =>
    intro t c v tv h
    rw [walkGet_cons] at h
    have core : ∀ (st : Ty) (sv : Val), getStep addr i r st sv = .ok tv →
        (match fieldAt st i with | none => none | some fd => typeAt r fd.ty) = some tv.1 := by
      intro st sv hg
      unfold getStep at hg
      cases hfi : fieldAt st i with
      | none => rw [hfi] at hg; cases hg
      | some fd => rw [hfi] at hg; exact ih fd.ty _ _ tv hg
    simp only [typeAt]
    cases t with
    | ptr e =>
      simp only [derefOnce] at h ⊢
      cases v with
      | ptr ov =>
        cases ov with
        | some y => exact core e y h
        | none =>
          simp only at h
          cases c with
          | false => simp at h
          | true => simp only [if_true] at h; exact core e _ h
      | _ =>
        simp only at h
        cases c with
        | false => simp at h
        | true => simp only [if_true] at h; exact core e _ h
    | _ => simp only [derefOnce] at h ⊢; exact core _ v h

theorem firstField_of_mem (name : String) (fs : List FlatField) (f : FlatField) (hf : f ∈ fs)
    (hn : f.name = name) : ∃ f', firstField name fs = some f' := by
  induction fs with
  | nil => cases hf
  | cons g r ih =>
    unfold firstField
    by_cases hg : g.name = name
    · exact ⟨g, by simp [hg]⟩
    · simp only [hg, if_false]
      simp only [List.mem_cons] at hf
      rcases hf with hf | hf
      · subst hf; exact absurd hn hg
      · exact ih hf

theorem lookup_of_mem_nodup (m : List (String × Wire)) (kv : String × Wire) (hkv : kv ∈ m)
    (hnd : (keys m).Nodup) : Wire.lookup kv.1 m = some kv.2 := by
  induction m with
  | nil => cases hkv
  | cons a r ih =>
    obtain ⟨k, v⟩ := a
    simp only [keys, List.map_cons, List.nodup_cons] at hnd
    simp only [List.mem_cons] at hkv
    rcases hkv with hkv | hkv
    · subst hkv; simp [Wire.lookup]
    · have hne : kv.1 ≠ k := by
        intro he
        apply hnd.1
        rw [← he]
        exact List.mem_map_of_mem hkv
      have hb : (kv.1 == k) = false := by simpa using hne
      simp only [Wire.lookup, hb, Bool.false_eq_true, if_false]
      exact ih hkv hnd.2

/-- the decoding fold over the members of an object whose members are encodings of fields of `sv` -/
theorem fold_rt (o : Oracle) (fuel : Nat) (t : Ty) (sv : Val)
    (hU : ∀ f ∈ typeFields t, ∀ g ∈ typeFields t, f.name = g.name → f.index = g.index)
    (hA : PathsApart t)
    (hRT : ∀ f ∈ typeFields t, ∀ tvo, walkGet true f.index t true sv = .ok tvo → ∀ w,
        (encode fuel true tvo.1 tvo.2).run o = .ok w → ∀ cur, (decodeInto fuel tvo.1 cur w).run o = .ok tvo.2)
    (Inv : Val → Prop)
    (hInv : ∀ f ∈ typeFields t, ∀ v x, Inv v → Inv (walkSet f.index t v x)) :
    ∀ (ms : List (String × Wire)) (svc : Val),
      (keys ms).Nodup →
      (∀ kv ∈ ms, ∃ f ∈ typeFields t, f.name = kv.1 ∧ ∃ tvo, walkGet true f.index t true sv = .ok tvo ∧
          (encode fuel true tvo.1 tvo.2).run o = .ok kv.2) →
      (∀ f ∈ typeFields t, ∃ tv, walkGet true f.index t true svc = .ok tv) → Inv svc →
      ∃ sv', (ms.foldlM (decStep fuel t) svc).run o = .ok sv' ∧ Inv sv' ∧
        ∀ g ∈ typeFields t,
          (g.name ∈ keys ms → walkGet true g.index t true sv' = walkGet true g.index t true sv) ∧
          (g.name ∉ keys ms → walkGet true g.index t true sv' = walkGet true g.index t true svc) := by
  intro ms
  induction ms with
  | nil =>
    intro svc _ _ _ hi
    refine ⟨svc, by simp, hi, fun g _ => ⟨?_, fun _ => rfl⟩⟩
    intro h
    simp [keys] at h
  | cons kv r ih =>
    intro svc hnd hms hwalk hi
    simp only [keys, List.map_cons, List.nodup_cons] at hnd
    obtain ⟨f, hf, hfn, tvo, hwo, heo⟩ := hms kv List.mem_cons_self
    obtain ⟨f', hff⟩ := firstField_of_mem kv.1 _ f hf hfn
    obtain ⟨hf'm, hf'n⟩ := firstField_some _ _ _ hff
    have hidx : f'.index = f.index := hU f' hf'm f hf (by rw [hf'n, hfn])
    obtain ⟨tv, hwc⟩ := hwalk f hf
    have hty : tv.1 = tvo.1 := by
      have h1 := walkGet_ty true _ _ _ _ _ hwc
      have h2 := walkGet_ty true _ _ _ _ _ hwo
      rw [h1] at h2; exact Option.some.inj h2
    have hdec : (decodeInto fuel tv.1 tv.2 kv.2).run o = .ok tvo.2 := by
      rw [hty]; exact hRT f hf tvo hwo kv.2 heo tv.2
    -- the step
    have hstep : (decStep fuel t svc kv).run o = .ok (walkSet f.index t svc tvo.2) := by
      unfold decStep
      rw [hff]
      simp only [hidx, PO.run_bind, PO.run_ofOutcome, hwc, hdec, PO.run_pure]
    obtain ⟨svc1, hsvc1⟩ : ∃ s, s = walkSet f.index t svc tvo.2 := ⟨_, rfl⟩
    rw [← hsvc1] at hstep
    have hsame : walkGet true f.index t true svc1 = .ok tvo := by
      rw [hsvc1, walkGet_walkSet_same true f.index t true svc tvo.2 tv hwc, hty]
    have hother : ∀ g ∈ typeFields t, g.name ≠ f.name →
        walkGet true g.index t true svc1 = walkGet true g.index t true svc := by
      intro g hg hne
      rw [hsvc1]
      exact walkGet_walkSet_other true f.index g.index t true svc tvo.2
        (hA f hf g hg (fun e => hne e.symm)) ⟨tv, hwc⟩
    have hwalk1 : ∀ g ∈ typeFields t, ∃ tv, walkGet true g.index t true svc1 = .ok tv := by
      intro g hg
      by_cases hne : g.name = f.name
      · rw [hU g hg f hf hne]; exact ⟨tvo, hsame⟩
      · rw [hother g hg hne]; exact hwalk g hg
    have hi1 : Inv svc1 := by rw [hsvc1]; exact hInv f hf svc tvo.2 hi
    have hms' : ∀ kv' ∈ r, ∃ f ∈ typeFields t, f.name = kv'.1 ∧ ∃ tvo, walkGet true f.index t true sv = .ok tvo ∧
        (encode fuel true tvo.1 tvo.2).run o = .ok kv'.2 :=
      fun kv' hkv' => hms kv' (List.mem_cons_of_mem _ hkv')
    obtain ⟨sv', hrun, hinv', hfin⟩ := ih svc1 hnd.2 hms' hwalk1 hi1
    refine ⟨sv', ?_, hinv', ?_⟩
    · simp only [List.foldlM_cons, PO.run_bind, hstep, hrun]
    · intro g hg
      obtain ⟨hin, hout⟩ := hfin g hg
      constructor
      · intro hmem
        simp only [keys, List.map_cons, List.mem_cons] at hmem
        by_cases hr : g.name ∈ keys r
        · exact hin hr
        · have hgk : g.name = kv.1 := by
            rcases hmem with h | h
            · exact h
            · exact absurd h hr
          rw [hout hr, hU g hg f hf (by rw [hgk, hfn]), hsame, hwo]
      · intro hnmem
        simp only [keys, List.map_cons, List.mem_cons, not_or] at hnmem
        rw [hout hnmem.2]
        exact hother g hg (by rw [hfn]; exact hnmem.1)

theorem mem_of_lookup (name : String) (m : List (String × Wire)) (w : Wire)
    (h : Wire.lookup name m = some w) : (name, w) ∈ m := by
  induction m with
  | nil => simp [Wire.lookup] at h
  | cons a r ih =>
    obtain ⟨k, v⟩ := a
    simp only [Wire.lookup] at h
    by_cases hk : name = k
    · subst hk; simp at h; subst h; exact List.mem_cons_self
    · have hb : (name == k) = false := by simpa using hk
      simp only [hb, Bool.false_eq_true, if_false] at h
      exact List.mem_cons_of_mem _ (ih h)

/-- **struct round trip, field by field** — for every struct type with `fieldsOK`, any embedding
    depth: if every flattened field of `sv` can be read and its value round-trips as a value of its
    own type (`hRT`, e.g. scalars by `custom_roundtrip_partial`), then decoding what `encode` wrote,
    into any destination `cur` whose fields can be walked (e.g. the zero value), succeeds, and every
    flattened field of the result reads exactly what it read in `sv`. -/
theorem struct_roundtrip_fields (o : Oracle) (fuel : Nat) (id : String) (fields : List Field) (sv cur : Val)
    (hok : fieldsOK (.struct id fields) = true)
    (hRT : ∀ f ∈ typeFields (.struct id fields), ∀ tvo, walkGet true f.index (.struct id fields) true sv = .ok tvo →
        ∀ w, (encode fuel true tvo.1 tvo.2).run o = .ok w →
        ∀ c, (decodeInto fuel tvo.1 c w).run o = .ok tvo.2)
    (w : Wire) (henc : (encode (fuel + 1) true (.struct id fields) sv).run o = .ok w)
    (hcur : ∀ f ∈ typeFields (.struct id fields), ∃ tv,
        walkGet true f.index (.struct id fields) true (fitStruct fields.length cur) = .ok tv)
    (Inv : Val → Prop) (hInv : ∀ f ∈ typeFields (.struct id fields), ∀ v x, Inv v → Inv (walkSet f.index (.struct id fields) v x))
    (hi : Inv (fitStruct fields.length cur)) :
    ∃ sv', (decodeInto (fuel + 1) (.struct id fields) cur w).run o = .ok sv' ∧ Inv sv' ∧
      ∀ f ∈ typeFields (.struct id fields),
        walkGet true f.index (.struct id fields) true sv' = walkGet true f.index (.struct id fields) true sv := by
  obtain ⟨hU, hA⟩ := fieldsOK_spec _ hok
  rw [GoatProofs.Lemmas.C10Override.encode_struct_eq'] at henc
  obtain ⟨ret, hfold, hw⟩ := PO.run_bind_eq_ok o _ _ _ henc
  simp only [PO.run_pure, Outcome.ok.injEq] at hw
  subst hw
  obtain ⟨hnd, hspec⟩ := fold_spec o fuel true (.struct id fields) sv _ [] ret hfold (by simp [keys])
  have hms : ∀ kv ∈ ret, ∃ f ∈ typeFields (.struct id fields), f.name = kv.1 ∧ ∃ tvo,
      walkGet true f.index (.struct id fields) true sv = .ok tvo ∧ (encode fuel true tvo.1 tvo.2).run o = .ok kv.2 := by
    intro kv hkv
    have hl := lookup_of_mem_nodup ret kv hkv hnd
    by_cases hex : ∃ f ∈ typeFields (.struct id fields), f.name = kv.1
    · obtain ⟨f, hf, hfn, w', ⟨tvo, hwo, heo⟩, hl'⟩ := (hspec kv.1).1 hex
      rw [hl] at hl'
      cases hl'
      exact ⟨f, hf, hfn, tvo, hwo, heo⟩
    · have := (hspec kv.1).2 hex
      rw [hl] at this
      simp [Wire.lookup] at this
  obtain ⟨sv', hrun, hinv', hfin⟩ := fold_rt o fuel _ sv hU hA hRT Inv hInv ret _ hnd hms hcur hi
  refine ⟨sv', by rw [decodeInto_struct_eq]; exact hrun, hinv', ?_⟩
  intro f hf
  -- every field name is a member of the encoded object
  have hex : ∃ g ∈ typeFields (.struct id fields), g.name = f.name := ⟨f, hf, rfl⟩
  obtain ⟨g, hg, hgn, w', _, hl⟩ := (hspec f.name).1 hex
  have hmem : f.name ∈ keys ret := by
    have := mem_of_lookup _ _ _ hl
    exact List.mem_map_of_mem (f := Prod.fst) this
  exact (hfin f hf).1 hmem

end GoatProofs.Lemmas.C10StructRT
