import GoatProofs.C17Ext
import Goat.Model.X448
import Goat.Spec.RFC7748
/-
Byte-level lemmas for C14: bits of a little-endian byte string, digits of a value, encode/decode.
-/
namespace C14
open C17 Glue Model.Fe448 Spec.RFC7748
set_option exponentiation.threshold 2000

/-! ### bit t of the little-endian value is bit t%8 of byte t/8 -/

theorem bit_low (x r t : Nat) (_hx : x < 256) (ht : t < 8) : (x + 256 * r) / 2 ^ t % 2 = x / 2 ^ t % 2 := by
  have : t = 0 ∨ t = 1 ∨ t = 2 ∨ t = 3 ∨ t = 4 ∨ t = 5 ∨ t = 6 ∨ t = 7 := by omega
  rcases this with h | h | h | h | h | h | h | h <;> subst h <;> omega

theorem bit_of_decode (k : List Nat) (hk : ∀ x ∈ k, x < 256) (t : Nat) (ht : t < 8 * k.length) :
    (decodeLittleEndian k >>> t) &&& 1 = (k.getD (t / 8) 0 >>> (t % 8)) &&& 1 := by
  simp only [Nat.shiftRight_eq_div_pow, Nat.and_one_is_mod]
  induction k generalizing t with
  | nil => simp at ht
  | cons x xs ih =>
    have hx := hk x List.mem_cons_self
    simp only [decodeLittleEndian]
    by_cases h8 : t < 8
    · have e1 : t / 8 = 0 := by omega
      have e2 : t % 8 = t := by omega
      rw [e1, e2, List.getD_cons_zero]
      exact bit_low x _ t hx h8
    · obtain ⟨t', rfl⟩ : ∃ t', t = t' + 8 := ⟨t - 8, by omega⟩
      have e1 : (t' + 8) / 8 = t' / 8 + 1 := by omega
      have e2 : (t' + 8) % 8 = t' % 8 := by omega
      rw [e1, e2, List.getD_cons_succ]
      have e3 : (x + 256 * decodeLittleEndian xs) / 2 ^ (t' + 8) = decodeLittleEndian xs / 2 ^ t' := by
        have h2 : 2 ^ (t' + 8) = 256 * 2 ^ t' := by rw [pow_add]; ring
        rw [h2, ← Nat.div_div_eq_div_mul]
        have : (x + 256 * decodeLittleEndian xs) / 256 = decodeLittleEndian xs := by omega
        rw [this]
      rw [e3]
      exact ih (fun y hy => hk y (List.mem_cons_of_mem _ hy)) t' (by simp at ht; omega)

/-! ### byte strings as integer lists -/

theorem toNat_lt (b : UInt8) : b.toNat < 256 := UInt8.toNat_lt b

theorem toInts_length (b : Bytes) : (Model.X448.toInts b).length = b.length := by simp [Model.X448.toInts]

theorem toInts_allIn (b : Bytes) : AllIn 0 255 (Model.X448.toInts b) := by
  intro x hx
  simp only [Model.X448.toInts, List.mem_map] at hx
  obtain ⟨y, _, rfl⟩ := hx
  have := toNat_lt y
  simp only [Int.ofNat_eq_natCast]
  omega

theorem evalBytes_toInts (b : Bytes) :
    evalBytes (Model.X448.toInts b) = Int.ofNat (decodeLittleEndian (b.map UInt8.toNat)) := by
  induction b with
  | nil => rfl
  | cons x xs ih =>
    simp only [Model.X448.toInts, List.map_cons, evalBytes, decodeLittleEndian] at ih ⊢
    rw [ih]; simp only [Int.ofNat_eq_natCast]; push_cast; ring

/-- the i-th byte of a byte list is the i-th base-256 digit of its value -/
theorem digit_of_evalBytes (l : List Int) (hl : AllIn 0 255 l) (i : Nat) (hi : i < l.length) :
    ((evalBytes l).toNat >>> (8 * i)) &&& 0xff = (l.getD i 0).toNat := by
  have hff : (0xff : Nat) = 2 ^ 8 - 1 := by decide
  rw [hff, Nat.and_two_pow_sub_one_eq_mod, Nat.shiftRight_eq_div_pow]
  induction l generalizing i with
  | nil => simp at hi
  | cons x xs ih =>
    have hx := hl x List.mem_cons_self
    have hxs : AllIn 0 255 xs := fun y hy => hl y (List.mem_cons_of_mem _ hy)
    have hnn : 0 ≤ evalBytes xs := by
      have := evalR_bounds 8 255 (by decide) xs hxs
      rw [evalBytes_eq]; exact this.1
    simp only [evalBytes]
    have e0 : (x + 256 * evalBytes xs).toNat = x.toNat + 256 * (evalBytes xs).toNat := by omega
    rw [e0]
    cases i with
    | zero => simp only [Nat.mul_zero, pow_zero, Nat.div_one, List.getD_cons_zero]; omega
    | succ j =>
      rw [List.getD_cons_succ, ← ih hxs j (by simpa using hi)]
      have e1 : 2 ^ (8 * (j + 1)) = 256 * 2 ^ (8 * j) := by rw [Nat.mul_add, pow_add]; ring
      rw [e1, ← Nat.div_div_eq_div_mul]
      congr 2
      omega

theorem range_map_congr {α} (n : Nat) (f g : Nat → α) (h : ∀ i, i < n → f i = g i) :
    (List.range n).map f = (List.range n).map g := by
  apply List.map_congr_left
  intro i hi
  exact h i (List.mem_range.mp hi)

/-- a 56-byte list with entries in 0..255 IS the RFC encoding of its value -/
theorem ofInts_eq_encode (l : List Int) (hlen : l.length = 56) (hl : AllIn 0 255 l) (v : Int)
    (hv : evalBytes l = v % p) : Model.X448.ofInts l = encodeUCoordinate v := by
  unfold encodeUCoordinate Model.X448.ofInts
  simp only
  rw [← hv]
  have e56 : (bits + 7) / 8 = 56 := by decide
  rw [e56]
  have : l = (List.range 56).map (fun i => l.getD i 0) := by
    apply List.ext_getElem
    · simp [hlen]
    · intro i h1 h2
      simp only [List.getElem_map, List.getElem_range]
      rw [List.getD_eq_getElem?_getD, List.getElem?_eq_getElem h1]; rfl
  conv_lhs => rw [this]
  rw [List.map_map]
  apply range_map_congr
  intro i hi
  simp only [Function.comp]
  rw [digit_of_evalBytes l hl i (by omega)]

/-! ### decode ∘ encode -/

theorem decode_digits (n N : Nat) :
    decodeLittleEndian ((List.range n).map fun i => (N >>> (8 * i)) &&& 0xff) = N % 256 ^ n := by
  induction n generalizing N with
  | zero => simp [decodeLittleEndian, Nat.mod_one]
  | succ n ih =>
    rw [List.range_succ_eq_map, List.map_cons, List.map_map, decodeLittleEndian]
    have hf : ((fun i => N >>> (8 * i) &&& 0xff) ∘ Nat.succ) = fun i => ((N / 256) >>> (8 * i)) &&& 0xff := by
      funext i
      simp only [Function.comp, Nat.shiftRight_eq_div_pow]
      have : 2 ^ (8 * i.succ) = 256 * 2 ^ (8 * i) := by rw [Nat.mul_succ, pow_add]; ring
      rw [this, Nat.div_div_eq_div_mul]
    rw [hf, ih]
    have hff : (0xff : Nat) = 2 ^ 8 - 1 := by decide
    simp only [Nat.mul_zero, Nat.shiftRight_zero]
    have e : 256 ^ (n + 1) = 256 * 256 ^ n := by rw [pow_succ]; ring
    rw [hff, Nat.and_two_pow_sub_one_eq_mod, e, Nat.mod_mul]

theorem decode_encode (v : Int) : decodeUCoordinate (encodeUCoordinate v) = v % p := by
  unfold decodeUCoordinate encodeUCoordinate
  simp only
  rw [List.map_map]
  have hlt : ∀ i, ((v % p).toNat >>> (8 * i)) &&& 0xff < 256 := by
    intro i
    have hff : (0xff : Nat) = 2 ^ 8 - 1 := by decide
    rw [hff, Nat.and_two_pow_sub_one_eq_mod]; omega
  have hf : (UInt8.toNat ∘ fun i => UInt8.ofNat (((v % p).toNat >>> (8 * i)) &&& 0xff))
      = fun i => ((v % p).toNat >>> (8 * i)) &&& 0xff := by
    funext i
    simp only [Function.comp]
    rw [UInt8.toNat_ofNat']
    exact Nat.mod_eq_of_lt (hlt i)
  rw [hf, decode_digits]
  have h0 : 0 ≤ v % p := Int.emod_nonneg _ (by decide)
  have h1 : v % p < p := Int.emod_lt_of_pos _ (by decide)
  have e56 : (bits + 7) / 8 = 56 := by decide
  rw [e56]
  have hp : p < 256 ^ 56 := by decide
  have : (v % p).toNat < 256 ^ 56 := by
    have : ((v % p).toNat : Int) < ((256 ^ 56 : Nat) : Int) := by push_cast; omega
    exact_mod_cast this
  rw [Nat.mod_eq_of_lt this]
  simp only [Int.ofNat_eq_natCast]
  omega

end C14
