import GoatProofs.Lemmas.C08Generic
/-
Octet key pairs (kty "OKP": Ed25519, Ed448, X25519, X448): MarshalJSON closed form, registered
representation, ParseMap.
-/
namespace C08
open Model.JWK Spec.IANA Gen.Consts

def specOkp : Okp → OKPCurve
  | .ed25519 => .ed25519 | .ed448 => .ed448 | .x25519 => .x25519 | .x448 => .x448

theorem okp_facts (c : Okp) :
    c.crv = (specOkp c).name ∧ c.len = (specOkp c).len ∧ okpOfCrv (specOkp c).name = some c := by
  cases c <;> decide

/-- the private key object goat holds: seed ‖ public -/
def okpPriv (c : Okp) (x : Bytes) : Option Bytes → GoPriv
  | some dv => c.mkPriv (dv ++ x)
  | none => .none

def IsOkpKey (k : Key) (c : Okp) (x : Bytes) (d : Option Bytes) : Prop :=
  k.pub = c.mkPub x ∧ k.priv = okpPriv c x d

/-- exact lengths, and the seed generates the public value (derivation oracle) -/
structure OkpOK (o : Oracle) (c : Okp) (x : Bytes) (d : Option Bytes) : Prop where
  xlen : x.length = c.len
  priv : ∀ dv, d = some dv → dv.length = c.len ∧ (o ⟨c.derive, [.bytes dv]⟩).asBytes = x

def okpObj (o : Oracle) (k : Key) (c : Okp) (x : Bytes) (d : Option Bytes) : Obj :=
  osetOpt (oset (oset (oset (commonObj o k.raw k) "kty" (.str jwa.OKP)) "crv" (.str c.crv)) "x" (.str (encS o x)))
    "d" (d.map fun dv => .str (encS o dv))

theorem take_seed (dv x : Bytes) (n : Nat) (h : dv.length = n) : (dv ++ x).take n = dv := by
  subst h; simp

theorem marshal_okp (o : Oracle) (k : Key) (c : Okp) (x : Bytes) (d : Option Bytes)
    (hk : IsOkpKey k c x d) (E : OkpOK o c x d) : (marshalFrom k).run o = .ok (okpObj o k c x d) := by
  obtain ⟨hp, hq⟩ := hk
  have hx := E.xlen
  unfold marshalFrom
  simp only [PO.run_bind, run_encodeCommon, hp, hq]
  cases d with
  | none =>
    cases c <;>
      simp [okpPriv, Okp.mkPub, encodeMaterial, encodeEd, encodeX, validateOkpPub, okpObj, osetOpt, Okp.len, Okp.crv] <;>
      simp_all [Okp.len]
  | some dv =>
    obtain ⟨hd, hder⟩ := E.priv dv rfl
    have hlen : (dv ++ x).length = c.len + c.len := by simp [hd, hx]
    have ht := take_seed dv x c.len hd
    have hnl : ¬ ((dv ++ x).length < c.len) := by omega
    cases c <;>
      simp [okpPriv, Okp.mkPub, Okp.mkPriv, encodeMaterial, encodeEd, encodeX, validateOkpPub, validateOkpPriv, derivePub,
        okpObj, osetOpt, Okp.len, Okp.crv, Okp.derive] <;>
      simp_all [Okp.len, Okp.derive]

theorem okpObj_registered (o : Oracle) (k : Key) (c : Okp) (x : Bytes) (d : Option Bytes) (name : String) :
    Wire.lookup name (okpObj o k c x d) =
      Wire.lookup name (specEncode (encS o) (encStdS o) (.okp (specOkp c) x d) (specParams o k) k.raw) := by
  obtain ⟨hcrv, _, _⟩ := okp_facts c
  unfold okpObj
  simp only [lookup_osetOpt, lookup_oset]
  by_cases h1 : name = "d"
  · subst h1
    cases d with
    | some dv => simp [specEncode, materialMembers, Wire.lookup, mKty, mCrv, mX, mD, optMember]
    | none =>
      rw [lookup_spec_mat _ _ _ _ _ _ (by decide)]
      simp [materialMembers, Wire.lookup, mCrv, mX, mD, optMember]
      rw [lookup_commonObj _ _ _ _ (by decide)]
      simp [paramMembers, lookup_append, lookup_optMember, mKid, mUse, mKeyOps, mAlg, mX5u, mX5c, mX5t, mX5tS256]
  by_cases h3 : name = "x"
  · subst h3; simp [specEncode, materialMembers, Wire.lookup, mKty, mCrv, mX]
  by_cases h4 : name = "crv"
  · subst h4; simp [specEncode, materialMembers, Wire.lookup, mKty, mCrv, hcrv]
  by_cases h5 : name = "kty"
  · subst h5; simp [specEncode, Wire.lookup, mKty, KeyMaterial.kty, ktyOKP]; decide
  rw [if_neg h1, if_neg h3, if_neg h4, if_neg h5, lookup_commonObj _ _ _ _ h5]
  cases d <;> simp [specEncode, materialMembers, Wire.lookup, mKty, mCrv, mX, mD, optMember, lookup_append, h1, h3, h4, h5]

/-- ParseMap of an object with the registered members of an OKP key -/
theorem parse_okp (o : Oracle) (L : Laws o) (m extras : Obj) (cp : CP) (c : Okp) (x : Bytes) (d : Option Bytes)
    (hm : HasMembers o m (.okp (specOkp c) x d) cp extras) (hcl : Clean extras) (K : CommonOK o cp)
    (E : OkpOK o c x d) (hcert : ∀ c0, cp.certs.head? = some c0 → c0.pub = c.mkPub x) :
    (parseMap m).run o = .ok { cp.key m ktyOKP with pub := c.mkPub x, priv := okpPriv c x d } := by
  obtain ⟨_, _, hof⟩ := okp_facts c
  have hdc := run_decodeCommon_members o L m extras _ cp hm hcl K
  have lcrv : Wire.lookup "crv" m = some (.str (specOkp c).name) := by
    rw [lookup_member o m extras _ cp hm hcl "crv" (by decide)]
    simp [materialMembers, Wire.lookup, mCrv]
  have lx : Wire.lookup "x" m = some (.str (encS o x)) := by
    rw [lookup_member o m extras _ cp hm hcl "x" (by decide)]
    simp [materialMembers, Wire.lookup, mCrv, mX]
  have ld : Wire.lookup "d" m = d.map (fun b => Wire.str (encS o b)) := by
    rw [lookup_member o m extras _ cp hm hcl "d" (by decide)]
    cases d <;> simp [materialMembers, Wire.lookup, mCrv, mX, mD, optMember]
  have hcm := run_certMatches o (c.mkPub x) cp m ktyOKP hcert
  have hx : ¬ (x.length ≠ c.len) := by simp [E.xlen]
  rw [parseMap_okp o m _ hdc rfl]
  unfold parseOkp
  simp only [PO.run_bind, run_mustString o m "crv" _ lcrv, hof]
  unfold parseOkpCurve
  simp only [PO.run_bind, run_mustBytes o L m "x" x lx, hx, if_false, run_getBytes_opt o L m "d" d ld]
  cases d with
  | none => simp [okpPriv, hcm, KeyMaterial.kty]
  | some dv =>
    obtain ⟨hd, hder⟩ := E.priv dv rfl
    have hd' : ¬ (dv.length ≠ c.len) := by simp [hd]
    simp [okpPriv, hcm, KeyMaterial.kty, hd', derivePub, hder]

end C08
