import Goat.Model.Custom
/-
Index paths of `typeFields`: every flattened field's index path is valid for the type it was
computed from (each step selects an existing field of the struct reached so far, looking through at
most one embedded pointer), and the recorded field type is the type found at the end of the path.
Consequently the field walk of the two reflect walkers (`walkGet`) never reaches
`reflect.Value.Field` with an index out of range, for any value.
-/
namespace GoatProofs.Lemmas.C10Paths
open Model Model.Custom

/-- the type found by following an index path (through one pointer per step, as the walkers do) -/
def typeAt : List Nat → Ty → Option Ty
  | [], t => some t
  | i :: r, t =>
    match fieldAt (derefOnce t) i with
    | none => none
    | some fd => typeAt r fd.ty

theorem typeAt_snoc (p : List Nat) (i : Nat) (t ty : Ty) (fd : Field)
    (hp : typeAt p t = some ty) (hf : fieldAt (derefOnce ty) i = some fd) :
    typeAt (p ++ [i]) t = some fd.ty := by
  induction p generalizing t with
  | nil =>
    simp only [typeAt, Option.some.injEq] at hp
    subst hp
    simp [typeAt, hf]
  | cons j r ih =>
    simp only [List.cons_append, typeAt] at hp ⊢
    cases hj : fieldAt (derefOnce t) j with
    | none => rw [hj] at hp; cases hp
    | some fj =>
      rw [hj] at hp
      simp only at hp ⊢
      exact ih fj.ty hp

variable (root : Ty)

/-- an emitted field: its path is valid from the root and ends at the recorded type -/
def FieldOK (f : FlatField) : Prop := typeAt f.index root = some f.ty

/-- a queued anonymous struct: its path is valid and its field list is that of the struct there -/
def ItemOK (it : QItem) : Prop :=
  ∃ ty, typeAt it.index root = some ty ∧
    ∀ k fd, it.fields[k]? = some fd → fieldAt (derefOnce ty) k = some fd

def StateOK (st : ScanState) : Prop := (∀ f ∈ st.out, FieldOK root f) ∧ (∀ it ∈ st.next, ItemOK root it)

theorem scanField_out (dup : Bool) (pre : List Nat) (i : Nat) (fd : Field) (st : ScanState) :
    ∀ f ∈ (scanField dup pre i fd st).out, f ∈ st.out ∨ f = ⟨fd.tag, pre ++ [i], fd.ty⟩ := by
  intro f hf
  unfold scanField at hf
  simp +zetaHave only at hf
  split at hf
  · exact Or.inl hf
  · split at hf
    · exact Or.inl hf
    · split at hf
      · split at hf
        · exact Or.inl hf
        · simp only [List.mem_append] at hf
          rcases hf with h | h
          · exact Or.inl h
          · right
            split at h
            · simp at h; exact h
            · simp at h; exact h
      · split at hf <;> exact Or.inl hf

theorem scanField_next (dup : Bool) (pre : List Nat) (i : Nat) (fd : Field) (st : ScanState) :
    ∀ it ∈ (scanField dup pre i fd st).next, it ∈ st.next ∨
      it = ⟨pre ++ [i], tyId (derefOnce fd.ty), structFields (derefOnce fd.ty)⟩ := by
  intro it hf
  unfold scanField at hf
  simp +zetaHave only at hf
  split at hf
  · exact Or.inl hf
  · split at hf
    · exact Or.inl hf
    · split at hf
      · split at hf
        · exact Or.inl hf
        · exact Or.inl hf
      · split at hf
        · simp only [List.mem_append, List.mem_singleton] at hf
          exact hf
        · exact Or.inl hf

theorem scanField_ok (dup : Bool) (pre : List Nat) (ty : Ty) (i : Nat) (fd : Field) (st : ScanState)
    (hp : typeAt pre root = some ty) (hf : fieldAt (derefOnce ty) i = some fd) (hs : StateOK root st) :
    StateOK root (scanField dup pre i fd st) := by
  have hidx : typeAt (pre ++ [i]) root = some fd.ty := typeAt_snoc pre i root ty fd hp hf
  refine ⟨?_, ?_⟩
  · intro f hfm
    rcases scanField_out dup pre i fd st f hfm with h | h
    · exact hs.1 f h
    · subst h; exact hidx
  · intro it hit
    rcases scanField_next dup pre i fd st it hit with h | h
    · exact hs.2 it h
    · subst h
      refine ⟨fd.ty, hidx, ?_⟩
      intro k fk hk
      simpa [fieldAt] using hk

theorem scanFields_ok (dup : Bool) (pre : List Nat) (ty : Ty) (hp : typeAt pre root = some ty) :
    ∀ (rest : List Field) (i : Nat) (st : ScanState),
      (∀ k fd, rest[k]? = some fd → fieldAt (derefOnce ty) (i + k) = some fd) →
      StateOK root st → StateOK root (scanFields dup pre i rest st) := by
  intro rest
  induction rest with
  | nil => intro i st _ hs; exact hs
  | cons fd r ih =>
    intro i st hall hs
    unfold scanFields
    apply ih (i + 1)
    · intro k fk hk
      have := hall (k + 1) fk (by simpa using hk)
      rw [show i + 1 + k = i + (k + 1) by omega]
      exact this
    · exact scanField_ok root dup pre ty i fd st hp (by simpa using hall 0 fd (by simp)) hs

theorem scanLevel_ok (count : List (String × Nat)) :
    ∀ (items : List QItem) (visited : List String) (st : ScanState),
      (∀ it ∈ items, ItemOK root it) → StateOK root st →
      StateOK root (scanLevel count items visited st).2 := by
  intro items
  induction items with
  | nil => intro v st _ hs; exact hs
  | cons it r ih =>
    intro v st hit hs
    unfold scanLevel
    have hr : ∀ x ∈ r, ItemOK root x := fun x hx => hit x (List.mem_cons_of_mem _ hx)
    split
    · exact ih v st hr hs
    · apply ih _ _ hr
      obtain ⟨ty, hty, hfs⟩ := hit it List.mem_cons_self
      exact scanFields_ok root _ it.index ty hty it.fields 0 st
        (by intro k fd hk; simpa using hfs k fd hk) hs

theorem typeFieldsLoop_ok :
    ∀ (fuel : Nat) (current : List QItem) (count : List (String × Nat)) (visited : List String)
      (out : List FlatField),
      (∀ it ∈ current, ItemOK root it) → (∀ f ∈ out, FieldOK root f) →
      ∀ f ∈ typeFieldsLoop fuel current count visited out, FieldOK root f := by
  intro fuel
  induction fuel with
  | zero => intro current count visited out _ ho; simpa [typeFieldsLoop] using ho
  | succ n ih =>
    intro current count visited out hc ho
    unfold typeFieldsLoop
    cases current with
    | nil => simpa using ho
    | cons it r =>
      simp only
      have hs := scanLevel_ok root count (it :: r) visited ⟨out, [], []⟩ hc
        ⟨ho, by intro x hx; cases hx⟩
      exact ih _ _ _ _ hs.2 hs.1

/-- **typeFields_paths_valid** — every field of `typeFields t` has an index path that is valid for
    `t`, ending at the field's recorded type. -/
theorem typeFields_paths_valid (t : Ty) (f : FlatField) (hf : f ∈ typeFields t) :
    typeAt f.index t = some f.ty := by
  unfold typeFields at hf
  refine typeFieldsLoop_ok t _ _ _ _ _ ?_ ?_ f hf
  · intro it hit
    simp only [List.mem_singleton] at hit
    subst hit
    refine ⟨t, rfl, ?_⟩
    intro k fd hk
    simp only at hk
    cases t <;> simp [structFields] at hk <;> simpa [fieldAt, derefOnce, structFields] using hk
  · intro x hx; cases hx

/-- a valid path is walked without reaching `Field(i)` out of range, whatever the value looks like
    (nil embedded pointers are allocated or answered with the `CanSet` error) -/
theorem walkGet_no_panic (addr : Bool) :
    ∀ (idx : List Nat) (t : Ty) (canSet : Bool) (v : Val),
      (typeAt idx t).isSome → ∀ s, walkGet addr idx t canSet v ≠ .panic s := by
  intro idx
  induction idx with
  | nil => intro t c v _ s h; simp [walkGet] at h
  | cons i r ih =>
    intro t c v hv s
    simp only [typeAt] at hv
    cases hfd : fieldAt (derefOnce t) i with
    | none => rw [hfd] at hv; simp at hv
    | some fd =>
      rw [hfd] at hv
      simp only at hv
      have key : ∀ (c' : Bool) (sv : Val), walkGet addr r fd.ty c' sv ≠ .panic s :=
        fun c' sv => ih fd.ty c' sv hv s
      unfold walkGet
      cases t with
      | ptr e =>
        simp only [derefOnce] at hfd
        cases v with
        | ptr ov =>
          cases ov with
          | some x => simp only [hfd]; exact key _ _
          | none =>
            simp only
            split
            · simp only [hfd]; exact key _ _
            · intro h; cases h
        | _ =>
          simp only
          split
          · simp only [hfd]; exact key _ _
          · intro h; cases h
      | _ => simp only [derefOnce] at hfd; simp only [hfd]; exact key _ _

/-- the `hwalk` obligation of the custom codec: the paths `typeFields` computes are safe to walk in
    every value -/
theorem typeFields_walk_no_panic (t : Ty) (f : FlatField) (sv : Val) (addr canSet : Bool)
    (hf : f ∈ typeFields t) : ∀ s, walkGet addr f.index t canSet sv ≠ .panic s :=
  walkGet_no_panic addr f.index t canSet sv (by rw [typeFields_paths_valid t f hf]; rfl)

end GoatProofs.Lemmas.C10Paths
