import GoatProofs.Lemmas.C08Base
/-
`run` of the oracle wrappers and of the jsonutils getters/setters, in closed form.
-/
namespace C08
open Model.JWK

/-- the oracle's base64url encoder as a function -/
def encS (o : Oracle) (b : Bytes) : String :=
  Bytes.toStringLossy (o ⟨"b64url.enc", [.bytes b]⟩).asBytes
def encStdS (o : Oracle) (b : Bytes) : String :=
  Bytes.toStringLossy (o ⟨"b64std.enc", [.bytes b]⟩).asBytes
def hashS (o : Oracle) (name : String) (data : Bytes) : Bytes :=
  (o ⟨"hash", [.str name, .bytes data]⟩).asBytes

/-- oracle laws assumed by the round-trip theorems (each is exercised by the harness) -/
structure Laws (o : Oracle) : Prop where
  /-- base64url: dec (enc b) = b -/
  b64 : ∀ b, o ⟨"b64url.dec", [.bytes (Bytes.ofString (encS o b))]⟩ = .bytes b
  /-- standard base64: dec (enc b) = b -/
  b64std : ∀ b, o ⟨"b64std.dec", [.bytes (Bytes.ofString (encStdS o b))]⟩ = .bytes b

@[simp] theorem run_b64enc (o : Oracle) (b : Bytes) : (b64enc b).run o = .ok (encS o b) := by
  simp [b64enc, encS]
@[simp] theorem run_b64stdEnc (o : Oracle) (b : Bytes) : (b64stdEnc b).run o = .ok (encStdS o b) := by
  simp [b64stdEnc, encStdS]
@[simp] theorem run_hashOf (o : Oracle) (n : String) (b : Bytes) : (hashOf n b).run o = .ok (hashS o n b) := by
  simp [hashOf, hashS]
@[simp] theorem run_setBytes (o : Oracle) (m : Obj) (n : String) (b : Bytes) :
    (setBytes m n b).run o = .ok (oset m n (.str (encS o b))) := by
  simp [setBytes]
@[simp] theorem run_setBigInt (o : Oracle) (m : Obj) (n : String) (v : Nat) :
    (setBigInt m n v).run o = .ok (oset m n (.str (encS o (minBE v)))) := by
  simp [setBigInt]

theorem run_setFixed (o : Oracle) (m : Obj) (n : String) (i : Int) (size : Nat) (h : i.natAbs < 256 ^ size) :
    (setFixedBigInt m n i size).run o = .ok (oset m n (.str (encS o (Bytes.encodeBE size i.natAbs)))) := by
  have : ¬ (i.natAbs ≥ 256 ^ size) := by omega
  simp [setFixedBigInt, this]

theorem run_b64dec_enc (o : Oracle) (L : Laws o) (b : Bytes) : (b64dec (encS o b)).run o = .ok b := by
  simp [b64dec, L.b64]

theorem run_b64stdDec_enc (o : Oracle) (L : Laws o) (b : Bytes) : (b64stdDec (encStdS o b)).run o = .ok b := by
  simp [b64stdDec, L.b64std]

/-! getters on an object whose lookup is known -/

theorem run_getString_none (o : Oracle) (m : Obj) (n : String) (h : Wire.lookup n m = none) :
    (getString m n).run o = .ok none := by simp [getString, h]
theorem run_getString_some (o : Oracle) (m : Obj) (n s : String) (h : Wire.lookup n m = some (.str s)) :
    (getString m n).run o = .ok (some s) := by simp [getString, h]
theorem run_getString_opt (o : Oracle) (m : Obj) (n : String) (s : Option String)
    (h : Wire.lookup n m = s.map Wire.str) : (getString m n).run o = .ok s := by
  cases s with
  | none => exact run_getString_none o m n h
  | some s => exact run_getString_some o m n s h
theorem run_mustString (o : Oracle) (m : Obj) (n s : String) (h : Wire.lookup n m = some (.str s)) :
    (mustString m n).run o = .ok s := by simp [mustString, h]

theorem strings_map (l : List String) : strings (l.map Wire.str) = some l := by
  induction l with
  | nil => rfl
  | cons a t ih => simp [strings, ih]

theorem run_getStringArray_opt (o : Oracle) (m : Obj) (n : String) (l : Option (List String))
    (h : Wire.lookup n m = l.map (fun l => Wire.arr (l.map Wire.str))) :
    (getStringArray m n).run o = .ok l := by
  cases l with
  | none => simp [getStringArray, h]
  | some l => simp [getStringArray, h, strings_map]

theorem run_getBytes_opt (o : Oracle) (L : Laws o) (m : Obj) (n : String) (b : Option Bytes)
    (h : Wire.lookup n m = b.map (fun b => Wire.str (encS o b))) : (getBytes m n).run o = .ok b := by
  cases b with
  | none => simp [getBytes, run_getString_none o m n h]
  | some b => simp [getBytes, run_getString_some o m n _ h, run_b64dec_enc o L]

theorem run_mustBytes (o : Oracle) (L : Laws o) (m : Obj) (n : String) (b : Bytes)
    (h : Wire.lookup n m = some (.str (encS o b))) : (mustBytes m n).run o = .ok b := by
  simp [mustBytes, run_mustString o m n _ h, run_b64dec_enc o L]

theorem run_mustBigInt (o : Oracle) (L : Laws o) (m : Obj) (n : String) (b : Bytes)
    (h : Wire.lookup n m = some (.str (encS o b))) : (mustBigInt m n).run o = .ok (Bytes.decodeBE b) := by
  simp [mustBigInt, run_mustBytes o L m n b h]

theorem run_getBigInt_opt (o : Oracle) (L : Laws o) (m : Obj) (n : String) (b : Option Bytes)
    (h : Wire.lookup n m = b.map (fun b => Wire.str (encS o b))) :
    (getBigInt m n).run o = .ok (b.map Bytes.decodeBE) := by
  cases b with
  | none => simp [getBigInt, run_getBytes_opt o L m n none h]
  | some b => simp [getBigInt, run_getBytes_opt o L m n (some b) h]

end C08
