import GoatProofs.C10
/-
C02 — the claims step of the assembled JWT round trip, taken from property C10:
`GoatProofs.C10.claims_roundtrip` (encodeClaims >>= parseClaims returns the claims that were set:
iss, sub, aud, exp/nbf/iat to the nanosecond, jti, extra members) in the form
`Model.JWT.jwt_sign_parse_roundtrip_step` consumes.  Nothing of the claims model is unfolded here, so
this file does not depend on how `Model.JWTClaims` is written.
-/
namespace C02Time
open Model Model.JWTClaims GoatProofs.Lemmas.C10ClaimsRT

/-- the claims `parseClaims` returns for `c` (its own fields; `Raw` = the decoded object) -/
def back (c : Claims) (kvs' : List (String × Wire)) : Claims :=
  ⟨c.iss, c.sub, c.aud, c.exp, c.nbf, c.iat, c.jti, .obj kvs'⟩

/-- C10's `claims_roundtrip`, as "whatever bytes `encodeClaims c` produced, `parseClaims` of them is `c`" -/
theorem claims_step (o : Oracle) (c : Claims)
    (hclean : RawClean c) (he : TimeOK c.exp) (hn : TimeOK c.nbf) (hi : TimeOK c.iat)
    (payload : Bytes) (kvs' : List (String × Wire))
    (hmarshal : o ⟨"json.marshal", [.obj (theMap c)]⟩ = .bytes payload)
    (hdecode : o ⟨"json.decodeMap", [.bytes payload]⟩ = .obj kvs')
    (hjson : ∀ k, Wire.lookup k kvs' = Wire.lookup k (theMap c))
    (hviss : o ⟨"verifyIssuer", [.str c.iss, .str c.sub]⟩ = .bool true)
    (hvaud : o ⟨"verifyAudience", [.arr (c.aud.map Wire.str)]⟩ = .bool true)
    (hexp : c.exp ≠ NumericDate.zeroTime → (o ⟨"now", []⟩).asInt < c.exp)
    (hnbf : c.nbf ≠ NumericDate.zeroTime → ¬ (o ⟨"now", []⟩).asInt < c.nbf) :
    ∀ pl, (encodeClaims c).run o = .ok pl → (parseClaims pl).run o = .ok (back c kvs') := by
  intro pl hpl
  have h := GoatProofs.C10.claims_roundtrip o c hclean he hn hi payload kvs' hmarshal hdecode hjson
    hviss hvaud hexp hnbf
  rw [PO.run_bind_ok o _ _ _ hpl] at h
  exact h

end C02Time
