import GoatProofs.C04
import GoatProofs.C10
/-
C02 — the time claims (exp, nbf, iat) of a JWT through `encodeClaims` (C10) and `parseClaims`
(C04/C10): whatever instant was set comes back to the nanosecond.  A corollary of C10's
`numericDate_roundtrip` (every instant of the accepted range, any nanosecond part) and C04's
`finish_ok`.
-/
namespace C02Time
open Model Model.JWTClaims GoatProofs.Lemmas.C10Claims GoatProofs.Lemmas.C04Dec

/-- string-level: what `MarshalJSON` wrote, `UnmarshalJSON` reads back as the same instant -/
theorem decode_of_encode (t : Int) (s : String) (h : NumericDate.encode t = .ok s) :
    NumericDate.decode s = .ok t := by
  unfold NumericDate.encode at h
  cases he : NumericDate.encodeChars t with
  | ok cs =>
    rw [he] at h
    simp only [Outcome.bind] at h
    injection h with h
    subst h
    unfold NumericDate.decode
    rw [String.toList_ofList]
    exact GoatProofs.C10.numericDate_roundtrip_of_encode t cs he
  | err c => rw [he] at h; cases h
  | panic p => rw [he] at h; cases h

/-- what `Encoder.SetTime` leaves under `name` and under every other name -/
theorem setTime_lookup (name : String) (t : Int) (st : List (String × Wire) × Option String)
    (hok : (setTime name t st).2 = none) :
    st.2 = none ∧
    (t ≠ NumericDate.zeroTime → ∃ s, NumericDate.encode t = .ok s ∧
      Wire.lookup name (setTime name t st).1 = some (.num s)) ∧
    (t = NumericDate.zeroTime → (setTime name t st).1 = st.1) ∧
    (∀ k, k ≠ name → Wire.lookup k (setTime name t st).1 = Wire.lookup k st.1) := by
  unfold setTime at hok ⊢
  by_cases hz : t = NumericDate.zeroTime
  · rw [if_pos hz] at hok
    simp only [if_pos hz]
    exact ⟨hok, fun h => absurd hz h, fun _ => trivial, fun _ _ => trivial⟩
  · rw [if_neg hz] at hok
    simp only [if_neg hz]
    cases he : NumericDate.encode t with
    | ok s =>
      simp only [he] at hok ⊢
      exact ⟨hok, fun _ => ⟨s, rfl, lookup_setKey_same _ _ _⟩, fun h => absurd h hz,
        fun k hk => lookup_setKey_ne _ _ _ _ hk⟩
    | err c =>
      simp only [he] at hok
      cases hs : st.2 <;> simp [hs] at hok
    | panic p =>
      simp only [he] at hok
      cases hs : st.2 <;> simp [hs] at hok

/-- the members of `Claims.Raw` (what `encodeClaims` starts from) -/
def rawMembers (c : Claims) : List (String × Wire) := match c.raw with | .obj kvs => kvs | _ => []

/-- what `encodeClaims` leaves under a time-claim name `name` for the instant `t` -/
def TimeMember (c : Claims) (name : String) (t : Int) (m : List (String × Wire)) : Prop :=
  (t ≠ NumericDate.zeroTime → ∃ s, NumericDate.encode t = .ok s ∧ Wire.lookup name m = some (.num s)) ∧
  (t = NumericDate.zeroTime → Wire.lookup name m = Wire.lookup name (rawMembers c))

/-- the map handed to `json.Marshal`: `exp`, `nbf`, `iat` hold the NumericDate text of the instants
    (an unset one leaves whatever `Raw` has under that name) -/
theorem claimsMap_times (c : Claims) (m : List (String × Wire)) (h : claimsMap c = .ok m) :
    TimeMember c "exp" c.exp m ∧ TimeMember c "nbf" c.nbf m ∧ TimeMember c "iat" c.iat m := by
  unfold claimsMap at h
  simp only at h
  generalize hm3 : setAud c.aud
      (if c.sub ≠ "" then setKey "sub" (.str c.sub) (if c.iss ≠ "" then setKey "iss" (.str c.iss)
          (match c.raw with | .obj kvs => kvs | _ => []) else (match c.raw with | .obj kvs => kvs | _ => []))
       else (if c.iss ≠ "" then setKey "iss" (.str c.iss)
          (match c.raw with | .obj kvs => kvs | _ => []) else (match c.raw with | .obj kvs => kvs | _ => []))) = m3 at h
  -- members other than iss/sub/aud are those of Raw
  have hm3l : ∀ k, k ≠ "iss" → k ≠ "sub" → k ≠ "aud" → Wire.lookup k m3 = Wire.lookup k (rawMembers c) := by
    intro k h1 h2 h3
    rw [← hm3, GoatProofs.C10.claims_aud_preserves _ _ k h3]
    have gen : ∀ m0 : List (String × Wire), Wire.lookup k
        (if c.sub ≠ "" then setKey "sub" (.str c.sub) (if c.iss ≠ "" then setKey "iss" (.str c.iss) m0 else m0)
         else (if c.iss ≠ "" then setKey "iss" (.str c.iss) m0 else m0)) = Wire.lookup k m0 := by
      intro m0
      by_cases hs : c.sub ≠ ""
      · rw [if_pos hs, lookup_setKey_ne _ _ _ _ h2]
        by_cases hi : c.iss ≠ ""
        · rw [if_pos hi, lookup_setKey_ne _ _ _ _ h1]
        · rw [if_neg hi]
      · rw [if_neg hs]
        by_cases hi : c.iss ≠ ""
        · rw [if_pos hi, lookup_setKey_ne _ _ _ _ h1]
        · rw [if_neg hi]
    exact gen _
  generalize hst : setTime "iat" c.iat (setTime "nbf" c.nbf (setTime "exp" c.exp (m3, none))) = st at h
  cases hs2 : st.2 with
  | some e => rw [hs2] at h; cases h
  | none =>
    rw [hs2] at h
    simp only at h
    injection h with h
    -- peel the three SetTime calls
    have hI := setTime_lookup "iat" c.iat (setTime "nbf" c.nbf (setTime "exp" c.exp (m3, none))) (by rw [hst]; exact hs2)
    have hN := setTime_lookup "nbf" c.nbf (setTime "exp" c.exp (m3, none)) hI.1
    have hE := setTime_lookup "exp" c.exp (m3, none) hN.1
    rw [hst] at hI
    -- jti is written last, under another name
    have hjti : ∀ k, k ≠ "jti" → Wire.lookup k m = Wire.lookup k st.1 := by
      intro k hk
      rw [← h]
      by_cases hj : c.jti ≠ ""
      · rw [if_pos hj]; exact lookup_setKey_ne _ _ _ _ hk
      · rw [if_neg hj]
    refine ⟨⟨?_, ?_⟩, ⟨?_, ?_⟩, ⟨?_, ?_⟩⟩
    · intro hz
      obtain ⟨s, hs, hl⟩ := hE.2.1 hz
      refine ⟨s, hs, ?_⟩
      rw [hjti "exp" (by decide), hI.2.2.2 "exp" (by decide), hN.2.2.2 "exp" (by decide)]; exact hl
    · intro hz
      rw [hjti "exp" (by decide), hI.2.2.2 "exp" (by decide), hN.2.2.2 "exp" (by decide), hE.2.2.1 hz]
      exact hm3l "exp" (by decide) (by decide) (by decide)
    · intro hz
      obtain ⟨s, hs, hl⟩ := hN.2.1 hz
      refine ⟨s, hs, ?_⟩
      rw [hjti "nbf" (by decide), hI.2.2.2 "nbf" (by decide)]; exact hl
    · intro hz
      rw [hjti "nbf" (by decide), hI.2.2.2 "nbf" (by decide), hN.2.2.1 hz, hE.2.2.2 "nbf" (by decide)]
      exact hm3l "nbf" (by decide) (by decide) (by decide)
    · intro hz
      obtain ⟨s, hs, hl⟩ := hI.2.1 hz
      exact ⟨s, hs, by rw [hjti "iat" (by decide)]; exact hl⟩
    · intro hz
      rw [hjti "iat" (by decide), hI.2.2.1 hz, hN.2.2.2 "iat" (by decide), hE.2.2.2 "iat" (by decide)]
      exact hm3l "iat" (by decide) (by decide) (by decide)

/-- what `parseClaims` read under a time-claim name -/
def TimeRead (raw : List (String × Wire)) (name : String) (t : Int) : Prop :=
  (∀ v, Wire.lookup name raw = some v → ∃ s, v = .num s ∧ NumericDate.decode s = .ok t) ∧
  (Wire.lookup name raw = none → t = NumericDate.zeroTime)

/-- a successful `parseClaims` read its three time claims from the decoded JSON object (C04 `finish_ok`) -/
theorem parseClaims_times (o : Oracle) (payload : Bytes) (c' : Claims)
    (h : (parseClaims payload).run o = .ok c') :
    ∃ raw, rawMap (o ⟨"json.decodeMap", [.bytes payload]⟩) = some raw ∧
      TimeRead raw "exp" c'.exp ∧ TimeRead raw "nbf" c'.nbf ∧ TimeRead raw "iat" c'.iat := by
  unfold parseClaims at h
  simp only [PO.run_bind, PO.run_query] at h
  cases hr : rawMap (o ⟨"json.decodeMap", [.bytes payload]⟩) with
  | none => simp [hr] at h
  | some raw =>
    simp only [hr] at h
    generalize hd3 : (audience (getString (getString ⟨raw, none⟩ "iss").2.2 "sub").2.2) = a at h
    simp only [PO.run_bind, PO.run_query] at h
    generalize o ⟨"verifyIssuer", [.str (getString ⟨raw, none⟩ "iss").1,
        .str (getString (getString ⟨raw, none⟩ "iss").2.2 "sub").1]⟩ = vi at h
    have hvi : vi = .bool true := by
      cases vi with
      | bool b => cases b with
        | true => rfl
        | false => simp at h
      | _ => simp at h
    subst hvi
    simp only [PO.run_bind, PO.run_query] at h
    generalize o ⟨"verifyAudience", [.arr (a.1.map Wire.str)]⟩ = va at h
    have hva : va = .bool true := by
      cases va with
      | bool b => cases b with
        | true => rfl
        | false => simp at h
      | _ => simp at h
    subst hva
    simp only [PO.run_ofOutcome] at h
    have hraw : a.2.raw = raw := by
      rw [← hd3, audience_raw, getString_raw, getString_raw]
    obtain ⟨_, _, _, _, _, e1, e2, n1, n2, i1, i2, _, _⟩ := GoatProofs.C04.finish_ok _ _ _ _ _ _ c' h
    rw [hraw] at e1 e2 n1 n2 i1 i2
    refine ⟨raw, rfl, ⟨?_, e2⟩, ⟨?_, n2⟩, ⟨?_, i2⟩⟩
    · intro v hv
      obtain ⟨⟨s, hs, hd, _⟩, _⟩ := e1 v hv
      exact ⟨s, hs, hd⟩
    · intro v hv
      obtain ⟨⟨s, hs, hd, _⟩, _⟩ := n1 v hv
      exact ⟨s, hs, hd⟩
    · intro v hv
      obtain ⟨s, hs, hd, _⟩ := i1 v hv
      exact ⟨s, hs, hd⟩

/-- written as `TimeMember`, read as `TimeRead` from a lookup-equivalent object ⇒ the same instant -/
theorem time_member_read (c : Claims) (name : String) (t t' : Int) (m raw : List (String × Wire))
    (hm : TimeMember c name t m) (hr : TimeRead raw name t')
    (heq : Wire.lookup name raw = Wire.lookup name m)
    (hunset : t = NumericDate.zeroTime → Wire.lookup name (rawMembers c) = none) : t' = t := by
  by_cases hz : t = NumericDate.zeroTime
  · have : Wire.lookup name raw = none := by rw [heq, hm.2 hz]; exact hunset hz
    rw [hr.2 this, hz]
  · obtain ⟨s, hs, hl⟩ := hm.1 hz
    obtain ⟨s', hs', hd⟩ := hr.1 (.num s) (by rw [heq]; exact hl)
    injection hs' with hs'
    subst hs'
    have := decode_of_encode t s hs
    rw [this] at hd
    injection hd with hd
    exact hd.symm

/-- **the time claims survive `encodeClaims` → `parseClaims` to the nanosecond** (every instant the
    encoder accepts, any nanosecond part, either sign).  Hypotheses: the JSON law on the claims
    object (`hjson`: decoding what was marshalled gives an object with the same members), unset
    claims have no stray member in `Raw` (`hunset`), and the claims step succeeded (`hparse`:
    verifiers accepted, clock inside the validity window — property C04). -/
theorem time_claims_roundtrip (o : Oracle) (c c' : Claims) (payload : Bytes)
    (henc : (encodeClaims c).run o = .ok payload)
    (hjson : ∀ m raw, claimsMap c = .ok m → rawMap (o ⟨"json.decodeMap", [.bytes payload]⟩) = some raw →
      ∀ k, Wire.lookup k raw = Wire.lookup k m)
    (hunset : ∀ name, name = "exp" ∨ name = "nbf" ∨ name = "iat" → Wire.lookup name (rawMembers c) = none)
    (hparse : (parseClaims payload).run o = .ok c') :
    c'.exp = c.exp ∧ c'.nbf = c.nbf ∧ c'.iat = c.iat := by
  have hm : ∃ m, claimsMap c = .ok m := by
    unfold encodeClaims at henc
    cases hc : claimsMap c with
    | ok m => exact ⟨m, rfl⟩
    | err e => rw [hc] at henc; simp at henc
    | panic p => rw [hc] at henc; simp at henc
  obtain ⟨m, hm⟩ := hm
  obtain ⟨hE, hN, hI⟩ := claimsMap_times c m hm
  obtain ⟨raw, hraw, rE, rN, rI⟩ := parseClaims_times o payload c' hparse
  have heq := hjson m raw hm hraw
  exact ⟨time_member_read c "exp" _ _ m raw hE rE (heq _) (fun _ => hunset _ (Or.inl rfl)),
    time_member_read c "nbf" _ _ m raw hN rN (heq _) (fun _ => hunset _ (Or.inr (Or.inl rfl))),
    time_member_read c "iat" _ _ m raw hI rI (heq _) (fun _ => hunset _ (Or.inr (Or.inr rfl)))⟩

end C02Time
