import GoatProofs.C18
/-
C18: constructors / pure-overwrite methods of the field element do not depend on the receiver's old
content.  `One`, `Zero`, `Set` are regenerated programs whose inputs include the OLD receiver fields; the
theorems below evaluate them on SYMBOLIC old fields (so a field the Go code does not write breaks them).
For the other overwriting methods (`Add`, `Neg`, `Mul`, `Square`, `Inv`, `Select`, `SetBytes` …) the independence from
the receiver's old content is checked by the harness (receiver pre-loaded with arbitrary words).
-/
namespace C18
open Model.Fe256 Reflect

/-- `One()` on a receiver holding ANY four words yields exactly [1,0,0,0] -/
theorem oneP_spec (a b c d : Int) : oneP [a, b, c, d] = one := rfl
/-- `Zero()` on a receiver holding ANY four words yields exactly [0,0,0,0] -/
theorem zeroP_spec (a b c d : Int) : zeroP [a, b, c, d] = zero := rfl
/-- `Set(x)` on a receiver holding ANY four words yields exactly x -/
theorem setP_spec (a b c d x0 x1 x2 x3 : Int) : setP [a, b, c, d] [x0, x1, x2, x3] = [x0, x1, x2, x3] := rfl

theorem oneP_rep (a b c d : Int) : Rep (oneP [a, b, c, d]) 1 := by rw [oneP_spec]; exact one_rep
theorem zeroP_rep (a b c d : Int) : Rep (zeroP [a, b, c, d]) 0 := by rw [zeroP_spec]; exact zero_rep

end C18
