import Goat.Gen.Fe256Facts
/-
C18 — the BITWISE helpers of curve256k1/field (Equal, IsZero, Select, Swap, Set, One, Zero) have no limb
program (the reflective IR has no xor / or): `Model.Fe256.equal`, `isZero` (`isZeroWord`), `select`, `swap` …
were written from the Go statements below.  The statements are REGENERATED from the source on every run
(translator/fe256facts.go: identifiers by role — receiver `r`, parameters `p0 …`, locals `t0 …` —, white space
collapsed) and pinned here, so a rewritten zero-test idiom, mask or limb assignment breaks this obligation
even where no generated input distinguishes it (seed C15-N: `((c ^ -c) >> 63) ^ 1`, wrong only at c = 2^63).
A textual pin: it ties the TEXT the models were written from, the correspondence runs tie the values.
-/
namespace C18
set_option maxRecDepth 1000000

theorem bitwise_helpers_pinned :
    Gen.Fe256Facts.equal = [
  "var t0 uint64",
  "t0 |= r.l0 ^ p0.l0",
  "t0 |= r.l1 ^ p0.l1",
  "t0 |= r.l2 ^ p0.l2",
  "t0 |= r.l3 ^ p0.l3",
  "t0 = (t0 & 0xFFFFFFFF) | (t0 >> 32)",
  "t0--",
  "return int(t0 >> 63)"
    ] ∧
    Gen.Fe256Facts.isZero = [
  "var t0 uint64",
  "t0 |= r.l0",
  "t0 |= r.l1",
  "t0 |= r.l2",
  "t0 |= r.l3",
  "t0 = (t0 & 0xFFFFFFFF) | (t0 >> 32)",
  "t0--",
  "return int(t0 >> 63)"
    ] ∧
    Gen.Fe256Facts.select = [
  "t0 := -uint64(p2)",
  "r.l0 = (t0 & p0.l0) | (^t0 & p1.l0)",
  "r.l1 = (t0 & p0.l1) | (^t0 & p1.l1)",
  "r.l2 = (t0 & p0.l2) | (^t0 & p1.l2)",
  "r.l3 = (t0 & p0.l3) | (^t0 & p1.l3)",
  "return r"
    ] ∧
    Gen.Fe256Facts.swap = [
  "t0 := -uint64(p1)",
  "t1 := t0 & (r.l0 ^ p0.l0)",
  "r.l0 ^= t1",
  "p0.l0 ^= t1",
  "t1 = t0 & (r.l1 ^ p0.l1)",
  "r.l1 ^= t1",
  "p0.l1 ^= t1",
  "t1 = t0 & (r.l2 ^ p0.l2)",
  "r.l2 ^= t1",
  "p0.l2 ^= t1",
  "t1 = t0 & (r.l3 ^ p0.l3)",
  "r.l3 ^= t1",
  "p0.l3 ^= t1"
    ] ∧
    Gen.Fe256Facts.set = [
  "*r = *p0",
  "return r"
    ] ∧
    Gen.Fe256Facts.one = [
  "r.l0 = 1",
  "r.l1 = 0",
  "r.l2 = 0",
  "r.l3 = 0"
    ] ∧
    Gen.Fe256Facts.zero = [
  "r.l0 = 0",
  "r.l1 = 0",
  "r.l2 = 0",
  "r.l3 = 0"
    ] := by
  decide +kernel

end C18
