import Goat.Model.PtOps
import Goat.Model.Ed448Pt
import Goat.Gen.TblOps448
import GoatProofs.Lemmas.PtOpsTac
import GoatProofs.Lemmas.PtOpsKernelRfl
/-
C16 (scalar multiplications) — the loop skeletons of `(*Point).ScalarMult` and `(*Point).ScalarBaseMult`
(internal/edwards448/scalarmult.go) REGENERATED as `PtOps.Stmt` trees (translator/opstmt.go, in
`Gen.TblOps448`; table methods kept atomic: `tinit` / `tselect`; the recoded scalar
`digits := x.signedRadix16()` is an opaque array of 112 ints) and proved equal to the models:

* `Model.WindowMul.ed448ScalarMult` / `ed448ScalarBaseMult` — for EVERY carrier and operation record,
  every digit array, every table content (proof: evaluation of both loops in the kernel);
* `Model.Ed448Pt.scalarMultDigits` — the concrete model with the start value `NewIdentityPoint()`.

Pinned thereby: start value, `table.Init(q)` before the first use, top digit first, four doublings
then select-and-add per digit, loop bounds 110 … 0 resp. odd digits / four `v.Add(v, v)` / even
digits, the table index `i/2`, the digit index.  Still hand-modelled: `signedRadix16` itself
(proved correct in GoatProofs.Group), `checkInitialized` (guard pinned).
`VarTimeDoubleScalarBaseMult` (data-dependent loop start and branches): the loop BODY and the statements
outside the loops are regenerated (last section); the skip loop / fold are hand-modelled.
-/
namespace C16MulOps
open PtOps Model.WindowMul

namespace G
export Gen.TblOps448 (scalarMult scalarBaseMult)
end G

variable {C : Type}

/-- operations for the generic statements: table methods as `Model.WindowMul` defines them -/
def pops (g : GroupOps C) (idn : C) (S : (Nat → C) → Nat → Int → C) : PointOps C where
  set := fun u => u
  zero := g.zero
  add := g.add
  double := g.double
  neg := g.neg
  sub := g.sub
  select := fun a _ _ => a
  condNeg := fun a _ => a
  fromAffine := fun u => u
  newGenerator := g.zero
  newIdentity := idn
  ctEq := fun _ _ => 0
  tblInit := fun _ p k => (lookupInit8 g p).getD k g.zero
  tblSelect := fun _ a off x => S a off x

/-- `SelectInto` on the 8 entries at `a[off …]` -/
def sel8 (g : GroupOps C) (a : Nat → C) (off : Nat) (x : Int) : C :=
  lookupSelect8 g ((List.range 8).map fun k => a (off + k)) x

/-- point variables 0, 1 = v, q; int array 2 = digits -/
def env (v q d : C) (a0 : Nat → C) (dg : Nat → Int) : PEnv C :=
  ⟨fun i => cond (Nat.beq i 0) v (cond (Nat.beq i 1) q d), fun _ => a0, fun _ => 0, fun _ => dg⟩

/-- `ScalarMult`: for every carrier, operations, digit array `dg 0 … dg 111`, old receiver content -/
theorem scalarMult_ops (g : GroupOps C) (dg : Nat → Int) (v q d : C) (a0 : Nat → C) :
    ed448ScalarMult g ((List.range 112).map dg) q
      = (runStmt (pops g g.zero (sel8 g)) G.scalarMult.body (env v q d a0 dg)).pts 0 := by
  ptops_named "C16MulOps.scalarMult_ops" => kernel_rfl

/-- `ScalarBaseMult`: the table is the INPUT array 1 (`varBasepointTable`, flattened); the model's
    selection function is any `S` applied to (array, offset 8·(i/2), digit) -/
theorem scalarBaseMult_ops (g : GroupOps C) (S : (Nat → C) → Nat → Int → C) (dg : Nat → Int) (v d : C)
    (a0 : Nat → C) :
    ed448ScalarBaseMult g (fun i x => S a0 (i * 8) x) ((List.range 112).map dg)
      = (runStmt (pops g g.zero S) G.scalarBaseMult.body (env v d d a0 dg)).pts 0 := by
  ptops_named "C16MulOps.scalarBaseMult_ops" => kernel_rfl

open Model.Ed448Pt in
/-- the concrete model: start value `NewIdentityPoint()` -/
theorem scalarMultDigits_ops (dg : Nat → Int) (v q d : Point) (a0 : Nat → Point) :
    scalarMultDigits ((List.range 112).map dg) q
      = (runStmt (pops ops (newIdentity ()) (sel8 ops)) G.scalarMult.body (env v q d a0 dg)).pts 0 := by
  ptops_named "C16MulOps.scalarMultDigits_ops" =>
    unfold scalarMultDigits Model.Ed448Pt.ops
    generalize newIdentity () = idn
    generalize Model.Ed448Pt.add = fa
    generalize Model.Ed448Pt.double = fd
    generalize Model.Ed448Pt.negate = fn
    generalize Model.Ed448Pt.zeroPt = z
    as_aux_lemma => kernel_rfl

open Model.Ed448Pt in
/-- the concrete model of `ScalarBaseMult`: `basepointSel ops basepointTblT.get` is the selection
    function (the package-level table is not an operand of the statement, only its row index) -/
theorem scalarBaseMultDigits_ops (dg : Nat → Int) (v d : Point) (a0 : Nat → Point) :
    scalarBaseMultDigits ((List.range 112).map dg)
      = (runStmt (pops ops (newIdentity ()) (fun _ off x => basepointSel ops basepointTblT.get (off / 8) x))
          G.scalarBaseMult.body (env v d d a0 dg)).pts 0 := by
  ptops_named "C16MulOps.scalarBaseMultDigits_ops" =>
    unfold scalarBaseMultDigits Model.Ed448Pt.ops
    generalize basepointSel _ basepointTblT.get = selF
    generalize newIdentity () = idn
    generalize Model.Ed448Pt.add = fa
    generalize Model.Ed448Pt.double = fd
    generalize Model.Ed448Pt.negate = fn
    generalize Model.Ed448Pt.zeroPt = z
    as_aux_lemma => kernel_rfl

/-- every digit list of length 112 is of the form the statements quantify over -/
theorem digits_form (l : List Int) (h : l.length = 112) : l = (List.range 112).map (fun i => l.getD i 0) := by
  apply List.ext_getElem
  · simp [h]
  · intro i h1 h2
    simp [List.getD, List.getElem?_eq_getElem h1]

theorem scalarMult_facts :
    G.scalarMult.inputs = ["r", "p1", "a0"] ∧ G.scalarMult.outputs = ["r"]
    ∧ G.scalarMult.guards = [("checkInitialized", ["p1"])]
    ∧ G.scalarMult.paramWrites = [] ∧ G.scalarMult.hazards = []
    ∧ G.scalarMult.facts = [("opaque a0", "p0.signedRadix16()"), ("index-checked", "a0 in [111, 111] of 112"), ("index-checked", "a0 in [0, 110] of 112"), ("loop 1", "from 110 down to 0")] := by
  ptops_decide "C16MulOps.scalarMult_facts"

theorem scalarBaseMult_facts :
    G.scalarBaseMult.inputs = ["r", "varBasepointTable[].f0", "a0"] ∧ G.scalarBaseMult.outputs = ["r"]
    ∧ G.scalarBaseMult.guards = [] ∧ G.scalarBaseMult.paramWrites = [] ∧ G.scalarBaseMult.hazards = []
    ∧ G.scalarBaseMult.facts = [("table-func", "basepointTable() = &varBasepointTable"), ("opaque a0", "p0.signedRadix16()"), ("index-checked", "a0 in [1, 111] of 112"), ("loop 1", "from 1 below 112 step 2"), ("index-checked", "a0 in [0, 110] of 112"), ("loop 2", "from 0 below 112 step 2")] := by
  ptops_decide "C16MulOps.scalarBaseMult_facts"

/-! ## `VarTimeDoubleScalarBaseMult`: data-dependent loop start, `if x > 0 / else if x < 0` per digit

The translator (config `part`) checks the shape `pre…; i := 447; for ; i >= 0; i-- { if c { break } };
v.Zero(); for ; i >= 0; i-- { body }; return v`, records the normal form of `c`, and regenerates the
statements outside the loops (`doubleScalarInit`) and the BODY of the second loop (`doubleScalarStep`,
the loop variable an input, `Stmt.ite` / `IExpr.lt` / `IExpr.negI8`).  The body is proved equal to the
per-iteration step of `Model.WindowMul.ed448DoubleScalarMult` whenever that does not panic (the panic is
the data-dependent table index, `C16TblOps.nafSelect_ops`).  The skipping of the leading zero positions
(`dropWhile` in the model) and the fold itself stay hand-modelled (pinned: facts "loop 1" / "loop 2"). -/

namespace G
export Gen.TblOps448 (doubleScalarInit doubleScalarStep)
end G

theorem intPos_iff (x : Int) : intPos x = true ↔ 0 < x := by
  cases x with
  | ofNat n => cases n with
    | zero => simp [intPos]
    | succ n => simp [intPos]
  | negSucc n => simp [intPos]

/-- `if x > 0 { v += T[x/2] } else if x < 0 { v -= T[(-x)/2] }` without the index panic of
    `nafLookupTable.SelectInto` (`-x` in int8) -/
def addSubPure (g : GroupOps C) (tbl : Nat → C) (off : Nat) (v : C) : Int → C
  | .ofNat 0 => v
  | .ofNat (n + 1) => g.add v (tbl (off + (Int.tdiv (.ofNat (n + 1)) 2).toNat))
  | .negSucc n => g.sub v (tbl (off + (Int.tdiv (Model.Recode.wrapI8 (-(.negSucc n))) 2).toNat))

theorem nafSelect_ok (tbl : List C) (x : Int) (d r : C) (h : nafSelect tbl x = .ok r) :
    r = tbl.getD (Int.tdiv x 2).toNat d := by
  unfold nafSelect at h
  simp only at h
  split at h
  · cases h
  · split at h
    · rename_i q hq
      cases h
      simp [List.getD, hq]
    · cases h

theorem nafAddSub_ok (g : GroupOps C) (tbl : List C) (v : C) (x : Int) (d r : C)
    (h : nafAddSub g tbl v x = .ok r) : r = addSubPure g (fun k => tbl.getD k d) 0 v x := by
  unfold nafAddSub at h
  cases x with
  | ofNat n =>
    cases n with
    | zero => simp at h; cases h; rfl
    | succ n =>
      rw [if_pos (show Int.ofNat (n + 1) > 0 from Int.natCast_pos.mpr (Nat.succ_pos n))] at h
      cases hs : nafSelect tbl (Int.ofNat (n + 1)) with
      | ok m =>
        rw [hs] at h; cases h
        rw [nafSelect_ok tbl _ d m hs]
        simp [addSubPure]
      | panic s => rw [hs] at h; cases h
      | err a => rw [hs] at h; cases h
  | negSucc n =>
    rw [if_neg (by have := Int.negSucc_lt_zero n; omega), if_pos (Int.negSucc_lt_zero n)] at h
    cases hs : nafSelect tbl (Model.Recode.wrapI8 (-(Int.negSucc n))) with
    | ok m =>
      rw [hs] at h; cases h
      rw [nafSelect_ok tbl _ d m hs]
      simp [addSubPure]
    | panic s => rw [hs] at h; cases h
    | err a => rw [hs] at h; cases h

/-- atomic table methods: `Init` as the models build the NAF tables, `SelectInto` = `*dest = points[x/2]` -/
def popsN (g : GroupOps C) : PointOps C where
  set := fun u => u
  zero := g.zero
  add := g.add
  double := g.double
  neg := g.neg
  sub := g.sub
  select := fun a _ _ => a
  condNeg := fun a _ => a
  fromAffine := fun u => u
  newGenerator := g.zero
  newIdentity := g.zero
  ctEq := fun _ _ => 0
  tblInit := fun _ p k => (nafTable5 g p).getD k g.zero
  tblSelect := fun _ a off x => a (off + (Int.tdiv x 2).toNat)

/-- variables: v = 0 (receiver), aNAF = 2, bNAF = 3 (both digits constant here: `xa`, `xb` at every
    position), basepoint NAF table = 4, aTable = 5, the loop variable = 6 -/
def envS (v d : C) (aT bT : Nat → C) (xa xb i : Int) : PEnv C :=
  ⟨fun k => cond (Nat.beq k 0) v d, fun a => cond (Nat.beq a 5) aT bT, fun _ => i,
   fun a _ => cond (Nat.beq a 2) xa xb⟩

/-- one iteration, pure -/
def stepPure (g : GroupOps C) (aT bT : Nat → C) (v : C) (xa xb : Int) : C :=
  addSubPure g bT 0 (addSubPure g aT 0 (g.double v) xa) xb

theorem stepPure_ops (g : GroupOps C) (aT bT : Nat → C) (v d : C) (xa xb i : Int) :
    stepPure g aT bT v xa xb
      = (runStmt (popsN g) G.doubleScalarStep.body (envS v d aT bT xa xb i)).pts 0 := by
  ptops_named "C16MulOps.stepPure_ops" =>
    (rcases xa with (_ | n) | n <;> rcases xb with (_ | m) | m <;> kernel_rfl)

/-- the per-iteration step of `Model.WindowMul.ed448DoubleScalarMult` (double; ±A-table entry; ±basepoint
    table entry), whenever it does not panic = the regenerated loop body -/
theorem doubleScalarStep_ops (g : GroupOps C) (aTbl bTbl : List C) (v d r : C) (xa xb i : Int)
    (h : (nafAddSub g aTbl (g.double v) xa).bind (fun v => nafAddSub g bTbl v xb) = .ok r) :
    r = (runStmt (popsN g) G.doubleScalarStep.body
          (envS v d (fun k => aTbl.getD k d) (fun k => bTbl.getD k d) xa xb i)).pts 0 := by
  rw [← stepPure_ops]
  cases h1 : nafAddSub g aTbl (g.double v) xa with
  | ok w =>
    rw [h1] at h
    have h2 : nafAddSub g bTbl w xb = .ok r := h
    rw [nafAddSub_ok g bTbl w xb d r h2, nafAddSub_ok g aTbl _ xa d w h1]
    rfl
  | panic s => rw [h1] at h; cases h
  | err a => rw [h1] at h; cases h

/-- the statements outside the loops: `aTable.Init(A)`, `i := 447`, `v.Zero()` -/
theorem doubleScalarInit_ops (g : GroupOps C) (v a d : C) (aT bT : Nat → C) (xa xb i : Int) :
    let e := runStmt (popsN g) G.doubleScalarInit.body
      ⟨fun k => cond (Nat.beq k 0) v (cond (Nat.beq k 1) a d), fun a => cond (Nat.beq a 5) aT bT, fun _ => i,
       fun a _ => cond (Nat.beq a 2) xa xb⟩
    e.pts 0 = g.zero ∧ (List.range 8).map (e.arrs 5) = nafTable5 g a ∧ e.ints 6 = 447 ∧ e.arrs 4 = bT := by
  ptops_named "C16MulOps.doubleScalarInit_ops" => (intro e; exact ⟨rfl, rfl, rfl, rfl⟩)

theorem doubleScalar_facts :
    G.doubleScalarStep.inputs = ["r", "p1", "a0", "a1", "varBasepointNAFTable.f0", "l1"]
    ∧ G.doubleScalarInit.inputs = ["r", "p1", "a0", "a1", "varBasepointNAFTable.f0"]
    ∧ G.doubleScalarStep.outputs = ["r"] ∧ G.doubleScalarInit.outputs = ["r"]
    ∧ G.doubleScalarStep.guards = [("checkInitialized", ["p1"])]
    ∧ G.doubleScalarInit.guards = [("checkInitialized", ["p1"])]
    ∧ G.doubleScalarStep.paramWrites = [] ∧ G.doubleScalarInit.paramWrites = []
    ∧ G.doubleScalarStep.hazards = [] ∧ G.doubleScalarInit.hazards = []
    ∧ G.doubleScalarInit.facts = G.doubleScalarStep.facts
    ∧ G.doubleScalarStep.facts = [("opaque a0", "p0.nonAdjacentForm(5)"),
        ("opaque a1", "p2.nonAdjacentForm(8)"),
        ("table-func", "basepointNAFTable() = &varBasepointNAFTable"),
        ("index-checked", "a0 in [0, 447] of 448"),
        ("index-checked", "a1 in [0, 447] of 448"),
        ("loop 1", "l1 from 447 down to 0, leaves at the first position where ((a0[l1] != 0) || (a1[l1] != 0))"),
        ("loop 2", "l1 continues down to 0")] := by
  ptops_decide "C16MulOps.doubleScalar_facts"

end C16MulOps
