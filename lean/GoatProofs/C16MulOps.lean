import Goat.Model.PtOps
import Goat.Model.Ed448Pt
import Goat.Gen.TblOps448
import GoatProofs.Lemmas.PtOpsTac
import GoatProofs.Lemmas.PtOpsKernelRfl
/-
C16 (scalar multiplications) — the loop skeletons of `(*Point).ScalarMult` and `(*Point).ScalarBaseMult`
(internal/edwards448/scalarmult.go) REGENERATED as `PtOps.Stmt` trees (translator/opstmt.go, in
`Gen.TblOps448`; table methods kept atomic: `tinit` / `tselect`; the recoded scalar
`digits := x.signedRadix16()` is an opaque array of 112 ints) and proved equal to the models:

* `Model.WindowMul.ed448ScalarMult` / `ed448ScalarBaseMult` — for EVERY carrier and operation record,
  every digit array, every table content (proof: evaluation of both loops in the kernel);
* `Model.Ed448Pt.scalarMultDigits` — the concrete model with the start value `NewIdentityPoint()`.

Pinned thereby: start value, `table.Init(q)` before the first use, top digit first, four doublings
then select-and-add per digit, loop bounds 110 … 0 resp. odd digits / four `v.Add(v, v)` / even
digits, the table index `i/2`, the digit index.  Still hand-modelled: `signedRadix16` itself
(proved correct in GoatProofs.Group), `checkInitialized` (guard pinned), and
`VarTimeDoubleScalarBaseMult` (data-dependent loop start and branches: NOT covered).
-/
namespace C16MulOps
open PtOps Model.WindowMul

namespace G
export Gen.TblOps448 (scalarMult scalarBaseMult)
end G

variable {C : Type}

/-- operations for the generic statements: table methods as `Model.WindowMul` defines them -/
def pops (g : GroupOps C) (idn : C) (S : (Nat → C) → Nat → Int → C) : PointOps C where
  set := fun u => u
  zero := g.zero
  add := g.add
  double := g.double
  neg := g.neg
  sub := g.sub
  select := fun a _ _ => a
  condNeg := fun a _ => a
  fromAffine := fun u => u
  newGenerator := g.zero
  newIdentity := idn
  ctEq := fun _ _ => 0
  tblInit := fun _ p k => (lookupInit8 g p).getD k g.zero
  tblSelect := fun _ a off x => S a off x

/-- `SelectInto` on the 8 entries at `a[off …]` -/
def sel8 (g : GroupOps C) (a : Nat → C) (off : Nat) (x : Int) : C :=
  lookupSelect8 g ((List.range 8).map fun k => a (off + k)) x

/-- point variables 0, 1 = v, q; int array 2 = digits -/
def env (v q d : C) (a0 : Nat → C) (dg : Nat → Int) : PEnv C :=
  ⟨fun i => cond (Nat.beq i 0) v (cond (Nat.beq i 1) q d), fun _ => a0, fun _ => 0, fun _ => dg⟩

/-- `ScalarMult`: for every carrier, operations, digit array `dg 0 … dg 111`, old receiver content -/
theorem scalarMult_ops (g : GroupOps C) (dg : Nat → Int) (v q d : C) (a0 : Nat → C) :
    ed448ScalarMult g ((List.range 112).map dg) q
      = (runStmt (pops g g.zero (sel8 g)) G.scalarMult.body (env v q d a0 dg)).pts 0 := by
  ptops_named "C16MulOps.scalarMult_ops" => kernel_rfl

/-- `ScalarBaseMult`: the table is the INPUT array 1 (`varBasepointTable`, flattened); the model's
    selection function is any `S` applied to (array, offset 8·(i/2), digit) -/
theorem scalarBaseMult_ops (g : GroupOps C) (S : (Nat → C) → Nat → Int → C) (dg : Nat → Int) (v d : C)
    (a0 : Nat → C) :
    ed448ScalarBaseMult g (fun i x => S a0 (i * 8) x) ((List.range 112).map dg)
      = (runStmt (pops g g.zero S) G.scalarBaseMult.body (env v d d a0 dg)).pts 0 := by
  ptops_named "C16MulOps.scalarBaseMult_ops" => kernel_rfl

open Model.Ed448Pt in
/-- the concrete model: start value `NewIdentityPoint()` -/
theorem scalarMultDigits_ops (dg : Nat → Int) (v q d : Point) (a0 : Nat → Point) :
    scalarMultDigits ((List.range 112).map dg) q
      = (runStmt (pops ops (newIdentity ()) (sel8 ops)) G.scalarMult.body (env v q d a0 dg)).pts 0 := by
  ptops_named "C16MulOps.scalarMultDigits_ops" =>
    unfold scalarMultDigits Model.Ed448Pt.ops
    generalize newIdentity () = idn
    generalize Model.Ed448Pt.add = fa
    generalize Model.Ed448Pt.double = fd
    generalize Model.Ed448Pt.negate = fn
    generalize Model.Ed448Pt.zeroPt = z
    as_aux_lemma => kernel_rfl

open Model.Ed448Pt in
/-- the concrete model of `ScalarBaseMult`: `basepointSel ops basepointTblT.get` is the selection
    function (the package-level table is not an operand of the statement, only its row index) -/
theorem scalarBaseMultDigits_ops (dg : Nat → Int) (v d : Point) (a0 : Nat → Point) :
    scalarBaseMultDigits ((List.range 112).map dg)
      = (runStmt (pops ops (newIdentity ()) (fun _ off x => basepointSel ops basepointTblT.get (off / 8) x))
          G.scalarBaseMult.body (env v d d a0 dg)).pts 0 := by
  ptops_named "C16MulOps.scalarBaseMultDigits_ops" =>
    unfold scalarBaseMultDigits Model.Ed448Pt.ops
    generalize basepointSel _ basepointTblT.get = selF
    generalize newIdentity () = idn
    generalize Model.Ed448Pt.add = fa
    generalize Model.Ed448Pt.double = fd
    generalize Model.Ed448Pt.negate = fn
    generalize Model.Ed448Pt.zeroPt = z
    as_aux_lemma => kernel_rfl

/-- every digit list of length 112 is of the form the statements quantify over -/
theorem digits_form (l : List Int) (h : l.length = 112) : l = (List.range 112).map (fun i => l.getD i 0) := by
  apply List.ext_getElem
  · simp [h]
  · intro i h1 h2
    simp [List.getD, List.getElem?_eq_getElem h1]

theorem scalarMult_facts :
    G.scalarMult.inputs = ["r", "p1", "a0"] ∧ G.scalarMult.outputs = ["r"]
    ∧ G.scalarMult.guards = [("checkInitialized", ["p1"])]
    ∧ G.scalarMult.paramWrites = [] ∧ G.scalarMult.hazards = []
    ∧ G.scalarMult.facts = [("opaque a0", "p0.signedRadix16()"), ("index-checked", "a0 in [111, 111] of 112"), ("index-checked", "a0 in [0, 110] of 112"), ("loop 1", "from 110 down to 0")] := by
  ptops_decide "C16MulOps.scalarMult_facts"

theorem scalarBaseMult_facts :
    G.scalarBaseMult.inputs = ["r", "varBasepointTable[].f0", "a0"] ∧ G.scalarBaseMult.outputs = ["r"]
    ∧ G.scalarBaseMult.guards = [] ∧ G.scalarBaseMult.paramWrites = [] ∧ G.scalarBaseMult.hazards = []
    ∧ G.scalarBaseMult.facts = [("table-func", "basepointTable() = &varBasepointTable"), ("opaque a0", "p0.signedRadix16()"), ("index-checked", "a0 in [1, 111] of 112"), ("loop 1", "from 1 below 112 step 2"), ("index-checked", "a0 in [0, 110] of 112"), ("loop 2", "from 0 below 112 step 2")] := by
  ptops_decide "C16MulOps.scalarBaseMult_facts"

end C16MulOps
