import GoatProofs.Lemmas.C01Parse
/-
C01 — JWS/JWT verification never hands back data the key holder did not sign.

Reading guide.  `Model.JWS.Verified o cfg s sigContent` (Lemmas/C01Verify.lean) says: the
algorithm of signature entry `s` is named (protected header first, else unprotected) and allowed;
the key is the key finder's answer to exactly `(s.prot, s.header)`; and
`Sig.PrimAccepts o key (s.rawProtected ++ "." ++ sigContent) s.signature` — the per-algorithm,
primitive-level acceptance of exactly these bytes with the full-length signature
(Lemmas/C01Sig.lean: HMAC equality on all bytes; RSA oracle on (n, e, hash, digest, sig); ECDSA
oracle on the digest and the two fixed-width halves, |sig| = 2·size; EdDSA oracles; `none`: the
empty signature).  `HeaderOf o raw hdr`: `hdr` is goat's decoding of the RECEIVED base64url
text `raw`.

"No forgery / no alteration is accepted" = these theorems + unforgeability of the primitives
(EUF-CMA of HMAC/RSA/ECDSA/EdDSA, collision resistance of SHA-2).  That second part is
cryptographic hardness and is outside Lean: the theorems show that whatever is returned was
covered, byte for byte, by a primitive verification under the caller's key.
-/
namespace Model.JWS

/-- the serialisations `jws` parses -/
inductive Ser where
  | compact | json
deriving DecidableEq, Repr

def parse : Ser → Bytes → PO Message
  | .compact, d => parseCompact d
  | .json, d => parseJSON d

/-- every protected header the parser stores is the decoding of the raw text stored with it -/
theorem parse_protDecoded (o : Oracle) (ser : Ser) (d : Bytes) (msg : Message)
    (h : (parse ser d).run o = .ok msg) :
    ∀ s ∈ msg.signatures, ProtDecoded o s := by
  cases ser with
  | compact =>
    obtain ⟨hh, p, sg, hdr, sig, _, _, _, hHO, _, rfl⟩ := parseCompact_ok o d msg h
    intro s hs
    simp at hs
    subst hs
    intro p' hp'; simp at hp'; subst hp'; exact hHO
  | json =>
    obtain ⟨_, _, _, hd, _, _⟩ := parseJSON_ok o d msg h
    exact hd

/-- **parse_b64_uniform.**  A parsed message has ONE b64 setting: every signature entry's own
    setting — its protected header's `b64`, the default for an entry WITHOUT a protected header —
    equals the message flag that decides whether the payload is decoded.  (jws.go `UnmarshalJSON`
    after 47ca076: entries without a protected header take part in the consistency check.) -/
theorem parse_b64_uniform (o : Oracle) (ser : Ser) (d : Bytes) (msg : Message)
    (h : (parse ser d).run o = .ok msg) :
    ∀ s ∈ msg.signatures, s.nb64 = msg.nb64 := by
  cases ser with
  | compact =>
    obtain ⟨hh, p, sg, hdr, sig, _, _, _, _, _, rfl⟩ := parseCompact_ok o d msg h
    intro s hs
    simp at hs
    subst hs
    rfl
  | json =>
    obtain ⟨_, _, _, _, hc, _⟩ := parseJSON_ok o d msg h
    exact hc

/-- **jws_verify_sound.**  For every oracle (standard library + caller callbacks), every verifier
    configuration, every serialisation and every input `d`: if parsing `d` and verifying succeeds
    with `(prot, unprot, payload)`, then the parsed message has a signature entry `s` such that
    * `prot`/`unprot` are `s`'s headers, `prot` being the decoding of the RECEIVED text
      `s.rawProtected` (`ProtDecoded`); `s`'s own b64 setting (default when it has no protected
      header) is the message's;
    * `s` was `Verified` against the received payload text `msg.payload`: algorithm named in
      `s`'s header and allowed, key = the finder's answer for `(s.prot, s.header)`, primitive
      accepted exactly `s.rawProtected ++ "." ++ msg.payload` with the full signature;
    * `payload` is `msg.payload` itself (b64=false) or its base64url decoding (`Returned`).
    What `msg.payload` / `s.rawProtected` are in terms of `d`: `jws_compact_received`,
    `jws_json_received`. -/
theorem jws_verify_sound (o : Oracle) (cfg : Cfg) (ser : Ser) (d : Bytes)
    (prot unprot : Option Header) (payload : Bytes)
    (h : (parse ser d >>= verify cfg).run o = .ok (prot, unprot, payload)) :
    ∃ msg, (parse ser d).run o = .ok msg ∧ cfg.configured = true ∧
      ∃ s ∈ msg.signatures, prot = s.prot ∧ unprot = s.header ∧
        ProtDecoded o s ∧ s.nb64 = msg.nb64 ∧
        Verified o cfg s msg.payload ∧ Returned o msg payload := by
  obtain ⟨msg, hmsg, hv⟩ := PO.run_bind_eq_ok o _ _ _ h
  obtain ⟨hc, s, hs, h1, h2, hver, hret⟩ := verify_ok o cfg msg _ hv
  exact ⟨msg, hmsg, hc, s, hs, h1, h2, parse_protDecoded o ser d msg hmsg s hs,
    parse_b64_uniform o ser d msg hmsg s hs, hver, hret⟩

/-- **verify_payload_matches_entry_header.**  The payload a successful verification hands back is
    decoded according to the VERIFIED entry's OWN header: the received payload text itself when that
    entry's protected header says `b64=false`, its base64url decoding otherwise — in particular
    when the verified entry has no protected header at all (default `b64`).  No other entry (a junk
    signature anyone can add) can change how the payload of the verified entry is read. -/
theorem verify_payload_matches_entry_header (o : Oracle) (cfg : Cfg) (ser : Ser) (d : Bytes)
    (prot unprot : Option Header) (payload : Bytes)
    (h : (parse ser d >>= verify cfg).run o = .ok (prot, unprot, payload)) :
    ∃ msg, (parse ser d).run o = .ok msg ∧
      ∃ s ∈ msg.signatures, prot = s.prot ∧ unprot = s.header ∧ Verified o cfg s msg.payload ∧
        (if s.nb64 then payload = msg.payload
         else o ⟨"b64url.dec", [.bytes msg.payload]⟩ = .bytes payload) := by
  obtain ⟨msg, hmsg, _, s, hs, h1, h2, _, hn, hver, hret⟩ := jws_verify_sound o cfg ser d prot unprot payload h
  refine ⟨msg, hmsg, s, hs, h1, h2, hver, ?_⟩
  rw [hn]
  exact hret

/-- **compact, in terms of the input bytes.**  `d = h.p.sg` (no '.' in `h`, `p`); the returned
    protected header is the decoding of `h`, the primitive accepted exactly `h ++ "." ++ p` — a
    prefix of `d` itself — with the decoding of `sg`, and the returned payload is `p` (b64=false)
    or the decoding of `p`: the exact middle segment that was fed to the signature check. -/
theorem jws_compact_received (o : Oracle) (cfg : Cfg) (d : Bytes)
    (prot unprot : Option Header) (payload : Bytes)
    (h : (parseCompact d >>= verify cfg).run o = .ok (prot, unprot, payload)) :
    ∃ hs p sg hdr sig sk, d = hs ++ dot :: (p ++ dot :: sg) ∧ dot ∉ hs ∧ dot ∉ p ∧
      prot = some hdr ∧ unprot = none ∧ HeaderOf o hs hdr ∧
      o ⟨"b64url.dec", [.bytes sg]⟩ = .bytes sig ∧
      hdr.alg ≠ "" ∧ cfg.allows hdr.alg = true ∧
      Sig.signingKeyOfHandle (o ⟨"findKey", [hdr.toWire, .null]⟩) = some (.ok sk) ∧
      Sig.PrimAccepts o sk (hs ++ dot :: p) sig ∧
      (if hdr.nb64 then payload = p else o ⟨"b64url.dec", [.bytes p]⟩ = .bytes payload) := by
  obtain ⟨msg, hmsg, hv⟩ := PO.run_bind_eq_ok o _ _ _ h
  obtain ⟨hs, p, sg, hdr, sig, hd, n1, n2, hHO, hsig, rfl⟩ := parseCompact_ok o d msg hmsg
  obtain ⟨_, s, hmem, h1, h2, hver, hret⟩ := verify_ok o cfg _ _ hv
  simp at hmem
  subst hmem
  obtain ⟨sk, hk, hacc⟩ := hver.accepted
  refine ⟨hs, p, sg, hdr, sig, sk, hd, n1, n2, h1, h2, hHO, hsig, ?_, ?_, ?_, hacc, ?_⟩
  · have := hver.named
    rwa [Signature.alg_of_protected_only _ hdr rfl rfl] at this
  · have := hver.allowed
    rwa [Signature.alg_of_protected_only _ hdr rfl rfl] at this
  · simpa [findKeyQuery, optHeaderWire] using hk
  · simpa [Returned] using hret

/-- **JSON, in terms of the input.**  With `raw` = the JSON decoding of `d`: the payload text is
    the `payload` member as received, the verified entry stems from one element `w` of the
    `signatures` array (or the flattened members) whose `protected` member text IS
    `s.rawProtected` and whose `signature` member decodes to `s.signature`. -/
theorem jws_json_received (o : Oracle) (cfg : Cfg) (d : Bytes)
    (prot unprot : Option Header) (payload : Bytes)
    (h : (parseJSON d >>= verify cfg).run o = .ok (prot, unprot, payload)) :
    ∃ msg s elems w, (parseJSON d).run o = .ok msg ∧ s ∈ msg.signatures ∧
      prot = s.prot ∧ unprot = s.header ∧ Verified o cfg s msg.payload ∧ Returned o msg payload ∧
      (msg.payload = match Wire.lookup "payload" (o ⟨"json.decodeMap", [.bytes d]⟩).asObj with
        | some (.str p) => strBytes p | _ => []) ∧
      sigElems (o ⟨"json.decodeMap", [.bytes d]⟩).asObj = some elems ∧ w ∈ elems ∧
      ∃ i nb nb', SigParsed o i nb w s nb' := by
  obtain ⟨msg, hmsg, hv⟩ := PO.run_bind_eq_ok o _ _ _ h
  obtain ⟨_, s, hmem, h1, h2, hver, hret⟩ := verify_ok o cfg _ _ hv
  obtain ⟨raw, hq, hpay, _, _, elems, hel, hz⟩ := parseJSON_ok o d msg hmsg
  obtain ⟨w, hw, hsp⟩ := hz.mem_right s hmem
  subst hq
  exact ⟨msg, s, elems, w, hmsg, hmem, h1, h2, hver, hret, hpay, hel, hw, hsp⟩

/-- **detached payload (`VerifyContent`).**  The caller's `content` comes back, and the primitive
    accepted `s.rawProtected ++ "." ++ sc` where `sc` is `content` (b64=false) or the base64url
    ENCODING of `content`. -/
theorem jws_verifyContent_sound (o : Oracle) (cfg : Cfg) (ser : Ser) (d content : Bytes)
    (prot unprot : Option Header) (payload : Bytes)
    (h : (parse ser d >>= fun m => verifyContent cfg m content).run o = .ok (prot, unprot, payload)) :
    ∃ msg, (parse ser d).run o = .ok msg ∧ payload = content ∧
      ∃ sc, (if msg.nb64 then sc = content else o ⟨"b64url.enc", [.bytes content]⟩ = .bytes sc) ∧
      ∃ s ∈ msg.signatures, prot = s.prot ∧ unprot = s.header ∧ ProtDecoded o s ∧
        s.nb64 = msg.nb64 ∧ Verified o cfg s sc := by
  obtain ⟨msg, hmsg, hv⟩ := PO.run_bind_eq_ok o _ _ _ h
  obtain ⟨_, hpl, sc, hsc, s, hs, h1, h2, hver⟩ := verifyContent_ok o cfg msg content _ hv
  exact ⟨msg, hmsg, hpl, sc, hsc, s, hs, h1, h2, parse_protDecoded o ser d msg hmsg s hs,
    parse_b64_uniform o ser d msg hmsg s hs, hver⟩

end Model.JWS

namespace Model.JWT
open Model.JWS

theorem stage_ok {α} (o : Oracle) (cls : String) (p : PO α) (a : α) :
    (stage cls p).run o = .ok a ↔ p.run o = .ok a := by
  simp only [stage, PO.run_bind, PO.run_attempt]
  cases p.run o <;> simp

theorem take_signing_input (h p sg : Bytes) :
    (h ++ dot :: (p ++ dot :: sg)).take (h.length + 1 + p.length) = h ++ dot :: p := by
  have e : h ++ dot :: (p ++ dot :: sg) = (h ++ dot :: p) ++ dot :: sg := by simp
  rw [e]
  apply List.take_left'
  simp; omega

/-- **jwt_parse_sound, for any claims step `pc`.**  If `Parser.Parse` succeeds on `d` with
    `(header, c)` then `d = h.p.sg` (no '.' in `h`, `p`), the header is the decoding of the received
    `h`, its algorithm is allowed, the key is the finder's answer for that header, the primitive
    accepted literally `d[0 .. idx2)` = `h ++ "." ++ p` with the decoding of `sg`, and `c` is the
    result of the claims step on the decoding of that same `p` — run after the signature check. -/
theorem parseWith_sound {γ : Type} (pc : Bytes → PO γ) (o : Oracle) (cfg : Cfg) (d : Bytes)
    (hdr : Header) (claims : γ)
    (h : (parseWith pc cfg d).run o = .ok (hdr, claims)) :
    ∃ hs p sg sig payload sk, d = hs ++ dot :: (p ++ dot :: sg) ∧ dot ∉ hs ∧ dot ∉ p ∧
      cfg.configured = true ∧ HeaderOf o hs hdr ∧ cfg.allows hdr.alg = true ∧
      Sig.signingKeyOfHandle (o ⟨"jwt.findKey", [hdr.toWire]⟩) = some (.ok sk) ∧
      o ⟨"b64url.dec", [.bytes sg]⟩ = .bytes sig ∧
      d.take (hs.length + 1 + p.length) = hs ++ dot :: p ∧
      Sig.PrimAccepts o sk (d.take (hs.length + 1 + p.length)) sig ∧
      o ⟨"b64url.dec", [.bytes p]⟩ = .bytes payload ∧
      (pc payload).run o = .ok claims := by
  unfold parseWith at h
  cases hc : cfg.configured
  · simp [hc] at h
  · simp only [hc, Bool.not_true, Bool.false_eq_true, if_false] at h
    cases h1 : splitDot d with
    | none => simp [h1] at h
    | some ab =>
      obtain ⟨hs, rest⟩ := ab
      simp only [h1] at h
      cases h2 : splitDot rest with
      | none => simp [h2] at h
      | some pq =>
        obtain ⟨p, sg⟩ := pq
        simp only [h2] at h
        obtain ⟨e1, n1⟩ := splitDot_spec d hs rest h1
        obtain ⟨e2, n2⟩ := splitDot_spec rest p sg h2
        have ed : d = hs ++ dot :: (p ++ dot :: sg) := by rw [e1, e2]
        obtain ⟨hb, hhb, h⟩ := PO.run_bind_eq_ok o _ _ _ h
        obtain ⟨header, hhdr, h⟩ := PO.run_bind_eq_ok o _ _ _ h
        rw [stage_ok] at hhb hhdr
        have hHO := headerOf_of_runs o hs hb header hhb hhdr
        by_cases ha : cfg.allows header.alg = true
        · simp only [ha, Bool.not_true, Bool.false_eq_true, if_false, PO.run_bind, PO.run_query] at h
          cases hk : Sig.signingKeyOfHandle (o ⟨(findKeyQuery header).name, (findKeyQuery header).args⟩) with
          | none => simp [hk] at h
          | some r =>
            cases r with
            | panic site => simp [hk] at h
            | err c => simp [hk] at h
            | ok sk =>
              simp only [hk] at h
              obtain ⟨sig, hsig, h⟩ := PO.run_bind_eq_ok o _ _ _ h
              obtain ⟨u, hver, h⟩ := PO.run_bind_eq_ok o _ _ _ h
              obtain ⟨payload, hpl, h⟩ := PO.run_bind_eq_ok o _ _ _ h
              rw [stage_ok] at hsig hver hpl
              cases u
              obtain ⟨c, hcl, h⟩ := PO.run_bind_eq_ok o _ _ _ h
              simp only [PO.run_pure] at h
              injection h with h
              injection h with h3 h4
              subst h3; subst h4
              have hacc := (Sig.verifyKey_ok_iff o sk _ _).1 hver
              refine ⟨hs, p, sg, sig, payload, sk, ed, n1, n2, rfl, hHO, ha, ?_,
                (b64Decode_ok o sg sig).1 hsig, ?_, hacc, (b64Decode_ok o p payload).1 hpl, hcl⟩
              · simpa [findKeyQuery] using hk
              · rw [ed]; exact take_signing_input hs p sg
        · simp [ha] at h

theorem claimsOracle_ok (o : Oracle) (payload : Bytes) (c : Wire) :
    (claimsOracle payload).run o = .ok c ↔
      c = o ⟨"c01.jwt.parseClaims", [.bytes payload]⟩ ∧ c.isNone = false := by
  simp only [claimsOracle, PO.run_bind, PO.run_query]
  generalize o ⟨"c01.jwt.parseClaims", [.bytes payload]⟩ = q
  cases q with
  | none =>
    constructor
    · intro h; cases h
    · intro ⟨h1, h2⟩; subst h1; simp [Wire.isNone] at h2
  | _ =>
    constructor
    · intro h; simp only [PO.run_pure] at h; injection h with h; subst h; exact ⟨rfl, rfl⟩
    · intro ⟨h1, _⟩; subst h1; rfl

/-- **jwt_parse_sound** with the claims codec as one abstract step -/
theorem jwt_parse_sound (o : Oracle) (cfg : Cfg) (d : Bytes) (hdr : Header) (claims : Wire)
    (h : (parse cfg d).run o = .ok (hdr, claims)) :
    ∃ hs p sg sig payload sk, d = hs ++ dot :: (p ++ dot :: sg) ∧ dot ∉ hs ∧ dot ∉ p ∧
      cfg.configured = true ∧ HeaderOf o hs hdr ∧ cfg.allows hdr.alg = true ∧
      Sig.signingKeyOfHandle (o ⟨"jwt.findKey", [hdr.toWire]⟩) = some (.ok sk) ∧
      o ⟨"b64url.dec", [.bytes sg]⟩ = .bytes sig ∧
      d.take (hs.length + 1 + p.length) = hs ++ dot :: p ∧
      Sig.PrimAccepts o sk (d.take (hs.length + 1 + p.length)) sig ∧
      o ⟨"b64url.dec", [.bytes p]⟩ = .bytes payload ∧
      claims = o ⟨"c01.jwt.parseClaims", [.bytes payload]⟩ ∧ claims.isNone = false := by
  obtain ⟨hs, p, sg, sig, payload, sk, a1, a2, a3, a4, a5, a6, a7, a8, a9, a10, a11, a12⟩ :=
    parseWith_sound claimsOracle o cfg d hdr claims h
  obtain ⟨c1, c2⟩ := (claimsOracle_ok o payload claims).1 a12
  exact ⟨hs, p, sg, sig, payload, sk, a1, a2, a3, a4, a5, a6, a7, a8, a9, a10, a11, c1, c2⟩

end Model.JWT

/-! ## non-vacuity: concrete tiny messages under a toy oracle satisfy the hypotheses -/
namespace C01.Example
open Model.JWS Model.Sig

/-- the finder's answer: HS256 (weak constructor) over the one-byte secret `07` -/
def toyKey : Wire :=
  .obj [("alg", .str "HS256"), ("weak", .bool true),
        ("key", .obj [("priv", .obj [("t", .str "oct"), ("k", .bytes [7])]), ("canVerify", .bool true)])]

/-- toy standard library: "h" decodes to the header JSON `01`, "p" to the payload `02`, "s" to the
    MAC `09 09`; JSON `01` is `{"alg":"HS256"}`; every HMAC is `09 09`. -/
def toyO : Oracle := fun q =>
  if q.name == "b64url.dec" then
    (match q.args with
     | [.bytes [b]] =>
       if b = 0x68 then .bytes [1] else if b = 0x70 then .bytes [2]
       else if b = 0x73 then .bytes [9, 9] else .none
     | _ => .none)
  else if q.name == "json.decodeMap" then
    (match q.args with
     | [.bytes [1]] => .obj [("alg", .str "HS256")]
     | [.bytes [3]] => .obj [("payload", .str "p"),
         ("signatures", .arr [.obj [("protected", .str "h"), ("signature", .str "x")],
                              .obj [("protected", .str "h"), ("signature", .str "s")]])]
     | _ => .none)
  else if q.name == "findKey" then toyKey
  else if q.name == "jwt.findKey" then toyKey
  else if q.name == "hmac" then .bytes [9, 9]
  else if q.name == "c01.jwt.parseClaims" then .obj []
  else .none

/-- "h.p.s" -/
def toyCompact : Bytes := [0x68, 0x2e, 0x70, 0x2e, 0x73]
def toyCfg : Cfg := { allowed := ["HS256"] }

/-- the compact message verifies and returns the decoded middle segment -/
example : (match (parseCompact toyCompact >>= verify toyCfg).run toyO with
    | .ok (some h, none, p) => h.alg == "HS256" && p == [2]
    | _ => false) = true := by decide

/-- a general-JSON message whose first signature ("x" does not decode) … is refused at parse;
    with two decodable signatures of which only the second carries the right MAC the second one
    is the entry that verifies -/
def toyO2 : Oracle := fun q =>
  if q.name == "b64url.dec" then
    (match q.args with
     | [.bytes [b]] =>
       if b = 0x68 then .bytes [1] else if b = 0x70 then .bytes [2]
       else if b = 0x73 then .bytes [9, 9] else if b = 0x78 then .bytes [8] else .none
     | _ => .none)
  else toyO q

example : (match (parseJSON [3] >>= verify toyCfg).run toyO2 with
    | .ok (some h, none, p) => h.alg == "HS256" && p == [2]
    | _ => false) = true := by decide

/-- `alg` only in the unprotected header, next to a protected header that names none
    (RFC 7515 §4.1.1): the unprotected algorithm is used; a protected `alg` always wins -/
example : ({ prot := some { alg := "" }, header := some { alg := "HS256" } } : Signature).alg = "HS256" := by decide
example : ({ prot := some { alg := "ES256" }, header := some { alg := "none" } } : Signature).alg = "ES256" := by decide

/-- the shape of the defect fixed by 47ca076: entry 0 (junk, anyone can add it) has a protected header
    with `b64:false`, entry 1 — the one that would verify — has only an unprotected header.  The
    parser refuses the message (b64 mismatch); before the fix it was accepted and the base64url TEXT
    of the payload was returned. -/
def toyO3 : Oracle := fun q =>
  if q.name == "json.decodeMap" then
    (match q.args with
     | [.bytes [4]] => .obj [("alg", .str "HS256"), ("b64", .bool false)]
     | [.bytes [5]] => .obj [("payload", .str "p"),
         ("signatures", .arr [.obj [("protected", .str "k"), ("signature", .str "s")],
                              .obj [("header", .obj [("alg", .str "HS256")]), ("signature", .str "s")]])]
     | _ => toyO2 q)
  else if q.name == "b64url.dec" then
    (match q.args with
     | [.bytes [0x6b]] => .bytes [4]
     | _ => toyO2 q)
  else toyO2 q

example : (match (parseJSON [5] >>= verify toyCfg).run toyO3 with
    | .err c => c == "parse"
    | _ => false) = true := by decide

/-- a forged MAC is refused -/
example : (match (parseCompact [0x68, 0x2e, 0x70, 0x2e, 0x78] >>= verify toyCfg).run toyO2 with
    | .err c => c == "verify"
    | _ => false) = true := by decide

/-- the JWT front half accepts the same compact message -/
example : (match (Model.JWT.parse { allowed := ["HS256"] } toyCompact).run toyO with
    | .ok (h, _) => h.alg == "HS256"
    | _ => false) = true := by decide

/-- `PrimAccepts` is satisfiable and not trivially true -/
example : PrimAccepts toyO (.hs .sha256 [7] true true) [1] [9, 9] := by
  simp [PrimAccepts, toyO]
example : ¬ PrimAccepts toyO (.hs .sha256 [7] true true) [1] [9] := by
  simp [PrimAccepts, toyO]

end C01.Example
